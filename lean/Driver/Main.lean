import TaskctlVerif.Model.Graph
import TaskctlVerif.Model.Sched
/-!
Line-protocol oracle: one case per line on stdin (`<family> <payload>`), one observation per line on
stdout.  Compiled from exactly the definitions the theorems are about (core Lean only).
-/

def splitNonEmpty (s : String) (sep : String) : List String :=
  (s.splitOn sep).filter (· ≠ "")

def dedup (l : List String) : List String :=
  l.foldl (fun acc x => if x ∈ acc then acc else acc ++ [x]) []

def sortStrings (l : List String) : List String := l.mergeSort (fun a b => a ≤ b)

/-- `graph A:B,C;B:;C:A` -/
def graphCase (payload : String) : String :=
  let stages : List (Graph.Stage String) := (splitNonEmpty payload ";").map fun st =>
    match st.splitOn ":" with
    | [n, ds] => { name := n, deps := splitNonEmpty ds "," }
    | [n] => { name := n, deps := [] }
    | _ => { name := st, deps := [] }
  match Graph.build stages with
  | none => "err"
  | some es =>
    let names := sortStrings (dedup (stages.flatMap fun s => s.name :: s.deps))
    let tos := names.map fun n => s!"to {n}={",".intercalate (Graph.toOf es n)}"
    let froms := names.map fun n => s!"from {n}={",".intercalate (Graph.fromOf es n)}"
    "ok|" ++ "|".intercalate (tos ++ froms)

/-! ### scheduler cases -/

def kv (fields : List String) (key : String) : String :=
  match fields.find? (fun f => f.startsWith (key ++ "=")) with
  | some f => (f.drop (key.length + 1)).toString
  | none => ""

def natList (s : String) (sep : String) : List Nat :=
  (splitNonEmpty s sep).filterMap (·.toNat?)

def statusCode : Sched.Status → Nat
  | .waiting => 0 | .running => 1 | .skipped => 2 | .done => 3 | .error => 4 | .canceled => 5

/-- `sched n=4 deps=-;0;0;1,2 allow=0010 cond=nnfn ok=1101 rel=0|2,1|3` -/
def schedCase (fields : List String) : String :=
  let n := (kv fields "n").toNat?.getD 0
  let depsL : List (List Nat) := ((kv fields "deps").splitOn ";").map fun d => if d = "-" then [] else natList d ","
  let allowL := (kv fields "allow").toList.map (· == '1')
  let okL := (kv fields "ok").toList.map (· == '1')
  let condL : List Sched.Cond := (kv fields "cond").toList.map fun ch =>
    match ch with
    | 't' => .meets | 'f' => .fails | 'e' => .err | _ => .none
  let c : Sched.Cfg := { deps := fun s => depsL.getD s [], allow := fun s => allowL.getD s false,
                         cond := fun s => condL.getD s .none }
  let rel : List (List Nat) := (splitNonEmpty (kv fields "rel") "|").map fun b => natList b ","
  let inflight (σ : Sched.St) : String :=
    ",".intercalate (((List.range n).filter fun s => decide (σ.g s = .inRun)).map toString)
  let settle (σ : Sched.St) : Sched.St := Sched.passes c n (n + 2) σ
  let σ0 := settle Sched.init
  let (σ, qs) := rel.foldl (fun (acc : Sched.St × List String) batch =>
      let σ1 := batch.foldl (fun σ s => Sched.step c (Sched.step c σ (.ret s (okL.getD s true))) (.post s)) acc.1
      let σ2 := settle σ1
      (σ2, acc.2 ++ ["q=" ++ inflight σ2])) (σ0, ["q=" ++ inflight σ0])
  let final := ",".intercalate ((List.range n).map fun s => toString (statusCode (σ.status s)))
  let runs := ",".intercalate ((List.range n).map fun s => toString (σ.starts s))
  "|".intercalate qs ++ s!"|final={final}|err={if σ.gerr then 1 else 0}|runs={runs}"

def handle (line : String) : String :=
  let line := line.trimAscii.toString
  match line.splitOn " " with
  | "graph" :: rest => graphCase (" ".intercalate rest)
  | "sched" :: rest => schedCase rest
  | _ => "bad-op"

partial def loop (h : IO.FS.Stream) (out : IO.FS.Stream) : IO Unit := do
  let line ← h.getLine
  if line.isEmpty then return ()
  out.putStrLn (handle line)
  loop h out

def main : IO Unit := do
  let out ← IO.getStdout
  loop (← IO.getStdin) out
  out.flush
