import TaskctlVerif.Model.Graph
/-!
Line-protocol oracle: one case per line on stdin (`<family> <payload>`), one observation per line on
stdout.  Compiled from exactly the definitions the theorems are about (core Lean only).
-/

def splitNonEmpty (s : String) (sep : String) : List String :=
  (s.splitOn sep).filter (· ≠ "")

def dedup (l : List String) : List String :=
  l.foldl (fun acc x => if x ∈ acc then acc else acc ++ [x]) []

def sortStrings (l : List String) : List String := l.mergeSort (fun a b => a ≤ b)

/-- `graph A:B,C;B:;C:A` -/
def graphCase (payload : String) : String :=
  let stages : List (Graph.Stage String) := (splitNonEmpty payload ";").map fun st =>
    match st.splitOn ":" with
    | [n, ds] => { name := n, deps := splitNonEmpty ds "," }
    | [n] => { name := n, deps := [] }
    | _ => { name := st, deps := [] }
  match Graph.build stages with
  | none => "err"
  | some es =>
    let names := sortStrings (dedup (stages.flatMap fun s => s.name :: s.deps))
    let tos := names.map fun n => s!"to {n}={",".intercalate (Graph.toOf es n)}"
    let froms := names.map fun n => s!"from {n}={",".intercalate (Graph.fromOf es n)}"
    "ok|" ++ "|".intercalate (tos ++ froms)

def handle (line : String) : String :=
  let line := line.trimAscii.toString
  match line.splitOn " " with
  | "graph" :: rest => graphCase (" ".intercalate rest)
  | _ => "bad-op"

partial def loop (h : IO.FS.Stream) (out : IO.FS.Stream) : IO Unit := do
  let line ← h.getLine
  if line.isEmpty then return ()
  out.putStrLn (handle line)
  loop h out

def main : IO Unit := do
  let out ← IO.getStdout
  loop (← IO.getStdin) out
  out.flush
