import TaskctlVerif.Model.Graph
import TaskctlVerif.Model.Sched
import TaskctlVerif.Model.Nested
import TaskctlVerif.Model.Tree
import TaskctlVerif.Model.Runner
import TaskctlVerif.Model.Timeout
import TaskctlVerif.Model.Cli
import TaskctlVerif.Model.Cancel
import TaskctlVerif.Model.CtxHooks
import TaskctlVerif.Model.Layers
import TaskctlVerif.Model.Vars
import TaskctlVerif.Model.Capture
import TaskctlVerif.Model.Imports
import TaskctlVerif.Model.GlobalCfg
import TaskctlVerif.Model.Normalise
import TaskctlVerif.Model.VarsHeap
import TaskctlVerif.Model.Derived
import TaskctlVerif.Model.Refs
import TaskctlVerif.Model.Loader
import TaskctlVerif.Model.Output
import TaskctlVerif.Model.Decode
import TaskctlVerif.Model.Glob
/-!
Line-protocol oracle: one case per line on stdin (`<family> <payload>`), one observation per line on
stdout.  Compiled from exactly the definitions the theorems are about (core Lean only).
-/

def splitNonEmpty (s : String) (sep : String) : List String :=
  (s.splitOn sep).filter (· ≠ "")

def dedup (l : List String) : List String :=
  l.foldl (fun acc x => if x ∈ acc then acc else acc ++ [x]) []

def sortStrings (l : List String) : List String := l.mergeSort (fun a b => a ≤ b)

/-- `graph A:B,C;B:;C:A` -/
def graphCase (payload : String) : String :=
  let stages : List (Graph.Stage String) := (splitNonEmpty payload ";").map fun st =>
    match st.splitOn ":" with
    | [n, ds] => { name := n, deps := splitNonEmpty ds "," }
    | [n] => { name := n, deps := [] }
    | _ => { name := st, deps := [] }
  match Graph.build stages with
  | none => "err"
  | some es =>
    let names := sortStrings (dedup (stages.flatMap fun s => s.name :: s.deps))
    let tos := names.map fun n => s!"to {n}={",".intercalate (Graph.toOf es n)}"
    let froms := names.map fun n => s!"from {n}={",".intercalate (Graph.fromOf es n)}"
    "ok|" ++ "|".intercalate (tos ++ froms)

/-! ### scheduler cases -/

def kv (fields : List String) (key : String) : String :=
  match fields.find? (fun f => f.startsWith (key ++ "=")) with
  | some f => (f.drop (key.length + 1)).toString
  | none => ""

def natList (s : String) (sep : String) : List Nat :=
  (splitNonEmpty s sep).filterMap (·.toNat?)

def statusCode : Sched.Status → Nat
  | .waiting => 0 | .running => 1 | .skipped => 2 | .done => 3 | .error => 4 | .canceled => 5

/-- `sched n=4 deps=-;0;0;1,2 allow=0010 cond=nnfn ok=1101 rel=0|2,1|3` -/
def schedCase (fields : List String) : String :=
  let n := (kv fields "n").toNat?.getD 0
  let depsL : List (List Nat) := ((kv fields "deps").splitOn ";").map fun d => if d = "-" then [] else natList d ","
  let allowL := (kv fields "allow").toList.map (· == '1')
  let okL := (kv fields "ok").toList.map (· == '1')
  let condL : List Sched.Cond := (kv fields "cond").toList.map fun ch =>
    match ch with
    | 't' => .meets | 'f' => .fails | 'e' => .err | _ => .none
  let c : Sched.Cfg := { deps := fun s => depsL.getD s [], allow := fun s => allowL.getD s false,
                         cond := fun s => condL.getD s .none }
  let rel : List (List Nat) := (splitNonEmpty (kv fields "rel") "|").map fun b => natList b ","
  let inflight (σ : Sched.St) : String :=
    ",".intercalate (((List.range n).filter fun s => decide (σ.g s = .inRun)).map toString)
  let settle (σ : Sched.St) : Sched.St := Sched.passes c n (n + 2) σ
  let σ0 := settle Sched.init
  let (σ, qs) := rel.foldl (fun (acc : Sched.St × List String) batch =>
      let σ1 := batch.foldl (fun σ s => Sched.step c (Sched.step c σ (.ret s (okL.getD s true))) (.post s)) acc.1
      let σ2 := settle σ1
      (σ2, acc.2 ++ ["q=" ++ inflight σ2])) (σ0, ["q=" ++ inflight σ0])
  let final := ",".intercalate ((List.range n).map fun s => toString (statusCode (σ.status s)))
  let runs := ",".intercalate ((List.range n).map fun s => toString (σ.starts s))
  "|".intercalate qs ++ s!"|final={final}|err={if σ.gerr then 1 else 0}|runs={runs}"

def parseSchedCfg (n : Nat) (deps allow cond ok : String) : Sched.Cfg × (Nat → Bool) :=
  let depsL : List (List Nat) := (deps.splitOn ";").map fun d => if d = "-" then [] else natList d ","
  let allowL := allow.toList.map (· == '1')
  let okL := ok.toList.map (· == '1')
  let condL : List Sched.Cond := cond.toList.map fun ch =>
    match ch with
    | 't' => .meets | 'f' => .fails | 'e' => .err | _ => .none
  let _ := n
  ({ deps := fun s => depsL.getD s [], allow := fun s => allowL.getD s false, cond := fun s => condL.getD s .none },
   fun s => okL.getD s true)

def finalStr (n : Nat) (σ : Sched.St) : String :=
  ",".intercalate ((List.range n).map fun s => toString (statusCode (σ.status s))) ++ "/" ++
  ",".intercalate ((List.range n).map fun s => toString (σ.starts s))

/-- `nested n=3 deps=-;0;1 allow=000 cond=nnn ok=111 in=1:2:-;0:00:nn:10 in=2:…` : the final statuses and run
counts of an outer pipeline and of the inner pipelines of its nested stages (fair complete run) -/
def nestedCase (fields : List String) : String :=
  let n := (kv fields "n").toNat?.getD 0
  let (co, okf) := parseSchedCfg n (kv fields "deps") (kv fields "allow") (kv fields "cond") (kv fields "ok")
  let ins : List Sched.NestedStage := (fields.filter (·.startsWith "in=")).filterMap fun f =>
    match ((f.drop 3).toString.splitOn ":") with
    | [s, ni, deps, allow, cond, ok] =>
      let ni' := ni.toNat?.getD 0
      let (ci, okfi) := parseSchedCfg ni' deps allow cond ok
      some { S := s.toNat?.getD 0, ci := ci, okf := okfi, ni := ni' }
    | _ => none
  let σ := Sched.nestedOuterFinal co okf n ins
  let inner := ins.map fun ns => s!"in{ns.S}=" ++ finalStr ns.ni (Sched.nestedInnerFinal co okf n ins ns)
  s!"final={finalStr n σ}|err={if σ.gerr then 1 else 0}|" ++ "|".intercalate inner

/-- `tree node=-:3:-;0;1:000:nnn:111 node=1:2:-;0:00:nn:10 node=1.0:2:…` : pipelines nested to any depth, each
addressed by the stage indices leading to it (outermost first, `-` is the root); answer: the final statuses and
run counts of every pipeline, in the order given -/
def treeCase (fields : List String) : String :=
  let nodes : List (String × Sched.TNode) := (fields.filter (·.startsWith "node=")).filterMap fun f =>
    match ((f.drop 5).toString.splitOn ":") with
    | [path, n, deps, allow, cond, ok] =>
      let n' := n.toNat?.getD 0
      let (c, okf) := parseSchedCfg n' deps allow cond ok
      let p : List Nat := if path = "-" then [] else (natList path ".").reverse
      some (path, { p := p, n := n', cfg := c, okf := okf })
    | _ => none
  let tn := nodes.map (·.2)
  let fuel := nodes.length + 1
  let root := Sched.treeFinal tn fuel []
  s!"err={if root.gerr then 1 else 0}|" ++
    "|".intercalate (nodes.map fun (path, nd) => s!"{path}=" ++ finalStr nd.n (Sched.treeFinal tn fuel nd.p))

/-! ### the variables container -/

/-- `varsops n s0:a=x n m0,1 w2:b=_ g3:a h3:c d3` : operations on a heap of containers (`_` is the empty string) -/
def varsopsCase (fields : List String) : String :=
  let un (x : String) : String := if x = "_" then "" else x
  let kvOf (x : String) : String × String :=
    match x.splitOn "=" with
    | [k, v] => (un k, un v)
    | _ => (un x, "")
  let ops : List VarsHeap.Op := fields.filterMap fun f =>
    match f.toList with
    | ['n'] => some .new
    | 's' :: r => (match (String.ofList r).splitOn ":" with
        | [c, e] => c.toNat?.map fun ci => .set ci (kvOf e).1 (kvOf e).2
        | _ => none)
    | 'w' :: r => (match (String.ofList r).splitOn ":" with
        | [c, e] => c.toNat?.map fun ci => .with_ ci (kvOf e).1 (kvOf e).2
        | _ => none)
    | 'g' :: r => (match (String.ofList r).splitOn ":" with
        | [c, k] => c.toNat?.map fun ci => .get ci (un k)
        | _ => none)
    | 'h' :: r => (match (String.ofList r).splitOn ":" with
        | [c, k] => c.toNat?.map fun ci => .has ci (un k)
        | _ => none)
    | 'm' :: r => (match (String.ofList r).splitOn "," with
        | [a, b] => (match a.toNat?, b.toNat? with
            | some x, some y => some (.merge x y)
            | _, _ => none)
        | _ => none)
    | 'd' :: r => (String.ofList r).toNat?.map .dump
    | _ => none
  "|".intercalate (VarsHeap.runOps [] ops).2

/-! ### kinds of the nodes of raw documents -/

/-- a sequence of trees: `L` leaf, `I(..)` interface-keyed mapping, `S(..)` string-keyed mapping, `A(..)` plain list,
`M(..)` list of tables; fuel bounds the input length -/
partial def parseTrees : List Char → List Normalise.V × List Char
  | [] => ([], [])
  | ')' :: rest => ([], rest)
  | 'L' :: rest =>
    let (vs, r) := parseTrees rest
    (Normalise.V.leaf :: vs, r)
  | c :: '(' :: rest =>
    let k : Normalise.Kind := match c with
      | 'I' => .mapI | 'S' => .mapS | 'M' => .listM | _ => .listI
    let (children, r1) := parseTrees rest
    let (vs, r2) := parseTrees r1
    (Normalise.V.node k children :: vs, r2)
  | _ :: rest => parseTrees rest

mutual
partial def showTree : Normalise.V → String
  | .leaf => "L"
  | .node k cs =>
    (match k with | .mapI => "I" | .mapS => "S" | .listI => "A" | .listM => "M") ++ "(" ++ showTrees cs ++ ")"
partial def showTrees : List Normalise.V → String
  | [] => ""
  | c :: cs => showTree c ++ showTrees cs
end

/-- `unify a=S(L)A(L) b=I(L)` : the top-level values of two documents; answer: both after `unifyMapKinds` -/
def unifyCase (fields : List String) : String :=
  let a := (parseTrees (kv fields "a").toList).1
  let b := (parseTrees (kv fields "b").toList).1
  let r := Normalise.unify a b
  s!"a={showTrees r.1} b={showTrees r.2}"

/-- `gsplit g=t:d0,c:d1,v:d2 p=t:d3` : definitions (t task, c context, v variable) in the global and in the project
file; answer: the names a project sees, per section, sorted -/
def gsplitCase (fields : List String) : String :=
  let parse (s : String) : GlobalCfg.Cfg String :=
    let items := (splitNonEmpty s ",").filterMap fun e =>
      match e.splitOn ":" with
      | [k, n] => some (k, n)
      | _ => none
    let sect (k : String) : GlobalCfg.Sect String := (items.filter (·.1 == k)).map fun e => (e.2, e.2)
    { tasks := sect "t", contexts := sect "c", variables := sect "v" }
  let r := GlobalCfg.load (parse (kv fields "g")) (parse (kv fields "p"))
  let names (s : GlobalCfg.Sect String) : String := ",".intercalate ((GlobalCfg.keys s).toArray.qsort (· < ·)).toList
  s!"t={names r.tasks}|c={names r.contexts}|v={names r.variables}"

/-- `cockpit a1 r1 r7 a2 f r2`: starts (`a`), finishes (`r`) and frames (`f`) of numbered tasks, then the
cockpit is closed: the "Finished" lines printed, in order -/
def cockpitCase (fields : List String) : String :=
  let acts : List Out.CPAct := fields.filterMap fun f =>
    if f = "f" then some .frame
    else match f.toList with
      | 'a' :: r => (String.ofList r).toNat?.map .add
      | 'r' :: r => (String.ofList r).toNat?.map .remove
      | _ => none
  let σ := Out.cpRun Out.cpInit (acts ++ [.close])
  "finished=" ++ ",".intercalate (σ.printed.map toString)

/-! ### runner cases -/

def parseRes (s : String) : Runner.CmdResult :=
  if s = "f" then .fault
  else if s = "x" then .norender
  else if s.startsWith "e" then .exit (BitVec.ofNat 8 ((s.drop 1).toString.toNat?.getD 0))
  else .fault

def parseResList (s : String) : List Runner.CmdResult :=
  if s = "-" then [] else (splitNonEmpty s ",").map parseRes

def tokStr : Runner.Tok → String
  | .cond => "c"
  | .before i => s!"b{i}"
  | .cmd v j => s!"m{v}.{j}"
  | .after i => s!"a{i}"

def b2s (b : Bool) : String := if b then "1" else "0"

/-- `runner cond=- before=e0,e3 n=2 vars=- res=e0,e5 after=- allow=0 init=-1` -/
def runnerCase (fields : List String) : String :=
  let n := (kv fields "n").toNat?.getD 0
  let vars := (kv fields "vars").toNat?
  let resL := parseResList (kv fields "res")
  let cond := if kv fields "cond" = "-" then none else some (parseRes (kv fields "cond"))
  let t : Runner.TaskSpec := {
    cond := cond, before := parseResList (kv fields "before"), nCmds := n, vars := vars,
    res := fun v j => resL.getD (v * n + j) (.exit 0), after := parseResList (kv fields "after"),
    allow := kv fields "allow" = "1",
    initExit := if kv fields "init" = "-1" then (-1 : BitVec 16) else 0 }
  let o := Runner.runTask t
  s!"trace={",".intercalate (o.trace.map tokStr)}|err={b2s o.err}|errored={b2s o.errored}|skipped={b2s o.skipped}|exit={o.exitCode.toInt}"

/-! ### command-line cases -/

/-- `cli ok=t1:1,t2:0 args=t1 t2 -- x` -/
def cliCase (line : String) : String :=
  match line.splitOn " args=" with
  | [hd, args] =>
    let okL := (splitNonEmpty ((hd.splitOn "ok=").getD 1 "") ",").map fun e =>
      match e.splitOn ":" with
      | [n, b] => (n, b == "1")
      | _ => (e, false)
    let ok (t : String) : Bool := (okL.lookup t).getD false
    let r := Cli.cli ok (splitNonEmpty args " ")
    let ran := r.1.filter (fun t => (okL.lookup t).isSome)
    s!"ran={",".intercalate ran}|exit={r.2}"
  | _ => "bad-op"

/-! ### cancellation scenarios -/

/-- `cancel inflight=2 twice=1`: k runs with 2 commands each are inside their first command, Cancel is
called, the commands are interrupted, Cancel returns, a late run is attempted (and a second Cancel) -/
def cancelCase (fields : List String) : String :=
  let k := (kv fields "inflight").toNat?.getD 0
  let twice := kv fields "twice" = "1"
  let ids := List.range k
  let acts : List Cancel.Act :=
    ids.map (fun i => .enter i 2) ++ ids.map (fun i => .startCmd i) ++ [.cancelCall 0] ++
    ids.map (fun i => .endCmd i false) ++ [.cancelRet 0, .enter k 1, .startCmd k] ++
    (if twice then [.cancelCall 1, .cancelRet 1] else [])
  let σ := Cancel.run Cancel.init acts
  let before := (Cancel.run Cancel.init (ids.map (fun i => .enter i 2) ++ ids.map (fun i => .startCmd i))).started.length
  let errs := ids.map fun i => match σ.phase i with | .done true => "1" | _ => "0"
  let late := match σ.phase k with | .done true => "1" | _ => "0"
  s!"cret={b2s (σ.cret 0)}|errs={",".intercalate errs}|late_err={late}|started_after={σ.started.length - before}|cret2={b2s (!twice || σ.cret 1)}"

/-! ### execution-context hooks -/

/-- `hooks ctx=0,0,1 upfail=01`: runs 0.. with their context, per-context `up` outcome; the model runs
the canonical sequential schedule and reports per-context hook counts -/
def hooksCase (fields : List String) : String :=
  let ctxL := natList (kv fields "ctx") ","
  let upf := (kv fields "upfail").toList.map (· == '1')
  let cfg : Hooks.Cfg := { n := ctxL.length, ctxOf := fun r => ctxL.getD r 0, upFails := fun c => upf.getD c false }
  let ncx := upf.length
  let σ := Hooks.run cfg Hooks.init (Hooks.sequential cfg ncx)
  let cnt (p : Hooks.Tok → Bool) : Nat := (σ.log.filter p).length
  "|".intercalate ((List.range ncx).map fun c =>
    let up := cnt (fun t => match t with | .up c' => c' == c | _ => false)
    let bf := cnt (fun t => match t with | .before c' _ => c' == c | _ => false)
    let af := cnt (fun t => match t with | .after c' _ => c' == c | _ => false)
    let dn := cnt (fun t => match t with | .down c' => c' == c | _ => false)
    s!"c{c}:up={up},before={bf},after={af},down={dn}")

/-- `timed T=150 cond=- cdur=0 before=e0 bdur=10 n=3 vars=- res=e0,e0,e0 dur=10,30000,10 after=e0 adur=10 allow=1 init=0` -/
def timedCase (fields : List String) : String :=
  let n := (kv fields "n").toNat?.getD 0
  let vars := (kv fields "vars").toNat?
  let resL := parseResList (kv fields "res")
  let durL := natList (kv fields "dur") ","
  let cond := if kv fields "cond" = "-" then none else some (parseRes (kv fields "cond"))
  let t : Runner.TaskSpec := {
    cond := cond, before := parseResList (kv fields "before"), nCmds := n, vars := vars,
    res := fun v j => resL.getD (v * n + j) (.exit 0), after := parseResList (kv fields "after"),
    allow := kv fields "allow" = "1",
    initExit := if kv fields "init" = "-1" then (-1 : BitVec 16) else 0 }
  let D : Runner.Durations := {
    cond := (kv fields "cdur").toNat?.getD 0, before := natList (kv fields "bdur") ",",
    job := fun v j => durL.getD (v * n + j) 0, after := natList (kv fields "adur") "," }
  let o := Runner.runTask (Runner.timed t ((kv fields "T").toNat?) D)
  s!"trace={",".intercalate (o.trace.map tokStr)}|err={b2s o.err}|errored={b2s o.errored}|skipped={b2s o.skipped}|exit={o.exitCode.toInt}"

/-! ### layering -/

/-- `env parent=u-parent context=q-context task=…` -/
def envCase (fields : List String) : String :=
  let lvl (n : String) : Layers.Env String :=
    match fields.find? (fun f => f.startsWith (n ++ "=")) with
    | some f => [("VAL", (f.drop (n.length + 1)).toString)]
    | none => []
  let L : Layers.EnvLevels String :=
    { parent := lvl "parent", runner := [("ARGS", "")], context := lvl "context", envFile := lvl "envfile",
      task := lvl "task", stage := lvl "stage", variation := lvl "variation" }
  s!"N={(Layers.get (Layers.procEnv L.parent (Layers.jobEnv L "t")) "VAL").getD ""}"

/-- `dir stage=1 task=0 ctx=1` -/
def dirCase (fields : List String) : String :=
  let d (k v : String) := if kv fields k = "1" then v else ""
  let r := Layers.jobDir (d "stage" "sd") (d "task" "td") (d "ctx" "cd") "start"
  s!"cond={r} before={r} cmd={r} after={r}"

def parseEnvList (s : String) : Layers.Env String :=
  if s = "-" then [] else (splitNonEmpty s ",").filterMap fun e =>
    match e.splitOn "=" with
    | [k, v] => some (k, v)
    | _ => none

/-- `layers task=<env>/<vars>/<dir> stages=<env>/<vars>/<dir>;…` (a dash for empty): what each stage execution and a later direct
run receive, for the canonical schedule "all copies, all runs, write-backs, direct run" -/
def layersCase (fields : List String) : String :=
  let cfg3 (s : String) : (Layers.Env String × Layers.Env String × String) :=
    match s.splitOn "/" with
    | [e, v, d] => (parseEnvList e, parseEnvList v, if d = "-" then "" else d)
    | _ => ([], [], "")
  let (te, tv, td) := cfg3 (kv fields "task")
  let t₀ : Layers.TaskCfg String := { env := te, vars := tv, dir := td }
  let ovs := ((kv fields "stages").splitOn ";").map cfg3
  let ov (i : Nat) : Layers.StageOv String :=
    match ovs.getD i ([], [], "") with
    | (e, v, d) => { env := e, vars := v, dir := d }
  let n := ovs.length
  let acts := (List.range n).map Layers.Act.copy ++ (List.range n).reverse.map Layers.Act.run ++
    (List.range n).map Layers.Act.writeback ++ [Layers.Act.direct]
  let σ := Layers.run ov (Layers.init t₀) acts
  let showCfg (c : Option (Layers.TaskCfg String)) : String :=
    match c with
    | some c => s!"A={(Layers.get c.env "A").getD ""} B={(Layers.get c.env "B").getD ""} x={(Layers.get c.vars "x").getD ""} y={(Layers.get c.vars "y").getD ""} dir={if c.dir = "" then "-" else c.dir}"
    | none => "none"
  "|".intercalate ((List.range n).map (fun i => s!"s{i}:" ++ showCfg (σ.seen i)) ++ ["direct:" ++ showCfg σ.direct])

/-- `vars config=a-config set=f-set task=… stage=…` -/
def varsCase (fields : List String) : String :=
  let lvl (n : String) : Layers.Env String :=
    match fields.find? (fun f => f.startsWith (n ++ "=")) with
    | some f => [("V", (f.drop (n.length + 1)).toString)]
    | none => []
  let L : Vars.VarLevels String :=
    { defaults := [("TempDir", "/tmp")], globalF := [], project := lvl "config", root := "/root",
      set := lvl "set", args := "", argsList := "", task := lvl "task", stage := lvl "stage" }
  match Layers.get (Vars.taskVars L) "V" with
  | some v => s!"V={v}"
  | none => "V=<undefined:failed>"

/-- `args w1␟w2␟--␟w3` (unit separator between words) -/
def argsCase (line : String) : String :=
  let words := ((line.drop 5).toString).splitOn "\x1f"
  let q (ws : List String) : String := "".intercalate (ws.map fun w => "<" ++ w ++ ">")
  let ta := Cli.taskArgs words
  let args := " ".intercalate ta
  s!"ARGS=[{args}] LIST=[{q ta}] ENV=[{args}] targets={",".intercalate (Cli.targetsOf words)}"

/-- `envname 612d62` (hex of the ASCII task name) -/
def hexVal (c : Char) : Nat :=
  if c.isDigit then c.toNat - 48 else if 'a' ≤ c ∧ c ≤ 'f' then c.toNat - 87 else 0

def hexBytes : List Char → List Nat
  | a :: b :: rest => (hexVal a * 16 + hexVal b) :: hexBytes rest
  | _ => []

def envnameCase (fields : List String) : String :=
  let name := hexBytes ((fields.getD 0 "").toList)
  String.ofList ((Capture.envName name).map Char.ofNat)

/-- `imports n=3 edges=0>1,1>2,2>0 broken=1:missing` (or `edges=-`, `broken=-`) -/
def importsCase (fields : List String) : String :=
  let n := (kv fields "n").toNat?.getD 0
  let es : List (Nat × Nat) := (splitNonEmpty (kv fields "edges") ",").filterMap fun e =>
    match e.splitOn ">" with
    | [a, b] => match a.toNat?, b.toNat? with
      | some a, some b => some (a, b)
      | _, _ => none
    | _ => none
  let broken : Option (Nat × Imports.FStatus) :=
    match (kv fields "broken").splitOn ":" with
    | [i, k] => i.toNat?.map fun i => (i, if k = "missing" then .missing else .unparsable)
    | _ => none
  let fs : Imports.FS :=
    { imports := fun f => (es.filter (·.1 == f)).map (·.2),
      status := fun f => match broken with
        | some (i, st) => if f = i then st else .ok
        | none => .ok }
  match Imports.loadRoot fs n 0 with
  | .ok _ c =>
    let sorted := c.mergeSort (· ≤ ·)
    "ok:" ++ ",".intercalate (sorted.map fun f => s!"{f}=1")
  | .err => "err"
  | .outOfFuel => "out-of-fuel"

/-- `refs tasks=… watch=… pipes=<pipeline>=<stage>/<t:task or p:pipeline>/<deps joined by + or a dash>;…|…` -/
def refsCase (fields : List String) : String :=
  let tasks := splitNonEmpty (kv fields "tasks") ","
  let watch := if kv fields "watch" = "-" then [] else splitNonEmpty (kv fields "watch") ","
  let pipes : List (String × List Refs.StageDef) := (splitNonEmpty (kv fields "pipes") "|").filterMap fun pd =>
    match pd.splitOn "=" with
    | [pn, body] =>
      some (pn, (splitNonEmpty body ";").filterMap fun sd =>
        match sd.splitOn "/" with
        | [nm, ref, deps] =>
          let ds := if deps = "-" then [] else splitNonEmpty deps "+"
          if ref.startsWith "t:" then some { name := nm, task := some (ref.drop 2).toString, pipeline := "", deps := ds }
          else some { name := nm, task := none, pipeline := (ref.drop 2).toString, deps := ds }
        | _ => none)
    | [pn] => some (pn, [])
    | _ => none
  if Refs.accept { tasks := tasks, pipelines := pipes, watchers := watch } then "accept" else "reject"

/-! ### loader shapes -/

def hexStr (cs : List Char) : String :=
  let hd (n : Nat) : Char := if n < 10 then Char.ofNat (48 + n) else Char.ofNat (87 + n)
  String.ofList (cs.flatMap fun c => [hd (c.toNat / 16), hd (c.toNat % 16)])

/-- `derived r=Who:L67,GreetG:L68656c6c6f2d;RWho t=- s=Who:L7331 q=GreetG,Who` : the runner's, the task's and the
stage's variables (`name:seg;seg`, a segment is `L<hex of the literal>`, or `R<name>` / `I<name>` / `W<name>` for a reference written `{{ .name }}` / with `index` / with `with`) and the names the command
prints. Answer: `FAIL` when the rendering loop fails (a visited variable refers to nothing), `nonflat` when a reference
names a value that is itself a template (not modelled), else `name=<hex of what the command sees>` per queried name -/
def derivedCase (fields : List String) : String :=
  let parseSeg (x : String) : Derived.Seg :=
    match x.toList with
    | 'R' :: r => .ref (String.ofList r) none
    | 'I' :: r => .ref (String.ofList r) (some "<no value>")
    | 'W' :: r => .ref (String.ofList r) (some "")
    | 'L' :: r => .lit (String.ofList ((hexBytes r).map Char.ofNat))
    | _ => .lit ""
  let parseEnv (x : String) : Layers.Env Derived.Tmpl :=
    if x = "-" then [] else
    (splitNonEmpty x ",").filterMap fun e =>
      match e.splitOn ":" with
      | [k, segs] => some (k, (splitNonEmpty segs ";").map parseSeg)
      | [k] => some (k, [])
      | _ => none
  let m := Derived.execVars (parseEnv (kv fields "r")) (parseEnv (kv fields "t")) (parseEnv (kv fields "s"))
  if !Derived.flatB m then "nonflat" else
  match Derived.loop m (dedup (m.map (·.1))) with
  | none => "FAIL"
  | some m' =>
    " ".intercalate ((splitNonEmpty (kv fields "q") ",").map fun k =>
      match Layers.get m' k with
      | some t => s!"{k}={hexStr (Derived.text t).toList}"
      | none => s!"{k}=!")

/-- `condverdict c=1 e=nonzero` : a condition command that ended with exit status 0 / another exit status / no exit
status, with the run cancelled by then or not. Answer: what is observed of the task or stage - `ran` (its commands ran),
`skipped`, or `error` (also a task that goes on after a cancellation: its commands refuse to start) -/
def condverdictCase (fields : List String) : String :=
  let c := kv fields "c" == "1"
  let e : Cancel.CondEnd := match kv fields "e" with
    | "zero" => .zero
    | "nonzero" => .nonzero
    | _ => .killed
  match Cancel.condVerdict c e with
  | .proceed => if c then "error" else "ran"
  | .skipped => "skipped"
  | .error => "error"

/-- `envfile 413d62,,433d64` : comma-separated hex of each line (ASCII) -/
def envfileCase (fields : List String) : String :=
  let lines : List (List Char) := ((fields.getD 0 "").splitOn ",").map fun h => (hexBytes h.toList).map Char.ofNat
  match Loader.readEnvLines lines with
  | .ok m =>
    -- Go builds a map: the last occurrence of a name wins; canonical = sorted by name
    let dedup := m.foldl (fun acc (kv : List Char × List Char) => (acc.filter (·.1 != kv.1)) ++ [kv]) []
    let strs := dedup.map fun kv => hexStr kv.1 ++ "=" ++ hexStr kv.2
    "ok:" ++ ",".intercalate (sortStrings strs)
  | .err => "err"
  | .panic => "panic"

/-- `impshape null|str|num|bool|map|list:str,num,…` -/
def impshapeCase (fields : List String) : String :=
  let mk (k : String) : Loader.Value :=
    if k = "str" then .str "x.yaml" else if k = "num" then .num 3 else if k = "bool" then .bool true
    else if k = "map" then .map [] else if k = "list" then .list [] else .null
  let shape := fields.getD 0 ""
  let v : Loader.Value :=
    if shape.startsWith "list:" then .list ((splitNonEmpty (shape.drop 5).toString ",").map mk) else mk shape
  match Loader.importList v with
  | .panic => "panic"
  | _ => "nopanic"

/-- `prefixed 61620a,63` : the write calls (hex) of one task; output: the payloads handed to the sink -/
def prefixedCase (fields : List String) : String :=
  let chunks : List (List Nat) := ((fields.getD 0 "").splitOn ",").map fun h => hexBytes h.toList
  let toks := chunks.flatMap Out.tokens
  ",".intercalate (toks.map fun t => hexStr (t.map Char.ofNat))

/-- `native`: the Go types the three parsers hand to the loader for a mapping, the probe entries
(dict, flag, list, number, text), a list of stages and the tasks section -/
def nativeCase : String :=
  let fmts : List (String × Decode.Format) := [("yaml", .yaml), ("json", .json), ("toml", .toml)]
  ";".intercalate (fmts.flatMap fun (nm, f) =>
    let ty (fld : Decode.Field) : String := (Decode.reprField f fld).goType
    [ s!"{nm}.map={ty (.dict [])}",
      s!"{nm}.probe.dict={ty (.dict [("k", .text "v")])}",
      s!"{nm}.probe.flag={ty (.scalar (.flag true))}",
      s!"{nm}.probe.list={ty (.items [.text "a"])}",
      s!"{nm}.probe.number={ty (.scalar (.number 3))}",
      s!"{nm}.probe.text={ty (.scalar (.text "x"))}",
      s!"{nm}.stagelist={ty (.tables [])}",
      s!"{nm}.tasks={ty (.dict [])}" ])

/-! ### watchers -/

/-- `glob <pattern> <path>` -/
def globCase (fields : List String) : String :=
  toString (Glob.gmatch (Glob.parsePattern (fields.getD 0 "")) (Glob.parsePath (fields.getD 1 "")))

/-- `select inc=p,q exc=-,r tree=a,a/b,…` : the observed paths, sorted -/
def selectCase (fields : List String) : String :=
  let pats (k : String) : List (List Glob.PSeg) :=
    ((splitNonEmpty (kv fields k) ",").filter (· ≠ "-")).map Glob.parsePattern
  let tree := splitNonEmpty (kv fields "tree") ","
  let sel := tree.filter fun x =>
    (pats "inc").any (fun p => Glob.gmatch p (Glob.parsePath x)) && !(pats "exc").any (fun p => Glob.gmatch p (Glob.parsePath x))
  ",".intercalate (sortStrings sel)

def parseEv (s : String) : Option Glob.EvKind :=
  if s = "create" then some .create else if s = "write" then some .write else if s = "remove" then some .remove
  else if s = "rename" then some .rename else if s = "chmod" then some .chmod else none

def evName : Glob.EvKind → String
  | .create => "create" | .write => "write" | .remove => "remove" | .rename => "rename" | .chmod => "chmod"

/-- `event sub=write+chmod ev=write` -/
def eventCase (fields : List String) : String :=
  let subs := ((kv fields "sub").splitOn "+").filterMap parseEv
  match parseEv (kv fields "ev") with
  | some k =>
    match Glob.serve subs [{ kind := k, path := "/some/path.go" }] with
    | [(k', p)] => s!"fired=true {evName k'} {p}"
    | _ => "fired=false"
  | none => "bad-op"

def handle (line0 : String) : String :=
  if line0.startsWith "args " then argsCase ((line0.dropEndWhile (· == '\n')).toString) else
  let line := line0.trimAscii.toString
  match line.splitOn " " with
  | "graph" :: rest => graphCase (" ".intercalate rest)
  | "sched" :: rest => schedCase rest
  | "nested" :: rest => nestedCase rest
  | "tree" :: rest => treeCase rest
  | "runner" :: rest => runnerCase rest
  | "timed" :: rest => timedCase rest
  | "cli" :: _ => cliCase line
  | "cancel" :: rest => cancelCase rest
  | "hooks" :: rest => hooksCase rest
  | "env" :: rest => envCase rest
  | "dir" :: rest => dirCase rest
  | "layers" :: rest => layersCase rest
  | "vars" :: rest => varsCase rest
  | "envname" :: rest => envnameCase rest
  | "imports" :: rest => importsCase rest
  | "refs" :: rest => refsCase rest
  | "envfile" :: rest => envfileCase rest
  | "impshape" :: rest => impshapeCase rest
  | "prefixed" :: rest => prefixedCase rest
  | "cockpit" :: rest => cockpitCase rest
  | "gsplit" :: rest => gsplitCase rest
  | "unify" :: rest => unifyCase rest
  | "varsops" :: rest => varsopsCase rest
  | "derived" :: rest => derivedCase rest
  | "condverdict" :: rest => condverdictCase rest
  | "native" :: _ => nativeCase
  | "glob" :: rest => globCase rest
  | "select" :: rest => selectCase rest
  | "event" :: rest => eventCase rest
  | _ => "bad-op"

partial def loop (h : IO.FS.Stream) (out : IO.FS.Stream) : IO Unit := do
  let line ← h.getLine
  if line.isEmpty then return ()
  out.putStrLn (handle line)
  loop h out

def main : IO Unit := do
  let out ← IO.getStdout
  loop (← IO.getStdin) out
  out.flush
