import TaskctlVerif.Model.Graph
import TaskctlVerif.Proofs.Graph
import TaskctlVerif.Props.C05
import TaskctlVerif.Model.Sched
import TaskctlVerif.Proofs.Sched
