import TaskctlVerif.Model.Graph
import TaskctlVerif.Proofs.Graph
import TaskctlVerif.Props.C05
