/-!
# Model of the three configuration formats and of the weakly typed decoder (C16)

`internal/config/loader.go` `unmarshalData` + `decode`.  The three parsers (third-party) hand the
loader *native* Go values of different types for the same content:

| content            | yaml.v2                         | encoding/json              | go-toml                      |
|--------------------|---------------------------------|----------------------------|------------------------------|
| text               | `string`                        | `string`                   | `string`                     |
| boolean            | `bool`                          | `bool`                     | `bool`                       |
| integer            | `int`                           | `float64`                  | `int64`                      |
| mapping            | `map[interface{}]interface{}`   | `map[string]interface{}`   | `map[string]interface{}`     |
| sequence           | `[]interface{}`                 | `[]interface{}`            | `[]interface{}`              |
| sequence of tables | `[]interface{}`                 | `[]interface{}`            | `[]map[string]interface{}`   |

`mapstructure` with `WeaklyTypedInput` then decodes them into the schema's target types: `string`,
`bool`, `[]string` (from a list **or** a single scalar), `map[string]string`, structs.  The model
restricts the weak rules to these targets.  The schema has bounded depth, so the model is not
recursive: scalars, fields, entries.  This is the weakest tie of the set: the tables describe
third-party libraries; they are validated against the real parsers' native types by the
correspondence run, and the end-to-end comparison of the three formats is the monitor.

Core Lean only.
-/
namespace Decode

inductive Format | yaml | json | toml
deriving DecidableEq, Repr

/-- abstract scalar content -/
inductive Scalar
  | text (s : String)
  | flag (b : Bool)
  | number (n : Int)
deriving DecidableEq, Repr

/-- native scalar values -/
inductive NScalar
  | nstring (s : String)
  | nbool (b : Bool)
  | nint (n : Int)        -- Go `int`
  | nint64 (n : Int)      -- Go `int64`
  | nfloat (n : Int)      -- Go `float64` holding an integral value
deriving DecidableEq, Repr

def reprScalar : Format → Scalar → NScalar
  | _, .text s => .nstring s
  | _, .flag b => .nbool b
  | .yaml, .number n => .nint n
  | .json, .number n => .nfloat n
  | .toml, .number n => .nint64 n

/-- the Go type name, as `%T` prints it (checked against the real parsers) -/
def NScalar.goType : NScalar → String
  | .nstring _ => "string" | .nbool _ => "bool" | .nint _ => "int" | .nint64 _ => "int64"
  | .nfloat _ => "float64"

/-- weak decode to `string`: booleans become "1"/"0", numbers their decimal form -/
def toStr : NScalar → String
  | .nstring s => s
  | .nbool b => if b then "1" else "0"
  | .nint n | .nint64 n | .nfloat n => toString n

/-- weak decode to `bool`: numbers are true iff non-zero; strings as `strconv.ParseBool` (empty = false) -/
def toBool : NScalar → Option Bool
  | .nbool b => some b
  | .nint n | .nint64 n | .nfloat n => some (n != 0)
  | .nstring s =>
    if s ∈ ["1", "t", "T", "true", "TRUE", "True"] then some true
    else if s ∈ ["0", "f", "F", "false", "FALSE", "False", ""] then some false
    else none

/-- abstract field content -/
inductive Field
  | scalar (s : Scalar)
  | items (l : List Scalar)                       -- a sequence of scalars
  | dict (kvs : List (String × Scalar))           -- a mapping of scalars
  | tables (l : List (List (String × Scalar)))    -- a sequence of mappings (variations)
deriving Repr

inductive NField
  | nscalar (s : NScalar)
  | nlist (l : List NScalar)
  | nmap (ifaceKeys : Bool) (kvs : List (String × NScalar))
  | nmaps (typedSlice : Bool) (ifaceKeys : Bool) (l : List (List (String × NScalar)))
deriving Repr

def reprField (f : Format) : Field → NField
  | .scalar s => .nscalar (reprScalar f s)
  | .items l => .nlist (l.map (reprScalar f))
  | .dict kvs => .nmap (f == .yaml) (kvs.map fun kv => (kv.1, reprScalar f kv.2))
  | .tables l => .nmaps (f == .toml) (f == .yaml) (l.map fun kvs => kvs.map fun kv => (kv.1, reprScalar f kv.2))

/-- the Go type of the native value, as `%T` prints it (spaces removed) -/
def NField.goType : NField → String
  | .nscalar s => s.goType
  | .nlist _ => "[]interface{}"
  | .nmap true _ => "map[interface{}]interface{}"
  | .nmap false _ => "map[string]interface{}"
  | .nmaps true _ _ => "[]map[string]interface{}"
  | .nmaps false _ _ => "[]interface{}"

/-- the schema's target types -/
inductive Target | tstring | tbool | tstrings | tstrmap | tstrmaps
deriving DecidableEq, Repr

inductive Decoded
  | dstring (s : String)
  | dbool (b : Bool)
  | dstrings (l : List String)
  | dstrmap (kvs : List (String × String))
  | dstrmaps (l : List (List (String × String)))
  | derror
deriving DecidableEq, Repr

/-- `mapstructure` weak decoding, restricted to the schema's targets.  Key flavour and slice
flavour of the native value are irrelevant to the result. -/
def decode : Target → NField → Decoded
  | .tstring, .nscalar s => .dstring (toStr s)
  | .tbool, .nscalar s => match toBool s with | some b => .dbool b | none => .derror
  | .tstrings, .nscalar s => .dstrings [toStr s]                    -- a single scalar is wrapped
  | .tstrings, .nlist l => .dstrings (l.map toStr)
  | .tstrmap, .nmap _ kvs => .dstrmap (kvs.map fun kv => (kv.1, toStr kv.2))
  | .tstrmaps, .nmaps _ _ l => .dstrmaps (l.map fun kvs => kvs.map fun kv => (kv.1, toStr kv.2))
  | _, _ => .derror

/-- an entry (a task, stage, context or watcher definition): named fields with their targets -/
abbrev Entry := List (String × Target × Field)

def decodeEntry (f : Format) (e : Entry) : List (String × Decoded) :=
  e.map fun x => (x.1, decode x.2.1 (reprField f x.2.2))

/-- a section: named entries (tasks, contexts, watchers) or a list of entries (the stages of a pipeline) -/
abbrev Section := List (String × Entry)

def decodeSection (f : Format) (s : Section) : List (String × List (String × Decoded)) :=
  s.map fun x => (x.1, decodeEntry f x.2)

end Decode
