import TaskctlVerif.Model.Graph
/-!
# Model of reference validation at configuration build time (C18)

`internal/config/config.go` `buildFromDefinition`, `internal/config/pipeline.go` `buildPipeline`
and `checkPipelineInclusion`, `internal/config/watcher.go` (after the `fix:` commit).  `accept`
mirrors the checks that exist: a stage names an existing task, or else an existing pipeline; stage
names are unique within a pipeline; the depends_on relation is acyclic (C05); every depends_on names
a stage of the same pipeline; every watcher names an existing task; no pipeline includes itself.

The inclusion check is a three-colour DFS in Go; the model uses the on-path search of
`Model/Graph.lean`, which decides the same question (`Graph.dfs_iff`) — tied by the correspondence
run, not by structure.  Core Lean only.
-/
namespace Refs

structure StageDef where
  name     : String
  task     : Option String     -- `none`: the stage includes a pipeline
  pipeline : String
  deps     : List String
deriving Repr

structure CfgDef where
  tasks     : List String
  pipelines : List (String × List StageDef)
  watchers  : List String       -- the task each watcher refers to
deriving Repr

def pipelineNames (d : CfgDef) : List String := d.pipelines.map (·.1)

/-- edges "pipeline p includes pipeline q" -/
def inclusion (d : CfgDef) : List (Graph.Edge String) :=
  d.pipelines.flatMap fun p => p.2.filterMap fun s =>
    match s.task with
    | none => some (p.1, s.pipeline)
    | some _ => none

def stageOk (d : CfgDef) (stages : List StageDef) (s : StageDef) : Bool :=
  (match s.task with
   | some t => d.tasks.contains t
   | none => (pipelineNames d).contains s.pipeline) &&
  s.deps.all fun dep => (stages.map (·.name)).contains dep

def noDupNames : List String → Bool
  | [] => true
  | n :: rest => !rest.contains n && noDupNames rest

def pipelineOk (d : CfgDef) (stages : List StageDef) : Bool :=
  noDupNames (stages.map (·.name)) &&
  stages.all (stageOk d stages) &&
  (Graph.build (stages.map fun s => ({ name := s.name, deps := s.deps } : Graph.Stage String))).isSome

def accept (d : CfgDef) : Bool :=
  d.pipelines.all (fun p => pipelineOk d p.2) &&
  d.watchers.all (fun t => d.tasks.contains t) &&
  (pipelineNames d).all fun p =>
    !Graph.dfs (Graph.fromOf (inclusion d)) ((inclusion d).length + 1) [] p

end Refs
