/-!
# Model of the two locks of the cockpit output (`pkg/output/cockpit.go` + the vendored spinner) (C19)

Two mutexes: `S`, the spinner's own lock, and `B`, `baseCockpit.mu`.

* The spinner's redraw goroutine, once per frame: lock `S`; erase the indicator (a write to the terminal); call the
  `PreUpdate` hook, which locks `B`, prints the queued "Finished" lines, reads the running tasks, unlocks `B`; write the
  new frame; unlock `S`.
* `add` (a later task), `remove` (a task that finished) and `wait`: lock `B`; touch the lists; unlock `B`.
  They never touch `S` (after the `fix:` commits 08a3bb3 and 6cd349a: the "Finished" line is queued for the redraw
  goroutine instead of being printed through `Stop`/`Start`, which take `S`).
* the first `add`: lock `B`; create the spinner; unlock `B`; then `Start` (lock `S` … unlock `S`) - outside `B`.
* the closing goroutine: lock `B`; take the queue; unlock `B`; then `Stop` (lock `S` … unlock `S`).

Every thread that takes both locks takes `S` first, and nobody asks for `S` while holding `B`: the waits-for relation
has no cycle.  The seeded variants (rounds 14, 15: a finished task that prints or recolours through the spinner while
still holding `B`) are `stepBad`.

The terminal is not modelled: a write may take arbitrarily long, which only delays the thread that performs it (it is
the harness's gated terminal that stops a redraw in the middle of its erase).  Core Lean only.
-/
namespace CockpitLocks

inductive Owner
  | redraw | closer | adder
  | fin (i : Nat)
deriving DecidableEq, Repr

/-- the redraw goroutine: idle; holds S, erasing; holds S, wants B; holds S and B, draining; holds S, writing the frame -/
inductive RPc | idle | erase | wantB | drain | frame
deriving DecidableEq, Repr

/-- add / remove / wait: before; holding B; done -/
inductive FPc | start | inB | done
deriving DecidableEq, Repr

/-- first add and closer: before; holding B; between the locks; holding S; done -/
inductive TPc | start | inB | between | inS | done
deriving DecidableEq, Repr

structure St where
  s      : Option Owner
  b      : Option Owner
  r      : RPc
  fin    : Nat → FPc
  closer : TPc
  adder  : TPc

def upd {α} (f : Nat → α) (k : Nat) (v : α) : Nat → α := fun i => if i = k then v else f i

def init : St := { s := none, b := none, r := .idle, fin := fun _ => .start, closer := .start, adder := .start }

/-- the next step of the named thread, when it can take one (`none`: blocked on a lock, or finished) -/
def next (σ : St) : Owner → Option St
  | .redraw =>
    match σ.r with
    | .idle => if σ.s = none then some { σ with s := some .redraw, r := .erase } else none
    | .erase => some { σ with r := .wantB }
    | .wantB => if σ.b = none then some { σ with b := some .redraw, r := .drain } else none
    | .drain => some { σ with b := none, r := .frame }
    | .frame => some { σ with s := none, r := .idle }
  | .fin i =>
    match σ.fin i with
    | .start => if σ.b = none then some { σ with b := some (.fin i), fin := upd σ.fin i .inB } else none
    | .inB => some { σ with b := none, fin := upd σ.fin i .done }
    | .done => none
  | .closer =>
    match σ.closer with
    | .start => if σ.b = none then some { σ with b := some .closer, closer := .inB } else none
    | .inB => some { σ with b := none, closer := .between }
    | .between => if σ.s = none then some { σ with s := some .closer, closer := .inS } else none
    | .inS => some { σ with s := none, closer := .done }
    | .done => none
  | .adder =>
    match σ.adder with
    | .start => if σ.b = none then some { σ with b := some .adder, adder := .inB } else none
    | .inB => some { σ with b := none, adder := .between }
    | .between => if σ.s = none then some { σ with s := some .adder, adder := .inS } else none
    | .inS => some { σ with s := none, adder := .done }
    | .done => none

def step (σ : St) (o : Owner) : St := (next σ o).getD σ

def run (σ : St) (os : List Owner) : St := os.foldl step σ

/-- somebody other than the redraw goroutine still has something to do -/
def pending (σ : St) (n : Nat) : Prop :=
  σ.closer ≠ .done ∨ σ.adder ≠ .done ∨ ∃ i, i < n ∧ σ.fin i ≠ .done

/-! ## the seeded variant: a finished task goes through the spinner while it holds `B` -/

/-- finisher pcs of the variant: before; holding B, wants S; holding B and S; holding B; done -/
inductive BPc | start | wantS | inBS | inB | done
deriving DecidableEq, Repr

structure StBad where
  s : Option Owner
  b : Option Owner
  r : RPc
  f : BPc

def nextBad (σ : StBad) : Owner → Option StBad
  | .redraw =>
    match σ.r with
    | .idle => if σ.s = none then some { σ with s := some .redraw, r := .erase } else none
    | .erase => some { σ with r := .wantB }
    | .wantB => if σ.b = none then some { σ with b := some .redraw, r := .drain } else none
    | .drain => some { σ with b := none, r := .frame }
    | .frame => some { σ with s := none, r := .idle }
  | .fin _ =>
    match σ.f with
    | .start => if σ.b = none then some { σ with b := some (.fin 0), f := .wantS } else none
    | .wantS => if σ.s = none then some { σ with s := some (.fin 0), f := .inBS } else none
    | .inBS => some { σ with s := none, f := .inB }
    | .inB => some { σ with b := none, f := .done }
    | .done => none
  | _ => none

def runBad (σ : StBad) (os : List Owner) : StBad := os.foldl (fun σ o => (nextBad σ o).getD σ) σ

end CockpitLocks
