/-!
# The variables container as an abstract machine (`pkg/variables/variables.go`)

`Variables` is a key-value container behind the interface `Container`: `Set`, `Get` (the empty string
for a missing key), `Has`, `Map`, and two operations that build a NEW container - `Merge` (the
argument's entries over the receiver's) and `With` (the receiver's entries and one more binding, which
wins) - and never touch the containers they start from.  Environments and template variables of every
level are such containers, and the layering of C08 - C10 is a chain of `Merge` / `With` calls on them.

A heap of containers addressed by index; every operation returns the new heap and what the caller
sees.  Core Lean only.
-/
namespace VarsHeap

/-- one container: association list, at most one entry per key -/
abbrev Cont := List (String × String)

def cget (c : Cont) (k : String) : String := (c.lookup k).getD ""
def chas (c : Cont) (k : String) : Bool := (c.lookup k).isSome
def cset (c : Cont) (k v : String) : Cont := (k, v) :: c.filter (fun e => e.1 != k)
/-- `dst` with every entry of `src` set on it (the order in which `src` is walked does not matter:
its keys are distinct) -/
def cmerge (dst src : Cont) : Cont := src.foldr (fun e acc => cset acc e.1 e.2) dst
def cwith (c : Cont) (k v : String) : Cont := cset (cmerge [] c) k v

abbrev Heap := List Cont

inductive Op
  | new
  | set (c : Nat) (k v : String)
  | get (c : Nat) (k : String)
  | has (c : Nat) (k : String)
  | merge (a b : Nat)
  | with_ (c : Nat) (k v : String)
  | dump (c : Nat)
deriving Repr

def showCont (c : Cont) : String :=
  ",".intercalate ((c.toArray.qsort (fun a b => a.1 < b.1)).toList.map fun e => e.1 ++ "=" ++ e.2)

/-- one operation: the new heap and the answer (operations on an index that does not exist answer
`bad` and change nothing) -/
def step (h : Heap) : Op → Heap × String
  | .new => (h ++ [[]], toString h.length)
  | .set c k v =>
    match h[c]? with
    | some x => (h.set c (cset x k v), "ok")
    | none => (h, "bad")
  | .get c k =>
    match h[c]? with
    | some x => (h, "=" ++ cget x k)
    | none => (h, "bad")
  | .has c k =>
    match h[c]? with
    | some x => (h, if chas x k then "yes" else "no")
    | none => (h, "bad")
  | .merge a b =>
    match h[a]?, h[b]? with
    | some x, some y => (h ++ [cmerge x y], toString h.length)
    | _, _ => (h, "bad")
  | .with_ c k v =>
    match h[c]? with
    | some x => (h ++ [cwith x k v], toString h.length)
    | none => (h, "bad")
  | .dump c =>
    match h[c]? with
    | some x => (h, "{" ++ showCont x ++ "}")
    | none => (h, "bad")

def runOps (h : Heap) : List Op → Heap × List String
  | [] => (h, [])
  | o :: os =>
    let r := step h o
    let rest := runOps r.1 os
    (rest.1, r.2 :: rest.2)

end VarsHeap
