/-!
# Model of the output decorators (`pkg/output/raw.go`, `prefixed.go`, `cockpit.go`) — C19

Byte streams are lists of naturals.  `tokens chunk` is what one `Write(chunk)` call of the prefixed
decorator hands to its line writer: `bufio.ScanLines` iterated with `atEOF = true` over the chunk
(so an unterminated tail is a token of its own), `dropCR` applied, empty tokens dropped (they reach
`bufio.Flush` with nothing buffered and emit nothing).  The line writer makes **one** sink call per
token: `prefix name ++ strip token ++ CR LF`, where `strip` removes ANSI escape sequences (a regular
expression: a parameter of the model).  A sink is the sequence of write calls; concurrency is any
interleaving of the per-task call sequences (each call atomic).

Core Lean only.
-/
namespace Out

abbrev Bytes := List Nat
def LF : Nat := 10
def CR : Nat := 13

/-- Go's `dropCR` -/
def dropCR (l : Bytes) : Bytes := if l.getLast? = some CR then l.dropLast else l

/-- `bufio.ScanLines` iterated with `atEOF = true` over one chunk: the tokens, in order.
`acc` is the current line, reversed. -/
def splitLF : Bytes → Bytes → List Bytes
  | acc, [] => if acc = [] then [] else [acc.reverse]
  | acc, b :: rest => if b = LF then acc.reverse :: splitLF [] rest else splitLF (b :: acc) rest

/-- what the prefixed decorator hands to the line writer for one `Write(chunk)` call:
empty tokens reach `bufio.Flush` with nothing buffered and emit nothing -/
def tokens (chunk : Bytes) : List Bytes := ((splitLF [] chunk).map dropCR).filter (· ≠ [])


/-- remove line terminators -/
def N (l : Bytes) : Bytes := l.filter (fun b => b ≠ LF && b ≠ CR)

def ESC : Nat := 27

/-- `aurora.Cyan(name)` followed by ": " : ESC[36m name ESC[0m ':' ' ' -/
def prefixOf (name : Bytes) : Bytes := [ESC, 91, 51, 54, 109] ++ name ++ [ESC, 91, 48, 109, 58, 32]

/-- one sink call of the line writer -/
def lineCall (strip : Bytes → Bytes) (name tok : Bytes) : Bytes := prefixOf name ++ strip tok ++ [CR, LF]

/-- all sink calls of one task writing `chunks` -/
def prefixedCalls (strip : Bytes → Bytes) (name : Bytes) (chunks : List Bytes) : List Bytes :=
  (chunks.flatMap tokens).map (lineCall strip name)

/-- raw: every write is forwarded as it is -/
def rawCalls (chunks : List Bytes) : List Bytes := chunks

/-! ## cockpit: `add` / `remove` over an optional spinner -/

inductive COut | ok | panic
deriving DecidableEq, Repr

structure Cockpit where
  spinner : Bool          -- `b.spinner != nil`
  tasks   : List Nat
deriving DecidableEq, Repr

inductive CAct | add (t : Nat) | remove (t : Nat)
deriving Repr

/-- repaired: `remove` returns early when no spinner exists -/
def cstep (σ : Cockpit) : CAct → Cockpit × COut
  | .add t => ({ spinner := true, tasks := σ.tasks ++ [t] }, .ok)
  | .remove t => ({ σ with tasks := σ.tasks.filter (· != t) }, .ok)

/-- pre-fix: `remove` dereferences the spinner -/
def cstepOld (σ : Cockpit) : CAct → Cockpit × COut
  | .add t => ({ spinner := true, tasks := σ.tasks ++ [t] }, .ok)
  | .remove t => if σ.spinner then ({ σ with tasks := σ.tasks.filter (· != t) }, .ok) else (σ, .panic)

def crun (step : Cockpit → CAct → Cockpit × COut) : Cockpit → List CAct → COut
  | _, [] => .ok
  | σ, a :: rest => match step σ a with
    | (σ', .ok) => crun step σ' rest
    | (_, .panic) => .panic

/-! ## cockpit: what is printed (after fix 6cd349a)

`remove` no longer prints through `Spinner.Restart`: it queues the task's "Finished" line; the redraw
goroutine prints the queue at its next frame (`PreUpdate`), and whatever is still queued when the
cockpit is closed is printed by the final `Stop` (`FinalMSG`).  Tasks are numbers; the line of task `t`
is `t`.  `frame` and `close` are the only actions that print. -/

structure CP where
  spinner : Bool            -- the indicator exists (some task has been added)
  running : List Nat
  queue   : List Nat        -- "Finished" lines waiting for the next frame
  printed : List Nat
  closed  : Bool
deriving DecidableEq, Repr

inductive CPAct | add (t : Nat) | remove (t : Nat) | frame | close
deriving Repr

def cpInit : CP := { spinner := false, running := [], queue := [], printed := [], closed := false }

def cpStep (σ : CP) : CPAct → CP
  | .add t => { σ with spinner := true, running := σ.running ++ [t] }
  | .remove t =>
    if σ.spinner then { σ with running := σ.running.erase t, queue := σ.queue ++ [t] }
    else { σ with running := σ.running.erase t }    -- nothing was ever shown: nothing to report
  | .frame => if σ.closed then σ else { σ with printed := σ.printed ++ σ.queue, queue := [] }
  | .close => if σ.closed then σ else { σ with printed := σ.printed ++ σ.queue, queue := [], closed := true }

def cpRun (σ : CP) (as : List CPAct) : CP := as.foldl cpStep σ

/-- what one action makes due: the line of a task removed while the indicator exists -/
def dueOf (sp : Bool) : CPAct → List Nat
  | .remove t => if sp then [t] else []
  | _ => []

/-- the indicator exists from the first `add` on -/
def nextSp (sp : Bool) : CPAct → Bool
  | .add _ => true
  | _ => sp

/-- the "Finished" lines that are due after a sequence of actions, in order -/
def cpDue : Bool → List CPAct → List Nat
  | _, [] => []
  | sp, a :: as => dueOf sp a ++ cpDue (nextSp sp a) as

end Out
