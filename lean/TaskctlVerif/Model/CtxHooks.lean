/-!
# Model of execution-context hooks (`pkg/runner/context.go`, `contextForTask`/`Run`/`Finish` in
# `pkg/runner/runner.go`, `cmd/taskctl/run.go`), after the `fix:` commits that resolve the context
# once per run and call `Finish` once per CLI invocation

Many task runs, each in the context `ctxOf r`, interleaved at the granularity of hook commands.
`sync.Once` for `up` is a three-state cell: a caller that finds it `running` is blocked until it is
`done` (`pass` is only enabled then).  `Finish` (`beginFinish` + `down c`) is called by the owner of
the runner after all its `Run` calls have returned, and it starts no run afterwards (caller
discipline of `rootAction` / the `run` command, recorded as the guard of `call`).

Core Lean only.
-/
namespace Hooks

inductive Once | fresh | running | done
deriving DecidableEq, Repr

inductive Pc
  | idle | waitUp | passed | ranBefore | ranTask
  | fin (err : Bool)
deriving DecidableEq, Repr

inductive Tok
  | up (c : Nat)
  | before (c r : Nat)
  | task (r : Nat)        -- the task's own commands (condition, before, commands, after: model R)
  | after (c r : Nat)
  | down (c : Nat)
deriving DecidableEq, Repr

structure Cfg where
  n       : Nat              -- number of runs
  ctxOf   : Nat → Nat
  upFails : Nat → Bool

structure HS where
  onceUp    : Nat → Once
  upErr     : Nat → Bool     -- `startupError != nil`
  downDone  : Nat → Bool     -- `onceDown` consumed
  used      : Nat → Bool     -- in `cleanupList`
  pc        : Nat → Pc
  finishing : Bool
  log       : List Tok       -- oldest first

def upd {α} (f : Nat → α) (k : Nat) (v : α) : Nat → α := fun i => if i = k then v else f i

inductive Act
  | call (r : Nat)           -- `Run` → `contextForTask`: register the context, call `Up()`
  | upBegin (r : Nat)        -- r wins the Once: the `up` commands start
  | upEnd (c : Nat)          -- the `up` commands are over; a failure is recorded
  | pass (r : Nat)           -- `Up()` returns to r
  | before (r : Nat)         -- `c.Before()`
  | task (r : Nat)
  | after (r : Nat)          -- deferred `c.After()`
  | beginFinish
  | down (c : Nat)
deriving Repr

def init : HS :=
  { onceUp := fun _ => .fresh, upErr := fun _ => false, downDone := fun _ => false,
    used := fun _ => false, pc := fun _ => .idle, finishing := false, log := [] }

def quiescent (cfg : Cfg) (σ : HS) : Bool :=
  (List.range cfg.n).all fun r => match σ.pc r with | .idle => true | .fin _ => true | _ => false

def step (cfg : Cfg) (σ : HS) : Act → HS
  | .call r =>
    if r < cfg.n ∧ σ.pc r = .idle ∧ σ.finishing = false then
      { σ with used := upd σ.used (cfg.ctxOf r) true, pc := upd σ.pc r .waitUp }
    else σ
  | .upBegin r =>
    if σ.pc r = .waitUp ∧ σ.onceUp (cfg.ctxOf r) = .fresh then
      { σ with onceUp := upd σ.onceUp (cfg.ctxOf r) .running, log := σ.log ++ [.up (cfg.ctxOf r)] }
    else σ
  | .upEnd c =>
    if σ.onceUp c = .running then
      { σ with onceUp := upd σ.onceUp c .done, upErr := upd σ.upErr c (cfg.upFails c) }
    else σ
  | .pass r =>
    if σ.pc r = .waitUp ∧ σ.onceUp (cfg.ctxOf r) = .done then
      if σ.upErr (cfg.ctxOf r) then { σ with pc := upd σ.pc r (.fin true) }
      else { σ with pc := upd σ.pc r .passed }
    else σ
  | .before r =>
    if σ.pc r = .passed then
      { σ with pc := upd σ.pc r .ranBefore, log := σ.log ++ [.before (cfg.ctxOf r) r] }
    else σ
  | .task r =>
    if σ.pc r = .ranBefore then { σ with pc := upd σ.pc r .ranTask, log := σ.log ++ [.task r] }
    else σ
  | .after r =>
    if σ.pc r = .ranTask then
      { σ with pc := upd σ.pc r (.fin false), log := σ.log ++ [.after (cfg.ctxOf r) r] }
    else σ
  | .beginFinish => if quiescent cfg σ then { σ with finishing := true } else σ
  | .down c =>
    if σ.finishing = true ∧ σ.used c = true ∧ σ.downDone c = false then
      { σ with downDone := upd σ.downDone c true, log := σ.log ++ [.down c] }
    else σ

def run (cfg : Cfg) (σ : HS) (as : List Act) : HS := as.foldl (step cfg) σ

/-- a canonical complete schedule: every run in turn, then `Finish` (used by the oracle) -/
def sequential (cfg : Cfg) (ncx : Nat) : List Act :=
  ((List.range cfg.n).flatMap fun r =>
    [.call r, .upBegin r, .upEnd (cfg.ctxOf r), .pass r, .before r, .task r, .after r]) ++
  [.beginFinish] ++ (List.range ncx).map .down

end Hooks
