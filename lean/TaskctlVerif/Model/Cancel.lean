/-!
# Model of the cancellation hand-shake of `TaskRunner` (`pkg/runner/runner.go` `Run` prologue /
# `Cancel`), after the `fix:` commit that counts the runs in flight with a `WaitGroup`

* `Run` takes the read lock; if the context is already cancelled it returns the context error
  without running anything, otherwise it registers itself (`wg.Add(1)`) — one atomic step w.r.t.
  `Cancel` because of the lock — and un-registers when it returns.
* `Cancel` takes the write lock, cancels the context, releases the lock and waits for `wg`.
* A command is started through `Execute(ctx, …)`: with a cancelled context the interpreter returns
  the context error before running anything (`interp.Runner.stop`); a command in flight when the
  context is cancelled is killed by the interpreter and reports an error that is not an exit
  status (assumed: third-party + OS), unless it had just completed by itself.

`Old` is the pre-fix protocol (a channel closed by every returning `Run` while cancelling), kept for
the regression witnesses.  Core Lean only.
-/
namespace Cancel

inductive Phase
  | idle
  | admitted (left : Nat) (inCmd : Bool)   -- commands still to start; one running?
  | done (err : Bool)
deriving DecidableEq, Repr

def Phase.isAdmitted : Phase → Bool
  | .admitted _ _ => true
  | _ => false

structure CS where
  cancelled : Bool
  wg        : Nat
  phase     : Nat → Phase
  total     : Nat → Nat        -- number of commands of run i (fixed at `enter`)
  ran       : Nat → Nat        -- ghost: commands of run i that have started
  cwait     : Nat → Bool       -- canceller c is blocked in `wg.Wait`
  cret      : Nat → Bool       -- canceller c has returned
  started   : List Nat         -- ghost log: a run id for every command start, newest first

def upd {α} (f : Nat → α) (k : Nat) (v : α) : Nat → α := fun i => if i = k then v else f i

inductive Act
  | enter (i n : Nat)          -- `Run` of a task with n commands is called
  | startCmd (i : Nat)         -- run i calls `Execute` for its next command
  | endCmd (i : Nat) (ok : Bool)
  | finish (i : Nat)           -- run i returns after its last command
  | cancelCall (c : Nat)
  | cancelRet (c : Nat)
deriving Repr

def init : CS :=
  { cancelled := false, wg := 0, phase := fun _ => .idle, total := fun _ => 0, ran := fun _ => 0,
    cwait := fun _ => false, cret := fun _ => false, started := [] }

def step (σ : CS) : Act → CS
  | .enter i n =>
    match σ.phase i with
    | .idle =>
      if σ.cancelled then { σ with phase := upd σ.phase i (.done true), total := upd σ.total i n }
      else { σ with phase := upd σ.phase i (.admitted n false), wg := σ.wg + 1, total := upd σ.total i n }
    | _ => σ
  | .startCmd i =>
    match σ.phase i with
    | .admitted (k+1) false =>
      if σ.cancelled then { σ with phase := upd σ.phase i (.done true), wg := σ.wg - 1 }
      else { σ with phase := upd σ.phase i (.admitted k true), ran := upd σ.ran i (σ.ran i + 1),
                    started := i :: σ.started }
    | _ => σ
  | .endCmd i ok =>
    match σ.phase i with
    | .admitted k true =>
      if ok then { σ with phase := upd σ.phase i (.admitted k false) }
      else { σ with phase := upd σ.phase i (.done true), wg := σ.wg - 1 }
    | _ => σ
  | .finish i =>
    match σ.phase i with
    | .admitted 0 false => { σ with phase := upd σ.phase i (.done false), wg := σ.wg - 1 }
    | _ => σ
  | .cancelCall c =>
    if σ.cwait c || σ.cret c then σ
    else { σ with cancelled := true, cwait := upd σ.cwait c true }
  | .cancelRet c =>
    if σ.cwait c && σ.wg == 0 then { σ with cwait := upd σ.cwait c false, cret := upd σ.cret c true }
    else σ

def run (σ : CS) (as : List Act) : CS := as.foldl step σ

/-! ## What a condition decides (`checkTaskCondition` of the runner, `checkStageCondition` of the scheduler)

Both conditions are commands run under a context that `Cancel` cancels (after the `fix:` commits e21a43d and
d6d3549; before them they ran under no context at all, and a cancellation waited for them). How the command ended
and whether the context is cancelled by then decide what happens to the task / stage. -/

inductive CondEnd
  | zero            -- exit status 0
  | nonzero         -- another exit status (also what a program answers an interrupt with, if it traps it)
  | killed          -- no exit status: killed, could not be started
deriving DecidableEq, Repr

inductive CondVerdict
  | proceed | skipped | error
deriving DecidableEq, Repr

/-- the context is looked at first: an interrupted evaluation is no evaluation -/
def condVerdict (cancelled : Bool) : CondEnd → CondVerdict
  | .zero => .proceed          -- the commands that follow find the cancelled context themselves (`startCmd`)
  | .nonzero => if cancelled then .error else .skipped
  | .killed => .error

/-- the seeded variant (round 14) and the half-fix it stands for: the exit status is looked at first -/
def condVerdictStatusFirst (_cancelled : Bool) : CondEnd → CondVerdict
  | .zero => .proceed
  | .nonzero => .skipped
  | .killed => .error

/-! ## The pre-fix protocol -/
namespace Old

structure S where
  canceling : Bool
  closed    : Bool
  panicked  : Bool
  inflight  : Nat
  waiting   : Bool
  returned  : Bool
deriving DecidableEq, Repr

inductive A | enter | exit | cancelCall | cancelRet
deriving Repr

def init : S := ⟨false, false, false, 0, false, false⟩

def step (σ : S) : A → S
  | .enter => { σ with inflight := σ.inflight + 1 }
  | .exit =>
    if σ.inflight = 0 then σ
    else if σ.canceling then
      if σ.closed then { σ with panicked := true, inflight := σ.inflight - 1 }   -- close of closed channel
      else { σ with closed := true, inflight := σ.inflight - 1 }
    else { σ with inflight := σ.inflight - 1 }
  | .cancelCall => { σ with canceling := true, waiting := true }
  | .cancelRet => if σ.waiting && σ.closed then { σ with waiting := false, returned := true } else σ

def run (as : List A) : S := as.foldl step init

end Old

end Cancel
