/-!
# Model of the import-resolving loader (`internal/config/loader.go` `load`, after the `fix:` commits)

Files are numbered; `imports f` is the (ordered, possibly repeating) list of files `f` imports, with
relative paths already resolved against the importing file's directory and cleaned
(`path.Join(importDir, v)`; the root path is cleaned too).  `load` marks a file in the visited set
`cl.imports` **before** reading it, skips imports that are already marked, and returns an error as
soon as a file is missing or cannot be parsed.  The merge of raw documents (`mergo`, third-party) is
abstracted to the list of contributing files.

The Go recursion has no fuel; `load` has, and `Proofs/Imports.lean` proves that `#files + 1` is
always enough (`outOfFuel` is unreachable).  Core Lean only.
-/
namespace Imports

inductive FStatus | ok | missing | unparsable
deriving DecidableEq, Repr

structure FS where
  imports : Nat → List Nat
  status  : Nat → FStatus

inductive Res
  | outOfFuel
  | err
  | ok (visited : List Nat) (contrib : List Nat)
deriving DecidableEq, Repr

/-- the `for _, v := range imports` loop, given the recursive call -/
def loadList (ld : List Nat → Nat → Res) : List Nat → List Nat → Res
  | vis, [] => .ok vis []
  | vis, v :: rest =>
    if v ∈ vis then loadList ld vis rest
    else match ld vis v with
      | .ok vis' c =>
        match loadList ld vis' rest with
        | .ok vis'' c' => .ok vis'' (c ++ c')
        | r => r
      | r => r

def load (fs : FS) : Nat → List Nat → Nat → Res
  | 0, _, _ => .outOfFuel
  | fuel+1, vis, f =>
    match fs.status f with
    | .ok =>
      match loadList (load fs fuel) (f :: vis) (fs.imports f) with
      | .ok vis' c => .ok vis' (f :: c)
      | r => r
    | _ => .err

/-- `Loader.Load` of root file `r` in a tree of `n` files -/
def loadRoot (fs : FS) (n r : Nat) : Res := load fs (n + 1) [] r

end Imports
