/-!
# Model of the import-resolving loader (`internal/config/loader.go` `load`, after the `fix:` commits)

Files are numbered; `imports f` is the (ordered, possibly repeating) list of files `f` imports, with
relative paths already resolved against the importing file's directory and cleaned
(`path.Join(importDir, v)`; the root path is cleaned too).  `load` marks a file in the visited set
`cl.imports` **before** reading it, skips imports that are already marked, and returns an error as
soon as a file is missing or cannot be parsed.  The merge of raw documents (`mergo`, third-party) is
abstracted to the list of contributing files.

The Go recursion has no fuel; `load` has, and `Proofs/Imports.lean` proves that `#files + 1` is
always enough (`outOfFuel` is unreachable).  Core Lean only.
-/
namespace Imports

inductive FStatus | ok | missing | unparsable
deriving DecidableEq, Repr

structure FS where
  imports : Nat → List Nat
  status  : Nat → FStatus

inductive Res
  | outOfFuel
  | err
  | ok (visited : List Nat) (contrib : List Nat)
deriving DecidableEq, Repr

/-- the `for _, v := range imports` loop, given the recursive call -/
def loadList (ld : List Nat → Nat → Res) : List Nat → List Nat → Res
  | vis, [] => .ok vis []
  | vis, v :: rest =>
    if v ∈ vis then loadList ld vis rest
    else match ld vis v with
      | .ok vis' c =>
        match loadList ld vis' rest with
        | .ok vis'' c' => .ok vis'' (c ++ c')
        | r => r
      | r => r

def load (fs : FS) : Nat → List Nat → Nat → Res
  | 0, _, _ => .outOfFuel
  | fuel+1, vis, f =>
    match fs.status f with
    | .ok =>
      match loadList (load fs fuel) (f :: vis) (fs.imports f) with
      | .ok vis' c => .ok vis' (f :: c)
      | r => r
    | _ => .err

/-- `Loader.Load` of root file `r` in a tree of `n` files -/
def loadRoot (fs : FS) (n r : Nat) : Res := load fs (n + 1) [] r

/-! ## Directory imports

An import entry is a file or a directory.  `loadDir` lists the `*.yaml` entries of the directory
(`filepath.Glob`: sorted) and, for each one, skips it if it is already in the visited set and loads it
otherwise, failing on the first that cannot be loaded - the same loop as the one over a file's own
imports.  (A directory is never put in the visited set itself; an entry with nothing behind it - a
dangling link - is a file with status `missing`.) -/

inductive Entry
  | file (f : Nat)
  | dir (yamlFiles : List Nat)
deriving Repr

structure FSD where
  entries : Nat → List Entry
  status  : Nat → FStatus

/-- the loop of `loadDir` -/
def loadDirD (ld : List Nat → Nat → Res) : List Nat → List Nat → Res
  | vis, [] => .ok vis []
  | vis, v :: rest =>
    if v ∈ vis then loadDirD ld vis rest
    else match ld vis v with
      | .ok vis' c =>
        match loadDirD ld vis' rest with
        | .ok vis'' c' => .ok vis'' (c ++ c')
        | r => r
      | r => r

/-- the loop over the `import` list of a file, with both kinds of entries -/
def loadListD (ld : List Nat → Nat → Res) : List Nat → List Entry → Res
  | vis, [] => .ok vis []
  | vis, .file v :: rest =>
    if v ∈ vis then loadListD ld vis rest
    else match ld vis v with
      | .ok vis' c =>
        match loadListD ld vis' rest with
        | .ok vis'' c' => .ok vis'' (c ++ c')
        | r => r
      | r => r
  | vis, .dir fs :: rest =>
    match loadDirD ld vis fs with
    | .ok vis' c =>
      match loadListD ld vis' rest with
      | .ok vis'' c' => .ok vis'' (c ++ c')
      | r => r
    | r => r

def loadD (fs : FSD) : Nat → List Nat → Nat → Res
  | 0, _, _ => .outOfFuel
  | fuel+1, vis, f =>
    match fs.status f with
    | .ok =>
      match loadListD (loadD fs fuel) (f :: vis) (fs.entries f) with
      | .ok vis' c => .ok vis' (f :: c)
      | r => r
    | _ => .err

/-- a directory entry written out as the files it stands for -/
def expand : List Entry → List Nat
  | [] => []
  | .file f :: rest => f :: expand rest
  | .dir fs :: rest => fs ++ expand rest

/-- the same tree with every directory import written out -/
def FSD.flat (fs : FSD) : FS := { imports := fun f => expand (fs.entries f), status := fs.status }

end Imports
