import TaskctlVerif.Model.Sched
/-!
# Several `Schedule` loops over one graph, in full

`Model/SchedMulti.lean` abstracts a loop's examination of a stage to an adversarial "ready or not" and
proves "started at most once".  Here every loop is modelled like the single loop of `Model/Sched.lean`:
loop `l` has its own program counter (`visit l s` reads the status and evaluates the condition,
`read l` reads the status of one dependency - and writes `canceled` to the examined stage when that
dependency failed -, `decide l` performs the compare-and-swap waiting → running of fix 6c07174 and
starts the stage only if it succeeds); statuses, goroutine states, the error flag and the cancelled
flag are shared.  Any number of loops, any interleaving of their individual reads and writes with each
other and with the stage goroutines.

Core Lean only.
-/
namespace SchedLoops
open Sched

structure LSt where
  status    : Nat → Status
  pc        : Nat → Pc        -- per loop
  g         : Nat → G
  gerr      : Bool
  cancelled : Bool
  starts    : Nat → Nat

inductive LAct
  | visit (l s : Nat)
  | read (l : Nat)
  | decide (l : Nat)
  | ret (s : Nat) (ok : Bool)
  | post (s : Nat)
  | cancel
deriving Repr

def linit : LSt :=
  { status := fun _ => .waiting, pc := fun _ => .idle, g := fun _ => .none, gerr := false,
    cancelled := false, starts := fun _ => 0 }

def lstep (c : Cfg) (σ : LSt) : LAct → LSt
  | .visit l s =>
    match σ.pc l with
    | .idle =>
      if σ.status s = .waiting then
        match c.cond s with
        | .fails => { σ with status := upd σ.status s .skipped }
        | .err   => { σ with status := upd σ.status s .error, cancelled := true }
        | _      => { σ with pc := upd σ.pc l (.check s (c.deps s) true) }
      else σ
    | _ => σ
  | .read l =>
    match σ.pc l with
    | .check s (d :: rest) ready =>
      match σ.status d with
      | .done | .skipped => { σ with pc := upd σ.pc l (.check s rest ready) }
      | .error =>
        if c.allow d then { σ with pc := upd σ.pc l (.check s rest ready) }
        else { σ with pc := upd σ.pc l (.check s rest false), status := upd σ.status s .canceled }
      | .canceled => { σ with pc := upd σ.pc l (.check s rest false), status := upd σ.status s .canceled }
      | _ => { σ with pc := upd σ.pc l (.check s rest false) }
    | _ => σ
  | .decide l =>
    match σ.pc l with
    | .check s [] ready =>
      if ready && σ.status s == .waiting then
        { σ with pc := upd σ.pc l .idle, status := upd σ.status s .running, g := upd σ.g s .inRun,
                 starts := upd σ.starts s (σ.starts s + 1) }
      else { σ with pc := upd σ.pc l .idle }
    | _ => σ
  | .ret s ok =>
    if σ.g s = .inRun then
      if ok then { σ with status := upd σ.status s .done, g := upd σ.g s .fin }
      else { σ with status := upd σ.status s .error, g := upd σ.g s .afterErr }
    else σ
  | .post s =>
    if σ.g s = .afterErr then
      if c.allow s then { σ with status := upd σ.status s .done, g := upd σ.g s .fin }
      else { σ with gerr := true, g := upd σ.g s .fin }
    else σ
  | .cancel => { σ with cancelled := true }

def lrun (c : Cfg) (σ : LSt) (as : List LAct) : LSt := as.foldl (lstep c) σ

end SchedLoops
