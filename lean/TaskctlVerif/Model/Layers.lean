/-!
# Model of environment / variable / directory layering (C08, C09, C10)

`variables.Container` (a `sync.Map` wrapper) is an association list; `Merge(src)` makes `src`
override (`merge lo hi`); `With(k, v)` overrides one key.  Iteration order of Go maps is never
observable through `lookup`, which is the only observation commands can make of an environment.

* job environment (`runner.go:139-145`, `internal/config/task.go:34-46`, `scheduler.go` `runStage`,
  `compiler.go:53`):
  `((((runnerEnv ⊕ ctxEnv).with TASK_NAME name) ⊕ ((envFile ⊕ taskEnv) ⊕ stageEnv)) ⊕ variation)`
* process environment (`executor.go` `Execute`, after the `fix:` commit): inherited entries whose
  name the job redefines are dropped, then the job's entries are appended.
* working directory (`compiler.go:106-116`, `executor.go:80-86`, `scheduler.go` `runStage`):
  stage dir, else task dir, else context dir, else the directory taskctl was started in.
* a stage's overrides are applied to a per-execution copy of the task (`runStage`, after the `fix:`
  commit); the shared task is never written with them.

Core Lean only.
-/
namespace Layers

abbrev Env (β : Type) := List (String × β)

/-- `Merge`: `hi` overrides `lo` -/
def merge {β} (lo hi : Env β) : Env β := hi ++ lo

/-- `With` -/
def withKey {β} (e : Env β) (k : String) (v : β) : Env β := (k, v) :: e

def get {β} (e : Env β) (k : String) : Option β := e.lookup k

structure EnvLevels (β : Type) where
  parent    : Env β      -- os.Environ()
  runner    : Env β      -- runner-level: ARGS, stored task outputs
  context   : Env β
  envFile   : Env β
  task      : Env β
  stage     : Env β      -- empty for a direct run
  variation : Env β

/-- the environment attached to a job -/
def jobEnv {β} (L : EnvLevels β) (taskName : β) : Env β :=
  merge (merge (withKey (merge L.runner L.context) "TASK_NAME" taskName)
               (merge (merge L.envFile L.task) L.stage))
        L.variation

/-- what the process receives: the job's entries, then the inherited ones the job does not redefine -/
def procEnv {β} (parent job : Env β) : Env β :=
  job ++ parent.filter (fun p => (job.lookup p.1).isNone)

/-- pre-fix behaviour (kept for the regression witness): for a name defined on both sides the
interpreter's sort-and-keep-last picks the greater `name=value` string, i.e. the greater value -/
def procGetOld {β} [Ord β] (parent job : Env β) (k : String) : Option β :=
  match parent.lookup k, job.lookup k with
  | some p, some j => if compare j p == .lt then some p else some j
  | some p, none => some p
  | none, j => j

/-- first non-empty directory -/
def jobDir (stage task ctx start : String) : String :=
  if stage ≠ "" then stage else if task ≠ "" then task else if ctx ≠ "" then ctx else start

/-! ## C08: a task shared by several stages -/

structure TaskCfg (β : Type) where
  env  : Env β
  vars : Env β
  dir  : String

structure StageOv (β : Type) where
  env  : Env β
  vars : Env β
  dir  : String

/-- what `Run` receives for a stage: the stage's overrides layered over the task's own settings -/
def layer {β} (t : TaskCfg β) (s : StageOv β) : TaskCfg β :=
  { env := merge t.env s.env, vars := merge t.vars s.vars, dir := if s.dir ≠ "" then s.dir else t.dir }

/-- the shared task cell, the per-execution copies, and what each `Run` call received -/
structure SS (β : Type) where
  cell   : TaskCfg β                    -- the shared `*task.Task`
  copy   : Nat → Option (TaskCfg β)     -- stage i has copied the task
  seen   : Nat → Option (TaskCfg β)     -- input of `Run` for stage i
  direct : Option (TaskCfg β)           -- input of a direct `Run` of the shared task
  results : Nat                         -- number of outcome write-backs (outcome fields only)

inductive Act
  | copy (i : Nat)        -- `t := *stage.Task`
  | run (i : Nat)         -- overrides applied to the copy, `Run(&t)` called
  | writeback (i : Nat)   -- outcome fields copied to the shared task
  | direct                -- `Run(stage.Task)` by somebody else (another pipeline, the CLI)
deriving Repr

def upd {α} (f : Nat → α) (k : Nat) (v : α) : Nat → α := fun i => if i = k then v else f i

def step {β} (ov : Nat → StageOv β) (σ : SS β) : Act → SS β
  | .copy i => { σ with copy := upd σ.copy i (some σ.cell) }
  | .run i =>
    match σ.copy i with
    | some c => { σ with seen := upd σ.seen i (some (layer c (ov i))) }
    | none => σ
  | .writeback _ => { σ with results := σ.results + 1 }
  | .direct => { σ with direct := some σ.cell }

def init {β} (t : TaskCfg β) : SS β :=
  { cell := t, copy := fun _ => none, seen := fun _ => none, direct := none, results := 0 }

def run {β} (ov : Nat → StageOv β) (σ : SS β) (as : List Act) : SS β := as.foldl (step ov) σ

/-- pre-fix `runStage`: the merge is written into the shared cell (regression witness) -/
def stepOld {β} (ov : Nat → StageOv β) (σ : SS β) : Act → SS β
  | .copy _ => σ
  | .run i =>
    let merged : TaskCfg β := { env := merge σ.cell.env (ov i).env,
                                vars := merge σ.cell.env (ov i).vars,   -- sic: env, not vars
                                dir := σ.cell.dir }
    { σ with cell := merged, seen := upd σ.seen i (some merged) }
  | .writeback _ => σ
  | .direct => { σ with direct := some σ.cell }

def runOld {β} (ov : Nat → StageOv β) (σ : SS β) (as : List Act) : SS β := as.foldl (stepOld ov) σ

end Layers
