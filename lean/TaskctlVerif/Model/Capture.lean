import TaskctlVerif.Model.Runner
import TaskctlVerif.Model.Sched
/-!
# Model of output capture and hand-over (C11)

* `pkg/output/output.go` `Stdout()`: the task's commands (not its hooks or condition) write to
  `io.MultiWriter(decorator, &t.Log.Stdout)`; `Task.Output()` is `t.Log.Stdout`.
* `pkg/executor/executor.go`: `Execute` returns the slice of its buffer written by this job (stdout
  and stderr interleaved); `runner.go` `execute` stores it as `.Output` for the next job.
* `pkg/runner/runner.go` `storeTaskOutput`: after `execute` returned nil, the runner-level
  environment gets `<NAME>_OUTPUT` (or `exportAs`) = the captured stdout; every later `Run` starts
  from a snapshot of that environment.

Bytes and names are lists of naturals (byte values / ASCII codes).  Core Lean only.
-/
namespace Capture

abbrev Bytes := List Nat

structure CmdOut where
  stdout   : Bytes
  combined : Bytes          -- what the executor's buffer received: stdout and stderr interleaved

/-- `strings.ToUpper` on ASCII -/
def upper (b : Nat) : Nat := if 97 ≤ b ∧ b ≤ 122 then b - 32 else b

/-- `[a-zA-Z0-9_]` -/
def isWord (b : Nat) : Bool :=
  (48 ≤ b && b ≤ 57) || (65 ≤ b && b ≤ 90) || (97 ≤ b && b ≤ 122) || b == 95

/-- "_OUTPUT" -/
def suffix : Bytes := [95, 79, 85, 84, 80, 85, 84]

/-- the derived variable name: upper-case, every other character replaced by `_`, then `_OUTPUT` -/
def envName (name : Bytes) : Bytes :=
  (name.map fun b => if isWord (upper b) then upper b else 95) ++ suffix

/-- the variable under which the output is published -/
def key (name : Bytes) (exportAs : Option Bytes) : Bytes := exportAs.getD (envName name)

/-- what `Task.Output()` holds after a run: stdout of the commands that began, in order -/
def captured (outOf : Nat → Nat → CmdOut) (trace : List Runner.Tok) : Bytes :=
  trace.flatMap fun tok => match tok with
    | .cmd v j => (outOf v j).stdout
    | _ => []

/-- `.Output` as seen by the k-th job (0-based) of the job list -/
def outputVar (outOf : Nat → Nat → CmdOut) (jobs : List (Nat × Nat)) (k : Nat) : Bytes :=
  match k with
  | 0 => []
  | k+1 => match jobs[k]? with
    | some (v, j) => (outOf v j).combined
    | none => []

/-- is the output published? (`storeTaskOutput` is reached iff `execute` returned nil) -/
def stored (t : Runner.TaskSpec) : Bool := !(Runner.runTask t).err && !(Runner.runTask t).skipped

/-! ## Composition with the scheduler: the runner-level store -/

structure CSt where
  s      : Sched.St
  renv   : Nat → Option Nat          -- runner environment: key ↦ value (values abstracted to an id)
  snap   : Nat → (Nat → Option Nat)  -- the snapshot stage `c` took when its `Run` started
  stored : Nat → Bool                -- ghost: stage p's `Run` returned nil after publishing

/-- `keyOf p`: the variable stage p's task publishes, `out p`: its captured output.
A `Run` that returns without error has published its output just before. -/
def cstep (c : Sched.Cfg) (keyOf out : Nat → Nat) (σ : CSt) (a : Sched.Act) : CSt :=
  match a with
  | .ret p ok =>
    if σ.s.g p = .inRun ∧ ok = true then
      { σ with s := Sched.step c σ.s a, renv := Sched.upd σ.renv (keyOf p) (some (out p)),
               stored := Sched.upd σ.stored p true }
    else { σ with s := Sched.step c σ.s a }
  | .decide =>
    match σ.s.pc with
    | .check x [] true => { σ with s := Sched.step c σ.s a, snap := Sched.upd σ.snap x σ.renv }
    | _ => { σ with s := Sched.step c σ.s a }
  | _ => { σ with s := Sched.step c σ.s a }

def cinit : CSt := { s := Sched.init, renv := fun _ => none, snap := fun _ _ => none, stored := fun _ => false }

def crun (c : Sched.Cfg) (keyOf out : Nat → Nat) (σ : CSt) (as : List Sched.Act) : CSt :=
  as.foldl (cstep c keyOf out) σ

end Capture
