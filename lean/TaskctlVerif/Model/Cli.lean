/-!
# Model of the command line layer (`cmd/taskctl/run.go`, `cmd/taskctl/taskctl.go`)

* targets: the arguments before the first `--`, run in order, stop at the first failure
  (`rootAction`, taskctl.go:198-217; `run` command action, run.go:46-66);
* task arguments: everything after the first `--` (`taskArgs`, run.go:152-166, after the `fix:`
  commit that stops at the first `--`);
* process exit status: 0 iff the action returned nil (`main`: `logrus.Fatal` ⇒ exit 1).

Core Lean only.
-/
namespace Cli

/-- the targets named on the command line -/
def targetsOf (args : List String) : List String := args.takeWhile (· != "--")

/-- the arguments handed to tasks -/
def taskArgs (args : List String) : List String := (args.dropWhile (· != "--")).drop 1

/-- run targets in order; `ok t` = target `t` exists and succeeded. Returns the targets that were
executed and whether all succeeded. -/
def runTargets (ok : String → Bool) : List String → List String × Bool
  | [] => ([], true)
  | t :: rest =>
    if ok t then
      let r := runTargets ok rest
      (t :: r.1, r.2)
    else ([t], false)

/-- executed targets and process exit status -/
def cli (ok : String → Bool) (args : List String) : List String × Nat :=
  let r := runTargets ok (targetsOf args)
  (r.1, if r.2 then 0 else 1)

end Cli
