/-!
# The user's global configuration next to the project's (`Loader.Load`, `Config.merge`)

`Load` first merges what `~/.taskctl/config.yaml` (with its imports) builds into the destination
configuration, then what the project file builds.  `Config.merge` is `mergo.Merge` without override on
the sections that are maps of definitions - a name the destination already has is kept, a new name is
added - followed by `Variables.Merge`, in which the later value wins.  A definition is opaque here.

Core Lean only.
-/
namespace GlobalCfg

abbrev Sect (α : Type) := List (String × α)

structure Cfg (α : Type) where
  tasks     : Sect α
  contexts  : Sect α
  variables : Sect α

def keys {α} (s : Sect α) : List String := s.map (·.1)

/-- `mergo.Merge` on a map of definitions, no override -/
def mergeKeep {α} (dst src : Sect α) : Sect α := dst ++ src.filter fun kv => !(keys dst).contains kv.1

/-- `Variables.Merge`: the argument's values win -/
def mergeOver {α} (dst src : Sect α) : Sect α := (dst.filter fun kv => !(keys src).contains kv.1) ++ src

def merge {α} (dst src : Cfg α) : Cfg α :=
  { tasks := mergeKeep dst.tasks src.tasks, contexts := mergeKeep dst.contexts src.contexts,
    variables := mergeOver dst.variables src.variables }

def empty {α} : Cfg α := { tasks := [], contexts := [], variables := [] }

/-- what a project sees: the global configuration, then its own -/
def load {α} (glob proj : Cfg α) : Cfg α := merge (merge empty glob) proj

end GlobalCfg
