import TaskctlVerif.Model.Runner
/-!
# Model of task timeouts (`pkg/executor/executor.go:89-100`, `pkg/runner/compiler.go:86-93`)

`Execute` wraps **each** job in its own `context.WithTimeout(ctx, *job.Timeout)`; the task's timeout
is copied into every job: commands, `before`, `after` and the condition.  A command that would run
for `d` under a timeout `t < d` is terminated and `Execute` returns an error that is not an exit
status (`context.DeadlineExceeded`) — outcome `fault`; a command that never starts (`norender`)
cannot overrun.  Durations are a parameter (time itself is not modelled).

Core Lean only.
-/
namespace Runner

/-- the result of a command of intrinsic duration `d` and intrinsic result `r` under timeout `T` -/
def cut (T : Option Nat) (d : Nat) (r : CmdResult) : CmdResult :=
  match T with
  | none => r
  | some t => if d ≤ t then r else (match r with | .norender => .norender | _ => .fault)

structure Durations where
  cond   : Nat
  before : List Nat
  job    : Nat → Nat → Nat
  after  : List Nat

def cutList (T : Option Nat) : List Nat → List CmdResult → List CmdResult
  | d :: ds, r :: rs => cut T d r :: cutList T ds rs
  | [], rs => rs          -- no duration given: instantaneous
  | _, [] => []

/-- the task as the runner experiences it when every job carries the timeout `T` -/
def timed (t : TaskSpec) (T : Option Nat) (D : Durations) : TaskSpec :=
  { t with cond := t.cond.map (cut T D.cond),
           before := cutList T D.before t.before,
           res := fun v j => cut T (D.job v j) (t.res v j),
           after := cutList T D.after t.after }

/-- wall-clock cost of one command under the timeout -/
def cost (T : Option Nat) (d : Nat) : Nat :=
  match T with
  | none => d
  | some t => min d t

end Runner
