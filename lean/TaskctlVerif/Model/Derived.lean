import TaskctlVerif.Model.Layers
/-!
# Model of variables whose value is a template over other variables (C10, C08)

`pkg/runner/compiler.go` `CompileTask`:

```go
vars = t.Variables.Merge(vars)            // runner (configuration, --set, stored outputs) ⊕ task ⊕ stage
for k, v := range vars.Map() {            // Go map order: any order
    v, err := utils.RenderString(v.(string), vars.Map())
    if err != nil { return nil, err }     // an undefined variable: the task fails before any command
    vars.Set(k, v)
}
```

A value is a list of segments: literal text and references to other variables (`{{ .Name }}`,
`{{ index . "dotted.name" }}`).  The loop renders every value once, in place, in an order the
language does not fix.  The model is faithful for *flat* maps - every reference names a variable
whose own value contains no reference, or no variable at all; a reference to a value that is itself
a template is rendered by the code with whatever that value is at that moment (raw or already
rendered, depending on the order): such maps are excluded by the `Flat` hypothesis of every theorem
and the oracle refuses them.

`pkg/runner/runner.go` `storeTaskOutput` adds `Tasks.<Name>.Output` to the runner's variables after a
run: the runner's level changes over a history of executions (`History` below).

Core Lean only.
-/
namespace Derived
open Layers

/-- a reference carries what it prints when no variable of that name exists: nothing (`none`) for `{{ .Name }}`, which
makes the rendering fail (`missingkey=error`); `"<no value>"` for `{{ index . "name" }}`; `""` for
`{{ with $v := index . "name" }}{{ $v }}{{ end }}` - `index` on a missing key is not an error in a Go template -/
inductive Seg
  | lit (s : String)
  | ref (k : String) (missing : Option String)
deriving Repr, DecidableEq

abbrev Tmpl := List Seg

def plain : Tmpl → Bool
  | [] => true
  | .lit _ :: r => plain r
  | .ref _ _ :: _ => false

def text : Tmpl → String
  | [] => ""
  | .lit s :: r => s ++ text r
  | .ref _ _ :: r => text r

def refs : Tmpl → List String
  | [] => []
  | .lit _ :: r => refs r
  | .ref k _ :: r => k :: refs r

/-- what a reference to `k` yields: the text of a value without references; for a missing variable, what the form of
the reference says (`none`: the rendering fails) -/
def resolve (m : Env Tmpl) (k : String) (missing : Option String) : Option String :=
  match get m k with
  | some t => if plain t then some (text t) else none
  | none => missing

/-- `utils.RenderString` with `missingkey=error` -/
def render (m : Env Tmpl) : Tmpl → Option String
  | [] => some ""
  | .lit s :: r => (render m r).map (s ++ ·)
  | .ref k d :: r =>
    match resolve m k d, render m r with
    | some a, some b => some (a ++ b)
    | _, _ => none

/-- one iteration of the loop: the value of `k` is replaced by its rendering -/
def step (m : Env Tmpl) (k : String) : Option (Env Tmpl) :=
  match get m k with
  | none => some m
  | some t => (render m t).map fun s => withKey m k [.lit s]

/-- the loop, visiting the keys in the order `ks` -/
def loop (m : Env Tmpl) : List String → Option (Env Tmpl)
  | [] => some m
  | k :: ks =>
    match step m k with
    | some m' => loop m' ks
    | none => none

/-- every reference names a variable whose value has no reference, or no variable -/
def Flat (m : Env Tmpl) : Prop :=
  ∀ k t, get m k = some t → ∀ k' ∈ refs t, ∀ t', get m k' = some t' → plain t' = true

/-- decidable form of `Flat` over the entries of the list (implies it, see `flatB_flat`) -/
def flatB (m : Env Tmpl) : Bool :=
  m.all fun e => (refs e.2).all fun k' =>
    match get m k' with
    | some t' => plain t'
    | none => true

/-- the variables of one execution: runner level, task level, stage level -/
def execVars (runner task stage : Env Tmpl) : Env Tmpl := merge (merge runner task) stage

/-- what the commands of an execution see for variable `k`: its value rendered against the variables of that execution -/
def seen (runner task stage : Env Tmpl) (k : String) : Option (Option String) :=
  (get (execVars runner task stage) k).map (render (execVars runner task stage))

/-! ## a history of executions on one runner -/

structure Exec where
  task    : Env Tmpl
  stage   : Env Tmpl
  outName : String      -- `Tasks.<Name>.Output`
  outVal  : String

/-- the runner's variables after the executions `es` -/
def History (r : Env Tmpl) : List Exec → Env Tmpl
  | [] => r
  | e :: es => History (withKey r e.outName [.lit e.outVal]) es

end Derived
