/-!
# Bringing documents of different formats to one form before they are merged
(`internal/config/loader.go`: `unifyMapKinds`, `stringKeyedMaps`; fixes a8ac213 and 1883f85)

What a parser returns is a tree whose inner nodes are mappings and lists.  The *kind* of a node is
the Go type it has: yaml.v2 gives `map[interface{}]interface{}` and `[]interface{}`; encoding/json gives
`map[string]interface{}` and `[]interface{}`; go-toml gives `map[string]interface{}`, `[]interface{}`
and, for an array of tables, `[]map[string]interface{}`.  `mergo` cannot merge a mapping of one kind
into a mapping of the other, nor append lists of different kinds.  Keys and scalars play no role here.

Core Lean only.
-/
namespace Normalise

inductive Kind | mapI | mapS | listI | listM
deriving DecidableEq, Repr

inductive V
  | leaf
  | node (k : Kind) (children : List V)
deriving Repr

def normKind : Kind → Kind
  | .mapI => .mapS
  | .mapS => .mapS
  | .listI => .listI
  | .listM => .listI

mutual
/-- `stringKeyedMaps` -/
def norm : V → V
  | .leaf => .leaf
  | .node k cs => .node (normKind k) (normList cs)
def normList : List V → List V
  | [] => []
  | c :: cs => norm c :: normList cs
end

/-- does a top-level value of the document have the string-keyed kind? (`unifyMapKinds`' trigger) -/
def isMapS : V → Bool
  | .node .mapS _ => true
  | _ => false

/-- `unifyMapKinds` on the lists of top-level values of two documents -/
def unify (a b : List V) : List V × List V :=
  if a.any isMapS || b.any isMapS then (normList a, normList b) else (a, b)

mutual
/-- no interface-keyed mapping and no list of tables anywhere -/
def uniform : V → Bool
  | .leaf => true
  | .node k cs => (k == .mapS || k == .listI) && uniformList cs
def uniformList : List V → Bool
  | [] => true
  | c :: cs => uniform c && uniformList cs
end

mutual
/-- what yaml.v2 returns -/
def pureI : V → Bool
  | .leaf => true
  | .node k cs => (k == .mapI || k == .listI) && pureIList cs
def pureIList : List V → Bool
  | [] => true
  | c :: cs => pureI c && pureIList cs
end

/-- the shape of a tree with the kinds forgotten (mapping / list) -/
inductive Shape | leaf | map (cs : List Shape) | list (cs : List Shape)
deriving Repr

def isMapKind : Kind → Bool
  | .mapI | .mapS => true
  | _ => false

mutual
def shape : V → Shape
  | .leaf => .leaf
  | .node k cs => if isMapKind k then .map (shapeList cs) else .list (shapeList cs)
def shapeList : List V → List Shape
  | [] => []
  | c :: cs => shape c :: shapeList cs
end

end Normalise
