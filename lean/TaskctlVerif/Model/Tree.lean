import TaskctlVerif.Model.Nested
/-!
# Pipelines nested to any depth

`Model/Nested.lean` is the product of two scheduler models (one nested stage).  Here the whole
inclusion tree is modelled: a pipeline is addressed by the list of stage indices that leads to it,
innermost first (`[]` is the pipeline given to the outermost `Schedule`; `s :: q` is the pipeline run
by stage `s` of the pipeline at `q`).  Every pipeline of the tree has its own scheduler state; one
action of one of them per step, in any interleaving.  As in the code (`runStage` calls
`s.Schedule(stage.Pipeline)` from the stage's goroutine):

* an action of the pipeline at `s :: q` is possible only while stage `s` of `q` is inside `Run`;
* the goroutine of a stage that runs a pipeline continues only when the inner `Schedule` has
  returned, and fails iff the inner graph recorded an error.

The tree gives every inclusion its own graph; a graph object shared by several includers (the same
pipeline included twice) is the subject of `Model/SchedMulti.lean`.

Core Lean only.
-/
namespace Sched

abbrev Path := List Nat

structure TCfg where
  cfg  : Path → Cfg
  /-- stage `s` of the pipeline at `p` runs the pipeline at `s :: p` -/
  pipe : Path → Nat → Bool
  /-- number of stages of the pipeline at `p` -/
  n    : Path → Nat

abbrev TSt := Path → St

def tinit : TSt := fun _ => init

structure TAct where
  p : Path
  a : Act
deriving Repr

/-- is the goroutine that runs the pipeline at `p` inside its `Schedule` call? -/
def enclosingInRun (σ : TSt) : Path → Bool
  | [] => true
  | s :: q => (σ q).g s == .inRun

def tset (σ : TSt) (p : Path) (τ : St) : TSt := fun r => if r = p then τ else σ r

def tstep (T : TCfg) (σ : TSt) (x : TAct) : TSt :=
  if enclosingInRun σ x.p then
    match x.a with
    | .ret s ok =>
      if T.pipe x.p s then
        if innerOver (T.n (s :: x.p)) (σ (s :: x.p)) then
          tset σ x.p (step (T.cfg x.p) (σ x.p) (.ret s (!(σ (s :: x.p)).gerr)))
        else σ
      else tset σ x.p (step (T.cfg x.p) (σ x.p) (.ret s ok))
    | a => tset σ x.p (step (T.cfg x.p) (σ x.p) a)
  else σ

def trun (T : TCfg) (σ : TSt) (xs : List TAct) : TSt := xs.foldl (tstep T) σ

/-! ## Final states of complete runs of a tree (compared with the implementation) -/

/-- one pipeline of the tree: where it is, its configuration over `n` stages, the outcomes of its
(leaf) tasks -/
structure TNode where
  p   : Path
  n   : Nat
  cfg : Cfg
  okf : Nat → Bool

/-- the run of the pipeline at `p` on its own (it depends only on what lies below it): a stage that
includes a pipeline succeeds iff that pipeline's run recorded no error.  `fuel` bounds the depth. -/
def treeOwnFinal (nodes : List TNode) : Nat → Path → St
  | 0, _ => init
  | fuel + 1, p =>
    match nodes.find? (·.p == p) with
    | none => init
    | some nd =>
      fairFinal nd.cfg (fun s =>
        if nodes.any (·.p == s :: p) then !(treeOwnFinal nodes fuel (s :: p)).gerr else nd.okf s) nd.n

/-- was the pipeline at `p` run at all: every enclosing stage, up to the root, was started -/
def treeReached (nodes : List TNode) (fuel : Nat) : Path → Bool
  | [] => true
  | s :: q => treeReached nodes fuel q && (treeOwnFinal nodes fuel q).g s != .none

/-- the state of the pipeline at `p` when the outermost run is over -/
def treeFinal (nodes : List TNode) (fuel : Nat) (p : Path) : St :=
  if treeReached nodes fuel p then treeOwnFinal nodes fuel p else init

end Sched
