import TaskctlVerif.Model.Sched
/-!
# Several `Schedule` loops over ONE graph (a pipeline included by several stages)

`internal/config` gives every stage that includes pipeline `p` the same `*ExecutionGraph`.  When several
of those stages are eligible together, `runStage` calls `s.Schedule(p)` from several goroutines: several
loops examine the stages of `p` at the same time.  A loop reads a stage as waiting, evaluates its
condition and its dependencies (any amount of time passes), and then starts it.

The model keeps only what matters for "started at most once": per loop `l` the stage it is currently
examining (`pc l`), per stage its status, goroutine state and start counter.  Whether the examination
finds the stage ready is left to the adversary (`start` may or may not follow a `visit`; `giveUp`
abandons the examination), so the result holds for every dependency structure and every condition.

`cas = true` is the repaired code (fix 6c07174): the waiting → running transition is a
compare-and-swap, only the loop that performs it starts the stage.  `cas = false` is the code before
the repair: `wg.Add(1); stage.UpdateStatus(StatusRunning); go …` whatever the status has become.

Core Lean only.
-/
namespace SchedMulti
open Sched

structure MSt where
  status : Nat → Status
  g      : Nat → G
  starts : Nat → Nat
  pc     : Nat → Option Nat     -- loop l is examining stage (pc l)

inductive MAct
  | visit (l s : Nat)        -- loop l reads stage s as waiting and begins to examine it
  | giveUp (l : Nat)         -- the examination ends without a start (condition false, dependency not ready, ...)
  | start (l : Nat)          -- the examination ends with "ready": the loop starts the stage
  | ret (s : Nat) (ok : Bool)
  | post (s : Nat)
deriving Repr

def minit : MSt :=
  { status := fun _ => .waiting, g := fun _ => .none, starts := fun _ => 0, pc := fun _ => none }

def mstep (cas : Bool) (σ : MSt) : MAct → MSt
  | .visit l s =>
    if σ.pc l = none ∧ σ.status s = .waiting then { σ with pc := upd σ.pc l (some s) } else σ
  | .giveUp l => { σ with pc := upd σ.pc l none }
  | .start l =>
    match σ.pc l with
    | none => σ
    | some s =>
      if cas && σ.status s != .waiting then
        { σ with pc := upd σ.pc l none }            -- the compare-and-swap fails: another loop was faster
      else
        { σ with pc := upd σ.pc l none, status := upd σ.status s .running, g := upd σ.g s .inRun,
                 starts := upd σ.starts s (σ.starts s + 1) }
  | .ret s ok =>
    if σ.g s = .inRun then
      if ok then { σ with status := upd σ.status s .done, g := upd σ.g s .fin }
      else { σ with status := upd σ.status s .error, g := upd σ.g s .afterErr }
    else σ
  | .post s =>
    if σ.g s = .afterErr then { σ with status := upd σ.status s .done, g := upd σ.g s .fin } else σ

def mrun (cas : Bool) (σ : MSt) (as : List MAct) : MSt := as.foldl (mstep cas) σ

end SchedMulti
