import TaskctlVerif.Model.Layers
import TaskctlVerif.Model.Cli
/-!
# Model of template variables (C10)

`internal/config/loader.go` `Load` (defaults ⊕ global file ⊕ project file, then `Root`),
`cmd/taskctl/taskctl.go` `Before` (`--set k=v`) and `buildTaskRunner` (`Args`, `ArgsList`),
`pkg/runner/runner.go` `Run` (`r.variables.Merge(t.Variables)`), `pkg/scheduler` `runStage`
(`t.Variables.Merge(stage.Variables)` on the per-stage copy).  Values are an arbitrary type.

Core Lean only.
-/
namespace Vars
open Layers

structure VarLevels (β : Type) where
  defaults : Env β      -- TempDir
  globalF  : Env β      -- ~/.taskctl/config.yaml `variables:`
  project  : Env β      -- project file `variables:`
  root     : β          -- `Root`
  set      : Env β      -- `--set k=v`, later occurrences win
  args     : β          -- `.Args`
  argsList : β          -- `.ArgsList`
  task     : Env β
  stage    : Env β      -- empty for a direct run

/-- configuration-level variables as `Load` leaves them -/
def cfgVars {β} (L : VarLevels β) : Env β :=
  withKey (merge (merge L.defaults L.globalF) L.project) "Root" L.root

/-- the runner's variables -/
def runnerVars {β} (L : VarLevels β) : Env β :=
  withKey (withKey (merge (cfgVars L) L.set) "Args" L.args) "ArgsList" L.argsList

/-- what the templates of a task's commands are rendered with -/
def taskVars {β} (L : VarLevels β) : Env β :=
  merge (merge (runnerVars L) L.task) L.stage

/-- `--set k=v`: split on `=`, the rest is re-joined; an entry without `=` is ignored -/
def parseSet (s : String) : Option (String × String) :=
  match s.splitOn "=" with
  | k :: v :: rest => some (k, "=".intercalate (v :: rest))
  | _ => none

end Vars
