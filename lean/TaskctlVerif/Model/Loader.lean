/-!
# Model of the crash-prone parts of configuration loading (C15)

Three layers, each with the explicit outcome `panic` at every place the Go code could panic before
the `fix:` commit (`…Old`), and the repaired functions, which return errors instead:

* (a) `Loader.load`'s handling of the raw `import` value (`internal/config/loader.go`): what any of
  the three parsers can return is a `Value`;
* (b) `buildFromDefinition` / `buildPipeline` on a decoded definition in which every map entry and
  list element may be `nil` (what `mapstructure` produces for `null`), and `buildTask`'s `env_file`;
* (c) `utils.ReadEnvFile` on arbitrary lines.

Modelled, not verified: the parsers and `mapstructure`/`mergo` themselves (third-party).
Core Lean only.
-/
namespace Loader

inductive Value
  | null
  | str (s : String)
  | num (n : Int)
  | bool (b : Bool)
  | list (items : List Value)
  | map (entries : List (String × Value))

inductive Outcome (α : Type)
  | ok (a : α)
  | err
  | panic
deriving Repr, DecidableEq

/-! ## (a) the `import` value -/

def itemString : Value → Option String
  | .str s => some s
  | _ => none

/-- repaired: a list of strings, or a single string; anything else is an error -/
def importList : Value → Outcome (List String)
  | .list items =>
    if items.all (fun v => (itemString v).isSome) then .ok (items.filterMap itemString) else .err
  | .str s => .ok [s]
  | _ => .err

/-- pre-fix: `imports.([]interface{})` and `v.(string)` unchecked -/
def importListOld : Value → Outcome (List String)
  | .list items =>
    if items.all (fun v => (itemString v).isSome) then .ok (items.filterMap itemString) else .panic
  | _ => .panic

/-! ## (b) definitions with nil-able entries -/

inductive EnvFileRef | none | missing | malformed | good
deriving DecidableEq, Repr

structure TaskDef where
  envFile : EnvFileRef
deriving Repr

structure StageDef where
  hasTask : Bool       -- names a task (otherwise a pipeline)
  refOk   : Bool       -- the named task / pipeline exists
  hasDir  : Bool
deriving Repr

structure ConfigDef where
  contexts  : List (Option Unit)
  tasks     : List (Option TaskDef)
  watchers  : List (Option Bool)              -- `some taskExists`
  pipelines : List (List (Option StageDef))
deriving Repr

def buildTaskOutcome (t : TaskDef) : Bool :=      -- true = built, false = error
  match t.envFile with
  | .none | .good => true
  | .missing | .malformed => false

/-- repaired `buildFromDefinition`: a nil definition, a failing `buildTask`, a nil stage are errors -/
def build (d : ConfigDef) : Outcome Unit :=
  if d.contexts.any (·.isNone) then .err
  else if d.tasks.any (fun t => match t with | none => true | some t => !buildTaskOutcome t) then .err
  else if d.watchers.any (fun w => match w with | none => true | some ok => !ok) then .err
  else if d.pipelines.any (fun p => p.any (fun s => match s with | none => true | some s => !s.refOk)) then .err
  else .ok ()

/-- pre-fix: every nil is dereferenced; a failed `buildTask` leaves a nil task that is used before the
error check; `stage.Task.Dir = stage.Dir` on a pipeline stage dereferences a nil task; a malformed
env_file indexes out of range -/
def buildOld (d : ConfigDef) : Outcome Unit :=
  if d.contexts.any (·.isNone) then .panic
  else if d.tasks.any (fun t => match t with | none => true | some t => !buildTaskOutcome t) then .panic
  else if d.watchers.any (·.isNone) then .panic
  else if d.watchers.any (fun w => w == some false) then .err
  else if d.pipelines.any (fun p => p.any (·.isNone)) then .panic
  else if d.pipelines.any (fun p => p.any (fun s => match s with | some s => !s.refOk | none => false)) then .err
  else if d.pipelines.any (fun p => p.any (fun s => match s with | some s => !s.hasTask && s.hasDir | none => false)) then .panic
  else .ok ()

/-! ## (c) env files -/

/-- split at the first `=` -/
def splitFirst : List Char → Option (List Char × List Char)
  | [] => none
  | c :: rest =>
    if c = '=' then some ([], rest)
    else match splitFirst rest with
      | some (k, v) => some (c :: k, v)
      | none => none

def isBlankOrComment (l : List Char) : Bool :=
  match l.dropWhile Char.isWhitespace with
  | [] => true
  | c :: _ => c = '#'

/-- repaired `ReadEnvFile` on the list of lines: blank lines and comments are skipped, a line without
`=` or with an empty name is an error, the value is everything after the first `=` -/
def readEnvLines : List (List Char) → Outcome (List (List Char × List Char))
  | [] => .ok []
  | l :: rest =>
    if isBlankOrComment l then readEnvLines rest
    else match splitFirst l with
      | some (k, v) =>
        if k = [] then .err
        else match readEnvLines rest with
          | .ok m => .ok ((k, v) :: m)
          | r => r
      | none => .err

/-- pre-fix: `kv := strings.Split(line, "="); envs[kv[0]] = kv[1]` -/
def readEnvLinesOld : List (List Char) → Outcome (List (List Char × List Char))
  | [] => .ok []
  | l :: rest =>
    match splitFirst l with
    | some (k, v) =>
      match readEnvLinesOld rest with
      | .ok m => .ok ((k, (v.takeWhile (· ≠ '=')) ) :: m)     -- value truncated at the next `=`
      | r => r
    | none => .panic                                              -- index out of range [1]

end Loader
