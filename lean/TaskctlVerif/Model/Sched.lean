/-!
# Model S of `pkg/scheduler/scheduler.go` (C01–C04, and the scheduler half of C03/C12/C18)

One `Act` per atomic access to shared state: the polling loop of `Schedule` (scheduler.go:41-96)
interleaved with the stage goroutines (scheduler.go:73-92).  A run is a list of actions; "for all
schedules" is "for all action lists".  A disabled action is a no-op, so every list is a run.

* `visit s`  — the loop picks node `s` (any node at any time: covers Go's random map order, repeated
               passes, every pass boundary); if `Waiting`, the stage condition is evaluated:
               `fails` → `Skipped`; `err` → `Error` and the scheduler cancels; otherwise the loop
               enters `checkStatus`.
* `read`     — `checkStatus` loads one dependency status and folds it into `ready`
               (scheduler.go:158-171), possibly marking the stage `Canceled`.
* `decide`   — `ready` ⇒ store `Running`, start the goroutine.
* `ret s ok` — `runStage` returns in the goroutine of `s` with an outcome chosen by the adversary;
               stores `Done` or `Error`.
* `post s`   — after `Error`: `AllowFailure` ⇒ store `Done`; otherwise record the graph error.
* `cancel`   — `Scheduler.Cancel` from outside.

Core Lean only: compiled into the oracle executable.
-/
namespace Sched

inductive Status | waiting | running | skipped | done | error | canceled
deriving DecidableEq, Repr

inductive Cond | none | meets | fails | err
deriving DecidableEq, Repr

structure Cfg where
  deps  : Nat → List Nat
  allow : Nat → Bool
  cond  : Nat → Cond

/-- scheduler-loop program counter -/
inductive Pc
  | idle
  | check (s : Nat) (rest : List Nat) (ready : Bool)
deriving DecidableEq, Repr

/-- per-stage goroutine state -/
inductive G | none | inRun | afterErr | fin
deriving DecidableEq, Repr

structure St where
  status    : Nat → Status
  pc        : Pc
  g         : Nat → G
  gerr      : Bool
  cancelled : Bool
  starts    : Nat → Nat

def upd {α} (f : Nat → α) (k : Nat) (v : α) : Nat → α := fun i => if i = k then v else f i


inductive Act
  | visit (s : Nat)
  | read
  | decide
  | ret (s : Nat) (ok : Bool)   -- Run returns, adversary picks the outcome
  | post (s : Nat)
  | cancel
deriving Repr

def init : St :=
  { status := fun _ => .waiting, pc := .idle, g := fun _ => .none, gerr := false,
    cancelled := false, starts := fun _ => 0 }

def step (c : Cfg) (σ : St) : Act → St
  | .visit s =>
    match σ.pc with
    | .idle =>
      if σ.status s = .waiting then
        match c.cond s with
        | .fails => { σ with status := upd σ.status s .skipped }
        | .err   => { σ with status := upd σ.status s .error, cancelled := true }
        | _      => { σ with pc := .check s (c.deps s) true }
      else σ
    | _ => σ
  | .read =>
    match σ.pc with
    | .check s (d :: rest) ready =>
      match σ.status d with
      | .done | .skipped => { σ with pc := .check s rest ready }
      | .error =>
        if c.allow d then { σ with pc := .check s rest ready }
        else { σ with pc := .check s rest false, status := upd σ.status s .canceled }
      | .canceled => { σ with pc := .check s rest false, status := upd σ.status s .canceled }
      | _ => { σ with pc := .check s rest false }
    | _ => σ
  | .decide =>
    match σ.pc with
    | .check s [] ready =>
      if ready then
        { σ with pc := .idle, status := upd σ.status s .running, g := upd σ.g s .inRun,
                 starts := upd σ.starts s (σ.starts s + 1) }
      else { σ with pc := .idle }
    | _ => σ
  | .ret s ok =>
    if σ.g s = .inRun then
      if ok then { σ with status := upd σ.status s .done, g := upd σ.g s .fin }
      else { σ with status := upd σ.status s .error, g := upd σ.g s .afterErr }
    else σ
  | .post s =>
    if σ.g s = .afterErr then
      if c.allow s then { σ with status := upd σ.status s .done, g := upd σ.g s .fin }
      else { σ with gerr := true, g := upd σ.g s .fin }
    else σ
  | .cancel => { σ with cancelled := true }

def run (c : Cfg) (σ : St) (as : List Act) : St := as.foldl (step c) σ

/-! ## The declarative final status (C02): determined by the graph and the outcomes alone -/

/-- what a stage that runs ends as: a failure with allow_failure counts as done -/
def outcome (c : Cfg) (okf : Nat → Bool) (s : Nat) : Status :=
  if okf s || c.allow s then .done else .error

/-- final status of stage `s`, by recursion on the dependency structure (fuel `k`; `rank s + 1`
suffices for an acyclic configuration, see `finalF_fuel`) -/
def finalF (c : Cfg) (okf : Nat → Bool) : Nat → Nat → Status
  | 0, _ => .waiting
  | k+1, s =>
    if c.cond s = .fails then .skipped
    else if (c.deps s).any (fun d => decide (finalF c okf k d = .canceled) || decide (finalF c okf k d = .error))
      then .canceled
    else outcome c okf s

/-! ## Loop-level macro steps (used by the oracle and by C03/C04) -/

/-- one complete examination of stage `s` by the loop: condition, every dependency, decision -/
def visitFull (c : Cfg) (σ : St) (s : Nat) : St :=
  step c (run c (step c σ (.visit s)) (List.replicate (c.deps s).length .read)) .decide

/-- one pass of the `for _, stage := range g.Nodes()` loop, in the given order -/
def pass (c : Cfg) (σ : St) (order : List Nat) : St := order.foldl (visitFull c) σ

/-- `isDone`: no stage waiting or running -/
def isDone (n : Nat) (σ : St) : Bool :=
  (List.range n).all fun s => σ.status s != .waiting && σ.status s != .running

/-- the loop until it exits, with no task returning in between (tasks stay in flight) -/
def passes (c : Cfg) (n : Nat) : Nat → St → St
  | 0, σ => σ
  | f+1, σ => if isDone n σ || σ.cancelled then σ else passes c n f (pass c σ (List.range n))

/-! ## A fair schedule (used by C03's termination theorem, by the nested model and by the oracle) -/

/-- the two goroutine steps of stage `s`: `Run` returns with `okf s`, then the status write -/
def finishActs (okf : Nat → Bool) (s : Nat) : List Act := [.ret s (okf s), .post s]

/-- every task in flight among the stages `0 … n-1` returns and its goroutine finishes -/
def drainActs (okf : Nat → Bool) (n : Nat) : List Act := (List.range n).flatMap (finishActs okf)

/-- one step of a fair schedule: drain, then one complete pass of the loop -/
def round (c : Cfg) (okf : Nat → Bool) (n : Nat) (σ : St) : St :=
  pass c (run c σ (drainActs okf n)) (List.range n)

/-- the `for !isDone` loop under the fair schedule (fuel `k`) -/
def rounds (c : Cfg) (okf : Nat → Bool) (n : Nat) : Nat → St → St
  | 0, σ => σ
  | k+1, σ => if isDone n σ || σ.cancelled then σ else rounds c okf n k (round c okf n σ)

/-- the state a complete fair run ends in (`3n + 1` rounds suffice: `C03_fair_terminates`) -/
def fairFinal (c : Cfg) (okf : Nat → Bool) (n : Nat) : St := rounds c okf n (3 * n + 1) init

end Sched
