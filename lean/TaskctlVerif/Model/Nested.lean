import TaskctlVerif.Model.Sched
/-!
# Nested pipelines: a stage whose "task" is another pipeline run (`stage.Pipeline != nil`)

`Scheduler.runStage` calls `s.Schedule(stage.Pipeline)` from the stage's own goroutine: the inner run
starts after the outer loop has started the stage (its dependencies were checked by the outer
`checkStatus`), lives entirely inside the outer stage's `Run` window, and the outer goroutine
continues (`ret`) only when the inner `Schedule` has returned — with an error iff the inner graph
recorded one.

The model is the product of two copies of the scheduler model of `Model/Sched.lean`: the outer
pipeline (configuration `co`, nested stage `S`) and the inner pipeline (configuration `ci` over the
stages `0 … ni-1`).  One action of either copy per step, in any interleaving; inner actions are
possible only while the outer stage is inside `Run`; the outer `ret S` is possible only when the
inner run is over, and carries the inner result.

Core Lean only.
-/
namespace Sched

/-- the inner `Schedule` has returned: its loop has exited (done or cancelled) and `wg.Wait()` has
returned (no goroutine between its start and its last status write) -/
def innerOver (ni : Nat) (τ : St) : Bool :=
  (isDone ni τ || τ.cancelled) &&
    (List.range ni).all fun s => τ.g s != .inRun && τ.g s != .afterErr

inductive NAct
  | outer (a : Act)
  | inner (b : Act)
deriving Repr

structure NSt where
  o : St
  i : St

def ninit : NSt := { o := init, i := init }

def nstep (co ci : Cfg) (S ni : Nat) (σ : NSt) : NAct → NSt
  | .outer (.ret s ok) =>
    if s = S then
      -- the nested stage's goroutine returns from the inner Schedule: only when that is over, and
      -- with the inner result (the adversary's `ok` is ignored)
      if innerOver ni σ.i then { σ with o := step co σ.o (.ret S (!σ.i.gerr)) } else σ
    else { σ with o := step co σ.o (.ret s ok) }
  | .outer a => { σ with o := step co σ.o a }
  | .inner b =>
    -- the inner scheduler exists only while the outer stage is inside Run
    if σ.o.g S = .inRun then { σ with i := step ci σ.i b } else σ

def nrun (co ci : Cfg) (S ni : Nat) (σ : NSt) (as : List NAct) : NSt :=
  as.foldl (nstep co ci S ni) σ

/-! ## Final states of complete runs with nested stages (compared with the implementation) -/

/-- one nested stage: its index in the outer pipeline, the inner configuration over `ni` stages and
the outcomes of the inner tasks -/
structure NestedStage where
  S   : Nat
  ci  : Cfg
  okf : Nat → Bool
  ni  : Nat

/-- the inner run of a nested stage, on its own (it does not depend on the outer run: C02) -/
def NestedStage.final (ns : NestedStage) : St := fairFinal ns.ci ns.okf ns.ni

/-- the outer run: a nested stage "succeeds" iff its inner run recorded no error -/
def nestedOuterFinal (co : Cfg) (okf : Nat → Bool) (no : Nat) (nested : List NestedStage) : St :=
  fairFinal co (fun s => match nested.find? (·.S == s) with
    | some ns => !ns.final.gerr
    | none => okf s) no

/-- the inner state of a nested stage at the end of the outer run: untouched unless the outer stage
was started -/
def nestedInnerFinal (co : Cfg) (okf : Nat → Bool) (no : Nat) (nested : List NestedStage)
    (ns : NestedStage) : St :=
  if (nestedOuterFinal co okf no nested).g ns.S = .none then init else ns.final

end Sched
