/-!
# Model of path selection and event filtering of watchers (C20)

`internal/watch/watch.go` `NewWatcher` selects paths with `doublestar.Glob` (include patterns) and
`doublestar.PathMatch` (exclude patterns) — third-party, v1.1.5.  The model is a backtracking matcher
over the property's pattern grammar (literal characters, `*`, `?` inside a segment; `**` as a whole
segment), with the library's observed conventions: `*` and `?` never cross `/`; dot-files are
ordinary; `**` stands for zero or more whole segments, except that a **trailing** `**` needs at
least one.  Patterns and paths are split on `/` (a path is a non-empty list of segments).
`[class]` and `{alt}` forms are outside the grammar.

`fires` is the event filter of `Watcher.handle` (`fsnotifyMap`, the subscribed set, default = all
five types); `serve` is the handler loop after the `fix:` commit (no state: every event is handled
on its own).  Core Lean only.
-/
namespace Glob

inductive Atom
  | lit (c : Char)
  | star
  | qmark
deriving DecidableEq, Repr

abbrev SegPat := List Atom

inductive PSeg
  | seg (p : SegPat)
  | dstar
deriving DecidableEq, Repr

def segMatch : SegPat → List Char → Bool
  | [], s => s.isEmpty
  | .star :: p, s =>
    segMatch p s || (match s with
      | [] => false
      | _ :: s' => segMatch (.star :: p) s')
  | .qmark :: _, [] => false
  | .qmark :: p, _ :: s => segMatch p s
  | .lit _ :: _, [] => false
  | .lit a :: p, c :: s => a == c && segMatch p s
termination_by p s => p.length + s.length

def gmatch : List PSeg → List (List Char) → Bool
  | [], path => path.isEmpty
  | .seg _ :: _, [] => false
  | .seg p :: ps, s :: rest => segMatch p s && gmatch ps rest
  | .dstar :: ps, path =>
    if ps.isEmpty then !path.isEmpty
    else gmatch ps path || (match path with
      | [] => false
      | _ :: rest => gmatch (.dstar :: ps) rest)
termination_by ps path => ps.length + path.length

/-- `collapseDoublestars` of `internal/watch/watch.go`: a `**` component that directly follows another
one is dropped before the include pattern is handed to `doublestar.Glob` (which reads the second of
two adjacent `**` as `*`) -/
def collapse : List PSeg → List PSeg
  | .dstar :: .dstar :: ps => collapse (.dstar :: ps)
  | s :: ps => s :: collapse ps
  | [] => []

/-- the observed paths: those matching at least one include pattern and no exclude pattern -/
def select (incl excl : List (List PSeg)) (tree : List (List (List Char))) : List (List (List Char)) :=
  tree.filter fun x => incl.any (fun p => gmatch p x) && !excl.any (fun p => gmatch p x)

/-! ## parsing of the textual forms (used by the oracle only) -/

def parseSeg (s : String) : PSeg :=
  if s = "**" then .dstar
  else .seg (s.toList.map fun c => if c = '*' then .star else if c = '?' then .qmark else .lit c)

def parsePattern (s : String) : List PSeg := (s.splitOn "/").map parseSeg
def parsePath (s : String) : List (List Char) := (s.splitOn "/").map String.toList

/-! ## events -/

inductive EvKind | create | write | remove | rename | chmod
deriving DecidableEq, Repr

/-- does an event of this kind run the task?  no subscription listed = all five types -/
def fires (subscribed : List EvKind) (k : EvKind) : Bool :=
  subscribed.isEmpty || subscribed.contains k

structure Event where
  kind : EvKind
  path : String
deriving DecidableEq, Repr

/-- what the task is run with for each delivered event, in order: `(EventName, EventPath)` -/
def serve (subscribed : List EvKind) (events : List Event) : List (EvKind × String) :=
  events.filterMap fun e => if fires subscribed e.kind then some (e.kind, e.path) else none

end Glob
