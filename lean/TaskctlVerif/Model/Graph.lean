/-!
# Model of `pkg/scheduler/graph.go` (C05)

`ExecutionGraph` keeps two maps `from`/`to : map[string][]string` that are only ever appended to
(`addEdge`, graph.go:67-76).  The model keeps the *list of edges in insertion order*; the two maps
are then the projections `fromOf`/`toOf` (Go's `append` keeps insertion order, so
`g.from[f] = [t | (f', t) ∈ edges, f' = f]` in order, with multiplicity).

`cycleDfs` (graph.go:112-127, after the `fix:` commit that un-marks a node on return) is an
on-path depth-first search along `from` edges, started at the head `to` of the edge just added.
The model `dfs` carries the path explicitly and has a fuel argument; `build` supplies
`edges.length + 1`, which `Proofs/Graph.lean` proves sufficient (it never runs out).

Core Lean only: this file is compiled into the oracle executable.
-/
namespace Graph

variable {α : Type} [DecidableEq α]

/-- on-path DFS with fuel; `true` = "cycle detected" (`ErrCycleDetected`) -/
def dfs (adj : α → List α) : Nat → List α → α → Bool
  | 0, _, _ => false
  | f+1, path, t => if t ∈ path then true else (adj t).any (fun nx => dfs adj f (t :: path) nx)

/-- an edge `(from, to)`: `to` depends on `from` -/
abbrev Edge (α : Type) := α × α

/-- `g.from[t]` -/
def fromOf (es : List (Edge α)) (t : α) : List α := (es.filter (fun e => e.1 = t)).map (·.2)
/-- `g.to[t]` -/
def toOf (es : List (Edge α)) (t : α) : List α := (es.filter (fun e => e.2 = t)).map (·.1)

/-- `addEdge`: append, then search from `to`; `none` = `ErrCycleDetected` -/
def addEdge (es : List (Edge α)) (f t : α) : Option (List (Edge α)) :=
  let es' := es ++ [(f, t)]
  if dfs (fromOf es') (es'.length + 1) [] t then none else some es'

structure Stage (α : Type) where
  name : α
  deps : List α
deriving Repr

/-- `AddStage`: one `addEdge(dep, stage.Name)` per dependency, in order, stop at the first error -/
def addStage (es : List (Edge α)) (s : Stage α) : Option (List (Edge α)) :=
  s.deps.foldlM (fun acc d => addEdge acc d s.name) es

/-- `NewExecutionGraph(stages...)` / the loop of `buildPipeline`: stop at the first error -/
def build (stages : List (Stage α)) : Option (List (Edge α)) :=
  stages.foldlM addStage []

/-- the declared edges, in declaration order -/
def edgesOf (stages : List (Stage α)) : List (Edge α) :=
  stages.flatMap (fun s => s.deps.map (fun d => (d, s.name)))

/-! ## The pre-fix behaviour (kept for the regression witness): "visited twice" = cycle.
`dfsOld` threads the visited set through the traversal exactly as the Go map was shared. -/

/-- returns `none` on "cycle", otherwise the new visited set -/
def dfsOld (adj : α → List α) : Nat → List α → α → Option (List α)
  | 0, vis, _ => some vis
  | f+1, vis, t =>
    if t ∈ vis then none
    else (adj t).foldlM (fun v nx => dfsOld adj f v nx) (t :: vis)

def addEdgeOld (es : List (Edge α)) (f t : α) : Option (List (Edge α)) :=
  let es' := es ++ [(f, t)]
  match dfsOld (fromOf es') (es'.length + 1) [] t with
  | none => none
  | some _ => some es'

def buildOld (stages : List (Stage α)) : Option (List (Edge α)) :=
  stages.foldlM (fun es s => s.deps.foldlM (fun acc d => addEdgeOld acc d s.name) es) []

end Graph
