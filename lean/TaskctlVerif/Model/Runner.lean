/-!
# Model R of one task run (`pkg/runner/runner.go` `Run`/`before`/`after`/`checkTaskCondition`/
# `execute`, `pkg/runner/compiler.go` `CompileTask`, `pkg/task/task.go` `GetVariations`)

An external command is a parameter: its result is `exit n` (n = 0 is success), `fault` (an error
that is not an exit status: timeout, cancellation, ...) or `norender` (its template refers to an
undefined variable: `Execute` fails *before* the command runs).  The observable side effect of a
command that began executing is the token it appends to the trace.

Core Lean only: compiled into the oracle executable.
-/
namespace Runner

inductive CmdResult
  | exit (n : BitVec 8)
  | fault
  | norender
deriving DecidableEq, Repr

inductive Tok
  | cond
  | before (i : Nat)
  | cmd (v j : Nat)
  | after (i : Nat)
deriving DecidableEq, Repr

structure TaskSpec where
  cond    : Option CmdResult          -- `none`: no condition
  before  : List CmdResult
  nCmds   : Nat
  vars    : Option Nat                -- `none`: no `variations` key (⇒ exactly one, empty, variation)
  res     : Nat → Nat → CmdResult     -- variation v, command j
  after   : List CmdResult
  allow   : Bool
  initExit : BitVec 16                -- `ExitCode` before the run (-1 for `NewTask`, 0 for config-built tasks)

structure Out where
  trace    : List Tok                 -- commands that began executing, in order
  err      : Bool                     -- `Run` returned a non-nil error
  errored  : Bool                     -- `t.Errored`
  skipped  : Bool                     -- `t.Skipped`
  exitCode : BitVec 16                -- `t.ExitCode`
deriving DecidableEq, Repr

/-- did the command begin executing? -/
def CmdResult.began : CmdResult → Bool
  | .norender => false
  | _ => true

/-- success = exit status 0 -/
def CmdResult.ok : CmdResult → Bool
  | .exit n => n == 0#8
  | _ => false

/-- `GetVariations` × `Commands`, variation-major (compiler.go:43-72) -/
def jobs (t : TaskSpec) : List (Nat × Nat) :=
  (List.range (t.vars.getD 1)).flatMap fun v => (List.range t.nCmds).map fun j => (v, j)

/-- `int16(status)` for `status : uint8` -/
def statusToExit (n : BitVec 8) : BitVec 16 := n.zeroExtend 16

/-- the `before` loop (runner.go:211-239): any error stops it. Returns (tokens, failed?) -/
def runBefore : Nat → List CmdResult → List Tok × Bool
  | _, [] => ([], false)
  | i, r :: rest =>
    let tok := if r.began then [Tok.before i] else []
    if r.ok then
      let (tr, f) := runBefore (i + 1) rest
      (tok ++ tr, f)
    else (tok, true)

/-- the `after` loop (runner.go:241-269): errors only warn -/
def runAfter : Nat → List CmdResult → List Tok
  | _, [] => []
  | i, r :: rest => (if r.began then [Tok.after i] else []) ++ runAfter (i + 1) rest

/-- `execute` (runner.go:340-374). Returns (tokens, errored?, ExitCode) -/
def execute (allow : Bool) (res : Nat → Nat → CmdResult) : List (Nat × Nat) → BitVec 16 →
    List Tok × Bool × BitVec 16
  | [], ec => ([], false, ec)
  | (v, j) :: rest, ec =>
    let r := res v j
    let tok := if r.began then [Tok.cmd v j] else []
    match r with
    | .exit n =>
      if n == 0#8 then
        let (tr, e, ec') := execute allow res rest ec
        (tok ++ tr, e, ec')
      else if allow then
        let (tr, e, ec') := execute allow res rest (statusToExit n)
        (tok ++ tr, e, ec')
      else (tok, true, statusToExit n)
    | _ => (tok, true, ec)

/-- the deferred `if !t.Errored && !t.Skipped { t.ExitCode = 0 }` -/
def finalExit (errored skipped : Bool) (ec : BitVec 16) : BitVec 16 :=
  if !errored && !skipped then 0 else ec

/-- `TaskRunner.Run` for a task in the default context, runner not cancelled -/
def runTask (t : TaskSpec) : Out :=
  -- checkTaskCondition
  match t.cond with
  | some c =>
    let tok := if c.began then [Tok.cond] else []
    match c with
    | .exit n =>
      if n == 0#8 then body t tok
      else { trace := tok, err := false, errored := false, skipped := true, exitCode := t.initExit }
    | _ => { trace := tok, err := true, errored := false, skipped := false,
             exitCode := finalExit false false t.initExit }
  | none => body t []
where
  body (t : TaskSpec) (pre : List Tok) : Out :=
    let (btr, bfail) := runBefore 0 t.before
    if bfail then
      { trace := pre ++ btr, err := true, errored := false, skipped := false,
        exitCode := finalExit false false t.initExit }
    else
      let (ctr, errored, ec) := execute t.allow t.res (jobs t) t.initExit
      if errored then
        { trace := pre ++ btr ++ ctr, err := true, errored := true, skipped := false,
          exitCode := finalExit true false ec }
      else
        { trace := pre ++ btr ++ ctr ++ runAfter 0 t.after, err := false, errored := false,
          skipped := false, exitCode := finalExit false false ec }

/-- the canonical full order of a task's commands -/
def canon (t : TaskSpec) : List Tok :=
  (if t.cond.isSome then [Tok.cond] else []) ++
  (List.range t.before.length).map Tok.before ++
  (jobs t).map (fun p => Tok.cmd p.1 p.2) ++
  (List.range t.after.length).map Tok.after

end Runner
