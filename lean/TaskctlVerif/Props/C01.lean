import TaskctlVerif.Proofs.Sched
import TaskctlVerif.Model.Nested
import TaskctlVerif.Model.Tree
import TaskctlVerif.Proofs.SchedLoops
/-!
# C01 — a stage never starts before all of its dependencies have finished

Model: `Model/Sched.lean`.  Quantifiers discharged by the theorems: every dependency function
(acyclicity is not needed for safety), any number of stages, every assignment of outcome /
allow_failure / condition, every interleaving of the loop's individual status reads with the status
writes of every stage goroutine, every moment of the run (every prefix of every action list).
-/
namespace Sched

/-- **C01 (core)**: in every reachable state, every dependency of a stage whose task has been
started is *satisfied*: done, skipped by its condition, or failed with allow_failure. -/
theorem C01_deps_satisfied (c : Cfg) (as : List Act) (s d : Nat) (hd : d ∈ c.deps s)
    (hs : (run c init as).g s ≠ .none) : Sat c (run c init as) d :=
  (inv_run c as).started s hs d hd

/-- C01 (state form): a started stage has no dependency that is still waiting or running, and no
dependency's task is inside `Run`. -/
theorem C01_state (c : Cfg) (as : List Act) (s d : Nat) (hd : d ∈ c.deps s)
    (hs : (run c init as).g s ≠ .none) :
    (run c init as).status d ≠ .waiting ∧ (run c init as).status d ≠ .running ∧
      (run c init as).g d ≠ .inRun := by
  have h := inv_run c as
  have := h.started s hs d hd
  have hr := h.g_run d
  unfold Sat at this
  grind

/-- a started stage stays started -/
theorem started_stable (c : Cfg) (σ : St) (a : Act) (s : Nat) (h : σ.g s ≠ .none) :
    (step c σ a).g s ≠ .none := by
  cases a <;> simp only [step] <;> (repeat' split) <;> grind

theorem started_stable_run (c : Cfg) (as : List Act) : ∀ (σ : St) (s : Nat), σ.g s ≠ .none →
    (run c σ as).g s ≠ .none := by
  induction as with
  | nil => intro σ s h; exact h
  | cons a as ih => intro σ s h; exact ih _ s (started_stable c σ a s h)

/-- **C01 (temporal form)**: once a stage has started (after the prefix `as₁`), at *every later
moment* of the run (any continuation `as₂`) each of its dependencies is still finished: it is
never waiting, never running, never inside `Run` again.  Hence every `Run` of a dependency lies
entirely before the start of the dependant, whatever the durations. -/
theorem C01_always (c : Cfg) (as₁ as₂ : List Act) (s d : Nat) (hd : d ∈ c.deps s)
    (hs : (run c init as₁).g s ≠ .none) :
    let σ := run c init (as₁ ++ as₂)
    σ.status d ≠ .waiting ∧ σ.status d ≠ .running ∧ σ.g d ≠ .inRun := by
  have h2 : (run c init (as₁ ++ as₂)).g s ≠ .none := by
    rw [run_append]; exact started_stable_run c as₂ _ s hs
  exact C01_state c (as₁ ++ as₂) s d hd h2

/-- the moment of the start itself: the `decide` action that starts `s` happens in a state in which
every dependency is already satisfied -/
theorem C01_at_start (c : Cfg) (as : List Act) (s d : Nat) (hd : d ∈ c.deps s)
    (h0 : (run c init as).g s = .none)
    (h1 : (step c (run c init as) .decide).g s ≠ .none) : Sat c (run c init as) d := by
  have hi := inv_run c as
  generalize run c init as = σ at *
  simp only [step] at h1
  split at h1
  · rename_i s' ready hpc
    split at h1
    · rename_i hr
      have hc := hi.chk _ _ _ hpc
      by_cases hss : s = s'
      · subst hss
        rcases hc.2.2 hr d hd with h | h
        · cases h
        · exact h
      · simp [upd_apply, hss] at h1; exact absurd h0 h1
    · exact absurd h0 h1
  · exact absurd h0 h1

/-! ## Nested pipelines (`Model/Nested.lean`) -/

/-- every step of the product is a step (or no step) of each component -/
theorem nstep_outer (co ci : Cfg) (S ni : Nat) (σ : NSt) (a : NAct) :
    (nstep co ci S ni σ a).o = σ.o ∨ ∃ oa, (nstep co ci S ni σ a).o = step co σ.o oa := by
  cases a with
  | outer oa =>
    cases oa with
    | ret s ok =>
      simp only [nstep]
      split
      · split
        · exact .inr ⟨.ret S (!σ.i.gerr), rfl⟩
        · exact .inl rfl
      · exact .inr ⟨.ret s ok, rfl⟩
    | visit s => exact .inr ⟨.visit s, rfl⟩
    | read => exact .inr ⟨.read, rfl⟩
    | decide => exact .inr ⟨.decide, rfl⟩
    | post s => exact .inr ⟨.post s, rfl⟩
    | cancel => exact .inr ⟨.cancel, rfl⟩
  | inner ib =>
    simp only [nstep]
    split <;> exact .inl rfl

theorem nstep_inner (co ci : Cfg) (S ni : Nat) (σ : NSt) (a : NAct) :
    (nstep co ci S ni σ a).i = σ.i ∨
      (σ.o.g S = .inRun ∧ ∃ ib, (nstep co ci S ni σ a).i = step ci σ.i ib) := by
  cases a with
  | outer oa =>
    left
    cases oa with
    | ret s ok => simp only [nstep]; split <;> (try split) <;> rfl
    | visit s => rfl
    | read => rfl
    | decide => rfl
    | post s => rfl
    | cancel => rfl
  | inner ib =>
    simp only [nstep]
    split
    · rename_i hg; exact .inr ⟨hg, ib, rfl⟩
    · exact .inl rfl

/-- product invariant: both components satisfy the scheduler invariant, and the inner run has not
begun unless the outer nested stage has been started -/
structure NInv (co ci : Cfg) (S : Nat) (σ : NSt) : Prop where
  o : Inv co σ.o
  i : Inv ci σ.i
  gate : σ.i = init ∨ σ.o.g S ≠ .none

theorem ninv_step (co ci : Cfg) (S ni : Nat) (σ : NSt) (a : NAct) (h : NInv co ci S σ) :
    NInv co ci S (nstep co ci S ni σ a) := by
  have ho := nstep_outer co ci S ni σ a
  have hi := nstep_inner co ci S ni σ a
  have hog : (nstep co ci S ni σ a).o.g S ≠ .none ∨ σ.o.g S = .none := by
    by_cases hg : σ.o.g S = .none
    · exact .inr hg
    · left
      rcases ho with ho | ⟨oa, ho⟩ <;> rw [ho]
      · exact hg
      · exact started_stable co σ.o oa S hg
  refine ⟨?_, ?_, ?_⟩
  · rcases ho with ho | ⟨oa, ho⟩ <;> rw [ho]
    · exact h.o
    · exact inv_step co σ.o oa h.o
  · rcases hi with hi | ⟨_, ib, hi⟩ <;> rw [hi]
    · exact h.i
    · exact inv_step ci σ.i ib h.i
  · rcases hi with hi | ⟨hg, _, _⟩
    · rcases h.gate with hgate | hgate
      · exact .inl (by rw [hi]; exact hgate)
      · rcases hog with h1 | h1
        · exact .inr h1
        · exact absurd h1 hgate
    · rcases hog with h1 | h1
      · exact .inr h1
      · rw [h1] at hg; cases hg

theorem ninv_run (co ci : Cfg) (S ni : Nat) (as : List NAct) :
    NInv co ci S (nrun co ci S ni ninit as) := by
  suffices ∀ σ, NInv co ci S σ → NInv co ci S (nrun co ci S ni σ as) from
    this _ ⟨inv_init co, inv_init ci, .inl rfl⟩
  induction as with
  | nil => intro σ h; exact h
  | cons a as ih => intro σ h; exact ih _ (ninv_step co ci S ni σ a h)

/-- **C01 inside nested pipelines**: in every reachable state of an outer pipeline whose stage `S`
runs an inner pipeline, under every interleaving of the two schedulers and all their goroutines:
an inner stage `x` whose task has been started has (1) every one of its own dependencies
satisfied in the inner run, and (2) every dependency of the enclosing stage `S` satisfied in the
outer run — so a task inside a nested pipeline starts only after the dependencies declared at
every enclosing level have finished. -/
theorem C01_nested (co ci : Cfg) (S ni : Nat) (as : List NAct) (x : Nat)
    (hx : (nrun co ci S ni ninit as).i.g x ≠ .none) :
    (∀ d ∈ ci.deps x, Sat ci (nrun co ci S ni ninit as).i d) ∧
    (∀ d ∈ co.deps S, Sat co (nrun co ci S ni ninit as).o d) := by
  have h := ninv_run co ci S ni as
  refine ⟨fun d hd => h.i.started x hx d hd, fun d hd => ?_⟩
  rcases h.gate with hg | hg
  · rw [hg] at hx; exact absurd rfl hx
  · exact h.o.started S hg d hd

/-- the outer nested stage is still inside `Run` for as long as the inner run is not over: the
inner run lies inside the outer stage's window -/
theorem C01_nested_window (co ci : Cfg) (S ni : Nat) (σ : NSt) (ok : Bool)
    (h : innerOver ni σ.i = false) : nstep co ci S ni σ (.outer (.ret S ok)) = σ := by
  simp [nstep, h]

/-! ## Pipelines nested to any depth (`Model/Tree.lean`) -/

/-- one step of the tree either changes nothing or is one scheduler step of exactly one pipeline,
whose enclosing stage (if any) is inside `Run` -/
theorem tstep_cases (T : TCfg) (σ : TSt) (x : TAct) :
    tstep T σ x = σ ∨
      (enclosingInRun σ x.p = true ∧ ∃ a, tstep T σ x = tset σ x.p (step (T.cfg x.p) (σ x.p) a)) := by
  unfold tstep
  split
  · rename_i hen
    split
    · split
      · split
        · exact .inr ⟨hen, _, rfl⟩
        · exact .inl rfl
      · exact .inr ⟨hen, _, rfl⟩
    · exact .inr ⟨hen, _, rfl⟩
  · exact .inl rfl

/-- tree invariant: every pipeline satisfies the scheduler invariant, and the run of an included
pipeline has not begun unless the stage that includes it has been started -/
structure TInv (T : TCfg) (σ : TSt) : Prop where
  each : ∀ p, Inv (T.cfg p) (σ p)
  gate : ∀ s q, σ (s :: q) = init ∨ (σ q).g s ≠ .none

theorem tinv_init (T : TCfg) : TInv T tinit :=
  ⟨fun p => inv_init (T.cfg p), fun _ _ => .inl rfl⟩

theorem cons_ne_self (s : Nat) (q : Path) : s :: q ≠ q := by
  intro h
  have := congrArg List.length h
  simp at this

theorem tinv_step (T : TCfg) (σ : TSt) (x : TAct) (h : TInv T σ) : TInv T (tstep T σ x) := by
  rcases tstep_cases T σ x with he | ⟨hen, a, he⟩ <;> rw [he]
  · exact h
  · refine ⟨fun p => ?_, fun s q => ?_⟩
    · unfold tset
      split
      · rename_i hp; subst hp; exact inv_step _ _ a (h.each _)
      · exact h.each p
    · unfold tset
      by_cases h1 : s :: q = x.p
      · -- the included pipeline moved: the including stage is inside Run, and is not the same pipeline
        right
        have hq : q ≠ x.p := fun hq => cons_ne_self s q (h1.trans hq.symm)
        simp only [if_neg hq]
        have : enclosingInRun σ (s :: q) = true := by rw [h1]; exact hen
        simp only [enclosingInRun, beq_iff_eq] at this
        rw [this]; simp
      · simp only [if_neg h1]
        by_cases h2 : q = x.p
        · simp only [if_pos h2]
          rcases h.gate s q with hg | hg
          · exact .inl hg
          · right; rw [← h2]; exact started_stable _ _ a s hg
        · simp only [if_neg h2]; exact h.gate s q

theorem tinv_run (T : TCfg) (xs : List TAct) : TInv T (trun T tinit xs) := by
  suffices ∀ σ, TInv T σ → TInv T (trun T σ xs) from this _ (tinv_init T)
  induction xs with
  | nil => intro σ h; exact h
  | cons x xs ih => intro σ h; exact ih _ (tinv_step T σ x h)

/-- a pipeline whose run has begun lies below started stages all the way up -/
theorem enclosing_started (T : TCfg) (σ : TSt) (h : TInv T σ) :
    ∀ (pre : Path) (s : Nat) (q : Path), σ (pre ++ s :: q) ≠ init → (σ q).g s ≠ .none := by
  intro pre
  induction pre with
  | nil =>
    intro s q hne
    rcases h.gate s q with hg | hg
    · exact absurd hg hne
    · exact hg
  | cons t pre ih =>
    intro s q hne
    rcases h.gate t (pre ++ s :: q) with hg | hg
    · exact absurd hg hne
    · exact ih s q (fun hi => hg (by rw [hi]; rfl))

/-- **C01 at every depth of nesting**: in every reachable state of a tree of pipelines, under every
interleaving of all the schedulers and all their goroutines, a stage `x` of the pipeline at `p`
whose task has been started has (1) each of its own dependencies satisfied, and (2) for *every*
enclosing level - every way of writing `p` as `pre ++ s :: q`, i.e. `p` lies inside the pipeline
run by stage `s` of `q` - each dependency of the enclosing stage `s` satisfied in the run of `q`. -/
theorem C01_tree (T : TCfg) (xs : List TAct) (p : Path) (x : Nat)
    (hx : (trun T tinit xs p).g x ≠ .none) :
    (∀ d ∈ (T.cfg p).deps x, Sat (T.cfg p) (trun T tinit xs p) d) ∧
    (∀ pre s q, p = pre ++ s :: q →
      ∀ d ∈ (T.cfg q).deps s, Sat (T.cfg q) (trun T tinit xs q) d) := by
  have h := tinv_run T xs
  refine ⟨fun d hd => (h.each p).started x hx d hd, fun pre s q hp d hd => ?_⟩
  have hne : trun T tinit xs (pre ++ s :: q) ≠ init := by
    rw [← hp]; intro hi; rw [hi] at hx; exact hx rfl
  exact (h.each q).started s (enclosing_started T _ h pre s q hne) d hd

/-- the including stage stays inside `Run` for as long as the included run is not over -/
theorem C01_tree_window (T : TCfg) (σ : TSt) (p : Path) (s : Nat) (ok : Bool)
    (hp : T.pipe p s = true) (h : innerOver (T.n (s :: p)) (σ (s :: p)) = false) :
    tstep T σ ⟨p, .ret s ok⟩ = σ := by
  simp [tstep, hp, h]

/-- nothing of an included pipeline happens while the including stage is not inside `Run` -/
theorem C01_tree_outside (T : TCfg) (σ : TSt) (s : Nat) (q : Path) (a : Act)
    (h : (σ q).g s ≠ .inRun) : tstep T σ ⟨s :: q, a⟩ = σ := by
  simp [tstep, enclosingInRun, h]

/-! ## Non-vacuity: a concrete run in which stage 1 (depending on 0) does start -/
def exCfg : Cfg := { deps := fun s => if s = 1 then [0] else [], allow := fun _ => false, cond := fun _ => .none }
def exRun : List Act := [.visit 0, .decide, .ret 0 true, .visit 1, .read, .decide]
example : (run exCfg init exRun).g 1 = .inRun ∧ (run exCfg init exRun).status 0 = .done := by decide
/-- and before 0 has finished, the same visit does not start 1 -/
example : (run exCfg init [.visit 0, .decide, .visit 1, .read, .decide]).g 1 = .none := by decide

-- nested: outer stage 1 (depending on 0) runs an inner pipeline; its inner stage 0 does start, and
-- inner actions attempted before the outer stage was started change nothing
def exNested : List NAct :=
  [.inner (.visit 0), .inner .decide,
   .outer (.visit 0), .outer .decide, .outer (.ret 0 true), .outer (.visit 1), .outer .read, .outer .decide,
   .inner (.visit 0), .inner .decide]
example : (nrun exCfg exCfg 1 2 ninit exNested).i.g 0 ≠ .none ∧
    (nrun exCfg exCfg 1 2 ninit (exNested.take 2)).i.g 0 = .none ∧
    (nrun exCfg exCfg 1 2 ninit exNested).o.g 1 = .inRun := by decide

-- three levels: stage 1 (depending on 0) of every pipeline runs a pipeline of the same shape; the
-- innermost stage 0 does start, and the same actions do nothing before the enclosing stages run
def exTree : TCfg := { cfg := fun _ => exCfg, pipe := fun p s => s == 1 && p.length < 2, n := fun _ => 2 }
def exTreeRun : List TAct :=
  (exRun.map (TAct.mk [])) ++ (exRun.map (TAct.mk [1])) ++ [⟨[1, 1], .visit 0⟩, ⟨[1, 1], .decide⟩]
example : (trun exTree tinit exTreeRun [1, 1]).g 0 = .inRun ∧
    (trun exTree tinit exTreeRun [1]).g 1 = .inRun ∧ (trun exTree tinit exTreeRun []).g 1 = .inRun ∧
    (trun exTree tinit (exTreeRun.drop 6) [1, 1]).g 0 = .none ∧
    (trun exTree tinit (exTreeRun.drop 6) [1]).g 1 = .none := by decide
-- the nested stage cannot return before the included run is over, and returns its result afterwards
example : (trun exTree tinit (exTreeRun ++ [⟨[1], .ret 1 true⟩]) [1]).g 1 = .inRun := by decide

end Sched

/-! ## Several loops over one graph (a pipeline included by several stages) - `Model/SchedLoops.lean` -/
namespace SchedLoops
open Sched

/-- **C01 with several loops over one graph**: however many `Schedule` loops examine the stages of a
pipeline at the same time (it is included by several stages that run together), under every
interleaving of their individual status reads, condition evaluations, `canceled` writes and
compare-and-swaps with each other and with the stage goroutines: a stage whose task has been started
has every dependency done, skipped, or failed with allow_failure - and none of them waiting, running
or inside `Run`. -/
theorem C01_loops (c : Cfg) (as : List LAct) (s d : Nat) (hd : d ∈ c.deps s)
    (hs : (lrun c linit as).g s ≠ .none) :
    LSat c (lrun c linit as) d ∧ (lrun c linit as).status d ≠ .waiting ∧
      (lrun c linit as).status d ≠ .running ∧ (lrun c linit as).g d ≠ .inRun := by
  have h := linv_run c as
  have hsat := h.started s hs d hd
  have hr := h.g_run d
  refine ⟨hsat, ?_⟩
  unfold LSat at hsat
  grind

/-- a loop never overwrites the status of a stage another loop has started: what a started stage's
dependencies were found to be stays true, so the `canceled` write of a slower loop cannot reach it -/
theorem C01_loops_running_kept (c : Cfg) (as : List LAct) (s : Nat)
    (h : (lrun c linit as).g s = .inRun) : (lrun c linit as).status s = .running :=
  (linv_run c as).g_run s h

-- two loops examine stage 1 (which depends on 0) at the same time; loop 0 starts it, the compare-and-swap of
-- loop 1 fails: one start
def exLoops : List LAct :=
  [.visit 0 0, .decide 0, .ret 0 true, .visit 0 1, .visit 1 1, .read 0, .read 1, .decide 0, .decide 1]
example : (lrun Sched.exCfg linit exLoops).g 1 = .inRun ∧ (lrun Sched.exCfg linit exLoops).starts 1 = 1 ∧
    (lrun Sched.exCfg linit exLoops).pc 1 = .idle := by decide

end SchedLoops

