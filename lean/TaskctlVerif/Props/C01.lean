import TaskctlVerif.Proofs.Sched
/-!
# C01 — a stage never starts before all of its dependencies have finished

Model: `Model/Sched.lean`.  Quantifiers discharged by the theorems: every dependency function
(acyclicity is not needed for safety), any number of stages, every assignment of outcome /
allow_failure / condition, every interleaving of the loop's individual status reads with the status
writes of every stage goroutine, every moment of the run (every prefix of every action list).
-/
namespace Sched

/-- **C01 (core)**: in every reachable state, every dependency of a stage whose task has been
started is *satisfied*: done, skipped by its condition, or failed with allow_failure. -/
theorem C01_deps_satisfied (c : Cfg) (as : List Act) (s d : Nat) (hd : d ∈ c.deps s)
    (hs : (run c init as).g s ≠ .none) : Sat c (run c init as) d :=
  (inv_run c as).started s hs d hd

/-- C01 (state form): a started stage has no dependency that is still waiting or running, and no
dependency's task is inside `Run`. -/
theorem C01_state (c : Cfg) (as : List Act) (s d : Nat) (hd : d ∈ c.deps s)
    (hs : (run c init as).g s ≠ .none) :
    (run c init as).status d ≠ .waiting ∧ (run c init as).status d ≠ .running ∧
      (run c init as).g d ≠ .inRun := by
  have h := inv_run c as
  have := h.started s hs d hd
  have hr := h.g_run d
  unfold Sat at this
  grind

/-- a started stage stays started -/
theorem started_stable (c : Cfg) (σ : St) (a : Act) (s : Nat) (h : σ.g s ≠ .none) :
    (step c σ a).g s ≠ .none := by
  cases a <;> simp only [step] <;> (repeat' split) <;> grind

theorem started_stable_run (c : Cfg) (as : List Act) : ∀ (σ : St) (s : Nat), σ.g s ≠ .none →
    (run c σ as).g s ≠ .none := by
  induction as with
  | nil => intro σ s h; exact h
  | cons a as ih => intro σ s h; exact ih _ s (started_stable c σ a s h)

/-- **C01 (temporal form)**: once a stage has started (after the prefix `as₁`), at *every later
moment* of the run (any continuation `as₂`) each of its dependencies is still finished: it is
never waiting, never running, never inside `Run` again.  Hence every `Run` of a dependency lies
entirely before the start of the dependant, whatever the durations. -/
theorem C01_always (c : Cfg) (as₁ as₂ : List Act) (s d : Nat) (hd : d ∈ c.deps s)
    (hs : (run c init as₁).g s ≠ .none) :
    let σ := run c init (as₁ ++ as₂)
    σ.status d ≠ .waiting ∧ σ.status d ≠ .running ∧ σ.g d ≠ .inRun := by
  have h2 : (run c init (as₁ ++ as₂)).g s ≠ .none := by
    rw [run_append]; exact started_stable_run c as₂ _ s hs
  exact C01_state c (as₁ ++ as₂) s d hd h2

/-- the moment of the start itself: the `decide` action that starts `s` happens in a state in which
every dependency is already satisfied -/
theorem C01_at_start (c : Cfg) (as : List Act) (s d : Nat) (hd : d ∈ c.deps s)
    (h0 : (run c init as).g s = .none)
    (h1 : (step c (run c init as) .decide).g s ≠ .none) : Sat c (run c init as) d := by
  have hi := inv_run c as
  generalize run c init as = σ at *
  simp only [step] at h1
  split at h1
  · rename_i s' ready hpc
    split at h1
    · rename_i hr
      have hc := hi.chk _ _ _ hpc
      by_cases hss : s = s'
      · subst hss
        rcases hc.2.2 hr d hd with h | h
        · cases h
        · exact h
      · simp [upd_apply, hss] at h1; exact absurd h0 h1
    · exact absurd h0 h1
  · exact absurd h0 h1

/-! ## Non-vacuity: a concrete run in which stage 1 (depending on 0) does start -/
def exCfg : Cfg := { deps := fun s => if s = 1 then [0] else [], allow := fun _ => false, cond := fun _ => .none }
def exRun : List Act := [.visit 0, .decide, .ret 0 true, .visit 1, .read, .decide]
example : (run exCfg init exRun).g 1 = .inRun ∧ (run exCfg init exRun).status 0 = .done := by decide
/-- and before 0 has finished, the same visit does not start 1 -/
example : (run exCfg init [.visit 0, .decide, .visit 1, .read, .decide]).g 1 = .none := by decide

end Sched
