import TaskctlVerif.Model.Cancel
import TaskctlVerif.Proofs.Runner
/-!
# C12 — cancellation is safe and prompt at any moment

Model: `Model/Cancel.lean` (the hand-shake), composed informally with R (an error that is not an
exit status is never swallowed by allow_failure: `Runner.stops_fault`) and with S (`C03`).
All theorems quantify over every interleaving of any number of runs and of `Cancel` callers.
What the model cannot exhibit: that the interpreter really kills a running process (SIGINT, then
SIGKILL after 2 s) — bounded by the monitor in the correspondence run, not proved.
-/
namespace Cancel

attribute [local grind =] upd

/-- number of registered runs among the first `n` run ids -/
def cnt (ph : Nat → Phase) (n : Nat) : Nat :=
  ((List.range n).filter (fun i => (ph i).isAdmitted)).length

def admittedCount (σ : CS) (n : Nat) : Nat := cnt σ.phase n

theorem count_congr (p q : Nat → Bool) (n : Nat) (h : ∀ j, j < n → p j = q j) :
    ((List.range n).filter p).length = ((List.range n).filter q).length := by
  congr 1
  apply List.filter_congr
  intro j hj
  exact h j (List.mem_range.mp hj)

/-- changing the predicate at one index `i < n` -/
theorem count_upd (p q : Nat → Bool) (i n : Nat) (hi : i < n) (h : ∀ j, j ≠ i → p j = q j) :
    ((List.range n).filter q).length + (if p i then 1 else 0) =
      ((List.range n).filter p).length + (if q i then 1 else 0) := by
  induction n with
  | zero => omega
  | succ n ih =>
    rw [List.range_succ, List.filter_append, List.filter_append, List.length_append, List.length_append]
    by_cases hin : i = n
    · subst hin
      have := count_congr p q i (fun j hj => h j (by omega))
      rw [this]
      simp only [List.filter_cons, List.filter_nil]
      cases p i <;> cases q i <;> simp
    · have := ih (by omega)
      have hn : p n = q n := h n (fun e => hin e.symm)
      simp only [List.filter_cons, List.filter_nil, hn]
      omega

theorem cnt_upd (ph : Nat → Phase) (i n : Nat) (hi : i < n) (p : Phase) :
    cnt (upd ph i p) n + (if (ph i).isAdmitted then 1 else 0) =
      cnt ph n + (if p.isAdmitted then 1 else 0) := by
  have := count_upd (fun j => (ph j).isAdmitted) (fun j => (upd ph i p j).isAdmitted) i n hi
    (fun j hj => by simp [upd, hj])
  simpa [cnt, upd] using this

theorem upd_above (ph : Nat → Phase) (i n : Nat) (hi : i < n) (p : Phase)
    (hidle : ∀ j, n ≤ j → ph j = .idle) : ∀ j, n ≤ j → upd ph i p j = .idle := by
  intro j hj
  have : j ≠ i := by omega
  simp [upd, this, hidle j hj]

/-- every action names run ids below `n` -/
def Act.Below (n : Nat) : Act → Prop
  | .enter i _ | .startCmd i | .endCmd i _ | .finish i => i < n
  | _ => True

/-- the wait-group counter is exactly the number of registered runs -/
theorem wg_step (σ : CS) (a : Act) (n : Nat) (ha : a.Below n)
    (hidle : ∀ j, n ≤ j → σ.phase j = .idle) (h : σ.wg = admittedCount σ n) :
    (step σ a).wg = admittedCount (step σ a) n ∧ ∀ j, n ≤ j → (step σ a).phase j = .idle := by
  unfold admittedCount at *
  cases a with
  | enter i k =>
    simp only [Act.Below] at ha
    simp only [step]
    split
    · rename_i hph
      split
      · refine ⟨?_, upd_above _ i n ha _ hidle⟩
        have := cnt_upd σ.phase i n ha (.done true)
        simp [hph, Phase.isAdmitted] at this
        dsimp only; omega
      · refine ⟨?_, upd_above _ i n ha _ hidle⟩
        have := cnt_upd σ.phase i n ha (.admitted k false)
        simp [hph, Phase.isAdmitted] at this
        dsimp only; omega
    · exact ⟨h, hidle⟩
  | startCmd i =>
    simp only [Act.Below] at ha
    simp only [step]
    split
    · rename_i k hph
      split
      · refine ⟨?_, upd_above _ i n ha _ hidle⟩
        have := cnt_upd σ.phase i n ha (.done true)
        simp [hph, Phase.isAdmitted] at this
        dsimp only; omega
      · refine ⟨?_, upd_above _ i n ha _ hidle⟩
        have := cnt_upd σ.phase i n ha (.admitted k true)
        simp [hph, Phase.isAdmitted] at this
        dsimp only; omega
    · exact ⟨h, hidle⟩
  | endCmd i ok =>
    simp only [Act.Below] at ha
    simp only [step]
    split
    · rename_i k hph
      split
      · refine ⟨?_, upd_above _ i n ha _ hidle⟩
        have := cnt_upd σ.phase i n ha (.admitted k false)
        simp [hph, Phase.isAdmitted] at this
        dsimp only; omega
      · refine ⟨?_, upd_above _ i n ha _ hidle⟩
        have := cnt_upd σ.phase i n ha (.done true)
        simp [hph, Phase.isAdmitted] at this
        dsimp only; omega
    · exact ⟨h, hidle⟩
  | finish i =>
    simp only [Act.Below] at ha
    simp only [step]
    split
    · rename_i hph
      refine ⟨?_, upd_above _ i n ha _ hidle⟩
      have := cnt_upd σ.phase i n ha (.done false)
      simp [hph, Phase.isAdmitted] at this
      dsimp only; omega
    · exact ⟨h, hidle⟩
  | cancelCall c =>
    simp only [step]; split <;> exact ⟨h, hidle⟩
  | cancelRet c =>
    simp only [step]; split <;> exact ⟨h, hidle⟩

/-- **the counter is exact in every reachable state** (any number of runs and cancellers, any
interleaving): `Cancel` can return iff no registered run is left. -/
theorem C12_wg_counts (n : Nat) (as : List Act) (has : ∀ a ∈ as, a.Below n) :
    (run init as).wg = admittedCount (run init as) n := by
  suffices ∀ σ, (∀ j, n ≤ j → σ.phase j = .idle) → σ.wg = admittedCount σ n →
      (run σ as).wg = admittedCount (run σ as) n from
    this init (fun _ _ => rfl) (by
      simp only [admittedCount, cnt, init, Phase.isAdmitted]
      have : (List.range n).filter (fun _ => false) = [] := List.filter_eq_nil_iff.mpr (by simp)
      rw [this]; rfl)
  induction as with
  | nil => intro σ _ h; exact h
  | cons a as ih =>
    intro σ h1 h2
    have := wg_step σ a n (has a List.mem_cons_self) h1 h2
    exact ih (fun a' h' => has a' (List.mem_cons_of_mem _ h')) _ this.2 this.1

theorem cancelled_stable (σ : CS) (a : Act) (h : σ.cancelled = true) : (step σ a).cancelled = true := by
  cases a <;> simp only [step] <;> (repeat' split) <;> simp_all

theorem cancelled_stable_run (as : List Act) : ∀ σ, σ.cancelled = true → (run σ as).cancelled = true := by
  induction as with
  | nil => intro σ h; exact h
  | cons a as ih => intro σ h; exact ih _ (cancelled_stable σ a h)

theorem no_start_step (σ : CS) (a : Act) (h : σ.cancelled = true) :
    (step σ a).started = σ.started := by
  cases a <;> simp only [step] <;> (repeat' split) <;> simp_all

theorem no_start_run (as : List Act) : ∀ σ, σ.cancelled = true → (run σ as).started = σ.started := by
  induction as with
  | nil => intro σ _; rfl
  | cons a as ih =>
    intro σ h
    show (run (step σ a) as).started = σ.started
    rw [ih _ (cancelled_stable σ a h), no_start_step σ a h]

/-- **once the context is cancelled no further command is started** — by any run, registered
before or after — so in particular nothing starts once `Cancel` has returned. -/
theorem C12_nothing_started_after (as₁ as₂ : List Act) (h : (run init as₁).cancelled = true) :
    (run init (as₁ ++ as₂)).started = (run init as₁).started := by
  have : run init (as₁ ++ as₂) = run (run init as₁) as₂ := by simp [run, List.foldl_append]
  rw [this]
  exact no_start_run as₂ _ h

/-- a canceller has returned only after the context was cancelled -/
theorem cret_cancelled (as : List Act) (c : Nat) :
    ((run init as).cret c = true ∨ (run init as).cwait c = true) → (run init as).cancelled = true := by
  suffices ∀ σ, ((σ.cret c = true ∨ σ.cwait c = true) → σ.cancelled = true) →
      (((run σ as).cret c = true ∨ (run σ as).cwait c = true) → (run σ as).cancelled = true) from
    this init (by simp [init])
  induction as with
  | nil => intro σ h; exact h
  | cons a as ih =>
    intro σ h
    apply ih
    cases a <;> simp only [step] <;> (repeat' split) <;> grind

/-- **after `Cancel` has returned, nothing is started any more** -/
theorem C12_nothing_after_cancel_returned (as₁ as₂ : List Act) (c : Nat)
    (h : (run init as₁).cret c = true) :
    (run init (as₁ ++ as₂)).started = (run init as₁).started :=
  C12_nothing_started_after as₁ as₂ (cret_cancelled as₁ c (.inl h))

/-- **a task started after the cancellation fails without running anything** -/
theorem C12_late_run_fails (σ : CS) (i n : Nat) (hc : σ.cancelled = true) (hi : σ.phase i = .idle) :
    (step σ (.enter i n)).phase i = .done true ∧ (step σ (.enter i n)).started = σ.started ∧
      (step σ (.enter i n)).wg = σ.wg := by
  simp [step, hi, hc, upd]

/-- **`Cancel` returns as soon as no run is registered** — with zero runs in flight immediately,
for the first caller and for every later one (cancelling twice) -/
theorem C12_cancel_returns_when_drained (σ : CS) (c : Nat) (hw : σ.cwait c = true) (h0 : σ.wg = 0) :
    (step σ (.cancelRet c)).cret c = true := by
  simp [step, hw, h0, upd]

theorem C12_cancel_zero_inflight (c : Nat) :
    (run init [.cancelCall c, .cancelRet c]).cret c = true := by
  simp [run, step, init, upd]

/-- while cancelled, the number of registered runs never grows … -/
theorem C12_wg_nonincreasing (σ : CS) (a : Act) (hc : σ.cancelled = true) : (step σ a).wg ≤ σ.wg := by
  cases a <;> simp only [step] <;> (repeat' split) <;> simp_all <;> omega

/-- per-run distance to un-registering -/
def dist : Phase → Nat
  | .admitted _ true => 2
  | .admitted _ false => 1
  | _ => 0

/-- … and every registered run always has an enabled action of its own that brings it strictly
closer to un-registering (so, under fairness and "a cancelled command returns", `wg` reaches 0 and
`Cancel` returns): a command in flight ends; a run between commands finds the context cancelled at
its next `Execute`, or had no command left and returns. -/
theorem C12_drain (σ : CS) (i : Nat) (hc : σ.cancelled = true) (k : Nat) (b : Bool)
    (hp : σ.phase i = .admitted k b) :
    ∃ a, dist ((step σ a).phase i) < dist (σ.phase i) := by
  cases b with
  | true => exact ⟨.endCmd i true, by simp [step, hp, upd, dist]⟩
  | false =>
    cases k with
    | zero => exact ⟨.finish i, by simp [step, hp, upd, dist]⟩
    | succ k => exact ⟨.startCmd i, by simp [step, hp, hc, upd, dist]⟩

/-- no action of another run or canceller undoes that progress -/
theorem C12_dist_mono (σ : CS) (a : Act) (i : Nat) (hc : σ.cancelled = true)
    (hne : σ.phase i ≠ .idle) : dist ((step σ a).phase i) ≤ dist (σ.phase i) := by
  cases a with
  | enter j n =>
    simp only [step]; split
    · rename_i hj
      have : i ≠ j := fun e => hne (e ▸ hj)
      split <;> simp [upd, this]
    · exact Nat.le_refl _
  | startCmd j =>
    simp only [step]; split
    · rename_i k hj
      by_cases hij : i = j
      · subst hij; simp [hc, upd, hj, dist]
      · simp [hc, upd, hij]
    · exact Nat.le_refl _
  | endCmd j ok =>
    simp only [step]; split
    · rename_i k hj
      by_cases hij : i = j
      · subst hij; cases ok <;> simp [upd, hj, dist]
      · cases ok <;> simp [upd, hij]
    · exact Nat.le_refl _
  | finish j =>
    simp only [step]; split
    · rename_i hj
      by_cases hij : i = j
      · subst hij; simp [upd, hj, dist]
      · simp [upd, hij]
    · exact Nat.le_refl _
  | cancelCall c => simp only [step]; split <;> exact Nat.le_refl _
  | cancelRet c => simp only [step]; split <;> exact Nat.le_refl _

/-- **a run reports success only if every one of its commands was started and ended by itself**:
a task that was interrupted, or had not started all its commands when the context was cancelled,
reports an error. -/
theorem C12_success_means_complete (as : List Act) (i : Nat) :
    ∀ σ, (∀ k b, σ.phase i = .admitted k b → σ.ran i + k = σ.total i) →
      (σ.phase i = .idle → σ.ran i = 0) →
      (σ.phase i = .done false → σ.ran i = σ.total i) →
      ((run σ as).phase i = .done false → (run σ as).ran i = (run σ as).total i) := by
  induction as with
  | nil => intro σ _ _ h; exact h
  | cons a as ih =>
    intro σ h1 h0 h2
    apply ih
    · intro k b
      cases a <;> simp only [step] <;> (repeat' split) <;> grind
    · cases a <;> simp only [step] <;> (repeat' split) <;> grind
    · cases a <;> simp only [step] <;> (repeat' split) <;> grind

theorem C12_interrupted_reports_error (as : List Act) (i : Nat)
    (h : (run init as).phase i = .done false) : (run init as).ran i = (run init as).total i :=
  C12_success_means_complete as i init (by simp [init]) (by simp [init]) (by simp [init]) h

/-- the interruption itself is never swallowed by allow_failure (from R): an error that is not an
exit status stops the task whatever `allow_failure` says -/
theorem C12_fault_never_allowed (allow : Bool) : Runner.stops allow .fault = true := rfl

/-- **an interrupted condition never turns into "skipped"**: once the context is cancelled, whatever the condition
command ends with, the task (stage) either goes on to commands that will themselves refuse to start, or reports an error -
it is never marked skipped, which the scheduler would count as success -/
theorem C12_cancelled_condition_never_skips (e : CondEnd) : condVerdict true e ≠ .skipped := by
  cases e <;> simp [condVerdict]

/-- without a cancellation the verdict is the plain one: 0 proceeds, another status skips, anything else is an error -/
theorem C12_condition_plain (e : CondEnd) :
    condVerdict false e = (match e with | .zero => .proceed | .nonzero => .skipped | .killed => .error) := by
  cases e <;> rfl

/-- the variant that looks at the exit status first is wrong exactly on a trapped interrupt -/
theorem C12_witness_status_first : condVerdictStatusFirst true .nonzero = .skipped ∧
    ∀ c e, (c, e) ≠ (true, CondEnd.nonzero) → condVerdictStatusFirst c e = condVerdict c e := by
  refine ⟨rfl, ?_⟩
  intro c e h
  cases c <;> cases e <;> simp_all [condVerdictStatusFirst, condVerdict]

/-! ## Regression witnesses for defect D2 (fixed): the pre-fix hand-shake -/

/-- no run in flight: `Cancel` never returns -/
theorem C12_witness_old_zero_inflight :
    (Old.run [.cancelCall, .cancelRet]).returned = false ∧ (Old.run [.cancelCall, .cancelRet]).waiting = true := by
  decide

/-- two runs in flight: the second returning `Run` closes a closed channel -/
theorem C12_witness_old_two_inflight :
    (Old.run [.enter, .enter, .cancelCall, .exit, .exit]).panicked = true := by decide

/-- one run in flight is fine, but any later `Run` panics -/
theorem C12_witness_old_run_after_cancel :
    (Old.run [.enter, .cancelCall, .exit, .cancelRet]).returned = true ∧
    (Old.run [.enter, .cancelCall, .exit, .cancelRet, .enter, .exit]).panicked = true := by decide

/-! ## Non-vacuity: two runs in flight, cancel, both drain, cancel returns, a late run fails -/
def exTrace : List Act :=
  [.enter 0 2, .enter 1 1, .startCmd 0, .startCmd 1, .cancelCall 0, .endCmd 0 false, .endCmd 1 true,
   .finish 1, .cancelRet 0, .enter 2 1]
-- the hypothesis of `C12_wg_counts` holds of it (three runs), and the counter really moves
example : ∀ a ∈ exTrace, a.Below 3 := by
  intro a ha
  simp only [exTrace, List.mem_cons, List.not_mem_nil, or_false] at ha
  rcases ha with rfl | rfl | rfl | rfl | rfl | rfl | rfl | rfl | rfl | rfl <;> simp [Act.Below]
example : (run init (exTrace.take 4)).wg = 2 ∧ (run init exTrace).wg = 0 := by decide
example : (run init exTrace).cret 0 = true ∧ (run init exTrace).phase 0 = .done true ∧
    (run init exTrace).phase 1 = .done false ∧ (run init exTrace).phase 2 = .done true ∧
    (run init exTrace).started = [1, 0] := by decide

end Cancel
