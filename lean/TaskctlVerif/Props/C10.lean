import TaskctlVerif.Model.Vars
import TaskctlVerif.Model.VarsHeap
import TaskctlVerif.Props.C09
import TaskctlVerif.Props.C07
import TaskctlVerif.Proofs.Derived
/-!
# C10 — template variables and CLI arguments reach commands with a fixed precedence

Models: `Model/Vars.lean` (levels), `Model/Cli.lean` (`targetsOf` / `taskArgs`), R (`norender`).
-/
namespace Vars
open Layers
variable {β : Type}

/-- **precedence, all values**: stage variables, then task variables, then the CLI built-ins `Args`
/ `ArgsList`, then `--set`, then `Root`, then the project file, the global file, the defaults. -/
theorem C10_precedence (L : VarLevels β) (k : String) :
    get (taskVars L) k =
      (get L.stage k).or ((get L.task k).or
        ((if k = "ArgsList" then some L.argsList else none).or
        ((if k = "Args" then some L.args else none).or
        ((get L.set k).or ((if k = "Root" then some L.root else none).or
        ((get L.project k).or ((get L.globalF k).or (get L.defaults k)))))))) := by
  simp only [taskVars, runnerVars, cfgVars, get_merge, get_withKey]
  by_cases h1 : k = "ArgsList" <;> by_cases h2 : k = "Args" <;> by_cases h3 : k = "Root" <;>
    simp [h1, h2, h3, Option.or_assoc]

/-- the four documented levels, for a name that is not a built-in: configuration < --set < task < stage -/
theorem C10_four_levels (L : VarLevels β) (k : String) (hb : k ≠ "ArgsList" ∧ k ≠ "Args" ∧ k ≠ "Root") :
    get (taskVars L) k =
      (get L.stage k).or ((get L.task k).or ((get L.set k).or
        ((get L.project k).or ((get L.globalF k).or (get L.defaults k))))) := by
  rw [C10_precedence]; simp [hb.1, hb.2.1, hb.2.2]

theorem C10_stage_wins (L : VarLevels β) (k : String) (v : β) (h : get L.stage k = some v) :
    get (taskVars L) k = some v := by rw [C10_precedence, h]; rfl

theorem C10_config_reaches_tasks (L : VarLevels β) (k : String) (v : β)
    (hb : k ≠ "ArgsList" ∧ k ≠ "Args" ∧ k ≠ "Root")
    (h0 : get L.stage k = none) (h1 : get L.task k = none) (h2 : get L.set k = none)
    (h : get L.project k = some v) : get (taskVars L) k = some v := by
  rw [C10_four_levels L k hb, h0, h1, h2, h]; rfl

theorem C10_global_reaches_tasks (L : VarLevels β) (k : String) (v : β)
    (hb : k ≠ "ArgsList" ∧ k ≠ "Args" ∧ k ≠ "Root")
    (h0 : get L.stage k = none) (h1 : get L.task k = none) (h2 : get L.set k = none)
    (h3 : get L.project k = none) (h : get L.globalF k = some v) : get (taskVars L) k = some v := by
  rw [C10_four_levels L k hb, h0, h1, h2, h3, h]; rfl

/-- **the built-ins are always defined** (`TempDir` provided the defaults carry it, as they do) -/
theorem C10_builtins (L : VarLevels β) (td : β) (h : get L.defaults "TempDir" = some td) :
    (get (taskVars L) "Root").isSome ∧ (get (taskVars L) "Args").isSome ∧
    (get (taskVars L) "ArgsList").isSome ∧ (get (taskVars L) "TempDir").isSome := by
  refine ⟨?_, ?_, ?_, ?_⟩
  all_goals rw [C10_precedence]
  · cases get L.stage "Root" <;> cases get L.task "Root" <;> cases get L.set "Root" <;> simp
  · cases get L.stage "Args" <;> cases get L.task "Args" <;> simp
  · cases get L.stage "ArgsList" <;> cases get L.task "ArgsList" <;> simp
  · cases get L.stage "TempDir" <;> cases get L.task "TempDir" <;> cases get L.set "TempDir" <;>
      cases get L.project "TempDir" <;> cases get L.globalF "TempDir" <;> simp [h]

end Vars

namespace Cli

/-- **everything after `--` reaches the tasks verbatim and in order** — including words equal to
target names, containing `=`, starting with `-`, or equal to `--` -/
theorem C10_args_verbatim (pre post : List String) (h : ∀ a ∈ pre, a ≠ "--") :
    taskArgs (pre ++ "--" :: post) = post ∧ targetsOf (pre ++ "--" :: post) = pre := by
  refine ⟨?_, C07_cli_targets_before_dashes pre post h⟩
  unfold taskArgs
  induction pre with
  | nil => simp
  | cons a pre ih =>
    have ha := h a List.mem_cons_self
    simp [List.dropWhile_cons, ha, ih (fun x hx => h x (List.mem_cons_of_mem _ hx))]

/-- the command line is split without loss: targets, `--`, arguments -/
theorem C10_args_partition (argv : List String) (h : "--" ∈ argv) :
    targetsOf argv ++ "--" :: taskArgs argv = argv := by
  unfold targetsOf taskArgs
  induction argv with
  | nil => cases h
  | cons a as ih =>
    by_cases ha : a = "--"
    · subst ha; simp
    · have hm : "--" ∈ as := by
        rcases List.mem_cons.mp h with h' | h'
        · exact absurd h'.symm ha
        · exact h'
      have h1 := ih hm
      rw [List.drop_one] at h1
      simp [ha, h1]

/-- **nothing after `--` is ever treated as a target** -/
theorem C10_args_never_targets (ok : String → Bool) (pre post : List String) (h : ∀ a ∈ pre, a ≠ "--") :
    (cli ok (pre ++ "--" :: post)).1 = (runTargets ok pre).1 := by
  unfold cli
  rw [(C10_args_verbatim pre post h).2]

/-- without `--` there are no task arguments -/
theorem C10_no_dashes_no_args (argv : List String) (h : "--" ∉ argv) : taskArgs argv = [] := by
  unfold taskArgs
  induction argv with
  | nil => rfl
  | cons a as ih =>
    have ha : a ≠ "--" := fun e => h (e ▸ List.mem_cons_self)
    have h1 := ih (fun hm => h (List.mem_cons_of_mem _ hm))
    rw [List.drop_one] at h1
    simp [ha, h1]

example : taskArgs ["t", "--", "a", "--", "b"] = ["a", "--", "b"] := by decide
example : cli (fun t => t == "t") ["t", "--", "t", "nosuch"] = (["t"], 0) := by decide

end Cli

namespace Runner

/-- **a command that refers to an undefined variable makes the task fail before that command
executes**: the jobs before it ran normally, its own token is absent, nothing after it runs, the
task is errored — with or without allow_failure. -/
theorem C10_undefined_fails_before (t : TaskSpec) (pre post : List (Nat × Nat)) (v j : Nat)
    (hc : condOk t) (hb : ∀ r ∈ t.before, r.ok = true)
    (hjobs : jobs t = pre ++ (v, j) :: post)
    (hpre : ∀ p ∈ pre, (t.res p.1 p.2).ok = true) (hundef : t.res v j = .norender) :
    (runTask t).trace = condToks t ++ beforeToks t ++ pre.map cmdTok ∧
    (runTask t).errored = true ∧ (runTask t).err = true := by
  rw [runTask_of_condOk t hc]
  simp only [runTask.body, runBefore_all_ok 0 t.before hb, hjobs,
    execute_append_ok t.allow t.res pre _ _ hpre]
  simp [execute, hundef, CmdResult.began, beforeToks]

end Runner

/-! ## The variables container behaves like a plain map, and building a new one never touches the old
(`Model/VarsHeap.lean`) -/
namespace VarsHeap

theorem lookup_filter_ne (c : Cont) (k k' : String) (h : k' ≠ k) :
    (c.filter (fun e => e.1 != k)).lookup k' = c.lookup k' := by
  induction c with
  | nil => rfl
  | cons e rest ih =>
    simp only [List.filter_cons]
    by_cases he : e.1 = k
    · have hk : k' ≠ e.1 := by rw [he]; exact h
      simp only [he, bne_self_eq_false, Bool.false_eq_true, if_false, ih]
      rw [List.lookup_cons]
      have : (k' == e.1) = false := by simpa using hk
      rw [this]
    · have : (e.1 != k) = true := by simpa using he
      simp only [this, if_true]
      rw [List.lookup_cons, List.lookup_cons, ih]

/-- `Set` -/
theorem lookup_cset (c : Cont) (k v k' : String) :
    (cset c k v).lookup k' = if k' = k then some v else c.lookup k' := by
  unfold cset
  rw [List.lookup_cons]
  by_cases h : k' = k
  · simp [h]
  · have : (k' == k) = false := by simpa using h
    simp only [this, h, if_false]
    exact lookup_filter_ne c k k' h

/-- `Merge`: the argument's binding if it has one, else the receiver's -/
theorem lookup_cmerge (dst src : Cont) (k : String) :
    (cmerge dst src).lookup k = (src.lookup k).orElse (fun _ => dst.lookup k) := by
  induction src with
  | nil => simp [cmerge]
  | cons e rest ih =>
    have hstep : cmerge dst (e :: rest) = cset (cmerge dst rest) e.1 e.2 := rfl
    rw [hstep, lookup_cset, List.lookup_cons]
    by_cases h : k = e.1
    · simp [h]
    · have : (k == e.1) = false := by simpa using h
      simp only [h, if_false, this, ih]

/-- `With`: the new binding wins, everything else is the receiver's -/
theorem lookup_cwith (c : Cont) (k v k' : String) :
    (cwith c k v).lookup k' = if k' = k then some v else c.lookup k' := by
  unfold cwith
  rw [lookup_cset, lookup_cmerge]
  by_cases h : k' = k
  · simp [h]
  · simp only [h, if_false]
    cases c.lookup k' <;> simp

/-- **the container is a map**: what `Get` and `Has` answer after `Set`, `Merge` and `With` -/
theorem C10_container_is_map (a b : Cont) (k v k' : String) :
    cget (cset a k v) k' = (if k' = k then v else cget a k') ∧
    cget (cmerge a b) k' = (if chas b k' then cget b k' else cget a k') ∧
    cget (cwith a k v) k' = (if k' = k then v else cget a k') ∧
    (chas (cmerge a b) k' = (chas b k' || chas a k')) ∧
    (chas (cwith a k v) k' = (decide (k' = k) || chas a k')) := by
  unfold cget chas
  rw [lookup_cset, lookup_cmerge, lookup_cwith]
  refine ⟨?_, ?_, ?_, ?_, ?_⟩
  · split <;> simp
  · cases b.lookup k' <;> simp
  · split <;> simp
  · cases b.lookup k' <;> simp
  · by_cases h : k' = k <;> simp [h]

theorem heap_get_append_left (h : Heap) (x : Cont) (i : Nat) (hi : i < h.length) :
    (h ++ [x])[i]? = h[i]? := by
  rw [List.getElem?_append_left hi]

/-- **building a new container never touches an existing one**: after any operation other than a
`Set` on container `i` itself, container `i` is what it was - `Merge` and `With` put their result
in a fresh container, `Get`, `Has` and `Map` change nothing -/
theorem C10_container_isolation (h : Heap) (op : Op) (i : Nat) (hi : i < h.length)
    (hne : ∀ k v, op ≠ .set i k v) : (step h op).1[i]? = h[i]? := by
  cases op with
  | new => exact heap_get_append_left h [] i hi
  | set c k v =>
    simp only [step]
    split
    · have hc : c ≠ i := fun hci => hne k v (by rw [hci])
      simp [List.getElem?_set, hc]
    · rfl
  | get c k => simp only [step]; split <;> rfl
  | has c k => simp only [step]; split <;> rfl
  | merge a b =>
    simp only [step]
    split
    · exact heap_get_append_left h _ i hi
    · rfl
  | with_ c k v =>
    simp only [step]
    split
    · exact heap_get_append_left h _ i hi
    · rfl
  | dump c => simp only [step]; split <;> rfl

-- a chain as the runner builds it: runner env, a context's env merged over it, TASK_NAME set with With, the
-- task's env merged over that; the originals are untouched
example : (runOps [] [.new, .set 0 "A" "runner", .set 0 "TASK_NAME" "stale", .new, .set 1 "A" "context", .merge 0 1,
    .with_ 2 "TASK_NAME" "build", .get 3 "A", .get 3 "TASK_NAME", .get 0 "A", .get 0 "TASK_NAME", .has 1 "TASK_NAME"]).2 =
    ["0", "ok", "ok", "1", "ok", "2", "3", "=context", "=build", "=runner", "=stale", "no"] := by decide

end VarsHeap


/-! ## variables whose value is a template over other variables (`CompileTask`'s rendering loop) -/
namespace Derived
open Layers

/-- **Order independence.** The loop of `CompileTask` renders the values in place, in Go's map order. For a flat map
(references name plain values or nothing) whatever the order `ks` - any list of keys, with or without repetitions - a
loop that completes leaves, for every key it visited, the ORIGINAL value rendered against the ORIGINAL map, and every
other entry as it was. -/
theorem C10_derived_order_independent (m0 m' : Env Tmpl) (hf : Flat m0) (ks : List String) (h : loop m0 ks = some m') :
    ∀ k, get m' k = if k ∈ ks then rendered m0 k else get m0 k :=
  (loop_spec_gen m0 hf ks m0 m' (inv_refl m0) h).2

/-- two orders over the same keys agree on every variable -/
theorem C10_derived_any_two_orders (m0 m1 m2 : Env Tmpl) (hf : Flat m0) (ks1 ks2 : List String)
    (hsame : ∀ k, k ∈ ks1 ↔ k ∈ ks2) (h1 : loop m0 ks1 = some m1) (h2 : loop m0 ks2 = some m2) :
    ∀ k, get m1 k = get m2 k := by
  intro k
  rw [C10_derived_order_independent m0 m1 hf ks1 h1 k, C10_derived_order_independent m0 m2 hf ks2 h2 k]
  by_cases hk : k ∈ ks1
  · simp [hk, (hsame k).mp hk]
  · have : k ∉ ks2 := fun h => hk ((hsame k).mpr h)
    simp [hk, this]

/-- **Undefined variable.** The loop fails - and the task with it, before any command - exactly when a visited
variable refers with `{{ .Name }}` to a variable that is not defined (`render` is `none` for that form only; the `index`
forms print a placeholder), whatever the order. -/
theorem C10_derived_fails_iff (m0 : Env Tmpl) (hf : Flat m0) (ks : List String) :
    loop m0 ks = none ↔ ∃ k ∈ ks, ∃ t, get m0 k = some t ∧ render m0 t = none :=
  loop_none_gen m0 hf ks m0 (inv_refl m0)

/-- **Precedence inside a derived value.** What a reference resolves to is decided by the variables of the execution
itself: the stage's definition of the name, else the task's, else the runner's (configuration file, `--set`). -/
theorem C10_derived_lookup_precedence (runner task stage : Env Tmpl) (x : String) :
    get (execVars runner task stage) x = ((get stage x).or (get task x)).or (get runner x) := by
  simp [execVars, get_merge, Option.or_assoc]

theorem C10_derived_stage_wins (runner task stage : Env Tmpl) (x v a : String) (d : Option String) (h : get stage x = some [.lit v]) :
    render (execVars runner task stage) [.lit a, .ref x d] = some (a ++ v) := by
  have hg : get (execVars runner task stage) x = some [.lit v] := by
    rw [C10_derived_lookup_precedence, h]; rfl
  simp [render, resolve_lit _ x v d hg]

theorem C10_derived_task_wins (runner task stage : Env Tmpl) (x v a : String) (d : Option String) (hs : get stage x = none)
    (h : get task x = some [.lit v]) :
    render (execVars runner task stage) [.lit a, .ref x d] = some (a ++ v) := by
  have hg : get (execVars runner task stage) x = some [.lit v] := by
    rw [C10_derived_lookup_precedence, hs, h]; rfl
  simp [render, resolve_lit _ x v d hg]

/-- a name that no execution's output is stored under keeps its value through any history of executions -/
theorem history_get (r : Env Tmpl) (es : List Exec) (k : String) (h : ∀ e ∈ es, e.outName ≠ k) :
    get (History r es) k = get r k := by
  induction es generalizing r with
  | nil => rfl
  | cons e es ih =>
    simp only [History]
    rw [ih _ (fun e' he' => h e' (List.mem_cons_of_mem _ he'))]
    have : k ≠ e.outName := fun hk => h e (by simp) hk.symm
    simp [get_withKey, this]

/-- **History independence.** Whatever ran before on the same runner - other tasks, other stages of the same task,
direct runs - a value whose references are not names of stored outputs is rendered, in this execution, exactly as on
a fresh runner: nothing of an earlier execution's task or stage variables is left behind. -/
theorem C10_derived_history_independent (r task stage : Env Tmpl) (es : List Exec) (t : Tmpl)
    (h : ∀ e ∈ es, e.outName ∉ refs t) :
    render (execVars (History r es) task stage) t = render (execVars r task stage) t := by
  apply render_congr
  intro k hk d
  have hg : get (History r es) k = get r k := history_get r es k (fun e he hek => h e he (hek ▸ hk))
  simp [resolve, C10_derived_lookup_precedence, hg]

-- the hypotheses are satisfiable: a flat map with two derived values, rendered in two different orders
def exMap : Env Tmpl :=
  [("Greeting", [.lit "hello-", .ref "Who" none]), ("Who", [.lit "s1"]),
   ("Label", [.ref "deploy.target" (some "<no value>"), .lit "/", .ref "Who" none, .ref "absent" (some "")]),
   ("deploy.target", [.lit "prod"])]

example : flatB exMap = true := by decide
example : Flat exMap := flatB_flat exMap (by decide)
example : (loop exMap ["Greeting", "Who", "Label", "deploy.target"]).map (fun m => (get m "Greeting", get m "Label")) =
    some (some [.lit "hello-s1"], some [.lit "prod/s1"]) := by decide
example : (loop exMap ["deploy.target", "Label", "Who", "Greeting", "Who"]).map (fun m => (get m "Greeting", get m "Label")) =
    some (some [.lit "hello-s1"], some [.lit "prod/s1"]) := by decide
-- a reference to a variable nobody defines: the loop fails
example : loop (("Broken", [.ref "Nobody" none]) :: exMap) ["Who", "Broken"] = none := by decide
-- ... unless the reference is written with `index`, which prints a placeholder for a missing key
example : (loop (("Lenient", [.ref "Nobody" (some "<no value>")]) :: exMap) ["Lenient"]).map (fun m => get m "Lenient") =
    some (some [.lit "<no value>"]) := by decide
-- a NON-flat map (a reference to a value that is itself a template): the order decides in the code; the model refuses
example : flatB (("Outer", [.ref "Greeting" none]) :: exMap) = false := by decide

end Derived
