import TaskctlVerif.Proofs.SchedLoop
/-!
# C04 — stages with no dependency between them run concurrently

Model: `Model/Sched.lean`; `pass` is one iteration of the scheduler loop and consists of loop
actions only (`pass_only_loop_actions`): no `ret`/`post` — no task finishes during it.  So whatever
a pass starts, it starts *without waiting for any other stage to finish*.
-/
namespace Sched

/-- all dependencies satisfied, still waiting, and not excluded by its condition -/
def Eligible (c : Cfg) (σ : St) (s : Nat) : Prop :=
  σ.status s = .waiting ∧ c.cond s ≠ .fails ∧ c.cond s ≠ .err ∧ ∀ d ∈ c.deps s, Sat c σ d

/-- the task of `s` is inside `Run` -/
def Started (σ : St) (s : Nat) : Prop := σ.status s = .running ∧ σ.g s = .inRun

instance (σ : St) (s : Nat) : Decidable (Started σ s) := by unfold Started; infer_instance

/-- a pass is a run of loop actions only: no completion of any task is needed or used -/
theorem pass_only_loop_actions (c : Cfg) (σ : St) (order : List Nat) :
    pass c σ order = run c σ (order.flatMap (visitActs c)) ∧
      ∀ a ∈ order.flatMap (visitActs c), a.isLoop = true :=
  pass_only_loop_actions' c order σ

/-- examining an eligible stage starts it -/
theorem C04_visit_starts (c : Cfg) (σ : St) (s : Nat) (hidle : σ.pc = .idle)
    (he : Eligible c σ s) : Started (visitFull c σ s) s := by
  obtain ⟨hw, hc1, hc2, hsat⟩ := he
  unfold visitFull
  have hv : step c σ (.visit s) = { σ with pc := .check s (c.deps s) true } := by
    simp only [step, hidle, hw, if_true]
    try (cases hcs : c.cond s <;> simp_all)
  have hr := reads_sat c (c.deps s) { σ with pc := .check s (c.deps s) true } s rfl
    (fun d hd => hsat d hd)
  rw [hv, hr]
  simp [step, Started]

theorem sat_run_loop_stable (c : Cfg) (as : List Act) : ∀ σ, (∀ a ∈ as, a.isLoop = true) →
    Inv c σ → ∀ d, Sat c σ d → Sat c (run c σ as) d := by
  induction as with
  | nil => intro σ _ _ d h; exact h
  | cons a as ih =>
    intro σ hl hi d h
    exact ih _ (fun a' h' => hl a' (List.mem_cons_of_mem _ h')) (inv_step c σ a hi) d
      (sat_loop_stable c σ a (hl a List.mem_cons_self) hi d h)

theorem started_pass (c : Cfg) (order : List Nat) : ∀ σ, Inv c σ → ∀ s, Started σ s →
    Started (pass c σ order) s := by
  induction order with
  | nil => intro σ _ s h; exact h
  | cons t rest ih =>
    intro σ hi s hs
    simp only [pass, List.foldl_cons]
    have hne : σ.status s ≠ .waiting := by rw [hs.1]; simp
    have hf := visitFull_frame c σ t hi s hne
    exact ih _ (inv_visitFull c σ t hi) s ⟨hf.1.trans hs.1, hf.2.trans hs.2⟩

/-- **C04 (main)**: from any reachable state with the loop between two passes, ONE pass — during
which no task finishes — starts every stage of its order that is eligible; all of them are then
inside `Run` at the same time. -/
theorem C04_pass_starts_all (c : Cfg) (order : List Nat) : ∀ σ, Inv c σ → σ.pc = .idle →
    ∀ s ∈ order, Eligible c σ s → Started (pass c σ order) s := by
  induction order with
  | nil => intro σ _ _ s hs; cases hs
  | cons t rest ih =>
    intro σ hi hidle s hs he
    simp only [pass, List.foldl_cons]
    have hi' := inv_visitFull c σ t hi
    have hidle' := visitFull_idle c σ t hidle
    by_cases hst : s = t
    · subst hst
      exact started_pass c rest _ hi' s (C04_visit_starts c σ s hidle he)
    · have hmem : s ∈ rest := by
        rcases List.mem_cons.mp hs with h | h
        · exact absurd h hst
        · exact h
      have ho := visitFull_other c σ t hidle s hst
      have he' : Eligible c (visitFull c σ t) s := by
        refine ⟨ho.1.trans he.1, he.2.1, he.2.2.1, ?_⟩
        intro d hd
        rw [visitFull_eq_run]
        exact sat_run_loop_stable c _ σ (visitActs_loop c t) hi d (he.2.2.2 d hd)
      exact ih _ hi' hidle' s hmem he'

/-- the barrier reading: every set of simultaneously eligible stages is, after one pass, entirely
inside `Run` together with whatever was already running — so tasks that wait for each other to be
running can all proceed. -/
theorem C04_barrier (c : Cfg) (as : List Act) (order : List Nat) (E : List Nat)
    (hidle : (run c init as).pc = .idle)
    (hE : ∀ s ∈ E, s ∈ order ∧ Eligible c (run c init as) s) :
    ∀ s ∈ E, Started (pass c (run c init as) order) s :=
  fun s hs => C04_pass_starts_all c order _ (inv_run c as) hidle s (hE s hs).1 (hE s hs).2

/-- what is already running keeps running through the pass (nothing is waited for, nothing is
stopped): the in-flight set after a pass contains the old one and every eligible stage -/
theorem C04_inflight_superset (c : Cfg) (as : List Act) (order : List Nat) (s : Nat)
    (hidle : (run c init as).pc = .idle)
    (h : Started (run c init as) s ∨ (s ∈ order ∧ Eligible c (run c init as) s)) :
    Started (pass c (run c init as) order) s := by
  rcases h with h | ⟨h1, h2⟩
  · exact started_pass c order _ (inv_run c as) s h
  · exact C04_pass_starts_all c order _ (inv_run c as) hidle s h1 h2

/-- satisfied dependencies stay satisfied under every action, so eligibility is only lost by being
started -/
theorem sat_stable (c : Cfg) (σ : St) (a : Act) (hi : Inv c σ) (d : Nat) (h : Sat c σ d) :
    Sat c (step c σ a) d := by
  obtain ⟨g_none, g_run, run_g, g_after, g_fin, started, chk⟩ := hi
  unfold Sat at *
  cases a with
  | visit t =>
    simp only [step]; split
    · split
      · split <;> grind
      · exact h
    · exact h
  | read =>
    simp only [step]; split
    · rename_i t d' rest ready hpc
      have := chk _ _ _ hpc
      split
      · exact h
      · exact h
      · split
        · exact h
        · grind
      · grind
      · exact h
    · exact h
  | decide =>
    simp only [step]; split
    · rename_i t ready hpc
      have := chk _ _ _ hpc
      split
      · grind
      · exact h
    · exact h
  | ret t ok =>
    simp only [step]; split
    · split <;> grind
    · exact h
  | post t =>
    simp only [step]; split
    · split <;> grind
    · exact h
  | cancel => exact h

/-! ## Non-vacuity: three independent stages, one pass, all three in `Run`, nothing has returned -/
def exCfg4 : Cfg := { deps := fun _ => [], allow := fun _ => false, cond := fun _ => .none }
example : Eligible exCfg4 init 0 ∧ Eligible exCfg4 init 1 ∧ Eligible exCfg4 init 2 := by
  simp [Eligible, init, exCfg4]
example : ∀ s ∈ [0, 1, 2], Started (pass exCfg4 init [0, 1, 2]) s := by decide

end Sched
