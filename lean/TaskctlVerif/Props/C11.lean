import TaskctlVerif.Model.Capture
import TaskctlVerif.Props.C07
import TaskctlVerif.Props.C01
/-!
# C11 — a task's output is captured exactly and handed to the stages that depend on it

Models: `Model/Capture.lean` over R and S.  The byte plumbing itself (`io.MultiWriter`,
`bytes.Buffer`, the OS environment, NUL bytes) is runtime: exercised by the correspondence run,
not proved.
-/
namespace Capture
open Runner

theorem captured_append (outOf : Nat → Nat → CmdOut) (a b : List Tok) :
    captured outOf (a ++ b) = captured outOf a ++ captured outOf b := by
  simp [captured]

theorem captured_cmds (outOf : Nat → Nat → CmdOut) (js : List (Nat × Nat)) :
    captured outOf (js.map cmdTok) = js.flatMap (fun p => (outOf p.1 p.2).stdout) := by
  induction js with
  | nil => rfl
  | cons p js ih =>
    simp only [List.map_cons, List.flatMap_cons]
    rw [← ih]
    simp [captured, cmdTok]

theorem captured_noncmd (outOf : Nat → Nat → CmdOut) (l : List Tok)
    (h : ∀ t ∈ l, ∀ v j, t ≠ Tok.cmd v j) : captured outOf l = [] := by
  induction l with
  | nil => rfl
  | cons t l ih =>
    have ht := h t List.mem_cons_self
    have := ih (fun t' h' => h t' (List.mem_cons_of_mem _ h'))
    simp only [captured, List.flatMap_cons] at *
    rw [this]
    cases t <;> simp_all

theorem runAfter_noncmd (i : Nat) (as : List CmdResult) :
    ∀ t ∈ runAfter i as, ∀ v j, t ≠ Tok.cmd v j := by
  induction as generalizing i with
  | nil => intro t h; cases h
  | cons r as ih =>
    intro t h v j
    simp only [runAfter] at h
    rw [List.mem_append] at h
    rcases h with h | h
    · split at h
      · simp at h; subst h; simp
      · cases h
    · exact ih (i + 1) t h v j

/-- **the captured output is exactly the bytes the commands wrote to standard output, in order,
across all commands and variations** — for a task that finishes successfully or with allowed
failures (no job ends the execution early); hooks and the condition contribute nothing. -/
theorem C11_exact (t : TaskSpec) (outOf : Nat → Nat → CmdOut) (hc : condOk t)
    (hb : ∀ r ∈ t.before, r.ok = true)
    (hns : ∀ p ∈ jobs t, stops t.allow (t.res p.1 p.2) = false) :
    captured outOf (runTask t).trace = (jobs t).flatMap (fun p => (outOf p.1 p.2).stdout) := by
  have hex := execute_no_stop t.allow t.res (jobs t) t.initExit hns
  rw [runTask_of_condOk t hc]
  simp only [runTask.body, runBefore_all_ok 0 t.before hb]
  rw [show (execute t.allow t.res (jobs t) t.initExit) =
    ((execute t.allow t.res (jobs t) t.initExit).1, (execute t.allow t.res (jobs t) t.initExit).2.1,
     (execute t.allow t.res (jobs t) t.initExit).2.2) from rfl]
  simp only [hex.1, hex.2]
  simp only [Bool.false_eq_true, if_false, captured_append, captured_cmds]
  have h1 : captured outOf (condToks t) = [] := by
    apply captured_noncmd; intro tok h; unfold condToks at h; split at h <;> simp_all
  have h2 : captured outOf ((List.range t.before.length).map (fun k => Tok.before (0 + k))) = [] := by
    apply captured_noncmd; intro tok h; simp at h; obtain ⟨k, _, rfl⟩ := h; simp
  simp only [Nat.zero_add] at h2
  have h3 : captured outOf (runAfter 0 t.after) = [] :=
    captured_noncmd outOf _ (runAfter_noncmd 0 t.after)
  simp [h1, h2, h3]

/-- within a task every command can read the previous command's output as `.Output` -/
theorem C11_output_chain (outOf : Nat → Nat → CmdOut) (js : List (Nat × Nat)) (k v j : Nat)
    (h : js[k]? = some (v, j)) : outputVar outOf js (k + 1) = (outOf v j).combined ∧
    outputVar outOf js 0 = [] := by
  simp [outputVar, h]

/-- **the derived name contains only `A-Z`, `0-9`, `_`** … -/
theorem C11_envname_charset (name : Bytes) :
    ∀ b ∈ envName name, (65 ≤ b ∧ b ≤ 90) ∨ (48 ≤ b ∧ b ≤ 57) ∨ b = 95 := by
  intro b hb
  unfold envName at hb
  rw [List.mem_append] at hb
  rcases hb with hb | hb
  · rw [List.mem_map] at hb
    obtain ⟨a, _, rfl⟩ := hb
    unfold upper isWord
    split <;> split <;> simp_all <;> omega
  · unfold suffix at hb
    simp at hb
    omega

/-- … and is the stated map: letters upper-cased, digits and `_` kept, anything else `_`, then
`_OUTPUT` -/
theorem C11_envname_map (name : Bytes) (i : Nat) (b : Nat) (h : name[i]? = some b) :
    (envName name)[i]? = some (
      if 97 ≤ b ∧ b ≤ 122 then b - 32
      else if (65 ≤ b ∧ b ≤ 90) ∨ (48 ≤ b ∧ b ≤ 57) ∨ b = 95 then b
      else 95) ∧
    (envName name).length = name.length + 7 := by
  have hi : i < name.length := by
    rcases Nat.lt_or_ge i name.length with h' | h'
    · exact h'
    · rw [List.getElem?_eq_none h'] at h; cases h
  constructor
  · unfold envName
    rw [List.getElem?_append_left (by simpa using hi), List.getElem?_map, h]
    simp only [Option.map_some, Option.some.injEq]
    unfold upper isWord
    split <;> split <;> simp_all <;> omega
  · simp [envName, suffix]

/-- `exportAs` replaces the derived name -/
theorem C11_export_as (name e : Bytes) : key name (some e) = e ∧ key name none = envName name := by
  simp [key]

/-- **the output is published iff the task finished successfully or with allowed failures** -/
theorem C11_store_iff (t : TaskSpec) :
    stored t = true ↔ (runTask t).err = false ∧ (runTask t).skipped = false := by
  simp [stored]

theorem C11_stored_when_allowed (t : TaskSpec) (hallow : t.allow = true) (hc : condOk t)
    (hb : ∀ r ∈ t.before, r.ok = true) (hexit : ∀ p ∈ jobs t, ∃ n, t.res p.1 p.2 = .exit n) :
    stored t = true := by
  have h := C07_allowed_failures_report_nothing t hallow hc hb hexit
  have hs : (runTask t).skipped = false := by
    rw [runTask_of_condOk t hc]; simp only [runTask.body]; split
    · rfl
    · split <;> rfl
  simp [stored, h.1, hs]

/-! ## Dependants see it, under every interleaving -/

open Sched in
structure CInv (c : Cfg) (keyOf out : Nat → Nat) (σ : CSt) : Prop where
  inv    : Inv c σ.s
  store  : ∀ p, σ.stored p = true → σ.renv (keyOf p) = some (out p)
  seen   : ∀ x, σ.s.g x ≠ .none → ∀ p ∈ c.deps x, σ.stored p = true → σ.snap x (keyOf p) = some (out p)
  done   : ∀ p, σ.stored p = true → σ.s.g p = .fin

open Sched in
theorem cinv_init (c : Cfg) (keyOf out : Nat → Nat) : CInv c keyOf out cinit := by
  constructor
  · exact inv_init c
  · intro p h; simp [cinit] at h
  · intro x h; simp [cinit, init] at h
  · intro p h; simp [cinit] at h

open Sched in
theorem cinv_step (c : Cfg) (keyOf out : Nat → Nat) (hinj : ∀ a b, keyOf a = keyOf b → a = b)
    (σ : CSt) (a : Act) (h : CInv c keyOf out σ) : CInv c keyOf out (cstep c keyOf out σ a) := by
  obtain ⟨hinv, hstore, hseen, hdone⟩ := h
  have hinv' := inv_step c σ.s a hinv
  have hstable : ∀ x, σ.s.g x ≠ .none → (step c σ.s a).g x ≠ .none := fun x hx => started_stable c σ.s a x hx
  cases a with
  | ret p ok =>
    simp only [cstep]
    split
    · rename_i hc
      obtain ⟨hg, hok⟩ := hc
      subst hok
      have hstep : (step c σ.s (.ret p true)).g = upd σ.s.g p .fin := by simp [step, hg]
      refine ⟨hinv', ?_, ?_, ?_⟩
      · intro q hq
        dsimp only at hq ⊢
        by_cases hqp : q = p
        · subst hqp; simp [upd]
        · have : σ.stored q = true := by simpa [upd, hqp] using hq
          have hk : keyOf q ≠ keyOf p := fun e => hqp (hinj _ _ e)
          simp [upd, hk, hstore q this]
      · intro x hx q hq hsq
        dsimp only at hx hsq ⊢
        have hx0 : σ.s.g x ≠ .none := by
          intro e
          rw [hstep] at hx
          by_cases hxp : x = p
          · subst hxp; rw [hg] at e; cases e
          · simp [upd, hxp, e] at hx
        by_cases hqp : q = p
        · -- `p` is a dependency of the already started `x`: it is satisfied, hence not in `Run`
          subst hqp
          have hs := hinv.started x hx0 q hq
          have := hinv.g_run q hg
          unfold Sat at hs
          rcases hs with h | h | ⟨h, _⟩ <;> rw [this] at h <;> cases h
        · have : σ.stored q = true := by simpa [upd, hqp] using hsq
          exact hseen x hx0 q hq this
      · intro q hq
        dsimp only at hq ⊢
        rw [hstep]
        by_cases hqp : q = p
        · subst hqp; simp [upd]
        · have : σ.stored q = true := by simpa [upd, hqp] using hq
          simp [upd, hqp, hdone q this]
    · rename_i hc
      refine ⟨hinv', hstore, ?_, ?_⟩
      · intro x hx q hq hsq
        dsimp only at hx hsq ⊢
        have hx0 : σ.s.g x ≠ .none := by
          intro e
          apply hx
          simp only [step]
          split
          · rename_i hgp
            have : x ≠ p := by intro e'; subst e'; rw [hgp] at e; cases e
            split <;> simp [upd, this, e]
          · exact e
        exact hseen x hx0 q hq hsq
      · intro q hq
        dsimp only at hq ⊢
        have := hdone q hq
        simp only [step]
        split
        · rename_i hgp
          have : q ≠ p := by intro e'; subst e'; rw [hgp] at this; cases this
          split <;> simp [upd, this, hdone q hq]
        · exact this
  | decide =>
    simp only [cstep]
    split
    · rename_i x hpc
      have hchk := hinv.chk _ _ _ hpc
      have hstep : (step c σ.s .decide).g = upd σ.s.g x .inRun := by simp [step, hpc]
      refine ⟨hinv', hstore, ?_, ?_⟩
      · intro y hy q hq hsq
        dsimp only at hy hsq ⊢
        by_cases hyx : y = x
        · subst hyx; simp [upd, hstore q hsq]
        · have hy0 : σ.s.g y ≠ .none := by
            intro e; rw [hstep] at hy; simp [upd, hyx, e] at hy
          simp [upd, hyx, hseen y hy0 q hq hsq]
      · intro q hq
        dsimp only at hq ⊢
        rw [hstep]
        have hqx : q ≠ x := by intro e; subst e; have := hdone q hq; rw [hchk.1] at this; cases this
        simp [upd, hqx, hdone q hq]
    · rename_i hne
      have hg : (step c σ.s .decide).g = σ.s.g := by
        simp only [step]
        split
        · rename_i s ready hpc
          split
          · rename_i hr; subst hr; exact absurd hpc (hne s)
          · rfl
        · rfl
      refine ⟨hinv', hstore, ?_, ?_⟩
      · intro y hy q hq hsq
        dsimp only at hy hsq ⊢
        rw [hg] at hy
        exact hseen y hy q hq hsq
      · intro q hq; dsimp only at hq ⊢; rw [hg]; exact hdone q hq
  | visit s =>
    have hg : (step c σ.s (.visit s)).g = σ.s.g := by
      simp only [step]; split
      · split
        · split <;> rfl
        · rfl
      · rfl
    refine ⟨hinv', hstore, ?_, ?_⟩
    · intro y hy q hq hsq
      simp only [cstep] at hy hsq ⊢
      rw [hg] at hy
      exact hseen y hy q hq hsq
    · intro q hq; simp only [cstep] at hq ⊢; rw [hg]; exact hdone q hq
  | read =>
    have hg : (step c σ.s .read).g = σ.s.g := by
      simp only [step]; split
      · split
        · rfl
        · rfl
        · split <;> rfl
        · rfl
        · rfl
      · rfl
    refine ⟨hinv', hstore, ?_, ?_⟩
    · intro y hy q hq hsq
      simp only [cstep] at hy hsq ⊢
      rw [hg] at hy
      exact hseen y hy q hq hsq
    · intro q hq; simp only [cstep] at hq ⊢; rw [hg]; exact hdone q hq
  | post s =>
    refine ⟨hinv', hstore, ?_, ?_⟩
    · intro y hy q hq hsq
      simp only [cstep] at hy hsq ⊢
      have hy0 : σ.s.g y ≠ .none := by
        intro e
        apply hy
        simp only [step]
        split
        · rename_i hgs
          have : y ≠ s := by intro e'; subst e'; rw [hgs] at e; cases e
          split <;> simp [upd, this, e]
        · exact e
      exact hseen y hy0 q hq hsq
    · intro q hq
      simp only [cstep] at hq ⊢
      have := hdone q hq
      simp only [step]
      split
      · rename_i hgs
        have : q ≠ s := by intro e'; subst e'; rw [hgs] at this; cases this
        split <;> simp [upd, this, hdone q hq]
      · exact this
  | cancel =>
    exact ⟨hinv', hstore, fun y hy q hq hsq => hseen y hy q hq hsq, fun q hq => hdone q hq⟩

open Sched in
/-- **every stage that depends on a task sees its output, in every interleaving**: when stage `x`
started, the snapshot of the runner environment its `Run` works with maps the producer's variable to
the producer's captured output — for every dependency `p` whose `Run` returned without error, given
that distinct producers publish under distinct names (`a-b` and `a_b` collide: last writer wins). -/
theorem C11_dependants_see (c : Cfg) (keyOf out : Nat → Nat) (hinj : ∀ a b, keyOf a = keyOf b → a = b)
    (as : List Act) (x p : Nat) (hp : p ∈ c.deps x)
    (hx : (crun c keyOf out cinit as).s.g x ≠ .none)
    (hs : (crun c keyOf out cinit as).stored p = true) :
    (crun c keyOf out cinit as).snap x (keyOf p) = some (out p) := by
  have key : ∀ (as : List Act) σ, CInv c keyOf out σ → CInv c keyOf out (crun c keyOf out σ as) := by
    intro as
    induction as with
    | nil => intro σ h; exact h
    | cons a as ih => intro σ h; exact ih _ (cinv_step c keyOf out hinj σ a h)
  exact (key as _ (cinv_init c keyOf out)).seen x hx p hp hs

/-! ## Non-vacuity -/
example : envName [97, 45, 98] = [65, 95, 66, 95, 79, 85, 84, 80, 85, 84] := by decide   -- "a-b" ↦ "A_B_OUTPUT"
example : (crun Sched.exCfg (fun p => p) (fun p => 100 + p) cinit
    [.visit 0, .decide, .ret 0 true, .visit 1, .read, .decide]).snap 1 0 = some 100 := by decide

end Capture
