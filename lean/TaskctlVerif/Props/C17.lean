import TaskctlVerif.Proofs.Imports
import TaskctlVerif.Model.GlobalCfg
/-!
# C17 — imports load every reachable file once; cycles terminate; broken imports fail

Model: `Model/Imports.lean`.  All theorems hold for **every** import structure on any number of files
— self-imports, mutual imports, repeated imports, diamonds.  The merge itself (`mergo` with
override + append-slice: third-party) is abstracted to the list of contributing files; directory
imports reduce to file imports (`C17_dir_reduces`); the global/project union is covered by the correspondence run only (the latter's
variables part is `Vars.C10_global_reaches_tasks`).
-/
namespace Imports

/-- the files of the tree are `0..n-1` and imports stay inside it -/
def Closed (fs : FS) (n : Nat) : Prop := ∀ x, x < n → ∀ y ∈ fs.imports x, y < n

theorem reach_closed {fs : FS} {c : List Nat} (hcl : ∀ a b, a ∈ c → Edge fs a b → b ∈ c) {a x : Nat}
    (ha : a ∈ c) (h : Reach fs a x) : x ∈ c := by
  induction h with
  | refl a => exact ha
  | @step a b d e _ ih => exact ih (hcl a b ha e)

/-- **loading terminates for any import structure**: the recursion never needs more depth than the
number of files (the model's fuel `n + 1` is never exhausted) -/
theorem C17_terminates (fs : FS) (n r : Nat) (hc : Closed fs n) (hr : r < n) :
    loadRoot fs n r ≠ .outOfFuel := by
  unfold loadRoot
  apply load_fuel fs n hc (n + 1) [] r hr (by simp)
  unfold Graph.cnt
  have := List.length_filter_le (fun x => decide (x ∉ ([] : List Nat))) (List.range n)
  rw [List.length_range] at this
  omega

/-- **the result contains the definitions of every file reachable through imports, each taken
once**: on success the contributing files are exactly the import closure of the root, without
repetition, and every one of them could be read and parsed -/
theorem C17_reachable_once (fs : FS) (n r : Nat) (vis c : List Nat)
    (h : loadRoot fs n r = .ok vis c) :
    c.Nodup ∧ (∀ x, x ∈ c ↔ Reach fs r x) ∧ (∀ x ∈ c, fs.status x = .ok) := by
  unfold loadRoot at h
  obtain ⟨hs, hrc, hreach⟩ := (load_spec fs (n + 1) [] r (by simp)).1 vis c h
  refine ⟨hs.nodup, ?_, fun x hx => (hs.closed x hx).1⟩
  intro x
  refine ⟨hreach x, ?_⟩
  apply reach_closed ?_ hrc
  intro a b ha e
  have := (hs.closed a ha).2 b e.2
  rcases (hs.visited b).mp this with h' | h'
  · cases h'
  · exact h'

/-- **if a file in the closure is missing or cannot be parsed, loading fails** — and only then -/
theorem C17_broken_fails_iff (fs : FS) (n r : Nat) (hc : Closed fs n) (hr : r < n) :
    loadRoot fs n r = .err ↔ ∃ x, Reach fs r x ∧ fs.status x ≠ .ok := by
  constructor
  · intro h
    exact (load_spec fs (n + 1) [] r (by simp)).2 h
  · rintro ⟨x, hx, hbad⟩
    cases hres : loadRoot fs n r with
    | outOfFuel => exact absurd hres (C17_terminates fs n r hc hr)
    | err => rfl
    | ok vis c =>
      have := C17_reachable_once fs n r vis c hres
      exact absurd (this.2.2 x ((this.2.1 x).mpr hx)) hbad

/-- a missing or unparsable file that nothing reachable imports does no harm -/
theorem C17_unreachable_harmless (fs : FS) (n r : Nat) (hc : Closed fs n) (hr : r < n)
    (hok : ∀ x, Reach fs r x → fs.status x = .ok) :
    ∃ vis c, loadRoot fs n r = .ok vis c := by
  cases hres : loadRoot fs n r with
  | outOfFuel => exact absurd hres (C17_terminates fs n r hc hr)
  | err =>
    obtain ⟨x, hx, hbad⟩ := (C17_broken_fails_iff fs n r hc hr).mp hres
    exact absurd (hok x hx) hbad
  | ok vis c => exact ⟨vis, c, rfl⟩

/-! ## Directory imports reduce to file imports -/

theorem loadList_append (ld : List Nat → Nat → Res) (xs ys : List Nat) : ∀ vis,
    loadList ld vis (xs ++ ys) =
      match loadList ld vis xs with
      | .ok vis' c =>
        match loadList ld vis' ys with
        | .ok vis'' c' => .ok vis'' (c ++ c')
        | r => r
      | r => r := by
  induction xs with
  | nil =>
    intro vis
    simp only [List.nil_append, loadList]
    cases loadList ld vis ys <;> simp
  | cons x xs ih =>
    intro vis
    simp only [List.cons_append, loadList]
    split
    · exact ih vis
    · cases hld : ld vis x with
      | outOfFuel => rfl
      | err => rfl
      | ok v1 c1 =>
        simp only []
        rw [ih v1]
        cases loadList ld v1 xs with
        | outOfFuel => rfl
        | err => rfl
        | ok v2 c2 =>
          simp only []
          cases loadList ld v2 ys with
          | outOfFuel => rfl
          | err => rfl
          | ok v3 c3 => simp [List.append_assoc]

theorem loadDirD_eq (ld : List Nat → Nat → Res) (fs : List Nat) : ∀ vis,
    loadDirD ld vis fs = loadList ld vis fs := by
  induction fs with
  | nil => intro vis; rfl
  | cons v rest ih =>
    intro vis
    simp only [loadDirD, loadList]
    split
    · exact ih vis
    · cases ld vis v with
      | outOfFuel => rfl
      | err => rfl
      | ok v1 c1 => simp only []; rw [ih v1]

theorem loadListD_eq (ld : List Nat → Nat → Res) (es : List Entry) : ∀ vis,
    loadListD ld vis es = loadList ld vis (expand es) := by
  induction es with
  | nil => intro vis; rfl
  | cons e rest ih =>
    intro vis
    cases e with
    | file v =>
      simp only [loadListD, expand, loadList]
      split
      · exact ih vis
      · cases ld vis v with
        | outOfFuel => rfl
        | err => rfl
        | ok v1 c1 => simp only []; rw [ih v1]
    | dir fs =>
      simp only [loadListD, expand]
      rw [loadList_append, loadDirD_eq]
      cases loadList ld vis fs with
      | outOfFuel => rfl
      | err => rfl
      | ok v1 c1 =>
        simp only []
        rw [ih v1]
        cases loadList ld v1 (expand rest) <;> rfl

/-- **directory imports**: loading a tree in which files import files *and directories* gives, for
every fuel, visited set and file, exactly what loading the same tree with each directory import
written out as the (sorted) list of its `*.yaml` files gives.  Every theorem of this file therefore
speaks about directory imports as well: termination on any structure, the closure taken once,
failure exactly when a file of the closure - reached through a directory or not - is broken. -/
theorem C17_dir_reduces (fs : FSD) : ∀ (fuel : Nat) (vis : List Nat) (f : Nat),
    loadD fs fuel vis f = load fs.flat fuel vis f := by
  intro fuel
  induction fuel with
  | zero => intro vis f; rfl
  | succ k ih =>
    intro vis f
    simp only [loadD, load, FSD.flat]
    cases fs.status f with
    | ok =>
      simp only []
      rw [loadListD_eq]
      have : loadD fs k = load fs.flat k := by funext v x; exact ih v x
      rw [this]
      rfl
    | missing => rfl
    | unparsable => rfl

-- file 0 imports the directory holding 1 and 2 and then file 2 again; 2 imports 0: each taken once
example : loadD { entries := fun f => if f = 0 then [.dir [1, 2], .file 2] else if f = 2 then [.file 0] else [],
                  status := fun _ => .ok } 4 [] 0 = .ok [2, 1, 0] [0, 1, 2] := by decide
-- a dangling entry in the imported directory makes loading fail
example : loadD { entries := fun f => if f = 0 then [.dir [1, 2]] else [],
                  status := fun f => if f = 2 then .missing else .ok } 4 [] 0 = .err := by decide

/-! ## Non-vacuity: three files importing each other in a cycle with a self-import and a repeat -/
def exFS : FS := { imports := fun f => if f = 0 then [1, 1, 0] else if f = 1 then [2] else if f = 2 then [0, 1] else [],
                   status := fun f => if f = 3 then .missing else .ok }
example : loadRoot exFS 4 0 = .ok [2, 1, 0] [0, 1, 2] := by decide
-- the hypotheses of the theorems hold of it: the tree is closed under imports, the root is one of its files
example : Closed exFS 4 := by
  intro x hx y hy
  have : x = 0 ∨ x = 1 ∨ x = 2 ∨ x = 3 := by omega
  rcases this with rfl | rfl | rfl | rfl <;> simp [exFS] at hy <;> omega
example : loadRoot { exFS with status := fun f => if f = 2 then .unparsable else .ok } 4 0 = .err := by decide

end Imports

/-! ## The global configuration next to the project's (`Model/GlobalCfg.lean`) -/
namespace GlobalCfg

theorem mem_keys_mergeKeep {α} (dst src : Sect α) (k : String) :
    k ∈ keys (mergeKeep dst src) ↔ k ∈ keys dst ∨ k ∈ keys src := by
  unfold mergeKeep keys
  simp only [List.map_append, List.mem_append, List.mem_map, List.mem_filter, Bool.not_eq_true',
    List.contains_eq_mem, decide_eq_false_iff_not]
  constructor
  · rintro (h | ⟨kv, ⟨h1, _⟩, h3⟩)
    · exact .inl h
    · exact .inr ⟨kv, h1, h3⟩
  · rintro (h | ⟨kv, h1, h3⟩)
    · exact .inl h
    · by_cases hk : k ∈ List.map (fun x => x.1) dst
      · exact .inl (by simpa using hk)
      · exact .inr ⟨kv, ⟨h1, by rw [h3]; simpa using hk⟩, h3⟩

theorem mem_keys_mergeOver {α} (dst src : Sect α) (k : String) :
    k ∈ keys (mergeOver dst src) ↔ k ∈ keys dst ∨ k ∈ keys src := by
  unfold mergeOver keys
  simp only [List.map_append, List.mem_append, List.mem_map, List.mem_filter, Bool.not_eq_true',
    List.contains_eq_mem, decide_eq_false_iff_not]
  constructor
  · rintro (⟨kv, ⟨h1, _⟩, h3⟩ | h)
    · exact .inl ⟨kv, h1, h3⟩
    · exact .inr h
  · rintro (⟨kv, h1, h3⟩ | h)
    · by_cases hk : k ∈ List.map (fun x => x.1) src
      · exact .inr (by simpa using hk)
      · exact .inl ⟨kv, ⟨h1, by rw [h3]; simpa using hk⟩, h3⟩
    · exact .inr h

/-- **every definition of the global file and of the project file is available**: in each section
the names a project sees are exactly those of the global configuration together with its own - for
every split of the definitions between the two files (conflicting names included) -/
theorem C17_global_union {α} (g p : Cfg α) (k : String) :
    (k ∈ keys (load g p).tasks ↔ k ∈ keys g.tasks ∨ k ∈ keys p.tasks) ∧
    (k ∈ keys (load g p).contexts ↔ k ∈ keys g.contexts ∨ k ∈ keys p.contexts) ∧
    (k ∈ keys (load g p).variables ↔ k ∈ keys g.variables ∨ k ∈ keys p.variables) := by
  simp only [load, merge, empty, mem_keys_mergeKeep, mem_keys_mergeOver]
  simp [keys]

/-- a definition is the one its file gives when the other file does not define the name (what
`mergo` makes of two definitions with the same name - it fills the empty fields of the first from the
second - is not modelled: the property is about non-conflicting definitions) -/
theorem C17_global_value {α} (g p : Cfg α) (kv : String × α) :
    (kv ∈ g.tasks → kv.1 ∉ keys p.tasks → kv ∈ (load g p).tasks) ∧
    (kv ∈ p.tasks → kv.1 ∉ keys g.tasks → kv ∈ (load g p).tasks) ∧
    (kv ∈ p.variables → kv.1 ∉ keys g.variables → kv ∈ (load g p).variables) ∧
    (kv ∈ g.variables → kv.1 ∉ keys p.variables → kv ∈ (load g p).variables) := by
  simp only [load, merge, empty, mergeKeep, mergeOver, keys]
  refine ⟨fun h _ => ?_, fun h hn => ?_, fun h _ => ?_, fun h hn => ?_⟩
  · simp [h]
  · simp only [List.nil_append, List.mem_append, List.mem_filter]
    right
    refine ⟨h, ?_⟩
    simpa using hn
  · simp [h]
  · simp only [List.nil_append, List.mem_append, List.mem_filter]
    left
    refine ⟨by simpa using h, ?_⟩
    simpa using hn

example : keys (load (α := Nat) { tasks := [("a", 1)], contexts := [], variables := [("v", 1)] }
    { tasks := [("b", 2), ("a", 3)], contexts := [("c", 4)], variables := [("v", 5), ("w", 6)] }).tasks = ["a", "b"] := by decide

end GlobalCfg

