import TaskctlVerif.Proofs.SchedFair
import TaskctlVerif.Props.C02
import TaskctlVerif.Model.SchedMulti
import TaskctlVerif.Props.C01
import TaskctlVerif.Proofs.SchedLoops
/-!
# C03 — every pipeline run terminates and runs each eligible stage exactly once

Model: `Model/Sched.lean`.  Termination is the classical variant argument, every ingredient of which
is a theorem below: a per-stage weight (waiting 3, inside `Run` 2, between the two status writes of
a failing goroutine 1, otherwise 0) that no action ever increases (`C03_weight_mono`), that every
task completion strictly decreases (`C03_completion_decreases`), and that every complete pass of the
loop strictly decreases whenever nothing is in flight and something still waits
(`C03_pass_progress`, needs acyclicity).  With `n` stages the total weight starts at `3n`
(`C03_weight_init`), so under the stated fairness assumption (the loop keeps being scheduled; every
started `Run` returns) the run is over after at most `3n` weight-decreasing steps; when the weight is
zero the run is terminal (`C03_weight_zero_terminal`).

The argument is also closed for one concrete fair schedule (`Proofs/SchedFair.lean`): a *round* lets
every task in flight return (with the outcomes `okf` picks) and then lets the loop make one complete
pass.  `C03_round_decreases`: unless the run is over, every round strictly decreases the total
weight — from **every** reachable state with the loop between passes, not only from the start, so
whatever interleaving happened before, fairness from then on finishes the run.
`C03_fair_terminates`: from the start, `3n + 1` rounds suffice, for every acyclic configuration and
every outcome assignment; the state reached is a reachable one (`C03_fair_is_interleaving`), so
everything proved for arbitrary interleavings (C01, C02, `C03_once`, `C03_terminal`) applies to it.
`C03_fair_run_final` puts C02 and C03 together with no hypothesis about the reached state left over:
the fair run from `init`, completed by the goroutines' last writes, is terminal and every stage has
its `final` status.
-/
namespace Sched

/-! ### exactly once -/

def OnceInv (σ : St) : Prop := ∀ s, σ.starts s = if σ.g s = .none then 0 else 1

theorem once_step (c : Cfg) (σ : St) (a : Act) (hi : Inv c σ) (h : OnceInv σ) :
    OnceInv (step c σ a) := by
  intro s
  have hs := h s
  have := step_cases c σ a hi s
  grind

theorem once_run (c : Cfg) (as : List Act) : OnceInv (run c init as) := by
  suffices ∀ σ, Inv c σ → OnceInv σ → OnceInv (run c σ as) from
    this _ (inv_init c) (by intro s; simp [init])
  induction as with
  | nil => intro σ _ h; exact h
  | cons a as ih => intro σ h1 h2; exact ih _ (inv_step c σ a h1) (once_step c σ a h1 h2)

/-- **C03 (at most once)**: under every interleaving no stage is ever started twice, and a stage
has been started exactly once iff its goroutine exists. -/
theorem C03_once (c : Cfg) (as : List Act) (s : Nat) :
    (run c init as).starts s ≤ 1 ∧ ((run c init as).starts s = 1 ↔ (run c init as).g s ≠ .none) := by
  have := once_run c as s
  constructor
  · rw [this]; split <;> omega
  · rw [this]; split <;> simp_all

/-- **C03 (exactly the eligible stages, exactly once)**: when the run is over, a stage has been
executed once if its final status is `done` or `error` — i.e. its condition did not exclude it and
none of its dependencies blocked it — and not at all otherwise. -/
theorem C03_terminal (c okf rank) (hac : Acyclic c rank) (hne : ∀ s, c.cond s ≠ .err)
    (as : List Act) (has : ∀ a ∈ as, Respects okf a) (n : Nat) (ht : Terminal n (run c init as))
    (s : Nat) (hsn : s < n) :
    ((run c init as).starts s = 1 ↔ (final c okf rank s = .done ∨ final c okf rank s = .error)) ∧
    ((run c init as).starts s = 0 ↔ (final c okf rank s = .skipped ∨ final c okf rank s = .canceled)) := by
  have hfin := C02_final c okf rank hac hne as has n ht s hsn
  have honce := once_run c as s
  have hi := inv_run c as
  obtain ⟨_, hag⟩ := agree_run c okf _ (final_isFinal c okf rank hac) hne as has
  have hgn := hi.g_none s
  have hgf := hi.g_fin s
  have hgr := hi.g_run s
  have hga := hi.g_after s
  have herr := hag.err_run s
  have hst := hag.started s
  have ht' := ht s hsn
  have hgc := gcases (run c init as) s
  rw [← hfin]
  generalize run c init as = σ at *
  constructor
  · rw [honce]
    constructor
    · intro h
      have hg : σ.g s ≠ .none := by intro hg; simp [hg] at h
      rcases hgc with h0 | h1 | h2 | h3
      · exact absurd h0 hg
      · have := hgr h1; exact absurd this ht'.2.1
      · exact absurd h2 ht'.2.2
      · exact hgf h3
    · rintro (h | h)
      · have : σ.g s ≠ .none := by
          intro hg; rcases hgn hg with h' | h' | h' | h' <;> rw [h] at h' <;> cases h'
        simp [this]
      · simp [herr h]
  · rw [honce]
    constructor
    · intro h
      have hg : σ.g s = .none := by
        apply Classical.byContradiction; intro hg; simp [hg] at h
      rcases hgn hg with h' | h' | h' | h'
      · exact absurd h' ht'.1
      · exact .inl h'
      · exact .inr h'
      · exact absurd hg (herr h')
    · rintro (h | h)
      · have : σ.g s = .none := by
          rcases hgc with h0 | h1 | h2 | h3
          · exact h0
          · have := hgr h1; rw [h] at this; cases this
          · exact absurd h2 ht'.2.2
          · rcases hgf h3 with h' | h' <;> rw [h] at h' <;> cases h'
        simp [this]
      · have : σ.g s = .none := by
          rcases hgc with h0 | h1 | h2 | h3
          · exact h0
          · have := hgr h1; rw [h] at this; cases this
          · exact absurd h2 ht'.2.2
          · rcases hgf h3 with h' | h' <;> rw [h] at h' <;> cases h'
        simp [this]

/-! ### the variant -/

theorem C03_weight_init (s : Nat) : weight init s = 3 := by simp [weight, init]

/-- **no action ever increases the weight of any stage** -/
theorem C03_weight_mono (c : Cfg) (σ : St) (a : Act) (hi : Inv c σ) (s : Nat) :
    weight (step c σ a) s ≤ weight σ s := by
  have h1 := weight_cases σ s
  have h2 := weight_cases (step c σ a) s
  have := step_cases c σ a hi s
  grind

/-- **every completion step of a task in flight strictly decreases its weight** -/
theorem C03_completion_decreases (c : Cfg) (σ : St) (s : Nat) (ok : Bool) :
    (σ.g s = .inRun → weight (step c σ (.ret s ok)) s < weight σ s) ∧
    (σ.g s = .afterErr → weight (step c σ (.post s)) s < weight σ s) := by
  constructor
  · intro h
    have h1 := weight_cases σ s
    have h2 := weight_cases (step c σ (.ret s ok)) s
    have hg : (step c σ (.ret s ok)).g s = .fin ∨ (step c σ (.ret s ok)).g s = .afterErr := by
      simp only [step, h, if_true]; split <;> simp [upd_apply]
    grind
  · intro h
    have h1 := weight_cases σ s
    have h2 := weight_cases (step c σ (.post s)) s
    have hg : (step c σ (.post s)).g s = .fin := by
      simp only [step, h, if_true]; split <;> simp [upd_apply]
    grind

/-- weight zero on every stage of the pipeline = the run is over -/
theorem C03_weight_zero_terminal (c : Cfg) (σ : St) (hi : Inv c σ) (n : Nat)
    (h : ∀ s, s < n → weight σ s = 0) : Terminal n σ := by
  intro s hs
  have h0 := h s hs
  have h1 := weight_cases σ s
  have hgr := hi.run_g s
  have hgn := hi.g_none s
  have hgf := hi.g_fin s
  have hga := hi.g_after s
  refine ⟨?_, ?_, ?_⟩ <;> grind

/-! ### progress of the loop (deadlock-freedom) -/

/-- **C03 (progress)**: acyclic configuration, loop between two passes, nothing in flight, some
stage (among the `n` stages) still waiting: one complete pass over the stages decides at least one
waiting stage — the loop cannot spin for ever without a task in flight. -/
theorem C03_pass_progress (c : Cfg) (rank : Nat → Nat) (hac : Acyclic c rank) (n : Nat)
    (hclosed : ∀ s, s < n → ∀ d ∈ c.deps s, d < n)
    (as : List Act) (hidle : (run c init as).pc = .idle)
    (hquiet : ∀ s, (run c init as).g s ≠ .inRun)
    (hwait : ∃ s, s < n ∧ (run c init as).status s = .waiting) :
    ∃ s, s < n ∧ (run c init as).status s = .waiting ∧
      (pass c (run c init as) (List.range n)).status s ≠ .waiting := by
  have hi := inv_run c as
  generalize run c init as = σ at *
  obtain ⟨s0, hs0, hw0⟩ := hwait
  obtain ⟨s, hs, hw, hmin⟩ := exists_min_rank n rank (fun s => σ.status s = .waiting) (rank s0)
    ⟨s0, hs0, hw0, Nat.le_refl _⟩
  refine ⟨s, hs, hw, ?_⟩
  apply pass_decides c (List.range n) σ hi hidle s (List.mem_range.mpr hs)
  intro d hd
  have hr := hac s d hd
  refine ⟨by intro e; rw [e] at hr; omega, ?_, ?_⟩
  · intro hwd
    have := hmin d (hclosed s hs d hd) hwd
    omega
  · intro hrd
    exact hquiet d (hi.run_g d hrd)

/-- decided stages stay decided under every action: the non-atomic `isDone` scan can only answer
"done" if every stage really is decided when the scan ends -/
theorem C03_decided_stable (c : Cfg) (σ : St) (a : Act) (hi : Inv c σ) (s : Nat)
    (h : Decided σ s) : Decided (step c σ a) s := by
  have hgr := hi.g_run s
  have hga := hi.g_after s
  by_cases hl : a.isLoop = true
  · have := (loop_frame c σ a hl hi s h.1).1
    unfold Decided at *; rw [this]; exact h
  · unfold Decided at *
    cases a with
    | visit _ => simp [Act.isLoop] at hl
    | read => simp [Act.isLoop] at hl
    | decide => simp [Act.isLoop] at hl
    | ret t ok =>
      simp only [step]; split
      · rename_i hg
        split <;> (dsimp only; by_cases hst : s = t <;> simp [upd_apply, hst] <;> simp_all)
      · exact h
    | post t =>
      simp only [step]; split
      · split <;> (dsimp only; by_cases hst : s = t <;> simp [upd_apply, hst] <;> simp_all)
      · exact h
    | cancel => exact h

/-! ### cancelled runs -/

/-- once cancelled (by the caller or by a condition that cannot be evaluated) the loop starts no
further pass: it exits at its next test -/
theorem C03_cancelled_loop_exits (c : Cfg) (n f : Nat) (σ : St) (h : σ.cancelled = true) :
    passes c n f σ = σ := by
  cases f with
  | zero => rfl
  | succ f => simp [passes, h]

/-- a condition error cancels the run -/
theorem C03_condition_error_cancels (c : Cfg) (σ : St) (s : Nat) (hidle : σ.pc = .idle)
    (hw : σ.status s = .waiting) (he : c.cond s = .err) :
    (step c σ (.visit s)).cancelled = true ∧ (step c σ (.visit s)).status s = .error := by
  simp [step, hidle, hw, he]

/-! ### termination under a fair schedule -/

/-- the total weight never increases along any interleaving -/
theorem C03_total_weight_mono (c : Cfg) (n : Nat) (σ : St) (hi : Inv c σ) (as : List Act) :
    totalW n (run c σ as) ≤ totalW n σ :=
  sum_map_le (fun s _ => weight_run_le c as σ hi s)

/-- **progress from every reachable state**: acyclic configuration over the stages `0 … n-1`, any
interleaving `as` so far that left the loop between two passes, run not over: one fair round (all
tasks in flight return, the loop makes one pass) strictly decreases the total weight. -/
theorem C03_round_decreases (c : Cfg) (rank : Nat → Nat) (hac : Acyclic c rank) (n : Nat)
    (hclosed : ∀ s, s < n → ∀ d ∈ c.deps s, d < n) (okf : Nat → Bool) (as : List Act)
    (hidle : (run c init as).pc = .idle) (hnd : isDone n (run c init as) = false) :
    totalW n (round c okf n (run c init as)) < totalW n (run c init as) :=
  round_totalW_lt c rank hac n hclosed okf _ (inv_run c as) hidle hnd

/-- **C03 (termination)**: under the fair schedule the `for !isDone` loop exits within `3n + 1`
rounds, for every acyclic configuration, every outcome assignment, conditions of every kind
(a condition that cannot be evaluated cancels the run, which also ends the loop). -/
theorem C03_fair_terminates (c : Cfg) (rank : Nat → Nat) (hac : Acyclic c rank) (n : Nat)
    (hclosed : ∀ s, s < n → ∀ d ∈ c.deps s, d < n) (okf : Nat → Bool) :
    isDone n (rounds c okf n (3 * n + 1) init) = true ∨
      (rounds c okf n (3 * n + 1) init).cancelled = true := by
  have key : ∀ k σ, Inv c σ → σ.pc = .idle → totalW n σ < k →
      isDone n (rounds c okf n k σ) = true ∨ (rounds c okf n k σ).cancelled = true := by
    intro k
    induction k with
    | zero => intro σ _ _ h; omega
    | succ k ih =>
      intro σ hi hidle hk
      simp only [rounds]
      split
      · rename_i h
        simpa using h
      · rename_i h
        have hnd : isDone n σ = false := by
          cases hd : isDone n σ
          · rfl
          · simp [hd] at h
        have hlt := round_totalW_lt c rank hac n hclosed okf σ hi hidle hnd
        exact ih _ (round_inv c okf n σ hi) (round_idle c okf n σ hi hidle) (by omega)
  exact key _ init (inv_init c) rfl (by rw [totalW_init]; omega)

/-- the state the fair schedule ends in is reached by an ordinary interleaving of the model -/
theorem C03_fair_is_interleaving (c : Cfg) (okf : Nat → Bool) (n k : Nat) :
    ∃ as, rounds c okf n k init = run c init as ∧ ∀ a ∈ as, Respects okf a :=
  let ⟨as, h, hp⟩ := rounds_is_run c okf n k init
  ⟨as, h, fun a ha => (hp a ha).1⟩

/-- **C03 and C02 together, closed**: for every acyclic configuration over the stages `0 … n-1`
whose conditions can be evaluated and every assignment of outcomes, the fair run — followed by the
`wg.Wait()` of `Schedule` (every goroutine finishes) — ends: no stage is left waiting or running,
and every stage has exactly the status `final` prescribes.  No hypothesis about the state is left:
this is a statement about `init`. -/
theorem C03_fair_run_final (c : Cfg) (rank : Nat → Nat) (hac : Acyclic c rank) (n : Nat)
    (hclosed : ∀ s, s < n → ∀ d ∈ c.deps s, d < n) (okf : Nat → Bool)
    (hne : ∀ s, c.cond s ≠ .err) :
    Terminal n (run c (fairFinal c okf n) (drainActs okf n)) ∧
    ∀ s, s < n → (run c (fairFinal c okf n) (drainActs okf n)).status s = final c okf rank s := by
  obtain ⟨as, has, hp⟩ := rounds_is_run c okf n (3 * n + 1) init
  have hτ : fairFinal c okf n = run c init as := has
  -- the loop has exited because every stage is decided, not because of a cancellation
  have hnc : (fairFinal c okf n).cancelled = false := by
    rw [hτ, cancelled_run c hne as init (fun a ha => (hp a ha).2)]; rfl
  have hdone : isDone n (fairFinal c okf n) = true := by
    rcases C03_fair_terminates c rank hac n hclosed okf with h | h
    · exact h
    · unfold fairFinal at hnc; rw [hnc] at h; cases h
  have hst := isDone_settled n _ hdone
  obtain ⟨d1, d2⟩ := drain_settles c okf (List.range n) (fairFinal c okf n)
  have hterm : Terminal n (run c (fairFinal c okf n) (drainActs okf n)) := by
    intro s hs
    have hg := d1 s (.inl (List.mem_range.mpr hs))
    have hw := d2 s
    exact ⟨fun h => (hst s hs).1 (hw.1 h), fun h => (hst s hs).2 (hw.2 h), hg.2⟩
  refine ⟨hterm, ?_⟩
  have hrun : run c (fairFinal c okf n) (drainActs okf n) = run c init (as ++ drainActs okf n) := by
    rw [run_append, ← hτ]
  rw [hrun] at hterm ⊢
  exact C02_final c okf rank hac hne (as ++ drainActs okf n)
    (fun a ha => by
      rcases List.mem_append.mp ha with h | h
      · exact (hp a h).1
      · exact (drainActs_props okf n a h).1) n hterm

/-! ## Non-vacuity -/
example : ∃ s, s < 4 ∧ (run exCfg2 init []).status s = .waiting ∧
    (pass exCfg2 (run exCfg2 init []) (List.range 4)).status s ≠ .waiting :=
  by refine ⟨0, ?_, ?_, ?_⟩ <;> decide

-- the fair schedule on the diamond with a failing stage: hypotheses hold, the loop really needs
-- several rounds, and it ends done (not cancelled)
example : ∀ s, s < 4 → ∀ d ∈ exCfg2.deps s, d < 4 := by decide
example : isDone 4 (rounds exCfg2 exOk 4 1 init) = false ∧ isDone 4 (rounds exCfg2 exOk 4 2 init) = false ∧
    isDone 4 (rounds exCfg2 exOk 4 13 init) = true ∧ (rounds exCfg2 exOk 4 13 init).cancelled = false ∧
    (rounds exCfg2 exOk 4 13 init).status 3 = .canceled ∧ (rounds exCfg2 exOk 4 13 init).status 2 = .done := by
  decide

/-! ## Every pipeline of a tree of nested pipelines (`Model/Tree.lean`) -/

/-- whatever holds initially and is preserved by every scheduler step holds, at every moment, in
every pipeline of a tree of nested pipelines: a tree step is a scheduler step of one pipeline -/
theorem tree_transfer (T : TCfg) (P : Cfg → St → Prop) (h0 : ∀ c, P c init)
    (hstep : ∀ c σ a, P c σ → P c (step c σ a)) (xs : List TAct) (p : Path) :
    P (T.cfg p) (trun T tinit xs p) := by
  suffices ∀ σ : TSt, (∀ p, P (T.cfg p) (σ p)) → ∀ p, P (T.cfg p) (trun T σ xs p) from
    this tinit (fun p => h0 _) p
  induction xs with
  | nil => intro σ h p; exact h p
  | cons x xs ih =>
    intro σ h p
    refine ih (tstep T σ x) (fun q => ?_) p
    rcases tstep_cases T σ x with he | ⟨_, a, he⟩ <;> rw [he]
    · exact h q
    · unfold tset
      split
      · rename_i hq; subst hq; exact hstep _ _ a (h _)
      · exact h q

/-- **C03 at every depth of nesting**: under every interleaving of all the schedulers of a tree of
nested pipelines, no stage of any pipeline is started twice -/
theorem C03_once_tree (T : TCfg) (xs : List TAct) (p : Path) (s : Nat) :
    (trun T tinit xs p).starts s ≤ 1 ∧
      ((trun T tinit xs p).starts s = 1 ↔ (trun T tinit xs p).g s ≠ .none) := by
  have h := tree_transfer T (fun c σ => Inv c σ ∧ OnceInv σ)
    (fun c => ⟨inv_init c, by intro s; simp [init]⟩)
    (fun c σ a h => ⟨inv_step c σ a h.1, once_step c σ a h.1 h.2⟩) xs p
  have := h.2 s
  constructor
  · rw [this]; split <;> omega
  · rw [this]; split <;> simp_all

end Sched

/-! ## Several loops over one graph (a pipeline included by several stages) — `Model/SchedMulti.lean` -/
namespace SchedMulti
open Sched

/-- with the compare-and-swap: a stage that is not waiting has been started exactly once or never, a
waiting stage never; hence at most once -/
def MInv (σ : MSt) : Prop :=
  ∀ s, (σ.status s = .waiting → σ.starts s = 0) ∧ σ.starts s ≤ 1

theorem minv_step (σ : MSt) (a : MAct) (h : MInv σ) : MInv (mstep true σ a) := by
  intro s
  have hs := h s
  cases a with
  | visit l t => simp only [mstep]; split <;> exact hs
  | giveUp l => exact hs
  | start l =>
    simp only [mstep]
    split
    · exact hs
    · rename_i t hpc
      split
      · exact hs
      · rename_i hc
        have hw : σ.status t = .waiting := by
          cases hst : σ.status t <;> simp_all
        have ht := h t
        by_cases hst : s = t
        · subst hst; simp [ht.1 hw]
        · simp [upd_apply, hst]; exact hs
  | ret t ok =>
    simp only [mstep]
    split
    · split <;> (by_cases hst : s = t
                 · subst hst; simp [upd_apply]; exact hs.2
                 · simp [upd_apply, hst]; exact hs)
    · exact hs
  | post t =>
    simp only [mstep]
    split
    · by_cases hst : s = t
      · subst hst; simp [upd_apply]; exact hs.2
      · simp [upd_apply, hst]; exact hs
    · exact hs

/-- **C03 with several loops over one graph (repaired code)**: whatever the number of loops, the
dependency structure, the conditions and the interleaving, no stage is started twice. -/
theorem C03_once_multi (as : List MAct) (s : Nat) : (mrun true minit as).starts s ≤ 1 := by
  suffices ∀ σ, MInv σ → MInv (mrun true σ as) from
    (this minit (fun _ => ⟨fun _ => rfl, Nat.zero_le _⟩) s).2
  induction as with
  | nil => intro σ h; exact h
  | cons a as ih => intro σ h; exact ih _ (minv_step σ a h)

/-- the code before fix 6c07174: two loops that both read stage 0 as waiting both start it -/
theorem C03_witness_old_two_loops :
    (mrun false minit [.visit 0 0, .visit 1 0, .start 0, .start 1]).starts 0 = 2 := by decide

/-- … and the same interleaving under the compare-and-swap starts it once -/
theorem C03_witness_cas_two_loops :
    (mrun true minit [.visit 0 0, .visit 1 0, .start 0, .start 1]).starts 0 = 1 := by decide

end SchedMulti

/-! ## Several loops over one graph, in full (`Model/SchedLoops.lean`) -/
namespace SchedLoops
open Sched

/-- what the compare-and-swap step does to the start counters and goroutine states -/
theorem ldecide_cases (c : Cfg) (σ : LSt) (l : Nat) :
    ((lstep c σ (.decide l)).starts = σ.starts ∧ (lstep c σ (.decide l)).g = σ.g) ∨
    ∃ t, σ.status t = .waiting ∧ (lstep c σ (.decide l)).starts = upd σ.starts t (σ.starts t + 1) ∧
      (lstep c σ (.decide l)).g = upd σ.g t .inRun := by
  simp only [lstep]
  split
  · rename_i t ready hpc
    split
    · rename_i hc
      right
      refine ⟨t, ?_, rfl, rfl⟩
      simp only [Bool.and_eq_true, beq_iff_eq] at hc
      exact hc.2
    · exact .inl ⟨rfl, rfl⟩
  · exact .inl ⟨rfl, rfl⟩

def LOnce (σ : LSt) : Prop := ∀ s, σ.starts s = if σ.g s = .none then 0 else 1

theorem lonce_step (c : Cfg) (σ : LSt) (a : LAct) (hi : LInv c σ) (h : LOnce σ) : LOnce (lstep c σ a) := by
  intro s
  have hs := h s
  obtain ⟨g_none, g_run, run_g, g_after, g_fin, started, skip_c, err_c, chk⟩ := hi
  cases a with
  | visit l t =>
    have e1 : (lstep c σ (.visit l t)).starts = σ.starts := by
      simp only [lstep]; repeat' split
      all_goals rfl
    have e2 : (lstep c σ (.visit l t)).g = σ.g := by
      simp only [lstep]; repeat' split
      all_goals rfl
    rw [e1, e2]; exact hs
  | read l =>
    have e1 : (lstep c σ (.read l)).starts = σ.starts := by
      simp only [lstep]; repeat' split
      all_goals rfl
    have e2 : (lstep c σ (.read l)).g = σ.g := by
      simp only [lstep]; repeat' split
      all_goals rfl
    rw [e1, e2]; exact hs
  | decide l =>
    rcases ldecide_cases c σ l with he | ⟨t, hw, he⟩
    · rw [he.1, he.2]; exact hs
    · have hg : σ.g t = .none := by
        have := lgcases σ t
        have h1 := g_run t
        have h2 := g_after t
        have h3 := g_fin t
        grind
      have ht := h t
      rw [he.1, he.2]
      by_cases hst : s = t
      · subst hst; simp [upd_apply, ht, hg]
      · simp [upd_apply, hst]; exact hs
  | ret t ok =>
    simp only [lstep]
    split
    · split <;> (by_cases hst : s = t
                 · subst hst; simp_all [upd_apply]
                 · simp [upd_apply, hst]; exact hs)
    · exact hs
  | post t =>
    simp only [lstep]
    split
    · split <;> (by_cases hst : s = t
                 · subst hst; simp_all [upd_apply]
                 · simp [upd_apply, hst]; exact hs)
    · exact hs
  | cancel => exact hs

/-- **C03 with several loops over one graph, in the full model**: every loop with its own condition
evaluations and dependency reads, any interleaving - no stage is started twice, and it has been
started once exactly when its goroutine exists -/
theorem C03_loops_once (c : Cfg) (as : List LAct) (s : Nat) :
    (lrun c linit as).starts s ≤ 1 ∧
      ((lrun c linit as).starts s = 1 ↔ (lrun c linit as).g s ≠ .none) := by
  have key : LOnce (lrun c linit as) := by
    suffices ∀ σ, LInv c σ → LOnce σ → LOnce (lrun c σ as) from
      this _ (linv_init c) (by intro s; simp [linit])
    induction as with
    | nil => intro σ _ h; exact h
    | cons a as ih => intro σ h1 h2; exact ih _ (linv_step c σ a h1) (lonce_step c σ a h1 h2)
  have := key s
  constructor
  · rw [this]; split <;> omega
  · rw [this]; split <;> simp_all

end SchedLoops

