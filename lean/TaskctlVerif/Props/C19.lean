import TaskctlVerif.Proofs.Output
import TaskctlVerif.Proofs.CockpitLocks
/-!
# C19 — output decoration never loses or mixes task output; format is presentation only

Model: `Model/Output.lean`.  `strip` (ANSI removal, a regular expression) is a parameter; the
statement *with* ANSI removal is proved under the hypothesis that `strip` is the identity on the
task's bytes — which is the case when the stream contains no escape introducer.  The general case
is **not** proved and is false of the implementation when a write boundary falls inside an escape
sequence (known finding `c19-ansi-split-by-write`; it cannot be repaired without buffering
unterminated output, which the existing suite forbids).
-/
namespace Out

/-- **raw output forwards a task's bytes unchanged and in order** -/
theorem C19_raw_identity (chunks : List Bytes) : (rawCalls chunks).flatten = chunks.flatten := rfl

/-- **nothing lost, duplicated or reordered, for every chunking** (modulo line terminators): the
concatenation of everything handed to the line writer equals the stream once CR and LF are removed
on both sides — for EVERY splitting of EVERY stream into write calls. -/
theorem C19_no_loss (chunks : List Bytes) :
    N ((chunks.flatMap tokens).flatten) = N chunks.flatten := by
  induction chunks with
  | nil => rfl
  | cons c cs ih => simp [List.flatMap_cons, N_append, N_tokens, ih]

theorem dropCR_no_LF (t : Bytes) (h : LF ∉ t) : LF ∉ dropCR t := by
  unfold dropCR
  split
  · intro hm; exact h ((List.dropLast_sublist t).subset hm)
  · exact h

theorem tokens_no_LF (chunk : Bytes) : ∀ t ∈ tokens chunk, LF ∉ t := by
  intro t ht
  unfold tokens at ht
  rw [List.mem_filter, List.mem_map] at ht
  obtain ⟨⟨t0, ht0, rfl⟩, _⟩ := ht
  exact dropCR_no_LF t0 (splitLF_no_LF [] chunk (by simp) t0 ht0)

/-- **prefixed output emits whole lines, each carrying exactly one task's name**: every sink call
is `prefix name ++ payload ++ CR LF` where the payload is (the ANSI-stripped form of) a piece of
that task's output containing no line feed -/
theorem C19_whole_lines (strip : Bytes → Bytes) (name : Bytes) (chunks : List Bytes) :
    ∀ c ∈ prefixedCalls strip name chunks,
      ∃ tok, LF ∉ tok ∧ tok ≠ [] ∧ c = prefixOf name ++ strip tok ++ [CR, LF] := by
  intro c hc
  unfold prefixedCalls at hc
  rw [List.mem_map] at hc
  obtain ⟨tok, htok, rfl⟩ := hc
  rw [List.mem_flatMap] at htok
  obtain ⟨chunk, _, ht⟩ := htok
  refine ⟨tok, tokens_no_LF chunk tok ht, ?_, rfl⟩
  unfold tokens at ht
  rw [List.mem_filter] at ht
  simpa using ht.2

theorem append_esc_cancel (a b x y : Bytes) (ha : ESC ∉ a) (hb : ESC ∉ b)
    (h : a ++ ESC :: x = b ++ ESC :: y) : a = b ∧ x = y := by
  induction a generalizing b with
  | nil =>
    cases b with
    | nil => simp at h; exact ⟨rfl, h⟩
    | cons c cs =>
      simp only [List.nil_append, List.cons_append, List.cons.injEq] at h
      exact absurd (h.1 ▸ List.mem_cons_self) hb
  | cons c cs ih =>
    cases b with
    | nil =>
      simp only [List.nil_append, List.cons_append, List.cons.injEq] at h
      exact absurd (h.1 ▸ List.mem_cons_self) ha
    | cons d ds =>
      simp only [List.cons_append, List.cons.injEq] at h
      have := ih ds (fun hm => ha (List.mem_cons_of_mem _ hm)) (fun hm => hb (List.mem_cons_of_mem _ hm)) h.2
      exact ⟨by rw [h.1, this.1], this.2⟩

/-- the prefix identifies the task: a call of task `n₂` starts with the prefix of `n₁` only if the
names are equal — a call's task can be read off its bytes -/
theorem C19_prefix_identifies_task (strip : Bytes → Bytes) (n₁ n₂ t₂ : Bytes)
    (h₁ : ESC ∉ n₁) (h₂ : ESC ∉ n₂) (h : prefixOf n₁ <+: lineCall strip n₂ t₂) : n₁ = n₂ := by
  obtain ⟨r, hr⟩ := h
  unfold lineCall prefixOf at hr
  simp only [List.cons_append, List.nil_append, List.cons.injEq, true_and, List.append_assoc] at hr
  exact (append_esc_cancel n₁ n₂ _ _ h₁ h₂ hr).1

/-- **nothing is attributed to another task, under any interleaving of concurrent tasks**: let the
sink log be any list of tagged calls whose projection to each task is that task's own call sequence
(every interleaving has this form).  Then, for every task, the calls that *carry its name* (start
with its prefix) are exactly its own, in order — so `C19_no_loss` applies per task. -/
theorem C19_no_mixing (strip : Bytes → Bytes) (names : Nat → Bytes) (hESC : ∀ i, ESC ∉ names i)
    (hinj : ∀ i j, names i = names j → i = j) (chunksOf : Nat → List Bytes)
    (log : List (Nat × Bytes))
    (hlog : ∀ i, (log.filter (fun e => e.1 == i)).map (·.2) = prefixedCalls strip (names i) (chunksOf i))
    (hwf : ∀ e ∈ log, ∃ tok, e.2 = lineCall strip (names e.1) tok) (i : Nat) :
    (log.filter (fun e => (prefixOf (names i)).isPrefixOf e.2)).map (·.2)
      = prefixedCalls strip (names i) (chunksOf i) := by
  rw [← hlog i]
  congr 1
  apply List.filter_congr
  intro e he
  obtain ⟨tok, htok⟩ := hwf e he
  by_cases hei : e.1 = i
  · subst hei
    simp only [beq_self_eq_true]
    rw [List.isPrefixOf_iff_prefix, htok]
    exact ⟨strip tok ++ [CR, LF], by simp [lineCall, List.append_assoc]⟩
  · have : (e.1 == i) = false := by simpa using hei
    rw [this]
    cases hp : (prefixOf (names i)).isPrefixOf e.2 with
    | false => rfl
    | true =>
      exfalso
      rw [List.isPrefixOf_iff_prefix, htok] at hp
      exact hei (hinj _ _ (C19_prefix_identifies_task strip _ _ _ (hESC _) (hESC _) hp)).symm

/-- **the full statement, with ANSI removal, for streams on which `strip` acts as the identity**
(no escape introducer in the stream): removing prefixes, line terminators and ANSI sequences from
what was emitted for a task yields exactly its output with line terminators and ANSI sequences
removed. -/
theorem C19_ansi_partial (strip : Bytes → Bytes) (chunks : List Bytes)
    (hid : ∀ tok ∈ chunks.flatMap tokens, strip tok = tok) (hid' : strip chunks.flatten = chunks.flatten) :
    N (((chunks.flatMap tokens).map strip).flatten) = N (strip chunks.flatten) := by
  have : (chunks.flatMap tokens).map strip = chunks.flatMap tokens := by
    conv => rhs; rw [← List.map_id (chunks.flatMap tokens)]
    apply List.map_congr_left
    intro t ht; simp [hid t ht]
  rw [this, hid', C19_no_loss]

/-- **no task outcome makes the cockpit crash**: `remove` is safe for any sequence of `add`/`remove`,
including `remove` of a task that was never added (skipped, or failing before its output started) -/
theorem C19_cockpit_total (σ : Cockpit) (as : List CAct) : crun cstep σ as = .ok := by
  induction as generalizing σ with
  | nil => rfl
  | cons a as ih => cases a <;> simp [crun, cstep, ih]

/-- one action that is not `close`, from an open cockpit: the cockpit stays open, and printed ++ queued
grows by exactly what the action makes due -/
theorem cp_step_conserves (σ : CP) (a : CPAct) (hc : σ.closed = false) (ha : a ≠ .close) :
    (cpStep σ a).closed = false ∧ (cpStep σ a).spinner = nextSp σ.spinner a ∧
    (cpStep σ a).printed ++ (cpStep σ a).queue = σ.printed ++ σ.queue ++ dueOf σ.spinner a := by
  cases a with
  | add t => simp [cpStep, nextSp, dueOf, hc]
  | remove t =>
    cases hs : σ.spinner <;> simp [cpStep, nextSp, dueOf, hc, hs]
  | frame => simp [cpStep, nextSp, dueOf, hc]
  | close => exact absurd rfl ha

theorem cp_run_conserves (as : List CPAct) : ∀ σ, σ.closed = false → (∀ a ∈ as, a ≠ .close) →
    (cpRun σ as).closed = false ∧
    (cpRun σ as).printed ++ (cpRun σ as).queue = σ.printed ++ σ.queue ++ cpDue σ.spinner as := by
  induction as with
  | nil => intro σ hc _; simp [cpRun, cpDue, hc]
  | cons a as ih =>
    intro σ hc h
    obtain ⟨h1, h2, h3⟩ := cp_step_conserves σ a hc (h a List.mem_cons_self)
    obtain ⟨i1, i2⟩ := ih (cpStep σ a) h1 (fun b hb => h b (List.mem_cons_of_mem _ hb))
    refine ⟨by simpa [cpRun] using i1, ?_⟩
    simp only [cpRun, List.foldl_cons] at i2 ⊢
    rw [i2, h3, h2]
    simp [cpDue, List.append_assoc]

/-- **C19 (cockpit, repaired)**: when the cockpit is closed at the end of the run, the "Finished" line
of every task that finished while the indicator existed has been printed exactly once, in the order
in which the tasks finished, and nothing is left queued — for every sequence of starts, finishes and
frames (no line depends on a frame happening to be drawn in time). -/
theorem C19_cockpit_delivers (as : List CPAct) (h : ∀ a ∈ as, a ≠ .close) :
    (cpRun cpInit (as ++ [.close])).printed = cpDue false as ∧
    (cpRun cpInit (as ++ [.close])).queue = [] := by
  obtain ⟨h1, h2⟩ := cp_run_conserves as cpInit rfl h
  simp only [cpRun, List.foldl_append, List.foldl_cons, List.foldl_nil] at h1 h2 ⊢
  simp only [cpStep, h1]
  have h3 : (List.foldl cpStep cpInit as).printed ++ (List.foldl cpStep cpInit as).queue = cpDue false as := by
    rw [h2]; simp [cpInit]
  exact ⟨by simpa using h3, rfl⟩

example : (cpRun cpInit [.remove 7, .add 1, .add 2, .remove 2, .frame, .remove 1, .close]).printed = [2, 1] := by decide
example : cpDue false [.remove 7, .add 1, .add 2, .remove 2, .frame, .remove 1] = [2, 1] := by decide

/-- regression witness for defect D11 (fixed) -/
theorem C19_witness_old_cockpit_skipped : crun cstepOld ⟨false, []⟩ [.remove 0] = .panic := by decide

/-! ## Non-vacuity -/
example : tokens [97, 13, 10, 98, 10, 10, 99] = [[97], [98], [99]] := by decide
example : (prefixedCalls id [119] [[97, 10, 98], [99, 10]]).length = 3 := by decide

end Out

/-! ## "no task outcome makes the output layer hang": the two locks of the cockpit -/
namespace CockpitLocks

/-- **whoever holds the cockpit's lock can always take its next step** - it never waits for the spinner's lock (nor for
anything else) while holding it, in every state reachable under any interleaving of the redraw goroutine, any number
of adds / removes / waits, the first add and the closing goroutine -/
theorem C19_cockpit_lock_holder_moves (os : List Owner) (o : Owner) (h : (run init os).b = some o) :
    (next (run init os) o).isSome = true := by
  have hi := inv_run os init inv_init
  obtain ⟨_, _, _, _, bR, bC, bA, bF⟩ := hi
  cases o with
  | redraw => have := bR.mp h; simp [next, this]
  | closer => have := bC.mp h; simp [next, this]
  | adder => have := bA.mp h; simp [next, this]
  | fin i => have := (bF i).mp h; simp [next, this]

/-- with the cockpit's lock free, whoever holds the spinner's lock can take its next step -/
theorem spinner_holder_moves (σ : St) (hi : Inv σ) (o : Owner) (hs : σ.s = some o) (hb : σ.b = none) :
    (next σ o).isSome = true := by
  obtain ⟨sR, sC, sA, sF, bR, bC, bA, bF⟩ := hi
  cases o with
  | redraw =>
    have hr := sR.mp hs
    have hd : σ.r ≠ .drain := fun h => by have := bR.mpr h; rw [hb] at this; cases this
    cases h : σ.r <;> simp_all [next]
  | closer => have := sC.mp hs; simp [next, this]
  | adder => have := sA.mp hs; simp [next, this]
  | fin i => exact absurd hs (sF i)

/-- **No deadlock**: in every reachable state in which an add, a remove, a wait or the closing goroutine has not
finished, some thread can take a step. A task that finishes - whatever its outcome - while the indicator is being
redrawn is never stuck behind it, and neither is `Close`. -/
theorem C19_cockpit_no_deadlock (os : List Owner) (n : Nat) (hp : pending (run init os) n) :
    ∃ o, (next (run init os) o).isSome = true := by
  have hi := inv_run os init inv_init
  generalize run init os = σ at hi hp
  cases hb : σ.b with
  | some o =>
    -- the holder of B moves
    obtain ⟨_, _, _, _, bR, bC, bA, bF⟩ := hi
    refine ⟨o, ?_⟩
    cases o with
    | redraw => have := bR.mp hb; simp [next, this]
    | closer => have := bC.mp hb; simp [next, this]
    | adder => have := bA.mp hb; simp [next, this]
    | fin i => have := (bF i).mp hb; simp [next, this]
  | none =>
    cases hs : σ.s with
    | some o => exact ⟨o, spinner_holder_moves σ hi o hs hb⟩
    | none =>
      -- both locks free: a pending thread is at a point where it can go on
      obtain ⟨sR, sC, sA, sF, bR, bC, bA, bF⟩ := hi
      rcases hp with hc | ha | ⟨i, _, hf⟩
      · refine ⟨.closer, ?_⟩
        have h1 : σ.closer ≠ .inS := fun h => by have := sC.mpr h; rw [hs] at this; cases this
        have h2 : σ.closer ≠ .inB := fun h => by have := bC.mpr h; rw [hb] at this; cases this
        cases h : σ.closer <;> simp_all [next]
      · refine ⟨.adder, ?_⟩
        have h1 : σ.adder ≠ .inS := fun h => by have := sA.mpr h; rw [hs] at this; cases this
        have h2 : σ.adder ≠ .inB := fun h => by have := bA.mpr h; rw [hb] at this; cases this
        cases h : σ.adder <;> simp_all [next]
      · refine ⟨.fin i, ?_⟩
        have h2 : σ.fin i ≠ .inB := fun h => by have := (bF i).mpr h; rw [hb] at this; cases this
        cases h : σ.fin i <;> simp_all [next]

/-- a finishing task needs the cockpit's lock only: with the redraw goroutine stopped anywhere in its erase (holding
the spinner's lock, the terminal not answering), a task that finishes goes through -/
theorem C19_finish_during_erase (σ : St) (i : Nat) (hr : σ.r = .erase ∨ σ.r = .wantB) (hb : σ.b = none)
    (hf : σ.fin i = .start) :
    ∃ σ₁ σ₂, next σ (.fin i) = some σ₁ ∧ next σ₁ (.fin i) = some σ₂ ∧ σ₂.fin i = .done ∧ σ₂.r = σ.r := by
  refine ⟨{ σ with b := some (.fin i), fin := upd σ.fin i .inB },
          { σ with b := none, fin := upd (upd σ.fin i .inB) i .done }, ?_, ?_, ?_, ?_⟩
  · simp [next, hf, hb]
  · simp [next, upd]
  · simp [upd]
  · rfl

/-- the seeded variant (a finished task prints / recolours through the spinner while it holds the cockpit's lock):
the redraw goroutine has erased and wants the cockpit's lock, the task holds it and wants the spinner's - neither moves -/
theorem C19_witness_finish_through_spinner_deadlocks :
    let σ := runBad ⟨none, none, .idle, .start⟩ [.redraw, .redraw, .fin 0]
    nextBad σ .redraw = none ∧ nextBad σ (.fin 0) = none ∧ σ.f ≠ .done := by
  decide

-- non-vacuity: a run in which a task finishes during a redraw and the layer is closed; everybody ends, the locks are free
example : let σ := run init [.adder, .adder, .adder, .adder, .redraw, .fin 0, .redraw, .fin 0, .redraw, .redraw, .redraw,
    .closer, .closer, .closer, .closer]
    σ.fin 0 = .done ∧ σ.closer = .done ∧ σ.adder = .done ∧ σ.s = none ∧ σ.b = none := by decide
example : pending (run init [.adder, .redraw]) 1 := Or.inl (by decide)

end CockpitLocks
