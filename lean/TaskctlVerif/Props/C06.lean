import TaskctlVerif.Proofs.Runner
/-!
# C06 — commands of a task run one at a time, in order, and stop at the first failure

Model: `Model/Runner.lean` (`runTask`).  The trace is the list of commands that *began* executing,
in order; sequentiality is by construction in the model (one command at a time) and is what the
correspondence run checks on the implementation.  All theorems hold for every task: any number of
commands, variations, hooks, any exit statuses.
-/
namespace Runner

def condOk (t : TaskSpec) : Prop := t.cond = none ∨ t.cond = some (.exit 0#8)
def condToks (t : TaskSpec) : List Tok := if t.cond.isSome then [Tok.cond] else []
def beforeToks (t : TaskSpec) : List Tok := (List.range t.before.length).map Tok.before

theorem runTask_of_condOk (t : TaskSpec) (h : condOk t) : runTask t = runTask.body t (condToks t) := by
  rcases h with h | h <;> simp [runTask, h, condToks, CmdResult.began]

/-- **first failure ends the task**: without allow_failure, if the condition (if any) holds, every
`before` command succeeds, the jobs `pre` succeed and job `(v, j)` does not, then exactly
`condition, before…, pre…, (v, j)` ran — no later command, no `after` — and the task is errored. -/
theorem C06_first_failure (t : TaskSpec) (pre post : List (Nat × Nat)) (v j : Nat)
    (hallow : t.allow = false) (hc : condOk t) (hb : ∀ r ∈ t.before, r.ok = true)
    (hjobs : jobs t = pre ++ (v, j) :: post)
    (hpre : ∀ p ∈ pre, (t.res p.1 p.2).ok = true) (hfail : (t.res v j).ok = false) :
    (runTask t).trace = condToks t ++ beforeToks t ++ pre.map cmdTok ++
        (if (t.res v j).began then [Tok.cmd v j] else []) ∧
    (runTask t).errored = true ∧ (runTask t).err = true := by
  rw [runTask_of_condOk t hc]
  simp only [runTask.body, runBefore_all_ok 0 t.before hb, hjobs, hallow,
    execute_append_ok false t.res pre _ _ hpre, execute_fail_head t.res v j post _ hfail]
  simp [beforeToks]

/-- **allow_failure runs everything**: if no job ends with a non-exit-status error, every job runs
(variation-major, in order) and then every `after` command. -/
theorem C06_allow_runs_all (t : TaskSpec) (hallow : t.allow = true) (hc : condOk t)
    (hb : ∀ r ∈ t.before, r.ok = true)
    (hexit : ∀ p ∈ jobs t, ∃ n, t.res p.1 p.2 = .exit n) :
    (runTask t).trace = condToks t ++ beforeToks t ++ (jobs t).map cmdTok ++ runAfter 0 t.after ∧
    (runTask t).errored = false ∧ (runTask t).err = false := by
  rw [runTask_of_condOk t hc]
  have hns : ∀ p ∈ jobs t, stops t.allow (t.res p.1 p.2) = false := by
    intro p hp
    obtain ⟨n, hn⟩ := hexit p hp
    simp [stops, hn, hallow]
  have := execute_no_stop t.allow t.res (jobs t) t.initExit hns
  simp only [runTask.body, runBefore_all_ok 0 t.before hb]
  simp [this.1, this.2, beforeToks]

/-- the same without allow_failure when every job succeeds -/
theorem C06_success_runs_all (t : TaskSpec) (hc : condOk t) (hb : ∀ r ∈ t.before, r.ok = true)
    (hok : ∀ p ∈ jobs t, (t.res p.1 p.2).ok = true) :
    (runTask t).trace = condToks t ++ beforeToks t ++ (jobs t).map cmdTok ++ runAfter 0 t.after ∧
    (runTask t).errored = false ∧ (runTask t).err = false := by
  rw [runTask_of_condOk t hc]
  have hns : ∀ p ∈ jobs t, stops t.allow (t.res p.1 p.2) = false := by
    intro p hp
    have := ok_iff.mp (hok p hp)
    simp [stops, this]
  have := execute_no_stop t.allow t.res (jobs t) t.initExit hns
  simp only [runTask.body, runBefore_all_ok 0 t.before hb]
  simp [this.1, this.2, beforeToks]

/-- **a failing `before` prevents all commands** (and all later `before`s and every `after`) -/
theorem C06_before_stops (t : TaskSpec) (pre post : List CmdResult) (r : CmdResult)
    (hc : condOk t) (hbefore : t.before = pre ++ r :: post)
    (hpre : ∀ q ∈ pre, q.ok = true) (hr : r.ok = false) :
    (runTask t).trace = condToks t ++ (List.range pre.length).map Tok.before ++
        (if r.began then [Tok.before pre.length] else []) ∧
    (runTask t).err = true ∧ (∀ v j, Tok.cmd v j ∉ (runTask t).trace) ∧
    (∀ i, Tok.after i ∉ (runTask t).trace) := by
  rw [runTask_of_condOk t hc]
  have hb := runBefore_fail 0 pre r post hpre hr
  simp only [runTask.body, hbefore, hb]
  simp only [Nat.zero_add, if_true, List.append_assoc, true_and]
  refine ⟨?_, ?_⟩
  · intro v j; unfold condToks; split <;> split <;> simp
  · intro i; unfold condToks; split <;> split <;> simp

/-- **a condition that exits non-zero prevents everything and marks the task skipped** -/
theorem C06_condition_skips (t : TaskSpec) (n : BitVec 8) (hn : n ≠ 0#8)
    (hc : t.cond = some (.exit n)) :
    (runTask t).trace = [Tok.cond] ∧ (runTask t).skipped = true ∧ (runTask t).err = false ∧
      (runTask t).errored = false := by
  simp [runTask, hc, hn, CmdResult.began]

/-- a task without a `variations` key behaves as a task with exactly one variation -/
theorem C06_no_variations (t : TaskSpec) (h : t.vars = none) :
    runTask t = runTask { t with vars := some 1 } := by
  have hj : jobs t = jobs { t with vars := some 1 } := by simp [jobs, h]
  simp only [runTask, runTask.body, hj]

/-- the order of the jobs: for each variation in declared order, every command in declared order -/
theorem C06_jobs_order (t : TaskSpec) :
    jobs t = (List.range (t.vars.getD 1)).flatMap (fun v => (List.range t.nCmds).map (fun j => (v, j))) ∧
    (jobs t).length = t.vars.getD 1 * t.nCmds := by
  refine ⟨rfl, ?_⟩
  unfold jobs
  generalize t.vars.getD 1 = k
  induction k with
  | zero => simp
  | succ k ih =>
    rw [List.range_succ, List.flatMap_append, List.length_append, ih]
    simp [Nat.succ_mul]

def isAfter : Tok → Bool
  | .after _ => true
  | _ => false

@[simp] theorem isAfter_after (i : Nat) : isAfter (.after i) = true := rfl
@[simp] theorem isAfter_cond : isAfter .cond = false := rfl
@[simp] theorem isAfter_before (i : Nat) : isAfter (.before i) = false := rfl
@[simp] theorem isAfter_cmd (v j : Nat) : isAfter (.cmd v j) = false := rfl

theorem runAfter_sublist (i : Nat) (as : List CmdResult) :
    (runAfter i as).Sublist ((List.range as.length).map (fun k => Tok.after (i + k))) := by
  induction as generalizing i with
  | nil => simp [runAfter]
  | cons r as ih =>
    rw [List.length_cons, range_shift]
    simp only [runAfter, Nat.add_zero]
    have h1 : (fun k => Tok.after (i + (k + 1))) = (fun k => Tok.after (i + 1 + k)) := by
      funext k; congr 1; omega
    rw [h1]
    split
    · exact List.Sublist.cons₂ _ (ih (i + 1))
    · exact List.Sublist.cons _ (ih (i + 1))

theorem filter_after_runAfter (i : Nat) (as : List CmdResult) :
    (runAfter i as).filter isAfter = runAfter i as := by
  induction as generalizing i with
  | nil => simp [runAfter]
  | cons r as ih =>
    simp only [runAfter]
    split
    · simp only [List.singleton_append, List.filter_cons, isAfter_after, if_true, ih]
    · simp only [List.nil_append, ih]

theorem filter_after_runBefore (i : Nat) (bs : List CmdResult) :
    (runBefore i bs).1.filter isAfter = [] := by
  induction bs generalizing i with
  | nil => simp [runBefore]
  | cons r bs ih =>
    simp only [runBefore]
    split <;> split <;> simp [ih]

theorem filter_after_execute (allow : Bool) (res : Nat → Nat → CmdResult) (js : List (Nat × Nat)) :
    ∀ ec, (execute allow res js ec).1.filter isAfter = [] := by
  induction js with
  | nil => intro ec; simp [execute]
  | cons p js ih =>
    intro ec
    obtain ⟨v, j⟩ := p
    simp only [execute]
    cases res v j with
    | exit n =>
      by_cases hn : n = 0#8
      · subst hn; simp [CmdResult.began, ih]
      · cases allow <;> simp [hn, CmdResult.began, ih]
    | fault => simp [CmdResult.began]
    | norender => simp [CmdResult.began]

theorem filter_after_body (t : TaskSpec) (pre : List Tok) (hpre : pre.filter isAfter = []) :
    (runTask.body t pre).trace.filter isAfter = [] ∨
    (runTask.body t pre).trace.filter isAfter = runAfter 0 t.after := by
  simp only [runTask.body]
  split
  · left; simp [hpre, filter_after_runBefore]
  · split
    · left; simp [hpre, filter_after_runBefore, filter_after_execute]
    · right
      simp [List.filter_append, hpre, filter_after_runBefore, filter_after_execute,
        filter_after_runAfter]

/-- `after` commands run at most once each, in order, and nothing follows them: the `after` part of
the trace is a sub-list of `after 0, after 1, …` -/
theorem C06_after_once (t : TaskSpec) :
    ((runTask t).trace.filter isAfter).Sublist ((List.range t.after.length).map Tok.after) := by
  have h0 := runAfter_sublist 0 t.after
  simp only [Nat.zero_add] at h0
  have key : (runTask t).trace.filter isAfter = [] ∨
      (runTask t).trace.filter isAfter = runAfter 0 t.after := by
    unfold runTask
    cases hc : t.cond with
    | none => exact filter_after_body t [] rfl
    | some c =>
      cases c with
      | exit n =>
        by_cases hn : n = 0#8
        · subst hn
          simp only [BEq.rfl, if_true, CmdResult.began]
          exact filter_after_body t [Tok.cond] (by simp)
        · left; simp [hn, CmdResult.began]
      | fault => left; simp [CmdResult.began]
      | norender => left; simp [CmdResult.began]
  rcases key with h | h
  · rw [h]; exact List.nil_sublist _
  · rw [h]; exact h0

/-! ## Non-vacuity -/
def exTask : TaskSpec :=
  { cond := none, before := [.exit 0#8], nCmds := 2, vars := some 2,
    res := fun v j => if v = 1 ∧ j = 0 then .exit 7#8 else .exit 0#8,
    after := [.exit 0#8], allow := false, initExit := 0 }
example : (runTask exTask).trace = [.before 0, .cmd 0 0, .cmd 0 1, .cmd 1 0] ∧
    (runTask exTask).errored = true := by decide
example : (runTask { exTask with allow := true }).trace =
    [.before 0, .cmd 0 0, .cmd 0 1, .cmd 1 0, .cmd 1 1, .after 0] := by decide

end Runner
