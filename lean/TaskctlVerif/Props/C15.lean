import TaskctlVerif.Model.Loader
/-!
# C15 — loading configuration never crashes  (**partial**: from the parsed tree onwards)

Model: `Model/Loader.lean`.  Proved: on every raw `import` value, every decoded definition with
arbitrary nil entries, and every list of env-file lines, the repaired loader functions end in `ok`
or `err`, never `panic`.  **Not proved**: that the three third-party parsers and
`mapstructure`/`mergo` do not panic on arbitrary bytes, and the bounded running time — both are
exercised by the mutation stream of the correspondence run (a test, labelled as such).
-/
namespace Loader

/-- **(a)** no raw `import` value crashes the loader -/
theorem C15_import_total (v : Value) : importList v ≠ .panic := by
  cases v <;> simp [importList]
  split <;> simp

/-- a single string is a one-element list; a list of strings is taken as it is -/
theorem C15_import_shapes (s : String) (ss : List String) :
    importList (.str s) = .ok [s] ∧ importList (.list (ss.map .str)) = .ok ss := by
  refine ⟨rfl, ?_⟩
  have h1 : (ss.map Value.str).all (fun v => (itemString v).isSome) = true := by
    simp [List.all_eq_true, itemString]
  have h2 : (ss.map Value.str).filterMap itemString = ss := by
    induction ss with
    | nil => rfl
    | cons a as ih => simp [List.filterMap_cons, itemString, ih]
  simp [importList, h1, h2]

/-- **(b)** no definition — with any combination of empty/null entries, missing or malformed
env files, dangling references, `dir` on pipeline stages — crashes the builder -/
theorem C15_build_total (d : ConfigDef) : build d ≠ .panic := by
  unfold build
  split
  · simp
  · split
    · simp
    · split
      · simp
      · split <;> simp

/-- **(c)** no env file crashes the reader -/
theorem C15_envfile_total (ls : List (List Char)) : readEnvLines ls ≠ .panic := by
  induction ls with
  | nil => simp [readEnvLines]
  | cons l rest ih =>
    simp only [readEnvLines]
    split
    · exact ih
    · split
      · split
        · simp
        · cases h : readEnvLines rest with
          | ok m => simp
          | err => simp
          | panic => exact absurd h ih
      · simp

/-- the value of an env-file entry is everything after the first `=` -/
theorem C15_envfile_value (l k v : List Char) (h : splitFirst l = some (k, v)) :
    l = k ++ '=' :: v ∧ '=' ∉ k := by
  induction l generalizing k v with
  | nil => simp [splitFirst] at h
  | cons c rest ih =>
    simp only [splitFirst] at h
    split at h
    · rename_i hc
      simp only [Option.some.injEq, Prod.mk.injEq] at h
      obtain ⟨rfl, rfl⟩ := h
      simp [hc]
    · rename_i hc
      cases hs : splitFirst rest with
      | none => simp [hs] at h
      | some kv =>
        obtain ⟨k', v'⟩ := kv
        simp only [hs, Option.some.injEq, Prod.mk.injEq] at h
        obtain ⟨rfl, rfl⟩ := h
        have := ih k' v' hs
        refine ⟨by rw [this.1]; simp, ?_⟩
        simp only [List.mem_cons, not_or]
        exact ⟨fun e => hc e.symm, this.2⟩

/-! ## Regression witnesses for defect D8 (fixed): each crashing shape of the pre-fix loader -/
theorem C15_witness_old_import_string : importListOld (.str "other.yaml") = .panic := rfl
theorem C15_witness_old_import_null : importListOld .null = .panic := rfl
theorem C15_witness_old_import_item : importListOld (.list [.num 3]) = .panic := by decide
theorem C15_witness_old_empty_task : buildOld { contexts := [], tasks := [none], watchers := [], pipelines := [] } = .panic := by decide
theorem C15_witness_old_empty_stage : buildOld { contexts := [], tasks := [], watchers := [], pipelines := [[none]] } = .panic := by decide
theorem C15_witness_old_empty_context : buildOld { contexts := [none], tasks := [], watchers := [], pipelines := [] } = .panic := by decide
theorem C15_witness_old_missing_envfile :
    buildOld { contexts := [], tasks := [some ⟨.missing⟩], watchers := [], pipelines := [] } = .panic := by decide
theorem C15_witness_old_dir_on_pipeline_stage :
    buildOld { contexts := [], tasks := [], watchers := [], pipelines := [[some ⟨false, true, true⟩]] } = .panic := by decide
theorem C15_witness_old_blank_line : readEnvLinesOld ["A=b".toList, [], "C=d".toList] = .panic := by decide

/-! ## Non-vacuity -/
example : readEnvLines ["A=b=c".toList, "".toList, "# x".toList, "D=".toList] =
    .ok [("A".toList, "b=c".toList), ("D".toList, [])] := by decide
example : build { contexts := [some ()], tasks := [some ⟨.good⟩], watchers := [some true],
                  pipelines := [[some ⟨true, true, true⟩]] } = .ok () := by decide

end Loader
