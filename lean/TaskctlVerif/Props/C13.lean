import TaskctlVerif.Model.Timeout
import TaskctlVerif.Props.C07
/-!
# C13 — a task timeout bounds every one of its commands  (decision logic; **partial**)

Model: `Model/Timeout.lean` over R.  Proved: the decision logic (an overrunning command fails the
task even with allow_failure and nothing after it starts; an overrunning `after` is only cut short;
commands within the timeout are unaffected; the budget is per command, not shared).  **Not proved**
(runtime, bounded by the monitor in the correspondence run): that the interpreter terminates the
overrunning process "shortly afterwards" (SIGINT, SIGKILL after 2 s; known finding: a descendant
that keeps the output pipe open delays the return).
-/
namespace Runner

/-- a command that overruns its timeout yields an error that is not an exit status … -/
theorem C13_overrun_is_fault (t d : Nat) (r : CmdResult) (h : t < d) (hr : r ≠ .norender) :
    cut (some t) d r = .fault := by
  have : ¬ d ≤ t := by omega
  cases r <;> simp_all [cut]

/-- … which stops the task **also when it allows failure** -/
theorem C13_overrun_stops_even_if_allowed (allow : Bool) (t d : Nat) (r : CmdResult) (h : t < d)
    (hr : r ≠ .norender) : stops allow (cut (some t) d r) = true := by
  rw [C13_overrun_is_fault t d r h hr]; rfl

/-- **an overrunning command fails the task and none of its remaining commands start**, with or
without allow_failure: if the jobs `pre` neither fail-stop nor overrun and job `(v, j)` overruns,
the trace ends with `(v, j)`; no `after` runs; the task is errored. -/
theorem C13_overrun_fails (s : TaskSpec) (T : Nat) (D : Durations) (pre post : List (Nat × Nat))
    (v j : Nat) (hc : condOk (timed s (some T) D))
    (hb : ∀ r ∈ (timed s (some T) D).before, r.ok = true)
    (hjobs : jobs s = pre ++ (v, j) :: post)
    (hpre : ∀ p ∈ pre, ((timed s (some T) D).res p.1 p.2).ok = true)
    (hover : T < D.job v j) (hr : s.res v j ≠ .norender) :
    (runTask (timed s (some T) D)).trace =
      condToks (timed s (some T) D) ++ beforeToks (timed s (some T) D) ++ pre.map cmdTok ++ [Tok.cmd v j] ∧
    (runTask (timed s (some T) D)).errored = true ∧ (runTask (timed s (some T) D)).err = true := by
  have hres : (timed s (some T) D).res v j = .fault := C13_overrun_is_fault T _ _ hover hr
  have hj : jobs (timed s (some T) D) = pre ++ (v, j) :: post := hjobs
  rw [runTask_of_condOk _ hc]
  simp only [runTask.body, runBefore_all_ok 0 _ hb, hj,
    execute_append_ok _ _ pre _ _ hpre]
  simp [execute, hres, CmdResult.began, beforeToks]

/-- **commands that finish within the timeout are unaffected**: pointwise, whatever the other
commands did and however much time they used — each command gets the full timeout -/
theorem C13_within_unaffected_cmd (T : Option Nat) (d : Nat) (r : CmdResult)
    (h : ∀ t, T = some t → d ≤ t) : cut T d r = r := by
  cases T with
  | none => rfl
  | some t => simp [cut, h t rfl]

theorem cutList_within (T : Option Nat) (ds : List Nat) (rs : List CmdResult)
    (h : ∀ d ∈ ds, ∀ t, T = some t → d ≤ t) : cutList T ds rs = rs := by
  induction ds generalizing rs with
  | nil => cases rs <;> rfl
  | cons d ds ih =>
    cases rs with
    | nil => rfl
    | cons r rs =>
      simp only [cutList]
      rw [C13_within_unaffected_cmd T d r (h d List.mem_cons_self),
        ih rs (fun d' hd' => h d' (List.mem_cons_of_mem _ hd'))]

/-- if no command overruns, the task behaves exactly as without a timeout -/
theorem C13_within_unaffected (s : TaskSpec) (T : Option Nat) (D : Durations)
    (hc : ∀ t, T = some t → D.cond ≤ t) (hb : ∀ d ∈ D.before, ∀ t, T = some t → d ≤ t)
    (hj : ∀ v j t, T = some t → D.job v j ≤ t) (ha : ∀ d ∈ D.after, ∀ t, T = some t → d ≤ t) :
    timed s T D = s := by
  unfold timed
  have h1 : s.cond.map (cut T D.cond) = s.cond := by
    cases s.cond with
    | none => rfl
    | some c => simp [C13_within_unaffected_cmd T D.cond c hc]
  have h2 := cutList_within T D.before s.before hb
  have h3 : (fun v j => cut T (D.job v j) (s.res v j)) = s.res := by
    funext v j; exact C13_within_unaffected_cmd T _ _ (hj v j)
  have h4 := cutList_within T D.after s.after ha
  rw [h1, h2, h3, h4]

/-- **an overrunning `after` hook is merely cut short**: it still counts as begun, the following
`after` commands still run, and the task's status is not affected -/
theorem C13_after_cut_short (i : Nat) (T d : Nat) (r : CmdResult) (rest : List CmdResult)
    (h : T < d) (hr : r ≠ .norender) :
    runAfter i (cut (some T) d r :: rest) = Tok.after i :: runAfter (i + 1) rest := by
  rw [C13_overrun_is_fault T d r h hr]
  simp [runAfter, CmdResult.began]

/-- the time budget is per command: every command costs at most `T`, so a run of `k` commands
takes at most `k * T` — and no command's budget is reduced by its predecessors -/
theorem C13_time_bound (T : Nat) (ds : List Nat) :
    (ds.map (cost (some T))).sum ≤ ds.length * T := by
  induction ds with
  | nil => simp
  | cons d ds ih =>
    simp only [List.map_cons, List.sum_cons, List.length_cons, cost]
    have : min d T ≤ T := Nat.min_le_right _ _
    rw [Nat.succ_mul]
    omega

/-! ## Non-vacuity: three commands, the second overruns; allow_failure is set -/
def exTimed : TaskSpec :=
  { cond := none, before := [], nCmds := 3, vars := none, res := fun _ _ => .exit 0#8, after := [.exit 0#8],
    allow := true, initExit := 0 }
def exDur : Durations := { cond := 0, before := [], job := fun _ j => if j = 1 then 30000 else 10, after := [5] }
example : (runTask (timed exTimed (some 150) exDur)).trace = [.cmd 0 0, .cmd 0 1] ∧
    (runTask (timed exTimed (some 150) exDur)).errored = true := by decide
example : (runTask (timed exTimed none exDur)).trace = [.cmd 0 0, .cmd 0 1, .cmd 0 2, .after 0] := by decide

end Runner
