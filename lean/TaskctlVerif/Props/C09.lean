import TaskctlVerif.Model.Layers
/-!
# C09 — environment and working directory are layered with a fixed precedence

Model: `Model/Layers.lean`.  Values are an arbitrary type `β`: the precedence theorems hold
**regardless of the values involved** (no ordering hypothesis) — which is exactly what failed before
the `fix:` commit (`C09_witness_old_value_order_decides`).
-/
namespace Layers
variable {β : Type}

theorem get_merge (lo hi : Env β) (k : String) : get (merge lo hi) k = (get hi k).or (get lo k) := by
  simp [get, merge, List.lookup_append]

theorem get_withKey (e : Env β) (k k' : String) (v : β) :
    get (withKey e k' v) k = if k = k' then some v else get e k := by
  simp only [get, withKey, List.lookup_cons]
  by_cases h : k = k'
  · simp [h]
  · have : (k == k') = false := by simpa using h
    simp [this, h]

theorem lookup_filter_isNone (parent job : Env β) (k : String) (h : job.lookup k = none) :
    (parent.filter (fun p => (job.lookup p.1).isNone)).lookup k = parent.lookup k := by
  induction parent with
  | nil => rfl
  | cons p ps ih =>
    obtain ⟨pk, pv⟩ := p
    simp only [List.filter_cons]
    by_cases hk : k = pk
    · subst hk; simp [h, List.lookup_cons]
    · have hb : (k == pk) = false := by simpa using hk
      split
      · simp [List.lookup_cons, hb, ih]
      · simp [List.lookup_cons, hb, ih]

/-- the process sees the job's value for every name the job defines, the inherited one otherwise -/
theorem get_procEnv (parent job : Env β) (k : String) :
    get (procEnv parent job) k = (get job k).or (get parent k) := by
  simp only [get, procEnv, List.lookup_append]
  cases h : job.lookup k with
  | some v => simp
  | none => simp [lookup_filter_isNone parent job k h]

/-- **C09 (environment precedence, all values)**: the value a command sees for name `k` is the one
of the highest level that defines it: variation, stage env, task env, env_file, (TASK_NAME),
context env, runner-level, parent process. -/
theorem C09_precedence (L : EnvLevels β) (name : β) (k : String) :
    get (procEnv L.parent (jobEnv L name)) k =
      (get L.variation k).or ((get L.stage k).or ((get L.task k).or ((get L.envFile k).or
        ((if k = "TASK_NAME" then some name else none).or
          ((get L.context k).or ((get L.runner k).or (get L.parent k))))))) := by
  rw [get_procEnv]
  simp only [jobEnv, get_merge, get_withKey]
  by_cases hk : k = "TASK_NAME"
  · simp [hk, Option.or_assoc]
  · simp [hk, Option.or_assoc]

/-- the highest defining level wins, whatever lower levels say and whatever the values are -/
theorem C09_variation_wins (L : EnvLevels β) (name : β) (k : String) (v : β)
    (h : get L.variation k = some v) : get (procEnv L.parent (jobEnv L name)) k = some v := by
  rw [C09_precedence, h]; rfl

theorem C09_stage_wins (L : EnvLevels β) (name : β) (k : String) (v : β)
    (h0 : get L.variation k = none) (h : get L.stage k = some v) :
    get (procEnv L.parent (jobEnv L name)) k = some v := by
  rw [C09_precedence, h0, h]; rfl

theorem C09_task_wins (L : EnvLevels β) (name : β) (k : String) (v : β)
    (h0 : get L.variation k = none) (h1 : get L.stage k = none) (h : get L.task k = some v) :
    get (procEnv L.parent (jobEnv L name)) k = some v := by
  rw [C09_precedence, h0, h1, h]; rfl

theorem C09_envfile_wins (L : EnvLevels β) (name : β) (k : String) (v : β)
    (h0 : get L.variation k = none) (h1 : get L.stage k = none) (h2 : get L.task k = none)
    (h : get L.envFile k = some v) : get (procEnv L.parent (jobEnv L name)) k = some v := by
  rw [C09_precedence, h0, h1, h2, h]; rfl

theorem C09_context_wins (L : EnvLevels β) (name : β) (k : String) (v : β) (hk : k ≠ "TASK_NAME")
    (h0 : get L.variation k = none) (h1 : get L.stage k = none) (h2 : get L.task k = none)
    (h3 : get L.envFile k = none) (h : get L.context k = some v) :
    get (procEnv L.parent (jobEnv L name)) k = some v := by
  rw [C09_precedence, h0, h1, h2, h3, h]; simp [hk]

/-- **names that nothing overrides pass through from the parent process unchanged** -/
theorem C09_passthrough (L : EnvLevels β) (name : β) (k : String) (hk : k ≠ "TASK_NAME")
    (h0 : get L.variation k = none) (h1 : get L.stage k = none) (h2 : get L.task k = none)
    (h3 : get L.envFile k = none) (h4 : get L.context k = none) (h5 : get L.runner k = none) :
    get (procEnv L.parent (jobEnv L name)) k = get L.parent k := by
  rw [C09_precedence, h0, h1, h2, h3, h4, h5]; simp [hk]

/-- **TASK_NAME carries the task's name** (unless the task itself, its env_file, stage or variation
redefines it) — in particular a TASK_NAME inherited from the parent or set by the context loses -/
theorem C09_task_name (L : EnvLevels β) (name : β)
    (h0 : get L.variation "TASK_NAME" = none) (h1 : get L.stage "TASK_NAME" = none)
    (h2 : get L.task "TASK_NAME" = none) (h3 : get L.envFile "TASK_NAME" = none) :
    get (procEnv L.parent (jobEnv L name)) "TASK_NAME" = some name := by
  rw [C09_precedence, h0, h1, h2, h3]; rfl

/-- **working directory**: the decision table of the three dir levels -/
theorem C09_dir (stage task ctx start : String) :
    (stage ≠ "" → jobDir stage task ctx start = stage) ∧
    (stage = "" → task ≠ "" → jobDir stage task ctx start = task) ∧
    (stage = "" → task = "" → ctx ≠ "" → jobDir stage task ctx start = ctx) ∧
    (stage = "" → task = "" → ctx = "" → jobDir stage task ctx start = start) := by
  refine ⟨?_, ?_, ?_, ?_⟩ <;> intros <;> simp_all [jobDir]

/-! ## Regression witness for defect D5 (fixed): before the fix the *values* decided -/
theorem C09_witness_old_value_order_decides :
    procGetOld [("VAL", 13)] [("VAL", 1)] "VAL" = some 13 ∧          -- parent 13 beat task 1
    procGetOld [("VAL", 13)] [("VAL", 26)] "VAL" = some 26 ∧         -- … but lost to task 26
    get (procEnv [("VAL", 13)] [("VAL", 1)]) "VAL" = some 1 := by decide

/-! ## Non-vacuity -/
def exLevels : EnvLevels Nat :=
  { parent := [("VAL", 9), ("HOME", 1)], runner := [("ARGS", 0)], context := [("VAL", 8)], envFile := [],
    task := [("VAL", 3)], stage := [], variation := [] }
example : get (procEnv exLevels.parent (jobEnv exLevels 77)) "VAL" = some 3 ∧
    get (procEnv exLevels.parent (jobEnv exLevels 77)) "HOME" = some 1 ∧
    get (procEnv exLevels.parent (jobEnv exLevels 77)) "TASK_NAME" = some 77 := by decide

end Layers
