import TaskctlVerif.Proofs.Graph
/-!
# C05 — a pipeline is rejected as cyclic exactly when its dependencies form a cycle

Model: `Model/Graph.lean` (`build` = `NewExecutionGraph` / the `AddStage` loop of `buildPipeline`).
All theorems hold for every list of stages: any number of stages, any declaration order (the list
*is* the declaration order), self-loops, duplicate edges, edges to undeclared names.
-/
namespace Graph
variable {α : Type} [DecidableEq α]

/-- **C05 (main)**: building fails with the cycle error iff the declared depends_on relation has a
cycle. -/
theorem C05_iff (stages : List (Stage α)) :
    build stages = none ↔ HasCycle (edgesOf stages) := by
  unfold build
  rw [build_eq_addEdges]
  have h := (addEdges_spec (edgesOf stages) [] (by rintro ⟨a, b, hb, _⟩; simp [fromOf] at hb)).1
  simpa using h

/-- every acyclic pipeline is accepted, and the accepted graph holds exactly the declared edges, in
declaration order, with multiplicity -/
theorem C05_edges (stages : List (Stage α)) (g : List (Edge α)) (h : build stages = some g) :
    g = edgesOf stages := by
  unfold build at h
  rw [build_eq_addEdges] at h
  have := (addEdges_spec (edgesOf stages) [] (by rintro ⟨a, b, hb, _⟩; simp [fromOf] at hb)).2 g h
  simpa using this

theorem C05_accepts_acyclic (stages : List (Stage α)) (h : ¬ HasCycle (edgesOf stages)) :
    build stages = some (edgesOf stages) := by
  cases hb : build stages with
  | none => exact absurd ((C05_iff stages).mp hb) h
  | some g => rw [C05_edges stages g hb]

/-- `To(name)` of an accepted graph: the dependencies of the stages carrying that name, in order -/
theorem toOf_edgesOf (stages : List (Stage α)) (n : α) :
    toOf (edgesOf stages) n = (stages.filter (fun s => s.name = n)).flatMap (·.deps) := by
  induction stages with
  | nil => simp [edgesOf, toOf]
  | cons s ss ih =>
    have hs : toOf (edgesOf (s :: ss)) n
        = toOf (s.deps.map (fun d => (d, s.name))) n ++ toOf (edgesOf ss) n := by
      simp [edgesOf, toOf, List.filter_append]
    rw [hs, ih, List.filter_cons]
    by_cases hn : s.name = n
    · simp only [hn, decide_true, if_true, List.flatMap_cons]
      congr 1
      simp [toOf, List.filter_map, Function.comp_def]
    · simp only [hn, decide_false]
      simp [toOf, List.filter_map, Function.comp_def, hn]

/-- with pairwise distinct stage names (enforced by `buildPipeline`), an accepted pipeline exposes
for every stage exactly its declared dependencies -/
theorem C05_to_exact (stages : List (Stage α)) (hnd : (stages.map (·.name)).Nodup)
    (g : List (Edge α)) (h : build stages = some g) (s : Stage α) (hs : s ∈ stages) :
    toOf g s.name = s.deps := by
  rw [C05_edges stages g h, toOf_edgesOf]
  clear h
  induction stages with
  | nil => cases hs
  | cons x xs ih =>
    rw [List.map_cons, List.nodup_cons] at hnd
    rw [List.filter_cons]
    rcases List.mem_cons.mp hs with rfl | hs'
    · have : xs.filter (fun t => t.name = s.name) = [] := by
        rw [List.filter_eq_nil_iff]
        intro t ht htn
        exact hnd.1 (List.mem_map.mpr ⟨t, ht, by simpa using htn⟩)
      simp [this]
    · have hx : x.name ≠ s.name := by
        intro e; exact hnd.1 (List.mem_map.mpr ⟨s, hs', e.symm⟩)
      simp only [hx, decide_false]
      exact ih hnd.2 hs'

/-- who depends on `d` (`From(d)`): `s` is listed iff `d ∈ depends_on s` -/
theorem C05_from_exact (stages : List (Stage α)) (g : List (Edge α)) (h : build stages = some g)
    (d n : α) : n ∈ fromOf g d ↔ ∃ s ∈ stages, s.name = n ∧ d ∈ s.deps := by
  rw [C05_edges stages g h, mem_fromOf]
  simp only [edgesOf, List.mem_flatMap, List.mem_map, Prod.mk.injEq]
  constructor
  · rintro ⟨s, hs, d', hd', rfl, rfl⟩; exact ⟨s, hs, rfl, hd'⟩
  · rintro ⟨s, hs, rfl, hd⟩; exact ⟨s, hs, d, hd, rfl, rfl⟩

/-- acceptance does not depend on the declaration order -/
theorem C05_order_irrelevant (s₁ s₂ : List (Stage α)) (hp : s₁.Perm s₂) :
    (build s₁ = none ↔ build s₂ = none) := by
  rw [C05_iff, C05_iff]
  have hm : ∀ (a b : List (Stage α)), a.Perm b → ∀ e, e ∈ edgesOf a → e ∈ edgesOf b := by
    intro a b hab e he
    simp only [edgesOf, List.mem_flatMap] at *
    obtain ⟨s, hs, he⟩ := he
    exact ⟨s, hab.mem_iff.mp hs, he⟩
  exact ⟨HasCycle.mono (hm _ _ hp), HasCycle.mono (hm _ _ hp.symm)⟩

/-- self-dependency is a cycle -/
theorem C05_self_loop (stages : List (Stage α)) (s : Stage α) (hs : s ∈ stages)
    (hd : s.name ∈ s.deps) : build stages = none := by
  rw [C05_iff]
  have he : (s.name, s.name) ∈ edgesOf stages := by
    simp only [edgesOf, List.mem_flatMap, List.mem_map]
    exact ⟨s, hs, s.name, hd, rfl⟩
  exact ⟨s.name, s.name, mem_fromOf.mpr he, .refl _⟩

/-! ## Regression witness for defect D1 (fixed): the pre-fix search ("visited twice" = cycle)
rejects an acyclic diamond when the fork is declared after the join; the repaired one accepts it. -/

/-- stages `3←{0,1}`, `1←{0}`, `0←{2}`, `2` declared in that order (D, B, A, X of DESIGN §6 D1) -/
def d1Witness : List (Stage Nat) :=
  [⟨3, [0, 1]⟩, ⟨1, [0]⟩, ⟨0, [2]⟩, ⟨2, []⟩]

theorem C05_witness_old_false_positive :
    buildOld d1Witness = none ∧ ¬ HasCycle (edgesOf d1Witness) := by
  refine ⟨by decide, ?_⟩
  intro h
  have := (C05_iff d1Witness).mpr h
  revert this
  decide

/-! ## Non-vacuity -/
example : build ([⟨0, [1]⟩, ⟨1, [0]⟩] : List (Stage Nat)) = none := by decide
example : build d1Witness = some (edgesOf d1Witness) := by decide
example : HasCycle (edgesOf ([⟨0, [1]⟩, ⟨1, [0]⟩] : List (Stage Nat))) :=
  (C05_iff _).mp (by decide)

end Graph
