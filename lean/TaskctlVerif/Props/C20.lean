import TaskctlVerif.Model.Glob
/-!
# C20 — watchers observe exactly the selected paths and fire on the subscribed events  (**partial**)

Model: `Model/Glob.lean`.  Proved: the executable matcher coincides with the declarative semantics
of the pattern grammar (`Matches`), selection is exact, the event filter is exact, and the (state
free) handler serves every event of any sequence.  Not provable in a model: inotify delivery, event
coalescing and the once-a-second polling of the serve loop (OS/runtime) — exercised with real
inotify runs of the binary.
-/
namespace Glob

/-- declarative semantics of a segment pattern -/
inductive SegMatches : SegPat → List Char → Prop
  | nil : SegMatches [] []
  | lit (c : Char) {p s} : SegMatches p s → SegMatches (.lit c :: p) (c :: s)
  | qmark (c : Char) {p s} : SegMatches p s → SegMatches (.qmark :: p) (c :: s)
  | starZero {p s} : SegMatches p s → SegMatches (.star :: p) s
  | starMore (c : Char) {p s} : SegMatches (.star :: p) s → SegMatches (.star :: p) (c :: s)

/-- declarative semantics of a path pattern: `**` is zero or more whole segments, a trailing `**`
one or more -/
inductive Matches : List PSeg → List (List Char) → Prop
  | nil : Matches [] []
  | seg {p s ps rest} : SegMatches p s → Matches ps rest → Matches (.seg p :: ps) (s :: rest)
  | dstarLast {path} : path ≠ [] → Matches [.dstar] path
  | dstarZero {ps path} : ps ≠ [] → Matches ps path → Matches (.dstar :: ps) path
  | dstarMore {ps s rest} : ps ≠ [] → Matches (.dstar :: ps) rest → Matches (.dstar :: ps) (s :: rest)

theorem segMatch_sound : ∀ p s, segMatch p s = true → SegMatches p s := by
  intro p s
  fun_induction segMatch p s with
  | case1 s =>
    intro h
    have : s = [] := by simpa using h
    subst this; exact .nil
  | case2 p s ih1 ih2 =>
    intro h
    rw [Bool.or_eq_true] at h
    rcases h with h | h
    · exact .starZero (ih1 h)
    · cases s with
      | nil => simp at h
      | cons c s' => exact .starMore c (ih2 h)
  | case3 => intro h; cases h
  | case4 p c s ih => intro h; exact .qmark c (ih h)
  | case5 => intro h; cases h
  | case6 a p c s ih =>
    intro h
    rw [Bool.and_eq_true, beq_iff_eq] at h
    obtain ⟨rfl, h2⟩ := h
    exact .lit a (ih h2)

theorem segMatch_complete {p s} (h : SegMatches p s) : segMatch p s = true := by
  induction h with
  | nil => simp [segMatch]
  | lit c _ ih => simp [segMatch, ih]
  | qmark c _ ih => simp [segMatch, ih]
  | starZero _ ih => rw [segMatch.eq_def]; simp [ih]
  | starMore c _ ih => rw [segMatch.eq_def]; simp [ih]

theorem segMatch_iff (p : SegPat) (s : List Char) : segMatch p s = true ↔ SegMatches p s :=
  ⟨segMatch_sound p s, segMatch_complete⟩

theorem gmatch_sound : ∀ ps path, gmatch ps path = true → Matches ps path := by
  intro ps path
  fun_induction gmatch ps path with
  | case1 path =>
    intro h
    have : path = [] := by simpa using h
    subst this; exact .nil
  | case2 => intro h; cases h
  | case3 p ps s rest ih =>
    intro h
    rw [Bool.and_eq_true] at h
    exact .seg ((segMatch_iff p s).mp h.1) (ih h.2)
  | case4 ps path hps =>
    intro h
    have hp : ps = [] := by simpa using hps
    subst hp
    exact .dstarLast (by simpa using h)
  | case5 ps path hps ih1 ih2 =>
    intro h
    have hne : ps ≠ [] := by simpa using hps
    rw [Bool.or_eq_true] at h
    rcases h with h | h
    · exact .dstarZero hne (ih1 h)
    · cases path with
      | nil => simp at h
      | cons s rest => exact .dstarMore hne (ih2 h)

theorem gmatch_complete {ps path} (h : Matches ps path) : gmatch ps path = true := by
  induction h with
  | nil => simp [gmatch]
  | seg hs _ ih => simp [gmatch, segMatch_complete hs, ih]
  | dstarLast hne =>
    rw [gmatch.eq_def]; simp [hne]
  | @dstarZero ps path hne _ ih =>
    rw [gmatch.eq_def]
    have : ps.isEmpty = false := by cases ps <;> simp_all
    simp [this, ih]
  | @dstarMore ps s rest hne _ ih =>
    rw [gmatch.eq_def]
    have : ps.isEmpty = false := by cases ps <;> simp_all
    simp [this, ih]

/-- **the matcher decides exactly the declarative semantics of the glob grammar**, for all patterns
and all paths -/
theorem C20_match_iff (ps : List PSeg) (path : List (List Char)) :
    gmatch ps path = true ↔ Matches ps path := ⟨gmatch_sound ps path, gmatch_complete⟩

/-- two adjacent `**` components mean the same as one -/
theorem gmatch_dstar_dstar (ps : List PSeg) : ∀ path, gmatch (.dstar :: .dstar :: ps) path = gmatch (.dstar :: ps) path := by
  intro path
  induction path with
  | nil =>
    rw [gmatch.eq_def (.dstar :: .dstar :: ps)]
    simp
  | cons x rest ih =>
    rw [gmatch.eq_def (.dstar :: .dstar :: ps)]
    simp only [List.isEmpty_cons, Bool.false_eq_true, if_false, ih]
    by_cases hps : ps.isEmpty = true
    · have : ps = [] := List.isEmpty_iff.mp hps
      subst this
      rw [gmatch.eq_def [.dstar] (x :: rest)]
      simp
    · rw [gmatch.eq_def (.dstar :: ps) (x :: rest)]
      simp only [hps]
      cases gmatch ps (x :: rest) <;> cases gmatch (.dstar :: ps) rest <;> rfl

/-- matching depends on the rest of the pattern only through what the rest matches (and whether it
is empty: a trailing `**` needs one more segment) -/
theorem gmatch_congr (h : PSeg) (p q : List PSeg) (he : p.isEmpty = q.isEmpty)
    (hm : ∀ y, gmatch p y = gmatch q y) : ∀ x, gmatch (h :: p) x = gmatch (h :: q) x := by
  intro x
  cases h with
  | seg sp =>
    cases x with
    | nil => rw [gmatch.eq_def, gmatch.eq_def (.seg sp :: q)]
    | cons s rest => rw [gmatch.eq_def, gmatch.eq_def (.seg sp :: q)]; simp [hm]
  | dstar =>
    induction x with
    | nil => rw [gmatch.eq_def, gmatch.eq_def (.dstar :: q)]; simp [he, hm]
    | cons s rest ih => rw [gmatch.eq_def, gmatch.eq_def (.dstar :: q)]; simp [he, hm, ih]

theorem collapse_isEmpty (p : List PSeg) : (collapse p).isEmpty = p.isEmpty := by
  fun_induction collapse p <;> simp_all

/-- **C20 (the include patterns are globbed after `collapseDoublestars`)**: dropping a `**` that
directly follows another one never changes which paths a pattern matches — the normalisation the
watcher applies before `doublestar.Glob` is neutral for the pattern semantics, for every pattern
and every path. -/
theorem C20_collapse_neutral (p : List PSeg) : ∀ x, gmatch (collapse p) x = gmatch p x := by
  fun_induction collapse p with
  | case1 ps ih =>
    intro x
    rw [ih x, gmatch_dstar_dstar]
  | case2 s ps hne ih =>
    intro x
    exact gmatch_congr s _ _ (collapse_isEmpty ps) ih x
  | case3 => intro x; rfl

-- non-vacuity: the normalisation does something, exactly on adjacent double stars
example : collapse [.dstar, .dstar, .seg [.qmark]] = [.dstar, .seg [.qmark]] := by simp [collapse]
example : collapse [.seg [.lit 'a'], .dstar, .dstar, .dstar, .seg [.lit 'b'], .dstar] =
    [.seg [.lit 'a'], .dstar, .seg [.lit 'b'], .dstar] := by simp [collapse]

/-- **a watcher observes exactly the paths that match at least one include pattern and no exclude
pattern**, for every tree and every pattern sets -/
theorem C20_select_exact (incl excl : List (List PSeg)) (tree : List (List (List Char)))
    (x : List (List Char)) :
    x ∈ select incl excl tree ↔
      x ∈ tree ∧ (∃ i ∈ incl, Matches i x) ∧ (∀ e ∈ excl, ¬ Matches e x) := by
  unfold select
  rw [List.mem_filter, Bool.and_eq_true, List.any_eq_true, Bool.not_eq_true', List.any_eq_false]
  constructor
  · rintro ⟨hx, ⟨i, hi, hm⟩, he⟩
    exact ⟨hx, ⟨i, hi, (C20_match_iff i x).mp hm⟩, fun e hee hme => he e hee ((C20_match_iff e x).mpr hme)⟩
  · rintro ⟨hx, ⟨i, hi, hm⟩, he⟩
    exact ⟨hx, ⟨i, hi, (C20_match_iff i x).mpr hm⟩, fun e hee hme => he e hee ((C20_match_iff e x).mp hme)⟩

/-- `*` and `?` do not cross `/`: one segment pattern consumes exactly one path segment -/
theorem C20_wildcards_stay_in_segment (p : SegPat) (ps : List PSeg) (path : List (List Char))
    (h : Matches (.seg p :: ps) path) : ∃ s rest, path = s :: rest ∧ SegMatches p s ∧ Matches ps rest := by
  cases h with
  | seg hs hr => exact ⟨_, _, rfl, hs, hr⟩

/-- **an event runs the task iff its type is among the subscribed events — all types when none are
listed** -/
theorem C20_event_filter (subscribed : List EvKind) (k : EvKind) :
    fires subscribed k = true ↔ (subscribed = [] ∨ k ∈ subscribed) := by
  unfold fires
  cases subscribed with
  | nil => simp
  | cons a as => simp

/-- **the watcher keeps serving later events**: whatever happened before, every event of the
sequence whose type is subscribed runs the task, in order, with `EventName` and `EventPath`
describing that event; no other event does -/
theorem C20_serves_every_event (subscribed : List EvKind) (before after : List Event) (e : Event) :
    serve subscribed (before ++ e :: after) =
      serve subscribed before ++
        (if fires subscribed e.kind then [(e.kind, e.path)] else []) ++ serve subscribed after := by
  unfold serve
  rw [List.filterMap_append, List.filterMap_cons]
  split <;> simp_all

/-! ## Non-vacuity -/
example : Matches [.seg [.lit 's'], .dstar, .seg [.star, .lit 'g']] [['s'], ['a'], ['x', 'g']] :=
  .seg (.lit 's' .nil) (.dstarMore (by simp) (.dstarZero (by simp)
    (.seg (.starMore 'x' (.starZero (.lit 'g' .nil))) .nil)))
example : Matches [.dstar, .seg [.lit 'a']] [['a']] := .dstarZero (by simp) (.seg (.lit 'a' .nil) .nil)
example : ¬ Matches [.seg [.lit 'a'], .dstar] [['a']] := by
  intro h
  cases h with
  | seg _ hr => cases hr with
    | dstarLast hne => exact hne rfl
    | dstarZero hne _ => exact hne rfl
example : serve [.write] [⟨.create, "a"⟩, ⟨.write, "b"⟩, ⟨.write, "c"⟩] = [(.write, "b"), (.write, "c")] := by decide

end Glob
