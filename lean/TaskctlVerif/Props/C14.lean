import TaskctlVerif.Model.CtxHooks
/-!
# C14 — execution-context hooks run the right number of times, in the right order

Model: `Model/CtxHooks.lean`.  Every theorem holds for any number of runs, any assignment of runs to
contexts, any `up` outcomes and **every interleaving** of the runs' hook commands (every action
list).  `log` is the sequence of hook/task executions, oldest first.
-/
namespace Hooks

attribute [local grind =] upd

/-- `a` occurs before every occurrence of `b` -/
def Precedes (a b : Tok) (l : List Tok) : Prop := ∀ l1 l2, l = l1 ++ b :: l2 → a ∈ l1

/-- nothing satisfying `P` occurs after an occurrence of `b` -/
def NoneAfter (P : Tok → Prop) (b : Tok) (l : List Tok) : Prop :=
  ∀ l1 l2, l = l1 ++ b :: l2 → ∀ t ∈ l2, ¬ P t

theorem snoc_split {l l1 l2 : List Tok} {x b : Tok} (h : l ++ [x] = l1 ++ b :: l2) :
    (l2 = [] ∧ l1 = l ∧ b = x) ∨ (∃ l2', l2 = l2' ++ [x] ∧ l = l1 ++ b :: l2') := by
  rcases List.eq_nil_or_concat l2 with h2 | ⟨l2', y, h2⟩
  · subst h2
    have : l ++ [x] = l1 ++ [b] := h
    have := List.append_inj' this rfl
    exact .inl ⟨rfl, this.1.symm, by simpa using this.2.symm⟩
  · rw [List.concat_eq_append] at h2
    subst h2
    have h' : l ++ [x] = (l1 ++ b :: l2') ++ [y] := by simpa using h
    have := List.append_inj' h' rfl
    have hy : x = y := by simpa using this.2
    subst hy
    exact .inr ⟨l2', rfl, this.1⟩

theorem precedes_snoc {a b x : Tok} {l : List Tok} (h : Precedes a b l) (hx : x = b → a ∈ l) :
    Precedes a b (l ++ [x]) := by
  intro l1 l2 e
  rcases snoc_split e with ⟨_, rfl, rfl⟩ | ⟨l2', _, e'⟩
  · exact hx rfl
  · exact h l1 l2' e'

theorem noneAfter_snoc {P : Tok → Prop} {b x : Tok} {l : List Tok} (h : NoneAfter P b l)
    (hx : b ∈ l → ¬ P x) : NoneAfter P b (l ++ [x]) := by
  intro l1 l2 e t ht
  rcases snoc_split e with ⟨rfl, _, _⟩ | ⟨l2', rfl, e'⟩
  · cases ht
  · rw [List.mem_append, List.mem_singleton] at ht
    rcases ht with ht | rfl
    · exact h l1 l2' e' t ht
    · exact hx (by rw [e']; simp)

/-- the run has got past `Up()` successfully -/
def Pc.past : Pc → Bool
  | .passed | .ranBefore | .ranTask | .fin false => true
  | _ => false

/-- a hook or task execution belonging to some run (not `up`/`down`) -/
def isRunTok : Tok → Prop
  | .before _ _ | .task _ | .after _ _ => True
  | _ => False

structure HInv (cfg : Cfg) (σ : HS) : Prop where
  upCount   : ∀ c, σ.log.count (.up c) = if σ.onceUp c = .fresh then 0 else 1
  pastDone  : ∀ r, (σ.pc r).past = true → σ.onceUp (cfg.ctxOf r) = .done ∧ σ.upErr (cfg.ctxOf r) = false
  errFails  : ∀ c, σ.upErr c = true → cfg.upFails c = true
  doneErr   : ∀ c, σ.onceUp c = .done → σ.upErr c = cfg.upFails c
  beforeCnt : ∀ c r, σ.log.count (.before c r) =
                if c = cfg.ctxOf r ∧ (σ.pc r = .ranBefore ∨ σ.pc r = .ranTask ∨ σ.pc r = .fin false) then 1 else 0
  taskCnt   : ∀ r, σ.log.count (.task r) = if σ.pc r = .ranTask ∨ σ.pc r = .fin false then 1 else 0
  afterCnt  : ∀ c r, σ.log.count (.after c r) = if c = cfg.ctxOf r ∧ σ.pc r = .fin false then 1 else 0
  downCnt   : ∀ c, σ.log.count (.down c) = if σ.downDone c then 1 else 0
  downUsed  : ∀ c, σ.downDone c = true → σ.used c = true ∧ σ.finishing = true
  usedPc    : ∀ r, σ.pc r ≠ .idle → σ.used (cfg.ctxOf r) = true ∧ r < cfg.n
  upUsed    : ∀ c, σ.onceUp c ≠ .fresh → σ.used c = true
  finQuiet  : σ.finishing = true → ∀ r, σ.pc r = .idle ∨ ∃ e, σ.pc r = .fin e
  upFirstB  : ∀ c r, Precedes (.up c) (.before c r) σ.log
  orderBT   : ∀ c r, c = cfg.ctxOf r → Precedes (.before c r) (.task r) σ.log
  orderTA   : ∀ c r, c = cfg.ctxOf r → Precedes (.task r) (.after c r) σ.log
  downLast  : ∀ c, NoneAfter isRunTok (.down c) σ.log

theorem hinv_init (cfg : Cfg) : HInv cfg init := by
  constructor <;> intros <;> simp_all [init, Precedes, NoneAfter, Pc.past]

theorem quiescent_spec (cfg : Cfg) (σ : HS) (h : quiescent cfg σ = true) (r : Nat) (hr : r < cfg.n) :
    σ.pc r = .idle ∨ ∃ e, σ.pc r = .fin e := by
  unfold quiescent at h
  rw [List.all_eq_true] at h
  have := h r (List.mem_range.mpr hr)
  split at this <;> simp_all

theorem count_snoc (l : List Tok) (x t : Tok) :
    (l ++ [x]).count t = l.count t + (if x = t then 1 else 0) := by
  rw [List.count_append, List.count_singleton]
  by_cases h : x = t <;> simp [h, beq_iff_eq]

theorem mem_of_count_one {l : List Tok} {t : Tok} (h : l.count t = 1) : t ∈ l := by
  apply List.count_pos_iff.mp; omega

theorem hinv_step (cfg : Cfg) (σ : HS) (a : Act) (h : HInv cfg σ) : HInv cfg (step cfg σ a) := by
  obtain ⟨upCount, pastDone, errFails, doneErr, beforeCnt, taskCnt, afterCnt, downCnt, downUsed, usedPc,
    upUsed, finQuiet, upFirstB, orderBT, orderTA, downLast⟩ := h
  cases a with
  | call r =>
    simp only [step]; split
    · rename_i hc
      constructor <;> (dsimp only [] <;> intros <;> first | grind [Pc.past] | skip)
    · exact ⟨upCount, pastDone, errFails, doneErr, beforeCnt, taskCnt, afterCnt, downCnt, downUsed, usedPc,
        upUsed, finQuiet, upFirstB, orderBT, orderTA, downLast⟩
  | upBegin r =>
    simp only [step]; split
    · rename_i hc
      have hq := finQuiet
      constructor
      · intro c; have := upCount c; dsimp only; rw [count_snoc]; grind
      · dsimp only; intros; grind [Pc.past]
      · exact errFails
      · dsimp only; intros; grind
      · intro c r'; have := beforeCnt c r'; dsimp only; rw [count_snoc]; grind
      · intro r'; have := taskCnt r'; dsimp only; rw [count_snoc]; grind
      · intro c r'; have := afterCnt c r'; dsimp only; rw [count_snoc]; grind
      · intro c; have := downCnt c; dsimp only; rw [count_snoc]; grind
      · exact downUsed
      · exact usedPc
      · dsimp only; intros; grind
      · exact finQuiet
      · intro c r'; exact precedes_snoc (upFirstB c r') (by intro e; cases e)
      · intro c r' hc'; exact precedes_snoc (orderBT c r' hc') (by intro e; cases e)
      · intro c r' hc'; exact precedes_snoc (orderTA c r' hc') (by intro e; cases e)
      · intro c; exact noneAfter_snoc (downLast c) (by intro _ hp; exact hp)
    · exact ⟨upCount, pastDone, errFails, doneErr, beforeCnt, taskCnt, afterCnt, downCnt, downUsed, usedPc,
        upUsed, finQuiet, upFirstB, orderBT, orderTA, downLast⟩
  | upEnd c =>
    simp only [step]; split
    · constructor <;> (dsimp only [] <;> intros <;> first | grind [Pc.past] | skip)
    · exact ⟨upCount, pastDone, errFails, doneErr, beforeCnt, taskCnt, afterCnt, downCnt, downUsed, usedPc,
        upUsed, finQuiet, upFirstB, orderBT, orderTA, downLast⟩
  | pass r =>
    simp only [step]; split
    · split
      · constructor <;> (dsimp only [] <;> intros <;> first | grind [Pc.past] | skip)
      · constructor <;> (dsimp only [] <;> intros <;> first | grind [Pc.past] | skip)
    · exact ⟨upCount, pastDone, errFails, doneErr, beforeCnt, taskCnt, afterCnt, downCnt, downUsed, usedPc,
        upUsed, finQuiet, upFirstB, orderBT, orderTA, downLast⟩
  | before r =>
    simp only [step]; split
    · rename_i hc
      have hp := pastDone r (by simp [hc, Pc.past])
      have hup := upCount (cfg.ctxOf r)
      have hmem : Tok.up (cfg.ctxOf r) ∈ σ.log := mem_of_count_one (by rw [hup]; simp [hp.1])
      have hnf : σ.finishing = false := by
        cases hf : σ.finishing
        · rfl
        · rcases finQuiet hf r with h | ⟨e, h⟩ <;> simp [hc] at h
      constructor
      · intro c; have := upCount c; dsimp only; rw [count_snoc]; grind
      · dsimp only; intros; grind [Pc.past]
      · exact errFails
      · exact doneErr
      · intro c r'; have := beforeCnt c r'; dsimp only; rw [count_snoc]; grind
      · intro r'; have := taskCnt r'; dsimp only; rw [count_snoc]; grind
      · intro c r'; have := afterCnt c r'; dsimp only; rw [count_snoc]; grind
      · intro c; have := downCnt c; dsimp only; rw [count_snoc]; grind
      · exact downUsed
      · dsimp only; intros; grind
      · exact upUsed
      · dsimp only; intros; grind
      · intro c r'; exact precedes_snoc (upFirstB c r') (by intro e; cases e; exact hmem)
      · intro c r' hc'; exact precedes_snoc (orderBT c r' hc') (by intro e; cases e)
      · intro c r' hc'; exact precedes_snoc (orderTA c r' hc') (by intro e; cases e)
      · intro c; exact noneAfter_snoc (downLast c) (by
          intro hd _
          have := downCnt c
          have hcnt : σ.log.count (.down c) ≥ 1 := List.count_pos_iff.mpr hd
          have := downUsed c
          grind)
    · exact ⟨upCount, pastDone, errFails, doneErr, beforeCnt, taskCnt, afterCnt, downCnt, downUsed, usedPc,
        upUsed, finQuiet, upFirstB, orderBT, orderTA, downLast⟩
  | task r =>
    simp only [step]; split
    · rename_i hc
      have hb := beforeCnt (cfg.ctxOf r) r
      have hmem : Tok.before (cfg.ctxOf r) r ∈ σ.log := mem_of_count_one (by rw [hb]; simp [hc])
      have hnf : σ.finishing = false := by
        cases hf : σ.finishing
        · rfl
        · rcases finQuiet hf r with h | ⟨e, h⟩ <;> simp [hc] at h
      constructor
      · intro c; have := upCount c; dsimp only; rw [count_snoc]; grind
      · dsimp only; intros; grind [Pc.past]
      · exact errFails
      · exact doneErr
      · intro c r'; have := beforeCnt c r'; dsimp only; rw [count_snoc]; grind
      · intro r'; have := taskCnt r'; dsimp only; rw [count_snoc]; grind
      · intro c r'; have := afterCnt c r'; dsimp only; rw [count_snoc]; grind
      · intro c; have := downCnt c; dsimp only; rw [count_snoc]; grind
      · exact downUsed
      · dsimp only; intros; grind
      · exact upUsed
      · dsimp only; intros; grind
      · intro c r'; exact precedes_snoc (upFirstB c r') (by intro e; cases e)
      · intro c r' hc'
        refine precedes_snoc (orderBT c r' hc') ?_
        intro e; cases e; subst hc'; exact hmem
      · intro c r' hc'; exact precedes_snoc (orderTA c r' hc') (by intro e; cases e)
      · intro c; exact noneAfter_snoc (downLast c) (by
          intro hd _
          have hcnt : σ.log.count (.down c) ≥ 1 := List.count_pos_iff.mpr hd
          have := downCnt c
          have := downUsed c
          grind)
    · exact ⟨upCount, pastDone, errFails, doneErr, beforeCnt, taskCnt, afterCnt, downCnt, downUsed, usedPc,
        upUsed, finQuiet, upFirstB, orderBT, orderTA, downLast⟩
  | after r =>
    simp only [step]; split
    · rename_i hc
      have ht := taskCnt r
      have hmem : Tok.task r ∈ σ.log := mem_of_count_one (by rw [ht]; simp [hc])
      have hnf : σ.finishing = false := by
        cases hf : σ.finishing
        · rfl
        · rcases finQuiet hf r with h | ⟨e, h⟩ <;> simp [hc] at h
      constructor
      · intro c; have := upCount c; dsimp only; rw [count_snoc]; grind
      · dsimp only; intros; grind [Pc.past]
      · exact errFails
      · exact doneErr
      · intro c r'; have := beforeCnt c r'; dsimp only; rw [count_snoc]; grind
      · intro r'; have := taskCnt r'; dsimp only; rw [count_snoc]; grind
      · intro c r'; have := afterCnt c r'; dsimp only; rw [count_snoc]; grind
      · intro c; have := downCnt c; dsimp only; rw [count_snoc]; grind
      · exact downUsed
      · dsimp only; intros; grind
      · exact upUsed
      · dsimp only; intros; grind
      · intro c r'; exact precedes_snoc (upFirstB c r') (by intro e; cases e)
      · intro c r' hc'; exact precedes_snoc (orderBT c r' hc') (by intro e; cases e)
      · intro c r' hc'
        refine precedes_snoc (orderTA c r' hc') ?_
        intro e; cases e; exact hmem
      · intro c; exact noneAfter_snoc (downLast c) (by
          intro hd _
          have hcnt : σ.log.count (.down c) ≥ 1 := List.count_pos_iff.mpr hd
          have := downCnt c
          have := downUsed c
          grind)
    · exact ⟨upCount, pastDone, errFails, doneErr, beforeCnt, taskCnt, afterCnt, downCnt, downUsed, usedPc,
        upUsed, finQuiet, upFirstB, orderBT, orderTA, downLast⟩
  | beginFinish =>
    simp only [step]; split
    · rename_i hq
      refine ⟨upCount, pastDone, errFails, doneErr, beforeCnt, taskCnt, afterCnt, downCnt, ?_, usedPc,
        upUsed, ?_, upFirstB, orderBT, orderTA, downLast⟩
      · intro c hd; exact ⟨(downUsed c hd).1, rfl⟩
      · intro _ r
        by_cases hr : r < cfg.n
        · exact quiescent_spec cfg σ hq r hr
        · left
          apply Classical.byContradiction
          intro hne
          exact hr (usedPc r hne).2
    · exact ⟨upCount, pastDone, errFails, doneErr, beforeCnt, taskCnt, afterCnt, downCnt, downUsed, usedPc,
        upUsed, finQuiet, upFirstB, orderBT, orderTA, downLast⟩
  | down c =>
    simp only [step]; split
    · rename_i hc
      constructor
      · intro c'; have := upCount c'; dsimp only; rw [count_snoc]; grind
      · exact pastDone
      · exact errFails
      · exact doneErr
      · intro c' r'; have := beforeCnt c' r'; dsimp only; rw [count_snoc]; grind
      · intro r'; have := taskCnt r'; dsimp only; rw [count_snoc]; grind
      · intro c' r'; have := afterCnt c' r'; dsimp only; rw [count_snoc]; grind
      · intro c'; have := downCnt c'; dsimp only; rw [count_snoc]; grind
      · dsimp only; intros; grind
      · exact usedPc
      · exact upUsed
      · exact finQuiet
      · intro c' r'; exact precedes_snoc (upFirstB c' r') (by intro e; cases e)
      · intro c' r' hc'; exact precedes_snoc (orderBT c' r' hc') (by intro e; cases e)
      · intro c' r' hc'; exact precedes_snoc (orderTA c' r' hc') (by intro e; cases e)
      · intro c'; exact noneAfter_snoc (downLast c') (by intro _ hp; exact hp)
    · exact ⟨upCount, pastDone, errFails, doneErr, beforeCnt, taskCnt, afterCnt, downCnt, downUsed, usedPc,
        upUsed, finQuiet, upFirstB, orderBT, orderTA, downLast⟩

theorem hinv_run (cfg : Cfg) (as : List Act) : HInv cfg (run cfg init as) := by
  suffices ∀ σ, HInv cfg σ → HInv cfg (run cfg σ as) from this _ (hinv_init cfg)
  induction as with
  | nil => intro σ h; exact h
  | cons a as ih => intro σ h; exact ih _ (hinv_step cfg σ a h)

/-! ## The property -/

/-- **`up` runs at most once per context, under every interleaving**, and exactly once as soon as
any run got past `Up()` -/
theorem C14_up_once (cfg : Cfg) (as : List Act) (c : Nat) :
    (run cfg init as).log.count (.up c) ≤ 1 ∧
    (∀ r, cfg.ctxOf r = c → ((run cfg init as).pc r).past = true → (run cfg init as).log.count (.up c) = 1) := by
  have h := hinv_run cfg as
  refine ⟨by rw [h.upCount c]; split <;> omega, ?_⟩
  intro r hr hp
  have := h.pastDone r hp
  rw [h.upCount c, ← hr, this.1]; rfl

/-- **`up` completes before any hook or command of any task of the context**: every context
`before` is preceded by `up`, every task execution by its context `before`, every context `after`
by the task — so `up` precedes them all. -/
theorem C14_up_first (cfg : Cfg) (as : List Act) (r : Nat) :
    Precedes (.up (cfg.ctxOf r)) (.before (cfg.ctxOf r) r) (run cfg init as).log ∧
    Precedes (.before (cfg.ctxOf r) r) (.task r) (run cfg init as).log ∧
    Precedes (.task r) (.after (cfg.ctxOf r) r) (run cfg init as).log := by
  have h := hinv_run cfg as
  exact ⟨h.upFirstB _ r, h.orderBT _ r rfl, h.orderTA _ r rfl⟩

/-- **if `up` fails no task of the context runs anything and each reports an error** -/
theorem C14_up_failure (cfg : Cfg) (as : List Act) (r : Nat) (hf : cfg.upFails (cfg.ctxOf r) = true) :
    (run cfg init as).log.count (.before (cfg.ctxOf r) r) = 0 ∧
    (run cfg init as).log.count (.task r) = 0 ∧
    (run cfg init as).log.count (.after (cfg.ctxOf r) r) = 0 ∧
    (∀ e, (run cfg init as).pc r = .fin e → e = true) := by
  have h := hinv_run cfg as
  have hnp : ((run cfg init as).pc r).past = false := by
    cases hp : ((run cfg init as).pc r).past
    · rfl
    · have := h.pastDone r hp
      have := h.doneErr _ this.1
      simp_all
  have hb := h.beforeCnt (cfg.ctxOf r) r
  have ht := h.taskCnt r
  have ha := h.afterCnt (cfg.ctxOf r) r
  generalize (run cfg init as).pc r = p at *
  cases p <;> simp_all [Pc.past]
  rename_i e
  cases e <;> simp_all [Pc.past]

/-- **`before` once immediately before, `after` once after each task execution**: each at most
once per run, exactly once for a run that has completed (whether the task itself failed or not —
the `task` token stands for the whole of model R's run, including a failing or skipped task) -/
theorem C14_before_after_once (cfg : Cfg) (as : List Act) (r c : Nat) :
    (run cfg init as).log.count (.before c r) ≤ 1 ∧ (run cfg init as).log.count (.after c r) ≤ 1 ∧
    (run cfg init as).log.count (.task r) ≤ 1 ∧
    ((run cfg init as).pc r = .fin false →
      (run cfg init as).log.count (.before (cfg.ctxOf r) r) = 1 ∧
      (run cfg init as).log.count (.task r) = 1 ∧
      (run cfg init as).log.count (.after (cfg.ctxOf r) r) = 1) ∧
    (c ≠ cfg.ctxOf r → (run cfg init as).log.count (.before c r) = 0 ∧
      (run cfg init as).log.count (.after c r) = 0) := by
  have h := hinv_run cfg as
  have hb := h.beforeCnt c r
  have ha := h.afterCnt c r
  have ht := h.taskCnt r
  have hb' := h.beforeCnt (cfg.ctxOf r) r
  have ha' := h.afterCnt (cfg.ctxOf r) r
  refine ⟨by rw [hb]; split <;> omega, by rw [ha]; split <;> omega, by rw [ht]; split <;> omega, ?_, ?_⟩
  · intro hp; simp [hb', ha', ht, hp]
  · intro hc; simp [hb, ha, hc]

/-- **`down` runs at most once, only for contexts that were used, only at shutdown, and after every
task, hook and command**: nothing belonging to a run follows it -/
theorem C14_down_once_last (cfg : Cfg) (as : List Act) (c : Nat) :
    (run cfg init as).log.count (.down c) ≤ 1 ∧
    ((run cfg init as).log.count (.down c) = 1 → (run cfg init as).used c = true ∧
        (run cfg init as).finishing = true) ∧
    NoneAfter isRunTok (.down c) (run cfg init as).log := by
  have h := hinv_run cfg as
  refine ⟨by rw [h.downCnt c]; split <;> omega, ?_, h.downLast c⟩
  intro h1
  apply h.downUsed c
  have hc := h.downCnt c
  rw [h1] at hc
  cases hd : (run cfg init as).downDone c
  · rw [hd] at hc; simp at hc
  · rfl

/-- a context no task used never runs `up` or `down` -/
theorem C14_unused_untouched (cfg : Cfg) (as : List Act) (c : Nat)
    (hu : (run cfg init as).used c = false) :
    (run cfg init as).log.count (.up c) = 0 ∧ (run cfg init as).log.count (.down c) = 0 := by
  have h := hinv_run cfg as
  constructor
  · rw [h.upCount c]
    split
    · rfl
    · rename_i hne; have := h.upUsed c hne; simp_all
  · rw [h.downCnt c]
    split
    · rename_i hd; have := (h.downUsed c hd).1; simp_all
    · rfl

/-- **shutdown always reaches `down`**: once every run has returned, `Finish` runs `down` for every
used context — this is what the CLI now does whether the target succeeded or failed -/
theorem C14_finish_runs_down (cfg : Cfg) (σ : HS) (c : Nat) (hq : quiescent cfg σ = true)
    (hu : σ.used c = true) (hd : σ.downDone c = false) :
    (run cfg σ [.beginFinish, .down c]).log = σ.log ++ [.down c] := by
  have h1 : step cfg σ .beginFinish = { σ with finishing := true } := by
    simp only [step, hq, if_true]
  simp only [run, List.foldl_cons, List.foldl_nil, h1]
  simp only [step, hu, hd, and_self, if_true]

/-! ## Non-vacuity: two runs share context 0, a third uses context 1 whose `up` fails -/
def exCfg : Cfg := { n := 3, ctxOf := fun r => if r = 2 then 1 else 0, upFails := fun c => c == 1 }
example : (run exCfg init (sequential exCfg 2)).log =
    [.up 0, .before 0 0, .task 0, .after 0 0, .before 0 1, .task 1, .after 0 1, .up 1, .down 0, .down 1] := by
  decide

-- the hypotheses of `C14_finish_runs_down` hold after the three runs: every run is over, context 0 is in use
example : quiescent exCfg (run exCfg init ((sequential exCfg 2).take 21)) = true ∧
    (run exCfg init ((sequential exCfg 2).take 21)).used 0 = true ∧
    (run exCfg init ((sequential exCfg 2).take 21)).downDone 0 = false := by decide

end Hooks
