import TaskctlVerif.Model.Refs
import TaskctlVerif.Props.C05
/-!
# C18 — a configuration that loads has no dangling references

Model: `Model/Refs.lean`.  `accept d = true ↔ WellFormed d` for **every** definition.
-/
namespace Refs
open Graph

/-- the declarative property of the statement (plus acyclicity of depends_on, which is C05) -/
structure WellFormed (d : CfgDef) : Prop where
  stageRef   : ∀ p ∈ d.pipelines, ∀ s ∈ p.2,
                 (∀ t, s.task = some t → t ∈ d.tasks) ∧ (s.task = none → s.pipeline ∈ pipelineNames d)
  dependsOn  : ∀ p ∈ d.pipelines, ∀ s ∈ p.2, ∀ dep ∈ s.deps, dep ∈ p.2.map (·.name)
  uniqueName : ∀ p ∈ d.pipelines, (p.2.map (·.name)).Nodup
  depsAcyclic : ∀ p ∈ d.pipelines,
                 ¬ HasCycle (edgesOf (p.2.map fun s => ({ name := s.name, deps := s.deps } : Graph.Stage String)))
  watcherRef : ∀ t ∈ d.watchers, t ∈ d.tasks
  noSelfInclusion : ¬ ∃ p ∈ pipelineNames d, ∃ a, Reach (fromOf (inclusion d)) p a ∧ OnCycle (fromOf (inclusion d)) a

theorem noDupNames_iff (l : List String) : noDupNames l = true ↔ l.Nodup := by
  induction l with
  | nil => simp [noDupNames]
  | cons n rest ih => simp [noDupNames, ih, List.nodup_cons]

theorem stageOk_iff (d : CfgDef) (stages : List StageDef) (s : StageDef) :
    stageOk d stages s = true ↔
      ((∀ t, s.task = some t → t ∈ d.tasks) ∧ (s.task = none → s.pipeline ∈ pipelineNames d)) ∧
      ∀ dep ∈ s.deps, dep ∈ stages.map (·.name) := by
  unfold stageOk
  cases hs : s.task with
  | none => simp [List.all_eq_true]
  | some t => simp [List.all_eq_true]

theorem pipelineOk_iff (d : CfgDef) (stages : List StageDef) :
    pipelineOk d stages = true ↔
      (stages.map (·.name)).Nodup ∧
      (∀ s ∈ stages, ((∀ t, s.task = some t → t ∈ d.tasks) ∧ (s.task = none → s.pipeline ∈ pipelineNames d)) ∧
        ∀ dep ∈ s.deps, dep ∈ stages.map (·.name)) ∧
      ¬ HasCycle (edgesOf (stages.map fun s => ({ name := s.name, deps := s.deps } : Graph.Stage String))) := by
  unfold pipelineOk
  rw [Bool.and_eq_true, Bool.and_eq_true, noDupNames_iff, List.all_eq_true]
  have hb : (build (stages.map fun s => ({ name := s.name, deps := s.deps } : Graph.Stage String))).isSome = true ↔
      ¬ HasCycle (edgesOf (stages.map fun s => ({ name := s.name, deps := s.deps } : Graph.Stage String))) := by
    rw [← C05_iff]
    cases build (stages.map fun s => ({ name := s.name, deps := s.deps } : Graph.Stage String)) <;> simp
  rw [hb]
  constructor
  · rintro ⟨⟨h1, h2⟩, h3⟩
    exact ⟨h1, fun s hs => (stageOk_iff d stages s).mp (h2 s hs), h3⟩
  · rintro ⟨h1, h2, h3⟩
    exact ⟨⟨h1, fun s hs => (stageOk_iff d stages s).mpr (h2 s hs)⟩, h3⟩

/-- **C18 (main)**: a configuration is accepted iff every stage refers to an existing task or
pipeline, every depends_on names a stage of the same pipeline, every watcher refers to an existing
task, stage names are unique within a pipeline, and no pipeline includes itself directly or through
other pipelines (and depends_on is acyclic, C05). -/
theorem C18_accept_iff (d : CfgDef) : accept d = true ↔ WellFormed d := by
  unfold accept
  rw [Bool.and_eq_true, Bool.and_eq_true, List.all_eq_true, List.all_eq_true, List.all_eq_true]
  have hnodes : ∀ t, fromOf (inclusion d) t ≠ [] → t ∈ (inclusion d).map (·.1) := by
    intro x hx
    obtain ⟨y, hy⟩ := List.exists_mem_of_ne_nil _ hx
    exact List.mem_map.mpr ⟨(x, y), mem_fromOf.mp hy, rfl⟩
  have hdfs : ∀ p, (!dfs (fromOf (inclusion d)) ((inclusion d).length + 1) [] p) = true ↔
      ¬ ∃ a, Reach (fromOf (inclusion d)) p a ∧ OnCycle (fromOf (inclusion d)) a := by
    intro p
    have := dfs_iff (fromOf (inclusion d)) ((inclusion d).map (·.1)) hnodes p
    rw [List.length_map] at this
    rw [← this]
    cases dfs (fromOf (inclusion d)) ((inclusion d).length + 1) [] p <;> simp
  constructor
  · rintro ⟨⟨hp, hw⟩, hi⟩
    refine ⟨?_, ?_, ?_, ?_, ?_, ?_⟩
    · intro p hpm s hs
      exact (((pipelineOk_iff d p.2).mp (hp p hpm)).2.1 s hs).1
    · intro p hpm s hs
      exact (((pipelineOk_iff d p.2).mp (hp p hpm)).2.1 s hs).2
    · intro p hpm
      exact ((pipelineOk_iff d p.2).mp (hp p hpm)).1
    · intro p hpm
      exact ((pipelineOk_iff d p.2).mp (hp p hpm)).2.2
    · intro t ht
      simpa using hw t ht
    · rintro ⟨p, hpm, hc⟩
      exact (hdfs p).mp (hi p hpm) hc
  · rintro ⟨h1, h2, h3, h4, h5, h6⟩
    refine ⟨⟨?_, ?_⟩, ?_⟩
    · intro p hpm
      exact (pipelineOk_iff d p.2).mpr ⟨h3 p hpm, fun s hs => ⟨h1 p hpm s hs, h2 p hpm s hs⟩, h4 p hpm⟩
    · intro t ht
      simpa using h5 t ht
    · intro p hpm
      exact (hdfs p).mpr (fun hc => h6 ⟨p, hpm, hc⟩)

/-- **running a pipeline of an accepted configuration never aborts because of a bad reference**:
every name the scheduler looks up in `checkStatus` (the depends_on of a stage, `C05_to_exact`) is a
stage of the same pipeline, so `Node(dep)` never fails and `logrus.Fatal` is unreachable. -/
theorem C18_no_fatal (d : CfgDef) (h : accept d = true) (p : String × List StageDef)
    (hp : p ∈ d.pipelines) (s : StageDef) (hs : s ∈ p.2) (dep : String) (hd : dep ∈ s.deps) :
    ∃ s' ∈ p.2, s'.name = dep := by
  have := ((C18_accept_iff d).mp h).dependsOn p hp s hs dep hd
  rw [List.mem_map] at this
  exact this

/-- a pipeline that includes itself is rejected -/
theorem C18_self_inclusion_rejected (d : CfgDef) (p : String) (stages : List StageDef) (s : StageDef)
    (hp : (p, stages) ∈ d.pipelines) (hs : s ∈ stages) (ht : s.task = none) (hself : s.pipeline = p) :
    accept d = false := by
  cases h : accept d with
  | false => rfl
  | true =>
    exfalso
    have hwf := (C18_accept_iff d).mp h
    apply hwf.noSelfInclusion
    have hedge : (p, p) ∈ inclusion d := by
      unfold inclusion
      rw [List.mem_flatMap]
      refine ⟨(p, stages), hp, ?_⟩
      rw [List.mem_filterMap]
      exact ⟨s, hs, by simp [ht, hself]⟩
    exact ⟨p, List.mem_map.mpr ⟨(p, stages), hp, rfl⟩, p, .refl p, p, mem_fromOf.mpr hedge, .refl p⟩

/-! ## Regression witnesses for defect D10 (fixed) and non-vacuity -/
def exGood : CfgDef :=
  { tasks := ["t0", "t1"],
    pipelines := [("p0", [⟨"b", some "t1", "", ["a"]⟩, ⟨"a", some "t0", "", []⟩, ⟨"inc", none, "p1", ["a"]⟩]),
                  ("p1", [⟨"x", some "t0", "", []⟩])],
    watchers := ["t1"] }
example : accept exGood = true := by decide
/-- dangling depends_on -/
example : accept { exGood with pipelines := [("p0", [⟨"b", some "t1", "", ["ghost"]⟩])] } = false := by decide
/-- inclusion cycle of length 2 -/
example : accept { exGood with pipelines := [("p0", [⟨"i", none, "p1", []⟩]), ("p1", [⟨"j", none, "p0", []⟩])] } = false := by
  decide

end Refs
