import TaskctlVerif.Proofs.Sched
import TaskctlVerif.Proofs.SchedFair
import TaskctlVerif.Props.C01
import TaskctlVerif.Proofs.SchedLoopsAgree
/-!
# C02 — a failure cancels exactly its dependants; the outcome does not depend on timing

Model: `Model/Sched.lean` with the task outcome a function `okf : Nat → Bool` of the stage (the
adversary still chooses every interleaving and every completion order: `Respects okf` only pins
*what* a task returns, not *when*).  `final` (Model/Sched.lean, `finalF`) is the declarative final
status, a function of the graph and the outcomes alone.

Interpretation (DESIGN §5 C02): a stage whose condition is false is `skipped` whatever happens to
its dependencies and "blocks nothing", so it shields its own dependants from a failure further up.
-/
namespace Sched

/-- stage `s` is settled: not waiting, not running, its goroutine not between its two status writes -/
def Settled (σ : St) (s : Nat) : Prop :=
  σ.status s ≠ .waiting ∧ σ.status s ≠ .running ∧ σ.g s ≠ .afterErr

/-- the run of a pipeline with the stages `0 … n-1` is over: every one of them is settled
(what `Schedule` has established when it returns: `isDone` and `wg.Wait()`) -/
def Terminal (n : Nat) (σ : St) : Prop := ∀ s, s < n → Settled σ s

/-- **per stage, at every moment**: in ANY reachable state, under any interleaving, a stage that is
settled already has the status prescribed by the final-status equations — for any solution `f` of
them.  (Nothing is assumed about the other stages: the rest of the run may still be going on.) -/
theorem C02_settled (c okf f) (hf : IsFinal c okf f) (hne : ∀ s, c.cond s ≠ .err) (as : List Act)
    (has : ∀ a ∈ as, Respects okf a) (s : Nat) (hs : Settled (run c init as) s) :
    (run c init as).status s = f s := by
  obtain ⟨hi, h⟩ := agree_run c okf f hf hne as has
  obtain ⟨g_none, g_run, run_g, g_after, g_fin, started, chk⟩ := hi
  obtain ⟨a1, a2, a3, a4, a5, a6, a7, a8⟩ := h
  have := gcases (run c init as) s
  unfold Settled at hs
  grind

/-- when the run is over, every stage of the pipeline has the status prescribed by the final-status
equations — for any solution `f` of them, whatever the interleaving was. -/
theorem C02_terminal (c okf f) (hf : IsFinal c okf f) (hne : ∀ s, c.cond s ≠ .err) (as : List Act)
    (has : ∀ a ∈ as, Respects okf a) (n : Nat) (ht : Terminal n (run c init as)) :
    ∀ s, s < n → (run c init as).status s = f s :=
  fun s hs => C02_settled c okf f hf hne as has s (ht s hs)

/-- **C02 (main)**: for every acyclic configuration, every assignment of outcomes / allow_failure /
conditions and every interleaving, the status of every stage when the run is over is `final` — a
function of the graph and the outcomes alone. -/
theorem C02_final (c okf rank) (hac : Acyclic c rank) (hne : ∀ s, c.cond s ≠ .err)
    (as : List Act) (has : ∀ a ∈ as, Respects okf a) (n : Nat) (ht : Terminal n (run c init as)) :
    ∀ s, s < n → (run c init as).status s = final c okf rank s :=
  C02_terminal c okf _ (final_isFinal c okf rank hac) hne as has n ht

/-- **C02 (determinism)**: two complete runs of the same configuration with the same task outcomes
end with the same status for every stage, whatever the order of completions and loop steps. -/
theorem C02_deterministic (c okf f) (hf : IsFinal c okf f) (hne : ∀ s, c.cond s ≠ .err)
    (as bs : List Act) (has : ∀ a ∈ as, Respects okf a) (hbs : ∀ a ∈ bs, Respects okf a) (n : Nat)
    (hta : Terminal n (run c init as)) (htb : Terminal n (run c init bs)) :
    ∀ s, s < n → (run c init as).status s = (run c init bs).status s := by
  intro s hs
  rw [C02_terminal c okf f hf hne as has n hta s hs, C02_terminal c okf f hf hne bs hbs n htb s hs]

/-- **C02 (error flag)**: the run reports an error only if some stage's *final* status is `error`,
and it does whenever that stage belongs to the pipeline and the run is over — not a matter of timing. -/
theorem C02_error_flag (c okf rank) (hac : Acyclic c rank) (hne : ∀ s, c.cond s ≠ .err)
    (as : List Act) (has : ∀ a ∈ as, Respects okf a) (n : Nat) (ht : Terminal n (run c init as)) :
    ((run c init as).gerr = true → ∃ s, final c okf rank s = .error) ∧
    ((∃ s, s < n ∧ final c okf rank s = .error) → (run c init as).gerr = true) := by
  have he := errInv_run c hne as
  have hi := inv_run c as
  obtain ⟨hag_i, hag⟩ := agree_run c okf _ (final_isFinal c okf rank hac) hne as has
  constructor
  · intro hg
    obtain ⟨s, hgs, hs⟩ := he.e1 hg
    refine ⟨s, ?_⟩
    rw [← C02_settled c okf _ (final_isFinal c okf rank hac) hne as has s
      ⟨by rw [hs]; simp, by rw [hs]; simp, by rw [hgs]; simp⟩]
    exact hs
  · rintro ⟨s, hsn, hs⟩
    rw [← C02_final c okf rank hac hne as has n ht s hsn] at hs
    have hg : (run c init as).g s ≠ .none := hag.err_run s hs
    have := gcases (run c init as) s
    have h1 := hi.g_run s
    have h2 := (ht s hsn).2.2
    have hfin' : (run c init as).g s = .fin := by grind
    exact he.e2 s hfin' hs

/-- the error flag of a finished run is determined by the configuration and the outcomes: when all
stages that can end in `error` belong to the pipeline, both runs report an error or neither does -/
theorem C02_error_deterministic (c okf rank) (hac : Acyclic c rank) (hne : ∀ s, c.cond s ≠ .err)
    (as bs : List Act) (has : ∀ a ∈ as, Respects okf a) (hbs : ∀ a ∈ bs, Respects okf a) (n : Nat)
    (hin : ∀ s, final c okf rank s = .error → s < n)
    (hta : Terminal n (run c init as)) (htb : Terminal n (run c init bs)) :
    (run c init as).gerr = (run c init bs).gerr := by
  have ha := C02_error_flag c okf rank hac hne as has n hta
  have hb := C02_error_flag c okf rank hac hne bs hbs n htb
  rw [Bool.eq_iff_iff]
  constructor
  · intro h
    obtain ⟨s, hs⟩ := ha.1 h
    exact hb.2 ⟨s, hin s hs, hs⟩
  · intro h
    obtain ⟨s, hs⟩ := hb.1 h
    exact ha.2 ⟨s, hin s hs, hs⟩

/-! ### What `final` says: exactly the dependants of a (non-allowed) failure are cancelled -/

/-- a stage is cancelled iff its condition does not exclude it and one of its dependencies is
cancelled or failed without allow_failure (one step of "transitively depends on a failure") -/
theorem C02_cancelled_iff (c okf f) (hf : IsFinal c okf f) (s : Nat) :
    f s = .canceled ↔ c.cond s ≠ .fails ∧ ∃ d ∈ c.deps s, f d = .canceled ∨ f d = .error := by
  constructor
  · intro h
    by_cases hc : c.cond s = .fails
    · rw [hf.skip s hc] at h; cases h
    · refine ⟨hc, ?_⟩
      apply Classical.byContradiction
      intro hnb
      have := hf.runs s hc (by rintro ⟨d, hd, h⟩; exact hnb ⟨d, hd, h⟩)
      rw [this] at h
      unfold outcome at h
      split at h <;> cases h
  · rintro ⟨hc, d, hd, h⟩
    exact hf.canc s hc ⟨d, hd, h⟩

/-- `error` as a final status means a real failure that was not allowed -/
theorem C02_error_iff (c okf f) (hf : IsFinal c okf f) (s : Nat) :
    f s = .error ↔ c.cond s ≠ .fails ∧ ¬ Blocked c f s ∧ okf s = false ∧ c.allow s = false := by
  constructor
  · intro h
    by_cases hc : c.cond s = .fails
    · rw [hf.skip s hc] at h; cases h
    · by_cases hb : Blocked c f s
      · rw [hf.canc s hc hb] at h; cases h
      · rw [hf.runs s hc hb] at h
        unfold outcome at h
        refine ⟨hc, hb, ?_⟩
        cases h1 : okf s <;> cases h2 : c.allow s <;> simp_all
  · rintro ⟨hc, hb, h1, h2⟩
    rw [hf.runs s hc hb]
    simp [outcome, h1, h2]

/-- a failure with allow_failure, or a stage skipped by its condition, blocks nothing: it never
makes a dependant cancelled (and by `C02_error_flag`/`C02_error_iff` it reports no error) -/
theorem C02_allowed_or_skipped_blocks_nothing (c okf f) (hf : IsFinal c okf f) (d : Nat)
    (h : c.cond d = .fails ∨ c.allow d = true) : f d ≠ .canceled → f d ≠ .error ∧
      (f d = .skipped ∨ f d = .done) := by
  intro hnc
  rcases h with h | h
  · rw [hf.skip d h]; simp
  · by_cases hcnd : c.cond d = .fails
    · rw [hf.skip d hcnd]; simp
    · by_cases hb : Blocked c f d
      · exact absurd (hf.canc d hcnd hb) hnc
      · rw [hf.runs d hcnd hb]; simp [outcome, h]

/-- every stage that is neither skipped nor cancelled runs to completion: its final status is the
outcome of its own task -/
theorem C02_others_complete (c okf f) (hf : IsFinal c okf f) (s : Nat)
    (h1 : f s ≠ .skipped) (h2 : f s ≠ .canceled) : f s = outcome c okf s := by
  by_cases hc : c.cond s = .fails
  · exact absurd (hf.skip s hc) h1
  · by_cases hb : Blocked c f s
    · exact absurd (hf.canc s hc hb) h2
    · exact hf.runs s hc hb

/-! ## Non-vacuity: the diamond 3←{1,2}, 1←{0}, 2←{0}, stage 1 fails -/
def exCfg2 : Cfg := { deps := fun s => if s = 3 then [1, 2] else if s = 1 ∨ s = 2 then [0] else [],
                      allow := fun _ => false, cond := fun _ => .none }
def exOk : Nat → Bool := fun s => s != 1
def exRank : Nat → Nat := fun s => if s = 3 then 2 else if s = 1 ∨ s = 2 then 1 else 0
example : Acyclic exCfg2 exRank := by
  intro s d hd; unfold exCfg2 at hd; unfold exRank
  simp only at hd
  split at hd
  · subst_vars; simp only [List.mem_cons, List.not_mem_nil, or_false] at hd
    rcases hd with rfl | rfl <;> simp
  · split at hd
    · simp only [List.mem_singleton] at hd; subst hd; rename_i h1 h2; rcases h2 with rfl | rfl <;> simp
    · cases hd
example : (List.range 4).map (final exCfg2 exOk exRank) = [.done, .error, .done, .canceled] := by decide

/-- a complete run of the diamond (stage 1 fails): 0 runs, then 1 and 2 together, 3 is cancelled -/
def exRun2 : List Act :=
  [.visit 0, .decide, .ret 0 true,
   .visit 1, .read, .decide, .visit 2, .read, .decide,
   .ret 2 true, .ret 1 false, .post 1,
   .visit 3, .read, .read, .decide]
-- the hypotheses of the C02 theorems hold of it: it respects the outcomes and it is over
example : ∀ a ∈ exRun2, Respects exOk a := by
  intro a ha
  simp only [exRun2, List.mem_cons, List.not_mem_nil, or_false] at ha
  rcases ha with rfl | rfl | rfl | rfl | rfl | rfl | rfl | rfl | rfl | rfl | rfl | rfl | rfl | rfl | rfl | rfl <;>
    simp [Respects, exOk]
example : Terminal 4 (run exCfg2 init exRun2) := by
  intro s hs
  have : s = 0 ∨ s = 1 ∨ s = 2 ∨ s = 3 := by omega
  rcases this with rfl | rfl | rfl | rfl <;> exact ⟨by decide, by decide, by decide⟩
example : (List.range 4).map (run exCfg2 init exRun2).status = [.done, .error, .done, .canceled] ∧
    (run exCfg2 init exRun2).gerr = true := by decide
-- and a state in the middle of the run is not terminal (stage 3 still waiting)
example : ¬ Terminal 4 (run exCfg2 init (exRun2.take 12)) := by
  intro h; exact (h 3 (by omega)).1 (by decide)

/-! ## Nested pipelines, to any depth (`Model/Tree.lean`)

A stage that includes a pipeline "succeeds" iff the included run recorded no error.  The outcomes of
the whole tree are therefore a family `okfT` (one assignment per pipeline) that is *coherent*: for an
including stage it says "succeeds" exactly when no stage of the included pipeline has the final status
`error`.  The theorem: with such a family, under every interleaving of all schedulers of the tree,
every settled stage of every pipeline has the status `final` prescribes - the result of a run with
nested pipelines is a function of the graphs and the outcomes of the leaf tasks alone. -/

/-- the final statuses of the pipeline at `q` contain an `error` -/
def failsT (T : TCfg) (okfT : Path → Nat → Bool) (rank : Path → Nat → Nat) (q : Path) : Bool :=
  (List.range (T.n q)).any fun t => final (T.cfg q) (okfT q) (rank q) t == .error

/-- the outcome assignment is coherent with the tree -/
def Coherent (T : TCfg) (okfT : Path → Nat → Bool) (rank : Path → Nat → Nat) : Prop :=
  ∀ p s, T.pipe p s = true → okfT p s = !failsT T okfT rank (s :: p)

/-- the actions of a tree run respect the outcomes of the leaf tasks, and nobody cancels -/
def RespectsT (T : TCfg) (okfT : Path → Nat → Bool) (x : TAct) : Prop :=
  x.a.isCancel = false ∧ ∀ s ok, x.a = .ret s ok → T.pipe x.p s = false → ok = okfT x.p s

/-- which scheduler step a tree step is -/
theorem tstep_which (T : TCfg) (σ : TSt) (x : TAct) :
    tstep T σ x = σ ∨
    (tstep T σ x = tset σ x.p (step (T.cfg x.p) (σ x.p) x.a) ∧
      ∀ s ok, x.a = .ret s ok → T.pipe x.p s = false) ∨
    (∃ s ok, x.a = .ret s ok ∧ T.pipe x.p s = true ∧
      innerOver (T.n (s :: x.p)) (σ (s :: x.p)) = true ∧
      tstep T σ x = tset σ x.p (step (T.cfg x.p) (σ x.p) (.ret s (!(σ (s :: x.p)).gerr)))) := by
  unfold tstep
  split
  · split
    · rename_i s ok hxa
      split
      · rename_i hp
        split
        · rename_i hov
          exact .inr (.inr ⟨s, ok, hxa, hp, hov, rfl⟩)
        · exact .inl rfl
      · rename_i hp
        refine .inr (.inl ⟨by rw [hxa], fun s' ok' h => ?_⟩)
        rw [hxa] at h; cases h; simpa using hp
    · rename_i hnot
      refine .inr (.inl ⟨rfl, fun s' ok' h => ?_⟩)
      exact absurd h (hnot s' ok')
  · exact .inl rfl

/-- an included run that is over, and was not cancelled, is terminal -/
theorem innerOver_terminal (n : Nat) (τ : St) (h : innerOver n τ = true) (hc : τ.cancelled = false) :
    Terminal n τ := by
  unfold innerOver at h
  simp only [hc, Bool.or_false, Bool.and_eq_true, List.all_eq_true, List.mem_range, bne_iff_ne,
    ne_eq] at h
  intro s hs
  have h1 := isDone_settled n τ h.1 s hs
  exact ⟨h1.1, h1.2, (h.2 s hs).2⟩

/-- every pipeline of the tree is, at every moment, in a state that its own scheduler reaches by a
run that respects the (coherent) outcomes and contains no cancellation -/
theorem tree_projects (T : TCfg) (okfT rank) (hac : ∀ p, Acyclic (T.cfg p) (rank p))
    (hne : ∀ p s, (T.cfg p).cond s ≠ .err) (hcoh : Coherent T okfT rank)
    (hin : ∀ p t, final (T.cfg p) (okfT p) (rank p) t = .error → t < T.n p)
    (xs : List TAct) (hxs : ∀ x ∈ xs, RespectsT T okfT x) (p : Path) :
    ∃ as, trun T tinit xs p = run (T.cfg p) init as ∧ (∀ a ∈ as, Respects (okfT p) a) ∧
      (∀ a ∈ as, a.isCancel = false) := by
  let Good (σ : TSt) : Prop := ∀ p, ∃ as, σ p = run (T.cfg p) init as ∧
    (∀ a ∈ as, Respects (okfT p) a) ∧ (∀ a ∈ as, a.isCancel = false)
  suffices ∀ σ, Good σ → (∀ x ∈ xs, RespectsT T okfT x) → Good (trun T σ xs) from
    this tinit (fun p => ⟨[], rfl, by simp, by simp⟩) hxs p
  clear hxs p
  induction xs with
  | nil => intro σ h _; exact h
  | cons x xs ih =>
    intro σ h hx
    refine ih (tstep T σ x) ?_ (fun y hy => hx y (List.mem_cons_of_mem _ hy))
    have hxr := hx x List.mem_cons_self
    -- extending the run of the pipeline at `x.p` by one action that respects the outcomes
    have extend : ∀ a, Respects (okfT x.p) a → a.isCancel = false →
        Good (tset σ x.p (step (T.cfg x.p) (σ x.p) a)) := by
      intro a ha hca q
      unfold tset
      split
      · rename_i hq; subst hq
        obtain ⟨as, e, r, c⟩ := h x.p
        refine ⟨as ++ [a], by rw [run_append, ← e]; rfl, ?_, ?_⟩
        · intro b hb
          rcases List.mem_append.mp hb with hb | hb
          · exact r b hb
          · simp only [List.mem_singleton] at hb; subst hb; exact ha
        · intro b hb
          rcases List.mem_append.mp hb with hb | hb
          · exact c b hb
          · simp only [List.mem_singleton] at hb; subst hb; exact hca
      · exact h q
    rcases tstep_which T σ x with he | ⟨he, hleaf⟩ | ⟨s, ok, hxa, hp, hov, he⟩ <;> rw [he]
    · exact h
    · refine extend x.a ?_ hxr.1
      cases hxa : x.a with
      | ret s ok => exact hxr.2 s ok hxa (hleaf s ok hxa)
      | _ => trivial
    · refine extend _ ?_ rfl
      -- the included run is over: it is terminal, so its error flag is what `final` says
      show (!(σ (s :: x.p)).gerr) = okfT x.p s
      obtain ⟨as, e, r, c⟩ := h (s :: x.p)
      have hcan : (σ (s :: x.p)).cancelled = false := by
        rw [e, cancelled_run (T.cfg (s :: x.p)) (hne _) as init c]; rfl
      have hterm := innerOver_terminal _ _ hov hcan
      rw [e] at hterm
      have hflag := C02_error_flag (T.cfg (s :: x.p)) (okfT (s :: x.p)) (rank (s :: x.p)) (hac _)
        (hne _) as r _ hterm
      rw [hcoh x.p s hp, e]
      congr 1
      rw [Bool.eq_iff_iff]
      unfold failsT
      simp only [List.any_eq_true, List.mem_range, beq_iff_eq]
      constructor
      · intro hg
        obtain ⟨t, ht⟩ := hflag.1 hg
        exact ⟨t, hin _ t ht, ht⟩
      · rintro ⟨t, htn, ht⟩
        exact hflag.2 ⟨t, htn, ht⟩

/-- **C02 for nested pipelines, at every depth**: with coherent outcomes, under every interleaving
of all the schedulers of the tree and all their goroutines, a settled stage of any pipeline of the
tree has the status prescribed by `final` for that pipeline - so the statuses when everything is
over, and the error reported by every included run, are functions of the graphs and of the outcomes
of the leaf tasks alone. -/
theorem C02_tree (T : TCfg) (okfT rank) (hac : ∀ p, Acyclic (T.cfg p) (rank p))
    (hne : ∀ p s, (T.cfg p).cond s ≠ .err) (hcoh : Coherent T okfT rank)
    (hin : ∀ p t, final (T.cfg p) (okfT p) (rank p) t = .error → t < T.n p)
    (xs : List TAct) (hxs : ∀ x ∈ xs, RespectsT T okfT x) (p : Path) (s : Nat)
    (hs : Settled (trun T tinit xs p) s) :
    (trun T tinit xs p).status s = final (T.cfg p) (okfT p) (rank p) s := by
  obtain ⟨as, e, r, _⟩ := tree_projects T okfT rank hac hne hcoh hin xs hxs p
  rw [e] at hs ⊢
  exact C02_settled (T.cfg p) (okfT p) _ (final_isFinal _ _ _ (hac p)) (hne p) as r s hs

/-! ### Non-vacuity of the nested statement: three levels, a failure at the bottom travels up -/

/-- stage 1 (depending on 0) of the top pipeline includes a pipeline of the same shape, whose stage 1
includes a third one -/
def exT : TCfg :=
  { cfg := fun _ => exCfg, pipe := fun p s => s == 1 && (p == [] || p == [1]), n := fun _ => 2 }
/-- the only leaf that fails is stage 0 of the innermost pipeline; the including stages fail with it -/
def exOkT : Path → Nat → Bool := fun p s =>
  !((p == [1, 1] && s == 0) || ((p == [] || p == [1]) && s == 1))
def exRankT : Path → Nat → Nat := fun _ s => s
def start0 (p : Path) : List TAct := [⟨p, .visit 0⟩, ⟨p, .decide⟩]
def start1 (p : Path) : List TAct := [⟨p, .visit 1⟩, ⟨p, .read⟩, ⟨p, .decide⟩]
def fin (p : Path) (s : Nat) (ok : Bool) : List TAct := [⟨p, .ret s ok⟩, ⟨p, .post s⟩]
def exTRun : List TAct :=
  start0 [] ++ fin [] 0 true ++ start1 [] ++ start0 [1] ++ fin [1] 0 true ++ start1 [1] ++
  start0 [1, 1] ++ fin [1, 1] 0 false ++ start1 [1, 1] ++ fin [1] 1 true ++ fin [] 1 true

example : Coherent exT exOkT exRankT := by
  intro p s hp
  simp only [exT, Bool.and_eq_true, beq_iff_eq, Bool.or_eq_true] at hp
  obtain ⟨rfl, rfl | rfl⟩ := hp <;> decide
example : ∀ p, Acyclic (exT.cfg p) (exRankT p) := by
  intro p s d hd
  simp only [exT, exCfg] at hd
  split at hd <;> simp_all [exRankT]
example : ∀ p t, final (exT.cfg p) (exOkT p) (exRankT p) t = .error → t < exT.n p := by
  intro p t h
  have hf : IsFinal (exT.cfg p) (exOkT p) (final (exT.cfg p) (exOkT p) (exRankT p)) :=
    final_isFinal _ _ _ (by
      intro s d hd
      simp only [exT, exCfg] at hd
      split at hd <;> simp_all [exRankT])
  have := ((C02_error_iff _ _ _ hf t).mp h).2.2.1
  simp only [exOkT, Bool.not_eq_false', Bool.or_eq_true, Bool.and_eq_true, beq_iff_eq] at this
  show t < 2
  omega
example : ∀ x ∈ exTRun, RespectsT exT exOkT x := by
  intro x hx
  simp only [exTRun, start0, start1, fin, List.cons_append, List.nil_append, List.mem_cons,
    List.not_mem_nil, or_false] at hx
  rcases hx with h | h | h | h | h | h | h | h | h | h | h | h | h | h | h | h | h | h | h | h | h | h | h | h | h <;>
    subst h <;> refine ⟨rfl, fun s ok h1 h2 => ?_⟩ <;> cases h1 <;> first | rfl | (simp [exT] at h2)
-- the run is complete; the statuses are the ones `final` gives for the coherent outcomes (as
-- `C02_tree` says they must be): the failure of the innermost stage 0 cancels its neighbour and fails
-- both including stages
set_option maxRecDepth 20000 in
example : Settled (trun exT tinit exTRun [1, 1]) 1 ∧ Settled (trun exT tinit exTRun [1]) 1 ∧
    Settled (trun exT tinit exTRun []) 1 ∧
    (trun exT tinit exTRun [1, 1]).status 0 = .error ∧ (trun exT tinit exTRun [1, 1]).status 1 = .canceled ∧
    (trun exT tinit exTRun [1]).status 1 = .error ∧ (trun exT tinit exTRun []).status 1 = .error ∧
    final (exT.cfg []) (exOkT []) (exRankT []) 1 = .error ∧
    final (exT.cfg [1, 1]) (exOkT [1, 1]) (exRankT [1, 1]) 1 = .canceled := by
  unfold Settled; decide

end Sched

/-! ## Several loops over one graph (`Model/SchedLoops.lean`) -/
namespace SchedLoops
open Sched

def LSettled (σ : LSt) (s : Nat) : Prop :=
  σ.status s ≠ .waiting ∧ σ.status s ≠ .running ∧ σ.g s ≠ .afterErr

/-- **C02 with several loops over one graph**: a pipeline included by several stages that run
together is examined by several loops at once; under every interleaving of all their reads, writes
and compare-and-swaps with the stage goroutines, a settled stage has the status the final-status
equations prescribe (any solution `f`): what the shared pipeline ends as - and hence the error every
including stage reports - does not depend on which loop got where first. -/
theorem C02_loops_settled (c okf f) (hf : IsFinal c okf f) (hne : ∀ s, c.cond s ≠ .err)
    (as : List LAct) (has : ∀ a ∈ as, LRespects okf a) (s : Nat)
    (hs : LSettled (lrun c linit as) s) : (lrun c linit as).status s = f s := by
  obtain ⟨hi, h⟩ := lagree_run c okf f hf hne as has
  obtain ⟨g_none, g_run, run_g, g_after, g_fin, started, skip_c, err_c, chk⟩ := hi
  obtain ⟨a1, a2, a3, a4, a5, a6⟩ := h
  have := lgcases (lrun c linit as) s
  unfold LSettled at hs
  grind

/-- two runs of the shared pipeline with the same task outcomes agree on every stage that is settled
in both, however many loops worked on it and in whatever order -/
theorem C02_loops_deterministic (c okf f) (hf : IsFinal c okf f) (hne : ∀ s, c.cond s ≠ .err)
    (as bs : List LAct) (has : ∀ a ∈ as, LRespects okf a) (hbs : ∀ a ∈ bs, LRespects okf a) (s : Nat)
    (ha : LSettled (lrun c linit as) s) (hb : LSettled (lrun c linit bs) s) :
    (lrun c linit as).status s = (lrun c linit bs).status s := by
  rw [C02_loops_settled c okf f hf hne as has s ha, C02_loops_settled c okf f hf hne bs hbs s hb]

-- the run of `exLoops` (C01): stage 0 is settled and done, as `final` says
example : LSettled (lrun Sched.exCfg linit exLoops) 0 ∧ (lrun Sched.exCfg linit exLoops).status 0 = .done := by
  unfold LSettled; decide

end SchedLoops

