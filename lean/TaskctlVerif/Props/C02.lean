import TaskctlVerif.Proofs.Sched
/-!
# C02 — a failure cancels exactly its dependants; the outcome does not depend on timing

Model: `Model/Sched.lean` with the task outcome a function `okf : Nat → Bool` of the stage (the
adversary still chooses every interleaving and every completion order: `Respects okf` only pins
*what* a task returns, not *when*).  `final` (Model/Sched.lean, `finalF`) is the declarative final
status, a function of the graph and the outcomes alone.

Interpretation (DESIGN §5 C02): a stage whose condition is false is `skipped` whatever happens to
its dependencies and "blocks nothing", so it shields its own dependants from a failure further up.
-/
namespace Sched

/-- stage `s` is settled: not waiting, not running, its goroutine not between its two status writes -/
def Settled (σ : St) (s : Nat) : Prop :=
  σ.status s ≠ .waiting ∧ σ.status s ≠ .running ∧ σ.g s ≠ .afterErr

/-- the run of a pipeline with the stages `0 … n-1` is over: every one of them is settled
(what `Schedule` has established when it returns: `isDone` and `wg.Wait()`) -/
def Terminal (n : Nat) (σ : St) : Prop := ∀ s, s < n → Settled σ s

/-- **per stage, at every moment**: in ANY reachable state, under any interleaving, a stage that is
settled already has the status prescribed by the final-status equations — for any solution `f` of
them.  (Nothing is assumed about the other stages: the rest of the run may still be going on.) -/
theorem C02_settled (c okf f) (hf : IsFinal c okf f) (hne : ∀ s, c.cond s ≠ .err) (as : List Act)
    (has : ∀ a ∈ as, Respects okf a) (s : Nat) (hs : Settled (run c init as) s) :
    (run c init as).status s = f s := by
  obtain ⟨hi, h⟩ := agree_run c okf f hf hne as has
  obtain ⟨g_none, g_run, run_g, g_after, g_fin, started, chk⟩ := hi
  obtain ⟨a1, a2, a3, a4, a5, a6, a7, a8⟩ := h
  have := gcases (run c init as) s
  unfold Settled at hs
  grind

/-- when the run is over, every stage of the pipeline has the status prescribed by the final-status
equations — for any solution `f` of them, whatever the interleaving was. -/
theorem C02_terminal (c okf f) (hf : IsFinal c okf f) (hne : ∀ s, c.cond s ≠ .err) (as : List Act)
    (has : ∀ a ∈ as, Respects okf a) (n : Nat) (ht : Terminal n (run c init as)) :
    ∀ s, s < n → (run c init as).status s = f s :=
  fun s hs => C02_settled c okf f hf hne as has s (ht s hs)

/-- **C02 (main)**: for every acyclic configuration, every assignment of outcomes / allow_failure /
conditions and every interleaving, the status of every stage when the run is over is `final` — a
function of the graph and the outcomes alone. -/
theorem C02_final (c okf rank) (hac : Acyclic c rank) (hne : ∀ s, c.cond s ≠ .err)
    (as : List Act) (has : ∀ a ∈ as, Respects okf a) (n : Nat) (ht : Terminal n (run c init as)) :
    ∀ s, s < n → (run c init as).status s = final c okf rank s :=
  C02_terminal c okf _ (final_isFinal c okf rank hac) hne as has n ht

/-- **C02 (determinism)**: two complete runs of the same configuration with the same task outcomes
end with the same status for every stage, whatever the order of completions and loop steps. -/
theorem C02_deterministic (c okf f) (hf : IsFinal c okf f) (hne : ∀ s, c.cond s ≠ .err)
    (as bs : List Act) (has : ∀ a ∈ as, Respects okf a) (hbs : ∀ a ∈ bs, Respects okf a) (n : Nat)
    (hta : Terminal n (run c init as)) (htb : Terminal n (run c init bs)) :
    ∀ s, s < n → (run c init as).status s = (run c init bs).status s := by
  intro s hs
  rw [C02_terminal c okf f hf hne as has n hta s hs, C02_terminal c okf f hf hne bs hbs n htb s hs]

/-- **C02 (error flag)**: the run reports an error only if some stage's *final* status is `error`,
and it does whenever that stage belongs to the pipeline and the run is over — not a matter of timing. -/
theorem C02_error_flag (c okf rank) (hac : Acyclic c rank) (hne : ∀ s, c.cond s ≠ .err)
    (as : List Act) (has : ∀ a ∈ as, Respects okf a) (n : Nat) (ht : Terminal n (run c init as)) :
    ((run c init as).gerr = true → ∃ s, final c okf rank s = .error) ∧
    ((∃ s, s < n ∧ final c okf rank s = .error) → (run c init as).gerr = true) := by
  have he := errInv_run c hne as
  have hi := inv_run c as
  obtain ⟨hag_i, hag⟩ := agree_run c okf _ (final_isFinal c okf rank hac) hne as has
  constructor
  · intro hg
    obtain ⟨s, hgs, hs⟩ := he.e1 hg
    refine ⟨s, ?_⟩
    rw [← C02_settled c okf _ (final_isFinal c okf rank hac) hne as has s
      ⟨by rw [hs]; simp, by rw [hs]; simp, by rw [hgs]; simp⟩]
    exact hs
  · rintro ⟨s, hsn, hs⟩
    rw [← C02_final c okf rank hac hne as has n ht s hsn] at hs
    have hg : (run c init as).g s ≠ .none := hag.err_run s hs
    have := gcases (run c init as) s
    have h1 := hi.g_run s
    have h2 := (ht s hsn).2.2
    have hfin' : (run c init as).g s = .fin := by grind
    exact he.e2 s hfin' hs

/-- the error flag of a finished run is determined by the configuration and the outcomes: when all
stages that can end in `error` belong to the pipeline, both runs report an error or neither does -/
theorem C02_error_deterministic (c okf rank) (hac : Acyclic c rank) (hne : ∀ s, c.cond s ≠ .err)
    (as bs : List Act) (has : ∀ a ∈ as, Respects okf a) (hbs : ∀ a ∈ bs, Respects okf a) (n : Nat)
    (hin : ∀ s, final c okf rank s = .error → s < n)
    (hta : Terminal n (run c init as)) (htb : Terminal n (run c init bs)) :
    (run c init as).gerr = (run c init bs).gerr := by
  have ha := C02_error_flag c okf rank hac hne as has n hta
  have hb := C02_error_flag c okf rank hac hne bs hbs n htb
  rw [Bool.eq_iff_iff]
  constructor
  · intro h
    obtain ⟨s, hs⟩ := ha.1 h
    exact hb.2 ⟨s, hin s hs, hs⟩
  · intro h
    obtain ⟨s, hs⟩ := hb.1 h
    exact ha.2 ⟨s, hin s hs, hs⟩

/-! ### What `final` says: exactly the dependants of a (non-allowed) failure are cancelled -/

/-- a stage is cancelled iff its condition does not exclude it and one of its dependencies is
cancelled or failed without allow_failure (one step of "transitively depends on a failure") -/
theorem C02_cancelled_iff (c okf f) (hf : IsFinal c okf f) (s : Nat) :
    f s = .canceled ↔ c.cond s ≠ .fails ∧ ∃ d ∈ c.deps s, f d = .canceled ∨ f d = .error := by
  constructor
  · intro h
    by_cases hc : c.cond s = .fails
    · rw [hf.skip s hc] at h; cases h
    · refine ⟨hc, ?_⟩
      apply Classical.byContradiction
      intro hnb
      have := hf.runs s hc (by rintro ⟨d, hd, h⟩; exact hnb ⟨d, hd, h⟩)
      rw [this] at h
      unfold outcome at h
      split at h <;> cases h
  · rintro ⟨hc, d, hd, h⟩
    exact hf.canc s hc ⟨d, hd, h⟩

/-- `error` as a final status means a real failure that was not allowed -/
theorem C02_error_iff (c okf f) (hf : IsFinal c okf f) (s : Nat) :
    f s = .error ↔ c.cond s ≠ .fails ∧ ¬ Blocked c f s ∧ okf s = false ∧ c.allow s = false := by
  constructor
  · intro h
    by_cases hc : c.cond s = .fails
    · rw [hf.skip s hc] at h; cases h
    · by_cases hb : Blocked c f s
      · rw [hf.canc s hc hb] at h; cases h
      · rw [hf.runs s hc hb] at h
        unfold outcome at h
        refine ⟨hc, hb, ?_⟩
        cases h1 : okf s <;> cases h2 : c.allow s <;> simp_all
  · rintro ⟨hc, hb, h1, h2⟩
    rw [hf.runs s hc hb]
    simp [outcome, h1, h2]

/-- a failure with allow_failure, or a stage skipped by its condition, blocks nothing: it never
makes a dependant cancelled (and by `C02_error_flag`/`C02_error_iff` it reports no error) -/
theorem C02_allowed_or_skipped_blocks_nothing (c okf f) (hf : IsFinal c okf f) (d : Nat)
    (h : c.cond d = .fails ∨ c.allow d = true) : f d ≠ .canceled → f d ≠ .error ∧
      (f d = .skipped ∨ f d = .done) := by
  intro hnc
  rcases h with h | h
  · rw [hf.skip d h]; simp
  · by_cases hcnd : c.cond d = .fails
    · rw [hf.skip d hcnd]; simp
    · by_cases hb : Blocked c f d
      · exact absurd (hf.canc d hcnd hb) hnc
      · rw [hf.runs d hcnd hb]; simp [outcome, h]

/-- every stage that is neither skipped nor cancelled runs to completion: its final status is the
outcome of its own task -/
theorem C02_others_complete (c okf f) (hf : IsFinal c okf f) (s : Nat)
    (h1 : f s ≠ .skipped) (h2 : f s ≠ .canceled) : f s = outcome c okf s := by
  by_cases hc : c.cond s = .fails
  · exact absurd (hf.skip s hc) h1
  · by_cases hb : Blocked c f s
    · exact absurd (hf.canc s hc hb) h2
    · exact hf.runs s hc hb

/-! ## Non-vacuity: the diamond 3←{1,2}, 1←{0}, 2←{0}, stage 1 fails -/
def exCfg2 : Cfg := { deps := fun s => if s = 3 then [1, 2] else if s = 1 ∨ s = 2 then [0] else [],
                      allow := fun _ => false, cond := fun _ => .none }
def exOk : Nat → Bool := fun s => s != 1
def exRank : Nat → Nat := fun s => if s = 3 then 2 else if s = 1 ∨ s = 2 then 1 else 0
example : Acyclic exCfg2 exRank := by
  intro s d hd; unfold exCfg2 at hd; unfold exRank
  simp only at hd
  split at hd
  · subst_vars; simp only [List.mem_cons, List.not_mem_nil, or_false] at hd
    rcases hd with rfl | rfl <;> simp
  · split at hd
    · simp only [List.mem_singleton] at hd; subst hd; rename_i h1 h2; rcases h2 with rfl | rfl <;> simp
    · cases hd
example : (List.range 4).map (final exCfg2 exOk exRank) = [.done, .error, .done, .canceled] := by decide

/-- a complete run of the diamond (stage 1 fails): 0 runs, then 1 and 2 together, 3 is cancelled -/
def exRun2 : List Act :=
  [.visit 0, .decide, .ret 0 true,
   .visit 1, .read, .decide, .visit 2, .read, .decide,
   .ret 2 true, .ret 1 false, .post 1,
   .visit 3, .read, .read, .decide]
-- the hypotheses of the C02 theorems hold of it: it respects the outcomes and it is over
example : ∀ a ∈ exRun2, Respects exOk a := by
  intro a ha
  simp only [exRun2, List.mem_cons, List.not_mem_nil, or_false] at ha
  rcases ha with rfl | rfl | rfl | rfl | rfl | rfl | rfl | rfl | rfl | rfl | rfl | rfl | rfl | rfl | rfl | rfl <;>
    simp [Respects, exOk]
example : Terminal 4 (run exCfg2 init exRun2) := by
  intro s hs
  have : s = 0 ∨ s = 1 ∨ s = 2 ∨ s = 3 := by omega
  rcases this with rfl | rfl | rfl | rfl <;> exact ⟨by decide, by decide, by decide⟩
example : (List.range 4).map (run exCfg2 init exRun2).status = [.done, .error, .done, .canceled] ∧
    (run exCfg2 init exRun2).gerr = true := by decide
-- and a state in the middle of the run is not terminal (stage 3 still waiting)
example : ¬ Terminal 4 (run exCfg2 init (exRun2.take 12)) := by
  intro h; exact (h 3 (by omega)).1 (by decide)

end Sched
