import TaskctlVerif.Props.C06
import TaskctlVerif.Model.Cli
/-!
# C07 — reported status is faithful: exit codes, errors and the process exit status

Model: `Model/Runner.lean` (`runTask`) and `Model/Cli.lean`.
-/
namespace Runner

/-- **errored ⇔ failed**: the task is marked errored iff the condition (if any) held, every
`before` command succeeded and some job *stops* the task — any non-success without allow_failure;
with allow_failure only an error that is not an exit status. -/
theorem C07_errored_iff (t : TaskSpec) :
    (runTask t).errored = true ↔
      condOk t ∧ (∀ r ∈ t.before, r.ok = true) ∧ ∃ p ∈ jobs t, stops t.allow (t.res p.1 p.2) = true := by
  have hbody : ∀ pre, (runTask.body t pre).errored = true ↔
      (∀ r ∈ t.before, r.ok = true) ∧ ∃ p ∈ jobs t, stops t.allow (t.res p.1 p.2) = true := by
    intro pre
    simp only [runTask.body]
    have hb := runBefore_failed_iff 0 t.before
    have he := execute_errored t.allow t.res (jobs t) t.initExit
    split
    · rename_i hbf
      rw [hbf] at hb
      simp only [Bool.false_eq_true, false_iff, not_and]
      intro hall
      have : t.before.any (fun r => !r.ok) = false := by
        rw [List.any_eq_false]; intro r hr; simp [hall r hr]
      rw [this] at hb; cases hb
    · rename_i hbf
      have hall : ∀ r ∈ t.before, r.ok = true := by
        intro r hr
        have : t.before.any (fun r => !r.ok) = false := by
          rw [← hb]; simpa using hbf
        rw [List.any_eq_false] at this
        simpa using this r hr
      split
      · rename_i he'
        simp only [true_iff]
        refine ⟨hall, ?_⟩
        rw [he'] at he
        have := he.symm
        rw [List.any_eq_true] at this
        exact this
      · rename_i he'
        simp only [Bool.false_eq_true, false_iff, not_and]
        intro _ hex
        apply he'
        rw [he, List.any_eq_true]
        exact hex
  unfold runTask
  cases hc : t.cond with
  | none => simp [hbody, condOk, hc]
  | some c =>
    cases c with
    | exit n =>
      by_cases hn : n = 0#8
      · subst hn; simp [hbody, condOk, hc, CmdResult.began]
      · simp [hn, condOk, hc, CmdResult.began]
    | fault => simp [condOk, hc, CmdResult.began]
    | norender => simp [condOk, hc, CmdResult.began]

/-- **the recorded exit status is the failing command's, for every status 1..255**: in the
situation of `C06_first_failure` with an exit status `n`, `ExitCode = int16(n)` and its value as an
integer is `n` (no sign or truncation problem for 128..255). -/
theorem C07_exit_code (t : TaskSpec) (pre post : List (Nat × Nat)) (v j : Nat) (n : BitVec 8)
    (hallow : t.allow = false) (hc : condOk t) (hb : ∀ r ∈ t.before, r.ok = true)
    (hjobs : jobs t = pre ++ (v, j) :: post)
    (hpre : ∀ p ∈ pre, (t.res p.1 p.2).ok = true) (hres : t.res v j = .exit n) (hn : n ≠ 0#8) :
    (runTask t).exitCode = statusToExit n ∧ (runTask t).exitCode.toInt = n.toNat ∧
      (runTask t).errored = true := by
  have hfail : (t.res v j).ok = false := by simp [hres, CmdResult.ok, hn]
  rw [runTask_of_condOk t hc]
  simp only [runTask.body, runBefore_all_ok 0 t.before hb, hjobs, hallow,
    execute_append_ok false t.res pre _ _ hpre, execute_fail_head t.res v j post _ hfail, hres]
  simp [finalExit, statusToExit_toInt]

/-- **success, or only allowed failures, records 0 and no error** -/
theorem C07_success_zero (t : TaskSpec) (h1 : (runTask t).errored = false)
    (h2 : (runTask t).skipped = false) : (runTask t).exitCode = 0 := by
  have hbody : ∀ pre, (runTask.body t pre).errored = false → (runTask.body t pre).exitCode = 0 := by
    intro pre
    simp only [runTask.body]
    split
    · simp [finalExit]
    · split
      · simp
      · simp [finalExit]
  revert h1 h2
  unfold runTask
  cases hc : t.cond with
  | none => intro h1 _; exact hbody [] h1
  | some c =>
    cases c with
    | exit n =>
      by_cases hn : n = 0#8
      · subst hn; simp only [BEq.rfl, if_true]; intro h1 _; exact hbody _ h1
      · simp [hn]
    | fault => simp [finalExit]
    | norender => simp [finalExit]

/-- with allow_failure and exit statuses only (the C06_allow_runs_all situation) nothing is
reported: no error, not errored, exit code 0 -/
theorem C07_allowed_failures_report_nothing (t : TaskSpec) (hallow : t.allow = true) (hc : condOk t)
    (hb : ∀ r ∈ t.before, r.ok = true) (hexit : ∀ p ∈ jobs t, ∃ n, t.res p.1 p.2 = .exit n) :
    (runTask t).err = false ∧ (runTask t).errored = false ∧ (runTask t).exitCode = 0 := by
  have h := C06_allow_runs_all t hallow hc hb hexit
  refine ⟨h.2.2, h.2.1, C07_success_zero t h.2.1 ?_⟩
  rw [runTask_of_condOk t hc]
  simp only [runTask.body]
  split
  · rfl
  · split <;> rfl

/-- **a skipped task records no exit status and no error** -/
theorem C07_skipped (t : TaskSpec) (h : (runTask t).skipped = true) :
    (runTask t).exitCode = t.initExit ∧ (runTask t).err = false ∧ (runTask t).errored = false ∧
      (runTask t).trace = [Tok.cond] := by
  have hbody : ∀ pre, (runTask.body t pre).skipped = false := by
    intro pre; simp only [runTask.body]; split
    · rfl
    · split <;> rfl
  revert h
  unfold runTask
  cases hc : t.cond with
  | none => simp [hbody]
  | some c =>
    cases c with
    | exit n =>
      by_cases hn : n = 0#8
      · subst hn; simp [hbody]
      · simp [hn, CmdResult.began]
    | fault => simp
    | norender => simp

/-- **`Run` returns an error exactly when** the task is errored, or a `before` command failed, or
the condition could not be evaluated -/
theorem C07_error_returned_iff (t : TaskSpec) :
    (runTask t).err = true ↔
      (runTask t).errored = true ∨
      (condOk t ∧ ∃ r ∈ t.before, r.ok = false) ∨
      (t.cond = some .fault ∨ t.cond = some .norender) := by
  have hbody : ∀ pre, (runTask.body t pre).err = true ↔
      (runTask.body t pre).errored = true ∨ ∃ r ∈ t.before, r.ok = false := by
    intro pre
    simp only [runTask.body]
    have hb := runBefore_failed_iff 0 t.before
    split
    · rename_i hbf
      rw [hbf] at hb
      have := hb.symm
      rw [List.any_eq_true] at this
      obtain ⟨r, hr, h⟩ := this
      simp only [Bool.false_eq_true, false_or, true_iff]
      exact ⟨r, hr, by simpa using h⟩
    · rename_i hbf
      have hnone : ¬ ∃ r ∈ t.before, r.ok = false := by
        rintro ⟨r, hr, h⟩
        apply hbf
        rw [hb, List.any_eq_true]
        exact ⟨r, hr, by simp [h]⟩
      split <;> simp [hnone]
  unfold runTask
  cases hc : t.cond with
  | none => simp [hbody, condOk, hc]
  | some c =>
    cases c with
    | exit n =>
      by_cases hn : n = 0#8
      · subst hn; simp [hbody, condOk, hc]
      · simp [hn, condOk, hc]
    | fault => simp [condOk, hc]
    | norender => simp [condOk, hc]

end Runner

namespace Cli

theorem runTargets_ok_iff (ok : String → Bool) (ts : List String) :
    (runTargets ok ts).2 = true ↔ ∀ t ∈ ts, ok t = true := by
  induction ts with
  | nil => simp [runTargets]
  | cons t ts ih =>
    simp only [runTargets]
    by_cases h : ok t = true
    · simp [h, ih]
    · simp [h]

/-- **the process exits with status zero exactly when every requested target succeeded** -/
theorem C07_cli_exit_zero_iff (ok : String → Bool) (args : List String) :
    (cli ok args).2 = 0 ↔ ∀ t ∈ targetsOf args, ok t = true := by
  unfold cli
  rw [← runTargets_ok_iff]
  cases h : (runTargets ok (targetsOf args)).2 <;> simp [h]

/-- **targets run in command-line order and nothing runs after the first failure**: the executed
targets are the successful prefix, followed by the first failing target if there is one -/
theorem C07_cli_order (ok : String → Bool) (ts : List String) :
    (runTargets ok ts).1 = ts.takeWhile ok ++ ((ts.dropWhile ok).take 1) := by
  induction ts with
  | nil => simp [runTargets]
  | cons t ts ih =>
    simp only [runTargets]
    by_cases h : ok t = true
    · simp [h, ih]
    · simp [h]

theorem C07_cli_nothing_after_failure (ok : String → Bool) (pre post : List String) (f : String)
    (hpre : ∀ t ∈ pre, ok t = true) (hf : ok f = false) :
    runTargets ok (pre ++ f :: post) = (pre ++ [f], false) := by
  induction pre with
  | nil => simp [runTargets, hf]
  | cons t pre ih =>
    have ht := hpre t List.mem_cons_self
    simp [runTargets, ht, ih (fun x hx => hpre x (List.mem_cons_of_mem _ hx))]

/-- nothing after `--` is ever treated as a target -/
theorem C07_cli_targets_before_dashes (pre post : List String) (h : ∀ a ∈ pre, a ≠ "--") :
    targetsOf (pre ++ "--" :: post) = pre := by
  unfold targetsOf
  induction pre with
  | nil => simp
  | cons a pre ih =>
    have ha := h a List.mem_cons_self
    simp [List.takeWhile_cons, ha, ih (fun x hx => h x (List.mem_cons_of_mem _ hx))]

example : cli (fun t => t != "bad") ["a", "bad", "c", "--", "bad"] = (["a", "bad"], 1) := by decide
example : cli (fun t => t != "bad") ["a", "c", "--", "bad"] = (["a", "c"], 0) := by decide

end Cli
