import TaskctlVerif.Props.C09
/-!
# C08 — per-stage overrides stay with their stage

Model: `Model/Layers.lean` (`SS`, `step`): the shared task cell, per-execution copies, and what each
`Run` call received, under **every interleaving** of the micro-steps of any number of stages that
share the task (and of direct runs by others).
-/
namespace Layers
variable {β : Type}

structure Iso (ov : Nat → StageOv β) (t₀ : TaskCfg β) (σ : SS β) : Prop where
  cell   : σ.cell = t₀
  copy   : ∀ i c, σ.copy i = some c → c = t₀
  seen   : ∀ i x, σ.seen i = some x → x = layer t₀ (ov i)
  direct : ∀ x, σ.direct = some x → x = t₀

theorem iso_init (ov : Nat → StageOv β) (t₀ : TaskCfg β) : Iso ov t₀ (init t₀) := by
  constructor <;> simp [init]

theorem iso_step (ov : Nat → StageOv β) (t₀ : TaskCfg β) (σ : SS β) (a : Act) (h : Iso ov t₀ σ) :
    Iso ov t₀ (step ov σ a) := by
  obtain ⟨h1, h2, h3, h4⟩ := h
  cases a with
  | copy i =>
    refine ⟨h1, ?_, h3, h4⟩
    intro j c hc
    simp only [step, upd] at hc
    split at hc
    · cases hc; exact h1
    · exact h2 j c hc
  | run i =>
    simp only [step]
    split
    · rename_i c hc
      refine ⟨h1, h2, ?_, h4⟩
      intro j x hx
      simp only [upd] at hx
      split at hx
      · rename_i hji; subst hji; cases hx; rw [h2 _ c hc]
      · exact h3 j x hx
    · exact ⟨h1, h2, h3, h4⟩
  | writeback i => exact ⟨h1, h2, h3, h4⟩
  | direct =>
    refine ⟨h1, h2, h3, ?_⟩
    intro x hx
    simp only [step] at hx
    cases hx; exact h1

/-- **C08 (isolation)**: for every set of stages sharing a task and every interleaving of their
executions with each other and with direct runs, what `Run` receives for stage `i` is a function of
the *original* task and of stage `i` only; the shared task keeps its own settings; a direct run sees
exactly the task's own settings. -/
theorem C08_isolation (ov : Nat → StageOv β) (t₀ : TaskCfg β) (as : List Act) :
    (run ov (init t₀) as).cell = t₀ ∧
    (∀ i x, (run ov (init t₀) as).seen i = some x → x = layer t₀ (ov i)) ∧
    (∀ x, (run ov (init t₀) as).direct = some x → x = t₀) := by
  suffices ∀ σ, Iso ov t₀ σ → Iso ov t₀ (run ov σ as) by
    have h := this _ (iso_init ov t₀)
    exact ⟨h.cell, h.seen, h.direct⟩
  induction as with
  | nil => intro σ h; exact h
  | cons a as ih => intro σ h; exact ih _ (iso_step ov t₀ σ a h)

/-- **layered over, not replacing**: a stage's value wins for the names it defines, every other
name of the task is kept — for environment and for variables alike; the stage dir wins if given -/
theorem C08_layered (t : TaskCfg β) (s : StageOv β) (k : String) :
    get (layer t s).env k = (get s.env k).or (get t.env k) ∧
    get (layer t s).vars k = (get s.vars k).or (get t.vars k) ∧
    (layer t s).dir = (if s.dir ≠ "" then s.dir else t.dir) := by
  simp [layer, get_merge]

/-- a stage without overrides runs the task unchanged -/
theorem C08_no_override (t : TaskCfg β) : layer t { env := [], vars := [], dir := "" } = t := by
  simp [layer, merge]

/-! ## Regression witnesses for defect D4 (fixed) -/

def wTask : TaskCfg Nat := { env := [("A", 1)], vars := [("x", 5)], dir := "" }
def wOv : Nat → StageOv Nat := fun i =>
  if i = 0 then { env := [("B", 2)], vars := [], dir := "" } else { env := [], vars := [("y", 7)], dir := "" }

/-- stage 1 and a later direct run see stage 0's `B`; stage 1's variables are env ∪ stage
variables: the task's `x` is gone -/
theorem C08_witness_old_leak :
    ((runOld wOv (init wTask) [.run 0, .run 1, .direct]).seen 1).map (fun c => get c.env "B") = some (some 2) ∧
    ((runOld wOv (init wTask) [.run 0, .run 1, .direct]).direct).map (fun c => get c.env "B") = some (some 2) ∧
    ((runOld wOv (init wTask) [.run 0, .run 1, .direct]).seen 1).map (fun c => get c.vars "x") = some none := by
  decide

/-- … while the repaired protocol keeps them apart, in this and (by `C08_isolation`) every order -/
example : ((run wOv (init wTask) [.copy 0, .copy 1, .run 0, .run 1, .writeback 0, .direct]).seen 1).map
    (fun c => (get c.env "B", get c.vars "x", get c.vars "y")) = some (none, some 5, some 7) := by decide

end Layers
