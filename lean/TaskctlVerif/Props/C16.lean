import TaskctlVerif.Model.Decode
import TaskctlVerif.Model.Normalise
/-!
# C16 — YAML, JSON and TOML express the same configuration identically  (**partial**, weakest tie)

Model: `Model/Decode.lean`.  The theorem is about tables that model three third-party parsers and
the weak-typing rules of `mapstructure`; its value is that every native-type case had to be
enumerated, and that the tables are compared with the real parsers on every run.  Everything
downstream of the decoded definition (`buildFromDefinition`, R, S) is a function of the definition,
so equal definitions give equal `list` / `show` / `graph` / run results — which the monitor checks
end to end on the real binary.
-/
namespace Decode

theorem toStr_repr (s : Scalar) : toStr (reprScalar .yaml s) = toStr (reprScalar .json s) ∧
    toStr (reprScalar .yaml s) = toStr (reprScalar .toml s) := by
  cases s <;> simp [reprScalar, toStr]

theorem toBool_repr (s : Scalar) : toBool (reprScalar .yaml s) = toBool (reprScalar .json s) ∧
    toBool (reprScalar .yaml s) = toBool (reprScalar .toml s) := by
  cases s <;> simp [reprScalar, toBool]

/-- **the three representations of the same content decode to the same value**, for every field
content and every target type of the schema — including the weakly typed cases (an integer or a
boolean where a string is expected, a single scalar where a list is expected) -/
theorem C16_field_agree (t : Target) (fld : Field) :
    decode t (reprField .yaml fld) = decode t (reprField .json fld) ∧
    decode t (reprField .yaml fld) = decode t (reprField .toml fld) := by
  have hs := toStr_repr
  have hb := toBool_repr
  have hmap : ∀ (l : List Scalar) (f : Format), (l.map (reprScalar f)).map toStr = l.map (fun s => toStr (reprScalar .yaml s)) := by
    intro l f
    rw [List.map_map]
    apply List.map_congr_left
    intro s _
    cases f
    · rfl
    · exact ((hs s).1).symm
    · exact ((hs s).2).symm
  have hkv : ∀ (kvs : List (String × Scalar)) (f : Format),
      (kvs.map fun kv => (kv.1, reprScalar f kv.2)).map (fun kv => (kv.1, toStr kv.2)) =
        kvs.map (fun kv => (kv.1, toStr (reprScalar .yaml kv.2))) := by
    intro kvs f
    rw [List.map_map]
    apply List.map_congr_left
    intro kv _
    cases f
    · rfl
    · simp [(hs kv.2).1]
    · simp [(hs kv.2).2]
  cases fld with
  | scalar s =>
    cases t <;> simp [decode, reprField, (hs s).1.symm, (hs s).2.symm, (hb s).1.symm, (hb s).2.symm]
  | items l =>
    cases t <;> simp [decode, reprField]
    exact ⟨fun a _ => (hs a).1, fun a _ => (hs a).2⟩
  | dict kvs =>
    cases t <;> simp [decode, reprField]
    exact ⟨fun _ b _ => (hs b).1, fun _ b _ => (hs b).2⟩
  | tables l =>
    cases t <;> simp [decode, reprField]
    exact ⟨fun _ _ _ b _ => (hs b).1, fun _ _ _ b _ => (hs b).2⟩

/-- whole entries and whole sections decode identically from the three formats -/
theorem C16_section_agree (s : Section) :
    decodeSection .yaml s = decodeSection .json s ∧ decodeSection .yaml s = decodeSection .toml s := by
  have he : ∀ (e : Entry), decodeEntry .yaml e = decodeEntry .json e ∧ decodeEntry .yaml e = decodeEntry .toml e := by
    intro e
    unfold decodeEntry
    constructor
    · apply List.map_congr_left; intro x _; rw [(C16_field_agree x.2.1 x.2.2).1]
    · apply List.map_congr_left; intro x _; rw [(C16_field_agree x.2.1 x.2.2).2]
  unfold decodeSection
  constructor
  · apply List.map_congr_left; intro x _; rw [(he x.2).1]
  · apply List.map_congr_left; intro x _; rw [(he x.2).2]

/-- the native types do differ — the agreement is a property of the decoder, not of the parsers -/
theorem C16_natives_differ :
    (reprScalar .yaml (.number 3)).goType = "int" ∧ (reprScalar .json (.number 3)).goType = "float64" ∧
    (reprScalar .toml (.number 3)).goType = "int64" := by decide

/-! ## Non-vacuity: a task with a numeric description, a scalar command and an env map with a number -/
def exEntry : Entry :=
  [("description", .tstring, .scalar (.number 7)), ("command", .tstrings, .scalar (.text "make")),
   ("allow_failure", .tbool, .scalar (.flag true)), ("env", .tstrmap, .dict [("N", .number 12), ("T", .text "t")]),
   ("variations", .tstrmaps, .tables [[("VAL", .text "a")], [("VAL", .number 2)]])]
example : decodeEntry .toml exEntry =
    [("description", .dstring "7"), ("command", .dstrings ["make"]), ("allow_failure", .dbool true),
     ("env", .dstrmap [("N", "12"), ("T", "t")]), ("variations", .dstrmaps [[("VAL", "a")], [("VAL", "2")]])] := by
  decide

end Decode

/-! ## Documents of different formats are brought to one form before a merge (`Model/Normalise.lean`) -/
namespace Normalise

theorem normKind_uniform (k : Kind) : (normKind k == .mapS || normKind k == .listI) = true := by
  cases k <;> rfl

mutual
theorem uniform_norm : ∀ v : V, uniform (norm v) = true
  | .leaf => rfl
  | .node k cs => by
    simp only [norm, uniform, normKind_uniform, Bool.true_and]
    exact uniformList_normList cs
theorem uniformList_normList : ∀ vs : List V, uniformList (normList vs) = true
  | [] => rfl
  | c :: cs => by
    simp only [normList, uniformList, uniform_norm c, Bool.true_and]
    exact uniformList_normList cs
end

theorem isMapKind_normKind (k : Kind) : isMapKind (normKind k) = isMapKind k := by
  cases k <;> rfl

mutual
/-- normalising changes kinds only: the content (which nodes are mappings, which are lists, in which
order) is what it was -/
theorem shape_norm : ∀ v : V, shape (norm v) = shape v
  | .leaf => rfl
  | .node k cs => by
    simp only [norm, shape, isMapKind_normKind]
    rw [shapeList_normList cs]
theorem shapeList_normList : ∀ vs : List V, shapeList (normList vs) = shapeList vs
  | [] => rfl
  | c :: cs => by
    simp only [normList, shapeList, shape_norm c]
    rw [shapeList_normList cs]
end

mutual
theorem norm_of_uniform : ∀ v : V, uniform v = true → norm v = v
  | .leaf, _ => rfl
  | .node k cs, h => by
    simp only [uniform, Bool.and_eq_true, Bool.or_eq_true, beq_iff_eq] at h
    simp only [norm]
    rw [normList_of_uniformList cs h.2]
    rcases h.1 with rfl | rfl <;> rfl
theorem normList_of_uniformList : ∀ vs : List V, uniformList vs = true → normList vs = vs
  | [], _ => rfl
  | c :: cs, h => by
    simp only [uniformList, Bool.and_eq_true] at h
    simp only [normList]
    rw [norm_of_uniform c h.1, normList_of_uniformList cs h.2]
end

/-- normalising twice is normalising once (a document that went through one merge is left alone by
the next) -/
theorem norm_idem (v : V) : norm (norm v) = norm v := norm_of_uniform _ (uniform_norm v)

theorem any_isMapS_pureI : ∀ vs : List V, pureIList vs = true → vs.any isMapS = false
  | [], _ => rfl
  | c :: cs, h => by
    simp only [pureIList, Bool.and_eq_true] at h
    simp only [List.any_cons, any_isMapS_pureI cs h.2, Bool.or_false]
    cases c with
    | leaf => rfl
    | node k ds =>
      simp only [pureI, Bool.and_eq_true, Bool.or_eq_true, beq_iff_eq] at h
      rcases h.1.1 with rfl | rfl <;> rfl

/-- **what `unifyMapKinds` establishes before every merge**: either it normalises, and then both
documents are uniform (string-keyed mappings and plain lists only - the kinds `mergo` can merge and
append), with their content unchanged; or it leaves both alone, and then neither has a string-keyed
mapping among its top-level values.  In particular two YAML documents stay as they are, and as soon
as one of the two came from JSON or TOML (or from an earlier mixed merge) and has a section, both end
up in the common form. -/
theorem C16_unify (a b : List V) :
    ((a.any isMapS || b.any isMapS) = true →
      uniformList (unify a b).1 = true ∧ uniformList (unify a b).2 = true ∧
      shapeList (unify a b).1 = shapeList a ∧ shapeList (unify a b).2 = shapeList b) ∧
    ((a.any isMapS || b.any isMapS) = false → unify a b = (a, b)) := by
  constructor
  · intro h
    simp only [unify, h, if_true]
    exact ⟨uniformList_normList a, uniformList_normList b, shapeList_normList a, shapeList_normList b⟩
  · intro h
    simp only [unify, h]
    rfl

/-- two YAML documents are left as yaml.v2 made them -/
theorem C16_unify_yaml_yaml (a b : List V) (ha : pureIList a = true) (hb : pureIList b = true) :
    unify a b = (a, b) := by
  apply (C16_unify a b).2
  rw [any_isMapS_pureI a ha, any_isMapS_pureI b hb]
  rfl

-- a TOML document with an array of tables next to a YAML document defining the same section
example : unify [.node .mapS [.node .listM [.node .mapS [.leaf]]]] [.node .mapI [.node .listI [.node .mapI [.leaf]]]] =
    ([.node .mapS [.node .listI [.node .mapS [.leaf]]]], [.node .mapS [.node .listI [.node .mapS [.leaf]]]]) := by
  simp [unify, isMapS, norm, normList, normKind]

end Normalise

