import TaskctlVerif.Model.Decode
/-!
# C16 — YAML, JSON and TOML express the same configuration identically  (**partial**, weakest tie)

Model: `Model/Decode.lean`.  The theorem is about tables that model three third-party parsers and
the weak-typing rules of `mapstructure`; its value is that every native-type case had to be
enumerated, and that the tables are compared with the real parsers on every run.  Everything
downstream of the decoded definition (`buildFromDefinition`, R, S) is a function of the definition,
so equal definitions give equal `list` / `show` / `graph` / run results — which the monitor checks
end to end on the real binary.
-/
namespace Decode

theorem toStr_repr (s : Scalar) : toStr (reprScalar .yaml s) = toStr (reprScalar .json s) ∧
    toStr (reprScalar .yaml s) = toStr (reprScalar .toml s) := by
  cases s <;> simp [reprScalar, toStr]

theorem toBool_repr (s : Scalar) : toBool (reprScalar .yaml s) = toBool (reprScalar .json s) ∧
    toBool (reprScalar .yaml s) = toBool (reprScalar .toml s) := by
  cases s <;> simp [reprScalar, toBool]

/-- **the three representations of the same content decode to the same value**, for every field
content and every target type of the schema — including the weakly typed cases (an integer or a
boolean where a string is expected, a single scalar where a list is expected) -/
theorem C16_field_agree (t : Target) (fld : Field) :
    decode t (reprField .yaml fld) = decode t (reprField .json fld) ∧
    decode t (reprField .yaml fld) = decode t (reprField .toml fld) := by
  have hs := toStr_repr
  have hb := toBool_repr
  have hmap : ∀ (l : List Scalar) (f : Format), (l.map (reprScalar f)).map toStr = l.map (fun s => toStr (reprScalar .yaml s)) := by
    intro l f
    rw [List.map_map]
    apply List.map_congr_left
    intro s _
    cases f
    · rfl
    · exact ((hs s).1).symm
    · exact ((hs s).2).symm
  have hkv : ∀ (kvs : List (String × Scalar)) (f : Format),
      (kvs.map fun kv => (kv.1, reprScalar f kv.2)).map (fun kv => (kv.1, toStr kv.2)) =
        kvs.map (fun kv => (kv.1, toStr (reprScalar .yaml kv.2))) := by
    intro kvs f
    rw [List.map_map]
    apply List.map_congr_left
    intro kv _
    cases f
    · rfl
    · simp [(hs kv.2).1]
    · simp [(hs kv.2).2]
  cases fld with
  | scalar s =>
    cases t <;> simp [decode, reprField, (hs s).1.symm, (hs s).2.symm, (hb s).1.symm, (hb s).2.symm]
  | items l =>
    cases t <;> simp [decode, reprField]
    exact ⟨fun a _ => (hs a).1, fun a _ => (hs a).2⟩
  | dict kvs =>
    cases t <;> simp [decode, reprField]
    exact ⟨fun _ b _ => (hs b).1, fun _ b _ => (hs b).2⟩
  | tables l =>
    cases t <;> simp [decode, reprField]
    exact ⟨fun _ _ _ b _ => (hs b).1, fun _ _ _ b _ => (hs b).2⟩

/-- whole entries and whole sections decode identically from the three formats -/
theorem C16_section_agree (s : Section) :
    decodeSection .yaml s = decodeSection .json s ∧ decodeSection .yaml s = decodeSection .toml s := by
  have he : ∀ (e : Entry), decodeEntry .yaml e = decodeEntry .json e ∧ decodeEntry .yaml e = decodeEntry .toml e := by
    intro e
    unfold decodeEntry
    constructor
    · apply List.map_congr_left; intro x _; rw [(C16_field_agree x.2.1 x.2.2).1]
    · apply List.map_congr_left; intro x _; rw [(C16_field_agree x.2.1 x.2.2).2]
  unfold decodeSection
  constructor
  · apply List.map_congr_left; intro x _; rw [(he x.2).1]
  · apply List.map_congr_left; intro x _; rw [(he x.2).2]

/-- the native types do differ — the agreement is a property of the decoder, not of the parsers -/
theorem C16_natives_differ :
    (reprScalar .yaml (.number 3)).goType = "int" ∧ (reprScalar .json (.number 3)).goType = "float64" ∧
    (reprScalar .toml (.number 3)).goType = "int64" := by decide

/-! ## Non-vacuity: a task with a numeric description, a scalar command and an env map with a number -/
def exEntry : Entry :=
  [("description", .tstring, .scalar (.number 7)), ("command", .tstrings, .scalar (.text "make")),
   ("allow_failure", .tbool, .scalar (.flag true)), ("env", .tstrmap, .dict [("N", .number 12), ("T", .text "t")]),
   ("variations", .tstrmaps, .tables [[("VAL", .text "a")], [("VAL", .number 2)]])]
example : decodeEntry .toml exEntry =
    [("description", .dstring "7"), ("command", .dstrings ["make"]), ("allow_failure", .dbool true),
     ("env", .dstrmap [("N", "12"), ("T", "t")]), ("variations", .dstrmaps [[("VAL", "a")], [("VAL", "2")]])] := by
  decide

end Decode
