import TaskctlVerif.Proofs.Sched
import TaskctlVerif.Model.SchedLoops
namespace SchedLoops
open Sched

def LSat (c : Cfg) (σ : LSt) (d : Nat) : Prop :=
  σ.status d = .done ∨ σ.status d = .skipped ∨ (σ.status d = .error ∧ c.allow d = true)

structure LInv (c : Cfg) (σ : LSt) : Prop where
  g_none  : ∀ s, σ.g s = .none → σ.status s = .waiting ∨ σ.status s = .skipped ∨ σ.status s = .canceled ∨ σ.status s = .error
  g_run   : ∀ s, σ.g s = .inRun → σ.status s = .running
  run_g   : ∀ s, σ.status s = .running → σ.g s = .inRun
  g_after : ∀ s, σ.g s = .afterErr → σ.status s = .error
  g_fin   : ∀ s, σ.g s = .fin → σ.status s = .done ∨ σ.status s = .error
  started : ∀ s, σ.g s ≠ .none → ∀ d ∈ c.deps s, LSat c σ d
  skip_c  : ∀ s, σ.status s = .skipped → c.cond s = .fails
  err_c   : ∀ s, σ.g s = .none → σ.status s = .error → c.cond s = .err
  chk     : ∀ l s rest ready, σ.pc l = .check s rest ready →
              (c.cond s ≠ .fails ∧ c.cond s ≠ .err) ∧ (∀ d ∈ rest, d ∈ c.deps s) ∧
              (ready = true → ∀ d ∈ c.deps s, d ∈ rest ∨ LSat c σ d)

theorem lgcases (σ : LSt) (s : Nat) : σ.g s = .none ∨ σ.g s = .inRun ∨ σ.g s = .afterErr ∨ σ.g s = .fin := by
  cases σ.g s <;> simp

theorem linv_init (c : Cfg) : LInv c linit := by
  constructor <;> simp [linit]

macro "close_linv" : tactic =>
  `(tactic| (constructor <;> (dsimp only [] <;> intros <;> grind [LSat, lgcases])))

theorem linv_read (c : Cfg) (σ : LSt) (l : Nat) (h : LInv c σ) : LInv c (lstep c σ (.read l)) := by
  obtain ⟨g_none, g_run, run_g, g_after, g_fin, started, skip_c, err_c, chk⟩ := h
  simp only [lstep]
  split
  · rename_i s d rest ready hpc
    have hc := chk _ _ _ _ hpc
    have hg := lgcases σ s
    have hd : d ∈ c.deps s := hc.2.1 d List.mem_cons_self
    have hsat : σ.g s ≠ .none → LSat c σ d := fun hgs => started s hgs d hd
    have hrest : ∀ x ∈ rest, x ∈ c.deps s := fun x hx => hc.2.1 x (List.mem_cons_of_mem _ hx)
    split
    · close_linv
    · close_linv
    · split
      · close_linv
      · close_linv
    · close_linv
    · close_linv
  · exact ⟨g_none, g_run, run_g, g_after, g_fin, started, skip_c, err_c, chk⟩

theorem linv_visit (c : Cfg) (σ : LSt) (l s : Nat) (h : LInv c σ) : LInv c (lstep c σ (.visit l s)) := by
  obtain ⟨g_none, g_run, run_g, g_after, g_fin, started, skip_c, err_c, chk⟩ := h
  simp only [lstep]
  split
  · split
    · split
      · close_linv
      · close_linv
      · close_linv
    · exact ⟨g_none, g_run, run_g, g_after, g_fin, started, skip_c, err_c, chk⟩
  · exact ⟨g_none, g_run, run_g, g_after, g_fin, started, skip_c, err_c, chk⟩

theorem linv_decide (c : Cfg) (σ : LSt) (l : Nat) (h : LInv c σ) : LInv c (lstep c σ (.decide l)) := by
  obtain ⟨g_none, g_run, run_g, g_after, g_fin, started, skip_c, err_c, chk⟩ := h
  simp only [lstep]
  split
  · rename_i s ready hpc
    have hc := chk _ _ _ _ hpc
    split
    · close_linv
    · close_linv
  · exact ⟨g_none, g_run, run_g, g_after, g_fin, started, skip_c, err_c, chk⟩

theorem linv_ret (c : Cfg) (σ : LSt) (s : Nat) (ok : Bool) (h : LInv c σ) : LInv c (lstep c σ (.ret s ok)) := by
  obtain ⟨g_none, g_run, run_g, g_after, g_fin, started, skip_c, err_c, chk⟩ := h
  simp only [lstep]
  split
  · split
    · close_linv
    · close_linv
  · exact ⟨g_none, g_run, run_g, g_after, g_fin, started, skip_c, err_c, chk⟩

theorem linv_post (c : Cfg) (σ : LSt) (s : Nat) (h : LInv c σ) : LInv c (lstep c σ (.post s)) := by
  obtain ⟨g_none, g_run, run_g, g_after, g_fin, started, skip_c, err_c, chk⟩ := h
  simp only [lstep]
  split
  · split
    · close_linv
    · close_linv
  · exact ⟨g_none, g_run, run_g, g_after, g_fin, started, skip_c, err_c, chk⟩

theorem linv_step (c : Cfg) (σ : LSt) (a : LAct) (h : LInv c σ) : LInv c (lstep c σ a) := by
  cases a with
  | visit l s => exact linv_visit c σ l s h
  | read l => exact linv_read c σ l h
  | decide l => exact linv_decide c σ l h
  | ret s ok => exact linv_ret c σ s ok h
  | post s => exact linv_post c σ s h
  | cancel =>
    obtain ⟨g_none, g_run, run_g, g_after, g_fin, started, skip_c, err_c, chk⟩ := h
    exact ⟨g_none, g_run, run_g, g_after, g_fin, started, skip_c, err_c, chk⟩

theorem linv_run (c : Cfg) (as : List LAct) : LInv c (lrun c linit as) := by
  suffices ∀ σ, LInv c σ → LInv c (lrun c σ as) from this _ (linv_init c)
  induction as with
  | nil => intro σ h; exact h
  | cons a as ih => intro σ h; exact ih _ (linv_step c σ a h)

end SchedLoops
