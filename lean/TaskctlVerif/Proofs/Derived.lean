import TaskctlVerif.Model.Derived
import TaskctlVerif.Props.C09
/-!
Helper lemmas about `Model/Derived.lean`: rendering depends on what the references resolve to only; the in-place loop
keeps an invariant relating the map being rewritten to the map it started from.
-/
namespace Derived
open Layers

theorem render_plain (m : Env Tmpl) (t : Tmpl) (h : plain t = true) : render m t = some (text t) := by
  induction t with
  | nil => rfl
  | cons seg r ih =>
    cases seg with
    | lit s => simp only [plain] at h; simp [render, text, ih h]
    | ref k d => simp [plain] at h

theorem render_congr (m m' : Env Tmpl) (t : Tmpl) (h : ∀ k ∈ refs t, ∀ d, resolve m k d = resolve m' k d) :
    render m t = render m' t := by
  induction t with
  | nil => rfl
  | cons seg r ih =>
    cases seg with
    | lit s =>
      have := ih (fun k hk => h k (by simpa [refs] using hk))
      simp [render, this]
    | ref k d =>
      have h1 := ih (fun k' hk => h k' (by simp [refs, hk]))
      have h2 := h k (by simp [refs]) d
      simp [render, h1, h2]

theorem render_lit (m : Env Tmpl) (s : String) : render m [.lit s] = some s := by
  simp [render]

theorem resolve_lit (m : Env Tmpl) (k s : String) (d : Option String) (h : get m k = some [.lit s]) :
    resolve m k d = some s := by
  simp [resolve, h, plain, text]

/-- the value the loop leaves for `k`: its original value, rendered against the original map -/
def rendered (m0 : Env Tmpl) (k : String) : Option Tmpl :=
  match get m0 k with
  | none => none
  | some t => (render m0 t).map fun s => [.lit s]

/-- every entry is still the original one, or the original one rendered against the original map -/
def Inv (m0 m : Env Tmpl) : Prop :=
  ∀ k, get m k = get m0 k ∨ ∃ t s, get m0 k = some t ∧ render m0 t = some s ∧ get m k = some [.lit s]

/-- a key references may name: no variable, or a value without references -/
def Safe (m0 : Env Tmpl) (k : String) : Prop := ∀ t, get m0 k = some t → plain t = true

theorem inv_refl (m0 : Env Tmpl) : Inv m0 m0 := fun _ => Or.inl rfl

theorem inv_resolve (m0 m : Env Tmpl) (k : String) (d : Option String) (hi : Inv m0 m) (hs : Safe m0 k) :
    resolve m k d = resolve m0 k d := by
  rcases hi k with h | ⟨t, s, h0, hr, hm⟩
  · simp [resolve, h]
  · have hp := hs t h0
    have := render_plain m0 t hp
    rw [hr] at this
    have hs' : s = text t := by simpa using this
    rw [resolve_lit m k s d hm]
    simp [resolve, h0, hp, hs']

theorem flat_safe (m0 : Env Tmpl) (hf : Flat m0) (k : String) (t : Tmpl) (h : get m0 k = some t) :
    ∀ k' ∈ refs t, Safe m0 k' := fun k' hk t' ht' => hf k t h k' hk t' ht'

theorem inv_render (m0 m : Env Tmpl) (hf : Flat m0) (hi : Inv m0 m) (k : String) (t : Tmpl) (h : get m0 k = some t) :
    render m t = render m0 t :=
  render_congr m m0 t fun k' hk d => inv_resolve m0 m k' d hi (flat_safe m0 hf k t h k' hk)

theorem step_spec (m0 m m1 : Env Tmpl) (hf : Flat m0) (hi : Inv m0 m) (k : String) (hs : step m k = some m1) :
    Inv m0 m1 ∧ get m1 k = rendered m0 k ∧ ∀ k', k' ≠ k → get m1 k' = get m k' := by
  unfold step at hs
  cases hg : get m k with
  | none =>
    rw [hg] at hs
    have : m1 = m := by simpa using hs.symm
    subst this
    refine ⟨hi, ?_, fun _ _ => rfl⟩
    rcases hi k with h | ⟨t, s, _, _, hm⟩
    · rw [hg] at h
      simp [rendered, ← h, hg]
    · rw [hg] at hm; cases hm
  | some t =>
    rw [hg] at hs
    cases hr : render m t with
    | none => simp [hr] at hs
    | some s =>
      have : m1 = withKey m k [.lit s] := by simpa [hr] using hs.symm
      subst this
      have hk : get (withKey m k [.lit s]) k = some [.lit s] := by simp [get_withKey]
      have hne : ∀ k', k' ≠ k → get (withKey m k [.lit s]) k' = get m k' := by
        intro k' h; simp [get_withKey, h]
      -- the original value of k and its rendering against the original map
      have horig : ∃ t0, get m0 k = some t0 ∧ render m0 t0 = some s := by
        rcases hi k with h | ⟨t0, s0, h0, hr0, hm⟩
        · rw [hg] at h
          exact ⟨t, h.symm, by rw [← inv_render m0 m hf hi k t h.symm]; exact hr⟩
        · rw [hg] at hm
          have : t = [.lit s0] := by simpa using hm
          subst this
          rw [render_lit] at hr
          have : s0 = s := by simpa using hr
          subst this
          exact ⟨t0, h0, hr0⟩
      obtain ⟨t0, h0, hr0⟩ := horig
      refine ⟨?_, ?_, hne⟩
      · intro k'
        by_cases hkk : k' = k
        · subst hkk
          exact Or.inr ⟨t0, s, h0, hr0, hk⟩
        · rw [hne k' hkk]; exact hi k'
      · simp [hk, rendered, h0, hr0]

theorem step_none (m0 m : Env Tmpl) (hf : Flat m0) (hi : Inv m0 m) (k : String) :
    step m k = none ↔ ∃ t, get m0 k = some t ∧ render m0 t = none := by
  unfold step
  cases hg : get m k with
  | none =>
    simp only [reduceCtorEq, false_iff]
    rintro ⟨t, h0, _⟩
    rcases hi k with h | ⟨_, _, _, _, hm⟩
    · rw [hg, h0] at h; cases h
    · rw [hg] at hm; cases hm
  | some t =>
    rcases hi k with h | ⟨t0, s0, h0, hr0, hm⟩
    · rw [hg] at h
      have := inv_render m0 m hf hi k t h.symm
      constructor
      · intro hn
        refine ⟨t, h.symm, ?_⟩
        rw [← this]
        cases hr : render m t with
        | none => rfl
        | some s => simp [hr] at hn
      · rintro ⟨t', h0', hn⟩
        rw [← h] at h0'
        have : t = t' := by simpa using h0'
        subst this
        rw [← this] at hn
        simp [hn]
    · rw [hg] at hm
      have : t = [.lit s0] := by simpa using hm
      subst this
      constructor
      · intro hn; simp [render_lit] at hn
      · rintro ⟨t', h0', hn⟩
        rw [h0] at h0'
        have : t0 = t' := by simpa using h0'
        subst this
        rw [hr0] at hn; cases hn

theorem loop_spec_gen (m0 : Env Tmpl) (hf : Flat m0) (ks : List String) :
    ∀ m m', Inv m0 m → loop m ks = some m' →
      Inv m0 m' ∧ ∀ k, get m' k = if k ∈ ks then rendered m0 k else get m k := by
  induction ks with
  | nil =>
    intro m m' hi h
    have : m' = m := by simpa [loop] using h.symm
    subst this
    exact ⟨hi, fun k => by simp⟩
  | cons k0 ks ih =>
    intro m m' hi h
    simp only [loop] at h
    cases hs : step m k0 with
    | none => simp [hs] at h
    | some m1 =>
      rw [hs] at h
      obtain ⟨hi1, hk0, hne⟩ := step_spec m0 m m1 hf hi k0 hs
      obtain ⟨hi', hall⟩ := ih m1 m' hi1 h
      refine ⟨hi', fun k => ?_⟩
      rw [hall k]
      by_cases hin : k ∈ ks
      · simp [hin]
      · by_cases hk : k = k0
        · subst hk; simp [hin, hk0]
        · simp [hin, hk, hne k hk]

theorem loop_none_gen (m0 : Env Tmpl) (hf : Flat m0) (ks : List String) :
    ∀ m, Inv m0 m → (loop m ks = none ↔ ∃ k ∈ ks, ∃ t, get m0 k = some t ∧ render m0 t = none) := by
  induction ks with
  | nil => intro m _; simp [loop]
  | cons k0 ks ih =>
    intro m hi
    simp only [loop]
    cases hs : step m k0 with
    | none =>
      have := (step_none m0 m hf hi k0).mp hs
      simp only [true_iff]
      exact ⟨k0, by simp, this⟩
    | some m1 =>
      obtain ⟨hi1, _, _⟩ := step_spec m0 m m1 hf hi k0 hs
      rw [ih m1 hi1]
      have hnot : ¬ ∃ t, get m0 k0 = some t ∧ render m0 t = none := by
        intro h
        have := (step_none m0 m hf hi k0).mpr h
        rw [hs] at this; cases this
      constructor
      · rintro ⟨k, hk, h⟩; exact ⟨k, by simp [hk], h⟩
      · rintro ⟨k, hk, h⟩
        rcases List.mem_cons.mp hk with rfl | hk
        · exact absurd h hnot
        · exact ⟨k, hk, h⟩

theorem lookup_mem (m : Env Tmpl) (k : String) (t : Tmpl) (h : Layers.get m k = some t) : (k, t) ∈ m := by
  induction m with
  | nil => simp [Layers.get] at h
  | cons e r ih =>
    obtain ⟨k', t'⟩ := e
    simp only [Layers.get, List.lookup_cons] at h
    by_cases hk : k = k'
    · subst hk
      simp at h
      subst h
      simp
    · have : (k == k') = false := by simpa using hk
      rw [this] at h
      exact List.mem_cons_of_mem _ (ih h)

theorem flatB_flat (m : Env Tmpl) (h : flatB m = true) : Flat m := by
  intro k t hg k' hk t' ht'
  have hmem := lookup_mem m k t hg
  simp only [flatB, List.all_eq_true] at h
  have := h (k, t) hmem k' hk
  simpa [ht'] using this

end Derived
