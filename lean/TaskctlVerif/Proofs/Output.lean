import TaskctlVerif.Model.Output
/-!
# Lemmas for C19: nothing is lost by the line splitter under any chunking
-/
namespace Out


theorem N_append (a b : Bytes) : N (a ++ b) = N a ++ N b := by simp [N]

theorem N_dropLast_CR (l : Bytes) (h : l.getLast? = some CR) : N l.dropLast = N l := by
  induction l with
  | nil => rfl
  | cons x xs ih =>
    cases xs with
    | nil =>
      simp at h; subst h; simp [N, CR, LF]
    | cons y ys =>
      have h' : (y :: ys).getLast? = some CR := by simpa [List.getLast?_cons_cons] using h
      have := ih h'
      simp only [List.dropLast_cons_cons]
      simp only [N, List.filter_cons] at this ⊢
      split <;> simp_all

theorem N_dropCR (l : Bytes) : N (dropCR l) = N l := by
  unfold dropCR; split
  · exact N_dropLast_CR l ‹_›
  · rfl

theorem N_flatten_filter (ls : List Bytes) : N ((ls.filter (· ≠ [])).flatten) = N ls.flatten := by
  induction ls with
  | nil => rfl
  | cons l ls ih =>
    by_cases h : l = []
    · subst h; simpa using ih
    · have ih' : N (List.filter (fun x => !decide (x = [])) ls).flatten = N ls.flatten := by simpa using ih
      simp [h, N_append, ih']

theorem N_flatten_map_dropCR (ls : List Bytes) : N ((ls.map dropCR).flatten) = N ls.flatten := by
  induction ls with
  | nil => rfl
  | cons l ls ih => simp [N_append, N_dropCR, ih]

theorem N_splitLF (acc l : Bytes) : N (splitLF acc l).flatten = N (acc.reverse ++ l) := by
  induction l generalizing acc with
  | nil => simp only [splitLF]; split <;> simp_all [N]
  | cons b rest ih =>
    simp only [splitLF]
    split
    · rename_i hb; subst hb
      simp only [List.flatten_cons, N_append, ih, List.reverse_nil, List.nil_append]
      simp [N, LF]
    · rw [ih]; simp

theorem N_tokens (chunk : Bytes) : N (tokens chunk).flatten = N chunk := by
  unfold tokens
  rw [N_flatten_filter, N_flatten_map_dropCR, N_splitLF]; simp

/-- every emitted token is LF-free: one token = (part of) one line -/
theorem splitLF_no_LF (acc l : Bytes) (hacc : LF ∉ acc) : ∀ t ∈ splitLF acc l, LF ∉ t := by
  induction l generalizing acc with
  | nil => simp only [splitLF]; split <;> simp_all
  | cons b rest ih =>
    simp only [splitLF]
    split
    · intro t ht
      rcases List.mem_cons.mp ht with rfl | ht
      · simpa using hacc
      · exact ih [] (by simp) t ht
    · rename_i hb
      exact ih (b :: acc) (by simp [hacc]; exact fun h => hb h.symm)


end Out
