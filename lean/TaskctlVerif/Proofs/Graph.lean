import TaskctlVerif.Model.Graph
/-!
# Proofs about the graph model (C05): on-path DFS ⇔ reachable cycle, and `build` ⇔ `HasCycle`.
-/
namespace Graph
variable {α : Type} [DecidableEq α]

inductive Reach (adj : α → List α) : α → α → Prop
  | refl (a) : Reach adj a a
  | step {a b c} : b ∈ adj a → Reach adj b c → Reach adj a c

/-- `a` lies on a cycle of length ≥ 1 (a self-loop is a cycle) -/
def OnCycle (adj : α → List α) (a : α) : Prop := ∃ b, b ∈ adj a ∧ Reach adj b a

/-- the depends_on relation, given as an edge list, contains a cycle -/
def HasCycle (es : List (Edge α)) : Prop := ∃ a, OnCycle (fromOf es) a

theorem Reach.trans {adj : α → List α} {a b c} (h1 : Reach adj a b) (h2 : Reach adj b c) :
    Reach adj a c := by
  induction h1 with
  | refl => exact h2
  | step hb _ ih => exact .step hb (ih h2)

theorem Reach.mono {adj adj' : α → List α} (h : ∀ a b, b ∈ adj a → b ∈ adj' a) {a b}
    (hr : Reach adj a b) : Reach adj' a b := by
  induction hr with
  | refl => exact .refl _
  | step hb _ ih => exact .step (h _ _ hb) ih

/-- what a positive answer means -/
def Hit (adj : α → List α) (path : List α) (t : α) : Prop :=
  (∃ p, p ∈ path ∧ Reach adj t p) ∨ (∃ a, Reach adj t a ∧ OnCycle adj a)

theorem dfs_sound (adj : α → List α) : ∀ f path t, dfs adj f path t = true → Hit adj path t := by
  intro f
  induction f with
  | zero => intro path t h; simp [dfs] at h
  | succ f ih =>
    intro path t h
    simp only [dfs] at h
    split at h
    · rename_i hm; exact .inl ⟨t, hm, .refl t⟩
    · rw [List.any_eq_true] at h
      obtain ⟨nx, hnx, hd⟩ := h
      rcases ih _ _ hd with ⟨p, hp, hr⟩ | ⟨a, hr, hc⟩
      · rw [List.mem_cons] at hp
        rcases hp with rfl | hp
        · exact .inr ⟨p, .refl p, nx, hnx, hr⟩
        · exact .inl ⟨p, hp, .step hnx hr⟩
      · exact .inr ⟨a, .step hnx hr, hc⟩

/-- number of universe nodes not yet on the path: the termination measure -/
def cnt (nodes path : List α) : Nat := (nodes.filter (fun x => decide (x ∉ path))).length

theorem filter_len_le (p q : α → Bool) (h : ∀ x, p x = true → q x = true) (l : List α) :
    (l.filter p).length ≤ (l.filter q).length := by
  induction l with
  | nil => simp
  | cons x xs ih =>
    simp only [List.filter_cons]
    by_cases hp : p x = true
    · simp [hp, h x hp]; exact ih
    · by_cases hq : q x = true
      · simp [hp, hq]; omega
      · simp [hp, hq]; exact ih

theorem cnt_cons_le (nodes path : List α) (t : α) : cnt nodes (t :: path) ≤ cnt nodes path := by
  unfold cnt
  apply filter_len_le
  intro x; simp

theorem cnt_cons_lt (nodes path : List α) (t : α) (hn : t ∈ nodes) (hp : t ∉ path) :
    cnt nodes (t :: path) < cnt nodes path := by
  induction nodes with
  | nil => cases hn
  | cons x xs ih =>
    by_cases hx : x = t
    · subst hx
      have h1 := cnt_cons_le xs path x
      unfold cnt at *
      simp only [List.filter_cons]
      simp [hp]
      simp at h1
      omega
    · have hn' : t ∈ xs := by
        rcases List.mem_cons.mp hn with h | h
        · exact absurd h.symm hx
        · exact h
      have := ih hn'
      unfold cnt at *
      simp only [List.filter_cons]
      by_cases hxp : x ∈ path
      · simp [hxp]; simpa using this
      · simp [hxp, hx]; simpa using this

theorem dfs_complete (adj : α → List α) (nodes : List α) (hnodes : ∀ t, adj t ≠ [] → t ∈ nodes) :
    ∀ f path t, cnt nodes path < f → Hit adj path t → dfs adj f path t = true := by
  intro f
  induction f with
  | zero => intro path t h; omega
  | succ f ih =>
    intro path t hf hit
    simp only [dfs]
    split
    · rfl
    · rename_i hm
      rw [List.any_eq_true]
      have key : ∀ nx, nx ∈ adj t → Hit adj (t :: path) nx →
          ∃ x, x ∈ adj t ∧ dfs adj f (t :: path) x = true := by
        intro nx hnx h
        have ht : t ∈ nodes := hnodes t (by intro e; rw [e] at hnx; cases hnx)
        have := cnt_cons_lt nodes path t ht hm
        exact ⟨nx, hnx, ih _ _ (by omega) h⟩
      rcases hit with ⟨p, hp, hr⟩ | ⟨a, hr, hc⟩
      · cases hr with
        | refl => exact absurd hp hm
        | step hb hr' => exact key _ hb (.inl ⟨p, List.mem_cons_of_mem _ hp, hr'⟩)
      · cases hr with
        | refl =>
          obtain ⟨b, hb, hbr⟩ := hc
          exact key _ hb (.inl ⟨t, List.mem_cons_self, hbr⟩)
        | step hb hr' => exact key _ hb (.inr ⟨a, hr', hc⟩)

/-- with an empty path and enough fuel the DFS answers exactly "a cycle is reachable from t" -/
theorem dfs_iff (adj : α → List α) (nodes : List α) (hnodes : ∀ t, adj t ≠ [] → t ∈ nodes) (t : α) :
    dfs adj (nodes.length + 1) [] t = true ↔ ∃ a, Reach adj t a ∧ OnCycle adj a := by
  constructor
  · intro h
    rcases dfs_sound adj _ _ _ h with ⟨p, hp, _⟩ | h
    · cases hp
    · exact h
  · intro h
    apply dfs_complete adj nodes hnodes
    · unfold cnt
      have := List.length_filter_le (fun x => decide (x ∉ ([] : List α))) nodes
      omega
    · exact .inr h

/-! ## Edge lists -/

theorem mem_fromOf {es : List (Edge α)} {a b : α} : b ∈ fromOf es a ↔ (a, b) ∈ es := by
  unfold fromOf
  simp only [List.mem_map, List.mem_filter, decide_eq_true_eq]
  constructor
  · rintro ⟨⟨x, y⟩, ⟨hm, rfl⟩, rfl⟩; exact hm
  · intro h; exact ⟨(a, b), ⟨h, rfl⟩, rfl⟩

theorem mem_toOf {es : List (Edge α)} {a b : α} : a ∈ toOf es b ↔ (a, b) ∈ es := by
  unfold toOf
  simp only [List.mem_map, List.mem_filter, decide_eq_true_eq]
  constructor
  · rintro ⟨⟨x, y⟩, ⟨hm, rfl⟩, rfl⟩; exact hm
  · intro h; exact ⟨(a, b), ⟨h, rfl⟩, rfl⟩

theorem HasCycle.mono {es es' : List (Edge α)} (h : ∀ e, e ∈ es → e ∈ es') :
    HasCycle es → HasCycle es' := by
  rintro ⟨a, b, hb, hr⟩
  have hm : ∀ a b, b ∈ fromOf es a → b ∈ fromOf es' a :=
    fun a b hab => mem_fromOf.mpr (h _ (mem_fromOf.mp hab))
  exact ⟨a, b, hm _ _ hb, hr.mono hm⟩

/-- a path in the graph with one more edge `f → t` either avoids the new edge or passes through it -/
theorem reach_split (es : List (Edge α)) (f t : α) {x y : α}
    (h : Reach (fromOf (es ++ [(f, t)])) x y) :
    Reach (fromOf es) x y ∨ (Reach (fromOf es) x f ∧ Reach (fromOf (es ++ [(f, t)])) t y) := by
  induction h with
  | refl a => exact .inl (.refl a)
  | @step a b c hb hr ih =>
    have hb' := mem_fromOf.mp hb
    rw [List.mem_append] at hb'
    rcases hb' with hb' | hb'
    · rcases ih with ih | ⟨ih1, ih2⟩
      · exact .inl (.step (mem_fromOf.mpr hb') ih)
      · exact .inr ⟨.step (mem_fromOf.mpr hb') ih1, ih2⟩
    · simp only [List.mem_singleton, Prod.mk.injEq] at hb'
      obtain ⟨rfl, rfl⟩ := hb'
      exact .inr ⟨.refl _, hr⟩

theorem onCycle_of_reach {adj : α → List α} {t f : α} (h : Reach adj t f) (he : t ∈ adj f) :
    OnCycle adj t := by
  cases h with
  | refl => exact ⟨_, he, .refl _⟩
  | step hb2 hr2 => exact ⟨_, hb2, hr2.trans (.step he (.refl _))⟩

/-- adding `f → t` to an acyclic graph creates a cycle iff a cycle is reachable from `t` -/
theorem cycle_after_add (es : List (Edge α)) (f t : α) (hac : ¬ HasCycle es) :
    HasCycle (es ++ [(f, t)]) ↔
      ∃ a, Reach (fromOf (es ++ [(f, t)])) t a ∧ OnCycle (fromOf (es ++ [(f, t)])) a := by
  constructor
  · rintro ⟨a, b, hb, hr⟩
    have hmono : ∀ a b, b ∈ fromOf es a → b ∈ fromOf (es ++ [(f, t)]) a :=
      fun a b hab => mem_fromOf.mpr (List.mem_append_left _ (mem_fromOf.mp hab))
    have hedge : t ∈ fromOf (es ++ [(f, t)]) f := mem_fromOf.mpr (by simp)
    -- `t` reaches `f` in the new graph
    have htf : Reach (fromOf (es ++ [(f, t)])) t f := by
      have hb' := mem_fromOf.mp hb
      rw [List.mem_append] at hb'
      rcases hb' with hb' | hb'
      · rcases reach_split es f t hr with h | ⟨h1, h2⟩
        · exact absurd ⟨a, b, mem_fromOf.mpr hb', h⟩ hac
        · exact h2.trans (.step hb (h1.mono hmono))
      · simp only [List.mem_singleton, Prod.mk.injEq] at hb'
        obtain ⟨rfl, rfl⟩ := hb'
        exact hr
    exact ⟨t, .refl t, onCycle_of_reach htf hedge⟩
  · rintro ⟨a, _, hc⟩
    exact ⟨a, hc⟩

theorem addEdge_none_iff (es : List (Edge α)) (f t : α) (hac : ¬ HasCycle es) :
    addEdge es f t = none ↔ HasCycle (es ++ [(f, t)]) := by
  rw [cycle_after_add es f t hac]
  unfold addEdge
  have hnodes : ∀ x, fromOf (es ++ [(f, t)]) x ≠ [] → x ∈ (es ++ [(f, t)]).map (·.1) := by
    intro x hx
    obtain ⟨y, hy⟩ := List.exists_mem_of_ne_nil _ hx
    exact List.mem_map.mpr ⟨(x, y), mem_fromOf.mp hy, rfl⟩
  have := dfs_iff (fromOf (es ++ [(f, t)])) ((es ++ [(f, t)]).map (·.1)) hnodes t
  rw [List.length_map] at this
  simp only []
  split
  · rename_i h; simp only [true_iff]; exact this.mp h
  · rename_i h; simp only [reduceCtorEq, false_iff]; exact fun hh => h (this.mpr hh)

theorem addEdge_some (es : List (Edge α)) (f t : α) (r) (h : addEdge es f t = some r) :
    r = es ++ [(f, t)] := by
  unfold addEdge at h
  simp only [] at h
  split at h
  · cases h
  · exact (Option.some.inj h).symm

/-- processing a list of edges one by one -/
def addEdges (acc : List (Edge α)) (es : List (Edge α)) : Option (List (Edge α)) :=
  es.foldlM (fun a e => addEdge a e.1 e.2) acc

theorem addEdges_spec (es : List (Edge α)) : ∀ acc, ¬ HasCycle acc →
    (addEdges acc es = none ↔ HasCycle (acc ++ es)) ∧
    (∀ r, addEdges acc es = some r → r = acc ++ es) := by
  induction es with
  | nil =>
    intro acc hac
    simp [addEdges, hac]
  | cons e es ih =>
    intro acc hac
    unfold addEdges
    rw [List.foldlM_cons]
    cases hadd : addEdge acc e.1 e.2 with
    | none =>
      have hc := (addEdge_none_iff acc e.1 e.2 hac).mp hadd
      refine ⟨?_, ?_⟩
      · simp only [Option.bind_eq_bind, Option.bind_none, true_iff]
        refine hc.mono ?_
        intro x hx
        simp only [List.mem_append, List.mem_cons, List.not_mem_nil, or_false] at *
        rcases hx with hx | hx
        · exact .inl hx
        · exact .inr (.inl hx)
      · intro r h; simp at h
    | some acc' =>
      have hacc' := addEdge_some _ _ _ _ hadd
      have hac' : ¬ HasCycle acc' := by
        intro hc
        rw [hacc'] at hc
        have := (addEdge_none_iff acc e.1 e.2 hac).mpr hc
        rw [hadd] at this; cases this
      have := ih acc' hac'
      simp only [Option.bind_eq_bind, Option.bind_some]
      have e1 : acc' ++ es = acc ++ e :: es := by rw [hacc']; simp
      rw [e1] at this
      exact this

theorem build_eq_addEdges (stages : List (Stage α)) :
    ∀ acc, stages.foldlM addStage acc = addEdges acc (edgesOf stages) := by
  induction stages with
  | nil => intro acc; simp [addEdges, edgesOf]
  | cons s ss ih =>
    intro acc
    unfold addEdges edgesOf
    rw [List.foldlM_cons, List.flatMap_cons, List.foldlM_append, List.foldlM_map]
    unfold addStage
    congr 1
    funext acc'
    exact ih acc'

end Graph
