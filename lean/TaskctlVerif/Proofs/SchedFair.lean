import TaskctlVerif.Proofs.SchedLoop
/-!
# A fair driver for the scheduler model and its termination (helpers for C03)

`weight` is the per-stage variant.  `round` is one step of a fair schedule: every task in flight
returns (with the outcome `okf` picks) and finishes its goroutine, then the loop makes one complete
pass.  `rounds` iterates `round` the way `Schedule` iterates its `for !isDone` loop.  The lemmas here
show that a round strictly decreases the total weight unless the run is over; the property theorems
are in `Props/C03.lean`.
-/
namespace Sched

/-- per-stage weight -/
def weight (σ : St) (s : Nat) : Nat :=
  match σ.g s with
  | .inRun => 2
  | .afterErr => 1
  | .fin => 0
  | .none => if σ.status s = .waiting then 3 else 0

theorem weight_cases (σ : St) (s : Nat) :
    (σ.g s = .inRun ∧ weight σ s = 2) ∨ (σ.g s = .afterErr ∧ weight σ s = 1) ∨
    (σ.g s = .fin ∧ weight σ s = 0) ∨ (σ.g s = .none ∧ σ.status s = .waiting ∧ weight σ s = 3) ∨
    (σ.g s = .none ∧ σ.status s ≠ .waiting ∧ weight σ s = 0) := by
  unfold weight
  cases h : σ.g s <;> simp
  by_cases hw : σ.status s = .waiting <;> simp [hw]

theorem weight_step_le (c : Cfg) (σ : St) (a : Act) (hi : Inv c σ) (s : Nat) :
    weight (step c σ a) s ≤ weight σ s := by
  have h1 := weight_cases σ s
  have h2 := weight_cases (step c σ a) s
  have := step_cases c σ a hi s
  grind

theorem weight_run_le (c : Cfg) (as : List Act) : ∀ σ, Inv c σ → ∀ s,
    weight (run c σ as) s ≤ weight σ s := by
  induction as with
  | nil => intro σ _ s; exact Nat.le_refl _
  | cons a as ih =>
    intro σ hi s
    rw [run_cons]
    exact Nat.le_trans (ih _ (inv_step c σ a hi) s) (weight_step_le c σ a hi s)

/-- total weight of the stages `0 … n-1` -/
def totalW (n : Nat) (σ : St) : Nat := ((List.range n).map (weight σ)).sum

theorem sum_map_le {l : List Nat} {f g : Nat → Nat} (h : ∀ x ∈ l, f x ≤ g x) :
    (l.map f).sum ≤ (l.map g).sum := by
  induction l with
  | nil => simp
  | cons a l ih =>
    simp only [List.map_cons, List.sum_cons]
    have h1 := h a List.mem_cons_self
    have h2 := ih (fun x hx => h x (List.mem_cons_of_mem _ hx))
    omega

theorem sum_map_lt {l : List Nat} {f g : Nat → Nat} (h : ∀ x ∈ l, f x ≤ g x)
    (hs : ∃ x ∈ l, f x < g x) : (l.map f).sum < (l.map g).sum := by
  induction l with
  | nil => obtain ⟨x, hx, _⟩ := hs; cases hx
  | cons a l ih =>
    simp only [List.map_cons, List.sum_cons]
    have h1 := h a List.mem_cons_self
    have h2 := sum_map_le (fun x hx => h x (List.mem_cons_of_mem _ hx))
    obtain ⟨x, hx, hlt⟩ := hs
    rcases List.mem_cons.mp hx with rfl | hx'
    · omega
    · have := ih (fun x hx => h x (List.mem_cons_of_mem _ hx)) ⟨x, hx', hlt⟩
      omega

theorem sum_map_const (l : List Nat) (k : Nat) : (l.map (fun _ => k)).sum = k * l.length := by
  induction l with
  | nil => simp
  | cons a l ih => simp only [List.map_cons, List.sum_cons, List.length_cons, ih]; rw [Nat.mul_succ]; omega

theorem totalW_init (n : Nat) : totalW n init = 3 * n := by
  unfold totalW
  have : (List.range n).map (weight init) = (List.range n).map (fun _ => 3) := by
    apply List.map_congr_left; intro s _; simp [weight, init]
  rw [this, sum_map_const, List.length_range]

/-! ### draining what is in flight -/

theorem finish_pc (c : Cfg) (okf : Nat → Bool) (σ : St) (t : Nat) :
    (run c σ (finishActs okf t)).pc = σ.pc := by
  simp only [finishActs, run, List.foldl_cons, List.foldl_nil, step]
  repeat' split
  all_goals rfl

theorem finish_inRun (c : Cfg) (okf : Nat → Bool) (σ : St) (t d : Nat)
    (h : (run c σ (finishActs okf t)).g d = .inRun) : σ.g d = .inRun := by
  simp only [finishActs, run, List.foldl_cons, List.foldl_nil, step] at h
  repeat' split at h
  all_goals (by_cases hd : d = t <;> simp_all [upd_apply])

/-- after its two goroutine steps a stage that was inside `Run` (weight at most 2) has weight ≤ 1 -/
theorem finish_weight (c : Cfg) (okf : Nat → Bool) (σ : St) (hi : Inv c σ) (s : Nat)
    (hw : weight σ s ≤ 2) : weight (run c σ (finishActs okf s)) s ≤ 1 := by
  simp only [finishActs, run, List.foldl_cons, List.foldl_nil]
  have hi1 := inv_step c σ (.ret s (okf s)) hi
  have m2 := weight_step_le c (step c σ (.ret s (okf s))) (.post s) hi1 s
  have m1 := weight_step_le c σ (.ret s (okf s)) hi s
  have h1 := weight_cases σ s
  have h2 := weight_cases (step c σ (.ret s (okf s))) s
  by_cases hg : σ.g s = .inRun
  · have hg' : (step c σ (.ret s (okf s))).g s = .fin ∨
        (step c σ (.ret s (okf s))).g s = .afterErr := by
      simp only [step, hg, if_true]; split <;> simp
    grind
  · grind

theorem drain_general (c : Cfg) (okf : Nat → Bool) (L : List Nat) : ∀ σ, Inv c σ →
    (run c σ (L.flatMap (finishActs okf))).pc = σ.pc ∧
    (∀ d, (run c σ (L.flatMap (finishActs okf))).g d = .inRun → σ.g d = .inRun) ∧
    (∀ s ∈ L, weight σ s ≤ 2 → weight (run c σ (L.flatMap (finishActs okf))) s ≤ 1) := by
  induction L with
  | nil => intro σ _; exact ⟨rfl, fun _ h => h, fun s hs => (nomatch hs)⟩
  | cons t rest ih =>
    intro σ hi
    simp only [List.flatMap_cons, run_append]
    have hi1 := inv_run_from c (finishActs okf t) σ hi
    obtain ⟨ih1, ih2, ih3⟩ := ih _ hi1
    refine ⟨ih1.trans (finish_pc c okf σ t), fun d h => finish_inRun c okf σ t d (ih2 d h), ?_⟩
    intro s hs hw
    by_cases hst : s = t
    · subst hst
      exact Nat.le_trans (weight_run_le c _ _ hi1 s) (finish_weight c okf σ hi s hw)
    · have hmem : s ∈ rest := by
        rcases List.mem_cons.mp hs with h | h
        · exact absurd h hst
        · exact h
      exact ih3 s hmem (Nat.le_trans (weight_run_le c _ σ hi s) hw)

theorem decided_loop_run (c : Cfg) (as : List Act) (σ : St) (hl : ∀ a ∈ as, a.isLoop = true)
    (hi : Inv c σ) (d : Nat) (h : Decided σ d) : Decided (run c σ as) d := by
  have := (loop_frame_run c as σ hl hi d h.1).1
  unfold Decided at *
  rw [this]; exact h

/-- a complete visit of a waiting stage whose dependencies are all decided decides it -/
theorem visitFull_decides (c : Cfg) (σ : St) (s : Nat) (hidle : σ.pc = .idle)
    (hw : σ.status s = .waiting) (hdeps : ∀ d ∈ c.deps s, d ≠ s ∧ Decided σ d) :
    (visitFull c σ s).status s ≠ .waiting := by
  unfold visitFull
  have hv : (step c σ (.visit s)).status s ≠ .waiting ∧ (step c σ (.visit s)).pc = .idle ∨
      step c σ (.visit s) = { σ with pc := .check s (c.deps s) true } := by
    simp only [step, hidle, hw, if_true]
    split
    · exact .inl ⟨by simp [upd_apply], rfl⟩
    · exact .inl ⟨by simp [upd_apply], rfl⟩
    · exact .inr rfl
  rcases hv with ⟨h1, h2⟩ | hv
  · rw [run_reads_idle c _ h2, step_decide_idle c _ h2]; exact h1
  · rw [hv]
    exact reads_finish c (c.deps s) { σ with pc := .check s (c.deps s) true } s true rfl
      (fun d hd => hdeps d hd) (.inl ⟨rfl, hw⟩)

theorem pass_decides (c : Cfg) (order : List Nat) : ∀ σ, Inv c σ → σ.pc = .idle → ∀ s ∈ order,
    (∀ d ∈ c.deps s, d ≠ s ∧ Decided σ d) → (pass c σ order).status s ≠ .waiting := by
  induction order with
  | nil => intro σ _ _ s hs; cases hs
  | cons t rest ih =>
    intro σ hi hidle s hs hdeps
    simp only [pass, List.foldl_cons]
    have hi' := inv_visitFull c σ t hi
    have hidle' := visitFull_idle c σ t hidle
    have hdeps' : ∀ d ∈ c.deps s, d ≠ s ∧ Decided (visitFull c σ t) d := by
      intro d hd
      refine ⟨(hdeps d hd).1, ?_⟩
      rw [visitFull_eq_run]
      exact decided_loop_run c _ σ (visitActs_loop c t) hi d (hdeps d hd).2
    -- once not waiting, it stays so through the remaining visits
    have stays : ∀ σ', Inv c σ' → σ'.status s ≠ .waiting →
        (List.foldl (visitFull c) σ' rest).status s ≠ .waiting := by
      intro σ' hi'' hne
      have h := (pass_only_loop_actions' c rest σ')
      have := (loop_frame_run c _ σ' h.2 hi'' s hne).1
      rw [← h.1] at this
      show (pass c σ' rest).status s ≠ .waiting
      rw [this]; exact hne
    by_cases hst : s = t
    · subst hst
      by_cases hw : σ.status s = .waiting
      · exact stays _ hi' (visitFull_decides c σ s hidle hw hdeps)
      · have := (visitFull_frame c σ s hi s hw).1
        exact stays _ hi' (by rw [this]; exact hw)
    · have hmem : s ∈ rest := by
        rcases List.mem_cons.mp hs with h | h
        · exact absurd h hst
        · exact h
      exact ih _ hi' hidle' s hmem hdeps'

theorem round_inv (c : Cfg) (okf : Nat → Bool) (n : Nat) (σ : St) (hi : Inv c σ) :
    Inv c (round c okf n σ) := by
  unfold round
  rw [(pass_only_loop_actions' c _ _).1]
  exact inv_run_from c _ _ (inv_run_from c _ _ hi)

theorem pass_idle (c : Cfg) (order : List Nat) : ∀ σ, σ.pc = .idle → (pass c σ order).pc = .idle := by
  induction order with
  | nil => intro σ h; exact h
  | cons t rest ih =>
    intro σ h
    simp only [pass, List.foldl_cons]
    exact ih _ (visitFull_idle c σ t h)

theorem round_idle (c : Cfg) (okf : Nat → Bool) (n : Nat) (σ : St) (hi : Inv c σ)
    (hidle : σ.pc = .idle) : (round c okf n σ).pc = .idle := by
  unfold round
  exact pass_idle c _ _ ((drain_general c okf _ σ hi).1.trans hidle)

theorem round_weight_le (c : Cfg) (okf : Nat → Bool) (n : Nat) (σ : St) (hi : Inv c σ) (s : Nat) :
    weight (round c okf n σ) s ≤ weight σ s := by
  unfold round
  rw [(pass_only_loop_actions' c _ _).1]
  exact Nat.le_trans (weight_run_le c _ _ (inv_run_from c _ _ hi) s) (weight_run_le c _ σ hi s)

theorem not_done_witness (n : Nat) (σ : St) (h : isDone n σ = false) :
    ∃ s, s < n ∧ (σ.status s = .waiting ∨ σ.status s = .running) := by
  unfold isDone at h
  rw [List.all_eq_false] at h
  obtain ⟨s, hs, hb⟩ := h
  refine ⟨s, List.mem_range.mp hs, ?_⟩
  by_cases h1 : σ.status s = .waiting
  · exact .inl h1
  · by_cases h2 : σ.status s = .running
    · exact .inr h2
    · simp [h1, h2] at hb

theorem exists_min_rank (n : Nat) (rank : Nat → Nat) (W : Nat → Prop) :
    ∀ r, (∃ s, s < n ∧ W s ∧ rank s ≤ r) →
      ∃ s, s < n ∧ W s ∧ ∀ t, t < n → W t → rank s ≤ rank t := by
  intro r
  induction r with
  | zero =>
    rintro ⟨s, hs, hw, hr⟩
    exact ⟨s, hs, hw, fun t _ _ => by omega⟩
  | succ r ih =>
    rintro ⟨s, hs, hw, hr⟩
    by_cases h : ∃ s, s < n ∧ W s ∧ rank s ≤ r
    · exact ih h
    · refine ⟨s, hs, hw, fun t ht hwt => ?_⟩
      have : ¬ rank t ≤ r := fun hle => h ⟨t, ht, hwt, hle⟩
      omega

/-- unless the run is over, a round strictly decreases the weight of some stage -/
theorem round_progress (c : Cfg) (rank : Nat → Nat) (hac : Acyclic c rank) (n : Nat)
    (hclosed : ∀ s, s < n → ∀ d ∈ c.deps s, d < n) (okf : Nat → Bool) (σ : St) (hi : Inv c σ)
    (hidle : σ.pc = .idle) (hnd : isDone n σ = false) :
    ∃ s, s < n ∧ weight (round c okf n σ) s < weight σ s := by
  obtain ⟨s0, hs0, hst0⟩ := not_done_witness n σ hnd
  have hi' := inv_run_from c (drainActs okf n) σ hi
  have dpc : (run c σ (drainActs okf n)).pc = σ.pc := (drain_general c okf (List.range n) σ hi).1
  have dgr : ∀ d, (run c σ (drainActs okf n)).g d = .inRun → σ.g d = .inRun :=
    (drain_general c okf (List.range n) σ hi).2.1
  have dw : ∀ s ∈ List.range n, weight σ s ≤ 2 → weight (run c σ (drainActs okf n)) s ≤ 1 :=
    (drain_general c okf (List.range n) σ hi).2.2
  have hidle' : (run c σ (drainActs okf n)).pc = .idle := dpc.trans hidle
  have passle : ∀ s, weight (round c okf n σ) s ≤ weight (run c σ (drainActs okf n)) s := by
    intro s
    unfold round
    rw [(pass_only_loop_actions' c _ _).1]
    exact weight_run_le c _ _ hi' s
  have drainle : ∀ s, weight (run c σ (drainActs okf n)) s ≤ weight σ s :=
    fun s => weight_run_le c _ σ hi s
  -- a stage inside Run leaves it during the drain
  have running_case : ∀ s, s < n → σ.g s = .inRun → weight (round c okf n σ) s < weight σ s := by
    intro s hs hg
    have h1 := weight_cases σ s
    have h2 := dw s (List.mem_range.mpr hs) (by grind)
    have h3 := passle s
    grind
  rcases hst0 with hw0 | hr0
  · by_cases hall : ∃ s, s < n ∧ weight (run c σ (drainActs okf n)) s < weight σ s
    · obtain ⟨s, hs, hlt⟩ := hall
      exact ⟨s, hs, Nat.lt_of_le_of_lt (passle s) hlt⟩
    · -- the drain changed no weight: s0 is still waiting, nothing is inside Run
      have heq : ∀ s, s < n → weight (run c σ (drainActs okf n)) s = weight σ s := by
        intro s hs
        have := drainle s
        have : ¬ weight (run c σ (drainActs okf n)) s < weight σ s := fun h => hall ⟨s, hs, h⟩
        omega
      have hw0' : (run c σ (drainActs okf n)).status s0 = .waiting := by
        have h1 := weight_cases σ s0
        have h2 := weight_cases (run c σ (drainActs okf n)) s0
        have h3 := heq s0 hs0
        have := hi.g_run s0; have := hi.g_after s0; have := hi.g_fin s0
        grind
      obtain ⟨s, hs, hw, hmin⟩ := exists_min_rank n rank
        (fun s => (run c σ (drainActs okf n)).status s = .waiting) (rank s0)
        ⟨s0, hs0, hw0', Nat.le_refl _⟩
      refine ⟨s, hs, ?_⟩
      have hdec : (round c okf n σ).status s ≠ .waiting := by
        show (pass c (run c σ (drainActs okf n)) (List.range n)).status s ≠ .waiting
        apply pass_decides c (List.range n) _ hi' hidle' s (List.mem_range.mpr hs)
        intro d hd
        have hr := hac s d hd
        have hdn := hclosed s hs d hd
        refine ⟨by intro e; rw [e] at hr; omega, ?_, ?_⟩
        · intro hwd
          have := hmin d hdn hwd
          omega
        · intro hrd
          have hg' := hi'.run_g d hrd
          have hg := dgr d hg'
          have h1 := weight_cases σ d
          have h2 := weight_cases (run c σ (drainActs okf n)) d
          have h3 := dw d (List.mem_range.mpr hdn) (by grind)
          grind
      have h1 := weight_cases (round c okf n σ) s
      have h2 := weight_cases (run c σ (drainActs okf n)) s
      have h3 := heq s hs
      have h4 := passle s
      have := hi'.g_run s; have := hi'.g_after s; have := hi'.g_fin s
      grind
  · exact ⟨s0, hs0, running_case s0 hs0 (hi.run_g s0 hr0)⟩

theorem round_totalW_lt (c : Cfg) (rank : Nat → Nat) (hac : Acyclic c rank) (n : Nat)
    (hclosed : ∀ s, s < n → ∀ d ∈ c.deps s, d < n) (okf : Nat → Bool) (σ : St) (hi : Inv c σ)
    (hidle : σ.pc = .idle) (hnd : isDone n σ = false) :
    totalW n (round c okf n σ) < totalW n σ := by
  obtain ⟨s, hs, hlt⟩ := round_progress c rank hac n hclosed okf σ hi hidle hnd
  exact sum_map_lt (fun x _ => round_weight_le c okf n σ hi x) ⟨s, List.mem_range.mpr hs, hlt⟩

/-! ### the end of a fair run -/

/-- goroutine steps touch `g s` only when stage `s` is inside `Run` or between its two writes -/
theorem finish_g_settled (c : Cfg) (okf : Nat → Bool) (σ : St) (t s : Nat)
    (h1 : σ.g s ≠ .inRun) (h2 : σ.g s ≠ .afterErr) :
    (run c σ (finishActs okf t)).g s = σ.g s := by
  simp only [finishActs, run, List.foldl_cons, List.foldl_nil, step]
  repeat' split
  all_goals (by_cases hst : s = t <;> simp_all [upd_apply])

/-- after its two goroutine steps a stage is neither inside `Run` nor between its two writes -/
theorem finish_settles (c : Cfg) (okf : Nat → Bool) (σ : St) (s : Nat) :
    (run c σ (finishActs okf s)).g s ≠ .inRun ∧ (run c σ (finishActs okf s)).g s ≠ .afterErr := by
  simp only [finishActs, run, List.foldl_cons, List.foldl_nil, step]
  repeat' split
  all_goals simp_all [upd_apply]

/-- goroutine steps never make a stage waiting or running -/
theorem finish_status (c : Cfg) (okf : Nat → Bool) (σ : St) (t s : Nat) :
    ((run c σ (finishActs okf t)).status s = .waiting → σ.status s = .waiting) ∧
    ((run c σ (finishActs okf t)).status s = .running → σ.status s = .running) := by
  simp only [finishActs, run, List.foldl_cons, List.foldl_nil, step]
  repeat' split
  all_goals (by_cases hst : s = t <;> simp_all [upd_apply])

theorem drain_settles (c : Cfg) (okf : Nat → Bool) (L : List Nat) : ∀ σ,
    (∀ s, (s ∈ L ∨ (σ.g s ≠ .inRun ∧ σ.g s ≠ .afterErr)) →
      (run c σ (L.flatMap (finishActs okf))).g s ≠ .inRun ∧
      (run c σ (L.flatMap (finishActs okf))).g s ≠ .afterErr) ∧
    (∀ s, ((run c σ (L.flatMap (finishActs okf))).status s = .waiting → σ.status s = .waiting) ∧
      ((run c σ (L.flatMap (finishActs okf))).status s = .running → σ.status s = .running)) := by
  induction L with
  | nil => intro σ; exact ⟨fun s h => by rcases h with h | h; cases h; exact h, fun s => ⟨id, id⟩⟩
  | cons t rest ih =>
    intro σ
    simp only [List.flatMap_cons, run_append]
    obtain ⟨ih1, ih2⟩ := ih (run c σ (finishActs okf t))
    refine ⟨fun s h => ?_, fun s => ?_⟩
    · apply ih1 s
      by_cases hst : s = t
      · subst hst; exact .inr (finish_settles c okf σ s)
      · rcases h with h | h
        · rcases List.mem_cons.mp h with h | h
          · exact absurd h hst
          · exact .inl h
        · right
          rw [finish_g_settled c okf σ t s h.1 h.2]; exact h
    · have h := finish_status c okf σ t s
      exact ⟨fun h1 => h.1 ((ih2 s).1 h1), fun h1 => h.2 ((ih2 s).2 h1)⟩

/-- only `cancel` and a condition that cannot be evaluated set the cancelled flag -/
def Act.isCancel : Act → Bool
  | .cancel => true
  | _ => false

theorem cancelled_step (c : Cfg) (σ : St) (a : Act) (hne : ∀ s, c.cond s ≠ .err)
    (ha : a.isCancel = false) : (step c σ a).cancelled = σ.cancelled := by
  cases a with
  | cancel => simp [Act.isCancel] at ha
  | visit s =>
    have := hne s
    simp only [step]
    repeat' split
    all_goals simp_all
  | read => simp only [step]; repeat' split
            all_goals rfl
  | decide => simp only [step]; repeat' split
              all_goals rfl
  | ret s ok => simp only [step]; repeat' split
                all_goals rfl
  | post s => simp only [step]; repeat' split
              all_goals rfl

theorem cancelled_run (c : Cfg) (hne : ∀ s, c.cond s ≠ .err) (as : List Act) : ∀ σ,
    (∀ a ∈ as, a.isCancel = false) → (run c σ as).cancelled = σ.cancelled := by
  induction as with
  | nil => intro σ _; rfl
  | cons a as ih =>
    intro σ h
    rw [run_cons, ih _ (fun a' ha' => h a' (List.mem_cons_of_mem _ ha')),
      cancelled_step c σ a hne (h a List.mem_cons_self)]

theorem drainActs_props (okf : Nat → Bool) (n : Nat) :
    ∀ a ∈ drainActs okf n, Respects okf a ∧ a.isCancel = false := by
  intro a ha
  simp only [drainActs, List.mem_flatMap, finishActs, List.mem_cons, List.not_mem_nil, or_false] at ha
  obtain ⟨s, _, rfl | rfl⟩ := ha <;> simp [Respects, Act.isCancel]

theorem visitActs_props (c : Cfg) (okf : Nat → Bool) (L : List Nat) :
    ∀ a ∈ L.flatMap (visitActs c), Respects okf a ∧ a.isCancel = false := by
  intro a ha
  rw [List.mem_flatMap] at ha
  obtain ⟨t, _, h⟩ := ha
  simp only [visitActs, List.mem_cons, List.mem_append, List.mem_replicate, List.not_mem_nil,
    or_false] at h
  rcases h with rfl | ⟨_, rfl⟩ | rfl <;> simp [Respects, Act.isCancel]

/-- the fair driver is a particular interleaving: its result is `run` of an action list that respects
the outcomes and contains no external cancel -/
theorem rounds_is_run (c : Cfg) (okf : Nat → Bool) (n : Nat) : ∀ k σ, ∃ as,
    rounds c okf n k σ = run c σ as ∧ ∀ a ∈ as, Respects okf a ∧ a.isCancel = false := by
  intro k
  induction k with
  | zero => intro σ; exact ⟨[], rfl, fun a h => (nomatch h)⟩
  | succ k ih =>
    intro σ
    simp only [rounds]
    split
    · exact ⟨[], rfl, fun a h => (nomatch h)⟩
    · obtain ⟨as, h, hp⟩ := ih (round c okf n σ)
      refine ⟨drainActs okf n ++ (List.range n).flatMap (visitActs c) ++ as, ?_, ?_⟩
      · rw [h, run_append, run_append]
        unfold round
        rw [(pass_only_loop_actions' c _ _).1]
      · intro a ha
        rcases List.mem_append.mp ha with ha | ha
        · rcases List.mem_append.mp ha with ha | ha
          · exact drainActs_props okf n a ha
          · exact visitActs_props c okf _ a ha
        · exact hp a ha

theorem isDone_settled (n : Nat) (σ : St) (h : isDone n σ = true) :
    ∀ s, s < n → σ.status s ≠ .waiting ∧ σ.status s ≠ .running := by
  intro s hs
  unfold isDone at h
  rw [List.all_eq_true] at h
  have := h s (List.mem_range.mpr hs)
  simp only [Bool.and_eq_true, bne_iff_ne, ne_eq] at this
  exact this

end Sched
