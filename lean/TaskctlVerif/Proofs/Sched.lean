import TaskctlVerif.Model.Sched
/-!
# Invariants of the scheduler model S (helper lemmas for C01–C04)
-/
namespace Sched

/-- a dependency is satisfied: done, skipped, or an allowed error -/
def Sat (c : Cfg) (σ : St) (d : Nat) : Prop :=
  σ.status d = .done ∨ σ.status d = .skipped ∨ (σ.status d = .error ∧ c.allow d = true)


structure Inv (c : Cfg) (σ : St) : Prop where
  g_none  : ∀ s, σ.g s = .none → σ.status s = .waiting ∨ σ.status s = .skipped ∨ σ.status s = .canceled ∨ σ.status s = .error
  g_run   : ∀ s, σ.g s = .inRun → σ.status s = .running
  run_g   : ∀ s, σ.status s = .running → σ.g s = .inRun
  g_after : ∀ s, σ.g s = .afterErr → σ.status s = .error
  g_fin   : ∀ s, σ.g s = .fin → σ.status s = .done ∨ σ.status s = .error
  started : ∀ s, σ.g s ≠ .none → ∀ d ∈ c.deps s, Sat c σ d
  chk     : ∀ s rest ready, σ.pc = .check s rest ready →
              σ.g s = .none ∧ (σ.status s = .waiting ∨ (σ.status s = .canceled ∧ ready = false)) ∧
              (ready = true → ∀ d ∈ c.deps s, d ∈ rest ∨ Sat c σ d)

theorem inv_init (c : Cfg) : Inv c init := by
  constructor <;> simp [init]

@[simp] theorem upd_same {α} (f : Nat → α) k v : upd f k v k = v := by simp [upd]
theorem upd_other {α} (f : Nat → α) k v i (h : i ≠ k) : upd f k v i = f i := by simp [upd, h]
theorem upd_apply {α} (f : Nat → α) k v i : upd f k v i = if i = k then v else f i := rfl



attribute [grind =] upd_apply

theorem gcases (σ : St) (s : Nat) : σ.g s = .none ∨ σ.g s = .inRun ∨ σ.g s = .afterErr ∨ σ.g s = .fin := by
  cases σ.g s <;> simp

macro "close_inv" : tactic =>
  `(tactic| (constructor <;> (dsimp only [] <;> intros <;> grind [Sat, gcases])))

theorem inv_read (c : Cfg) (σ : St) (h : Inv c σ) : Inv c (step c σ .read) := by
  obtain ⟨g_none, g_run, run_g, g_after, g_fin, started, chk⟩ := h
  simp only [step]
  split
  · rename_i s d rest ready hpc
    have hc := chk _ _ _ hpc
    split
    · close_inv
    · close_inv
    · split
      · close_inv
      · close_inv
    · close_inv
    · close_inv
  · exact ⟨g_none, g_run, run_g, g_after, g_fin, started, chk⟩


theorem inv_visit (c : Cfg) (σ : St) (s : Nat) (h : Inv c σ) : Inv c (step c σ (.visit s)) := by
  obtain ⟨g_none, g_run, run_g, g_after, g_fin, started, chk⟩ := h
  simp only [step]
  split
  · split
    · split
      · close_inv
      · close_inv
      · close_inv
    · exact ⟨g_none, g_run, run_g, g_after, g_fin, started, chk⟩
  · exact ⟨g_none, g_run, run_g, g_after, g_fin, started, chk⟩

theorem inv_decide (c : Cfg) (σ : St) (h : Inv c σ) : Inv c (step c σ .decide) := by
  obtain ⟨g_none, g_run, run_g, g_after, g_fin, started, chk⟩ := h
  simp only [step]
  split
  · rename_i s ready hpc
    have hc := chk _ _ _ hpc
    split
    · close_inv
    · close_inv
  · exact ⟨g_none, g_run, run_g, g_after, g_fin, started, chk⟩

theorem inv_ret (c : Cfg) (σ : St) (s : Nat) (ok : Bool) (h : Inv c σ) : Inv c (step c σ (.ret s ok)) := by
  obtain ⟨g_none, g_run, run_g, g_after, g_fin, started, chk⟩ := h
  simp only [step]
  split
  · split
    · close_inv
    · close_inv
  · exact ⟨g_none, g_run, run_g, g_after, g_fin, started, chk⟩

theorem inv_post (c : Cfg) (σ : St) (s : Nat) (h : Inv c σ) : Inv c (step c σ (.post s)) := by
  obtain ⟨g_none, g_run, run_g, g_after, g_fin, started, chk⟩ := h
  simp only [step]
  split
  · split
    · close_inv
    · close_inv
  · exact ⟨g_none, g_run, run_g, g_after, g_fin, started, chk⟩

theorem inv_cancel (c : Cfg) (σ : St) (h : Inv c σ) : Inv c (step c σ .cancel) := by
  obtain ⟨g_none, g_run, run_g, g_after, g_fin, started, chk⟩ := h
  exact ⟨g_none, g_run, run_g, g_after, g_fin, started, chk⟩

theorem inv_step (c : Cfg) (σ : St) (a : Act) (h : Inv c σ) : Inv c (step c σ a) := by
  cases a with
  | visit s => exact inv_visit c σ s h
  | read => exact inv_read c σ h
  | decide => exact inv_decide c σ h
  | ret s ok => exact inv_ret c σ s ok h
  | post s => exact inv_post c σ s h
  | cancel => exact inv_cancel c σ h

theorem inv_run (c : Cfg) (as : List Act) : Inv c (run c init as) := by
  suffices ∀ σ, Inv c σ → Inv c (run c σ as) from this _ (inv_init c)
  induction as with
  | nil => intro σ h; exact h
  | cons a as ih => intro σ h; exact ih _ (inv_step c σ a h)





/-! ## Progress core (C03) -/

def Decided (σ : St) (d : Nat) : Prop := σ.status d ≠ .waiting ∧ σ.status d ≠ .running

/-- `k` dependency reads followed by the decision -/
def finishVisit (c : Cfg) (σ : St) (k : Nat) : St :=
  step c (run c σ (List.replicate k .read)) .decide

theorem run_append (c : Cfg) (σ : St) (as bs : List Act) :
    run c σ (as ++ bs) = run c (run c σ as) bs := by
  simp [run, List.foldl_append]

theorem run_cons (c : Cfg) (σ : St) (a : Act) (as : List Act) :
    run c σ (a :: as) = run c (step c σ a) as := rfl

/-- reading never touches the status of any stage other than the one under examination, and
never makes it waiting again -/
theorem reads_finish (c : Cfg) :
    ∀ (rest : List Nat) (σ : St) (s : Nat) (ready : Bool),
      σ.pc = .check s rest ready →
      (∀ d ∈ rest, d ≠ s ∧ Decided σ d) →
      (ready = true ∧ σ.status s = .waiting ∨ σ.status s = .canceled) →
      (finishVisit c σ rest.length).status s ≠ .waiting := by
  intro rest
  induction rest with
  | nil =>
    intro σ s ready hpc _ hr
    simp only [finishVisit, List.length_nil, List.replicate_zero, run, List.foldl_nil, step, hpc]
    rcases hr with ⟨rfl, _⟩ | hc
    · simp [upd]
    · cases ready <;> simp [upd, hc]
  | cons d rest ih =>
    intro σ s ready hpc hdec hr
    have hd := hdec d List.mem_cons_self
    simp only [finishVisit, List.length_cons, List.replicate_succ, run_cons]
    -- one read, then the induction hypothesis
    have key : ∃ ready', (step c σ .read).pc = .check s rest ready' ∧
        (∀ d' ∈ rest, d' ≠ s ∧ Decided (step c σ .read) d') ∧
        (ready' = true ∧ (step c σ .read).status s = .waiting ∨ (step c σ .read).status s = .canceled) := by
      have hrest : ∀ d' ∈ rest, d' ≠ s ∧ Decided σ d' := fun d' h => hdec d' (List.mem_cons_of_mem _ h)
      simp only [step, hpc]
      unfold Decided at *
      split
      · exact ⟨ready, rfl, hrest, hr⟩
      · exact ⟨ready, rfl, hrest, hr⟩
      · split
        · exact ⟨ready, rfl, hrest, hr⟩
        · refine ⟨false, rfl, ?_, Or.inr (by simp [upd])⟩
          intro d' h; have := hrest d' h; simp [upd_apply, this.1]; exact this.2
      · refine ⟨false, rfl, ?_, Or.inr (by simp [upd])⟩
        intro d' h; have := hrest d' h; simp [upd_apply, this.1]; exact this.2
      · rename_i hw1 hw2 hw3 hw4
        exfalso
        have := hd.2
        unfold Decided at this
        cases hst : σ.status d <;> simp_all
    obtain ⟨ready', hpc', hdec', hr'⟩ := key
    exact ih _ s ready' hpc' hdec' hr'


/-! ## Agreement with the final-status equations (C02) -/

/-- a dependency that blocks its dependants in the final picture -/
def Blocked (c : Cfg) (f : Nat → Status) (s : Nat) : Prop :=
  ∃ d, d ∈ c.deps s ∧ (f d = .canceled ∨ f d = .error)

/-- `f` solves the "final status" equations of configuration `c` with task outcomes `okf` -/
structure IsFinal (c : Cfg) (okf : Nat → Bool) (f : Nat → Status) : Prop where
  skip : ∀ s, c.cond s = .fails → f s = .skipped
  canc : ∀ s, c.cond s ≠ .fails → Blocked c f s → f s = .canceled
  runs : ∀ s, c.cond s ≠ .fails → ¬ Blocked c f s → f s = outcome c okf s

/-- reachable states agree with any solution `f` wherever a stage is decided -/
structure Agree (c : Cfg) (okf : Nat → Bool) (f : Nat → Status) (σ : St) : Prop where
  started : ∀ s, σ.g s ≠ .none → f s = outcome c okf s
  skipped : ∀ s, σ.status s = .skipped → f s = .skipped
  canceled : ∀ s, σ.status s = .canceled → f s = .canceled
  fin     : ∀ s, σ.g s = .fin → σ.status s = f s
  after   : ∀ s, σ.g s = .afterErr → okf s = false
  err_run : ∀ s, σ.status s = .error → σ.g s ≠ .none
  chk     : ∀ s rest ready, σ.pc = .check s rest ready → c.cond s ≠ .fails
  chk_sub : ∀ s rest ready, σ.pc = .check s rest ready → ∀ d, d ∈ rest → d ∈ c.deps s

theorem agree_init (c : Cfg) (okf f) : Agree c okf f init := by
  constructor <;> simp [init]

macro "close_agree" : tactic =>
  `(tactic| (constructor <;> (dsimp only [] <;> intros <;> grind [Sat, gcases, outcome, Blocked])))

/-- an action list respects the fixed outcomes -/
def Respects (okf : Nat → Bool) : Act → Prop
  | .ret s b => b = okf s
  | _ => True

theorem agree_visit (c okf f σ) (s : Nat) (hf : IsFinal c okf f) (hne : ∀ s, c.cond s ≠ .err)
    (hi : Inv c σ) (h : Agree c okf f σ) : Agree c okf f (step c σ (.visit s)) := by
  obtain ⟨g_none, g_run, run_g, g_after, g_fin, started, chk⟩ := hi
  obtain ⟨a1, a2, a3, a4, a5, a6, a7, a8⟩ := h
  obtain ⟨f1, f2, f3⟩ := hf
  have := hne s
  simp only [step]
  split
  · split
    · split
      · close_agree
      · contradiction
      · close_agree
    · exact ⟨a1, a2, a3, a4, a5, a6, a7, a8⟩
  · exact ⟨a1, a2, a3, a4, a5, a6, a7, a8⟩


theorem agree_read (c okf f σ) (hf : IsFinal c okf f)
    (hi : Inv c σ) (h : Agree c okf f σ) : Agree c okf f (step c σ .read) := by
  obtain ⟨g_none, g_run, run_g, g_after, g_fin, started, chk⟩ := hi
  obtain ⟨a1, a2, a3, a4, a5, a6, a7, a8⟩ := h
  obtain ⟨f1, f2, f3⟩ := hf
  simp only [step]
  split
  · rename_i s d rest ready hpc
    have hc := chk _ _ _ hpc
    have hcond := a7 _ _ _ hpc
    have hmem : d ∈ c.deps s := a8 _ _ _ hpc d List.mem_cons_self
    have hsub : ∀ d', d' ∈ rest → d' ∈ c.deps s := fun d' h => a8 _ _ _ hpc d' (List.mem_cons_of_mem _ h)
    split
    · close_agree
    · close_agree
    · split
      · close_agree
      · rename_i hst hal
        have hfd : f d = .error := by
          have := gcases σ d
          grind [outcome]
        have hfs : f s = .canceled := f2 s hcond ⟨d, hmem, Or.inr hfd⟩
        close_agree
    · rename_i hst
      have hfs : f s = .canceled := f2 s hcond ⟨d, hmem, Or.inl (a3 d hst)⟩
      close_agree
    · close_agree
  · exact ⟨a1, a2, a3, a4, a5, a6, a7, a8⟩


/-- a satisfied dependency does not block, in any solution of the equations -/
theorem sat_not_blocking (c okf f σ) (hi : Inv c σ) (h : Agree c okf f σ) (d : Nat)
    (hs : Sat c σ d) : f d ≠ .canceled ∧ f d ≠ .error := by
  obtain ⟨g_none, g_run, run_g, g_after, g_fin, started, chk⟩ := hi
  obtain ⟨a1, a2, a3, a4, a5, a6, a7, a8⟩ := h
  have := gcases σ d
  unfold Sat at hs
  grind [outcome]

theorem agree_decide (c okf f σ) (hf : IsFinal c okf f)
    (hi : Inv c σ) (h : Agree c okf f σ) : Agree c okf f (step c σ .decide) := by
  have hsat := sat_not_blocking c okf f σ hi h
  obtain ⟨g_none, g_run, run_g, g_after, g_fin, started, chk⟩ := hi
  obtain ⟨a1, a2, a3, a4, a5, a6, a7, a8⟩ := h
  obtain ⟨f1, f2, f3⟩ := hf
  simp only [step]
  split
  · rename_i s ready hpc
    have hc := chk _ _ _ hpc
    have hcond := a7 _ _ _ hpc
    split
    · rename_i hr
      have hnb : ¬ Blocked c f s := by
        rintro ⟨d, hd, hb⟩
        have hsd : Sat c σ d := by
          rcases hc.2.2 hr d hd with h | h
          · cases h
          · exact h
        have := hsat d hsd
        grind
      have hfs : f s = outcome c okf s := f3 s hcond hnb
      close_agree
    · close_agree
  · exact ⟨a1, a2, a3, a4, a5, a6, a7, a8⟩

theorem agree_ret (c okf f σ) (s : Nat) (b : Bool) (hb : b = okf s)
    (hi : Inv c σ) (h : Agree c okf f σ) : Agree c okf f (step c σ (.ret s b)) := by
  obtain ⟨g_none, g_run, run_g, g_after, g_fin, started, chk⟩ := hi
  obtain ⟨a1, a2, a3, a4, a5, a6, a7, a8⟩ := h
  simp only [step]
  split
  · split
    · close_agree
    · close_agree
  · exact ⟨a1, a2, a3, a4, a5, a6, a7, a8⟩

theorem agree_post (c okf f σ) (s : Nat)
    (hi : Inv c σ) (h : Agree c okf f σ) : Agree c okf f (step c σ (.post s)) := by
  obtain ⟨g_none, g_run, run_g, g_after, g_fin, started, chk⟩ := hi
  obtain ⟨a1, a2, a3, a4, a5, a6, a7, a8⟩ := h
  simp only [step]
  split
  · split
    · close_agree
    · close_agree
  · exact ⟨a1, a2, a3, a4, a5, a6, a7, a8⟩

theorem agree_step (c okf f σ) (a : Act) (hf : IsFinal c okf f) (hne : ∀ s, c.cond s ≠ .err)
    (ha : Respects okf a) (hi : Inv c σ) (h : Agree c okf f σ) : Agree c okf f (step c σ a) := by
  cases a with
  | visit s => exact agree_visit c okf f σ s hf hne hi h
  | read => exact agree_read c okf f σ hf hi h
  | decide => exact agree_decide c okf f σ hf hi h
  | ret s b => exact agree_ret c okf f σ s b ha hi h
  | post s => exact agree_post c okf f σ s hi h
  | cancel =>
    obtain ⟨a1, a2, a3, a4, a5, a6, a7, a8⟩ := h
    exact ⟨a1, a2, a3, a4, a5, a6, a7, a8⟩

theorem agree_run (c okf f) (hf : IsFinal c okf f) (hne : ∀ s, c.cond s ≠ .err) (as : List Act)
    (has : ∀ a ∈ as, Respects okf a) : Inv c (run c init as) ∧ Agree c okf f (run c init as) := by
  suffices ∀ σ, Inv c σ → Agree c okf f σ → Inv c (run c σ as) ∧ Agree c okf f (run c σ as) from
    this _ (inv_init c) (agree_init c okf f)
  induction as with
  | nil => intro σ h1 h2; exact ⟨h1, h2⟩
  | cons a as ih =>
    intro σ h1 h2
    exact ih (fun a' h => has a' (List.mem_cons_of_mem _ h)) _ (inv_step c σ a h1)
      (agree_step c okf f σ a hf hne (has a List.mem_cons_self) h1 h2)


/-! ## Existence of the final status for acyclic configurations -/

/-- `rank` witnesses acyclicity of the dependency relation -/
def Acyclic (c : Cfg) (rank : Nat → Nat) : Prop := ∀ s d, d ∈ c.deps s → rank d < rank s

theorem finalF_fuel (c : Cfg) (okf : Nat → Bool) (rank : Nat → Nat) (hac : Acyclic c rank) :
    ∀ k s, rank s < k → ∀ k', rank s < k' → finalF c okf k s = finalF c okf k' s := by
  intro k
  induction k with
  | zero => intro s h; omega
  | succ k ih =>
    intro s hk k' hk'
    cases k' with
    | zero => omega
    | succ k' =>
      simp only [finalF]
      have hd : ∀ d ∈ c.deps s, finalF c okf k d = finalF c okf k' d := by
        intro d hd
        have := hac s d hd
        exact ih d (by omega) k' (by omega)
      have hany : (c.deps s).any (fun d => decide (finalF c okf k d = .canceled) || decide (finalF c okf k d = .error))
          = (c.deps s).any (fun d => decide (finalF c okf k' d = .canceled) || decide (finalF c okf k' d = .error)) := by
        rw [Bool.eq_iff_iff, List.any_eq_true, List.any_eq_true]
        constructor
        · rintro ⟨d, hm, h⟩; exact ⟨d, hm, by rw [← hd d hm]; exact h⟩
        · rintro ⟨d, hm, h⟩; exact ⟨d, hm, by rw [hd d hm]; exact h⟩
      rw [hany]

/-- the final status of every stage of an acyclic configuration -/
def final (c : Cfg) (okf : Nat → Bool) (rank : Nat → Nat) (s : Nat) : Status :=
  finalF c okf (rank s + 1) s

theorem final_isFinal (c : Cfg) (okf : Nat → Bool) (rank : Nat → Nat) (hac : Acyclic c rank) :
    IsFinal c okf (final c okf rank) := by
  have hdep : ∀ s d, d ∈ c.deps s → finalF c okf (rank s) d = final c okf rank d := by
    intro s d hd
    have := hac s d hd
    exact finalF_fuel c okf rank hac _ d this _ (by omega)
  have hany : ∀ s, ((c.deps s).any (fun d => decide (finalF c okf (rank s) d = .canceled) ||
      decide (finalF c okf (rank s) d = .error)) = true) ↔ Blocked c (final c okf rank) s := by
    intro s
    rw [List.any_eq_true]
    unfold Blocked
    constructor
    · rintro ⟨d, hm, h⟩
      rw [hdep s d hm] at h
      exact ⟨d, hm, by simpa using h⟩
    · rintro ⟨d, hm, h⟩
      exact ⟨d, hm, by rw [hdep s d hm]; simpa using h⟩
  constructor
  · intro s hs; simp [final, finalF, hs]
  · intro s hs hb
    have := (hany s).mpr hb
    simp only [final, finalF, hs, if_false, this, if_true]
  · intro s hs hb
    have : ¬ ((c.deps s).any (fun d => decide (finalF c okf (rank s) d = .canceled) ||
      decide (finalF c okf (rank s) d = .error)) = true) := fun h => hb ((hany s).mp h)
    simp [final, finalF, hs, this]

/-! ## The error flag (C02): the run reports an error iff some stage ended in `Error` -/

structure ErrInv (c : Cfg) (σ : St) : Prop where
  e1 : σ.gerr = true → ∃ s, σ.g s = .fin ∧ σ.status s = .error
  e2 : ∀ s, σ.g s = .fin → σ.status s = .error → σ.gerr = true

theorem errInv_init (c : Cfg) : ErrInv c init := by
  constructor <;> simp [init]

theorem errInv_step (c : Cfg) (σ : St) (a : Act) (hne : ∀ s, c.cond s ≠ .err) (hi : Inv c σ)
    (h : ErrInv c σ) : ErrInv c (step c σ a) := by
  obtain ⟨g_none, g_run, run_g, g_after, g_fin, started, chk⟩ := hi
  obtain ⟨e1, e2⟩ := h
  have hex : σ.gerr = true → ∃ s, σ.g s = .fin ∧ σ.status s = .error := e1
  cases a with
  | visit s =>
    have := hne s
    simp only [step]
    split
    · split
      · split
        · constructor
          · intro hg; obtain ⟨t, h1, h2⟩ := e1 hg; exact ⟨t, h1, by dsimp only; grind⟩
          · dsimp only; intros; grind
        · contradiction
        · exact ⟨e1, e2⟩
      · exact ⟨e1, e2⟩
    · exact ⟨e1, e2⟩
  | read =>
    simp only [step]
    split
    · rename_i s d rest ready hpc
      have hc := chk _ _ _ hpc
      split
      · exact ⟨e1, e2⟩
      · exact ⟨e1, e2⟩
      · split
        · exact ⟨e1, e2⟩
        · constructor
          · intro hg; obtain ⟨t, h1, h2⟩ := e1 hg; exact ⟨t, h1, by dsimp only; grind⟩
          · dsimp only; intros; grind
      · constructor
        · intro hg; obtain ⟨t, h1, h2⟩ := e1 hg; exact ⟨t, h1, by dsimp only; grind⟩
        · dsimp only; intros; grind
      · exact ⟨e1, e2⟩
    · exact ⟨e1, e2⟩
  | decide =>
    simp only [step]
    split
    · rename_i s ready hpc
      have hc := chk _ _ _ hpc
      split
      · constructor
        · intro hg; obtain ⟨t, h1, h2⟩ := e1 hg
          exact ⟨t, by dsimp only; grind, by dsimp only; grind⟩
        · dsimp only; intros; grind
      · exact ⟨e1, e2⟩
    · exact ⟨e1, e2⟩
  | ret s ok =>
    simp only [step]
    split
    · split
      · constructor
        · intro hg; obtain ⟨t, h1, h2⟩ := e1 hg
          exact ⟨t, by dsimp only; grind, by dsimp only; grind⟩
        · dsimp only; intros; grind
      · constructor
        · intro hg; obtain ⟨t, h1, h2⟩ := e1 hg
          exact ⟨t, by dsimp only; grind, by dsimp only; grind⟩
        · dsimp only; intros; grind
    · exact ⟨e1, e2⟩
  | post s =>
    simp only [step]
    split
    · rename_i hga
      split
      · constructor
        · intro hg; obtain ⟨t, h1, h2⟩ := e1 hg
          exact ⟨t, by dsimp only; grind, by dsimp only; grind⟩
        · dsimp only; intros; grind
      · constructor
        · intro _; exact ⟨s, by dsimp only; grind, by dsimp only; grind⟩
        · dsimp only; intros; rfl
    · exact ⟨e1, e2⟩
  | cancel => exact ⟨e1, e2⟩

theorem errInv_run (c : Cfg) (hne : ∀ s, c.cond s ≠ .err) (as : List Act) :
    ErrInv c (run c init as) := by
  suffices ∀ σ, Inv c σ → ErrInv c σ → ErrInv c (run c σ as) from this _ (inv_init c) (errInv_init c)
  induction as with
  | nil => intro σ _ h; exact h
  | cons a as ih =>
    intro σ h1 h2
    exact ih _ (inv_step c σ a h1) (errInv_step c σ a hne h1 h2)

end Sched
