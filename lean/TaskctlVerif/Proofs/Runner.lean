import TaskctlVerif.Model.Runner
/-!
# Lemmas about the task-run model R (helpers for C06, C07, C10, C13)
-/
namespace Runner

theorem ok_began {r : CmdResult} (h : r.ok = true) : r.began = true := by
  cases r <;> simp_all [CmdResult.ok, CmdResult.began]

theorem ok_iff {r : CmdResult} : r.ok = true ↔ r = .exit 0#8 := by
  cases r <;> simp [CmdResult.ok]

def cmdTok (p : Nat × Nat) : Tok := Tok.cmd p.1 p.2

/-- a prefix of successful jobs all run, and execution continues with the rest -/
theorem execute_append_ok (allow : Bool) (res : Nat → Nat → CmdResult) (pre rest : List (Nat × Nat))
    (ec : BitVec 16) (h : ∀ p ∈ pre, (res p.1 p.2).ok = true) :
    execute allow res (pre ++ rest) ec =
      ((pre.map cmdTok) ++ (execute allow res rest ec).1, (execute allow res rest ec).2.1,
        (execute allow res rest ec).2.2) := by
  induction pre with
  | nil => simp
  | cons p pre ih =>
    obtain ⟨v, j⟩ := p
    have hp := ok_iff.mp (h (v, j) List.mem_cons_self)
    have ih' := ih (fun q hq => h q (List.mem_cons_of_mem _ hq))
    simp only [List.cons_append, execute]
    simp only [] at hp
    rw [hp]
    simp only [BEq.rfl, if_true, CmdResult.began, ih', List.map_cons, cmdTok, List.singleton_append,
      List.cons_append, List.nil_append]

/-- without allow_failure the first job that does not succeed ends the execution -/
theorem execute_fail_head (res : Nat → Nat → CmdResult) (v j : Nat) (rest : List (Nat × Nat))
    (ec : BitVec 16) (h : (res v j).ok = false) :
    execute false res ((v, j) :: rest) ec =
      ((if (res v j).began then [Tok.cmd v j] else []), true,
        match res v j with
        | .exit n => statusToExit n
        | _ => ec) := by
  simp only [execute]
  cases hr : res v j with
  | exit n =>
    have hn : n ≠ 0#8 := by
      intro e; subst e; simp [CmdResult.ok, hr] at h
    simp [hn]
  | fault => simp
  | norender => simp

/-- which jobs make the task errored: any failure without allow_failure; with allow_failure only
an error that is not an exit status (timeout, cancellation, unrenderable command) -/
def stops (allow : Bool) (r : CmdResult) : Bool :=
  match r with
  | .exit n => !(n == 0#8) && !allow
  | _ => true

theorem execute_errored (allow : Bool) (res : Nat → Nat → CmdResult) (js : List (Nat × Nat))
    (ec : BitVec 16) :
    (execute allow res js ec).2.1 = js.any (fun p => stops allow (res p.1 p.2)) := by
  induction js generalizing ec with
  | nil => simp [execute]
  | cons p js ih =>
    obtain ⟨v, j⟩ := p
    simp only [execute, List.any_cons, stops]
    cases hr : res v j with
    | exit n =>
      by_cases hn : n = 0#8
      · subst hn; simp [ih, stops]
      · cases allow <;> simp [hn, ih, stops]
    | fault => simp
    | norender => simp

/-- no stopping job: every job that can render runs, in order -/
theorem execute_no_stop (allow : Bool) (res : Nat → Nat → CmdResult) (js : List (Nat × Nat))
    (ec : BitVec 16) (h : ∀ p ∈ js, stops allow (res p.1 p.2) = false) :
    (execute allow res js ec).1 = js.map cmdTok ∧ (execute allow res js ec).2.1 = false := by
  induction js generalizing ec with
  | nil => simp [execute]
  | cons p js ih =>
    obtain ⟨v, j⟩ := p
    have hp := h (v, j) List.mem_cons_self
    have ih' := fun ec => ih ec (fun q hq => h q (List.mem_cons_of_mem _ hq))
    simp only [execute, List.map_cons, cmdTok]
    cases hr : res v j with
    | exit n =>
      simp only [stops, hr] at hp
      by_cases hn : n = 0#8
      · subst hn; simp [CmdResult.began, ih']
      · cases allow
        · simp [hn] at hp
        · simp [hn, CmdResult.began, ih']
    | fault => simp [stops, hr] at hp
    | norender => simp [stops, hr] at hp

theorem range_shift {β : Type} (f : Nat → β) (n : Nat) :
    (List.range (n + 1)).map f = f 0 :: (List.range n).map (fun k => f (k + 1)) := by
  rw [List.range_succ_eq_map, List.map_cons, List.map_map]
  rfl

theorem runBefore_all_ok (i : Nat) (bs : List CmdResult) (h : ∀ r ∈ bs, r.ok = true) :
    runBefore i bs = ((List.range bs.length).map (fun k => Tok.before (i + k)), false) := by
  induction bs generalizing i with
  | nil => simp [runBefore]
  | cons r bs ih =>
    have hr := h r List.mem_cons_self
    simp only [runBefore, hr, ok_began hr, if_true, ih (i + 1) (fun q hq => h q (List.mem_cons_of_mem _ hq))]
    rw [List.length_cons, range_shift]
    have : ∀ k, i + 1 + k = i + (k + 1) := by intro k; omega
    simp [this]

/-- a failing `before` command stops the hooks there -/
theorem runBefore_fail (i : Nat) (pre : List CmdResult) (r : CmdResult) (post : List CmdResult)
    (hpre : ∀ q ∈ pre, q.ok = true) (hr : r.ok = false) :
    runBefore i (pre ++ r :: post) =
      ((List.range pre.length).map (fun k => Tok.before (i + k)) ++
        (if r.began then [Tok.before (i + pre.length)] else []), true) := by
  induction pre generalizing i with
  | nil => simp [runBefore, hr]
  | cons q pre ih =>
    have hq := hpre q List.mem_cons_self
    simp only [List.cons_append, runBefore, hq, ok_began hq, if_true,
      ih (i + 1) (fun q' h' => hpre q' (List.mem_cons_of_mem _ h'))]
    rw [List.length_cons, range_shift]
    have h1 : ∀ k, i + 1 + k = i + (k + 1) := by intro k; omega
    simp [h1]

theorem runBefore_failed_iff (i : Nat) (bs : List CmdResult) :
    (runBefore i bs).2 = bs.any (fun r => !r.ok) := by
  induction bs generalizing i with
  | nil => simp [runBefore]
  | cons r bs ih =>
    simp only [runBefore, List.any_cons]
    cases hr : r.ok <;> simp [ih]

/-- `int16(uint8 status)` keeps the value: no sign problem for statuses 128..255 -/
theorem statusToExit_toInt (n : BitVec 8) : (statusToExit n).toInt = n.toNat := by
  unfold statusToExit
  have h := n.isLt
  rw [BitVec.toInt_eq_toNat_cond]
  simp only [BitVec.truncate_eq_setWidth, BitVec.toNat_setWidth]
  have : n.toNat % 2 ^ 16 = n.toNat := Nat.mod_eq_of_lt (by omega)
  rw [this]
  split
  · rfl
  · omega

end Runner
