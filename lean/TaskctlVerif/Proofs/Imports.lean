import TaskctlVerif.Model.Imports
import TaskctlVerif.Proofs.Graph
/-!
# Proofs about the import loader model (C17): visited-set recursion = import closure, each once
-/
namespace Imports

/-- `b` is imported by `a`, and `a` could be read -/
def Edge (fs : FS) (a b : Nat) : Prop := fs.status a = .ok ∧ b ∈ fs.imports a

inductive Reach (fs : FS) : Nat → Nat → Prop
  | refl (a) : Reach fs a a
  | step {a b c} : Edge fs a b → Reach fs b c → Reach fs a c

theorem Reach.trans {fs : FS} {a b c} (h1 : Reach fs a b) (h2 : Reach fs b c) : Reach fs a c := by
  induction h1 with
  | refl => exact h2
  | step e _ ih => exact .step e (ih h2)

theorem Reach.tail {fs : FS} {a b c} (h1 : Reach fs a b) (e : Edge fs b c) : Reach fs a c :=
  h1.trans (.step e (.refl _))

/-- what a successful (sub-)load guarantees -/
structure OkSpec (fs : FS) (vis vis' c : List Nat) : Prop where
  visited : ∀ x, x ∈ vis' ↔ x ∈ vis ∨ x ∈ c
  fresh   : ∀ x ∈ c, x ∉ vis
  nodup   : c.Nodup
  closed  : ∀ x ∈ c, fs.status x = .ok ∧ ∀ y ∈ fs.imports x, y ∈ vis'

def LoadSpec (fs : FS) (vis : List Nat) (f : Nat) (r : Res) : Prop :=
  (∀ vis' c, r = .ok vis' c → OkSpec fs vis vis' c ∧ f ∈ c ∧ ∀ x ∈ c, Reach fs f x) ∧
  (r = .err → ∃ x, Reach fs f x ∧ fs.status x ≠ .ok)

def ListSpec (fs : FS) (vis vs : List Nat) (r : Res) : Prop :=
  (∀ vis' c, r = .ok vis' c → OkSpec fs vis vis' c ∧ (∀ v ∈ vs, v ∈ vis') ∧
      ∀ x ∈ c, ∃ v ∈ vs, Reach fs v x) ∧
  (r = .err → ∃ v ∈ vs, ∃ x, Reach fs v x ∧ fs.status x ≠ .ok)

theorem listSpec_oof (fs : FS) (vis vs : List Nat) : ListSpec fs vis vs .outOfFuel :=
  ⟨(fun _ _ h => (nomatch h)), (fun h => (nomatch h))⟩

theorem loadSpec_oof (fs : FS) (vis : List Nat) (f : Nat) : LoadSpec fs vis f .outOfFuel :=
  ⟨(fun _ _ h => (nomatch h)), (fun h => (nomatch h))⟩

theorem loadList_spec (fs : FS) (ld : List Nat → Nat → Res)
    (hld : ∀ vis v, v ∉ vis → LoadSpec fs vis v (ld vis v)) :
    ∀ vs vis, ListSpec fs vis vs (loadList ld vis vs) := by
  intro vs
  induction vs with
  | nil =>
    intro vis
    refine ⟨?_, ?_⟩
    · intro vis' c h
      simp only [loadList, Res.ok.injEq] at h
      obtain ⟨rfl, rfl⟩ := h
      exact ⟨⟨by simp, by simp, by simp, by simp⟩, by simp, by simp⟩
    · intro h; simp [loadList] at h
  | cons v rest ih =>
    intro vis
    simp only [loadList]
    by_cases hv : v ∈ vis
    · simp only [hv, if_true]
      have := ih vis
      refine ⟨?_, ?_⟩
      · intro vis' c h
        obtain ⟨hs, hall, hr⟩ := this.1 vis' c h
        refine ⟨hs, ?_, ?_⟩
        · intro w hw
          rcases List.mem_cons.mp hw with rfl | hw
          · exact (hs.visited w).mpr (.inl hv)
          · exact hall w hw
        · intro x hx
          obtain ⟨w, hw, hrw⟩ := hr x hx
          exact ⟨w, List.mem_cons_of_mem _ hw, hrw⟩
      · intro h
        obtain ⟨w, hw, x, hx⟩ := this.2 h
        exact ⟨w, List.mem_cons_of_mem _ hw, x, hx⟩
    · simp only [hv, if_false]
      have h1 := hld vis v hv
      cases hr1 : ld vis v with
      | outOfFuel => exact listSpec_oof fs vis _
      | err =>
        dsimp only
        refine ⟨(fun _ _ h => (nomatch h)), ?_⟩
        intro _
        obtain ⟨x, hx⟩ := h1.2 hr1
        exact ⟨v, List.mem_cons_self, x, hx⟩
      | ok vis1 c1 =>
        dsimp only
        obtain ⟨hs1, hfc, hreach1⟩ := h1.1 vis1 c1 hr1
        have h2 := ih vis1
        cases hr2 : loadList ld vis1 rest with
        | outOfFuel => exact listSpec_oof fs vis _
        | err =>
          try simp only [hr2]
          refine ⟨(fun _ _ h => (nomatch h)), ?_⟩
          intro _
          obtain ⟨w, hw, x, hx⟩ := h2.2 hr2
          exact ⟨w, List.mem_cons_of_mem _ hw, x, hx⟩
        | ok vis2 c2 =>
          try simp only [hr2]
          obtain ⟨hs2, hall2, hreach2⟩ := h2.1 vis2 c2 hr2
          refine ⟨?_, (fun h => (nomatch h))⟩
          intro vis' c h
          simp only [Res.ok.injEq] at h
          obtain ⟨rfl, rfl⟩ := h
          refine ⟨⟨?_, ?_, ?_, ?_⟩, ?_, ?_⟩
          · intro x
            rw [hs2.visited, hs1.visited, List.mem_append]
            constructor
            · rintro ((h | h) | h)
              · exact .inl h
              · exact .inr (.inl h)
              · exact .inr (.inr h)
            · rintro (h | h | h)
              · exact .inl (.inl h)
              · exact .inl (.inr h)
              · exact .inr h
          · intro x hx
            rcases List.mem_append.mp hx with h | h
            · exact hs1.fresh x h
            · intro hxv
              exact hs2.fresh x h ((hs1.visited x).mpr (.inl hxv))
          · rw [List.nodup_append]
            refine ⟨hs1.nodup, hs2.nodup, ?_⟩
            intro a ha b hb hab
            subst hab
            exact hs2.fresh a hb ((hs1.visited a).mpr (.inr ha))
          · intro x hx
            rcases List.mem_append.mp hx with h | h
            · refine ⟨(hs1.closed x h).1, ?_⟩
              intro y hy
              exact (hs2.visited y).mpr (.inl ((hs1.closed x h).2 y hy))
            · exact hs2.closed x h
          · intro w hw
            rcases List.mem_cons.mp hw with rfl | hw
            · exact (hs2.visited w).mpr (.inl ((hs1.visited w).mpr (.inr hfc)))
            · exact hall2 w hw
          · intro x hx
            rcases List.mem_append.mp hx with h | h
            · exact ⟨v, List.mem_cons_self, hreach1 x h⟩
            · obtain ⟨w, hw, hrw⟩ := hreach2 x h
              exact ⟨w, List.mem_cons_of_mem _ hw, hrw⟩

theorem load_spec (fs : FS) : ∀ fuel vis f, f ∉ vis → LoadSpec fs vis f (load fs fuel vis f) := by
  intro fuel
  induction fuel with
  | zero => intro vis f _; exact loadSpec_oof fs vis f
  | succ fuel ih =>
    intro vis f hf
    simp only [load]
    cases hst : fs.status f with
    | missing =>
      exact ⟨(fun _ _ h => (nomatch h)), fun _ => ⟨f, .refl f, by rw [hst]; simp⟩⟩
    | unparsable =>
      exact ⟨(fun _ _ h => (nomatch h)), fun _ => ⟨f, .refl f, by rw [hst]; simp⟩⟩
    | ok =>
      have hl := loadList_spec fs (load fs fuel) ih (fs.imports f) (f :: vis)
      cases hr : loadList (load fs fuel) (f :: vis) (fs.imports f) with
      | outOfFuel => exact loadSpec_oof fs vis f
      | err =>
        dsimp only
        refine ⟨(fun _ _ h => (nomatch h)), ?_⟩
        intro _
        obtain ⟨w, hw, x, hx, hbad⟩ := hl.2 hr
        exact ⟨x, .step ⟨hst, hw⟩ hx, hbad⟩
      | ok vis1 c1 =>
        dsimp only
        obtain ⟨hs, hall, hreach⟩ := hl.1 vis1 c1 hr
        refine ⟨?_, (fun h => (nomatch h))⟩
        intro vis' c h
        simp only [Res.ok.injEq] at h
        obtain ⟨rfl, rfl⟩ := h
        refine ⟨⟨?_, ?_, ?_, ?_⟩, List.mem_cons_self, ?_⟩
        · intro x
          rw [hs.visited, List.mem_cons, List.mem_cons]
          constructor
          · rintro ((h | h) | h)
            · exact .inr (.inl h)
            · exact .inl h
            · exact .inr (.inr h)
          · rintro (h | h | h)
            · exact .inl (.inr h)
            · exact .inl (.inl h)
            · exact .inr h
        · intro x hx
          rcases List.mem_cons.mp hx with rfl | h
          · exact hf
          · intro hxv; exact hs.fresh x h (List.mem_cons_of_mem _ hxv)
        · rw [List.nodup_cons]
          exact ⟨fun h => hs.fresh f h List.mem_cons_self, hs.nodup⟩
        · intro x hx
          rcases List.mem_cons.mp hx with rfl | h
          · exact ⟨hst, hall⟩
          · exact hs.closed x h
        · intro x hx
          rcases List.mem_cons.mp hx with rfl | h
          · exact .refl _
          · obtain ⟨w, hw, hrw⟩ := hreach x h
            exact .step ⟨hst, hw⟩ hrw

/-! ## Fuel: `#files + 1` is always enough -/

open Graph in
theorem loadList_fuel (fs : FS) (n : Nat) (ld : List Nat → Nat → Res) (k : Nat)
    (hspec : ∀ vis v, v ∉ vis → LoadSpec fs vis v (ld vis v))
    (hld : ∀ vis v, v < n → v ∉ vis → cnt (List.range n) vis ≤ k → ld vis v ≠ .outOfFuel) :
    ∀ vs vis, (∀ v ∈ vs, v < n) → cnt (List.range n) vis ≤ k → loadList ld vis vs ≠ .outOfFuel := by
  intro vs
  induction vs with
  | nil => intro vis _ _; simp [loadList]
  | cons v rest ih =>
    intro vis hvs hk
    simp only [loadList]
    have hrest : ∀ w ∈ rest, w < n := fun w hw => hvs w (List.mem_cons_of_mem _ hw)
    by_cases hv : v ∈ vis
    · simp only [hv, if_true]; exact ih vis hrest hk
    · simp only [hv, if_false]
      have h1 := hld vis v (hvs v List.mem_cons_self) hv hk
      cases hr1 : ld vis v with
      | outOfFuel => exact absurd hr1 h1
      | err => simp
      | ok vis1 c1 =>
        have hs := ((hspec vis v hv).1 vis1 c1 hr1).1
        have hle : cnt (List.range n) vis1 ≤ cnt (List.range n) vis := by
          unfold cnt
          apply filter_len_le
          intro x hx
          simp only [decide_eq_true_eq] at hx ⊢
          intro hxv; exact hx ((hs.visited x).mpr (.inl hxv))
        have h2 := ih vis1 hrest (by omega)
        cases hr2 : loadList ld vis1 rest with
        | outOfFuel => exact absurd hr2 h2
        | err => simp [hr2]
        | ok _ _ => simp [hr2]

open Graph in
theorem load_fuel (fs : FS) (n : Nat) (hclosed : ∀ x, x < n → ∀ y ∈ fs.imports x, y < n) :
    ∀ fuel vis f, f < n → f ∉ vis → cnt (List.range n) vis ≤ fuel → load fs fuel vis f ≠ .outOfFuel := by
  intro fuel
  induction fuel with
  | zero =>
    intro vis f hf hfv hc
    have := cnt_cons_lt (List.range n) vis f (List.mem_range.mpr hf) hfv
    omega
  | succ fuel ih =>
    intro vis f hf hfv hc
    simp only [load]
    cases hst : fs.status f with
    | missing => simp
    | unparsable => simp
    | ok =>
      have hlt := cnt_cons_lt (List.range n) vis f (List.mem_range.mpr hf) hfv
      have := loadList_fuel fs n (load fs fuel) fuel (load_spec fs fuel) ih (fs.imports f) (f :: vis)
        (hclosed f hf) (by omega)
      cases hr : loadList (load fs fuel) (f :: vis) (fs.imports f) with
      | outOfFuel => exact absurd hr this
      | err => simp [hr]
      | ok _ _ => simp [hr]

end Imports
