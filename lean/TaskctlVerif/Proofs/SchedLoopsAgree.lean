import TaskctlVerif.Proofs.SchedLoops
/-!
# Several loops over one graph: agreement with the final-status equations (C02)

The invariant `Agree` of `Proofs/Sched.lean`, carried over to `Model/SchedLoops.lean`: wherever a stage
is decided, any number of loops working on the graph at once leave it with the status the equations
`IsFinal` prescribe.  (The clauses about the loop's program counter are already part of `LInv`.)
Core Lean only.
-/
namespace SchedLoops
open Sched

structure LAgree (c : Cfg) (okf : Nat → Bool) (f : Nat → Status) (σ : LSt) : Prop where
  started  : ∀ s, σ.g s ≠ .none → f s = outcome c okf s
  skipped  : ∀ s, σ.status s = .skipped → f s = .skipped
  canceled : ∀ s, σ.status s = .canceled → f s = .canceled
  fin      : ∀ s, σ.g s = .fin → σ.status s = f s
  after    : ∀ s, σ.g s = .afterErr → okf s = false
  err_run  : ∀ s, σ.status s = .error → σ.g s ≠ .none

theorem lagree_init (c : Cfg) (okf f) : LAgree c okf f linit := by
  constructor <;> simp [linit]

macro "close_lagree" : tactic =>
  `(tactic| (constructor <;> (dsimp only [] <;> intros <;> grind [LSat, lgcases, outcome, Blocked])))

def LRespects (okf : Nat → Bool) : LAct → Prop
  | .ret s b => b = okf s
  | _ => True

theorem lagree_visit (c okf f σ) (l s : Nat) (hf : IsFinal c okf f) (hne : ∀ s, c.cond s ≠ .err)
    (hi : LInv c σ) (h : LAgree c okf f σ) : LAgree c okf f (lstep c σ (.visit l s)) := by
  obtain ⟨g_none, g_run, run_g, g_after, g_fin, started, skip_c, err_c, chk⟩ := hi
  obtain ⟨a1, a2, a3, a4, a5, a6⟩ := h
  obtain ⟨f1, f2, f3⟩ := hf
  have := hne s
  simp only [lstep]
  split
  · split
    · split
      · close_lagree
      · contradiction
      · close_lagree
    · exact ⟨a1, a2, a3, a4, a5, a6⟩
  · exact ⟨a1, a2, a3, a4, a5, a6⟩

theorem lagree_read (c okf f σ) (l : Nat) (hf : IsFinal c okf f)
    (hi : LInv c σ) (h : LAgree c okf f σ) : LAgree c okf f (lstep c σ (.read l)) := by
  obtain ⟨g_none, g_run, run_g, g_after, g_fin, started, skip_c, err_c, chk⟩ := hi
  obtain ⟨a1, a2, a3, a4, a5, a6⟩ := h
  obtain ⟨f1, f2, f3⟩ := hf
  simp only [lstep]
  split
  · rename_i s d rest ready hpc
    have hc := chk _ _ _ _ hpc
    have hcond := hc.1.1
    have hmem : d ∈ c.deps s := hc.2.1 d List.mem_cons_self
    have hgs := lgcases σ s
    have hsat : σ.g s ≠ .none → LSat c σ d := fun hg => started s hg d hmem
    split
    · close_lagree
    · close_lagree
    · split
      · close_lagree
      · rename_i hst hal
        have hfd : f d = .error := by
          have := lgcases σ d
          grind [outcome]
        have hfs : f s = .canceled := f2 s hcond ⟨d, hmem, Or.inr hfd⟩
        close_lagree
    · rename_i hst
      have hfs : f s = .canceled := f2 s hcond ⟨d, hmem, Or.inl (a3 d hst)⟩
      close_lagree
    · close_lagree
  · exact ⟨a1, a2, a3, a4, a5, a6⟩

theorem lsat_not_blocking (c okf f σ) (hi : LInv c σ) (h : LAgree c okf f σ) (d : Nat)
    (hs : LSat c σ d) : f d ≠ .canceled ∧ f d ≠ .error := by
  obtain ⟨g_none, g_run, run_g, g_after, g_fin, started, skip_c, err_c, chk⟩ := hi
  obtain ⟨a1, a2, a3, a4, a5, a6⟩ := h
  have := lgcases σ d
  unfold LSat at hs
  grind [outcome]

theorem lagree_decide (c okf f σ) (l : Nat) (hf : IsFinal c okf f)
    (hi : LInv c σ) (h : LAgree c okf f σ) : LAgree c okf f (lstep c σ (.decide l)) := by
  have hsat := lsat_not_blocking c okf f σ hi h
  obtain ⟨g_none, g_run, run_g, g_after, g_fin, started, skip_c, err_c, chk⟩ := hi
  obtain ⟨a1, a2, a3, a4, a5, a6⟩ := h
  obtain ⟨f1, f2, f3⟩ := hf
  simp only [lstep]
  split
  · rename_i s ready hpc
    have hc := chk _ _ _ _ hpc
    have hcond := hc.1.1
    split
    · rename_i hr
      have hready : ready = true := by simp_all
      have hnb : ¬ Blocked c f s := by
        rintro ⟨d, hd, hb⟩
        have hsd : LSat c σ d := by
          rcases hc.2.2 hready d hd with h | h
          · cases h
          · exact h
        have := hsat d hsd
        grind
      have hfs : f s = outcome c okf s := f3 s hcond hnb
      close_lagree
    · close_lagree
  · exact ⟨a1, a2, a3, a4, a5, a6⟩

theorem lagree_ret (c okf f σ) (s : Nat) (b : Bool) (hb : b = okf s)
    (hi : LInv c σ) (h : LAgree c okf f σ) : LAgree c okf f (lstep c σ (.ret s b)) := by
  obtain ⟨g_none, g_run, run_g, g_after, g_fin, started, skip_c, err_c, chk⟩ := hi
  obtain ⟨a1, a2, a3, a4, a5, a6⟩ := h
  simp only [lstep]
  split
  · split
    · close_lagree
    · close_lagree
  · exact ⟨a1, a2, a3, a4, a5, a6⟩

theorem lagree_post (c okf f σ) (s : Nat)
    (hi : LInv c σ) (h : LAgree c okf f σ) : LAgree c okf f (lstep c σ (.post s)) := by
  obtain ⟨g_none, g_run, run_g, g_after, g_fin, started, skip_c, err_c, chk⟩ := hi
  obtain ⟨a1, a2, a3, a4, a5, a6⟩ := h
  simp only [lstep]
  split
  · split
    · close_lagree
    · close_lagree
  · exact ⟨a1, a2, a3, a4, a5, a6⟩

theorem lagree_step (c okf f σ) (a : LAct) (hf : IsFinal c okf f) (hne : ∀ s, c.cond s ≠ .err)
    (ha : LRespects okf a) (hi : LInv c σ) (h : LAgree c okf f σ) : LAgree c okf f (lstep c σ a) := by
  cases a with
  | visit l s => exact lagree_visit c okf f σ l s hf hne hi h
  | read l => exact lagree_read c okf f σ l hf hi h
  | decide l => exact lagree_decide c okf f σ l hf hi h
  | ret s b => exact lagree_ret c okf f σ s b ha hi h
  | post s => exact lagree_post c okf f σ s hi h
  | cancel =>
    obtain ⟨a1, a2, a3, a4, a5, a6⟩ := h
    exact ⟨a1, a2, a3, a4, a5, a6⟩

theorem lagree_run (c okf f) (hf : IsFinal c okf f) (hne : ∀ s, c.cond s ≠ .err) (as : List LAct)
    (has : ∀ a ∈ as, LRespects okf a) : LInv c (lrun c linit as) ∧ LAgree c okf f (lrun c linit as) := by
  suffices ∀ σ, LInv c σ → LAgree c okf f σ → LInv c (lrun c σ as) ∧ LAgree c okf f (lrun c σ as) from
    this _ (linv_init c) (lagree_init c okf f)
  induction as with
  | nil => intro σ h1 h2; exact ⟨h1, h2⟩
  | cons a as ih =>
    intro σ h1 h2
    exact ih (fun a' h => has a' (List.mem_cons_of_mem _ h)) _ (linv_step c σ a h1)
      (lagree_step c okf f σ a hf hne (has a List.mem_cons_self) h1 h2)

end SchedLoops
