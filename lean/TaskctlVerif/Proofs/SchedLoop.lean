import TaskctlVerif.Proofs.Sched
/-!
# Loop-level lemmas for the scheduler model (helpers for C03 and C04)

`visitFull` = one complete examination of a stage by the loop; `pass` = one iteration of the
`for !isDone` loop with no task returning in between.
-/
namespace Sched

/-- actions of the loop thread -/
def Act.isLoop : Act → Bool
  | .visit _ | .read | .decide => true
  | _ => false

theorem step_read_idle (c : Cfg) (σ : St) (h : σ.pc = .idle) : step c σ .read = σ := by
  simp [step, h]

theorem step_decide_idle (c : Cfg) (σ : St) (h : σ.pc = .idle) : step c σ .decide = σ := by
  simp [step, h]

theorem run_reads_idle (c : Cfg) (σ : St) (h : σ.pc = .idle) (k : Nat) :
    run c σ (List.replicate k .read) = σ := by
  induction k with
  | zero => rfl
  | succ k ih => rw [List.replicate_succ, run_cons, step_read_idle c σ h, ih]

/-- the loop thread never touches a stage that is no longer waiting -/
theorem loop_frame (c : Cfg) (σ : St) (a : Act) (ha : a.isLoop = true) (hi : Inv c σ) (s : Nat)
    (hs : σ.status s ≠ .waiting) :
    (step c σ a).status s = σ.status s ∧ (step c σ a).g s = σ.g s := by
  have hchk := hi.chk
  cases a with
  | visit t =>
    simp only [step]
    split
    · split
      · split <;> grind
      · exact ⟨rfl, rfl⟩
    · exact ⟨rfl, rfl⟩
  | read =>
    simp only [step]
    split
    · rename_i t d rest ready hpc
      have := hchk _ _ _ hpc
      split
      · exact ⟨rfl, rfl⟩
      · exact ⟨rfl, rfl⟩
      · split
        · exact ⟨rfl, rfl⟩
        · grind
      · grind
      · exact ⟨rfl, rfl⟩
    · exact ⟨rfl, rfl⟩
  | decide =>
    simp only [step]
    split
    · rename_i t ready hpc
      have := hchk _ _ _ hpc
      split
      · grind
      · exact ⟨rfl, rfl⟩
    · exact ⟨rfl, rfl⟩
  | ret _ _ => cases ha
  | post _ => cases ha
  | cancel => cases ha

theorem sat_loop_stable (c : Cfg) (σ : St) (a : Act) (ha : a.isLoop = true) (hi : Inv c σ) (d : Nat)
    (h : Sat c σ d) : Sat c (step c σ a) d := by
  have hne : σ.status d ≠ .waiting := by unfold Sat at h; grind
  have := (loop_frame c σ a ha hi d hne).1
  unfold Sat at *
  rw [this]; exact h

/-- `k` reads of satisfied dependencies leave `ready` and every status alone -/
theorem reads_sat (c : Cfg) : ∀ (rest : List Nat) (σ : St) (s : Nat),
    σ.pc = .check s rest true → (∀ d ∈ rest, Sat c σ d) →
    run c σ (List.replicate rest.length .read) = { σ with pc := .check s [] true } := by
  intro rest
  induction rest with
  | nil => intro σ s hpc _; cases σ; simp_all [run]
  | cons d rest ih =>
    intro σ s hpc hsat
    have hd := hsat d List.mem_cons_self
    rw [List.length_cons, List.replicate_succ, run_cons]
    have hstep : step c σ .read = { σ with pc := .check s rest true } := by
      simp only [step, hpc]
      unfold Sat at hd
      rcases hd with h | h | ⟨h, ha⟩
      · simp [h]
      · simp [h]
      · simp [h, ha]
    rw [hstep]
    have := ih { σ with pc := .check s rest true } s rfl
      (fun d' hd' => by have := hsat d' (List.mem_cons_of_mem _ hd'); exact this)
    rw [this]

theorem visit_pc (c : Cfg) (σ : St) (t : Nat) (hidle : σ.pc = .idle) :
    (step c σ (.visit t)).pc = .idle ∨ (step c σ (.visit t)).pc = .check t (c.deps t) true := by
  simp only [step, hidle]
  split
  · split
    · exact .inl rfl
    · exact .inl rfl
    · exact .inr rfl
  · exact .inl hidle

theorem decide_pc_idle (c : Cfg) (σ : St) (t : Nat) (r : Bool) (h : σ.pc = .check t [] r) :
    (step c σ .decide).pc = .idle := by
  simp only [step, h]
  split <;> rfl

/-- stages other than the one under examination are not touched by reads and the decision -/
theorem reads_other (c : Cfg) : ∀ (k : Nat) (σ : St) (t : Nat) (rest : List Nat) (ready : Bool),
    σ.pc = .check t rest ready →
    let σ' := run c σ (List.replicate k .read)
    (∃ rest' ready', σ'.pc = .check t rest' ready') ∧
      ∀ s, s ≠ t → σ'.status s = σ.status s ∧ σ'.g s = σ.g s := by
  intro k
  induction k with
  | zero => intro σ t rest ready hpc; exact ⟨⟨rest, ready, hpc⟩, fun s _ => ⟨rfl, rfl⟩⟩
  | succ k ih =>
    intro σ t rest ready hpc
    rw [List.replicate_succ]
    show (∃ rest' ready', (run c (step c σ .read) _).pc = _) ∧ _
    have key : (∃ rest' ready', (step c σ .read).pc = .check t rest' ready') ∧
        ∀ s, s ≠ t → (step c σ .read).status s = σ.status s ∧ (step c σ .read).g s = σ.g s := by
      simp only [step, hpc]
      cases rest with
      | nil => exact ⟨⟨[], ready, hpc⟩, fun s _ => ⟨rfl, rfl⟩⟩
      | cons d rest =>
        dsimp only
        split
        · exact ⟨⟨_, _, rfl⟩, fun s _ => ⟨rfl, rfl⟩⟩
        · exact ⟨⟨_, _, rfl⟩, fun s _ => ⟨rfl, rfl⟩⟩
        · split
          · exact ⟨⟨_, _, rfl⟩, fun s _ => ⟨rfl, rfl⟩⟩
          · exact ⟨⟨_, _, rfl⟩, fun s hs => ⟨by simp [upd_apply, hs], rfl⟩⟩
        · exact ⟨⟨_, _, rfl⟩, fun s hs => ⟨by simp [upd_apply, hs], rfl⟩⟩
        · exact ⟨⟨_, _, rfl⟩, fun s _ => ⟨rfl, rfl⟩⟩
    obtain ⟨⟨rest', ready', hpc'⟩, hoth⟩ := key
    have := ih (step c σ .read) t rest' ready' hpc'
    refine ⟨this.1, fun s hs => ?_⟩
    have h1 := this.2 s hs
    have h2 := hoth s hs
    exact ⟨h1.1.trans h2.1, h1.2.trans h2.2⟩

theorem decide_other (c : Cfg) (σ : St) (t : Nat) (rest : List Nat) (ready : Bool)
    (hpc : σ.pc = .check t rest ready) (s : Nat) (hs : s ≠ t) :
    (step c σ .decide).status s = σ.status s ∧ (step c σ .decide).g s = σ.g s := by
  simp only [step, hpc]
  cases rest with
  | nil =>
    dsimp only
    split
    · exact ⟨by simp [upd_apply, hs], by simp [upd_apply, hs]⟩
    · exact ⟨rfl, rfl⟩
  | cons _ _ => exact ⟨rfl, rfl⟩

/-- a complete visit of `t` touches no other stage -/
theorem visitFull_other (c : Cfg) (σ : St) (t : Nat) (hidle : σ.pc = .idle) (s : Nat) (hs : s ≠ t) :
    (visitFull c σ t).status s = σ.status s ∧ (visitFull c σ t).g s = σ.g s := by
  unfold visitFull
  have hv : (step c σ (.visit t)).status s = σ.status s ∧ (step c σ (.visit t)).g s = σ.g s := by
    simp only [step, hidle]
    split
    · split
      · exact ⟨by simp [upd_apply, hs], rfl⟩
      · exact ⟨by simp [upd_apply, hs], rfl⟩
      · exact ⟨rfl, rfl⟩
    · exact ⟨rfl, rfl⟩
  -- after the visit the loop is idle or examining `t`
  have hpc := visit_pc c σ t hidle
  rcases hpc with hpc | hpc
  · rw [run_reads_idle c _ hpc, step_decide_idle c _ hpc]; exact hv
  · obtain ⟨⟨rest', ready', hpc'⟩, hoth⟩ := reads_other c (c.deps t).length _ t _ _ hpc
    have h1 := hoth s hs
    have h2 := decide_other c _ t rest' ready' hpc' s hs
    exact ⟨h2.1.trans (h1.1.trans hv.1), h2.2.trans (h1.2.trans hv.2)⟩

/-- the list of actions a complete visit consists of -/
def visitActs (c : Cfg) (t : Nat) : List Act :=
  .visit t :: (List.replicate (c.deps t).length .read ++ [.decide])

theorem visitFull_eq_run (c : Cfg) (σ : St) (t : Nat) : visitFull c σ t = run c σ (visitActs c t) := by
  simp [visitFull, visitActs, run, List.foldl_append]

theorem visitActs_loop (c : Cfg) (t : Nat) : ∀ a ∈ visitActs c t, a.isLoop = true := by
  intro a ha
  simp only [visitActs, List.mem_cons, List.mem_append, List.mem_replicate, List.not_mem_nil,
    or_false] at ha
  rcases ha with rfl | ⟨_, rfl⟩ | rfl <;> rfl

theorem inv_run_from (c : Cfg) (as : List Act) : ∀ σ, Inv c σ → Inv c (run c σ as) := by
  induction as with
  | nil => intro σ h; exact h
  | cons a as ih => intro σ h; exact ih _ (inv_step c σ a h)

theorem inv_visitFull (c : Cfg) (σ : St) (t : Nat) (h : Inv c σ) : Inv c (visitFull c σ t) := by
  rw [visitFull_eq_run]; exact inv_run_from c _ σ h

/-- a run of loop actions never touches a stage that is no longer waiting -/
theorem loop_frame_run (c : Cfg) (as : List Act) : ∀ σ, (∀ a ∈ as, a.isLoop = true) → Inv c σ →
    ∀ s, σ.status s ≠ .waiting → (run c σ as).status s = σ.status s ∧ (run c σ as).g s = σ.g s := by
  induction as with
  | nil => intro σ _ _ s _; exact ⟨rfl, rfl⟩
  | cons a as ih =>
    intro σ hl hi s hs
    have h1 := loop_frame c σ a (hl a List.mem_cons_self) hi s hs
    have h2 := ih (step c σ a) (fun a' h => hl a' (List.mem_cons_of_mem _ h)) (inv_step c σ a hi) s
      (by rw [h1.1]; exact hs)
    exact ⟨h2.1.trans h1.1, h2.2.trans h1.2⟩

theorem visitFull_frame (c : Cfg) (σ : St) (t : Nat) (hi : Inv c σ) (s : Nat)
    (hs : σ.status s ≠ .waiting) :
    (visitFull c σ t).status s = σ.status s ∧ (visitFull c σ t).g s = σ.g s := by
  rw [visitFull_eq_run]
  exact loop_frame_run c _ σ (visitActs_loop c t) hi s hs

/-- a complete visit returns the loop to `idle` -/
theorem visitFull_idle (c : Cfg) (σ : St) (t : Nat) (hidle : σ.pc = .idle) :
    (visitFull c σ t).pc = .idle := by
  unfold visitFull
  have hpc := visit_pc c σ t hidle
  rcases hpc with hpc | hpc
  · rw [run_reads_idle c _ hpc, step_decide_idle c _ hpc]; exact hpc
  · -- after exactly `length` reads the list is exhausted
    have : ∀ (rest : List Nat) (σ : St) (ready : Bool), σ.pc = .check t rest ready →
        ∃ ready', (run c σ (List.replicate rest.length .read)).pc = .check t [] ready' := by
      intro rest
      induction rest with
      | nil => intro σ ready h; exact ⟨ready, h⟩
      | cons d rest ih =>
        intro σ ready h
        rw [List.length_cons, List.replicate_succ, run_cons]
        have : ∃ r', (step c σ .read).pc = .check t rest r' := by
          simp only [step, h]
          split
          · exact ⟨_, rfl⟩
          · exact ⟨_, rfl⟩
          · split <;> exact ⟨_, rfl⟩
          · exact ⟨_, rfl⟩
          · exact ⟨_, rfl⟩
        obtain ⟨r', hr'⟩ := this
        exact ih _ r' hr'
    obtain ⟨ready', h⟩ := this _ _ _ hpc
    exact decide_pc_idle c _ t ready' h

/-- how one action can change one stage: the five kinds of transition -/
theorem step_cases (c : Cfg) (σ : St) (a : Act) (hi : Inv c σ) (s : Nat) :
    ((step c σ a).status s = σ.status s ∧ (step c σ a).g s = σ.g s ∧
        (step c σ a).starts s = σ.starts s) ∨
    (σ.g s = .none ∧ (step c σ a).g s = .none ∧ (step c σ a).starts s = σ.starts s ∧
        σ.status s = .waiting ∧
        ((step c σ a).status s = .skipped ∨ (step c σ a).status s = .error ∨
          (step c σ a).status s = .canceled)) ∨
    (σ.g s = .none ∧ σ.status s = .waiting ∧ (step c σ a).g s = .inRun ∧
        (step c σ a).status s = .running ∧ (step c σ a).starts s = σ.starts s + 1) ∨
    (σ.g s = .inRun ∧ (step c σ a).starts s = σ.starts s ∧
        (((step c σ a).g s = .fin ∧ (step c σ a).status s = .done) ∨
         ((step c σ a).g s = .afterErr ∧ (step c σ a).status s = .error))) ∨
    (σ.g s = .afterErr ∧ (step c σ a).g s = .fin ∧ (step c σ a).starts s = σ.starts s ∧
        ((step c σ a).status s = .done ∨ (step c σ a).status s = .error)) := by
  obtain ⟨g_none, g_run, run_g, g_after, g_fin, started, chk⟩ := hi
  have hg := gcases σ s
  cases a with
  | visit t =>
    simp only [step]; split
    · split
      · split
        · dsimp only []; by_cases hst : s = t <;> grind
        · dsimp only []; by_cases hst : s = t <;> grind
        · exact .inl ⟨rfl, rfl, rfl⟩
      · exact .inl ⟨rfl, rfl, rfl⟩
    · exact .inl ⟨rfl, rfl, rfl⟩
  | read =>
    simp only [step]; split
    · rename_i t d rest ready hpc
      have hc := chk _ _ _ hpc
      split
      · exact .inl ⟨rfl, rfl, rfl⟩
      · exact .inl ⟨rfl, rfl, rfl⟩
      · split
        · exact .inl ⟨rfl, rfl, rfl⟩
        · dsimp only []; by_cases hst : s = t <;> grind
      · dsimp only []; by_cases hst : s = t <;> grind
      · exact .inl ⟨rfl, rfl, rfl⟩
    · exact .inl ⟨rfl, rfl, rfl⟩
  | decide =>
    simp only [step]; split
    · rename_i t ready hpc
      have hc := chk _ _ _ hpc
      split
      · dsimp only []; by_cases hst : s = t <;> grind
      · exact .inl ⟨rfl, rfl, rfl⟩
    · exact .inl ⟨rfl, rfl, rfl⟩
  | ret t ok =>
    simp only [step]; split
    · split
      · dsimp only []; by_cases hst : s = t <;> grind
      · dsimp only []; by_cases hst : s = t <;> grind
    · exact .inl ⟨rfl, rfl, rfl⟩
  | post t =>
    simp only [step]; split
    · split
      · dsimp only []; by_cases hst : s = t <;> grind
      · dsimp only []; by_cases hst : s = t <;> grind
    · exact .inl ⟨rfl, rfl, rfl⟩
  | cancel => exact .inl ⟨rfl, rfl, rfl⟩

/-- a pass is a run of loop actions only -/
theorem pass_only_loop_actions' (c : Cfg) (order : List Nat) (σ : St) :
    pass c σ order = run c σ (order.flatMap (visitActs c)) ∧
      ∀ a ∈ order.flatMap (visitActs c), a.isLoop = true := by
  constructor
  · induction order generalizing σ with
    | nil => rfl
    | cons t rest ih =>
      simp only [pass, List.foldl_cons, List.flatMap_cons]
      rw [run_append, ← visitFull_eq_run]
      exact ih _
  · intro a ha
    rw [List.mem_flatMap] at ha
    obtain ⟨t, _, h⟩ := ha
    exact visitActs_loop c t a h

end Sched
