import TaskctlVerif.Model.CockpitLocks
/-!
Who holds which lock is determined by where the threads are (`Inv`), in every reachable state.
-/
namespace CockpitLocks

structure Inv (σ : St) : Prop where
  sR : σ.s = some .redraw ↔ σ.r ≠ .idle
  sC : σ.s = some .closer ↔ σ.closer = .inS
  sA : σ.s = some .adder ↔ σ.adder = .inS
  sF : ∀ i, σ.s ≠ some (.fin i)
  bR : σ.b = some .redraw ↔ σ.r = .drain
  bC : σ.b = some .closer ↔ σ.closer = .inB
  bA : σ.b = some .adder ↔ σ.adder = .inB
  bF : ∀ i, σ.b = some (.fin i) ↔ σ.fin i = .inB

theorem inv_init : Inv init := by
  constructor <;> simp [init]

theorem inv_next (σ σ' : St) (o : Owner) (h : Inv σ) (hn : next σ o = some σ') : Inv σ' := by
  obtain ⟨sR, sC, sA, sF, bR, bC, bA, bF⟩ := h
  cases o with
  | redraw =>
    simp only [next] at hn
    cases hr : σ.r <;> simp only [hr] at hn
    · split at hn
      · cases hn; constructor <;> simp_all
      · cases hn
    · cases hn; constructor <;> simp_all
    · split at hn
      · cases hn; constructor <;> simp_all
      · cases hn
    · cases hn; constructor <;> simp_all
    · cases hn; constructor <;> simp_all
  | fin i =>
    simp only [next] at hn
    cases hf : σ.fin i <;> simp only [hf] at hn
    · split at hn
      · cases hn
        constructor <;> (try simp_all)
        intro j
        by_cases hj : j = i
        · subst hj; simp [upd]
        · have := bF j; simp_all [upd]; exact fun h => hj h.symm
      · cases hn
    · cases hn
      have hb := (bF i).mpr hf
      constructor <;> (try simp_all)
      intro j
      by_cases hj : j = i
      · subst hj; simp [upd]
      · have hbj := bF j
        simp only [upd, hj, if_false]
        intro h
        exact hj (hbj.mpr h).symm
    · cases hn
  | closer =>
    simp only [next] at hn
    cases hc : σ.closer <;> simp only [hc] at hn
    · split at hn
      · cases hn; constructor <;> simp_all
      · cases hn
    · cases hn; constructor <;> simp_all
    · split at hn
      · cases hn; constructor <;> simp_all
      · cases hn
    · cases hn; constructor <;> simp_all
    · cases hn
  | adder =>
    simp only [next] at hn
    cases hc : σ.adder <;> simp only [hc] at hn
    · split at hn
      · cases hn; constructor <;> simp_all
      · cases hn
    · cases hn; constructor <;> simp_all
    · split at hn
      · cases hn; constructor <;> simp_all
      · cases hn
    · cases hn; constructor <;> simp_all
    · cases hn

theorem inv_step (σ : St) (o : Owner) (h : Inv σ) : Inv (step σ o) := by
  unfold step
  cases hn : next σ o with
  | none => simpa using h
  | some σ' => simpa using inv_next σ σ' o h hn

theorem inv_run (os : List Owner) : ∀ σ, Inv σ → Inv (run σ os) := by
  induction os with
  | nil => intro σ h; exact h
  | cons o os ih => intro σ h; exact ih _ (inv_step σ o h)

end CockpitLocks
