#!/bin/bash
# isolated.sh <script-relative-to-/verif> [args...] : run a regression script against private copies of /verif and
# /repo (so that /repo and /verif/.build stay untouched and can be worked on meanwhile). The copies live under
# /tmp and are removed afterwards; nothing registered in MANIFEST.json uses this script.
set -e
D=$(mktemp -d /tmp/verif-reg.XXXXXX)
trap 'rm -rf "$D"' EXIT
git clone -q /repo "$D/repo"
mkdir -p "$D/verif"
(cd /verif && tar cf - --exclude=.git --exclude=.build --exclude=replays --exclude=lean/.lake .) | (cd "$D/verif" && tar xf -)
cp -r /verif/lean/.lake "$D/verif/lean/.lake" 2>/dev/null || true
sed -i "s|=> /repo|=> $D/repo|" "$D/verif/harness/go.mod"
cp "$D/repo/go.sum" "$D/verif/harness/go.sum"
export VERIF_REPO="$D/repo" ALARM_DIR=/tmp/reg_alarms
cd "$D/verif"
s=$1; shift
"./$s" "$@"
