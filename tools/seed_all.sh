#!/bin/bash
# seed_all.sh [tier] : run every stored seeded change against the check of the property it breaks
# (SEED_FILTER=<regex on the id> restricts the set; VERIF_SEED selects the generators' seed).
# Prints one line per change: DETECTED / MISSED. /repo is restored after each.
V=$(cd "$(dirname "$0")/.." && pwd); R=${VERIF_REPO:-/repo}
cd "$V"
export VERIF_EVIDENCE_DIR=$V/.build/seed-evidence
TIER=${1:-quick}
for d in seeded/*/; do
  id=$(basename "$d"); case "$id" in *-dropped) continue;; esac; prop=${id%-*}
  if [ -n "$SEED_FILTER" ] && ! echo "$id" | grep -Eq "$SEED_FILTER"; then continue; fi
  if ! git -C "$R" apply --check "$V/$d/patch.diff" 2>/dev/null; then echo "$id: PATCH-DOES-NOT-APPLY"; continue; fi
  git -C "$R" apply "$V/$d/patch.diff"
  out=$(./check "$prop" "$TIER" 2>&1)
  git -C "$R" checkout -- . >/dev/null 2>&1
  if echo "$out" | grep -q "^VIOLATION property=$prop"; then
    echo "$id: DETECTED $(echo "$out" | grep '^VIOLATION' | head -1 | sed 's/.*replay=[^ ]*//')"
  else
    echo "$id: MISSED"
  fi
done
# leave the build products matching the unchanged tree
(cd "$V/harness" && GOFLAGS=-mod=mod GOPROXY=off GOSUMDB=off GOTOOLCHAIN=local go build -tags verif -o "$V/.build/harness" . ) && (cd "$R" && go build -o "$V/.build/taskctl" ./cmd/taskctl)
