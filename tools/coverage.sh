#!/bin/bash
# coverage.sh [quick|thorough] : statement coverage of /repo's non-test code under the checks (all 20 properties),
# measured on private copies (as isolated.sh). Prints the blocks of the taskctl packages that NO check executes -
# the places where a change could not be seen by any correspondence. A development aid; nothing in MANIFEST.json uses it.
set -e
tier=${1:-quick}
D=$(mktemp -d /tmp/verif-cov.XXXXXX)
trap '[ -n "$KEEP" ] || rm -rf "$D"' EXIT
git clone -q /repo "$D/repo"
(cd /repo && git diff) | (cd "$D/repo" && git apply --allow-empty 2>/dev/null || true)
mkdir -p "$D/verif" "$D/cov"
(cd /verif && tar cf - --exclude=.git --exclude=.build --exclude=replays --exclude=lean/.lake .) | (cd "$D/verif" && tar xf -)
cp -r /verif/lean/.lake "$D/verif/lean/.lake" 2>/dev/null || true
sed -i "s|=> /repo|=> $D/repo|" "$D/verif/harness/go.mod"
cp "$D/repo/go.sum" "$D/verif/harness/go.sum"
cd "$D/verif"
python3 - <<'PY'
s=open('check').read()
a='["go", "build", "-tags", "verif", "-o"'
b='["go", "build", "-o"'
assert a in s and b in s
s=s.replace(a,'["go", "build", "-cover", "-coverpkg=github.com/taskctl/taskctl/...,verifharness", "-tags", "verif", "-o"')
s=s.replace(b,'["go", "build", "-cover", "-coverpkg=github.com/taskctl/taskctl/...", "-o"')
open('check','w').write(s)
PY
export VERIF_REPO="$D/repo" GOCOVERDIR="$D/cov" VERIF_EVIDENCE_DIR="$D/ev"
mkdir -p "$D/ev"
for i in ${COV_PROPS:-$(seq -w 1 20)}; do ./check C$i $tier 2>&1 | grep "^check\|VIOLATION" || true; done
export GOFLAGS=-mod=mod GOPROXY=off GOSUMDB=off GOTOOLCHAIN=local
(cd "$D/repo" && go tool covdata textfmt -i="$D/cov" -o "$D/cov.txt")
python3 /verif/tools/cov_report.py "$D/cov.txt" "$D/repo" > /verif/.build/coverage-$tier.txt
tail -40 /verif/.build/coverage-$tier.txt
