#!/bin/bash
# seed_verify.sh <worktree> <outdir> <dest-dir-relative> <test command...>
# Confirms a seeded change in a scratch worktree: demo passes on the base, the patched tree builds and
# passes the existing suite, and the demo fails on the patched tree.
export GOFLAGS=-mod=mod GOPROXY=off GOSUMDB=off GOTOOLCHAIN=local
WT=$1; OUT=$2; DEST=$3; shift 3
cd "$WT" || exit 2
git checkout -q -- . && git clean -fdq
cp "$OUT"/*_test.go "$DEST"/ 2>/dev/null
if "$@" >/tmp/seed_base.log 2>&1; then echo "BASE_DEMO=pass"; else echo "BASE_DEMO=FAIL"; tail -5 /tmp/seed_base.log; fi
rm -f "$DEST"/seeded*_test.go
git apply "$OUT/patch.diff" || { echo "PATCH does not apply"; exit 1; }
if go build ./... >/tmp/seed_build.log 2>&1; then echo "PATCH_BUILD=ok"; else echo "PATCH_BUILD=FAIL"; fi
if go test -vet=off -count=1 -timeout 120s ./... >/tmp/seed_suite.log 2>&1 || go test -vet=off -count=1 -timeout 120s ./... >/tmp/seed_suite.log 2>&1; then echo "PATCH_SUITE=pass"; else echo "PATCH_SUITE=FAIL"; grep -v '^ok' /tmp/seed_suite.log | tail -5; fi
cp "$OUT"/*_test.go "$DEST"/
if "$@" >/tmp/seed_patched.log 2>&1; then echo "PATCH_DEMO=pass(unexpected)"; else echo "PATCH_DEMO=fail(as intended)"; grep -m3 -i 'fail\|error\|timed' /tmp/seed_patched.log; fi
git checkout -q -- . && git clean -fdq
