#!/bin/bash
# seed_run.sh <patch.diff> <property>... : apply a seeded change to /repo, run the quick checks, undo it
PATCH=$1; shift
cd /verif
export VERIF_EVIDENCE_DIR=/verif/.build/seed-evidence
git -C /repo apply "$PATCH" || { echo "patch does not apply to /repo"; exit 2; }
for p in "$@"; do ./check "$p" ${TIER:-quick} | grep -v '^$'; done
git -C /repo checkout -- . && git -C /repo status --short
