#!/bin/bash
# seed_run.sh <patch.diff> <property>... : apply a seeded change to /repo, run the quick checks, undo it
PATCH=$1; shift
V=$(cd "$(dirname "$0")/.." && pwd); R=${VERIF_REPO:-/repo}
cd "$V"
export VERIF_EVIDENCE_DIR=$V/.build/seed-evidence
git -C "$R" apply "$PATCH" || { echo "patch does not apply to /repo"; exit 2; }
for p in "$@"; do ./check "$p" ${TIER:-quick} | grep -v '^$'; done
git -C "$R" checkout -- . && git -C "$R" status --short
