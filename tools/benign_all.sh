#!/bin/bash
# benign_all.sh [tier] : apply every stored behaviour-preserving change (benign/*/patch.diff) to /repo, run ALL
# checks, undo. Any VIOLATION line is a false alarm of the machinery (or the change is not benign after all).
V=$(cd "$(dirname "$0")/.." && pwd); R=${VERIF_REPO:-/repo}
cd "$V"
export VERIF_EVIDENCE_DIR=$V/.build/seed-evidence
TIER=${1:-quick}
for d in benign/*/; do
  id=$(basename "$d")
  if ! git -C "$R" apply --check "$V/$d/patch.diff" 2>/dev/null; then echo "$id: PATCH-DOES-NOT-APPLY"; continue; fi
  git -C "$R" apply "$V/$d/patch.diff"
  alarms=""
  for p in C01 C02 C03 C04 C05 C06 C07 C08 C09 C10 C11 C12 C13 C14 C15 C16 C17 C18 C19 C20; do
    out=$(./check "$p" "$TIER" 2>&1)
    if echo "$out" | grep -q "^VIOLATION"; then
      alarms="$alarms $(echo "$out" | grep '^VIOLATION' | head -1 | sed 's/VIOLATION property=//')"
      # keep the replay: an isolated run deletes its copy of /verif when it ends
      rp=$(echo "$out" | grep '^VIOLATION' | head -1 | sed 's/.*replay=\([^ ]*\).*/\1/')
      mkdir -p "${ALARM_DIR:-$V/.build/alarms}" && cp "$rp" "${ALARM_DIR:-$V/.build/alarms}/$id-$(basename "$rp")" 2>/dev/null
    fi
  done
  git -C "$R" checkout -- . >/dev/null 2>&1
  git -C "$R" clean -fdq >/dev/null 2>&1
  if [ -z "$alarms" ]; then echo "$id: SILENT"; else echo "$id: ALARM $alarms"; fi
done
(cd "$V/harness" && GOFLAGS=-mod=mod GOPROXY=off GOSUMDB=off GOTOOLCHAIN=local go build -tags verif -o "$V/.build/harness" . ) && (cd "$R" && go build -o "$V/.build/taskctl" ./cmd/taskctl)
