#!/bin/bash
# benign_all.sh [tier] : apply every stored behaviour-preserving change (benign/*/patch.diff) to /repo, run ALL
# checks, undo. Any VIOLATION line is a false alarm of the machinery (or the change is not benign after all).
cd /verif
export VERIF_EVIDENCE_DIR=/verif/.build/seed-evidence
TIER=${1:-quick}
for d in benign/*/; do
  id=$(basename "$d")
  if ! git -C /repo apply --check "/verif/$d/patch.diff" 2>/dev/null; then echo "$id: PATCH-DOES-NOT-APPLY"; continue; fi
  git -C /repo apply "/verif/$d/patch.diff"
  alarms=""
  for p in C01 C02 C03 C04 C05 C06 C07 C08 C09 C10 C11 C12 C13 C14 C15 C16 C17 C18 C19 C20; do
    out=$(./check "$p" "$TIER" 2>&1)
    if echo "$out" | grep -q "^VIOLATION"; then alarms="$alarms $(echo "$out" | grep '^VIOLATION' | head -1 | sed 's/VIOLATION property=//')"; fi
  done
  git -C /repo checkout -- . >/dev/null 2>&1
  git -C /repo clean -fdq >/dev/null 2>&1
  if [ -z "$alarms" ]; then echo "$id: SILENT"; else echo "$id: ALARM $alarms"; fi
done
(cd /verif/harness && GOFLAGS=-mod=mod GOPROXY=off GOSUMDB=off GOTOOLCHAIN=local go build -tags verif -o /verif/.build/harness . ) && (cd /repo && go build -o /verif/.build/taskctl ./cmd/taskctl)
