#!/usr/bin/env python3
"""cov_report.py <cov.txt> <repo>: uncovered blocks of non-test taskctl code, with source text."""
import sys, collections, os
cov, repo = sys.argv[1], sys.argv[2]
blocks = collections.defaultdict(int)   # (file, span) -> max count
stm = {}
for l in open(cov):
    if l.startswith("mode:"):
        continue
    loc, n, c = l.rsplit(" ", 2)
    f, span = loc.split(":")
    blocks[(f, span)] = max(blocks[(f, span)], int(c))
    stm[(f, span)] = int(n)
per = collections.defaultdict(lambda: [0, 0])
unc = collections.defaultdict(list)
for (f, span), c in blocks.items():
    if not f.startswith("github.com/taskctl/taskctl/"):
        continue
    per[f][1] += stm[(f, span)]
    if c > 0:
        per[f][0] += stm[(f, span)]
    else:
        unc[f].append(span)
tot = [0, 0]
for f in sorted(per):
    rel = f[len("github.com/taskctl/taskctl/"):]
    src = open(os.path.join(repo, rel)).read().split("\n")
    for span in sorted(unc[f], key=lambda s: int(s.split(".")[0])):
        a, b = span.split(",")
        l1, l2 = int(a.split(".")[0]), int(b.split(".")[0])
        text = " | ".join(x.strip() for x in src[l1 - 1:min(l2, l1 + 3)])
        print("%s:%d-%d  %s" % (rel, l1, l2, text[:200]))
print()
for f in sorted(per):
    c, n = per[f]
    tot[0] += c; tot[1] += n
    print("%-60s %4d/%4d  %5.1f%%" % (f[len("github.com/taskctl/taskctl/"):], c, n, 100.0 * c / max(n, 1)))
print("TOTAL %d/%d %.1f%%" % (tot[0], tot[1], 100.0 * tot[0] / max(tot[1], 1)))
