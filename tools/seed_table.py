#!/usr/bin/env python3
"""print the markdown catch table of the seeded changes under /verif/seeded (used for DESIGN.md section 0.6)"""
import json, os, glob, re
rows = []
for d in sorted(glob.glob(os.path.join(os.path.dirname(__file__), "..", "seeded", "*"))):
    m = json.load(open(os.path.join(d, "meta.json")))
    notes = re.sub(r"\s+", " ", m.get("notes", "")).strip()
    first = notes.split(". ")[0][:170]
    files = sorted(set(re.findall(r"^\+\+\+ b/(\S+)", open(os.path.join(d, "patch.diff")).read(), re.M))) if os.path.exists(os.path.join(d, "patch.diff")) else []
    rows.append((os.path.basename(d), m.get("breaks", ""), ", ".join(files), first.replace("|", "/"), re.sub(r"\s+", " ", m.get("detected_by", "")).replace("|", "/")))
print("| id | files | change | detected by |")
print("|---|---|---|---|")
for r in rows:
    print(f"| {r[0]} | {r[2]} | {r[3]} | {r[4]} |")
