#!/bin/bash
# rebase_patch.sh <patch.diff> : re-create a stored patch against /repo's HEAD with a three-way apply in a scratch
# worktree (after a fix commit moved its context). Prints CONFLICT and leaves the file alone when git cannot do it.
P=$(readlink -f "$1")
W=$(mktemp -d /tmp/rb.XXXXXX)
git -C /repo worktree add -q --detach "$W" HEAD
cd "$W"
if git apply --3way "$P" >/dev/null 2>&1 && [ -z "$(git diff --name-only --diff-filter=U)" ]; then
  git diff --cached > "$P.new" && mv "$P.new" "$P" && echo "rebased $1"
else
  echo "CONFLICT $1"
fi
cd /; git -C /repo worktree remove --force "$W"
