#!/usr/bin/env python3
"""seed_store.py <PROP> <k> <dest-dir-in-repo> <demo command> -- <needs> -- <detected_by>"""
import json, os, shutil, sys
prop, k, dest = sys.argv[1:4]
rest = " ".join(sys.argv[4:]).split(" -- ")
cmd, needs, detected = rest[0], rest[1], rest[2]
src = "%s/%s_out/%s" % (os.environ.get("SEED_ROOT", "/tmp/seed"), prop, k)
k = os.environ.get("SEED_ID", k)  # id under /verif/seeded when it differs from the source index
dst = "/verif/seeded/%s-%s" % (prop, k)
os.makedirs(dst, exist_ok=True)
for f in os.listdir(src):
    shutil.copy(os.path.join(src, f), os.path.join(dst, f))
meta = {
    "breaks": prop,
    "needs_to_manifest": needs,
    "demonstration": {"copy_test_files_to": dest, "command": cmd,
                      "confirmed": "tools/seed_verify.sh in a scratch worktree: demo passes on base; patched tree builds, passes the existing suite, demo fails"},
    "notes": open(os.path.join(src, "notes.txt")).read() if os.path.exists(os.path.join(src, "notes.txt")) else "",
    "checks_run": "tools/seed_run.sh seeded/%s-%s/patch.diff %s (git -C /repo apply; ./check; git -C /repo checkout -- .)" % (prop, k, prop),
    "detected_by": detected,
}
json.dump(meta, open(os.path.join(dst, "meta.json"), "w"), indent=1)
print("stored", dst)
