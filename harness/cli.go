package main

import (
	"bytes"
	"context"
	"fmt"
	"math/rand"
	"os"
	"os/exec"
	"path/filepath"
	"strings"
	"sync/atomic"
	"syscall"
	"time"
)

type cliResult struct {
	exit     int
	stdout   string
	stderr   string
	timedOut bool
	panicked bool
}

func taskctlBin() string {
	if b := os.Getenv("VERIF_TASKCTL"); b != "" {
		return b
	}
	return "/verif/.build/taskctl"
}

var dirSeq int64

func newScratchDir(prefix string) string {
	d := filepath.Join(scratchDir(), fmt.Sprintf("%s-%d-%d", prefix, os.Getpid(), atomic.AddInt64(&dirSeq, 1)))
	os.MkdirAll(d, 0755)
	return d
}

// covEnv passes the coverage directory of an instrumented build (tools/coverage.sh) on to the children, whose
// environment is otherwise minimal
func covEnv() []string {
	if d := os.Getenv("GOCOVERDIR"); d != "" {
		return []string{"GOCOVERDIR=" + d}
	}
	return nil
}

// runTaskctl runs the real binary; env entries are added to a minimal environment
func runTaskctl(dir string, env []string, timeout time.Duration, args ...string) cliResult {
	ctx, cancel := context.WithTimeout(context.Background(), timeout)
	defer cancel()
	cmd := exec.CommandContext(ctx, taskctlBin(), args...)
	cmd.Dir = dir
	home := filepath.Join(dir, ".verif-home")
	os.MkdirAll(home, 0755)
	base := []string{"PATH=" + os.Getenv("PATH"), "HOME=" + home, "TERM=dumb"}
	base = append(base, covEnv()...)
	// case-specific variables first: their position in the inherited environment is not special
	cmd.Env = append(append([]string{}, env...), base...)
	cmd.SysProcAttr = &syscall.SysProcAttr{Setpgid: true}
	var so, se bytes.Buffer
	cmd.Stdout, cmd.Stderr = &so, &se
	err := cmd.Run()
	res := cliResult{stdout: so.String(), stderr: se.String()}
	if ctx.Err() != nil {
		res.timedOut = true
		if cmd.Process != nil {
			syscall.Kill(-cmd.Process.Pid, syscall.SIGKILL)
		}
	}
	if err != nil {
		if ee, ok := err.(*exec.ExitError); ok {
			res.exit = ee.ExitCode()
		} else {
			res.exit = -1
		}
	}
	res.panicked = strings.Contains(res.stderr, "panic:") || strings.Contains(res.stderr, "fatal error:") || strings.Contains(res.stderr, "goroutine 1 [")
	return res
}

// ---- C07: several targets on the command line ----

const c07Config = `
tasks:
  t1: {command: ["echo t1 >> $TRACE; exit ${ST_t1:-0}"]}
  t2: {command: ["echo t2 >> $TRACE; exit ${ST_t2:-0}"]}
  t3: {command: ["echo t3 >> $TRACE; exit ${ST_t3:-0}"], allow_failure: true}
  t6: {command: ["echo t6 >> $TRACE; /bin/echo -e 'plain \\033[32mgreen\\033[0m \\033[1;4mbold\\033[0m'; /bin/echo -e '\\033[31mred'; exit ${ST_t6:-0}"]}
  t4: {command: ["true"], before: ["echo t4 >> $TRACE; exit ${ST_t4:-0}"], allow_failure: true}
  t5: {command: ["echo t5 >> $TRACE", "if [ ${ST_t5:-0} != 0 ]; then sleep 3; fi"], timeout: 400ms, allow_failure: true}
  p1a: {command: ["echo p1 >> $TRACE"]}
  p1b: {command: ["echo p1 >> $TRACE; exit ${ST_p1:-0}"]}
  p2a: {command: ["echo p2 >> $TRACE; exit ${ST_p2:-0}"]}
  p3fast: {command: ["echo p3 >> $TRACE; exit ${ST_p3:-0}"]}
  p3slow: {command: ["sleep 0.4; echo p3 >> $TRACE"]}
  p3slower: {command: ["sleep 0.7; echo p3 >> $TRACE"]}
  m1: {command: ["echo q1 >> $TRACE"]}
  m2: {command: ["echo q2 >> $TRACE"]}
  m3: {command: ["echo q3 >> $TRACE"]}
  in1: {command: ["exit ${ST_q1:-0}"]}
  in2: {command: ["exit ${ST_q3:-0}"]}
pipelines:
  inner1:
    - task: in1
  inner2:
    - task: in2
  # one pipeline included by two stages: the first tolerates its failure, the second (later) does not
  q1:
    - task: m1
    - name: a
      pipeline: inner1
      allow_failure: true
      depends_on: [m1]
    - name: b
      pipeline: inner1
      depends_on: [a]
  # ... and by two pipelines named one after the other on the command line
  q2:
    - task: m2
    - name: a
      pipeline: inner2
      allow_failure: true
      depends_on: [m2]
  q3:
    - task: m3
    - name: b
      pipeline: inner2
      depends_on: [m3]
  p1:
    - task: p1a
    - task: p1b
      depends_on: [p1a]
  p2:
    - task: p2a
  p3:
    - task: p3fast
    - task: p3slow
    - task: p3slower
      depends_on: [p3slow]
`

func cliTargetsCase(col *Collector, focus string, dir string, targets []string, st map[string]int, form string, extra, gflags, rflags []string) {
	trace := newTracePath()
	defer os.Remove(trace)
	env := []string{"TRACE=" + trace}
	var oks []string
	for _, n := range []string{"t1", "t2", "t3", "t4", "t5", "t6", "p1", "p2", "p3", "q1", "q2", "q3"} {
		env = append(env, fmt.Sprintf("ST_%s=%d", n, st[n]))
		// t3 allows failure; t4 and t5 allow failure too, but fail in ways allow_failure does not cover
		// (a failing before hook, a command that overruns the task's timeout)
		ok := st[n] == 0 || n == "t3"
		oks = append(oks, fmt.Sprintf("%s:%d", n, map[bool]int{true: 1, false: 0}[ok]))
	}
	args := []string{"-c", filepath.Join(dir, "c07.yaml")}
	if gflags == nil {
		gflags = []string{"--output", "raw"}
	}
	args = append(args, gflags...)
	if form == "run" {
		args = append(args, "run")
		args = append(args, rflags...)
	}
	args = append(args, targets...)
	args = append(args, extra...)
	res := runTaskctl(dir, env, 20*time.Second, args...)
	// targets that ran, in order
	var ran []string
	for _, tok := range readTrace(trace) {
		if len(ran) == 0 || ran[len(ran)-1] != tok {
			ran = append(ran, tok)
		}
	}
	cs := Case{Tags: []string{"cli", "form=" + form, fmt.Sprintf("targets=%d", len(targets)), "flags=" + strings.Join(append(append([]string{}, gflags...), rflags...), " ")}}
	cs.Line = fmt.Sprintf("cli ok=%s args=%s", strings.Join(oks, ","), strings.Join(append(append([]string{}, targets...), extra...), " "))
	cs.Replay = fmt.Sprintf("taskctl %s  [statuses %v]", strings.Join(args, " "), st)
	cs.Impl = fmt.Sprintf("ran=%s|exit=%d", strings.Join(ran, ","), res.exit)
	cs.NonTrivial = len(targets) >= 2
	// monitor: exit 0 iff every requested target succeeded; order; nothing after the first failure
	okOf := func(n string) bool {
		if _, known := st[n]; !known {
			return false
		}
		return st[n] == 0 || n == "t3"
	}
	var want []string
	allOK := true
	for _, t := range targets {
		if _, known := st[t]; known {
			want = append(want, t)
		}
		if !okOf(t) {
			allOK = false
			break
		}
	}
	var fail string
	switch {
	case res.timedOut:
		fail = "taskctl did not exit within 20s"
	case res.panicked || (res.exit != 0 && res.exit != 1):
		fail = fmt.Sprintf("abnormal exit %d: %s", res.exit, lastLines(res.stderr, 3))
	case (res.exit == 0) != allOK:
		fail = fmt.Sprintf("exit status %d, all requested targets succeeded = %v", res.exit, allOK)
	case strings.Join(ran, ",") != strings.Join(want, ","):
		fail = fmt.Sprintf("targets that ran %v, expected %v", ran, want)
	}
	if fail != "" && focus == "C07" {
		cs.Fail, cs.Sig = fail, "c07-cli"
	}
	col.Add(cs)
}

// tasks whose names are words the `run` sub-command treats as keywords (`run pipeline NAME`, `run task NAME`): named
// directly after `taskctl` they are targets like any other - they run, in order, their failure stops what follows and
// decides the exit status
func keywordTargetCases(col *Collector, focus string) {
	dir := newScratchDir("c07k")
	defer os.RemoveAll(dir)
	names := []string{"t1", "t2", "pipeline", "task"}
	var b strings.Builder
	b.WriteString("tasks:\n")
	for _, n := range names {
		fmt.Fprintf(&b, "  %s: {command: [\"echo %s >> $TRACE; exit ${ST_%s:-0}\"]}\n", n, n, n)
	}
	os.WriteFile(filepath.Join(dir, "k.yaml"), []byte(b.String()), 0644)
	type job struct {
		targets []string
		st      map[string]int
	}
	var jobs []job
	for _, kw := range []string{"pipeline", "task"} {
		for _, st := range []int{0, 3} {
			jobs = append(jobs, job{[]string{kw}, map[string]int{kw: st}},
				job{[]string{"t1", kw, "t2"}, map[string]int{kw: st}},
				job{[]string{kw, "t1"}, map[string]int{kw: st}},
				job{[]string{"t1", "t2", kw}, map[string]int{kw: st}},
				job{[]string{kw, "t2", kw}, map[string]int{"t2": st}})
		}
	}
	jobs = append(jobs, job{[]string{"pipeline", "task", "t1"}, map[string]int{"task": 5}}, job{[]string{"task", "pipeline"}, map[string]int{}})
	parallel(len(jobs), 8, func(i int) {
		j := jobs[i]
		trace := newTracePath()
		defer os.Remove(trace)
		env := []string{"TRACE=" + trace}
		var oks []string
		for _, n := range names {
			env = append(env, fmt.Sprintf("ST_%s=%d", n, j.st[n]))
			oks = append(oks, fmt.Sprintf("%s:%d", n, map[bool]int{true: 1, false: 0}[j.st[n] == 0]))
		}
		args := append([]string{"-c", filepath.Join(dir, "k.yaml"), "--output", "raw"}, j.targets...)
		res := runTaskctl(dir, env, 20*time.Second, args...)
		ran := readTrace(trace)
		cs := Case{Tags: []string{"cli", "form=root", "keyword-named-targets"}, NonTrivial: len(j.targets) >= 2}
		cs.Line = fmt.Sprintf("cli ok=%s args=%s", strings.Join(oks, ","), strings.Join(j.targets, " "))
		cs.Replay = fmt.Sprintf("taskctl %s  [statuses %v; tasks named %v]", strings.Join(args, " "), j.st, names)
		cs.Impl = fmt.Sprintf("ran=%s|exit=%d", strings.Join(ran, ","), res.exit)
		var want []string
		allOK := true
		for _, t := range j.targets {
			want = append(want, t)
			if j.st[t] != 0 {
				allOK = false
				break
			}
		}
		var fail string
		switch {
		case res.timedOut || res.panicked || (res.exit != 0 && res.exit != 1):
			fail = fmt.Sprintf("abnormal exit %d (timeout %v): %s", res.exit, res.timedOut, lastLines(res.stderr, 3))
		case (res.exit == 0) != allOK:
			fail = fmt.Sprintf("exit status %d, all requested targets succeeded = %v", res.exit, allOK)
		case strings.Join(ran, ",") != strings.Join(want, ","):
			fail = fmt.Sprintf("targets that ran %v, expected %v", ran, want)
		}
		if fail != "" && focus == "C07" {
			cs.Fail, cs.Sig = fail, "c07-cli"
		}
		col.Add(cs)
	})
}

func lastLines(s string, n int) string {
	ls := strings.Split(strings.TrimSpace(s), "\n")
	if len(ls) > n {
		ls = ls[len(ls)-n:]
	}
	return strings.Join(ls, " / ")
}

func runCliTargets(col *Collector, focus, tier string, rng *rand.Rand) {
	dir := newScratchDir("c07")
	defer os.RemoveAll(dir)
	os.WriteFile(filepath.Join(dir, "c07.yaml"), []byte(c07Config), 0644)
	names := []string{"t1", "t2", "t3", "t4", "t5", "t6", "p1", "p2", "p3"}
	type job struct {
		targets []string
		st      map[string]int
		form    string
		extra   []string
		gflags  []string
		rflags  []string
	}
	// presentation-only options: none of them may change which targets run or the exit status
	gpool := [][]string{nil, nil, {"--raw"}, {"-o", "prefixed"}, {"--output", "cockpit"}, {"--raw", "--summary=false"}, {"--output", "raw", "-q"},
		{"--output", "raw", "-d"}, {"--output", "prefixed", "--summary=false"}, {"-r", "-s=false"}, {"--cockpit", "--summary=false"}}
	rpool := [][]string{nil, nil, {"--summary=false"}, {"--summary"}, {"-s=false"}}
	var jobs []job
	// every ordered selection of 1..3 distinct targets out of 5, with a seeded status assignment
	var rec func(cur []string)
	rec = func(cur []string) {
		if len(cur) >= 1 {
			reps := 1
			if tier == "thorough" {
				reps = 4
			}
			for k := 0; k < reps; k++ {
				st := map[string]int{}
				for _, n := range names {
					st[n] = 0
					if rng.Intn(3) == 0 {
						st[n] = 1 + rng.Intn(255)
					}
				}
				form := []string{"root", "run"}[rng.Intn(2)]
				var extra []string
				if rng.Intn(4) == 0 { // words after `--` are never targets, even if they name one
					extra = []string{"--", names[rng.Intn(len(names))]}
				}
				jobs = append(jobs, job{append([]string(nil), cur...), st, form, extra, gpool[rng.Intn(len(gpool))], rpool[rng.Intn(len(rpool))]})
			}
		}
		if len(cur) == 3 {
			return
		}
		for _, n := range names {
			used := false
			for _, c := range cur {
				if c == n {
					used = true
				}
			}
			if !used {
				rec(append(cur, n))
			}
		}
	}
	rec(nil)
	// an unknown target in the middle
	jobs = append(jobs, job{[]string{"t1", "nosuch", "t2"}, map[string]int{"t1": 0, "t2": 0, "t3": 0, "p1": 0, "p2": 0}, "root", nil, nil, nil})
	// a failing pipeline / task followed by another target, under every presentation option
	var fixed []job
	for _, first := range []string{"p1", "t1", "p2"} {
		for _, g := range gpool[2:] {
			fixed = append(fixed, job{[]string{first, "t2"}, map[string]int{"t1": 3, "t2": 0, "t3": 0, "p1": 4, "p2": 5}, "root", nil, g, nil})
		}
		for _, r := range rpool[2:] {
			fixed = append(fixed, job{[]string{first, "t2"}, map[string]int{"t1": 3, "t2": 0, "t3": 0, "p1": 4, "p2": 5}, "run", nil, nil, r})
		}
	}
	if tier != "thorough" {
		rng.Shuffle(len(jobs), func(a, b int) { jobs[a], jobs[b] = jobs[b], jobs[a] })
		if len(jobs) > 60 {
			jobs = jobs[:60]
		}
	}
	// a pipeline whose failing stage finishes first while independent stages finish (successfully) later
	for _, form := range []string{"root", "run"} {
		fixed = append(fixed, job{[]string{"p3", "t2"}, map[string]int{"t1": 0, "t2": 0, "t3": 0, "t4": 0, "t5": 0, "t6": 0, "p1": 0, "p2": 0, "p3": 6}, form, nil, nil, nil})
		fixed = append(fixed, job{[]string{"p3", "t2"}, map[string]int{"t1": 0, "t2": 0, "t3": 0, "t4": 0, "t5": 0, "t6": 0, "p1": 0, "p2": 0, "p3": 0}, form, nil, nil, nil})
	}
	// the same target named more than once: it runs once per mention, in order
	// (not adjacent: the trace reader folds adjacent equal marks, which a two-stage pipeline produces; and not
	// pipelines: a pipeline named twice finds its stages already done the second time)
	for _, ts := range [][]string{{"t1", "t2", "t1"}, {"t3", "t1", "t3"}, {"t2", "t1", "t2", "t1"}} {
		fixed = append(fixed, job{ts, map[string]int{"t1": 0, "t2": 0, "t3": 7, "t4": 0, "t5": 0, "t6": 0, "p1": 0, "p2": 0}, "root", nil, nil, nil})
		fixed = append(fixed, job{ts, map[string]int{"t1": 5, "t2": 0, "t3": 7, "t4": 0, "t5": 0, "t6": 0, "p1": 0, "p2": 0}, "run", nil, nil, nil})
	}
	// allow_failure covers non-zero exit statuses only: a failing before hook / an overrun still fails the target
	for _, first := range []string{"t4", "t5"} {
		for _, form := range []string{"root", "run"} {
			fixed = append(fixed, job{[]string{first, "t2"}, map[string]int{"t1": 0, "t2": 0, "t3": 0, "t4": 2, "t5": 1, "p1": 0, "p2": 0}, form, nil, nil, nil})
			fixed = append(fixed, job{[]string{"t3", first, "t1"}, map[string]int{"t1": 0, "t2": 0, "t3": 9, "t4": 2, "t5": 1, "p1": 0, "p2": 0}, form, nil, nil, nil})
		}
	}
	// a task whose (external) commands print colour codes, under every presentation option: still its own status
	for _, g := range gpool[2:] {
		fixed = append(fixed, job{[]string{"t6", "t2"}, map[string]int{"t1": 0, "t2": 0, "t3": 0, "t4": 0, "t5": 0, "t6": 0, "p1": 0, "p2": 0}, "root", nil, g, nil})
		fixed = append(fixed, job{[]string{"t6", "t2"}, map[string]int{"t1": 0, "t2": 0, "t3": 0, "t4": 0, "t5": 0, "t6": 9, "p1": 0, "p2": 0}, "run", nil, g, nil})
	}
	// a failing pipeline included twice: tolerated by the first including stage / pipeline, not by the second
	for _, form := range []string{"root", "run"} {
		for _, q := range []int{0, 3} {
			base := map[string]int{"t1": 0, "t2": 0, "t3": 0, "t4": 0, "t5": 0, "t6": 0, "p1": 0, "p2": 0, "p3": 0, "q1": q, "q2": 0, "q3": q}
			fixed = append(fixed, job{[]string{"q1", "t2"}, base, form, nil, nil, nil})
			fixed = append(fixed, job{[]string{"q2", "q3", "t2"}, base, form, nil, nil, nil})
			fixed = append(fixed, job{[]string{"q3", "q2"}, base, form, nil, nil, nil})
		}
	}
	jobs = append(jobs, fixed...)
	parallel(len(jobs), 16, func(i int) {
		cliTargetsCase(col, focus, dir, jobs[i].targets, jobs[i].st, jobs[i].form, jobs[i].extra, jobs[i].gflags, jobs[i].rflags)
	})
	keywordTargetCases(col, focus)
}
