package main

import (
	"bytes"
	"fmt"
	"math/rand"
	"os"
	"path/filepath"
	"strings"
	"time"
	"unicode"

	"github.com/taskctl/taskctl/pkg/runner"
	"github.com/taskctl/taskctl/pkg/scheduler"
	"github.com/taskctl/taskctl/pkg/task"
	"github.com/taskctl/taskctl/pkg/variables"
)

func init() { props["C11"] = runC11 }

// reference reading of the statement: task name upper-cased, every character outside A-Z a-z 0-9 _ replaced by _
func refEnvName(name string) string {
	var b strings.Builder
	for _, r := range strings.ToUpper(name) {
		if (r >= 'a' && r <= 'z') || (r >= 'A' && r <= 'Z') || (r >= '0' && r <= '9') || r == '_' {
			b.WriteRune(r)
		} else {
			b.WriteByte('_')
		}
	}
	return b.String() + "_OUTPUT"
}

type capSpec struct {
	name            string
	exportAs        string
	chunks          [][]byte // one per (variation, command) job of the producer, variation-major
	nCmds           int
	nVars           int  // 0: no variations key
	stderr          bool // every command also writes noise to stderr
	allowFailMid    bool // the producer allows failure and its first command exits 3 after printing
	pos             int  // extra stages before the producer (DAG position)
	consumers       int
	format          string // output format of the runner ("" = raw): the capture does not depend on it
	viaCat          bool   // the producer's commands emit their chunk with an external `cat` of a file instead of a builtin printf
	builtinConsumer bool   // the consumers use shell builtins only (a variable of 128 KiB or more cannot be passed to exec)
}

func shellQuote(b []byte) string {
	// single-quote for the shell; text is template-rendered first, so escape the template delimiters too
	s := strings.ReplaceAll(string(b), "'", `'\''`)
	s = strings.ReplaceAll(s, "{{", "{{`{{`}}")
	return "'" + s + "'"
}

func (s capSpec) expectedOutput() []byte {
	var out []byte
	for _, c := range s.chunks {
		out = append(out, c...)
	}
	return out
}

func capCase(col *Collector, s capSpec, tag string) {
	dir := newScratchDir("c11")
	defer os.RemoveAll(dir)
	p := task.NewTask()
	p.Name = s.name
	p.ExportAs = s.exportAs
	nv := s.nVars
	if nv == 0 {
		nv = 1
	} else {
		for v := 0; v < s.nVars; v++ {
			p.Variations = append(p.Variations, map[string]string{"V": fmt.Sprint(v)})
		}
	}
	// command j prints chunk (v, j): selected by the variation index
	for j := 0; j < s.nCmds; j++ {
		var sb strings.Builder
		sb.WriteString("case \"${V:-0}\" in ")
		for v := 0; v < nv; v++ {
			if s.viaCat {
				f := filepath.Join(dir, fmt.Sprintf("chunk-%d-%d", v, j))
				os.WriteFile(f, s.chunks[v*s.nCmds+j], 0644)
				fmt.Fprintf(&sb, "%d) cat %s;; ", v, f)
				continue
			}
			fmt.Fprintf(&sb, "%d) printf '%%s' %s;; ", v, shellQuote(s.chunks[v*s.nCmds+j]))
		}
		sb.WriteString("esac")
		if s.stderr {
			sb.WriteString("; echo noise-on-stderr >&2")
		}
		if s.allowFailMid && j == 0 {
			sb.WriteString("; exit 3")
		}
		p.Commands = append(p.Commands, sb.String())
	}
	p.AllowFailure = s.allowFailMid
	envName := s.exportAs
	if envName == "" {
		envName = refEnvName(s.name)
	}
	var stages []*scheduler.Stage
	prev := ""
	for i := 0; i < s.pos; i++ {
		t := task.FromCommands("true")
		t.Name = fmt.Sprintf("pre%d", i)
		st := &scheduler.Stage{Name: t.Name, Task: t}
		if prev != "" {
			st.DependsOn = []string{prev}
		}
		prev = t.Name
		stages = append(stages, st)
	}
	ps := &scheduler.Stage{Name: "producer", Task: p}
	if prev != "" {
		ps.DependsOn = []string{prev}
	}
	stages = append(stages, ps)
	outFiles := make([]string, s.consumers)
	for i := 0; i < s.consumers; i++ {
		outFiles[i] = filepath.Join(dir, fmt.Sprintf("seen%d", i))
		// printenv is byte-exact for every name (also names the shell cannot expand, e.g. starting with a digit)
		c := task.FromCommands(fmt.Sprintf("printenv %s > %s; echo rc=$? >> %s.rc", shellQuote([]byte(envName)), outFiles[i], outFiles[i]))
		if s.builtinConsumer {
			c = task.FromCommands(fmt.Sprintf("printf '%%s\\n' \"$%s\" > %s; echo rc=$? >> %s.rc", envName, outFiles[i], outFiles[i]))
		}
		c.Name = fmt.Sprintf("consumer%d", i)
		stages = append(stages, &scheduler.Stage{Name: c.Name, Task: c, DependsOn: []string{"producer"}})
	}
	cs := Case{Tags: []string{tag}, NonTrivial: true}
	cs.Replay = fmt.Sprintf("capture name=%q exportAs=%q cmds=%d vars=%d bytes=%d pos=%d consumers=%d stderr=%v allowfail=%v format=%q viaCat=%v", s.name, s.exportAs, s.nCmds, s.nVars, len(s.expectedOutput()), s.pos, s.consumers, s.stderr, s.allowFailMid, s.format, s.viaCat)
	g, err := scheduler.NewExecutionGraph(stages...)
	if err != nil {
		cs.Fail, cs.Sig = err.Error(), "c11-build"
		col.Add(cs)
		return
	}
	r, _ := runner.NewTaskRunner()
	r.Stdout, r.Stderr = devNull{}, devNull{}
	if s.format != "" {
		r.OutputFormat = s.format
	}
	sd := scheduler.NewScheduler(r)
	sd.VerifSetPause(time.Millisecond)
	done := make(chan error, 1)
	go func() {
		defer func() {
			if pn := recover(); pn != nil {
				done <- fmt.Errorf("PANIC: %v", pn)
			}
		}()
		done <- sd.Schedule(g)
	}()
	var serr error
	select {
	case serr = <-done:
	case <-time.After(30 * time.Second):
		serr = fmt.Errorf("pipeline did not finish")
	}
	want := s.expectedOutput()
	got := []byte(ps.Task.Output())
	// the oracle checks the naming function on ASCII names
	if isPrintableASCII(s.name) && s.exportAs == "" {
		cs.Line = "envname " + hexOf(s.name)
		cs.Impl = refEnvNameObserved(r, s.name, envName, outFiles)
	}
	switch {
	case serr != nil:
		cs.Fail, cs.Sig = "pipeline failed: "+serr.Error(), "c11-run"
	case !bytes.Equal(got, want):
		cs.Fail, cs.Sig = fmt.Sprintf("captured output (%d bytes) differs from what the commands wrote to stdout (%d bytes): %q vs %q", len(got), len(want), clip(got), clip(want)), "c11-capture"
	default:
		for i, f := range outFiles {
			seen, rerr := os.ReadFile(f)
			// printenv appends one newline
			if rerr != nil || !bytes.Equal(seen, append(append([]byte{}, want...), '\n')) {
				cs.Fail, cs.Sig = fmt.Sprintf("consumer %d read $%s = %q, the producer's output is %q", i, envName, clip(seen), clip(want)), "c11-handover"
				break
			}
		}
	}
	col.Add(cs)
}

func refEnvNameObserved(r *runner.TaskRunner, name, envName string, outFiles []string) string {
	// the observed variable name is the one under which a consumer found the output
	for _, f := range outFiles {
		if rc, err := os.ReadFile(f + ".rc"); err == nil && strings.Contains(string(rc), "rc=0") {
			return envName
		}
	}
	return "<not-found>"
}

func clip(b []byte) string {
	if len(b) > 60 {
		return string(b[:60]) + "..."
	}
	return string(b)
}

func hexOf(s string) string { return fmt.Sprintf("%x", s) }

func isPrintableASCII(s string) bool {
	for _, r := range s {
		if r < 0x20 || r > 0x7e {
			return false
		}
	}
	return s != ""
}

// .Output of the previous command inside one task
func outputChainCase(col *Collector, words []string, failAt int) {
	t := task.NewTask()
	t.Name = "chain"
	t.AllowFailure = failAt >= 0
	for i, w := range words {
		tail := ""
		if i == failAt {
			tail = "; exit 4"
		}
		if i == 0 {
			t.Commands = append(t.Commands, fmt.Sprintf("echo %s%s", w, tail))
		} else {
			t.Commands = append(t.Commands, fmt.Sprintf("echo 'prev=[{{.Output}}]'; echo %s%s", w, tail))
		}
	}
	r, _ := runner.NewTaskRunner()
	r.Stdout, r.Stderr = devNull{}, devNull{}
	err := r.Run(t)
	var want strings.Builder
	prev := ""
	for i, w := range words {
		cur := ""
		if i > 0 {
			cur = fmt.Sprintf("prev=[%s]\n", prev)
		}
		cur += w + "\n"
		want.WriteString(cur)
		prev = cur
	}
	cs := Case{Tags: []string{"output-chain"}, NonTrivial: true, Replay: fmt.Sprintf("output-chain %v allowed-failure-at=%d", words, failAt)}
	if err != nil {
		cs.Fail, cs.Sig = "run failed: "+err.Error(), "c11-run"
	} else if t.Output() != want.String() {
		cs.Fail, cs.Sig = fmt.Sprintf("got %q, expected %q", clip([]byte(t.Output())), clip([]byte(want.String()))), "c11-output-chain"
	}
	col.Add(cs)
}

func runC11(col *Collector, tier string, seed int64) {
	rng := rand.New(rand.NewSource(seed))
	col.res.Rule = "real TaskRunner+Scheduler: producer names = every printable ASCII character as a one-character name + random names (ASCII, unicode), outputs multi-line / empty / unicode / trailing newlines / up to 64 KiB, " +
		"1-3 commands x 0-3 variations, with/without exportAs, stderr noise, allowed failures, producer at DAG depth 0-3 with 1-3 consumers reading the variable with printenv (byte-exact); .Output chains inside a task. non-trivial = all; distinct = distinct specifications"
	var specs []capSpec
	var tags []string
	texts := [][]byte{[]byte("hello\n"), []byte(""), []byte("two\nlines\n"), []byte("no newline"), []byte("trailing\n\n\n"), []byte("üñí©ødé ✓\n"), []byte("quote ' and \" and $HOME and `x`\n"), []byte("tab\there\r\n")}
	mkChunks := func(n int) [][]byte {
		c := make([][]byte, n)
		for i := range c {
			c[i] = texts[rng.Intn(len(texts))]
		}
		return c
	}
	for ch := 0x20; ch <= 0x7e; ch++ {
		specs = append(specs, capSpec{name: string(rune(ch)), nCmds: 1, chunks: mkChunks(1), consumers: 1})
		tags = append(tags, "ascii-name")
	}
	n := 60
	if tier == "thorough" {
		n = 1200
	}
	alphabet := []rune("abcXYZ019_-./: @é日")
	for i := 0; i < n; i++ {
		var nm []rune
		for k := 1 + rng.Intn(8); k > 0; k-- {
			nm = append(nm, alphabet[rng.Intn(len(alphabet))])
		}
		nc, nv := 1+rng.Intn(3), rng.Intn(4)
		jobs := nc
		if nv > 0 {
			jobs = nc * nv
		}
		s := capSpec{name: string(nm), nCmds: nc, nVars: nv, chunks: mkChunks(jobs), stderr: rng.Intn(3) == 0, pos: rng.Intn(4), consumers: 1 + rng.Intn(3), allowFailMid: rng.Intn(6) == 0}
		if rng.Intn(4) == 0 {
			s.exportAs = []string{"MY_OUT", "result", "X1"}[rng.Intn(3)]
		}
		specs = append(specs, s)
		tags = append(tags, "random")
	}
	// large outputs
	for _, size := range []int{4096, 65536 - 200} {
		b := make([]byte, size)
		for i := range b {
			b[i] = "abcdefghijklmnopqrstuvwxyz0123456789 \n"[rng.Intn(38)]
		}
		specs = append(specs, capSpec{name: "big", nCmds: 1, chunks: [][]byte{b}, consumers: 1})
		tags = append(tags, "large")
	}
	// the capture is the same under every output format, also when the output carries colour codes, long lines and
	// no final newline (what the formats treat specially), produced by shell builtins and by external commands
	ansiPayloads := [][]byte{
		[]byte("plain first line\n\x1b[32mgreen\x1b[0m second\nthird\n"),
		[]byte("\x1b[1;31mred\x1b[0m"),
		append(append([]byte("long \x1b[33m"), bytes.Repeat([]byte("y"), 6000)...), []byte("\x1b[0m tail\nnext\n")...),
		[]byte("no colours\r\nbut CRLF\r\nand a tail"),
	}
	for _, f := range []string{"prefixed", "cockpit", "raw"} {
		for pi, pl := range ansiPayloads {
			for _, cat := range []bool{false, true} {
				specs = append(specs, capSpec{name: fmt.Sprintf("fmt%d", pi), nCmds: 1, chunks: [][]byte{pl}, consumers: 1, format: f, viaCat: cat})
				tags = append(tags, "format="+f)
			}
		}
	}
	// one very long line (at and beyond 64 KiB, the default token limit of a line scanner) written by a builtin in one
	// piece, under every format
	for _, f := range []string{"prefixed", "cockpit", "raw"} {
		for _, size := range []int{65535, 65536, 70000, 200000} {
			line := append(bytes.Repeat([]byte("w"), size), '\n')
			specs = append(specs, capSpec{name: fmt.Sprintf("wide%d", size), nCmds: 1, chunks: [][]byte{line}, consumers: 1, format: f, builtinConsumer: true})
			tags = append(tags, "one-long-line+format="+f)
		}
	}
	// beyond the kernel's limit for one exec argument (128 KiB): handed over unabridged to commands made of builtins
	for _, size := range []int{131072 - 11, 131072, 300000} {
		b := make([]byte, size)
		for i := range b {
			b[i] = "abcdefghijklmnopqrstuvwxyz0123456789 \n"[rng.Intn(38)]
		}
		b[size-1] = 'z'
		specs = append(specs, capSpec{name: "huge", nCmds: 1, chunks: [][]byte{b}, consumers: 2, builtinConsumer: true})
		tags = append(tags, "larger-than-an-exec-argument")
	}
	parallel(len(specs), 16, func(i int) { capCase(col, specs[i], tags[i]) })
	for k := 0; k < 6; k++ {
		w := []string{"one", "two", "three", "four"}[:2+rng.Intn(3)]
		outputChainCase(col, w, -1)
		outputChainCase(col, w, rng.Intn(len(w)-1))
	}
	for k := 0; k < 4; k++ {
		sharedProducerCase(col, 2+k%2)
	}
	for v := 0; v < 3; v++ {
		nestedHandoverCase(col, v)
	}
	for k := 0; k < 3; k++ {
		sharedProducerParallelCase(col, 3+k)
		parallelProducersStressCase(col, 4+4*k, 25)
	}
	_ = unicode.IsUpper
}

// one task used by several stages of a pipeline one after another: after each execution its captured output is
// that execution's output only, and a consumer that follows sees the last one
func sharedProducerCase(col *Collector, uses int) {
	dir := newScratchDir("c11s")
	defer os.RemoveAll(dir)
	p := task.NewTask()
	p.Name = "greet"
	p.Commands = []string{"echo hello $WHO"}
	var stages []*scheduler.Stage
	prev := ""
	for i := 0; i < uses; i++ {
		st := &scheduler.Stage{Name: fmt.Sprintf("use%d", i), Task: p, Env: variables.FromMap(map[string]string{"WHO": fmt.Sprintf("user%d", i)})}
		if prev != "" {
			st.DependsOn = []string{prev}
		}
		prev = st.Name
		stages = append(stages, st)
	}
	out := filepath.Join(dir, "seen")
	c := task.FromCommands(fmt.Sprintf("printenv GREET_OUTPUT > %s", out))
	c.Name = "consumer"
	stages = append(stages, &scheduler.Stage{Name: "consumer", Task: c, DependsOn: []string{prev}})
	cs := Case{Tags: []string{"shared-producer"}, NonTrivial: true, Replay: fmt.Sprintf("shared producer used by %d stages in sequence, then a consumer", uses)}
	g, err := scheduler.NewExecutionGraph(stages...)
	if err != nil {
		cs.Fail, cs.Sig = err.Error(), "c11-build"
		col.Add(cs)
		return
	}
	r, _ := runner.NewTaskRunner()
	r.Stdout, r.Stderr = devNull{}, devNull{}
	sd := scheduler.NewScheduler(r)
	sd.VerifSetPause(time.Millisecond)
	if err := sd.Schedule(g); err != nil {
		cs.Fail, cs.Sig = "pipeline failed: "+err.Error(), "c11-run"
		col.Add(cs)
		return
	}
	want := fmt.Sprintf("hello user%d\n", uses-1)
	seen, _ := os.ReadFile(out)
	switch {
	case p.Output() != want:
		cs.Fail, cs.Sig = fmt.Sprintf("captured output after the last execution is %q, that execution wrote %q", p.Output(), want), "c11-capture"
	case string(seen) != want+"\n":
		cs.Fail, cs.Sig = fmt.Sprintf("consumer read %q, the producer's last output is %q", string(seen), want), "c11-handover"
	}
	col.Add(cs)
}

// the same producer task used by a first stage, then by two stages running side by side (their writes interleave in
// time), then a consumer: what is captured and handed over is the complete output of ONE execution, never a mixture
// k producers with no dependency between them finish at (nearly) the same moment, round after round: a stage that
// depends on all of them sees the output of every one (publishing one producer's output must not lose another's)
func parallelProducersStressCase(col *Collector, k, rounds int) {
	dir := newScratchDir("c11s")
	defer os.RemoveAll(dir)
	cs := Case{Tags: []string{"parallel-producers"}, NonTrivial: true,
		Replay: fmt.Sprintf("%d producers (builtin echo, no dependency between them) and a consumer depending on all of them, %d rounds on fresh runners", k, rounds)}
	lost := ""
	for round := 0; round < rounds && lost == "" && cs.Fail == ""; round++ {
		var stages []*scheduler.Stage
		var deps []string
		var show strings.Builder
		for i := 0; i < k; i++ {
			t := task.FromCommands(fmt.Sprintf("echo out-%d-%d", i, round))
			t.Name = fmt.Sprintf("prod%d", i)
			stages = append(stages, &scheduler.Stage{Name: t.Name, Task: t})
			deps = append(deps, t.Name)
			fmt.Fprintf(&show, "echo \"%d=[$PROD%d_OUTPUT]\" >> %s; ", i, i, filepath.Join(dir, "seen"))
		}
		c := task.FromCommands(strings.TrimSuffix(show.String(), "; "))
		c.Name = "consumer"
		stages = append(stages, &scheduler.Stage{Name: "consumer", Task: c, DependsOn: deps})
		g, err := scheduler.NewExecutionGraph(stages...)
		if err != nil {
			cs.Fail, cs.Sig = err.Error(), "c11-build"
			break
		}
		r, _ := runner.NewTaskRunner()
		r.Stdout, r.Stderr = devNull{}, devNull{}
		sd := scheduler.NewScheduler(r)
		sd.VerifSetPause(0)
		os.Remove(filepath.Join(dir, "seen"))
		if err := sd.Schedule(g); err != nil {
			cs.Fail, cs.Sig = "pipeline failed: "+err.Error(), "c11-run"
			break
		}
		seen, _ := os.ReadFile(filepath.Join(dir, "seen"))
		for i := 0; i < k; i++ {
			if !strings.Contains(string(seen), fmt.Sprintf("%d=[out-%d-%d\n]", i, i, round)) { // the captured output ends with echo's newline
				lost = fmt.Sprintf("round %d: the consumer saw %q: the output of producer %d (out-%d-%d) is missing", round, strings.ReplaceAll(strings.TrimSpace(string(seen)), "\n", " "), i, i, round)
				break
			}
		}
	}
	cs.Impl = "lost=" + lost
	if lost != "" {
		cs.Fail, cs.Sig = lost, "c11-handover"
	}
	col.Add(cs)
}

func sharedProducerParallelCase(col *Collector, lines int) {
	dir := newScratchDir("c11p")
	defer os.RemoveAll(dir)
	p := task.NewTask()
	p.Name = "emit"
	var sb strings.Builder
	for i := 1; i <= lines; i++ {
		fmt.Fprintf(&sb, "echo ${WHO}%d; sleep ${PAUSE:-0}; ", i)
	}
	p.Commands = []string{strings.TrimSuffix(sb.String(), "; ")}
	st := func(name, who, pause string, deps ...string) *scheduler.Stage {
		return &scheduler.Stage{Name: name, Task: p, DependsOn: deps, Env: variables.FromMap(map[string]string{"WHO": who, "PAUSE": pause})}
	}
	out := filepath.Join(dir, "seen")
	c := task.FromCommands(fmt.Sprintf("printenv EMIT_OUTPUT > %s", out))
	c.Name = "consumer"
	stages := []*scheduler.Stage{st("first", "f", "0"), st("left", "a", "0.03", "first"), st("right", "b-much-longer-lines-", "0.05", "first"),
		{Name: "consumer", Task: c, DependsOn: []string{"left", "right"}}}
	cs := Case{Tags: []string{"shared-producer", "shared-producer-parallel"}, NonTrivial: true,
		Replay: fmt.Sprintf("shared producer: one execution, then two side by side writing %d lines each with pauses, then a consumer", lines)}
	g, err := scheduler.NewExecutionGraph(stages...)
	if err != nil {
		cs.Fail, cs.Sig = err.Error(), "c11-build"
		col.Add(cs)
		return
	}
	r, _ := runner.NewTaskRunner()
	r.Stdout, r.Stderr = devNull{}, devNull{}
	sd := scheduler.NewScheduler(r)
	sd.VerifSetPause(time.Millisecond)
	if err := sd.Schedule(g); err != nil {
		cs.Fail, cs.Sig = "pipeline failed: "+err.Error(), "c11-run"
		col.Add(cs)
		return
	}
	whole := func(who string) string {
		var b strings.Builder
		for i := 1; i <= lines; i++ {
			fmt.Fprintf(&b, "%s%d\n", who, i)
		}
		return b.String()
	}
	seen, _ := os.ReadFile(out)
	got := strings.TrimSuffix(string(seen), "\n") // printenv adds one newline
	cs.Impl = clip([]byte(got))
	if got != whole("a") && got != whole("b-much-longer-lines-") {
		cs.Fail, cs.Sig = fmt.Sprintf("consumer read %q: neither the complete output of the one execution (%q) nor of the other (%q)", got, whole("a"), whole("b-much-longer-lines-")), "c11-handover"
	}
	col.Add(cs)
}

// a producer, then a stage that INCLUDES a pipeline (with a producer / consumer pair of its own), then a consumer of
// the first producer that starts after the included pipeline has started (variant 0: it depends on the including
// stage too; 1: on a slow sibling; 2: the included pipeline is included a second time further down the chain). Running
// an included pipeline is part of the same run: what the outer producer wrote is still handed to its dependants.
func nestedHandoverCase(col *Collector, variant int) {
	dir := newScratchDir("c11n")
	defer os.RemoveAll(dir)
	mk := func(name string, cmds ...string) *task.Task {
		t := task.FromCommands(cmds...)
		t.Name = name
		return t
	}
	seen := func(n string) string { return filepath.Join(dir, n) }
	inner, err := scheduler.NewExecutionGraph(
		&scheduler.Stage{Name: "in1", Task: mk("in-one", "echo from the inside")},
		&scheduler.Stage{Name: "in2", Task: mk("in-two", fmt.Sprintf("printenv IN_ONE_OUTPUT >> %s", seen("inner"))), DependsOn: []string{"in1"}},
	)
	cs := Case{Tags: []string{"nested-handover"}, NonTrivial: true, Replay: fmt.Sprintf("producer -> [stage including a pipeline (in1 -> in2)] ; consumer of the producer starting after the included pipeline started, variant %d", variant)}
	if err != nil {
		cs.Fail, cs.Sig = err.Error(), "c11-build"
		col.Add(cs)
		return
	}
	stages := []*scheduler.Stage{
		{Name: "produce", Task: mk("outer one", "echo made outside", "echo second line")},
		{Name: "inc", Pipeline: inner, DependsOn: []string{"produce"}},
	}
	consumer := &scheduler.Stage{Name: "consume", Task: mk("consumer", fmt.Sprintf("printenv OUTER_ONE_OUTPUT > %s", seen("outer")))}
	switch variant {
	case 0:
		consumer.DependsOn = []string{"produce", "inc"}
	case 1:
		stages = append(stages, &scheduler.Stage{Name: "gate", Task: mk("gate", "sleep 0.3"), DependsOn: []string{"produce"}})
		consumer.DependsOn = []string{"gate", "produce"}
	case 2:
		stages = append(stages, &scheduler.Stage{Name: "mid", Task: mk("mid", "true"), DependsOn: []string{"inc"}},
			&scheduler.Stage{Name: "inc2", Pipeline: inner, DependsOn: []string{"mid"}})
		consumer.DependsOn = []string{"inc2", "produce"}
	}
	stages = append(stages, consumer)
	g, err := scheduler.NewExecutionGraph(stages...)
	if err != nil {
		cs.Fail, cs.Sig = err.Error(), "c11-build"
		col.Add(cs)
		return
	}
	r, _ := runner.NewTaskRunner()
	r.Stdout, r.Stderr = devNull{}, devNull{}
	sd := scheduler.NewScheduler(r)
	sd.VerifSetPause(time.Millisecond)
	done := make(chan error, 1)
	go func() { done <- sd.Schedule(g) }()
	select {
	case err := <-done:
		if err != nil {
			cs.Fail, cs.Sig = "pipeline failed: "+err.Error(), "c11-run"
			col.Add(cs)
			return
		}
	case <-time.After(20 * time.Second):
		cs.Fail, cs.Sig = "pipeline did not finish within 20s", "c11-run"
		col.Add(cs)
		return
	}
	outer, _ := os.ReadFile(seen("outer"))
	in, _ := os.ReadFile(seen("inner"))
	cs.Impl = fmt.Sprintf("outer=%q inner=%q", outer, in)
	switch {
	case string(outer) != "made outside\nsecond line\n\n":
		cs.Fail, cs.Sig = fmt.Sprintf("the consumer read %q, the producer it depends on wrote %q", outer, "made outside\nsecond line\n"), "c11-handover"
	case !strings.HasPrefix(string(in), "from the inside\n\n"):
		cs.Fail, cs.Sig = fmt.Sprintf("the consumer inside the included pipeline read %q, its producer wrote %q", in, "from the inside\n"), "c11-handover"
	}
	col.Add(cs)
}
