package main

import (
	"encoding/json"
	"fmt"
	"math/rand"
	"os"
	"os/exec"
	"path/filepath"
	"strconv"
	"strings"
	"sync"
	"time"

	"github.com/taskctl/taskctl/pkg/runner"
	"github.com/taskctl/taskctl/pkg/scheduler"
	"github.com/taskctl/taskctl/pkg/task"
	"github.com/taskctl/taskctl/pkg/variables"
)

func init() {
	props["C12"] = runC12
	childFns["cancel"] = cancelChild
}

// one cancellation scenario, executed in a child process (a hang or a crash is an observation)
type cancelScenario struct {
	Mode     string `json:"mode"`     // "runner" | "sched" | "sched-conderr"
	Inflight int    `json:"inflight"` // tasks in flight when Cancel is called
	Waiting  int    `json:"waiting"`  // stages still waiting (sched modes)
	Point    string `json:"point"`    // "before-run" | "in-before-hook" | "in-command" | "second-command" | "after-all" | "twice"
	Allow    bool   `json:"allow"`    // tasks allow failure
	Timeout  bool   `json:"timeout"`  // tasks carry a (long) timeout of their own
	Pre      string `json:"pre"`      // history before the scenario: "" | "bad-context" | "up-fails" | "refused-run"
	Seq      int    `json:"seq"`      // sched modes: number of pipelines run one after another on the same runner
	Log      string `json:"log"`
	Cond     string `json:"cond"`
	// Nested (sched modes): the stages make up a pipeline that a stage of the pipeline being run INCLUDES
	Nested bool `json:"nested"`
}

type cancelObs struct {
	CancelReturnedMs int `json:"cancel_returned_ms"` // -1: did not return within the bound
	SecondCancelMs   int `json:"second_cancel_ms"`
	// point "overlap": a second Cancel is issued while the first is still waiting for a command that ignores the
	// interrupt; how many of the commands were still alive when that second call returned (-1: not such a scenario)
	OverlapAlive     int      `json:"overlap_alive"`
	RunsReturned     bool     `json:"runs_returned"`
	RunErrs          []bool   `json:"run_errs"` // per in-flight run: returned a non-nil error
	LateRunErr       bool     `json:"late_run_err"`
	LateRunRan       bool     `json:"late_run_ran"`
	ScheduleReturned bool     `json:"schedule_returned"`
	StartedAfter     []string `json:"started_after_cancel"`
	WaitingStarted   []string `json:"waiting_started"`
	SleepersLeft     int      `json:"sleepers_left"`
	// commands of the scenario still alive at the moment Cancel returned (-1: not measured)
	AliveAtReturn int `json:"alive_at_return"`
	// point "run-during-cancel": a Run issued while Cancel was still waiting returned (with an error) / did not return
	DuringRunReturned int    `json:"during_run_returned"` // -1 not such a scenario, 0 did not return, 1 returned with an error, 2 returned nil
	Note              string `json:"note"`
}

func (s cancelScenario) String() string {
	return fmt.Sprintf("mode=%s inflight=%d waiting=%d point=%s allow=%v timeout=%v pre=%s seq=%d in-an-included-pipeline=%v", s.Mode, s.Inflight, s.Waiting, s.Point, s.Allow, s.Timeout, s.Pre, s.Seq, s.Nested)
}

func appendLine(path, s string) {
	f, err := os.OpenFile(path, os.O_APPEND|os.O_CREATE|os.O_WRONLY, 0644)
	if err == nil {
		f.WriteString(s + "\n")
		f.Close()
	}
}

func waitMarkers(log string, want []string, d time.Duration) bool {
	deadline := time.Now().Add(d)
	for {
		have := map[string]bool{}
		for _, l := range readTrace(log) {
			have[l] = true
		}
		all := true
		for _, w := range want {
			if !have[w] {
				all = false
			}
		}
		if all {
			return true
		}
		if time.Now().After(deadline) {
			return false
		}
		time.Sleep(2 * time.Millisecond)
	}
}

func countSleepers(tag string) int {
	out, _ := exec.Command("pgrep", "-f", "sleep "+tag).Output()
	n := 0
	for _, l := range strings.Split(string(out), "\n") {
		if strings.TrimSpace(l) != "" {
			n++
		}
	}
	return n
}

func longTask(name, log, sleepTag string, sc cancelScenario) *task.Task {
	t := task.NewTask()
	t.Name = name
	t.AllowFailure = sc.Allow
	if sc.Timeout {
		d := 20 * time.Second
		t.Timeout = &d
	}
	body := fmt.Sprintf("echo start-%s >> %s; sleep %s; echo end-%s >> %s", name, log, sleepTag, name, log)
	if sc.Point == "overlap" || sc.Point == "run-during-cancel" {
		// a command that ignores the interrupt: it dies of the kill that follows two seconds later
		// (the start marker is written by that shell once the interrupt is ignored: a cancellation that arrives between a
		// marker written earlier and the trap - likely on a loaded machine - ends the shell at once and the scenario
		// degenerates into the plain one)
		body = fmt.Sprintf("sh -c 'trap \"\" INT; echo start-%s >> %s; exec sleep %s'; echo end-%s >> %s", name, log, sleepTag, name, log)
	}
	switch sc.Point {
	case "in-context-up-immune":
		t.Context = "slow-" + sc.Point
		t.Commands = []string{fmt.Sprintf("echo cmd-%s >> %s", name, log)}
	case "in-context-up", "in-context-before":
		// the cancellation arrives while a command of the task's execution context is running (bringing the context up,
		// or its before hook): it is one of the commands that are running
		t.Context = "slow-" + sc.Point
		t.Commands = []string{fmt.Sprintf("echo cmd-%s >> %s", name, log)}
	case "in-condition":
		// the cancellation arrives while the task's condition is being evaluated, by a program that answers an interrupt
		// with an exit status of its own: the task was interrupted before it ran anything - not "skipped, fine"
		// (the condition would go on for 30 s: it is one of "the commands that are running", the cancellation ends it)
		// (the start marker is written once the trap is in place: an interrupt that arrives earlier would kill the shell
		// and leave the sleep behind, holding the output pipe - the known finding about grandchildren, not this scenario)
		t.Condition = fmt.Sprintf("sh -c 'trap \"kill \\$p; exit 3\" INT; sleep %s & p=$!; echo start-%s >> %s; wait $p'", sleepTag, name, log)
		t.Commands = []string{fmt.Sprintf("echo cmd-%s >> %s", name, log)}
	case "in-before-hook":
		t.Before = []string{body}
		t.Commands = []string{fmt.Sprintf("echo cmd-%s >> %s", name, log)}
	case "second-command":
		t.Commands = []string{fmt.Sprintf("echo first-%s >> %s", name, log), body, fmt.Sprintf("echo third-%s >> %s", name, log)}
	default:
		t.Commands = []string{body, fmt.Sprintf("echo next-%s >> %s", name, log)}
	}
	return t
}

func cancelChild(args []string) {
	var sc cancelScenario
	if err := json.Unmarshal([]byte(args[0]), &sc); err != nil {
		fmt.Fprintln(os.Stderr, err)
		os.Exit(3)
	}
	obs := cancelObs{CancelReturnedMs: -1, SecondCancelMs: -2, OverlapAlive: -1, AliveAtReturn: -1, DuringRunReturned: -1}
	sleepTag := fmt.Sprintf("30.%d", os.Getpid()) // `sleep 30.<pid>`: identifiable in the process table
	r, err := runner.NewTaskRunner()
	if err != nil {
		fmt.Fprintln(os.Stderr, err)
		os.Exit(3)
	}
	r.Stdout, r.Stderr = devNull{}, devNull{}
	emit := func() {
		b, _ := json.Marshal(obs)
		fmt.Println("OBS " + string(b))
	}
	bound := 6 * time.Second
	// contexts known to the runner: "latectx" (hooks that leave a mark) is used by a task submitted after the
	// cancellation, "broken" by the up-fails pre-history
	r.SetContexts(map[string]*runner.ExecutionContext{
		"latectx": runner.NewExecutionContext(nil, "", variables.NewVariables(),
			[]string{fmt.Sprintf("echo late-hook-up >> %s", sc.Log)}, nil, []string{fmt.Sprintf("echo late-hook-before >> %s", sc.Log)}, nil),
		"broken": runner.NewExecutionContext(nil, "", variables.NewVariables(), []string{"false"}, nil, nil, nil),
		"slow-in-context-up": runner.NewExecutionContext(nil, "", variables.NewVariables(),
			[]string{fmt.Sprintf("echo start-t0 >> %s; sleep %s", sc.Log, sleepTag)}, []string{fmt.Sprintf("echo ctx-down >> %s", sc.Log)}, nil, []string{fmt.Sprintf("echo ctx-after >> %s", sc.Log)}),
		"slow-in-context-up-immune": runner.NewExecutionContext(nil, "", variables.NewVariables(),
			[]string{fmt.Sprintf("sh -c 'trap \"\" INT; echo start-t0 >> %s; exec sleep %s'", sc.Log, sleepTag)}, nil, nil, nil),
		"slow-in-context-before": runner.NewExecutionContext(nil, "", variables.NewVariables(),
			[]string{"true"}, []string{fmt.Sprintf("echo ctx-down >> %s", sc.Log)}, []string{fmt.Sprintf("echo start-t0 >> %s; sleep %s", sc.Log, sleepTag)}, []string{fmt.Sprintf("echo ctx-after >> %s", sc.Log)}),
	})
	switch sc.Pre {
	case "bad-context":
		bad := task.FromCommands("true")
		bad.Name, bad.Context = "pre", "no-such-context"
		if r.Run(bad) == nil {
			obs.Note += " pre-run with unknown context reported no error"
		}
	case "up-fails":
		bad := task.FromCommands("true")
		bad.Name, bad.Context = "pre", "broken"
		if r.Run(bad) == nil {
			obs.Note += " pre-run in a context whose up fails reported no error"
		}
	}

	overlapDone := make(chan struct{})
	timedCancel := func(f func()) int {
		done := make(chan struct{})
		t0 := time.Now()
		go func() { f(); close(done) }()
		select {
		case <-done:
			return int(time.Since(t0) / time.Millisecond)
		case <-time.After(bound):
			return -1
		}
	}

	switch sc.Mode {
	case "runner":
		var wg sync.WaitGroup
		errs := make([]error, sc.Inflight)
		var names []string
		for i := 0; i < sc.Inflight; i++ {
			name := fmt.Sprintf("t%d", i)
			names = append(names, "start-"+name)
			t := longTask(name, sc.Log, sleepTag, sc)
			wg.Add(1)
			go func(i int, t *task.Task) {
				defer wg.Done()
				errs[i] = r.Run(t)
			}(i, t)
		}
		if sc.Point == "after-all" {
			// let short tasks finish first
			sc.Inflight = 0
		}
		if !waitMarkers(sc.Log, names, 5*time.Second) {
			obs.Note = "tasks did not start"
		}
		appendLine(sc.Log, "CANCEL-CALLED")
		if sc.Point == "overlap" {
			go func() {
				time.Sleep(300 * time.Millisecond)
				r.Cancel()
				obs.OverlapAlive = countSleepers(sleepTag)
				close(overlapDone)
			}()
		}
		duringDone := make(chan int, 1)
		if sc.Point == "run-during-cancel" {
			// a Run that arrives while Cancel is still waiting for the commands in flight: it is refused, and returns
			go func() {
				time.Sleep(300 * time.Millisecond)
				during := task.FromCommands(fmt.Sprintf("echo late-ran >> %s", sc.Log))
				during.Name = "during"
				res := make(chan error, 1)
				go func() { res <- r.Run(during) }()
				select {
				case e := <-res:
					if e != nil {
						duringDone <- 1
					} else {
						duringDone <- 2
					}
				case <-time.After(bound):
					duringDone <- 0
				}
			}()
		}
		obs.CancelReturnedMs = timedCancel(r.Cancel)
		if sc.Point != "overlap" {
			obs.AliveAtReturn = countSleepers(sleepTag)
		}
		appendLine(sc.Log, "CANCEL-RETURNED")
		if sc.Point == "run-during-cancel" {
			obs.DuringRunReturned = <-duringDone
		}
		if obs.CancelReturnedMs < 0 {
			emit()
			os.Exit(0)
		}
		runsDone := make(chan struct{})
		go func() { wg.Wait(); close(runsDone) }()
		select {
		case <-runsDone:
			obs.RunsReturned = true
		case <-time.After(bound):
		}
		for _, e := range errs {
			obs.RunErrs = append(obs.RunErrs, e != nil)
		}
		// a task started after the cancellation completed: must fail without running anything
		late := task.FromCommands(fmt.Sprintf("echo late-ran >> %s", sc.Log))
		late.Name = "late"
		lateDone := make(chan error, 1)
		go func() { lateDone <- r.Run(late) }()
		select {
		case e := <-lateDone:
			obs.LateRunErr = e != nil
		case <-time.After(bound):
			obs.Note += " late Run did not return"
		}
		// the same with a task whose context has up / before commands: none of them may start either
		late2 := task.FromCommands(fmt.Sprintf("echo late-ran >> %s", sc.Log))
		late2.Name, late2.Context = "late2", "latectx"
		late2Done := make(chan error, 1)
		go func() { late2Done <- r.Run(late2) }()
		select {
		case e := <-late2Done:
			obs.LateRunErr = obs.LateRunErr && e != nil
		case <-time.After(bound):
			obs.Note += " late Run (with a context) did not return"
		}
		if sc.Point == "twice" {
			obs.SecondCancelMs = timedCancel(r.Cancel)
		}
	case "sched-seq":
		// several pipelines one after another on the same runner, each cancelled by a stage whose condition
		// cannot be evaluated while a task is in flight; later ones find the runner already cancelled
		obs.CancelReturnedMs = 0
		obs.ScheduleReturned = true
		for k := 0; k < sc.Seq; k++ {
			in := longTask(fmt.Sprintf("t%d", k), sc.Log, sleepTag, sc)
			st := []*scheduler.Stage{
				{Name: "a", Task: in},
				{Name: "b", Task: longTask(fmt.Sprintf("u%d", k), sc.Log, sleepTag, sc), DependsOn: []string{"a"}, Condition: "/nonexistent/verif-condition"},
			}
			g, err := scheduler.NewExecutionGraph(st...)
			if err != nil {
				fmt.Fprintln(os.Stderr, err)
				os.Exit(3)
			}
			sd := scheduler.NewScheduler(r)
			sd.VerifSetPause(time.Millisecond)
			done := make(chan error, 1)
			go func() { done <- sd.Schedule(g) }()
			select {
			case <-done:
			case <-time.After(bound):
				obs.ScheduleReturned = false
				obs.Note += fmt.Sprintf(" pipeline %d did not return", k)
			}
			if !obs.ScheduleReturned {
				break
			}
		}
		obs.RunsReturned = obs.ScheduleReturned
		obs.LateRunErr = true
	case "sched-in-stage-condition":
		// an external Cancel while the scheduling loop is evaluating the condition of a STAGE (a program that would go on
		// for 30 s): the condition is one of the commands that are running - it is ended and the pipeline run returns
		condScript := sc.Log + ".cond.sh"
		os.WriteFile(condScript, []byte(fmt.Sprintf("#!/bin/sh\necho start-cond >> %s\nexec sleep %s\n", sc.Log, sleepTag)), 0755)
		stages := []*scheduler.Stage{
			{Name: "t0", Task: longTask("t0", sc.Log, sleepTag, sc)},
			{Name: "t1", Task: longTask("t1", sc.Log, sleepTag, sc), Condition: condScript},
		}
		g, err := scheduler.NewExecutionGraph(stages...)
		if err != nil {
			fmt.Fprintln(os.Stderr, err)
			os.Exit(3)
		}
		sd := scheduler.NewScheduler(r)
		sd.VerifSetPause(time.Millisecond)
		schedDone := make(chan error, 1)
		go func() { schedDone <- sd.Schedule(g) }()
		if !waitMarkers(sc.Log, []string{"start-cond"}, 5*time.Second) {
			obs.Note = "the stage condition did not start"
		}
		appendLine(sc.Log, "CANCEL-CALLED")
		obs.CancelReturnedMs = timedCancel(sd.Cancel)
		appendLine(sc.Log, "CANCEL-RETURNED")
		if obs.CancelReturnedMs < 0 {
			emit()
			os.Exit(0)
		}
		select {
		case <-schedDone:
			obs.ScheduleReturned = true
		case <-time.After(bound):
		}
		obs.RunsReturned = obs.ScheduleReturned
		for _, st := range stages {
			obs.RunErrs = append(obs.RunErrs, st.ReadStatus() != scheduler.StatusDone && st.ReadStatus() != scheduler.StatusSkipped)
		}
		obs.LateRunErr = true
	case "sched-precancel":
		// the cancellation has COMPLETED before the pipeline is run: nothing of it starts - no task, no stage condition -
		// no stage ends as if it had succeeded, and the run returns
		condScript := sc.Log + ".cond.sh"
		os.WriteFile(condScript, []byte(fmt.Sprintf("#!/bin/sh\necho cond-ran >> %s\nexit 0\n", sc.Log)), 0755)
		a := longTask("t0", sc.Log, sleepTag, sc)
		stages := []*scheduler.Stage{
			{Name: "t0", Task: a, AllowFailure: true},
			{Name: "t1", Task: longTask("t1", sc.Log, sleepTag, sc), Condition: condScript},
			{Name: "t2", Task: longTask("t2", sc.Log, sleepTag, sc), DependsOn: []string{"t0"}, AllowFailure: true},
		}
		g, err := scheduler.NewExecutionGraph(stages...)
		if err != nil {
			fmt.Fprintln(os.Stderr, err)
			os.Exit(3)
		}
		if sc.Nested {
			g, _ = scheduler.NewExecutionGraph(&scheduler.Stage{Name: "inc", Pipeline: g, AllowFailure: true})
		}
		sd := scheduler.NewScheduler(r)
		sd.VerifSetPause(time.Millisecond)
		appendLine(sc.Log, "CANCEL-CALLED")
		obs.CancelReturnedMs = timedCancel(sd.Cancel)
		appendLine(sc.Log, "CANCEL-RETURNED")
		if obs.CancelReturnedMs < 0 {
			emit()
			os.Exit(0)
		}
		schedDone := make(chan error, 1)
		go func() { schedDone <- sd.Schedule(g) }()
		select {
		case <-schedDone:
			obs.ScheduleReturned = true
		case <-time.After(bound):
		}
		obs.RunsReturned = obs.ScheduleReturned
		for _, st := range stages {
			obs.RunErrs = append(obs.RunErrs, st.ReadStatus() != scheduler.StatusDone)
		}
		obs.LateRunErr = true
	case "sched", "sched-conderr":
		var stages []*scheduler.Stage
		var startNames []string
		for i := 0; i < sc.Inflight; i++ {
			name := fmt.Sprintf("t%d", i)
			startNames = append(startNames, "start-"+name)
			stages = append(stages, &scheduler.Stage{Name: name, Task: longTask(name, sc.Log, sleepTag, sc)})
		}
		if sc.Point == "run-during-cancel" {
			late := task.FromCommands(fmt.Sprintf("echo late-ran >> %s", sc.Log))
			late.Name = "late"
			stages = append(stages, &scheduler.Stage{Name: "late", Task: late})
		}
		for i := 0; i < sc.Waiting; i++ {
			name := fmt.Sprintf("w%d", i)
			st := &scheduler.Stage{Name: name, Task: longTask(name, sc.Log, sleepTag, sc)}
			if sc.Inflight > 0 {
				st.DependsOn = []string{fmt.Sprintf("t%d", i%sc.Inflight)}
			} else {
				// nothing in flight: keep it waiting behind a stage that is skipped... no: make it wait on the condition stage
				st.DependsOn = []string{"c"}
			}
			stages = append(stages, st)
		}
		if sc.Mode == "sched-conderr" || sc.Inflight == 0 {
			// stage "c": its condition holds until broken; it waits for every in-flight stage so it never starts itself
			c := &scheduler.Stage{Name: "c", Task: longTask("c", sc.Log, sleepTag, sc), Condition: sc.Cond}
			for i := 0; i < sc.Inflight; i++ {
				c.DependsOn = append(c.DependsOn, fmt.Sprintf("t%d", i))
			}
			if sc.Inflight == 0 {
				// keep "c" waiting: it depends on a stage whose condition is being evaluated for ever? use a gate stage that runs long
				g := &scheduler.Stage{Name: "gate", Task: longTask("gate", sc.Log, sleepTag, sc)}
				if sc.Mode == "sched-conderr" {
					// zero tasks in flight is wanted: the gate itself is conditional on the broken condition
					g = nil
				}
				if g != nil {
					stages = append(stages, g)
					startNames = append(startNames, "start-gate")
					c.DependsOn = append(c.DependsOn, "gate")
				}
			}
			stages = append(stages, c)
		}
		g, err := scheduler.NewExecutionGraph(stages...)
		if err != nil {
			fmt.Fprintln(os.Stderr, err)
			os.Exit(3)
		}
		if sc.Nested {
			g, err = scheduler.NewExecutionGraph(&scheduler.Stage{Name: "inc", Pipeline: g}, &scheduler.Stage{Name: "after-inc", Task: longTask("w-after-inc", sc.Log, sleepTag, sc), DependsOn: []string{"inc"}})
			if err != nil {
				fmt.Fprintln(os.Stderr, err)
				os.Exit(3)
			}
		}
		sd := scheduler.NewScheduler(r)
		cancelStarted := make(chan struct{})
		if sc.Point == "run-during-cancel" {
			// the runner seen by the scheduler holds the stage "late" back until the cancellation has been under way for a
			// moment: its Run arrives while Cancel is still waiting for the command in flight
			sd = scheduler.NewScheduler(&lateRunner{TaskRunner: r, started: cancelStarted})
		}
		sd.VerifSetPause(time.Millisecond)
		schedDone := make(chan error, 1)
		if sc.Mode == "sched-conderr" && sc.Inflight == 0 {
			// the condition is already broken when the run starts: cancellation from the loop thread with nothing in flight
			breakCond(sc.Cond)
		}
		go func() { schedDone <- sd.Schedule(g) }()
		if !waitMarkers(sc.Log, startNames, 5*time.Second) {
			obs.Note = "stages did not start"
		}
		appendLine(sc.Log, "CANCEL-CALLED")
		close(cancelStarted)
		if sc.Mode == "sched-conderr" {
			if sc.Inflight > 0 {
				breakCond(sc.Cond)
			}
			obs.CancelReturnedMs = 0
		} else {
			if sc.Point == "overlap" {
				// the second call, 300 ms into the first: when IT returns the cancellation must be complete too
				go func() {
					time.Sleep(300 * time.Millisecond)
					sd.Cancel()
					obs.OverlapAlive = countSleepers(sleepTag)
					close(overlapDone)
				}()
			}
			obs.CancelReturnedMs = timedCancel(sd.Cancel)
			if sc.Point != "overlap" {
				obs.AliveAtReturn = countSleepers(sleepTag)
			}
			appendLine(sc.Log, "CANCEL-RETURNED")
			if obs.CancelReturnedMs < 0 {
				emit()
				os.Exit(0)
			}
		}
		select {
		case <-schedDone:
			obs.ScheduleReturned = true
		case <-time.After(bound):
		}
		obs.RunsReturned = obs.ScheduleReturned
		for _, st := range stages {
			if strings.HasPrefix(st.Name, "t") || st.Name == "gate" {
				obs.RunErrs = append(obs.RunErrs, st.ReadStatus() == scheduler.StatusError || (sc.Allow && st.ReadStatus() == scheduler.StatusDone))
			}
		}
		if sc.Point == "twice" && sc.Mode == "sched" {
			obs.SecondCancelMs = timedCancel(sd.Cancel)
		}
		obs.LateRunErr = true
	}
	if sc.Point == "overlap" {
		select {
		case <-overlapDone:
		case <-time.After(bound):
		}
	}
	time.Sleep(50 * time.Millisecond)
	// what started after the cancellation had completed?
	seenReturn := false
	for _, l := range readTrace(sc.Log) {
		if l == "CANCEL-RETURNED" {
			seenReturn = true
			continue
		}
		if seenReturn && (strings.HasPrefix(l, "start-") || strings.HasPrefix(l, "next-") || strings.HasPrefix(l, "third-") || strings.HasPrefix(l, "cmd-") || strings.HasPrefix(l, "cond-") || strings.HasPrefix(l, "end-") || l == "late-ran" || strings.HasPrefix(l, "late-hook-")) {
			obs.StartedAfter = append(obs.StartedAfter, l)
		}
		if strings.HasPrefix(l, "start-w") || l == "start-c" {
			obs.WaitingStarted = append(obs.WaitingStarted, l)
		}
		if l == "late-ran" {
			obs.LateRunRan = true
		}
		if strings.HasPrefix(l, "next-") || strings.HasPrefix(l, "third-") || strings.HasPrefix(l, "end-") || strings.HasPrefix(l, "cmd-") {
			// a command that follows the interrupted one must never run
			if !contains(obs.StartedAfter, l) {
				obs.StartedAfter = append(obs.StartedAfter, "continued:"+l)
			}
		}
	}
	obs.SleepersLeft = countSleepers(sleepTag)
	emit()
}

func contains(a []string, s string) bool {
	for _, x := range a {
		if x == s {
			return true
		}
	}
	return false
}

// parent side
func runCancelScenario(sc cancelScenario) (obs *cancelObs, exit int, stderr string, timedOut bool) {
	dir := newScratchDir("cancel")
	defer os.RemoveAll(dir)
	sc.Log = filepath.Join(dir, "log")
	if sc.Mode == "sched-conderr" || (sc.Mode == "sched" && sc.Inflight == 0) {
		sc.Cond = makeCondScript()
		defer os.Remove(sc.Cond)
	}
	b, _ := json.Marshal(sc)
	self, _ := os.Executable()
	cmd := exec.Command(self, "-child", "cancel", string(b))
	cmd.Env = append(os.Environ(), "VERIF_SCRATCH="+scratchDir())
	var so, se strings.Builder
	cmd.Stdout, cmd.Stderr = &so, &se
	if err := cmd.Start(); err != nil {
		return nil, -1, err.Error(), false
	}
	done := make(chan error, 1)
	go func() { done <- cmd.Wait() }()
	select {
	case err := <-done:
		if ee, ok := err.(*exec.ExitError); ok {
			exit = ee.ExitCode()
		}
	case <-time.After(25 * time.Second):
		timedOut = true
		cmd.Process.Kill()
		<-done
	}
	// kill leftovers of this child
	exec.Command("pkill", "-f", fmt.Sprintf("sleep 30.%d", cmd.Process.Pid)).Run()
	for _, l := range strings.Split(so.String(), "\n") {
		if strings.HasPrefix(l, "OBS ") {
			var o cancelObs
			if json.Unmarshal([]byte(l[4:]), &o) == nil {
				obs = &o
			}
		}
	}
	return obs, exit, se.String(), timedOut
}

func cancelVerdict(sc cancelScenario, obs *cancelObs, exit int, stderr string, timedOut bool) (fail, sig string) {
	switch {
	case strings.Contains(stderr, "panic:") || strings.Contains(stderr, "fatal error:"):
		return "process crashed: " + lastLines(firstPanicLine(stderr), 1), "c12-panic"
	case timedOut || obs == nil:
		return "scenario did not finish within 25s (deadlock)", "c12-hang"
	case obs.CancelReturnedMs < 0:
		return "Cancel did not return within 6s", "c12-cancel-blocks"
	case !obs.RunsReturned:
		return "interrupted runs / Schedule did not return within 6s after Cancel", "c12-run-blocks"
	case obs.SecondCancelMs == -1:
		return "second Cancel did not return", "c12-cancel-twice"
	case sc.Point == "overlap" && obs.OverlapAlive > 0:
		return fmt.Sprintf("a second Cancel, issued while the first was still waiting for a command that ignores the interrupt, returned while %d command(s) were still running", obs.OverlapAlive), "c12-second-cancel-early"
	case sc.Point == "overlap" && obs.OverlapAlive < 0:
		return "the second (overlapping) Cancel had not returned when the scenario ended", "c12-cancel-twice"
	case obs.AliveAtReturn > 0:
		return fmt.Sprintf("Cancel returned while %d command(s) of the run were still running", obs.AliveAtReturn), "c12-cancel-early"
	case obs.DuringRunReturned == 0:
		return "a Run issued while Cancel was waiting for the commands in flight never returned", "c12-run-blocks"
	case obs.DuringRunReturned == 2:
		return "a Run issued while Cancel was waiting for the commands in flight reported success", "c12-late-run"
	case len(obs.StartedAfter) > 0:
		return fmt.Sprintf("commands started after cancellation: %v", obs.StartedAfter), "c12-started-after"
	case len(obs.WaitingStarted) > 0 && sc.Mode != "sched-conderr":
		return fmt.Sprintf("waiting stages started after cancellation: %v", obs.WaitingStarted), "c12-started-after"
	case obs.LateRunRan || !obs.LateRunErr:
		return fmt.Sprintf("a task run after the cancellation completed: ran=%v error=%v", obs.LateRunRan, obs.LateRunErr), "c12-late-run"
	case obs.SleepersLeft > 0:
		return fmt.Sprintf("%d command processes still alive after cancellation", obs.SleepersLeft), "c12-process-left"
	}
	if sc.Point != "after-all" {
		for i, e := range obs.RunErrs {
			if !e {
				return fmt.Sprintf("interrupted task %d reported success", i), "c12-interrupted-success"
			}
		}
	}
	if exit != 0 {
		return fmt.Sprintf("child exited %d: %s", exit, lastLines(stderr, 2)), "c12-child-exit"
	}
	return "", ""
}

func firstPanicLine(s string) string {
	for _, l := range strings.Split(s, "\n") {
		if strings.Contains(l, "panic:") || strings.Contains(l, "fatal error:") {
			return l
		}
	}
	return s
}

func genCancelScenarios(tier string, rng *rand.Rand) []cancelScenario {
	var out []cancelScenario
	for inflight := 0; inflight <= 4; inflight++ {
		for _, point := range []string{"in-command", "in-before-hook", "second-command", "twice"} {
			if inflight == 0 && point != "in-command" && point != "twice" {
				continue
			}
			out = append(out, cancelScenario{Mode: "runner", Inflight: inflight, Point: point, Allow: rng.Intn(2) == 0})
		}
	}
	out = append(out, cancelScenario{Mode: "runner", Inflight: 0, Point: "before-run"})
	// a second Cancel while the first is still in progress
	out = append(out, cancelScenario{Mode: "runner", Inflight: 2, Point: "overlap"}, cancelScenario{Mode: "sched", Inflight: 1, Waiting: 1, Point: "overlap"},
		cancelScenario{Mode: "sched", Inflight: 3, Waiting: 0, Point: "overlap"})
	// histories: a run that failed during context set-up earlier; tasks with their own timeout; several
	// pipelines on one runner
	for _, pre := range []string{"bad-context", "up-fails"} {
		out = append(out, cancelScenario{Mode: "runner", Inflight: rng.Intn(3), Point: "in-command", Pre: pre})
		out = append(out, cancelScenario{Mode: "sched", Inflight: rng.Intn(3), Waiting: 1, Point: "in-command", Pre: pre})
		out = append(out, cancelScenario{Mode: "sched-conderr", Inflight: rng.Intn(2), Waiting: 1, Point: "in-command", Pre: pre})
	}
	for inflight := 1; inflight <= 3; inflight++ {
		out = append(out, cancelScenario{Mode: "runner", Inflight: inflight, Point: []string{"in-command", "second-command", "in-before-hook"}[inflight-1], Timeout: true, Allow: inflight == 2})
		out = append(out, cancelScenario{Mode: "sched", Inflight: inflight, Waiting: 1, Point: "in-command", Timeout: true})
	}
	out = append(out, cancelScenario{Mode: "sched-seq", Seq: 3, Point: "in-command"})
	out = append(out, cancelScenario{Mode: "sched-seq", Seq: 2, Point: "in-command", Timeout: true})
	for inflight := 0; inflight <= 4; inflight++ {
		for waiting := 0; waiting <= 3; waiting++ {
			if tier != "thorough" && (inflight+waiting)%2 == 1 && inflight > 1 {
				continue
			}
			out = append(out, cancelScenario{Mode: "sched", Inflight: inflight, Waiting: waiting, Point: []string{"in-command", "twice", "second-command"}[rng.Intn(3)], Allow: rng.Intn(3) == 0})
			out = append(out, cancelScenario{Mode: "sched-conderr", Inflight: inflight, Waiting: waiting, Point: "in-command"})
		}
	}
	// a cancellation that arrives while a task's condition is being evaluated
	out = append(out, cancelScenario{Mode: "runner", Inflight: 1, Point: "in-condition"}, cancelScenario{Mode: "runner", Inflight: 2, Point: "in-condition", Allow: true},
		cancelScenario{Mode: "sched", Inflight: 1, Waiting: 1, Point: "in-condition"})
	// ... or while a command of the task's execution context is running (its up commands, its before hook)
	out = append(out, cancelScenario{Mode: "runner", Inflight: 1, Point: "in-context-up"}, cancelScenario{Mode: "runner", Inflight: 1, Point: "in-context-before"},
		cancelScenario{Mode: "sched", Inflight: 1, Waiting: 1, Point: "in-context-up"}, cancelScenario{Mode: "sched", Inflight: 1, Waiting: 1, Point: "in-context-before", Allow: true})
	out = append(out, cancelScenario{Mode: "sched", Inflight: 1, Waiting: 0, Point: "run-during-cancel"}, cancelScenario{Mode: "sched", Inflight: 2, Waiting: 1, Point: "run-during-cancel"})
	out = append(out, cancelScenario{Mode: "runner", Inflight: 1, Point: "in-context-up-immune"},
		cancelScenario{Mode: "runner", Inflight: 1, Point: "run-during-cancel"}, cancelScenario{Mode: "runner", Inflight: 2, Point: "run-during-cancel", Allow: true})
	// ... or while the scheduling loop is evaluating the condition of a stage
	out = append(out, cancelScenario{Mode: "sched-in-stage-condition", Point: "in-command"})
	// a cancellation that completed before the pipeline is run
	out = append(out, cancelScenario{Mode: "sched-precancel", Point: "in-command"}, cancelScenario{Mode: "sched-precancel", Point: "in-command", Nested: true})
	// the same inside a pipeline included by a stage of the pipeline being run
	out = append(out, cancelScenario{Mode: "sched-conderr", Inflight: 0, Waiting: 1, Point: "in-command", Nested: true},
		cancelScenario{Mode: "sched-conderr", Inflight: 2, Waiting: 1, Point: "in-command", Nested: true},
		cancelScenario{Mode: "sched", Inflight: 2, Waiting: 1, Point: "in-command", Nested: true},
		cancelScenario{Mode: "sched", Inflight: 1, Waiting: 0, Point: "twice", Nested: true})
	return out
}

func runC12(col *Collector, tier string, seed int64) {
	runCancelProp(col, "C12", tier, seed)
}

func runCancelProp(col *Collector, focus, tier string, seed int64) {
	rng := rand.New(rand.NewSource(seed))
	col.res.Rule = "real TaskRunner / Scheduler in a child process per scenario; tasks `echo start; sleep 30; echo end`; Cancel with 0..4 tasks in flight x 0..3 stages waiting, " +
		"during a before-hook, during the first or second command, twice in a row, before any run, via Scheduler.Cancel and via a stage condition that cannot be evaluated; " +
		"then a task run after the cancellation. non-trivial = at least one task in flight or waiting; distinct = distinct scenarios"
	scs := genCancelScenarios(tier, rng)
	if focus == "C12" {
		condVerdictCases(col)
	}
	var rmu sync.Mutex
	var retry []retryJob
	// the case of a scenario is built from ONE observation: its summary for the model and its verdict describe the same run
	mkCase := func(sc cancelScenario, obs *cancelObs) Case {
		cs := Case{Replay: "cancel " + sc.String(), Tags: []string{"mode=" + sc.Mode, "inflight=" + strconv.Itoa(sc.Inflight), "point=" + sc.Point}}
		cs.NonTrivial = sc.Inflight+sc.Waiting > 0
		if obs != nil {
			b, _ := json.Marshal(obs)
			cs.Impl = string(b)
		}
		if sc.Mode == "runner" && obs != nil && sc.Point != "before-run" {
			// canonical summary compared with the Lean model of the hand-shake
			errs := make([]string, len(obs.RunErrs))
			for k, e := range obs.RunErrs {
				errs[k] = map[bool]string{true: "1", false: "0"}[e]
			}
			b := func(x bool) string { return map[bool]string{true: "1", false: "0"}[x] }
			twice := sc.Point == "twice"
			cs.Line = fmt.Sprintf("cancel inflight=%d twice=%s", sc.Inflight, b(twice))
			cs.Impl = fmt.Sprintf("cret=%s|errs=%s|late_err=%s|started_after=%d|cret2=%s", b(obs.CancelReturnedMs >= 0), strings.Join(errs, ","),
				b(obs.LateRunErr && !obs.LateRunRan), len(obs.StartedAfter), b(!twice || obs.SecondCancelMs >= 0))
		}
		return cs
	}
	parallel(len(scs), 12, func(i int) {
		sc := scs[i]
		obs, exit, stderr, to := runCancelScenario(sc)
		cs := mkCase(sc, obs)
		fail, sig := cancelVerdict(sc, obs, exit, stderr, to)
		if fail != "" && timingSigs[sig] && os.Getenv("VERIF_NO_RETRY") == "" {
			// a bound on wall-clock time was exceeded: on a machine that is busy enough that can happen to correct
			// code. The scenario is repeated on its own, after the others; a deadlock shows again, a slow start does not
			rmu.Lock()
			retry = append(retry, retryJob{sc, fail, sig})
			rmu.Unlock()
			return
		}
		if fail != "" {
			cs.Fail, cs.Sig = fail, sig
		}
		col.Add(cs)
	})
	for _, j := range retry {
		// the repeated run is the one that is reported, as a whole: what is compared with the model is what THIS run did
		// (the summary of the first attempt - `Cancel did not return within the bound` - describes a run that the verdict
		// below no longer talks about, and kept with a passing verdict it read as a disagreement with the model)
		obs, exit, stderr, to := runCancelScenario(j.sc)
		fail, sig := cancelVerdict(j.sc, obs, exit, stderr, to)
		cs := mkCase(j.sc, obs)
		if fail != "" {
			cs.Fail, cs.Sig = fmt.Sprintf("%s (twice: the first attempt ended with: %s)", fail, j.fail), sig
		} else {
			cs.Tags = append(cs.Tags, "passed-on-second-attempt")
			col.Note("C12 scenario %s exceeded a time bound once (%s) and passed when repeated alone", j.sc.String(), j.sig)
		}
		col.Add(cs)
	}
}

type retryJob struct {
	sc   cancelScenario
	fail string
	sig  string
}

var timingSigs = map[string]bool{"c12-hang": true, "c12-cancel-blocks": true, "c12-run-blocks": true, "c12-cancel-twice": true, "c12-child-exit": true, "c12-process-left": true}

// what a condition decides (Model/Cancel.lean `condVerdict`): the condition of a task (run by the runner's interpreter)
// and the condition of a stage (a program run by the scheduling loop) ending with exit status 0 / another exit status /
// no exit status at all, with the run cancelled while the condition is being evaluated or not cancelled at all.
func condVerdictCases(col *Collector) {
	type cv struct {
		level     string // "task" | "stage"
		cancelled bool
		end       string
	}
	var cvs []cv
	for _, level := range []string{"task", "stage"} {
		for _, c := range []bool{false, true} {
			for _, e := range []string{"zero", "nonzero", "killed"} {
				cvs = append(cvs, cv{level, c, e})
			}
		}
	}
	parallel(len(cvs), 6, func(i int) {
		v := cvs[i]
		dir := newScratchDir("condv")
		defer os.RemoveAll(dir)
		marker, ranMark := filepath.Join(dir, "started"), filepath.Join(dir, "ran")
		tag := fmt.Sprintf("31.%d%02d", os.Getpid()%100000, i)
		defer exec.Command("pkill", "-f", "sleep "+tag).Run()
		cs := Case{Line: fmt.Sprintf("condverdict c=%d e=%s", map[bool]int{false: 0, true: 1}[v.cancelled], v.end), Tags: []string{"condition-verdict", v.level}, NonTrivial: true}
		cs.Replay = fmt.Sprintf("the condition of a %s ends with %s; run cancelled while it is being evaluated: %v", v.level, map[string]string{"zero": "exit status 0", "nonzero": "exit status 3", "killed": "no exit status (cannot be parsed / started, or ignores the interrupt and is killed)"}[v.end], v.cancelled)
		// the text of the condition
		var body string
		switch {
		case !v.cancelled && v.end == "zero":
			body = "exit 0"
		case !v.cancelled && v.end == "nonzero":
			body = "exit 3"
		case v.cancelled && v.end == "killed":
			body = fmt.Sprintf("trap '' INT; echo x > %s; exec sleep %s", marker, tag)
		case v.cancelled:
			body = fmt.Sprintf("trap \"kill \\$p; exit %s\" INT TERM; sleep %s & p=$!; echo x > %s; wait $p", map[string]string{"zero": "0", "nonzero": "3"}[v.end], tag, marker)
		}
		r, err := runner.NewTaskRunner()
		if err != nil {
			cs.Fail, cs.Sig = err.Error(), "c12-child-exit"
			col.Add(cs)
			return
		}
		r.Stdout, r.Stderr = devNull{}, devNull{}
		t := task.FromCommands("echo ran > " + ranMark)
		t.Name = "guarded"
		waitStarted := func() {
			for k := 0; k < 500; k++ {
				if _, err := os.Stat(marker); err == nil {
					break
				}
				time.Sleep(10 * time.Millisecond)
			}
			time.Sleep(50 * time.Millisecond)
		}
		obs := ""
		done := make(chan struct{})
		go func() {
			defer close(done)
			defer func() {
				if p := recover(); p != nil {
					obs = fmt.Sprint("panic: ", p)
				}
			}()
			if v.level == "task" {
				switch {
				case !v.cancelled && v.end == "killed":
					t.Condition = "echo 'unterminated"
				default:
					t.Condition = "sh -c '" + strings.ReplaceAll(body, "'", `'"'"'`) + "'"
				}
				fin := make(chan error, 1)
				go func() { fin <- r.Run(t) }()
				if v.cancelled {
					waitStarted()
					r.Cancel()
				}
				rerr := <-fin
				switch {
				case t.Skipped && rerr == nil:
					obs = "skipped"
				case rerr != nil:
					obs = "error"
				default:
					obs = "ran"
				}
				return
			}
			script := filepath.Join(dir, "cond.sh")
			os.WriteFile(script, []byte("#!/bin/sh\n"+body+"\n"), 0755)
			if !v.cancelled && v.end == "killed" {
				script = filepath.Join(dir, "no-such-program")
			}
			st := &scheduler.Stage{Name: "guarded", Task: t, Condition: script}
			g, gerr := scheduler.NewExecutionGraph(st)
			if gerr != nil {
				obs = gerr.Error()
				return
			}
			sd := scheduler.NewScheduler(r)
			sd.VerifSetPause(time.Millisecond)
			fin := make(chan error, 1)
			go func() { fin <- sd.Schedule(g) }()
			if v.cancelled {
				waitStarted()
				sd.Cancel()
			}
			<-fin
			switch st.ReadStatus() {
			case scheduler.StatusSkipped:
				obs = "skipped"
			case scheduler.StatusDone:
				obs = "ran"
			default:
				obs = "error"
			}
		}()
		select {
		case <-done:
		case <-time.After(15 * time.Second):
			obs = "no-return"
			cs.Fail, cs.Sig = "the run did not return within 15s", "c12-run-blocks"
		}
		_, ranErr := os.Stat(ranMark)
		if obs == "ran" && ranErr != nil {
			obs = "ran-without-running"
		}
		cs.Impl = obs
		if v.cancelled && cs.Fail == "" && obs != "error" {
			cs.Fail, cs.Sig = fmt.Sprintf("a %s whose condition was being evaluated when the run was cancelled ended as %q: it was interrupted before it ran anything, which is an error", v.level, obs), "c12-interrupted-success"
		}
		if v.cancelled && ranErr == nil {
			cs.Fail, cs.Sig = "the command of the task ran after the cancellation", "c12-started-after"
		}
		col.Add(cs)
	})
}

// lateRunner is the real runner, except that the task named "late" enters Run only 300 ms after the cancellation began
type lateRunner struct {
	*runner.TaskRunner
	started chan struct{}
}

func (l *lateRunner) Run(t *task.Task) error {
	if t.Name == "late" {
		<-l.started
		time.Sleep(300 * time.Millisecond)
	}
	return l.TaskRunner.Run(t)
}
