package main

import (
	"fmt"
	"github.com/taskctl/taskctl/pkg/variables"
	"math/rand"
	"os"
	"os/exec"
	"path/filepath"
	"sort"
	"strings"
	"sync"
	"syscall"
	"time"

	"github.com/fsnotify/fsnotify"

	"github.com/taskctl/taskctl/pkg/runner"
	"github.com/taskctl/taskctl/pkg/task"
	"github.com/taskctl/taskctl/pkg/verifhooks"
)

var allEvents = []string{"create", "write", "remove", "rename", "chmod"}
var allOps = []fsnotify.Op{fsnotify.Create, fsnotify.Write, fsnotify.Remove, fsnotify.Rename, fsnotify.Chmod}

// every subset of the five event types x every event type, delivered to the real handler:
// the task runs iff the type is subscribed (all types when none are listed), with EventName / EventPath
func eventFilterCases(col *Collector) {
	dir := newScratchDir("c20e")
	defer os.RemoveAll(dir)
	for mask := 0; mask < 32; mask++ {
		var subs []string
		for i, e := range allEvents {
			if mask&(1<<uint(i)) != 0 {
				subs = append(subs, e)
			}
		}
		for oi, op := range allOps {
			trace := filepath.Join(dir, fmt.Sprintf("t-%d-%d", mask, oi))
			t := task.FromCommands(fmt.Sprintf("echo \"$EventName $EventPath\" >> %s", trace))
			t.Name = "t"
			if (mask+oi)%3 == 1 {
				// the task declares values of its own for the event variables (so that it can also be run by hand):
				// when an event runs it, EventName and EventPath describe the event
				t.Env = variables.FromMap(map[string]string{"EventName": "by-hand", "EventPath": "/nowhere", "OTHER": "x"})
				t.Variables = variables.FromMap(map[string]string{"EVENT_NAME": "by-hand", "EVENT_PATH": "/nowhere"})
			}
			cs := Case{Tags: []string{"event-filter"}, NonTrivial: true}
			sub := strings.Join(subs, "+")
			if sub == "" {
				sub = "-"
			}
			cs.Line = fmt.Sprintf("event sub=%s ev=%s", sub, allEvents[oi])
			cs.Replay = cs.Line
			func() {
				defer func() {
					if p := recover(); p != nil {
						cs.Fail, cs.Sig = fmt.Sprint("handler panicked: ", p), "c20-panic"
					}
				}()
				w, err := verifhooks.NewWatcher("w", subs, nil, nil, t)
				if err != nil {
					cs.Fail, cs.Sig = err.Error(), "c20-newwatcher"
					return
				}
				go w.Close()
				r, _ := runner.NewTaskRunner()
				r.Stdout, r.Stderr = devNull{}, devNull{}
				done := make(chan struct{})
				go func() {
					defer close(done)
					defer func() { recover() }()
					w.VerifHandle(r, fsnotify.Event{Name: "/some/path.go", Op: op})
				}()
				select {
				case <-done:
				case <-time.After(10 * time.Second):
					cs.Fail, cs.Sig = "the event handler did not return within 10s", "c20-handler-blocks"
					return
				}
			}()
			lines := readTrace(trace)
			want := mask == 0 || mask&(1<<uint(oi)) != 0
			fired := len(lines) > 0
			cs.Impl = fmt.Sprintf("fired=%v", fired)
			if fired {
				cs.Impl += " " + lines[0]
			}
			switch {
			case cs.Fail != "":
			case fired != want:
				sig := "c20-event-filter"
				if want && !fired {
					sig = "c20-event-never-runs-task"
				}
				cs.Fail, cs.Sig = fmt.Sprintf("event %s with subscription %v: task ran=%v, expected %v", allEvents[oi], subs, fired, want), sig
			case fired && lines[0] != allEvents[oi]+" /some/path.go":
				cs.Fail, cs.Sig = fmt.Sprintf("task saw EventName/EventPath %q, expected %q", lines[0], allEvents[oi]+" /some/path.go"), "c20-event-binding"
			}
			col.Add(cs)
		}
	}
}

// real inotify: `taskctl watch w` on a scratch tree; file operations on watched, excluded and unrelated files
func watchRunCases(col *Collector, tier string, rng *rand.Rand) {
	n := 2
	if tier == "thorough" {
		n = 6
	}
	results := make([]Case, n+3)
	seeds := make([]int64, n)
	for i := range seeds {
		seeds[i] = rng.Int63() + int64(i)
	}
	// these runs depend on the kernel delivering inotify events to a process started a moment ago, on a machine
	// that may be busy (and on the per-user limit of inotify instances): a failed run is repeated once, and only a
	// failure that shows both times is reported - a real defect reproduces, a lost event does not
	twice := func(f func() Case) Case {
		c := f()
		if c.Fail == "" {
			return c
		}
		time.Sleep(2 * time.Second)
		c2 := f()
		if c2.Fail == "" {
			c2.Tags = append(c2.Tags, "passed-on-second-attempt")
		}
		return c2
	}
	parallel(n+3, 4, func(i int) {
		switch {
		case i == n+2:
			results[i] = twice(watchManyUnsubscribedCase)
		case i == n:
			results[i] = twice(watchTwoCase)
		case i == n+1:
			results[i] = twice(watchSlowContextCase)
		default:
			results[i] = twice(func() Case { return watchRunCase(rand.New(rand.NewSource(seeds[i]))) })
		}
	})
	for _, c := range results {
		col.Add(c)
	}
}

func watchRunCase(rng *rand.Rand) Case {
	root := newScratchDir("c20w")
	defer os.RemoveAll(root)
	os.MkdirAll(filepath.Join(root, "src"), 0755)
	os.MkdirAll(filepath.Join(root, "other"), 0755)
	files := map[string]string{"watched": "src/a.go", "watched2": "src/b.go", "excluded": "src/skip.go", "unrelated": "other/c.txt", "doomed": "src/d.go", "doomed2": "src/e.go", "doomed3": "src/f.go"}
	for _, f := range files {
		os.WriteFile(filepath.Join(root, f), []byte("x"), 0644)
	}
	trace := filepath.Join(root, "trace")
	cfg := fmt.Sprintf(`
tasks:
  onchange:
    command:
      - 'echo "RAN $EventName $EventPath" >> %s'
watchers:
  w:
    watch: ["%s/src/*.go"]
    exclude: ["%s/src/skip.go"]
    events: [write, chmod]
    task: onchange
`, trace, root, root)
	os.WriteFile(filepath.Join(root, "tasks.yaml"), []byte(cfg), 0644)
	cs := Case{Tags: []string{"inotify"}, NonTrivial: true}
	cmd := exec.Command(taskctlBin(), "-c", filepath.Join(root, "tasks.yaml"), "watch", "w")
	cmd.Dir = root
	cmd.Env = append([]string{"PATH=" + os.Getenv("PATH"), "HOME=" + root}, covEnv()...)
	cmd.SysProcAttr = &syscall.SysProcAttr{Setpgid: true}
	var stderr strings.Builder
	cmd.Stderr = &stderr
	if err := cmd.Start(); err != nil {
		cs.Fail, cs.Sig = err.Error(), "c20-watch-start"
		return cs
	}
	defer func() {
		syscall.Kill(-cmd.Process.Pid, syscall.SIGKILL)
		cmd.Wait()
	}()
	// the watcher runs the task once at start-up; wait for that
	waitLines := func(n int, d time.Duration) []string {
		deadline := time.Now().Add(d)
		for {
			l := readTrace(trace)
			if len(l) >= n || time.Now().After(deadline) {
				return l
			}
			time.Sleep(50 * time.Millisecond)
		}
	}
	base := len(waitLines(1, 5*time.Second))
	time.Sleep(1200 * time.Millisecond)
	type op struct{ kind, file string }
	ops := []op{{"write", "watched"}, {"write", "excluded"}, {"write", "unrelated"}, {"chmod", "watched2"}, {"write", "watched"}, {"write", "watched2"}}
	rng.Shuffle(len(ops)-2, func(a, b int) { ops[a], ops[b] = ops[b], ops[a] })
	// a watched file is renamed away (rename is not subscribed: no run), the watcher must keep serving
	ops = append(ops, op{"rename", "watched2"}, op{"write", "watched"}, op{"chmod", "watched"})
	// ... and when the file comes back to its observed path, events on it are served again
	ops = append(ops, op{"renameback", "watched2"}, op{"write", "watched2"})
	// a subscribed event on an observed file that is gone by the time the (slow) serve loop gets to it is still an
	// event that happened: the task runs for it; and the watcher serves what comes afterwards
	// (three times, 0 / 350 / 700 ms later in the loop's one-second polling period: whatever the phase, at least two
	// of the files are gone when their event is taken from the queue)
	ops = append(ops, op{"write-then-remove", "doomed"}, op{"write-then-remove", "doomed2"}, op{"write-then-remove", "doomed3"}, op{"write", "watched"})
	var want []string
	var replay []string
	for _, o := range ops {
		p := filepath.Join(root, files[o.file])
		switch o.kind {
		case "write":
			f, _ := os.OpenFile(p, os.O_APPEND|os.O_WRONLY, 0644)
			f.WriteString("more")
			f.Close()
		case "write-then-remove":
			time.Sleep(map[string]time.Duration{"doomed": 0, "doomed2": 350 * time.Millisecond, "doomed3": 700 * time.Millisecond}[o.file])
			f, _ := os.OpenFile(p, os.O_APPEND|os.O_WRONLY, 0644)
			f.WriteString("more")
			f.Close()
			time.Sleep(300 * time.Millisecond)
			os.Remove(p)
		case "chmod":
			os.Chmod(p, 0600+os.FileMode(len(replay)%2)*0040)
		case "rename":
			os.Rename(p, p+".renamed")
		case "renameback":
			os.Rename(p+".renamed", p)
		}
		replay = append(replay, o.kind+":"+o.file)
		if (o.file == "watched" || o.file == "watched2") && o.kind != "rename" && o.kind != "renameback" {
			want = append(want, fmt.Sprintf("RAN %s %s", o.kind, p))
		}
		if o.kind == "write-then-remove" {
			want = append(want, fmt.Sprintf("RAN write %s", p))
		}
		// the serve loop polls once a second and handles one event per iteration
		time.Sleep(2500 * time.Millisecond)
	}
	got := readTrace(trace)
	if len(got) >= base {
		got = got[base:]
	}
	cs.Replay = "watch src/*.go minus src/skip.go, events write+chmod; operations: " + strings.Join(replay, ", ")
	cs.Impl = strings.Join(got, " | ")
	if os.Getenv("VERIF_DEBUG_C20") != "" {
		fmt.Fprintln(os.Stderr, "DEBUG inotify got:", cs.Impl, "\nwant:", strings.Join(want, " | "))
	}
	gs := append([]string{}, got...)
	ws := append([]string{}, want...)
	sort.Strings(gs)
	sort.Strings(ws)
	switch {
	case strings.Contains(stderr.String(), "panic:"):
		cs.Fail, cs.Sig = "watcher crashed: "+firstPanicLine(stderr.String()), "c20-panic"
	case len(got) == 0:
		cs.Fail, cs.Sig = fmt.Sprintf("no subscribed event on an observed path ran the task (expected %d runs); stderr: %s", len(want), lastLines(stderr.String(), 2)), "c20-event-never-runs-task"
	case strings.Join(gs, "|") != strings.Join(ws, "|"):
		sig := "c20-serve"
		if len(got) < len(want) {
			sig = "c20-stops-serving"
		}
		cs.Fail, cs.Sig = fmt.Sprintf("task runs %v, the operations on observed paths were %v", got, want), sig
	}
	return cs
}

// two watchers named on one command line: each observes its own paths and runs its own task
func watchTwoCase() Case {
	root := newScratchDir("c20w2")
	defer os.RemoveAll(root)
	for _, d := range []string{"one", "two"} {
		os.MkdirAll(filepath.Join(root, d), 0755)
		os.WriteFile(filepath.Join(root, d, "f.txt"), []byte("x"), 0644)
	}
	trace := filepath.Join(root, "trace")
	cfg := fmt.Sprintf(`
tasks:
  t1:
    command:
      - 'echo "RAN one $EventName $EventPath" >> %s'
  t2:
    command:
      - 'echo "RAN two $EventName $EventPath" >> %s'
watchers:
  w1:
    watch: ["%s/one/*.txt"]
    events: [write]
    task: t1
  w2:
    watch: ["%s/two/*.txt"]
    events: [write]
    task: t2
`, trace, trace, root, root)
	os.WriteFile(filepath.Join(root, "tasks.yaml"), []byte(cfg), 0644)
	cs := Case{Tags: []string{"inotify", "two-watchers"}, NonTrivial: true}
	cmd := exec.Command(taskctlBin(), "-c", filepath.Join(root, "tasks.yaml"), "watch", "w1", "w2")
	cmd.Dir = root
	cmd.Env = append([]string{"PATH=" + os.Getenv("PATH"), "HOME=" + root}, covEnv()...)
	cmd.SysProcAttr = &syscall.SysProcAttr{Setpgid: true}
	var stderr strings.Builder
	cmd.Stderr = &stderr
	if err := cmd.Start(); err != nil {
		cs.Fail, cs.Sig = err.Error(), "c20-watch-start"
		return cs
	}
	defer func() {
		syscall.Kill(-cmd.Process.Pid, syscall.SIGKILL)
		cmd.Wait()
	}()
	// both watchers run their task once at start-up
	deadline := time.Now().Add(6 * time.Second)
	for len(readTrace(trace)) < 2 && time.Now().Before(deadline) {
		time.Sleep(50 * time.Millisecond)
	}
	time.Sleep(1200 * time.Millisecond)
	base := len(readTrace(trace))
	var want, replay []string
	for _, d := range []string{"one", "two", "one", "two"} {
		p := filepath.Join(root, d, "f.txt")
		f, _ := os.OpenFile(p, os.O_APPEND|os.O_WRONLY, 0644)
		f.WriteString("more")
		f.Close()
		replay = append(replay, "write:"+d+"/f.txt")
		want = append(want, fmt.Sprintf("RAN %s write %s", d, p))
		time.Sleep(2500 * time.Millisecond)
	}
	got := readTrace(trace)
	if len(got) >= base {
		got = got[base:]
	}
	cs.Replay = "taskctl watch w1 w2 (w1: one/*.txt -> t1, w2: two/*.txt -> t2); operations: " + strings.Join(replay, ", ")
	cs.Impl = strings.Join(got, " | ")
	gs := append([]string{}, got...)
	ws := append([]string{}, want...)
	sort.Strings(gs)
	sort.Strings(ws)
	switch {
	case strings.Contains(stderr.String(), "panic:"):
		cs.Fail, cs.Sig = "watcher crashed: "+firstPanicLine(stderr.String()), "c20-panic"
	case strings.Join(gs, "|") != strings.Join(ws, "|"):
		cs.Fail, cs.Sig = fmt.Sprintf("task runs %v, the operations on the two watchers' paths were %v", got, want), "c20-two-watchers"
	}
	return cs
}

// two events in quick succession while the task's execution context is slow to get ready (its before hook sleeps):
// the two task runs overlap, and each must still describe ITS event
func watchSlowContextCase() Case {
	root := newScratchDir("c20w3")
	defer os.RemoveAll(root)
	os.MkdirAll(filepath.Join(root, "d"), 0755)
	for _, f := range []string{"a.txt", "b.txt"} {
		os.WriteFile(filepath.Join(root, "d", f), []byte("x"), 0644)
	}
	trace := filepath.Join(root, "trace")
	cfg := fmt.Sprintf(`
contexts:
  slow:
    before: ["sleep 1.6"]
tasks:
  onchange:
    context: slow
    command:
      - 'echo "RAN $EventName $EventPath" >> %s'
watchers:
  w:
    watch: ["%s/d/*.txt"]
    events: [chmod]
    task: onchange
`, trace, root)
	os.WriteFile(filepath.Join(root, "tasks.yaml"), []byte(cfg), 0644)
	cs := Case{Tags: []string{"inotify", "overlapping-event-runs"}, NonTrivial: true}
	cmd := exec.Command(taskctlBin(), "-c", filepath.Join(root, "tasks.yaml"), "watch", "w")
	cmd.Dir = root
	cmd.Env = append([]string{"PATH=" + os.Getenv("PATH"), "HOME=" + root}, covEnv()...)
	cmd.SysProcAttr = &syscall.SysProcAttr{Setpgid: true}
	var stderr strings.Builder
	cmd.Stderr = &stderr
	if err := cmd.Start(); err != nil {
		cs.Fail, cs.Sig = err.Error(), "c20-watch-start"
		return cs
	}
	defer func() {
		syscall.Kill(-cmd.Process.Pid, syscall.SIGKILL)
		cmd.Wait()
	}()
	// the start-up run
	deadline := time.Now().Add(8 * time.Second)
	for len(readTrace(trace)) < 1 && time.Now().Before(deadline) {
		time.Sleep(50 * time.Millisecond)
	}
	time.Sleep(1200 * time.Millisecond)
	base := len(readTrace(trace))
	var want []string
	for i, f := range []string{"a.txt", "b.txt"} {
		p := filepath.Join(root, "d", f)
		os.Chmod(p, 0600+os.FileMode(i)*0040)
		want = append(want, fmt.Sprintf("RAN chmod %s", p))
		time.Sleep(1100 * time.Millisecond) // the next event is handled while the previous run is still in its context's before hook
	}
	time.Sleep(4 * time.Second)
	got := readTrace(trace)
	if len(got) >= base {
		got = got[base:]
	}
	cs.Replay = "watch d/*.txt (chmod), task in a context whose before hook sleeps 1.6s; chmod a.txt, 1.1s later chmod b.txt"
	cs.Impl = strings.Join(got, " | ")
	gs := append([]string{}, got...)
	ws := append([]string{}, want...)
	sort.Strings(gs)
	sort.Strings(ws)
	switch {
	case strings.Contains(stderr.String(), "panic:"):
		cs.Fail, cs.Sig = "watcher crashed: "+firstPanicLine(stderr.String()), "c20-panic"
	case strings.Join(gs, "|") != strings.Join(ws, "|"):
		cs.Fail, cs.Sig = fmt.Sprintf("task runs %v, the events were %v (EventName / EventPath must describe the event that caused the run)", got, want), "c20-event-description"
	}
	return cs
}

// a long history of events whose type is NOT subscribed (twelve chmod, the watcher listens to write only), then
// subscribed ones: none of the former runs the task, each of the latter does - "for as long as it runs"
func watchManyUnsubscribedCase() Case {
	root := newScratchDir("c20m")
	defer os.RemoveAll(root)
	os.MkdirAll(filepath.Join(root, "src"), 0755)
	file := filepath.Join(root, "src", "a.go")
	os.WriteFile(file, []byte("x"), 0644)
	file2 := filepath.Join(root, "src", "b.go")
	os.WriteFile(file2, []byte("x"), 0644)
	trace := filepath.Join(root, "trace")
	cfg := fmt.Sprintf("tasks:\n  onchange:\n    command:\n      - 'echo \"RAN $EventName $EventPath\" >> %s'\nwatchers:\n  w:\n    watch: [\"%s/src/*.go\"]\n    events: [write]\n    task: onchange\n", trace, root)
	os.WriteFile(filepath.Join(root, "tasks.yaml"), []byte(cfg), 0644)
	cs := Case{Tags: []string{"inotify", "unsubscribed-history"}, NonTrivial: true, Replay: "watch src/*.go, events write; operations: 6 x (chmod:watched, chmod:watched2), write:watched, write:watched"}
	cmd := exec.Command(taskctlBin(), "-c", filepath.Join(root, "tasks.yaml"), "watch", "w")
	cmd.Dir = root
	cmd.Env = append([]string{"PATH=" + os.Getenv("PATH"), "HOME=" + root}, covEnv()...)
	cmd.SysProcAttr = &syscall.SysProcAttr{Setpgid: true}
	var stderr strings.Builder
	cmd.Stderr = &stderr
	if err := cmd.Start(); err != nil {
		cs.Fail, cs.Sig = err.Error(), "c20-watch-start"
		return cs
	}
	defer func() {
		syscall.Kill(-cmd.Process.Pid, syscall.SIGKILL)
		cmd.Wait()
	}()
	count := func() int {
		n := 0
		for _, l := range readTrace(trace) {
			if strings.Contains(l, "RAN write") {
				n++
			}
		}
		return n
	}
	waitFor := func(n int, d time.Duration) bool {
		deadline := time.Now().Add(d)
		for count() < n {
			if time.Now().After(deadline) {
				return false
			}
			time.Sleep(100 * time.Millisecond)
		}
		return true
	}
	// the start-up run carries no event name; wait until the trace file exists, then let the loop settle
	for i := 0; i < 100; i++ {
		if _, err := os.Stat(trace); err == nil {
			break
		}
		time.Sleep(50 * time.Millisecond)
	}
	time.Sleep(1200 * time.Millisecond)
	// alternately on two files: the kernel merges an event into the previous one of the queue when they are identical
	for i := 0; i < 12; i++ {
		os.Chmod([]string{file, file2}[i%2], 0600+os.FileMode(i/2%2)*0040)
		time.Sleep(150 * time.Millisecond)
	}
	// the serve loop takes one event a second
	time.Sleep(13 * time.Second)
	before := count()
	write := func() {
		f, _ := os.OpenFile(file, os.O_APPEND|os.O_WRONLY, 0644)
		f.WriteString("more")
		f.Close()
	}
	write()
	first := waitFor(before+1, 8*time.Second)
	write()
	second := waitFor(before+2, 8*time.Second)
	cs.Impl = fmt.Sprintf("runs-for-chmod=%d first-write-ran=%v second-write-ran=%v", before, first, second)
	switch {
	case strings.Contains(stderr.String(), "panic:"):
		cs.Fail, cs.Sig = "watcher crashed: "+firstPanicLine(stderr.String()), "c20-panic"
	case before != 0:
		cs.Fail, cs.Sig = fmt.Sprintf("%d task runs for chmod events, which are not subscribed", before), "c20-serve"
	case !first || !second:
		cs.Fail, cs.Sig = fmt.Sprintf("after twelve events of a type that is not subscribed, write events on the observed file ran the task: first %v, second %v", first, second), "c20-stops-serving"
	}
	return cs
}

// several watchers with tasks of their own on ONE runner, each handed an event at the same instant, round after round (and
// one watcher handed several events at once): every task run describes ITS event - name, path and the task's own name
func eventBindingStressCase(col *Collector, k, rounds int, oneWatcher bool) {
	dir := newScratchDir("c20s")
	defer os.RemoveAll(dir)
	cs := Case{Tags: []string{"event-binding-stress"}, NonTrivial: true, Replay: fmt.Sprintf("%d events handled at the same instant on one runner (one watcher for all: %v), %d rounds; every run prints TASK_NAME, EventName and EventPath", k, oneWatcher, rounds)}
	r, err := runner.NewTaskRunner()
	if err != nil {
		cs.Fail, cs.Sig = err.Error(), "c20-newwatcher"
		col.Add(cs)
		return
	}
	r.Stdout, r.Stderr = devNull{}, devNull{}
	var ws []*verifhooks.Watcher
	outs := make([]string, k)
	for i := 0; i < k; i++ {
		outs[i] = filepath.Join(dir, fmt.Sprintf("out-%d", i))
		if oneWatcher && i > 0 {
			ws = append(ws, ws[0])
			continue
		}
		out := outs[i]
		if oneWatcher {
			out = filepath.Join(dir, "out-$(basename $EventPath)")
		}
		t := task.FromCommands(fmt.Sprintf("echo \"$TASK_NAME $EventName $EventPath {{ .EVENT_NAME }} {{ .EVENT_PATH }}\" >> %s", out))
		t.Name = fmt.Sprintf("task%d", i)
		w, err := verifhooks.NewWatcher(fmt.Sprintf("w%d", i), nil, nil, nil, t)
		if err != nil {
			cs.Fail, cs.Sig = err.Error(), "c20-newwatcher"
			col.Add(cs)
			return
		}
		go w.Close()
		ws = append(ws, w)
	}
	bad := ""
	for round := 0; round < rounds && bad == ""; round++ {
		start := make(chan struct{})
		var wg sync.WaitGroup
		type evt struct {
			op   int
			path string
		}
		evs := make([]evt, k)
		for i := 0; i < k; i++ {
			evs[i] = evt{(round + i) % len(allOps), fmt.Sprintf("/watched/r%d/%d", round, i)}
			if oneWatcher {
				evs[i].path = fmt.Sprintf("/watched/r%d/%d", round, i)
			}
			wg.Add(1)
			go func(i int) {
				defer wg.Done()
				defer func() {
					if p := recover(); p != nil {
						bad = fmt.Sprint("handler panicked: ", p)
					}
				}()
				<-start
				ws[i].VerifHandle(r, fsnotify.Event{Name: evs[i].path, Op: allOps[evs[i].op]})
			}(i)
		}
		close(start)
		done := make(chan struct{})
		go func() { wg.Wait(); close(done) }()
		select {
		case <-done:
		case <-time.After(20 * time.Second):
			bad = "the event handlers did not return within 20s"
			continue
		}
		for i := 0; i < k && bad == ""; i++ {
			name := fmt.Sprintf("task%d", i)
			file := outs[i]
			if oneWatcher {
				name, file = "task0", filepath.Join(dir, fmt.Sprintf("out-%d", i))
			}
			lines := readTrace(file)
			want := fmt.Sprintf("%s %s %s %s %s", name, allEvents[evs[i].op], evs[i].path, allEvents[evs[i].op], evs[i].path)
			if len(lines) != round+1 || lines[round] != want {
				got := "(nothing)"
				if len(lines) > 0 {
					got = lines[len(lines)-1]
				}
				bad = fmt.Sprintf("round %d: the run for event %s on %s (task %s) printed %q (%d lines so far), expected %q", round, allEvents[evs[i].op], evs[i].path, name, got, len(lines), want)
			}
		}
	}
	cs.Impl = "bound=" + fmt.Sprint(bad == "")
	if bad != "" {
		cs.Fail, cs.Sig = bad, "c20-event-binding"
	}
	col.Add(cs)
}
