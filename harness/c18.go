package main

import (
	"fmt"
	"math/rand"
	"os"
	"path/filepath"
	"strings"
	"time"

	"github.com/taskctl/taskctl/pkg/verifhooks"
)

func init() { props["C18"] = runC18 }

// a generated configuration of tasks, pipelines (stages referring to tasks or pipelines, depends_on
// inside the pipeline) and watchers; `mut` breaks exactly one reference
type refStage struct {
	name     string
	task     string // "" if pipeline
	pipeline string
	deps     []string
	unnamed  bool // no `name:` in the file: the stage is named after its task / pipeline (then name == that)
	bare     bool // neither `task:` nor `pipeline:` is written (task and pipeline are both "")
}

type refCfg struct {
	tasks     []string
	pipelines map[string][]refStage
	porder    []string
	watchers  map[string]string // watcher -> task
	mut       string
	// labels: tasks carry a `name:` of their own that differs from their key - 1: the key of the NEXT task (labels
	// and keys cross), 2: a free text. References (stage -> task, watcher -> task) go by key, never by label.
	labels int
}

func (c refCfg) label(i int) string {
	switch c.labels {
	case 1:
		return c.tasks[(i+1)%len(c.tasks)]
	case 2:
		return "Label-of-" + c.tasks[i]
	}
	return ""
}

func (c refCfg) yaml() string {
	var b strings.Builder
	b.WriteString("tasks:\n")
	for i, t := range c.tasks {
		fmt.Fprintf(&b, "  %s:\n    command: [\"true\"]\n", t)
		if l := c.label(i); l != "" {
			fmt.Fprintf(&b, "    name: %q\n", l)
		}
	}
	b.WriteString("pipelines:\n")
	for _, p := range c.porder {
		fmt.Fprintf(&b, "  %s:\n", p)
		for _, s := range c.pipelines[p] {
			first := "    - "
			if !s.unnamed {
				fmt.Fprintf(&b, "    - name: %s\n", s.name)
				first = "      "
			}
			switch {
			case s.task != "":
				fmt.Fprintf(&b, "%stask: %q\n", first, s.task)
			case s.pipeline != "":
				fmt.Fprintf(&b, "%spipeline: %s\n", first, s.pipeline)
			case s.bare:
				// a stage that names neither a task nor a pipeline (only possible with a name of its own)
				fmt.Fprintf(&b, "%sallow_failure: false\n", first)
			default:
				fmt.Fprintf(&b, "%spipeline: \"\"\n", first)
			}
			if len(s.deps) > 0 {
				q := make([]string, len(s.deps))
				for i, d := range s.deps {
					q[i] = fmt.Sprintf("%q", d)
				}
				fmt.Fprintf(&b, "      depends_on: [%s]\n", strings.Join(q, ", "))
			}
		}
	}
	if len(c.watchers) > 0 {
		b.WriteString("watchers:\n")
		for w, t := range c.watchers {
			switch t {
			case "~omitted~": // no task key at all
				fmt.Fprintf(&b, "  %s:\n    watch: [\"*.nothing\"]\n", w)
			case "~null~":
				fmt.Fprintf(&b, "  %s:\n    watch: [\"*.nothing\"]\n    task:\n", w)
			default:
				fmt.Fprintf(&b, "  %s:\n    watch: [\"*.nothing\"]\n    task: %q\n", w, t)
			}
		}
	}
	return b.String()
}

// canonical one-line form for the oracle
func (c refCfg) line() string {
	var ps []string
	for _, p := range c.porder {
		var ss []string
		for _, s := range c.pipelines[p] {
			ref := "t:" + s.task
			if s.task == "" {
				ref = "p:" + s.pipeline
			}
			// names are compared for equality only: blanks, tabs and the separators of this line are written as
			// escapes (the encoding is injective on the names generated here)
			esc := strings.NewReplacer(" ", "~s", "\t", "~t", "+", "~p", "/", "~d", ";", "~c", "|", "~b", "=", "~e")
			ed := make([]string, len(s.deps))
			for i, x := range s.deps {
				ed[i] = esc.Replace(x)
			}
			d := strings.Join(ed, "+")
			if d == "" {
				d = "-"
			}
			ss = append(ss, fmt.Sprintf("%s/%s/%s", s.name, ref, d))
		}
		ps = append(ps, p+"="+strings.Join(ss, ";"))
	}
	var ws []string
	for _, t := range c.watchers {
		if t == "" || strings.HasPrefix(t, "~") {
			t = "no-task-named-at-all" // a watcher that names no task refers to no existing task
		}
		ws = append(ws, t)
	}
	w := strings.Join(ws, ",")
	if w == "" {
		w = "-"
	}
	return fmt.Sprintf("refs tasks=%s watch=%s pipes=%s", strings.Join(c.tasks, ","), w, strings.Join(ps, "|"))
}

// forcePipes > 0 fixes the number of pipelines (every run has configurations with exactly one pipeline and with
// four, whatever the seed makes of the others)
var forcePipes int

func genValid(rng *rand.Rand) refCfg {
	c := refCfg{pipelines: map[string][]refStage{}, watchers: map[string]string{}}
	nt := 2 + rng.Intn(3)
	for i := 0; i < nt; i++ {
		c.tasks = append(c.tasks, fmt.Sprintf("t%d", i))
	}
	np := 1 + rng.Intn(4)
	if forcePipes > 0 {
		np = forcePipes
	}
	for i := 0; i < np; i++ {
		c.porder = append(c.porder, fmt.Sprintf("p%d", i))
	}
	for i, p := range c.porder {
		ns := 1 + rng.Intn(4)
		var stages []refStage
		for k := 0; k < ns; k++ {
			s := refStage{name: fmt.Sprintf("s%d", k)}
			// inclusion only of pipelines with a larger index: acyclic
			if i+1 < np && rng.Intn(3) == 0 {
				s.pipeline = c.porder[i+1+rng.Intn(np-i-1)]
			} else {
				s.task = c.tasks[rng.Intn(nt)]
			}
			for d := 0; d < k; d++ {
				if rng.Intn(3) == 0 {
					s.deps = append(s.deps, fmt.Sprintf("s%d", d))
				}
			}
			stages = append(stages, s)
		}
		// one stage without a name of its own: it is named after its task (if that name is still free)
		if rng.Intn(2) == 0 {
			k := rng.Intn(len(stages))
			def := stages[k].task
			if def == "" {
				def = stages[k].pipeline
			}
			free := true
			for _, o := range stages {
				if o.name == def {
					free = false
				}
			}
			if free {
				old := stages[k].name
				stages[k].name, stages[k].unnamed = def, true
				for i := range stages {
					for j, d := range stages[i].deps {
						if d == old {
							stages[i].deps[j] = def
						}
					}
				}
			}
		}
		// declaration order shuffled: depends_on may name stages declared later
		rng.Shuffle(len(stages), func(a, b int) { stages[a], stages[b] = stages[b], stages[a] })
		c.pipelines[p] = stages
	}
	if rng.Intn(2) == 0 {
		c.watchers["w0"] = c.tasks[rng.Intn(nt)]
	}
	return c
}

func cloneCfg(c refCfg) refCfg {
	n := refCfg{tasks: append([]string{}, c.tasks...), porder: append([]string{}, c.porder...), pipelines: map[string][]refStage{}, watchers: map[string]string{}, mut: c.mut, labels: c.labels}
	for p, ss := range c.pipelines {
		for _, s := range ss {
			s.deps = append([]string{}, s.deps...)
			n.pipelines[p] = append(n.pipelines[p], s)
		}
	}
	for w, t := range c.watchers {
		n.watchers[w] = t
	}
	return n
}

// every single-reference breakage of a valid configuration
func mutations(c refCfg, rng *rand.Rand) []refCfg {
	var out []refCfg
	for _, p := range c.porder {
		for k, s := range c.pipelines[p] {
			if s.task != "" {
				m := cloneCfg(c)
				m.pipelines[p][k].task = "no-such-task"
				m.mut = fmt.Sprintf("stage %s.%s -> unknown task", p, s.name)
				out = append(out, m)
			} else {
				m := cloneCfg(c)
				m.pipelines[p][k].pipeline = "no-such-pipeline"
				m.mut = fmt.Sprintf("stage %s.%s -> unknown pipeline", p, s.name)
				out = append(out, m)
			}
			m := cloneCfg(c)
			m.pipelines[p][k].deps = append(m.pipelines[p][k].deps, "ghost")
			m.mut = fmt.Sprintf("stage %s.%s depends_on unknown stage", p, s.name)
			out = append(out, m)
			// the unknown name at every other position of the list (before names of stages declared earlier and later)
			for pos := 0; pos < len(s.deps); pos++ {
				mp := cloneCfg(c)
				d := append([]string{}, s.deps[:pos]...)
				d = append(append(d, "ghost"), s.deps[pos:]...)
				mp.pipelines[p][k].deps = d
				mp.mut = fmt.Sprintf("stage %s.%s depends_on unknown stage (entry %d of %d)", p, s.name, pos+1, len(d))
				out = append(out, mp)
			}
			// near misses of the name of an existing stage of the same pipeline: none of them is that stage
			if k > 0 || len(c.pipelines[p]) > 1 {
				other := c.pipelines[p][(k+1)%len(c.pipelines[p])].name
				var near []string
				for _, nm := range []string{other + " ", " " + other, other + "\t", strings.ToUpper(other), other + "x", other[:len(other)-1], other + "." + other} {
					if nm != other && nm != "" && nm != s.name {
						taken := false
						for _, st := range c.pipelines[p] {
							taken = taken || st.name == nm
						}
						if !taken {
							near = append(near, nm)
						}
					}
				}
				if len(near) > 0 {
					nm := near[rng.Intn(len(near))]
					mn := cloneCfg(c)
					mn.pipelines[p][k].deps = append(mn.pipelines[p][k].deps, nm)
					mn.mut = fmt.Sprintf("stage %s.%s depends_on unknown stage %q (a near miss of %q)", p, s.name, nm, other)
					out = append(out, mn)
				}
			}
			// a stage name that exists only in ANOTHER pipeline
			m2 := cloneCfg(c)
			m2.pipelines[p][k].deps = append(m2.pipelines[p][k].deps, "elsewhere")
			other := c.porder[(indexOf(c.porder, p)+1)%len(c.porder)]
			m2.pipelines[other] = append(m2.pipelines[other], refStage{name: "elsewhere", task: c.tasks[0]})
			m2.mut = fmt.Sprintf("stage %s.%s depends_on a stage of pipeline %s", p, s.name, other)
			if other != p {
				out = append(out, m2)
			}
			if k > 0 {
				m3 := cloneCfg(c)
				m3.pipelines[p][k].name = m3.pipelines[p][0].name
				m3.pipelines[p][k].unnamed = false
				m3.pipelines[p][k].deps = nil
				// keep other stages' depends_on meaningful: they may still name the old stage; drop those
				for i := range m3.pipelines[p] {
					var keep []string
					for _, d := range m3.pipelines[p][i].deps {
						if d != s.name {
							keep = append(keep, d)
						}
					}
					m3.pipelines[p][i].deps = keep
				}
				m3.mut = fmt.Sprintf("duplicate stage name in %s", p)
				out = append(out, m3)
			}
		}
	}
	for _, p := range c.porder {
		t0 := c.tasks[0]
		m := cloneCfg(c)
		m.pipelines[p] = append(m.pipelines[p], refStage{name: t0, task: t0, unnamed: true}, refStage{name: t0, task: t0, unnamed: true})
		m.mut = fmt.Sprintf("duplicate stage name in %s through two unnamed stages of task %s", p, t0)
		out = append(out, m)
		m2 := cloneCfg(c)
		m2.pipelines[p] = append(m2.pipelines[p], refStage{name: t0, task: c.tasks[len(c.tasks)-1]}, refStage{name: t0, task: t0, unnamed: true})
		m2.mut = fmt.Sprintf("duplicate stage name in %s: explicit name %s then an unnamed stage defaulting to it", p, t0)
		out = append(out, m2)
	}
	// a named stage that refers to nothing at all: an empty reference, or neither key
	for _, p := range c.porder {
		for i, st := range c.pipelines[p] {
			if st.unnamed {
				continue
			}
			for _, bare := range []bool{false, true} {
				m := cloneCfg(c)
				m.pipelines[p][i].task, m.pipelines[p][i].pipeline, m.pipelines[p][i].bare = "", "", bare
				m.mut = fmt.Sprintf("stage %s.%s -> unknown pipeline (empty reference, bare=%v)", p, st.name, bare)
				out = append(out, m)
			}
			break
		}
	}
	for w := range c.watchers {
		m := cloneCfg(c)
		m.watchers[w] = "no-such-task"
		m.mut = "watcher -> unknown task"
		out = append(out, m)
		for _, none := range []string{"", "~omitted~", "~null~"} {
			mn := cloneCfg(c)
			mn.watchers[w] = none
			mn.mut = fmt.Sprintf("watcher -> unknown task (names no task at all: %q)", none)
			out = append(out, mn)
		}
	}
	if c.labels == 2 {
		// a task is referred to by its key: its label is not a name a stage or a watcher can use
		for _, p := range c.porder {
			for k, st := range c.pipelines[p] {
				if st.task != "" && !st.unnamed {
					m := cloneCfg(c)
					m.pipelines[p][k].task = "Label-of-" + st.task
					m.mut = fmt.Sprintf("stage %s.%s -> unknown task (the label of task %s instead of its key)", p, st.name, st.task)
					out = append(out, m)
					break
				}
			}
		}
	}
	// inclusion cycles of length 1..3
	for l := 1; l <= 3 && l <= len(c.porder); l++ {
		m := cloneCfg(c)
		for i := 0; i < l; i++ {
			from, to := c.porder[i], c.porder[(i+1)%l]
			m.pipelines[from] = append(m.pipelines[from], refStage{name: fmt.Sprintf("inc%d", i), pipeline: to})
		}
		m.mut = fmt.Sprintf("pipeline inclusion cycle of length %d", l)
		out = append(out, m)
		// the same cycle behind several entry pipelines that are not on it: wherever the check starts, it must find it
		e := cloneCfg(m)
		for k := 0; k < 8; k++ {
			name := fmt.Sprintf("entry%d", k)
			e.porder = append(e.porder, name)
			e.pipelines[name] = []refStage{{name: "first", task: c.tasks[0]}, {name: "then", pipeline: c.porder[k%l], deps: []string{"first"}}}
		}
		e.mut = fmt.Sprintf("pipeline inclusion cycle of length %d behind 8 entry pipelines", l)
		out = append(out, e)
	}
	return out
}

func indexOf(a []string, s string) int {
	for i, x := range a {
		if x == s {
			return i
		}
	}
	return -1
}

// reference: is the configuration well-formed (the property's own reading)?
func wellFormed(c refCfg) bool {
	tset := map[string]bool{}
	for _, t := range c.tasks {
		tset[t] = true
	}
	for _, p := range c.porder {
		names := map[string]bool{}
		for _, s := range c.pipelines[p] {
			if names[s.name] {
				return false
			}
			names[s.name] = true
			if s.task != "" && !tset[s.task] {
				return false
			}
			if s.task == "" {
				if _, ok := c.pipelines[s.pipeline]; !ok {
					return false
				}
			}
		}
		for _, s := range c.pipelines[p] {
			for _, d := range s.deps {
				if !names[d] {
					return false
				}
			}
		}
	}
	for _, t := range c.watchers {
		if !tset[t] {
			return false
		}
	}
	// inclusion acyclic
	state := map[string]int{}
	var visit func(p string) bool
	visit = func(p string) bool {
		if state[p] == 1 {
			return false
		}
		if state[p] == 2 {
			return true
		}
		state[p] = 1
		for _, s := range c.pipelines[p] {
			if s.task == "" && !visit(s.pipeline) {
				return false
			}
		}
		state[p] = 2
		return true
	}
	for _, p := range c.porder {
		if !visit(p) {
			return false
		}
	}
	return true
}

func refCase(col *Collector, c refCfg, tag string) {
	dir := newScratchDir("c18")
	defer os.RemoveAll(dir)
	cfgPath := filepath.Join(dir, "tasks.yaml")
	os.WriteFile(cfgPath, []byte(c.yaml()), 0644)
	res := runTaskctl(dir, nil, 10*time.Second, "-c", cfgPath, "list")
	wf := wellFormed(c)
	cs := Case{Line: c.line(), Tags: []string{tag}, NonTrivial: true}
	cs.Replay = fmt.Sprintf("%s  [%s]  config: %s", c.line(), c.mut, strings.ReplaceAll(c.yaml(), "\n", "\\n"))
	accepted := res.exit == 0
	cs.Impl = map[bool]string{true: "accept", false: "reject"}[accepted]
	switch {
	case res.panicked || res.timedOut || (res.exit != 0 && res.exit != 1):
		cs.Fail, cs.Sig = fmt.Sprintf("loading crashed or hung: exit=%d timeout=%v %s", res.exit, res.timedOut, lastLines(res.stderr, 2)), "c18-load-crash"
	case accepted && !wf:
		sig := "c18-accepted-dangling"
		switch {
		case strings.Contains(c.mut, "depends_on"):
			sig = "c18-accepted-dangling-depends-on"
		case strings.Contains(c.mut, "inclusion cycle"):
			sig = "c18-accepted-inclusion-cycle"
		}
		cs.Fail, cs.Sig = fmt.Sprintf("configuration with a broken reference was accepted (%s)", c.mut), sig
		// consequence: what happens when the pipelines run / are drawn
		for _, p := range c.porder {
			r := runTaskctl(dir, nil, 5*time.Second, "-c", cfgPath, "--output", "raw", p)
			if r.timedOut || r.panicked || strings.Contains(r.stderr, "level=fatal msg=\"unknown task") {
				cs.Fail += fmt.Sprintf("; running %s: timeout=%v %s", p, r.timedOut, lastLines(r.stderr, 1))
				break
			}
		}
	case !accepted && wf:
		cs.Fail, cs.Sig = "well-formed configuration rejected: "+lastLines(res.stderr, 1), "c18-rejected-valid"
	case accepted:
		// running and drawing every pipeline of an accepted configuration never aborts or hangs
		for _, p := range c.porder {
			r := runTaskctl(dir, nil, 8*time.Second, "-c", cfgPath, "--output", "raw", p)
			if r.timedOut || r.panicked || r.exit != 0 {
				cs.Fail, cs.Sig = fmt.Sprintf("running pipeline %s of an accepted configuration: exit=%d timeout=%v %s", p, r.exit, r.timedOut, lastLines(r.stderr, 1)), "c18-run-aborted"
				break
			}
			gr := runTaskctl(dir, nil, 8*time.Second, "-c", cfgPath, "graph", p)
			if gr.timedOut || gr.panicked || gr.exit != 0 {
				cs.Fail, cs.Sig = fmt.Sprintf("graph %s: exit=%d timeout=%v", p, gr.exit, gr.timedOut), "c18-graph-aborted"
				break
			}
		}
	}
	col.Add(cs)
}

func runC18(col *Collector, tier string, seed int64) {
	loaderReuseCases(col, "C18", []string{"yaml"}, []string{"dangling", "missing"})
	rng := rand.New(rand.NewSource(seed))
	col.res.Rule = "the real taskctl binary on generated configurations (2-4 tasks, 2-4 pipelines with stages referring to tasks or pipelines, depends_on inside the pipeline in shuffled declaration order, a watcher): " +
		"the valid configuration, and the same with exactly one reference broken at every position (stage->task, stage->pipeline, depends_on->unknown stage, depends_on->stage of another pipeline, watcher->task, duplicate stage name, inclusion cycle of length 1..3); " +
		"accepted configurations: every pipeline is run and drawn. non-trivial = all; distinct = distinct configurations"
	nbase := 4
	if tier == "thorough" {
		nbase = 40
	}
	var cases []refCfg
	var tags []string
	// a pipeline reached twice in one walk of the inclusion structure is not a cycle: included by two stages of one
	// pipeline, and shared by two pipelines that a third includes (each with task stages around the inclusions)
	for v := 0; v < 4; v++ {
		c := refCfg{tasks: []string{"t0", "t1"}, pipelines: map[string][]refStage{}, watchers: map[string]string{}}
		c.porder = []string{"top", "left", "right", "shared"}
		c.pipelines["shared"] = []refStage{{name: "a", task: "t0"}, {name: "b", task: "t1", deps: []string{"a"}}}
		c.pipelines["left"] = []refStage{{name: "pre", task: "t0"}, {name: "inc", pipeline: "shared", deps: []string{"pre"}}}
		c.pipelines["right"] = []refStage{{name: "inc", pipeline: "shared"}, {name: "post", task: "t1", deps: []string{"inc"}}}
		switch v {
		case 0:
			c.pipelines["top"] = []refStage{{name: "l", pipeline: "left"}, {name: "r", pipeline: "right"}}
		case 1:
			c.pipelines["top"] = []refStage{{name: "first", pipeline: "shared"}, {name: "mid", task: "t0", deps: []string{"first"}}, {name: "again", pipeline: "shared", deps: []string{"mid"}}}
		case 2:
			c.pipelines["top"] = []refStage{{name: "l", pipeline: "left"}, {name: "r", pipeline: "right", deps: []string{"l"}}, {name: "s", pipeline: "shared", deps: []string{"r"}}}
		case 3:
			c.porder = []string{"shared", "right", "left", "top"}
			c.pipelines["top"] = []refStage{{name: "r", pipeline: "right"}, {name: "l", pipeline: "left"}, {name: "t", task: "t1", deps: []string{"l", "r"}}}
		}
		for rep := 0; rep < 3; rep++ {
			cases = append(cases, c)
			tags = append(tags, "valid-shared-inclusion")
		}
	}
	// an unknown name next to names of stages declared LATER than the one that depends on them, at every position
	for v := 0; v < 6; v++ {
		c := refCfg{tasks: []string{"t0", "t1"}, pipelines: map[string][]refStage{}, watchers: map[string]string{}, porder: []string{"p"}}
		deps := [][]string{{"ghost", "late"}, {"late", "ghost"}, {"ghost", "late", "later"}, {"late", "ghost", "later"}, {"late", "later", "ghost"}, {"ghost", "ghost", "late"}}[v]
		c.pipelines["p"] = []refStage{{name: "early", task: "t0", deps: deps}, {name: "late", task: "t1"}, {name: "later", task: "t0", deps: []string{"late"}}}
		c.mut = fmt.Sprintf("stage p.early depends_on unknown stage among forward references %v", deps)
		cases = append(cases, c)
		tags = append(tags, "broken:p.early")
	}
	// a watcher that names no task at all (empty, null, key left out), and the sound one next to them
	for _, wt := range []string{"t1", "", "~omitted~", "~null~", "no-such-task"} {
		c := refCfg{tasks: []string{"t0", "t1"}, pipelines: map[string][]refStage{"p": {{name: "a", task: "t0"}}}, watchers: map[string]string{"w": wt}, porder: []string{"p"}}
		c.mut = fmt.Sprintf("watcher naming the task %q", wt)
		cases = append(cases, c)
		tags = append(tags, map[bool]string{true: "valid", false: "broken:watcher"}[wt == "t1"])
	}
	for i := 0; i < nbase; i++ {
		forcePipes = map[int]int{0: 1, 1: 4, 2: 2}[i] // the first three: one pipeline, four, two; then as drawn
		c := genValid(rng)
		forcePipes = 0
		c.labels = i % 3 // every third configuration: plain / crossing labels / free-text labels
		cases = append(cases, c)
		tags = append(tags, "valid")
		for _, m := range mutations(c, rng) {
			cases = append(cases, m)
			tags = append(tags, "broken:"+strings.Fields(strings.Replace(m.mut, "stage ", "", 1))[0])
		}
	}
	parallel(len(cases), 16, func(i int) { refCase(col, cases[i], tags[i]) })
	for v := 0; v < 8; v++ {
		secondFileCase(col, v)
	}
}

// a file is judged on the definitions reachable from IT: `taskctl validate other.yaml` (and `-c other.yaml list`) run
// in a project whose own tasks.yaml defines the very names other.yaml refers to but does not define. Variants 0-2:
// stage -> task, stage -> pipeline, watcher -> task; 3: other.yaml is sound; 4-7: the same through one Config that a
// first Loader has already filled from the project file.
func secondFileCase(col *Collector, variant int) {
	dir := newScratchDir("c18s")
	defer os.RemoveAll(dir)
	project := "tasks:\n  build:\n    command: [\"true\"]\n  test:\n    command: [\"true\"]\npipelines:\n  ci:\n    - task: build\n    - task: test\n      depends_on: [build]\n"
	oc := refCfg{tasks: []string{"pack"}, pipelines: map[string][]refStage{}, watchers: map[string]string{}, porder: []string{"release"}}
	switch variant % 4 {
	case 0:
		oc.pipelines["release"] = []refStage{{name: "pack", task: "pack"}, {name: "build", task: "build", deps: []string{"pack"}}}
	case 1:
		oc.pipelines["release"] = []refStage{{name: "pack", task: "pack"}, {name: "ci", pipeline: "ci", deps: []string{"pack"}}}
	case 2:
		oc.pipelines["release"] = []refStage{{name: "pack", task: "pack"}}
		oc.watchers["w"] = "build"
	case 3:
		oc.pipelines["release"] = []refStage{{name: "pack", task: "pack"}}
	}
	other := oc.yaml()
	sound := wellFormed(oc)
	os.WriteFile(filepath.Join(dir, "tasks.yaml"), []byte(project), 0644)
	otherPath := filepath.Join(dir, "other.yaml")
	os.WriteFile(otherPath, []byte(other), 0644)
	cs := Case{Tags: []string{"second-file"}, NonTrivial: true}
	cs.Line = oc.line()
	accepted := false
	if variant < 4 {
		cs.Replay = fmt.Sprintf("in a project whose tasks.yaml is %s: `taskctl validate other.yaml` with other.yaml = %s", strings.ReplaceAll(project, "\n", "\\n"), strings.ReplaceAll(other, "\n", "\\n"))
		r := runTaskctl(dir, nil, 10*time.Second, "validate", otherPath)
		accepted = r.exit == 0 && strings.Contains(r.stdout, "file is valid")
		if r.panicked || r.timedOut {
			cs.Fail, cs.Sig = fmt.Sprintf("validate crashed or hung: exit=%d timeout=%v %s", r.exit, r.timedOut, lastLines(r.stderr, 2)), "c18-load-crash"
		}
	} else {
		cs.Replay = fmt.Sprintf("one Config: a first Loader loads %s, a second Loader on the same Config loads %s", strings.ReplaceAll(project, "\n", "\\n"), strings.ReplaceAll(other, "\n", "\\n"))
		func() {
			defer func() {
				if p := recover(); p != nil {
					cs.Fail, cs.Sig = fmt.Sprint("loader panicked: ", p), "c18-load-crash"
				}
			}()
			cfg := verifhooks.NewConfig()
			l1 := verifhooks.NewConfigLoader(cfg)
			l1.VerifSetDirs(dir, filepath.Join(dir, "nohome"))
			if _, err := l1.Load(filepath.Join(dir, "tasks.yaml")); err != nil {
				cs.Fail, cs.Sig = "the project file does not load: "+err.Error(), "c18-rejected-valid"
				return
			}
			l2 := verifhooks.NewConfigLoader(cfg)
			l2.VerifSetDirs(dir, filepath.Join(dir, "nohome"))
			_, err := l2.Load(otherPath)
			accepted = err == nil
		}()
	}
	cs.Impl = map[bool]string{true: "accept", false: "reject"}[accepted]
	switch {
	case cs.Fail != "":
	case accepted && !sound:
		cs.Fail, cs.Sig = "other.yaml refers to a name that no file reachable from it defines (the project's own file does) and was accepted", "c18-accepted-dangling"
	case !accepted && sound:
		cs.Fail, cs.Sig = "a sound second file was rejected", "c18-rejected-valid"
	}
	col.Add(cs)
}
