package main

import (
	"fmt"
	"os"
	"strings"
	"time"

	"github.com/taskctl/taskctl/pkg/runner"
	"github.com/taskctl/taskctl/pkg/scheduler"
	"github.com/taskctl/taskctl/pkg/task"
	"github.com/taskctl/taskctl/pkg/variables"
)

// Variables whose VALUE is a template over other variables (a configuration-level `Greeting: "hello-{{ .Who }}"`, a
// task-level `Label: '{{ index . "deploy.target" }}'`): the value an execution sees is derived from the variables of
// THAT execution - stage over task over configuration - whatever other stages, other tasks and direct runs of the same
// runner derived before it. Two tasks (one defines Who itself, the other leaves it to the configuration level), five
// stages in a chain (some override Who and/or deploy.target), and a direct run of both tasks, in several orders.
func derivedVarsCases(col *Collector, sig string) {
	type stg struct {
		t    int // which task
		vars map[string]string
	}
	glob := map[string]string{"Who": "g", "deploy.target": "gt",
		"GreetG": "hello-{{ .Who }}", "IdxG": `{{ index . "Who" }}/{{ index . "deploy.target" }}`}
	derivedT := map[string]string{"GreetT": "task-{{ .Who }}", "IdxT": `{{ index . "deploy.target" }}-{{ with $w := index . "Who" }}{{ $w }}{{ end }}`}
	tvars := []map[string]string{{"Who": "t0"}, {}}
	stages := []stg{{0, nil}, {0, map[string]string{"Who": "s1", "deploy.target": "st1"}}, {1, map[string]string{"Who": "s2"}}, {1, nil}, {0, map[string]string{"deploy.target": "st4"}}}
	for variant := 0; variant < 4; variant++ {
		trace := newTracePath()
		cs := Case{Tags: []string{"derived-variables"}, NonTrivial: true}
		order := []int{0, 1, 2, 3, 4}
		if variant >= 2 {
			order = []int{4, 3, 2, 1, 0}
		}
		directFirst := variant%2 == 1
		cs.Replay = fmt.Sprintf("configuration variables %s; tasks t0 (variables %s) and t1 (none of its own), both with %s; stages in a chain, in order %v: %v; direct runs of t0 and t1 %s",
			kvs(glob), kvs(tvars[0]), kvs(derivedT), order, stages, map[bool]string{false: "after the pipeline", true: "before and after the pipeline"}[directFirst])
		cmd := fmt.Sprintf(`echo "who=${WHO:-direct} GreetG={{ .GreetG }} IdxG={{ .IdxG }} GreetT={{ .GreetT }} IdxT={{ .IdxT }}" >> %s`, trace)
		var tasks []*task.Task
		for i, tv := range tvars {
			t := task.NewTask()
			t.Name = fmt.Sprintf("t%d", i)
			t.Commands = []string{cmd}
			m := map[string]string{}
			for k, v := range derivedT {
				m[k] = v
			}
			for k, v := range tv {
				m[k] = v
			}
			t.Variables = variables.FromMap(m)
			t.Env = variables.FromMap(map[string]string{"WHO": fmt.Sprintf("direct-t%d", i)})
			tasks = append(tasks, t)
		}
		expect := func(who string, ti int, sv map[string]string) string {
			get := func(k string) string {
				if v, ok := sv[k]; ok {
					return v
				}
				if v, ok := tvars[ti][k]; ok {
					return v
				}
				return glob[k]
			}
			return fmt.Sprintf("who=%s GreetG=hello-%s IdxG=%s/%s GreetT=task-%s IdxT=%s-%s", who, get("Who"), get("Who"), get("deploy.target"), get("Who"), get("deploy.target"), get("Who"))
		}
		var sts []*scheduler.Stage
		var want []string
		if directFirst {
			want = append(want, expect("direct-t0", 0, nil), expect("direct-t1", 1, nil))
		}
		for k, i := range order {
			st := &scheduler.Stage{Name: fmt.Sprintf("s%d", i), Task: tasks[stages[i].t], Env: variables.FromMap(map[string]string{"WHO": fmt.Sprintf("s%d", i)})}
			if stages[i].vars != nil {
				st.Variables = variables.FromMap(stages[i].vars)
			}
			if k > 0 {
				st.DependsOn = []string{fmt.Sprintf("s%d", order[k-1])}
			}
			sts = append(sts, st)
			want = append(want, expect(st.Name, stages[i].t, stages[i].vars))
		}
		want = append(want, expect("direct-t0", 0, nil), expect("direct-t1", 1, nil))
		func() {
			defer func() {
				if p := recover(); p != nil {
					cs.Fail, cs.Sig = fmt.Sprint("panic: ", p), sig
				}
			}()
			g, err := scheduler.NewExecutionGraph(sts...)
			if err != nil {
				cs.Fail, cs.Sig = "graph rejected: "+err.Error(), "sched-setup"
				return
			}
			r, err := runner.NewTaskRunner(runner.WithVariables(variables.FromMap(glob)))
			if err != nil {
				cs.Fail, cs.Sig = err.Error(), "sched-setup"
				return
			}
			r.Stdout, r.Stderr = devNull{}, devNull{}
			if directFirst {
				r.Run(tasks[0])
				r.Run(tasks[1])
			}
			sd := scheduler.NewScheduler(r)
			sd.VerifSetPause(time.Millisecond)
			done := make(chan error, 1)
			go func() { done <- sd.Schedule(g) }()
			select {
			case <-done:
			case <-time.After(15 * time.Second):
				cs.Fail, cs.Sig = "pipeline did not finish within 15s", sig
				return
			}
			r.Run(tasks[0])
			r.Run(tasks[1])
			got := readTrace(trace)
			cs.Impl = strings.Join(got, " | ")
			if strings.Join(got, "\n") != strings.Join(want, "\n") {
				cs.Fail, cs.Sig = fmt.Sprintf("the executions saw\n  %s\nthe variables of each execution determine\n  %s", strings.Join(got, "\n  "), strings.Join(want, "\n  ")), sig
			}
		}()
		os.Remove(trace)
		col.Add(cs)
	}
}
