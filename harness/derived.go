package main

import (
	"fmt"
	"math/rand"
	"os"
	"regexp"
	"sort"
	"strings"
	"time"

	"github.com/taskctl/taskctl/pkg/runner"
	"github.com/taskctl/taskctl/pkg/scheduler"
	"github.com/taskctl/taskctl/pkg/task"
	"github.com/taskctl/taskctl/pkg/variables"
)

// Variables whose VALUE is a template over other variables (a configuration-level `Greeting: "hello-{{ .Who }}"`, a
// task-level `Label: '{{ index . "deploy.target" }}'`): the value an execution sees is derived from the variables of
// THAT execution - stage over task over configuration - whatever other stages, other tasks and direct runs of the same
// runner derived before it. Two tasks (one defines Who itself, the other leaves it to the configuration level), five
// stages in a chain (some override Who and/or deploy.target), and a direct run of both tasks, in several orders.
func derivedVarsCases(col *Collector, sig string) {
	type stg struct {
		t    int // which task
		vars map[string]string
	}
	glob := map[string]string{"Who": "g", "deploy.target": "gt",
		"GreetG": "hello-{{ .Who }}", "IdxG": `{{ index . "Who" }}/{{ index . "deploy.target" }}`}
	derivedT := map[string]string{"GreetT": "task-{{ .Who }}", "IdxT": `{{ index . "deploy.target" }}-{{ with $w := index . "Who" }}{{ $w }}{{ end }}`}
	tvars := []map[string]string{{"Who": "t0"}, {}}
	stages := []stg{{0, nil}, {0, map[string]string{"Who": "s1", "deploy.target": "st1"}}, {1, map[string]string{"Who": "s2"}}, {1, nil}, {0, map[string]string{"deploy.target": "st4"}}}
	for variant := 0; variant < 4; variant++ {
		trace := newTracePath()
		cs := Case{Tags: []string{"derived-variables"}, NonTrivial: true}
		order := []int{0, 1, 2, 3, 4}
		if variant >= 2 {
			order = []int{4, 3, 2, 1, 0}
		}
		directFirst := variant%2 == 1
		cs.Replay = fmt.Sprintf("configuration variables %s; tasks t0 (variables %s) and t1 (none of its own), both with %s; stages in a chain, in order %v: %v; direct runs of t0 and t1 %s",
			kvs(glob), kvs(tvars[0]), kvs(derivedT), order, stages, map[bool]string{false: "after the pipeline", true: "before and after the pipeline"}[directFirst])
		cmd := fmt.Sprintf(`echo "who=${WHO:-direct} GreetG={{ .GreetG }} IdxG={{ .IdxG }} GreetT={{ .GreetT }} IdxT={{ .IdxT }}" >> %s`, trace)
		var tasks []*task.Task
		for i, tv := range tvars {
			t := task.NewTask()
			t.Name = fmt.Sprintf("t%d", i)
			t.Commands = []string{cmd}
			m := map[string]string{}
			for k, v := range derivedT {
				m[k] = v
			}
			for k, v := range tv {
				m[k] = v
			}
			t.Variables = variables.FromMap(m)
			t.Env = variables.FromMap(map[string]string{"WHO": fmt.Sprintf("direct-t%d", i)})
			tasks = append(tasks, t)
		}
		expect := func(who string, ti int, sv map[string]string) string {
			get := func(k string) string {
				if v, ok := sv[k]; ok {
					return v
				}
				if v, ok := tvars[ti][k]; ok {
					return v
				}
				return glob[k]
			}
			return fmt.Sprintf("who=%s GreetG=hello-%s IdxG=%s/%s GreetT=task-%s IdxT=%s-%s", who, get("Who"), get("Who"), get("deploy.target"), get("Who"), get("deploy.target"), get("Who"))
		}
		var sts []*scheduler.Stage
		var want []string
		if directFirst {
			want = append(want, expect("direct-t0", 0, nil), expect("direct-t1", 1, nil))
		}
		for k, i := range order {
			st := &scheduler.Stage{Name: fmt.Sprintf("s%d", i), Task: tasks[stages[i].t], Env: variables.FromMap(map[string]string{"WHO": fmt.Sprintf("s%d", i)})}
			if stages[i].vars != nil {
				st.Variables = variables.FromMap(stages[i].vars)
			}
			if k > 0 {
				st.DependsOn = []string{fmt.Sprintf("s%d", order[k-1])}
			}
			sts = append(sts, st)
			want = append(want, expect(st.Name, stages[i].t, stages[i].vars))
		}
		want = append(want, expect("direct-t0", 0, nil), expect("direct-t1", 1, nil))
		func() {
			defer func() {
				if p := recover(); p != nil {
					cs.Fail, cs.Sig = fmt.Sprint("panic: ", p), sig
				}
			}()
			g, err := scheduler.NewExecutionGraph(sts...)
			if err != nil {
				cs.Fail, cs.Sig = "graph rejected: "+err.Error(), "sched-setup"
				return
			}
			r, err := runner.NewTaskRunner(runner.WithVariables(variables.FromMap(glob)))
			if err != nil {
				cs.Fail, cs.Sig = err.Error(), "sched-setup"
				return
			}
			r.Stdout, r.Stderr = devNull{}, devNull{}
			if directFirst {
				r.Run(tasks[0])
				r.Run(tasks[1])
			}
			sd := scheduler.NewScheduler(r)
			sd.VerifSetPause(time.Millisecond)
			done := make(chan error, 1)
			go func() { done <- sd.Schedule(g) }()
			select {
			case <-done:
			case <-time.After(15 * time.Second):
				cs.Fail, cs.Sig = "pipeline did not finish within 15s", sig
				return
			}
			r.Run(tasks[0])
			r.Run(tasks[1])
			got := readTrace(trace)
			cs.Impl = strings.Join(got, " | ")
			if strings.Join(got, "\n") != strings.Join(want, "\n") {
				cs.Fail, cs.Sig = fmt.Sprintf("the executions saw\n  %s\nthe variables of each execution determine\n  %s", strings.Join(got, "\n  "), strings.Join(want, "\n  ")), sig
			}
		}()
		os.Remove(trace)
		col.Add(cs)
	}
}

// ---- generated scenarios, compared with Model/Derived.lean (oracle family `derived`) ----

type dSeg struct {
	lit  string
	ref  string // "" = a literal
	form int    // how the reference is written: 0 {{ .K }}, 1 {{ index . "K" }}, 2 {{ with $v := index . "K" }}{{ $v }}{{ end }}
}

var identRe = regexp.MustCompile(`^[A-Za-z_][A-Za-z0-9_]*$`)

func (s dSeg) goText() string {
	if s.ref == "" {
		return s.lit
	}
	switch {
	case s.form == 0 && identRe.MatchString(s.ref):
		return "{{ ." + s.ref + " }}"
	case s.form == 2:
		return fmt.Sprintf(`{{ with $v := index . %q }}{{ $v }}{{ end }}`, s.ref)
	}
	return fmt.Sprintf(`{{ index . %q }}`, s.ref)
}

type dTmpl []dSeg

func (t dTmpl) goText() string {
	var b strings.Builder
	for _, s := range t {
		b.WriteString(s.goText())
	}
	return b.String()
}

func (t dTmpl) wire() string {
	var p []string
	for _, s := range t {
		if s.ref != "" {
			// how the reference is written decides what a missing variable gives (see goText)
			switch {
			case s.form == 0 && identRe.MatchString(s.ref):
				p = append(p, "R"+s.ref)
			case s.form == 2:
				p = append(p, "W"+s.ref)
			default:
				p = append(p, "I"+s.ref)
			}
		} else if s.lit != "" {
			p = append(p, "L"+hexOf(s.lit))
		}
	}
	return strings.Join(p, ";")
}

type dEnv map[string]dTmpl

func (e dEnv) wire() string {
	if len(e) == 0 {
		return "-"
	}
	var ks []string
	for k := range e {
		ks = append(ks, k)
	}
	sort.Strings(ks)
	var p []string
	for _, k := range ks {
		p = append(p, k+":"+e[k].wire())
	}
	return strings.Join(p, ",")
}

func (e dEnv) container() variables.Container {
	m := map[string]string{}
	for k, t := range e {
		m[k] = t.goText()
	}
	return variables.FromMap(m)
}

var dPrintRe = regexp.MustCompile(`(\S+?)=\[([^\]]*)\]`)

// runner-level, task-level and stage-level variables drawn at random: base variables (always plain values, some
// empty, some with dotted or dashed names) and derived ones (1-3 segments, references to base names - now and then to
// a name nobody defines - in the three ways a template can write them), at any level; two tasks, 3-5 stages in a
// chain, direct runs before and after. One oracle line per execution.
func derivedGenCases(col *Collector, rng *rand.Rand, n int, sig string) {
	bases := []string{"Who", "deploy.target", "X_1", "n-dash"}
	deriveds := []string{"GreetG", "IdxG", "GreetT", "Mix", "label.full"}
	words := []string{"a", "prod", "s1", "", "x-y", "v2.0", "eu/west"}
	lits := []string{"hello-", "/", "", "task:", "_", "-to-"}
	genEnv := func(pDerived float64) dEnv {
		e := dEnv{}
		for _, b := range bases {
			if rng.Intn(3) == 0 {
				e[b] = dTmpl{{lit: words[rng.Intn(len(words))]}}
			}
		}
		for _, d := range deriveds {
			if rng.Float64() < pDerived {
				var t dTmpl
				for k := 1 + rng.Intn(3); k > 0; k-- {
					if rng.Intn(3) == 0 {
						t = append(t, dSeg{lit: lits[rng.Intn(len(lits))]})
						continue
					}
					ref := bases[rng.Intn(len(bases))]
					form := rng.Intn(3)
					if rng.Intn(10) == 0 {
						ref, form = "Nobody", 0 // only {{ .Name }} reports a missing variable
					}
					t = append(t, dSeg{ref: ref, form: form})
				}
				e[d] = t
			}
		}
		return e
	}
	for it := 0; it < n; it++ {
		runnerE := genEnv(0.4)
		// the runner level defines every base variable more often than not, so that most executions succeed
		for _, b := range bases {
			if _, ok := runnerE[b]; !ok && rng.Intn(4) != 0 {
				runnerE[b] = dTmpl{{lit: words[rng.Intn(len(words))]}}
			}
		}
		taskE := []dEnv{genEnv(0.3), genEnv(0.15)}
		nst := 3 + rng.Intn(3)
		type stg struct {
			t int
			e dEnv
		}
		var stages []stg
		for i := 0; i < nst; i++ {
			s := stg{t: rng.Intn(2), e: dEnv{}}
			if rng.Intn(4) != 0 {
				s.e = genEnv(0.1)
			}
			stages = append(stages, s)
		}
		directFirst := rng.Intn(2) == 0
		trace := newTracePath()
		// what an execution prints: every name its three levels define
		printCmd := func(names []string) string {
			var p []string
			for _, k := range names {
				p = append(p, fmt.Sprintf("%s=[%s]", k, dSeg{ref: k, form: 1}.goText()))
			}
			return fmt.Sprintf(`echo "who=$WHO %s" >> %s`, strings.Join(p, " "), trace)
		}
		namesOf := func(es ...dEnv) []string {
			set := map[string]bool{}
			for _, e := range es {
				for k := range e {
					set[k] = true
				}
			}
			var ks []string
			for k := range set {
				ks = append(ks, k)
			}
			sort.Strings(ks)
			return ks
		}
		// the command is a property of the TASK: it prints the names defined by the runner, by the task or by ANY stage
		// using the task; a name that an execution does not define prints "<no value>" through index (no failure)
		var tasks []*task.Task
		taskNames := make([][]string, 2)
		for i := range taskE {
			es := []dEnv{runnerE, taskE[i]}
			for _, s := range stages {
				if s.t == i {
					es = append(es, s.e)
				}
			}
			taskNames[i] = namesOf(es...)
			t := task.NewTask()
			t.Name = fmt.Sprintf("t%d", i)
			t.Commands = []string{printCmd(taskNames[i])}
			t.Variables = taskE[i].container()
			t.Env = variables.FromMap(map[string]string{"WHO": fmt.Sprintf("direct-t%d", i)})
			tasks = append(tasks, t)
		}
		type execRec struct {
			who  string
			line string
			q    []string
		}
		var execs []execRec
		mkExec := func(who string, ti int, se dEnv) {
			q := namesOf(runnerE, taskE[ti], se)
			execs = append(execs, execRec{who, fmt.Sprintf("derived r=%s t=%s s=%s q=%s", runnerE.wire(), taskE[ti].wire(), se.wire(), strings.Join(q, ",")), q})
		}
		var sts []*scheduler.Stage
		if directFirst {
			mkExec("direct-t0#0", 0, nil)
			mkExec("direct-t1#0", 1, nil)
		}
		for i, s := range stages {
			st := &scheduler.Stage{Name: fmt.Sprintf("s%d", i), Task: tasks[s.t], AllowFailure: true, Env: variables.FromMap(map[string]string{"WHO": fmt.Sprintf("s%d", i)})}
			if len(s.e) > 0 {
				st.Variables = s.e.container()
			}
			if i > 0 {
				st.DependsOn = []string{fmt.Sprintf("s%d", i-1)}
			}
			sts = append(sts, st)
			mkExec(st.Name, s.t, s.e)
		}
		mkExec("direct-t0#1", 0, nil)
		mkExec("direct-t1#1", 1, nil)
		describe := fmt.Sprintf("runner variables {%s}; task t0 {%s}, t1 {%s}; stages (chain) %v; direct runs of both tasks %s the pipeline", runnerE.wire(), taskE[0].wire(), taskE[1].wire(),
			func() []string {
				var p []string
				for i, s := range stages {
					p = append(p, fmt.Sprintf("s%d=t%d{%s}", i, s.t, s.e.wire()))
				}
				return p
			}(), map[bool]string{true: "before and after", false: "after"}[directFirst])
		seen := map[string][]string{} // who -> printed lines, in order
		var crashed string
		func() {
			defer func() {
				if p := recover(); p != nil {
					crashed = fmt.Sprint("panic: ", p)
				}
			}()
			g, err := scheduler.NewExecutionGraph(sts...)
			if err != nil {
				crashed = "graph rejected: " + err.Error()
				return
			}
			r, err := runner.NewTaskRunner(runner.WithVariables(runnerE.container()))
			if err != nil {
				crashed = err.Error()
				return
			}
			r.Stdout, r.Stderr = devNull{}, devNull{}
			if directFirst {
				r.Run(tasks[0])
				r.Run(tasks[1])
			}
			sd := scheduler.NewScheduler(r)
			sd.VerifSetPause(time.Millisecond)
			done := make(chan error, 1)
			go func() { done <- sd.Schedule(g) }()
			select {
			case <-done:
			case <-time.After(15 * time.Second):
				crashed = "pipeline did not finish within 15s"
				return
			}
			r.Run(tasks[0])
			r.Run(tasks[1])
		}()
		for _, l := range readTrace(trace) {
			if strings.HasPrefix(l, "who=") {
				f := strings.SplitN(l, " ", 2)
				seen[strings.TrimPrefix(f[0], "who=")] = append(seen[strings.TrimPrefix(f[0], "who=")], l)
			}
		}
		os.Remove(trace)
		// direct runs print under "direct-tN": the first belongs to the run before the pipeline (when there is one).
		// A failed execution prints nothing, so the lines of direct runs are attributed by what the MODEL says about
		// the first one: both direct runs of a task see the same variables, hence fail or succeed together.
		for _, e := range execs {
			cs := Case{Line: e.line, Tags: []string{"derived-generated"}, NonTrivial: true, Replay: describe + "; execution " + e.who}
			who := e.who
			idx := 0
			if i := strings.Index(who, "#"); i >= 0 {
				if who[i+1] == '1' && directFirst {
					idx = 1
				}
				who = who[:i]
			}
			switch {
			case crashed != "":
				cs.Fail, cs.Sig = crashed, sig
			case idx >= len(seen[who]):
				cs.Impl = "FAIL"
			default:
				got := map[string]string{}
				for _, m := range dPrintRe.FindAllStringSubmatch(seen[who][idx], -1) {
					got[m[1]] = m[2]
				}
				var p []string
				for _, k := range e.q {
					p = append(p, k+"="+hexOf(got[k]))
				}
				cs.Impl = strings.Join(p, " ")
			}
			col.Add(cs)
		}
	}
}
