package main

import (
	"errors"
	"fmt"
	"github.com/taskctl/taskctl/pkg/verifhooks"
	"math/rand"
	"os"
	"os/exec"
	"path/filepath"
	"sort"
	"strconv"
	"strings"
	"sync"
	"sync/atomic"
	"time"

	"github.com/taskctl/taskctl/pkg/scheduler"
	"github.com/taskctl/taskctl/pkg/task"
	"github.com/taskctl/taskctl/pkg/variables"
)

// ---------- configuration of one scheduler case ----------

type schedCfg struct {
	n     int
	deps  [][]int
	allow []bool
	cond  []byte // 'n' none, 't' true, 'f' false, 'e' cannot be evaluated
	ok    []bool // outcome of the stage's task
	order []int  // declaration order (AddStage order)
	// nested[i] != nil: stage i runs an included pipeline instead of a task
	nested []*schedCfg
	// shared: all task stages of this graph use ONE *task.Task and are told apart by a stage-level env var
	shared bool
	// viaConfig: the graph is built by the configuration loader from a YAML document (top level only)
	viaConfig bool
	// names: the names given to the top-level STAGES (nil: their index); tasks keep the index as their name
	names []string
	// plainNames (nested graphs): the stages are called "0", "1", ... like the stages of the enclosing pipeline
	// (stage names are unique within one pipeline only)
	plainNames bool
}

// disp is the stage name handed to the implementation for stage i of the (sub)graph with the given prefix
func (c *schedCfg) disp(prefix string, i int) string {
	if prefix == "" && c.names != nil {
		return c.names[i]
	}
	if prefix != "" && c.plainNames {
		return strconv.Itoa(i)
	}
	return fmt.Sprintf("%s%d", prefix, i)
}

const (
	stWaiting = iota
	stRunning
	stSkipped
	stDone
	stError
	stCanceled
)

func (c *schedCfg) line(rel [][]int) string {
	deps := make([]string, c.n)
	for i, d := range c.deps {
		if len(d) == 0 {
			deps[i] = "-"
		} else {
			deps[i] = joinInts(d, ",")
		}
	}
	rs := make([]string, len(rel))
	for i, b := range rel {
		rs[i] = joinInts(b, ",")
	}
	return fmt.Sprintf("sched n=%d deps=%s allow=%s cond=%s ok=%s rel=%s", c.n, strings.Join(deps, ";"),
		bits(c.allow), string(c.cond), bits(c.ok), strings.Join(rs, "|"))
}

func (c *schedCfg) describe() string {
	s := c.line(nil) + " order=" + joinInts(c.order, ",")
	if c.shared {
		s += " shared-task"
	}
	if c.viaConfig {
		s += " built-by-config-loader"
	}
	if c.names != nil {
		s += fmt.Sprintf(" stage-names=%q", c.names)
	}
	for i, nc := range c.nested {
		if nc != nil {
			s += fmt.Sprintf(" nested[%d]={%s}", i, nc.describe())
		}
	}
	return s
}

func joinInts(a []int, sep string) string {
	s := make([]string, len(a))
	for i, v := range a {
		s[i] = strconv.Itoa(v)
	}
	return strings.Join(s, sep)
}

func bits(b []bool) string {
	s := make([]byte, len(b))
	for i, v := range b {
		if v {
			s[i] = '1'
		} else {
			s[i] = '0'
		}
	}
	return string(s)
}

// ---------- reference semantics (the property's own reading, independent of the Lean model) ----------

type refState struct {
	c        *schedCfg
	status   []int
	inflight map[int]bool
	sub      map[int]*refState // running nested pipelines
	err      bool
	runs     []int
	prefix   string
}

func newRef(c *schedCfg, prefix string) *refState {
	return &refState{c: c, status: make([]int, c.n), inflight: map[int]bool{}, sub: map[int]*refState{}, runs: make([]int, c.n), prefix: prefix}
}

func (r *refState) satisfied(d int) bool {
	return r.status[d] == stDone || r.status[d] == stSkipped || (r.status[d] == stError && r.c.allow[d])
}

// settle applies loop passes until nothing changes; returns names of leaf tasks newly started
func (r *refState) settle() {
	for changed := true; changed; {
		changed = false
		for s := 0; s < r.c.n; s++ {
			if r.status[s] == stWaiting {
				if r.c.cond[s] == 'f' {
					r.status[s] = stSkipped
					changed = true
					continue
				}
				ready, cancel := true, false
				for _, d := range r.c.deps[s] {
					switch {
					case r.satisfied(d):
					case r.status[d] == stError || r.status[d] == stCanceled:
						ready, cancel = false, true
					default:
						ready = false
					}
				}
				if cancel {
					r.status[s] = stCanceled
					changed = true
				} else if ready {
					r.status[s] = stRunning
					r.runs[s]++
					changed = true
					if r.c.nested != nil && r.c.nested[s] != nil {
						r.sub[s] = newRef(r.c.nested[s], fmt.Sprintf("%s%d.", r.prefix, s))
					} else {
						r.inflight[s] = true
					}
				}
			}
		}
		for s, sub := range r.sub {
			sub.settle()
			if sub.done() {
				delete(r.sub, s)
				r.finish(s, !sub.err)
				changed = true
			}
		}
	}
}

func (r *refState) done() bool {
	for _, st := range r.status {
		if st == stWaiting || st == stRunning {
			return false
		}
	}
	return true
}

func (r *refState) finish(s int, ok bool) {
	delete(r.inflight, s)
	if ok || r.c.allow[s] {
		r.status[s] = stDone
	} else {
		r.status[s] = stError
		r.err = true
	}
}

// leaves: names of all leaf tasks in flight (including nested ones)
func (r *refState) leaves() []string {
	var out []string
	for s := range r.inflight {
		out = append(out, fmt.Sprintf("%s%d", r.prefix, s))
	}
	for _, sub := range r.sub {
		out = append(out, sub.leaves()...)
	}
	sort.Strings(out)
	return out
}

// release the named leaf (its outcome is the configuration's)
func (r *refState) release(name string) bool {
	for s := range r.inflight {
		if fmt.Sprintf("%s%d", r.prefix, s) == name {
			r.finish(s, r.c.ok[s])
			return true
		}
	}
	for _, sub := range r.sub {
		if sub.release(name) {
			return true
		}
	}
	return false
}

func (r *refState) okOf(name string) bool {
	for s := range r.inflight {
		if fmt.Sprintf("%s%d", r.prefix, s) == name {
			return r.c.ok[s]
		}
	}
	for _, sub := range r.sub {
		if strings.HasPrefix(name, sub.prefix) {
			return sub.okOf(name)
		}
	}
	return true
}

// ---------- the controlled runner ----------

type ctlRunner struct {
	mu        sync.Mutex
	gates     map[string]chan bool
	entered   map[string]int
	cancelled bool
	onEnter   func(name string) // called (outside the lock) on every Run entry
	entries   []string
	cancelN   int
}

func newCtlRunner() *ctlRunner {
	return &ctlRunner{gates: map[string]chan bool{}, entered: map[string]int{}}
}

var errTaskFailed = errors.New("task failed")
var errCancelled = errors.New("context canceled")

func (r *ctlRunner) Run(t *task.Task) error {
	name := t.Name
	if t.Env != nil && t.Env.Has("VERIF_STAGE") {
		name = t.Env.Get("VERIF_STAGE").(string)
	}
	r.mu.Lock()
	r.entered[name]++
	r.entries = append(r.entries, name)
	if r.cancelled {
		r.mu.Unlock()
		return errCancelled
	}
	ch := make(chan bool, 1)
	r.gates[name] = ch
	cb := r.onEnter
	r.mu.Unlock()
	if cb != nil {
		cb(name)
	}
	ok := <-ch
	r.mu.Lock()
	delete(r.gates, name)
	r.mu.Unlock()
	if !ok {
		return errTaskFailed
	}
	return nil
}

func (r *ctlRunner) Cancel() {
	r.mu.Lock()
	r.cancelled = true
	r.cancelN++
	for _, ch := range r.gates {
		select {
		case ch <- false:
		default:
		}
	}
	r.mu.Unlock()
}

func (r *ctlRunner) Finish() {}

func (r *ctlRunner) inflight() []string {
	r.mu.Lock()
	defer r.mu.Unlock()
	var out []string
	for n := range r.gates {
		out = append(out, n)
	}
	sort.Strings(out)
	return out
}

func (r *ctlRunner) releaseTask(name string, ok bool) {
	r.mu.Lock()
	ch := r.gates[name]
	r.mu.Unlock()
	if ch != nil {
		select {
		case ch <- ok:
		default:
		}
	}
}

// ---------- building the real graph ----------

type builtGraph struct {
	g      *scheduler.ExecutionGraph
	stages map[string]*scheduler.Stage // by leaf/stage full name
	deps   map[string][]*scheduler.Stage
	allow  map[string]bool
	subs   []*builtGraph
}

func condCmd(b byte) string {
	switch b {
	case 't':
		return "true"
	case 'f':
		return "false"
	case 'e':
		return "/nonexistent/verif-condition"
	}
	return ""
}

// a condition that is true until breakCond is called, after which it cannot be evaluated
// (a symlink to the `true` binary, atomically replaced by a dangling one: exec fails with ENOENT)
func makeCondScript() string {
	dir := os.Getenv("VERIF_SCRATCH")
	if dir == "" {
		dir = os.TempDir()
	}
	os.MkdirAll(dir, 0755)
	truePath, err := exec.LookPath("true")
	if err != nil {
		panic(err)
	}
	name := filepath.Join(dir, fmt.Sprintf("cond-%d-%d", os.Getpid(), atomic.AddInt64(&condSeq, 1)))
	if err := os.Symlink(truePath, name); err != nil {
		panic(err)
	}
	return name
}

var condSeq int64

func breakCond(name string) {
	tmp := name + ".new"
	os.Symlink("/nonexistent/verif-condition", tmp)
	os.Rename(tmp, name)
}

// ---------- one run ----------

type schedObs struct {
	quiescent  [][]string
	status     []int
	err        bool
	runs       []int
	returned   bool
	early      []string // C01: stage entered Run while a dependency was unfinished
	unexpected []string // a task entered Run that the reference does not expect (C02-style)
	missing    []string // C04/C03: expected task did not start while others were held
	elapsed    time.Duration
	inner      map[string][2][]int // included pipeline (path of stage indices) -> final statuses and run counts of its stages
}

const schedPause = 500 * time.Microsecond

type schedPlan struct {
	cfg       *schedCfg
	rng       *rand.Rand
	batchProb float64 // probability of releasing more than one task at once
	cancelAt  int     // quiescent point index at which cancellation is injected (-1: never)
	condErr   int     // stage whose condition becomes impossible to evaluate at cancelAt (-1: external Cancel)
	tight     bool    // no pause between passes: the loop re-examines a stage before its goroutine has run
}

// nested pipelines need dependencies registered before children: build parents first
func buildAll(c *schedCfg) (*builtGraph, error) {
	if c.viaConfig {
		return buildViaConfig(c)
	}
	all := &builtGraph{stages: map[string]*scheduler.Stage{}, deps: map[string][]*scheduler.Stage{}, allow: map[string]bool{}}
	// two passes so that "^parent" entries exist before nested graphs are built: build top-level deps first
	g, err := buildGraphTop(c, all)
	all.g = g
	return all, err
}

func buildGraphTop(c *schedCfg, all *builtGraph) (*scheduler.ExecutionGraph, error) {
	// pre-register parent dependency lists (names only known after stage creation): do a dry run
	return buildGraphRec(c, "", nil, all)
}

func buildGraphRec(c *schedCfg, prefix string, inherited []*scheduler.Stage, all *builtGraph) (*scheduler.ExecutionGraph, error) {
	var sharedTask *task.Task
	stages := make([]*scheduler.Stage, c.n)
	for i := 0; i < c.n; i++ {
		name := fmt.Sprintf("%s%d", prefix, i)
		st := &scheduler.Stage{Name: c.disp(prefix, i), Condition: condCmd(c.cond[i]), AllowFailure: c.allow[i]}
		for _, d := range c.deps[i] {
			st.DependsOn = append(st.DependsOn, c.disp(prefix, d))
		}
		stages[i] = st
		all.stages[name] = st
		all.allow[name] = c.allow[i]
	}
	for i := 0; i < c.n; i++ {
		name := fmt.Sprintf("%s%d", prefix, i)
		var ds []*scheduler.Stage
		for _, d := range c.deps[i] {
			ds = append(ds, stages[d])
		}
		ds = append(ds, inherited...)
		all.deps[name] = ds
		if c.nested != nil && c.nested[i] != nil {
			sub, err := buildGraphRec(c.nested[i], name+".", ds, all)
			if err != nil {
				return nil, err
			}
			stages[i].Pipeline = sub
		} else if c.shared {
			if sharedTask == nil {
				sharedTask = task.NewTask()
				sharedTask.Name = prefix + "shared"
			}
			stages[i].Task = sharedTask
			stages[i].Env = variables.FromMap(map[string]string{"VERIF_STAGE": name})
			stages[i].Variables = variables.FromMap(map[string]string{"stage": name})
		} else {
			t := task.NewTask()
			t.Name = name
			stages[i].Task = t
		}
	}
	ordered := make([]*scheduler.Stage, 0, c.n)
	for _, i := range c.order {
		ordered = append(ordered, stages[i])
	}
	return scheduler.NewExecutionGraph(ordered...)
}

func sameSet(a, b []string) bool {
	if len(a) != len(b) {
		return false
	}
	for i := range a {
		if a[i] != b[i] {
			return false
		}
	}
	return true
}

func runSchedCase(p *schedPlan) (obs *schedObs, rel [][]string, buildErr error) {
	c := p.cfg
	all, err := buildAll(c)
	if err != nil {
		return nil, nil, err
	}
	r := newCtlRunner()
	obs = &schedObs{}
	condScript := ""
	if p.cancelAt >= 0 && p.condErr >= 0 {
		condScript = makeCondScript()
		defer os.Remove(condScript)
		all.stages[strconv.Itoa(p.condErr)].Condition = condScript
	}
	var omu sync.Mutex
	r.onEnter = func(name string) {
		// C01 monitor: at the moment a task starts, every dependency (own stage's and, for an
		// included pipeline, the including stage's) must be finished
		for _, d := range all.deps[name] {
			st := d.ReadStatus()
			okd := st == scheduler.StatusDone || st == scheduler.StatusSkipped || (st == scheduler.StatusError && d.AllowFailure)
			if !okd {
				omu.Lock()
				obs.early = append(obs.early, fmt.Sprintf("%s started while dependency %s has status %d", name, d.Name, st))
				omu.Unlock()
			}
		}
	}
	sd := scheduler.NewScheduler(r)
	if p.tight {
		sd.VerifSetPause(0)
	} else {
		sd.VerifSetPause(schedPause)
	}
	ref := newRef(c, "")
	done := make(chan error, 1)
	t0 := time.Now()
	go func() { done <- sd.Schedule(all.g) }()

	cancelled := false
	for qi := 0; ; qi++ {
		ref.settle()
		want := ref.leaves()
		// wait for the expected in-flight set
		deadline := time.Now().Add(2 * time.Second)
		var got []string
		for {
			got = r.inflight()
			if sameSet(got, want) || time.Now().After(deadline) {
				break
			}
			// an unexpected member can be flagged at once
			time.Sleep(100 * time.Microsecond)
		}
		if sameSet(got, want) {
			// settle: give the loop 20 more passes to start something it should not
			time.Sleep(20 * schedPause)
			got = r.inflight()
		}
		if !sameSet(got, want) {
			ws := map[string]bool{}
			for _, w := range want {
				ws[w] = true
			}
			gs := map[string]bool{}
			for _, g := range got {
				gs[g] = true
				if !ws[g] {
					obs.unexpected = append(obs.unexpected, g)
				}
			}
			for _, w := range want {
				if !gs[w] {
					obs.missing = append(obs.missing, w)
				}
			}
			obs.quiescent = append(obs.quiescent, got)
			// abandon: cancel to let everything drain
			sd.Cancel()
			cancelled = true
			break
		}
		obs.quiescent = append(obs.quiescent, got)
		if len(want) == 0 {
			break
		}
		if p.cancelAt == qi {
			if condScript != "" && ref.status[p.condErr] == stWaiting {
				breakCond(condScript)
			} else {
				sd.Cancel()
			}
			cancelled = true
			break
		}
		// choose the batch to release
		k := 1
		if len(want) > 1 && p.rng.Float64() < p.batchProb {
			k = 2 + p.rng.Intn(len(want)-1)
		}
		perm := p.rng.Perm(len(want))
		batch := make([]string, 0, k)
		for _, i := range perm[:k] {
			batch = append(batch, want[i])
		}
		rel = append(rel, batch)
		for _, name := range batch {
			ok := ref.okOf(name)
			ref.release(name)
			r.releaseTask(name, ok)
		}
	}
	select {
	case e := <-done:
		obs.returned = true
		obs.err = e != nil
	case <-time.After(5 * time.Second):
		obs.returned = false
		// unblock whatever is left so the goroutines do not pile up
		r.Cancel()
	}
	obs.elapsed = time.Since(t0)
	_ = cancelled
	obs.status = make([]int, c.n)
	obs.runs = make([]int, c.n)
	for i := 0; i < c.n; i++ {
		name := strconv.Itoa(i)
		obs.status[i] = int(all.stages[name].ReadStatus())
		r.mu.Lock()
		obs.runs[i] = r.entered[name]
		r.mu.Unlock()
	}
	// included pipelines, at every depth: keyed by the stage indices leading to them ("1", "1.0", ...)
	obs.inner = map[string][2][]int{}
	var walk func(c *schedCfg, prefix string)
	walk = func(c *schedCfg, prefix string) {
		for i := 0; i < c.n; i++ {
			if c.nested == nil || c.nested[i] == nil {
				continue
			}
			nc := c.nested[i]
			path := fmt.Sprintf("%s%d", prefix, i)
			st, runs := make([]int, nc.n), make([]int, nc.n)
			for k := 0; k < nc.n; k++ {
				name := fmt.Sprintf("%s.%d", path, k)
				if sg := all.stages[name]; sg != nil {
					st[k] = int(sg.ReadStatus())
				}
				r.mu.Lock()
				runs[k] = r.entered[name]
				r.mu.Unlock()
				// a stage that includes a pipeline never enters the runner itself: it counts as started once
				// when it ended done or failed
				if nc.nested != nil && nc.nested[k] != nil && (st[k] == stDone || st[k] == stError) {
					runs[k] = 1
				}
			}
			obs.inner[path] = [2][]int{st, runs}
			walk(nc, path+".")
		}
	}
	walk(c, "")
	return obs, rel, nil
}

// buildViaConfig builds the same graph through the configuration loader (internal/config: buildPipeline,
// pipeline-to-pipeline links) from a YAML document instead of constructing Stage values. The declared
// dependencies recorded for the monitors come from the case, never from the loaded graph.
func buildViaConfig(c *schedCfg) (*builtGraph, error) {
	dir := newScratchDir("schedcfg")
	defer os.RemoveAll(dir)
	var tasks, pipes strings.Builder
	var emit func(c *schedCfg, prefix, pl string)
	emit = func(c *schedCfg, prefix, pl string) {
		fmt.Fprintf(&pipes, "  %q:\n", pl)
		for _, i := range c.order {
			name := fmt.Sprintf("%s%d", prefix, i)
			fmt.Fprintf(&pipes, "    - name: %q\n", c.disp(prefix, i))
			if c.nested != nil && c.nested[i] != nil {
				fmt.Fprintf(&pipes, "      pipeline: %q\n", "pl_"+name)
			} else {
				fmt.Fprintf(&pipes, "      task: %q\n", name)
				fmt.Fprintf(&tasks, "  %q:\n    command: [\"true\"]\n", name)
			}
			if len(c.deps[i]) > 0 {
				var ds []string
				for _, d := range c.deps[i] {
					ds = append(ds, fmt.Sprintf("%q", c.disp(prefix, d)))
				}
				fmt.Fprintf(&pipes, "      depends_on: [%s]\n", strings.Join(ds, ", "))
			}
			if cc := condCmd(c.cond[i]); cc != "" {
				fmt.Fprintf(&pipes, "      condition: %q\n", cc)
			}
			if c.allow[i] {
				fmt.Fprintf(&pipes, "      allow_failure: true\n")
			}
		}
		for i := 0; i < c.n; i++ {
			if c.nested != nil && c.nested[i] != nil {
				name := fmt.Sprintf("%s%d", prefix, i)
				emit(c.nested[i], name+".", "pl_"+name)
			}
		}
	}
	emit(c, "", "top")
	file := filepath.Join(dir, "tasks.yaml")
	doc := "pipelines:\n" + pipes.String()
	if tasks.Len() > 0 {
		doc = "tasks:\n" + tasks.String() + doc
	}
	os.WriteFile(file, []byte(doc), 0644)
	cl := verifhooks.NewConfigLoader(verifhooks.NewConfig())
	cfg, err := cl.Load(file)
	if err != nil {
		return nil, err
	}
	all := &builtGraph{stages: map[string]*scheduler.Stage{}, deps: map[string][]*scheduler.Stage{}, allow: map[string]bool{}}
	all.g = cfg.Pipelines["top"]
	if all.g == nil {
		return nil, fmt.Errorf("pipeline top missing after load")
	}
	var collect func(c *schedCfg, prefix string, g *scheduler.ExecutionGraph, inherited []*scheduler.Stage) error
	collect = func(c *schedCfg, prefix string, g *scheduler.ExecutionGraph, inherited []*scheduler.Stage) error {
		nodes := g.Nodes()
		for i := 0; i < c.n; i++ {
			name := fmt.Sprintf("%s%d", prefix, i)
			st := nodes[c.disp(prefix, i)]
			if st == nil {
				return fmt.Errorf("stage %s missing from the loaded pipeline", name)
			}
			all.stages[name] = st
			all.allow[name] = c.allow[i]
		}
		for i := 0; i < c.n; i++ {
			name := fmt.Sprintf("%s%d", prefix, i)
			var ds []*scheduler.Stage
			for _, d := range c.deps[i] {
				ds = append(ds, nodes[c.disp(prefix, d)])
			}
			ds = append(ds, inherited...)
			all.deps[name] = ds
			if c.nested != nil && c.nested[i] != nil {
				if nodes[c.disp(prefix, i)].Pipeline == nil {
					return fmt.Errorf("stage %s lost its pipeline", name)
				}
				if err := collect(c.nested[i], name+".", nodes[c.disp(prefix, i)].Pipeline, ds); err != nil {
					return err
				}
			}
		}
		return nil
	}
	if err := collect(c, "", all.g, nil); err != nil {
		return nil, err
	}
	return all, nil
}
