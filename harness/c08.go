package main

import (
	"fmt"
	"math/rand"
	"os"
	"path/filepath"
	"sort"
	"strings"
	"sync"
	"time"

	"github.com/taskctl/taskctl/pkg/runner"
	"github.com/taskctl/taskctl/pkg/scheduler"
	"github.com/taskctl/taskctl/pkg/task"
	"github.com/taskctl/taskctl/pkg/variables"
	"github.com/taskctl/taskctl/pkg/verifhooks"
)

func init() { props["C08"] = runC08 }

// 2..6 stages share ONE task; each stage may override env names, variables and dir.
type stageOv struct {
	env  map[string]string // subset of {A,B,S<i>}
	vars map[string]string // subset of {x,y}
	dir  string            // "" or a directory
	deps []int
	fail bool // this stage's execution exits non-zero (the stage allows failure, so the pipeline goes on)
}

type c08Spec struct {
	taskEnv  map[string]string
	taskVars map[string]string
	taskDir  string
	ctxEnv   map[string]string // env of the execution context the shared task runs in (nil: default context); below the task's env
	globVars map[string]string // variables of the runner itself (configuration file / --set level); below the task's variables
	stages   []stageOv
	viaYAML  bool // build through internal/config (buildPipeline) instead of constructing Stage values
	runs     int  // how many times the pipeline is run before the direct run
	// tmplBase != "": the task's dir is the TEMPLATE tmplBase+"/{{ .x }}": every execution runs in the directory
	// named by the value of x it sees (the stage's over the task's)
	tmplBase string
	// directFirst: the task is also run directly BEFORE the pipeline (and again after it)
	directFirst bool
}

func kvs(m map[string]string) string {
	var ks []string
	for k := range m {
		ks = append(ks, k)
	}
	sort.Strings(ks)
	var p []string
	for _, k := range ks {
		p = append(p, k+"="+m[k])
	}
	if len(p) == 0 {
		return "-"
	}
	return strings.Join(p, ",")
}

func (s c08Spec) line() string {
	var st []string
	for _, o := range s.stages {
		d := o.dir
		if d == "" {
			d = "-"
		}
		f := ""
		if o.fail {
			f = "!"
		}
		st = append(st, fmt.Sprintf("%s/%s/%s%s", kvs(o.env), kvs(o.vars), filepath.Base(d), f))
	}
	td := s.taskDir
	if td == "" {
		td = "-"
	}
	return fmt.Sprintf("layers task=%s/%s/%s stages=%s", kvs(s.baseEnv()), kvs(s.baseVars()), filepath.Base(td), strings.Join(st, ";"))
}

// what the task's commands see below any stage override: the context's env overlaid by the task's own env
func (s c08Spec) baseEnv() map[string]string {
	m := map[string]string{}
	for k, v := range s.ctxEnv {
		m[k] = v
	}
	for k, v := range s.taskEnv {
		m[k] = v
	}
	return m
}

func (s c08Spec) baseVars() map[string]string {
	m := map[string]string{}
	for k, v := range s.globVars {
		m[k] = v
	}
	for k, v := range s.taskVars {
		m[k] = v
	}
	return m
}

// the command prints what this execution sees; WHO identifies the stage (set by every stage) or "direct"
const c08Cmd = `echo "who=${WHO:-direct} A=${A:-} B=${B:-} x={{ if index . "x" }}{{ .x }}{{ end }} y={{ if index . "y" }}{{ .y }}{{ end }} pwd=$(pwd)" >> %s; exit ${FAILSTAGE:-0}`

func expectedSeen(s c08Spec, i int, cwd string) string {
	get := func(base, ov map[string]string, k string) string {
		if ov != nil {
			if v, ok := ov[k]; ok {
				return v
			}
		}
		return base[k]
	}
	who := "direct"
	var env, vars map[string]string
	dir := s.taskDir
	if i >= 0 {
		who = fmt.Sprintf("s%d", i)
		env, vars = s.stages[i].env, s.stages[i].vars
	}
	if s.tmplBase != "" {
		dir = filepath.Join(s.tmplBase, get(s.baseVars(), vars, "x"))
	}
	if i >= 0 && s.stages[i].dir != "" {
		dir = s.stages[i].dir
	}
	if dir == "" {
		dir = cwd
	}
	return fmt.Sprintf("who=%s A=%s B=%s x=%s y=%s pwd=%s", who, get(s.baseEnv(), env, "A"), get(s.baseEnv(), env, "B"), get(s.baseVars(), vars, "x"), get(s.baseVars(), vars, "y"), dir)
}

func runC08Spec(s c08Spec) (lines []string, crashed string) {
	trace := newTracePath()
	defer os.Remove(trace)
	defer func() {
		if p := recover(); p != nil {
			crashed = fmt.Sprint("PANIC: ", p)
		}
	}()
	cmd := fmt.Sprintf(c08Cmd, trace)
	var shared *task.Task
	var g *scheduler.ExecutionGraph
	if s.viaYAML {
		var stages []interface{}
		for i, o := range s.stages {
			env := map[string]interface{}{"WHO": fmt.Sprintf("s%d", i)}
			for k, v := range o.env {
				env[k] = v
			}
			if o.fail {
				env["FAILSTAGE"] = "3"
			}
			vars := map[string]interface{}{}
			for k, v := range o.vars {
				vars[k] = v
			}
			deps := []interface{}{}
			for _, d := range o.deps {
				deps = append(deps, fmt.Sprintf("s%d", d))
			}
			st := map[string]interface{}{"name": fmt.Sprintf("s%d", i), "task": "shared", "env": env, "variables": vars, "depends_on": deps, "allow_failure": true}
			if o.dir != "" {
				st["dir"] = o.dir
			}
			stages = append(stages, st)
		}
		tenv, tvars := map[string]interface{}{}, map[string]interface{}{}
		for k, v := range s.taskEnv {
			tenv[k] = v
		}
		for k, v := range s.taskVars {
			tvars[k] = v
		}
		td := map[string]interface{}{"command": []interface{}{cmd}, "env": tenv, "variables": tvars}
		if s.taskDir != "" {
			td["dir"] = s.taskDir
		}
		if s.tmplBase != "" {
			td["dir"] = s.tmplBase + "/{{ .x }}"
		}
		raw := map[string]interface{}{"tasks": map[string]interface{}{"shared": td}, "pipelines": map[string]interface{}{"p": stages}}
		if s.ctxEnv != nil {
			td["context"] = "cx"
		}
		cl := verifhooks.NewConfigLoader(verifhooks.NewConfig())
		cfg, err := cl.VerifBuildRaw(raw, "")
		if err != nil {
			return nil, "config rejected: " + err.Error()
		}
		shared = cfg.Tasks["shared"]
		g = cfg.Pipelines["p"]
	} else {
		shared = task.NewTask()
		shared.Name = "shared"
		shared.Commands = []string{cmd}
		shared.Env = variables.FromMap(s.taskEnv)
		shared.Variables = variables.FromMap(s.taskVars)
		shared.Dir = s.taskDir
		if s.tmplBase != "" {
			shared.Dir = s.tmplBase + "/{{ .x }}"
		}
		if s.ctxEnv != nil {
			shared.Context = "cx"
		}
		var stages []*scheduler.Stage
		for i, o := range s.stages {
			env := map[string]string{"WHO": fmt.Sprintf("s%d", i)}
			for k, v := range o.env {
				env[k] = v
			}
			if o.fail {
				env["FAILSTAGE"] = "3"
			}
			st := &scheduler.Stage{Name: fmt.Sprintf("s%d", i), Task: shared, Env: variables.FromMap(env), Variables: variables.FromMap(o.vars), Dir: o.dir, AllowFailure: true}
			for _, d := range o.deps {
				st.DependsOn = append(st.DependsOn, fmt.Sprintf("s%d", d))
			}
			stages = append(stages, st)
		}
		var err error
		g, err = scheduler.NewExecutionGraph(stages...)
		if err != nil {
			return nil, "graph rejected: " + err.Error()
		}
	}
	var opts []runner.Opts
	if s.ctxEnv != nil {
		opts = append(opts, runner.WithContexts(map[string]*runner.ExecutionContext{
			"cx": runner.NewExecutionContext(nil, "", variables.FromMap(s.ctxEnv), nil, nil, nil, nil)}))
	}
	if s.globVars != nil {
		opts = append(opts, runner.WithVariables(variables.FromMap(s.globVars)))
	}
	r, err := runner.NewTaskRunner(opts...)
	if err != nil {
		return nil, err.Error()
	}
	r.Stdout, r.Stderr = devNull{}, devNull{}
	if s.directFirst {
		r.Run(shared)
	}
	for k := 0; k < s.runs; k++ {
		for _, st := range g.Nodes() {
			st.UpdateStatus(scheduler.StatusWaiting)
		}
		sd := scheduler.NewScheduler(r)
		sd.VerifSetPause(time.Millisecond)
		done := make(chan error, 1)
		go func() { done <- sd.Schedule(g) }()
		select {
		case <-done:
		case <-time.After(15 * time.Second):
			return readWhoTrace(trace), "pipeline did not finish within 15s"
		}
	}
	// a direct run of the same task afterwards
	r.Run(shared)
	return readWhoTrace(trace), ""
}

func c08Case(col *Collector, s c08Spec, tag string) {
	lines, crashed := runC08Spec(s)
	cwd, _ := os.Getwd()
	cs := Case{Replay: s.line() + fmt.Sprintf(" yaml=%v runs=%d direct-run-first=%v", s.viaYAML, s.runs, s.directFirst), Tags: []string{tag, fmt.Sprintf("stages=%d", len(s.stages))}}
	if s.tmplBase != "" {
		cs.Replay += " task dir = <base>/{{ .x }} (a template over the variable x)"
		cs.Tags = append(cs.Tags, "templated-dir")
	}
	cs.NonTrivial = true
	got := map[string][]string{}
	for _, l := range lines {
		who := strings.Fields(l)[0]
		got[who] = append(got[who], l)
	}
	var impl []string
	switch {
	case crashed != "":
		cs.Fail, cs.Sig = crashed, "c08-crash"
	default:
		for i := -1; i < len(s.stages); i++ {
			want := expectedSeen(s, i, cwd)
			who := strings.Fields(want)[0]
			n := s.runs
			if i < 0 {
				n = 1
				if s.directFirst {
					n = 2
				}
			}
			if len(got[who]) != n && cs.Fail == "" {
				cs.Fail, cs.Sig = fmt.Sprintf("%s executed %d times, expected %d", who, len(got[who]), n), "c08-count"
			}
			for _, l := range got[who] {
				impl = append(impl, l)
				if l != want && cs.Fail == "" {
					sig := "c08-leak"
					if i < 0 {
						sig = "c08-leak-direct"
					}
					cs.Fail, cs.Sig = fmt.Sprintf("execution saw [%s], its own stage over the task's settings gives [%s]", l, want), sig
				}
			}
		}
	}
	cs.Impl = strings.Join(impl, " | ")
	if crashed == "" && s.runs == 1 && s.tmplBase == "" && !s.directFirst {
		// canonical form compared with the Lean model: what every stage execution and the direct run saw
		canon := func(l string) string {
			f := map[string]string{}
			for _, kv := range strings.Fields(l) {
				if p := strings.SplitN(kv, "=", 2); len(p) == 2 {
					f[p[0]] = p[1]
				}
			}
			d := filepath.Base(f["pwd"])
			if f["pwd"] == cwd {
				d = "-"
			}
			return fmt.Sprintf("A=%s B=%s x=%s y=%s dir=%s", f["A"], f["B"], f["x"], f["y"], d)
		}
		var parts []string
		ok := true
		for i := range s.stages {
			ls := got[fmt.Sprintf("who=s%d", i)]
			if len(ls) != 1 {
				ok = false
				break
			}
			parts = append(parts, fmt.Sprintf("s%d:%s", i, canon(ls[0])))
		}
		if ls := got["who=direct"]; ok && len(ls) == 1 {
			parts = append(parts, "direct:"+canon(ls[0]))
			cs.Line = strings.ReplaceAll(s.line(), "!", "")
			cs.Impl = strings.Join(parts, "|")
		}
	}
	col.Add(cs)
}

// a runner that returns at once and records what every execution was given
type seeRunner struct {
	mu  sync.Mutex
	bad []string
	n   int
}

func (r *seeRunner) Run(t *task.Task) error {
	who, _ := t.Env.Get("WHO").(string)
	a, _ := t.Env.Get("A").(string)
	x, _ := t.Variables.Get("x").(string)
	r.mu.Lock()
	r.n++
	if (a != who || x != who || t.Dir != "/dir/"+who) && len(r.bad) < 3 {
		r.bad = append(r.bad, fmt.Sprintf("execution of stage %s was given env A=%q, variable x=%q, dir %q", who, a, x, t.Dir))
	}
	r.mu.Unlock()
	return nil
}
func (r *seeRunner) Cancel() {}
func (r *seeRunner) Finish() {}

// many stages of several pipelines share one task and finish / start at the same instant, over and over: every
// execution is given exactly its own stage's overrides, and the task itself keeps its own settings
func stageCopyStressCase(col *Collector, d time.Duration) {
	cs := Case{Tags: []string{"copy-stress"}, NonTrivial: true,
		Replay: fmt.Sprintf("3 pipelines x 2 chains x 3 stages share one task (env A, variable x, dir overridden by every stage), instant runner, no pause, repeated for %v", d)}
	shared := task.NewTask()
	shared.Name = "shared"
	shared.Env = variables.FromMap(map[string]string{"A": "task", "WHO": "task"})
	shared.Variables = variables.FromMap(map[string]string{"x": "task"})
	shared.Dir = "/dir/task"
	r := &seeRunner{}
	deadline := time.Now().Add(d)
	rounds := 0
	for time.Now().Before(deadline) && len(r.bad) == 0 && cs.Fail == "" {
		rounds++
		var wg sync.WaitGroup
		for p := 0; p < 3; p++ {
			var stages []*scheduler.Stage
			for c := 0; c < 2; c++ {
				for k := 0; k < 3; k++ {
					id := fmt.Sprintf("p%dc%dk%d", p, c, k)
					st := &scheduler.Stage{Name: id, Task: shared, Dir: "/dir/" + id,
						Env: variables.FromMap(map[string]string{"WHO": id, "A": id}), Variables: variables.FromMap(map[string]string{"x": id})}
					if k > 0 {
						st.DependsOn = []string{fmt.Sprintf("p%dc%dk%d", p, c, k-1)}
					}
					stages = append(stages, st)
				}
			}
			g, err := scheduler.NewExecutionGraph(stages...)
			if err != nil {
				cs.Fail, cs.Sig = err.Error(), "c08-crash"
				break
			}
			sd := scheduler.NewScheduler(r)
			sd.VerifSetPause(0)
			wg.Add(1)
			go func() { defer wg.Done(); sd.Schedule(g) }()
		}
		wg.Wait()
		if a, _ := shared.Env.Get("A").(string); a != "task" || shared.Dir != "/dir/task" || shared.Variables.Get("x") != "task" {
			r.mu.Lock()
			r.bad = append(r.bad, fmt.Sprintf("after round %d the shared task itself has env A=%q, variable x=%v, dir %q", rounds, a, shared.Variables.Get("x"), shared.Dir))
			r.mu.Unlock()
		}
	}
	cs.Impl = fmt.Sprintf("rounds=%d executions=%d", rounds, r.n)
	if len(r.bad) > 0 && cs.Fail == "" {
		cs.Fail, cs.Sig = r.bad[0], "c08-leak"
	}
	col.Add(cs)
}

// a stage that FAILS (and does not allow failure) ends its pipeline; what it overrode must not stay on the task: a
// second pipeline on the same task, and a direct run, see the task's own settings
func failedStageLeakCase(col *Collector, variant int) {
	trace := newTracePath()
	defer os.Remove(trace)
	cs := Case{Tags: []string{"failed-stage"}, NonTrivial: true,
		Replay: fmt.Sprintf("stage s0 of pipeline p1 overrides env A, variable x and dir and fails without allow_failure (variant %d: 0 command exits 3, 1 undefined variable, 2 before hook fails); then pipeline p2 (stage q0, no overrides) and a direct run of the same task", variant)}
	shared := task.NewTask()
	shared.Name = "shared"
	shared.Commands = []string{fmt.Sprintf(c08Cmd, trace)}
	shared.Env = variables.FromMap(map[string]string{"A": "task-A"})
	shared.Variables = variables.FromMap(map[string]string{"x": "task-x"})
	env0 := map[string]string{"WHO": "s0", "A": "s0-A", "B": "s0-B", "FAILSTAGE": "3"}
	vars0 := map[string]string{"x": "s0-x", "y": "s0-y"}
	switch variant {
	case 1:
		delete(env0, "FAILSTAGE")
		shared.Commands = append(shared.Commands, "echo {{ .OnlyLater }}")
	case 2:
		delete(env0, "FAILSTAGE")
		shared.Before = []string{"test -z \"$B\""} // fails only where B is set: in stage s0
	}
	s0 := &scheduler.Stage{Name: "s0", Task: shared, Env: variables.FromMap(env0), Variables: variables.FromMap(vars0), Dir: os.TempDir()}
	q0 := &scheduler.Stage{Name: "q0", Task: shared, Env: variables.FromMap(map[string]string{"WHO": "q0"})}
	if variant == 1 {
		q0.Variables = variables.FromMap(map[string]string{"OnlyLater": "now"})
	}
	g1, err1 := scheduler.NewExecutionGraph(s0)
	g2, err2 := scheduler.NewExecutionGraph(q0)
	r, err3 := runner.NewTaskRunner()
	if err1 != nil || err2 != nil || err3 != nil {
		cs.Fail, cs.Sig = fmt.Sprint(err1, err2, err3), "c08-crash"
		col.Add(cs)
		return
	}
	r.Stdout, r.Stderr = devNull{}, devNull{}
	sd := scheduler.NewScheduler(r)
	sd.VerifSetPause(time.Millisecond)
	e1 := sd.Schedule(g1)
	sd.Schedule(g2)
	if variant == 1 {
		shared.Variables.Set("OnlyLater", "direct")
	}
	r.Run(shared)
	cwd, _ := os.Getwd()
	var got []string
	for _, l := range readWhoTrace(trace) {
		if strings.HasPrefix(l, "who=q0") || strings.HasPrefix(l, "who=direct") {
			got = append(got, l)
		}
	}
	want := []string{fmt.Sprintf("who=q0 A=task-A B= x=task-x y= pwd=%s", cwd), fmt.Sprintf("who=direct A=task-A B= x=task-x y= pwd=%s", cwd)}
	cs.Impl = strings.Join(got, " | ")
	switch {
	case e1 == nil:
		cs.Fail, cs.Sig = "the first pipeline did not fail (the scenario needs a failing stage)", "c08-crash"
	case strings.Join(got, " | ") != strings.Join(want, " | "):
		cs.Fail, cs.Sig = fmt.Sprintf("after the failed stage the later executions saw [%s], the task's own settings give [%s]", cs.Impl, strings.Join(want, " | ")), "c08-leak"
	}
	col.Add(cs)
}

// one task with condition / before / after hooks shared by three chained stages with different dir overrides and env
// overrides that BLANK a name (one that the task sets, one that only taskctl's own environment sets): every hook and the
// command of an execution see that execution's directory ($PWD and the pwd builtin included) and its env - an empty
// value is a value - then a direct run sees the task's own
func hookDirEnvCase(col *Collector, variant int) {
	base := newScratchDir("c08h")
	defer os.RemoveAll(base)
	trace := filepath.Join(base, "trace")
	dirs := map[string]string{}
	for _, d := range []string{"task", "one", "two"} {
		dirs[d] = filepath.Join(base, d)
		os.MkdirAll(dirs[d], 0755)
	}
	os.Setenv("C08_INHERITED", "from-the-process")
	os.Setenv("C08_ONLY_INHERITED", "only-the-process")
	defer os.Unsetenv("C08_INHERITED")
	defer os.Unsetenv("C08_ONLY_INHERITED")
	say := func(when string) string {
		return fmt.Sprintf(`echo "who=${WHO:-direct} when=%s pwd=$(pwd) PWD=$PWD I=[${C08_INHERITED-unset}] O=[${C08_ONLY_INHERITED-unset}]" >> %s`, when, trace)
	}
	t := task.NewTask()
	t.Name = "shared"
	t.Dir = dirs["task"]
	t.Env = variables.FromMap(map[string]string{"C08_INHERITED": "task"})
	// the condition is evaluated with the runner's env, not the task's (only its directory is the execution's)
	t.Condition = fmt.Sprintf(`echo "when=cond pwd=$(pwd) PWD=$PWD" >> %s`, trace)
	t.Before = []string{say("before")}
	t.Commands = []string{say("cmd")}
	t.After = []string{say("after")}
	type ov struct {
		dir string
		env map[string]string
	}
	ovs := []ov{{dirs["one"], map[string]string{"C08_INHERITED": ""}}, {dirs["two"], map[string]string{"C08_ONLY_INHERITED": "", "C08_INHERITED": "s1"}}, {"", nil}}
	if variant == 1 {
		ovs = []ov{ovs[2], ovs[1], ovs[0]}
	}
	var sts []*scheduler.Stage
	var want []string
	expect := func(who, dir, i, o string) {
		want = append(want, fmt.Sprintf("when=cond pwd=%s PWD=%s", dir, dir))
		for _, when := range []string{"before", "cmd", "after"} {
			want = append(want, fmt.Sprintf("who=%s when=%s pwd=%s PWD=%s I=[%s] O=[%s]", who, when, dir, dir, i, o))
		}
	}
	for i, o := range ovs {
		env := map[string]string{"WHO": fmt.Sprintf("s%d", i)}
		iv, ovv, dir := "task", "only-the-process", dirs["task"]
		for k, v := range o.env {
			env[k] = v
			if k == "C08_INHERITED" {
				iv = v
			} else {
				ovv = v
			}
		}
		if o.dir != "" {
			dir = o.dir
		}
		st := &scheduler.Stage{Name: fmt.Sprintf("s%d", i), Task: t, Dir: o.dir, Env: variables.FromMap(env)}
		if i > 0 {
			st.DependsOn = []string{fmt.Sprintf("s%d", i-1)}
		}
		sts = append(sts, st)
		expect(st.Name, dir, iv, ovv)
	}
	expect("direct", dirs["task"], "task", "only-the-process")
	cs := Case{Tags: []string{"hook-dir-env"}, NonTrivial: true, Replay: fmt.Sprintf("one task (dir task/, env C08_INHERITED=task, condition + before + command + after printing the directory and two names that taskctl's own environment sets) in three chained stages with overrides %v, then run directly", ovs)}
	func() {
		defer func() {
			if p := recover(); p != nil {
				cs.Fail, cs.Sig = fmt.Sprint("panic: ", p), "c08-crash"
			}
		}()
		g, err := scheduler.NewExecutionGraph(sts...)
		if err != nil {
			cs.Fail, cs.Sig = err.Error(), "c08-crash"
			return
		}
		r, err := runner.NewTaskRunner()
		if err != nil {
			cs.Fail, cs.Sig = err.Error(), "c08-crash"
			return
		}
		r.Stdout, r.Stderr = devNull{}, devNull{}
		sd := scheduler.NewScheduler(r)
		sd.VerifSetPause(time.Millisecond)
		done := make(chan error, 1)
		go func() { done <- sd.Schedule(g) }()
		select {
		case <-done:
		case <-time.After(15 * time.Second):
			cs.Fail, cs.Sig = "pipeline did not finish within 15s", "c08-crash"
			return
		}
		r.Run(t)
		got := readTrace(trace)
		cs.Impl = strings.Join(got, " | ")
		if strings.Join(got, "\n") != strings.Join(want, "\n") {
			for i := range want {
				if i >= len(got) || got[i] != want[i] {
					g := "(nothing)"
					if i < len(got) {
						g = got[i]
					}
					cs.Fail, cs.Sig = fmt.Sprintf("execution printed %q, its own directory and env give %q", g, want[i]), "c08-leak"
					break
				}
			}
			if cs.Fail == "" {
				cs.Fail, cs.Sig = fmt.Sprintf("%d lines printed, %d expected", len(got), len(want)), "c08-count"
			}
		}
	}()
	col.Add(cs)
}

func runC08(col *Collector, tier string, seed int64) {
	withEnvCase(col)
	for v := 0; v < 2; v++ {
		hookDirEnvCase(col, v)
	}
	derivedVarsCases(col, "c08-leak")
	derivedGenCases(col, rand.New(rand.NewSource(seed+1010)), map[bool]int{false: 40, true: 600}[tier == "thorough"], "c08-leak")
	for v := 0; v < 3; v++ {
		failedStageLeakCase(col, v)
	}
	stageCopyStressCase(col, map[bool]time.Duration{false: 2 * time.Second, true: 12 * time.Second}[tier == "thorough"])
	varsOpsCases(col, rand.New(rand.NewSource(seed+808)), map[bool]int{false: 200, true: 3000}[tier == "thorough"], "c08-leak")
	rng := rand.New(rand.NewSource(seed))
	col.res.Rule = "2..6 stages sharing one task, each with its own subset of env names {A,B}, variables {x,y} and dir override over task-level settings, in every dependency arrangement on <=4 stages (parallel / chain / mixed; all DAGs), " +
		"built as Stage values and through internal/config (buildPipeline), pipeline run 1-2 times with the real runner, followed by a direct run of the task; every execution prints what it sees. non-trivial = all; distinct = distinct specifications"
	dirs := []string{}
	base := newScratchDir("c08")
	defer os.RemoveAll(base)
	for _, d := range []string{"d0", "d1", "d2"} {
		p := filepath.Join(base, d)
		os.MkdirAll(p, 0755)
		dirs = append(dirs, p)
	}
	pick := func(keys []string, prefix string) map[string]string {
		m := map[string]string{}
		for _, k := range keys {
			if rng.Intn(2) == 0 {
				m[k] = fmt.Sprintf("%s-%s%d", prefix, k, rng.Intn(100))
				if rng.Intn(6) == 0 {
					m[k] = "" // defined, with an empty value: still overrides the level below
				}
			}
		}
		return m
	}
	var specs []c08Spec
	var tags []string
	mkCount := 0
	mk := func(n int, deps [][]int, yaml bool, runs int) c08Spec {
		s := c08Spec{taskEnv: pick([]string{"A", "B"}, "task"), taskVars: pick([]string{"x", "y"}, "task"), viaYAML: yaml, runs: runs}
		if rng.Intn(2) == 0 {
			s.taskDir = dirs[0]
		}
		if rng.Intn(3) == 0 {
			s.ctxEnv = pick([]string{"A", "B"}, "ctx")
			s.ctxEnv["A"] = "ctx-A" // the context always defines A: a stage or task value for A must hide it
		}
		if rng.Intn(3) == 0 {
			s.globVars = map[string]string{"x": "glob-x", "y": "glob-y"} // the runner defines both: stage and task values must hide them
		}
		for i := 0; i < n; i++ {
			o := stageOv{env: pick([]string{"A", "B"}, fmt.Sprintf("s%d", i)), vars: pick([]string{"x", "y"}, fmt.Sprintf("s%d", i)), deps: deps[i]}
			if rng.Intn(3) == 0 {
				o.dir = dirs[1+rng.Intn(2)]
			}
			o.fail = rng.Intn(4) == 0
			s.stages = append(s.stages, o)
		}
		mkCount++
		s.directFirst = mkCount%3 == 0 // (a counter, not a draw: the sample of everything else stays what it was)
		if rng.Intn(4) == 0 {
			// the task's dir is a template over x; x names one of the prepared directories at every level that sets it
			s.tmplBase, s.taskDir = base, ""
			s.taskVars["x"] = "d0"
			for i := range s.stages {
				if _, ok := s.stages[i].vars["x"]; ok || rng.Intn(2) == 0 {
					s.stages[i].vars["x"] = []string{"d1", "d2"}[rng.Intn(2)]
				}
			}
		}
		return s
	}
	for n := 2; n <= 4; n++ {
		for _, deps := range dagMasks(n) {
			reps := 1
			if tier == "thorough" {
				reps = 4
			}
			if n == 4 && tier != "thorough" && rng.Intn(2) == 0 {
				continue
			}
			for k := 0; k < reps; k++ {
				specs = append(specs, mk(n, deps, rng.Intn(2) == 0, 1+rng.Intn(2)))
				tags = append(tags, "all-dags")
			}
		}
	}
	nr := 20
	if tier == "thorough" {
		nr = 300
	}
	for i := 0; i < nr; i++ {
		n := 5 + rng.Intn(2)
		deps := make([][]int, n)
		for j := 0; j < n; j++ {
			for k := 0; k < j; k++ {
				if rng.Intn(4) == 0 {
					deps[j] = append(deps[j], k)
				}
			}
		}
		specs = append(specs, mk(n, deps, rng.Intn(2) == 0, 1+rng.Intn(2)))
		tags = append(tags, "random")
	}
	parallel(len(specs), 16, func(i int) { c08Case(col, specs[i], tags[i]) })
}

// concurrent `echo ... >> file` writers may interleave a line's text and its newline: split on the marker
func readWhoTrace(path string) []string {
	b, _ := os.ReadFile(path)
	var out []string
	for _, l := range strings.Split(strings.ReplaceAll(strings.ReplaceAll(string(b), "\n", ""), "who=", "\nwho="), "\n") {
		if l = strings.TrimSpace(l); l != "" {
			out = append(out, l)
		}
	}
	return out
}

// the exported Task.WithEnv (used by API clients to give one task an extra variable): a variable set on a copy of
// a task, or on one of two tasks built over the same env container, must not appear in the other
func withEnvCase(col *Collector) {
	trace := newTracePath()
	defer os.Remove(trace)
	cs := Case{Replay: "Task.WithEnv on a per-stage style copy of a task, then a run of the original", Tags: []string{"with-env-api"}, NonTrivial: true}
	shared := variables.FromMap(map[string]string{"BASE": "b"})
	orig := task.FromCommands(fmt.Sprintf("echo \"orig EXTRA=[${EXTRA:-}] BASE=[$BASE]\" >> %s", trace))
	orig.Name = "orig"
	orig.Env = shared
	cp := *orig // what the scheduler does for a stage
	cp.Commands = []string{fmt.Sprintf("echo \"copy EXTRA=[${EXTRA:-}] BASE=[$BASE]\" >> %s", trace)}
	cp.WithEnv("EXTRA", "only-for-the-copy")
	r, err := runner.NewTaskRunner()
	if err != nil {
		cs.Fail, cs.Sig = err.Error(), "c08-crash"
		col.Add(cs)
		return
	}
	r.Stdout, r.Stderr = devNull{}, devNull{}
	r.Run(&cp)
	r.Run(orig)
	got := strings.Join(readTrace(trace), " | ")
	want := "copy EXTRA=[only-for-the-copy] BASE=[b] | orig EXTRA=[] BASE=[b]"
	cs.Impl = got
	if got != want {
		cs.Fail, cs.Sig = fmt.Sprintf("executions saw [%s], expected [%s]", got, want), "c08-leak"
	}
	col.Add(cs)
}
