package main

import (
	"bytes"
	"context"
	"crypto/sha1"
	"fmt"
	"github.com/taskctl/taskctl/pkg/runner"
	"math/rand"
	"os"
	"os/exec"
	"path/filepath"
	"regexp"
	"strings"
	"sync"
	"time"

	"github.com/logrusorgru/aurora"

	"github.com/taskctl/taskctl/pkg/output"
	"github.com/taskctl/taskctl/pkg/task"
)

func init() { props["C19"] = runC19 }

// the same expression as pkg/output/prefixed.go (the property's "ANSI escape sequences")
const ansiExpr = "[\u001B\u009B][[\\]()#;?]*(?:(?:(?:[a-zA-Z\\d]*(?:;[a-zA-Z\\d]*)*)?\u0007)|(?:(?:\\d{1,4}(?:;\\d{0,4})*)?[\\dA-PRZcf-ntqry=><~]))"

var ansiRe = regexp.MustCompile(ansiExpr)

func stripANSI(b []byte) []byte { return ansiRe.ReplaceAllLiteral(b, nil) }

func stripTerminators(b []byte) []byte {
	out := make([]byte, 0, len(b))
	for _, c := range b {
		if c != '\r' && c != '\n' {
			out = append(out, c)
		}
	}
	return out
}

type recSink struct {
	mu    sync.Mutex
	calls [][]byte
}

func (s *recSink) Write(p []byte) (int, error) {
	s.mu.Lock()
	s.calls = append(s.calls, append([]byte(nil), p...))
	s.mu.Unlock()
	return len(p), nil
}

type outSpec struct {
	streams [][]byte   // one per task
	chunks  [][][]byte // the splitting of each stream into write calls
	format  string
	names   []string // task names (nil: w0, w1, ...)
}

// task names a prefix has to carry verbatim: format verbs, separators, template and quoting characters
var oddTaskNames = []string{"cover 100%", "fmt%s", "lint%d:all", "%", "100%% sure", "tab\there", "[x]", "{{.y}}", "back\\slash", "a: b", "ünï", "q\"uote", "%!s(MISSING)", "%v%v"}

func hexList(chunks [][]byte) string {
	p := make([]string, len(chunks))
	for i, c := range chunks {
		p[i] = fmt.Sprintf("%x", c)
	}
	return strings.Join(p, ",")
}

// does a chunk boundary fall strictly inside a match of the ANSI expression on the whole stream?
func boundaryInsideANSI(stream []byte, chunks [][]byte) bool {
	spans := ansiRe.FindAllIndex(stream, -1)
	pos := 0
	for _, c := range chunks[:len(chunks)-1] {
		pos += len(c)
		for _, sp := range spans {
			if sp[0] < pos && pos < sp[1] {
				return true
			}
		}
	}
	return false
}

func hasIntroducer(b []byte) bool {
	return bytes.IndexByte(b, 0x1b) >= 0 || bytes.Contains(b, []byte{0xc2, 0x9b})
}

func outCase(col *Collector, s outSpec, tag string) {
	sink := &recSink{}
	n := len(s.streams)
	tasks := make([]*task.Task, n)
	outs := make([]*output.TaskOutput, n)
	cs := Case{Tags: []string{tag, "format=" + s.format, fmt.Sprintf("writers=%d", n)}, NonTrivial: true}
	for i := range tasks {
		tasks[i] = task.NewTask()
		tasks[i].Name = fmt.Sprintf("w%d", i)
		if s.names != nil {
			tasks[i].Name = s.names[i]
		}
		o, err := output.NewTaskOutput(tasks[i], s.format, sink, sink)
		if err != nil {
			cs.Fail, cs.Sig = err.Error(), "c19-setup"
			col.Add(cs)
			return
		}
		outs[i] = o
	}
	var wg sync.WaitGroup
	var pan string
	for i := range tasks {
		wg.Add(1)
		go func(i int) {
			defer wg.Done()
			defer func() {
				if p := recover(); p != nil {
					pan = fmt.Sprint(p)
				}
			}()
			w := outs[i].Stdout()
			for _, c := range s.chunks[i] {
				w.Write(c)
			}
			outs[i].Finish()
		}(i)
	}
	wg.Wait()
	total := 0
	for _, st := range s.streams {
		total += len(st)
	}
	cs.Replay = fmt.Sprintf("output format=%s writers=%d bytes=%d chunks(w0)=%s", s.format, n, total, clipStr(hexList(s.chunks[0]), 600))
	if s.names != nil {
		cs.Replay += fmt.Sprintf(" task names %q", s.names)
		cs.Tags = append(cs.Tags, "odd-task-names")
	}
	if pan != "" {
		cs.Fail, cs.Sig = "output layer panicked: "+pan, "c19-panic"
		col.Add(cs)
		return
	}
	if n == 1 && s.format == output.FormatPrefixed && !hasIntroducer(s.streams[0]) && total < 4000 {
		// compared with the Lean model: the list of payloads handed to the sink
		cs.Line = "prefixed " + hexList(s.chunks[0])
	}
	for i := range tasks {
		if !bytes.Equal(tasks[i].Log.Stdout.Bytes(), s.streams[i]) && cs.Fail == "" {
			cs.Fail, cs.Sig = fmt.Sprintf("task w%d: the recorded output (%d bytes) differs from what the task wrote (%d bytes) under format %s", i, tasks[i].Log.Stdout.Len(), len(s.streams[i]), s.format), "c19-recorded-result"
		}
	}
	switch s.format {
	case output.FormatRaw:
		// raw forwards the bytes unchanged and in order (per writer; with one writer: exactly)
		if n == 1 {
			var got []byte
			for _, c := range sink.calls {
				got = append(got, c...)
			}
			if !bytes.Equal(got, s.streams[0]) {
				cs.Fail, cs.Sig = fmt.Sprintf("raw output differs from the task's bytes (%d vs %d bytes)", len(got), len(s.streams[0])), "c19-raw"
			}
		}
	case output.FormatPrefixed:
		perTask := make([][][]byte, n)
		for _, call := range sink.calls {
			owner := -1
			for i := range tasks {
				pre := []byte(fmt.Sprintf("%s: ", aurora.Cyan(tasks[i].Name)))
				if bytes.HasPrefix(call, pre) {
					owner = i
					payload := call[len(pre):]
					if !bytes.HasSuffix(payload, []byte("\r\n")) {
						cs.Fail, cs.Sig = fmt.Sprintf("emitted line is not terminated: %q", clipStr(string(call), 80)), "c19-whole-lines"
					}
					payload = bytes.TrimSuffix(payload, []byte("\r\n"))
					if bytes.IndexByte(payload, '\n') >= 0 {
						cs.Fail, cs.Sig = fmt.Sprintf("one emitted line carries a line break: %q", clipStr(string(call), 80)), "c19-whole-lines"
					}
					perTask[i] = append(perTask[i], payload)
				}
			}
			if owner < 0 && cs.Fail == "" {
				cs.Fail, cs.Sig = fmt.Sprintf("emitted line carries no task prefix: %q", clipStr(string(call), 80)), "c19-no-prefix"
			}
		}
		var payloadHex []string
		for i := range tasks {
			var got []byte
			for _, p := range perTask[i] {
				got = append(got, stripANSI(p)...)
				if i == 0 {
					payloadHex = append(payloadHex, fmt.Sprintf("%x", p))
				}
			}
			got = stripTerminators(got)
			want := stripTerminators(stripANSI(s.streams[i]))
			if !bytes.Equal(got, want) && cs.Fail == "" {
				sig := "c19-loss"
				if boundaryInsideANSI(s.streams[i], s.chunks[i]) {
					sig = "c19-ansi-split-by-write"
				}
				cs.Fail, cs.Sig = fmt.Sprintf("task w%d: after removing prefixes, terminators and ANSI sequences the emitted text (%d bytes) differs from the task's (%d bytes): %q vs %q",
					i, len(got), len(want), clipStr(string(got), 60), clipStr(string(want), 60)), sig
			}
		}
		cs.Impl = strings.Join(payloadHex, ",")
	}
	col.Add(cs)
}

func genStream(rng *rand.Rand, ansi bool, maxLine int) []byte {
	var b []byte
	nl := 1 + rng.Intn(6)
	seqs := []string{"\x1b[31m", "\x1b[0m", "\x1b[1;32m", "\x1b[2K", "\x1b[10;20H", "\x1b]0;title\x07", "\x1b(B", "\u009b33m"}
	for i := 0; i < nl; i++ {
		ll := rng.Intn(maxLine + 1)
		if rng.Intn(4) == 0 {
			ll = 0
		}
		for k := 0; k < ll; k++ {
			if ansi && rng.Intn(12) == 0 {
				b = append(b, seqs[rng.Intn(len(seqs))]...)
			} else {
				b = append(b, "abcdefghijklmnopqrstuvwxyz ABC0123456789:;[]m"[rng.Intn(45)])
			}
		}
		if i < nl-1 || rng.Intn(2) == 0 {
			b = append(b, []string{"\n", "\r\n", "\n", "\r"}[rng.Intn(4)]...)
		}
	}
	return b
}

func chunkings(rng *rand.Rand, stream []byte, avoidANSI bool) [][]byte {
	if len(stream) == 0 {
		return [][]byte{{}}
	}
	spans := ansiRe.FindAllIndex(stream, -1)
	inside := func(pos int) bool {
		for _, sp := range spans {
			if sp[0] < pos && pos < sp[1] {
				return true
			}
		}
		return false
	}
	var out [][]byte
	pos := 0
	for pos < len(stream) {
		step := 1 + rng.Intn(1+len(stream)/3)
		if rng.Intn(4) == 0 {
			step = 1
		}
		end := pos + step
		if end > len(stream) {
			end = len(stream)
		}
		for avoidANSI && end < len(stream) && inside(end) {
			end++
		}
		out = append(out, stream[pos:end])
		pos = end
	}
	if rng.Intn(5) == 0 {
		out = append(out, []byte{}) // an empty write
	}
	return out
}

// ---- the three formats through the real binary: result fields and no crash ----

func formatOutcomeCase(col *Collector, dir string, format string, outcome string) {
	res := runTaskctl(dir, nil, 20*time.Second, "-c", filepath.Join(dir, "fmt.yaml"), "--output", format, outcome)
	cs := Case{Tags: []string{"format-outcome", "format=" + format}, NonTrivial: true, Replay: fmt.Sprintf("taskctl --output %s %s", format, outcome)}
	wantExit := map[string]int{"succeeds": 0, "fails": 1, "skipped": 0, "beforefails": 1, "allowed": 0, "coloured": 0}[outcome]
	cs.Impl = fmt.Sprintf("exit=%d", res.exit)
	switch {
	case res.timedOut:
		cs.Fail, cs.Sig = "did not finish within 20s", "c19-format-hang"
	case res.panicked || (res.exit != 0 && res.exit != 1):
		cs.Fail, cs.Sig = fmt.Sprintf("output layer crashed (exit %d): %s", res.exit, clipStr(firstPanicLine(res.stderr), 160)), "c19-cockpit-nil-spinner"
	case res.exit != wantExit:
		cs.Fail, cs.Sig = fmt.Sprintf("exit status %d under --output %s, expected %d as under the other formats", res.exit, format, wantExit), "c19-format-dependent-result"
	}
	col.Add(cs)
}

const fmtConfig = `
tasks:
  succeeds: {command: ["echo fine"]}
  fails: {command: ["echo bad; exit 3"]}
  skipped: {command: ["echo never"], condition: "false"}
  beforefails: {command: ["echo never"], before: ["exit 2"]}
  allowed: {command: ["exit 4", "echo after"], allow_failure: true}
  coloured: {command: ["/bin/echo -e 'plain \\033[32mgreen\\033[0m'", "/bin/echo -e '\\033[1;31mred'"]}
  inter: {command: ["echo one"], interactive: true}
  last: {command: ["echo three"]}
pipelines:
  mixed:
    - task: succeeds
    - task: skipped
      depends_on: [succeeds]
    - task: allowed
    - task: last
      depends_on: [skipped, allowed]
  mixedfail:
    - task: succeeds
    - task: beforefails
      depends_on: [succeeds]
    - task: last
      depends_on: [beforefails]
`

var cockpitFinished = regexp.MustCompile(`Finished \x1b\[1m(\w+)\x1b\[0m`)

// several targets on one command line (one runner, one output layer): the outcome of one task must not disturb
// the decoration of the next one; the exit status is that of the raw format
func formatSequenceCase(col *Collector, dir string, format string, targets []string) {
	args := append([]string{"-c", filepath.Join(dir, "fmt.yaml"), "--output", format}, targets...)
	res := runTaskctl(dir, nil, 30*time.Second, args...)
	cs := Case{Tags: []string{"format-sequence", "format=" + format}, NonTrivial: true, Replay: "taskctl " + strings.Join(args[2:], " ")}
	prints := map[string]string{"succeeds": "fine", "fails": "bad", "allowed": "after", "last": "three", "inter": "one"}
	wantExit := 0
	var executed []string
	for _, t := range targets {
		switch t {
		case "mixed":
			executed = append(executed, "succeeds", "allowed", "last")
		case "mixedfail":
			executed = append(executed, "succeeds")
			wantExit = 1
		default:
			executed = append(executed, t)
			if t == "fails" || t == "beforefails" {
				wantExit = 1
			}
		}
		if wantExit != 0 {
			break
		}
	}
	cs.Impl = fmt.Sprintf("exit=%d", res.exit)
	lost := ""
	if format == "cockpit" && !strings.Contains(strings.Join(targets, " "), "mixed") {
		// the "Finished" lines of the cockpit against the model: targets run one after the other; a task that never
		// starts its output (skipped, failing before hook) is only removed
		ids := map[string]int{"succeeds": 1, "fails": 2, "skipped": 3, "beforefails": 4, "allowed": 5, "coloured": 6, "inter": 7, "last": 8}
		var acts, got []string
		for _, t := range executed {
			if t == "inter" {
				continue // an interactive task is always shown raw: the cockpit never hears of it
			}
			if t == "skipped" || t == "beforefails" {
				acts = append(acts, fmt.Sprintf("r%d", ids[t]))
			} else {
				acts = append(acts, fmt.Sprintf("a%d", ids[t]), fmt.Sprintf("r%d", ids[t]))
			}
		}
		for _, m := range cockpitFinished.FindAllStringSubmatch(res.stdout, -1) {
			got = append(got, fmt.Sprint(ids[m[1]]))
		}
		cs.Line = "cockpit " + strings.Join(acts, " ")
		cs.Impl = "finished=" + strings.Join(got, ",")
		// independent of the model: every task that was shown as running is reported as finished before taskctl exits
		for _, t := range executed {
			if t == "inter" || t == "skipped" || t == "beforefails" {
				continue
			}
			seen := false
			for _, g := range got {
				seen = seen || g == fmt.Sprint(ids[t])
			}
			if !seen && !res.timedOut && !res.panicked {
				lost = fmt.Sprintf("task %s ran under the cockpit format and taskctl exited without its \"Finished\" line (lines printed for: %s)", t, strings.Join(got, ","))
			}
		}
	}
	switch {
	case res.timedOut:
		cs.Fail, cs.Sig = "did not finish within 30s", "c19-format-hang"
	case res.panicked || (res.exit != 0 && res.exit != 1):
		cs.Fail, cs.Sig = fmt.Sprintf("output layer crashed (exit %d): %s", res.exit, clipStr(firstPanicLine(res.stderr), 160)), "c19-format-crash"
	case res.exit != wantExit:
		cs.Fail, cs.Sig = fmt.Sprintf("exit status %d under --output %s, expected %d as under the other formats", res.exit, format, wantExit), "c19-format-dependent-result"
	case lost != "":
		cs.Fail, cs.Sig = lost, "c19-cockpit-lines-lost"
	default:
		for _, t := range executed {
			text, ok := prints[t]
			if !ok || format == "cockpit" {
				continue
			}
			prefixed := t + "\x1b[0m: " + text
			switch {
			case !strings.Contains(res.stdout, text):
				cs.Fail, cs.Sig = fmt.Sprintf("the output %q of task %s is missing under --output %s", text, t, format), "c19-sequence-lost"
			case format == "prefixed" && t != "inter" && !strings.Contains(res.stdout, prefixed):
				cs.Fail, cs.Sig = fmt.Sprintf("under --output prefixed the line %q of task %s does not carry its task name", text, t), "c19-sequence-no-prefix"
			case format == "raw" && strings.Contains(res.stdout, prefixed):
				cs.Fail, cs.Sig = fmt.Sprintf("under --output raw the line %q of task %s is decorated", text, t), "c19-sequence-decorated"
			}
			if cs.Fail != "" {
				break
			}
		}
	}
	col.Add(cs)
}

func runC19(col *Collector, tier string, seed int64) {
	rng := rand.New(rand.NewSource(seed))
	col.res.Rule = "output.NewTaskOutput with a recording sink: byte streams from a line grammar (lines 0..200 bytes, some up to 10000, LF/CRLF/CR/none, unterminated tail, ANSI SGR/cursor/OSC sequences) under random and adversarial splittings into write calls (every split point for short streams), 1..8 concurrent writers, raw and prefixed; " +
		"normalisation with Go's own regexp; the three formats x {success, failure, skipped, failing before, allowed failure} through the real binary. non-trivial = all; distinct = distinct (stream, chunking)"
	var specs []outSpec
	var tags []string
	// every split point of short streams (two chunks), single writer
	shorts := [][]byte{[]byte("ab\ncd\n"), []byte("a\r\nb"), []byte("\n\nx\n"), []byte("tail"), []byte("x\r"), []byte("\x1b[31mred\x1b[0m\nplain\n"), []byte("a\x1b[1;32mb\n")}
	for _, st := range shorts {
		for cut := 0; cut <= len(st); cut++ {
			specs = append(specs, outSpec{streams: [][]byte{st}, chunks: [][][]byte{{st[:cut], st[cut:]}}, format: output.FormatPrefixed})
			tags = append(tags, "every-split")
			specs = append(specs, outSpec{streams: [][]byte{st}, chunks: [][][]byte{{st[:cut], st[cut:]}}, format: output.FormatRaw})
			tags = append(tags, "every-split")
		}
	}
	// always: lines longer than a buffered writer's 4096 bytes, with colour sequences inside, handed over in ONE write
	// (such a write bypasses the buffer: the decorator sees the caller's own slice), alone and between short lines
	for _, size := range []int{4090, 4096, 4097, 5000, 9000, 20000} {
		long := bytes.Repeat([]byte("0123456789"), size/10)
		copy(long[size/2:], "\x1b[31mred\x1b[0m")
		copy(long[10:], "\x1b[1;32m")
		for _, st := range [][]byte{append(append([]byte{}, long...), '\n'), append(append([]byte("short\n"), long...), []byte("\nlast\n")...)} {
			for _, f := range []string{output.FormatPrefixed, output.FormatRaw} {
				specs = append(specs, outSpec{streams: [][]byte{st}, chunks: [][][]byte{{st}}, format: f})
				tags = append(tags, "long-coloured-line")
			}
		}
	}
	// always: several tasks printing long lines (4500..5500 bytes, each line in one write) at the same time
	for _, writers := range []int{2, 4, 8} {
		for _, f := range []string{output.FormatPrefixed, output.FormatRaw} {
			s := outSpec{format: f}
			for w := 0; w < writers; w++ {
				var st []byte
				var ch [][]byte
				for l := 0; l < 40; l++ {
					line := append(bytes.Repeat([]byte{byte('a' + w)}, 4500+(l*37+w*101)%1000), '\n')
					copy(line, fmt.Sprintf("w%d-line%02d:", w, l))
					st = append(st, line...)
					ch = append(ch, line)
				}
				s.streams = append(s.streams, st)
				s.chunks = append(s.chunks, ch)
			}
			specs = append(specs, s)
			tags = append(tags, "long-lines-concurrently")
		}
	}
	n := 250
	if tier == "thorough" {
		n = 5000
	}
	for i := 0; i < n; i++ {
		writers := 1
		if i%3 == 0 {
			writers = 1 + rng.Intn(8)
		}
		ansi := i%2 == 0
		avoid := i%4 != 0 // a quarter of the ANSI cases may split inside a sequence (the known finding)
		maxLine := 40
		switch rng.Intn(10) {
		case 0:
			maxLine = 200
		case 1:
			maxLine = 10000
		}
		s := outSpec{format: []string{output.FormatPrefixed, output.FormatPrefixed, output.FormatRaw}[rng.Intn(3)]}
		for w := 0; w < writers; w++ {
			st := genStream(rng, ansi, maxLine)
			s.streams = append(s.streams, st)
			s.chunks = append(s.chunks, chunkings(rng, st, avoid))
		}
		if i%5 == 1 {
			off := rng.Intn(len(oddTaskNames))
			for w := 0; w < writers; w++ {
				s.names = append(s.names, oddTaskNames[(off+w)%len(oddTaskNames)])
			}
		}
		specs = append(specs, s)
		tags = append(tags, map[bool]string{true: "ansi", false: "plain"}[ansi])
	}
	parallel(len(specs), 16, func(i int) { outCase(col, specs[i], tags[i]) })
	dir := newScratchDir("c19")
	defer os.RemoveAll(dir)
	os.WriteFile(filepath.Join(dir, "fmt.yaml"), []byte(fmtConfig), 0644)
	var jobs [][2]string
	for _, f := range []string{"raw", "prefixed", "cockpit"} {
		for _, o := range []string{"succeeds", "fails", "skipped", "beforefails", "allowed", "coloured"} {
			jobs = append(jobs, [2]string{f, o})
		}
	}
	parallel(len(jobs), 8, func(i int) { formatOutcomeCase(col, dir, jobs[i][0], jobs[i][1]) })
	seqs := [][]string{{"succeeds", "skipped"}, {"succeeds", "skipped", "last"}, {"succeeds", "beforefails"}, {"skipped", "succeeds"}, {"allowed", "skipped", "last"},
		{"inter", "last"}, {"succeeds", "inter", "last"}, {"inter", "succeeds", "skipped", "last"}, {"mixed"}, {"mixedfail"}, {"succeeds", "mixed"}, {"mixed", "last"}, {"succeeds", "fails", "last"}}
	type sj struct {
		f string
		t []string
	}
	var sjobs []sj
	for _, f := range []string{"raw", "prefixed", "cockpit"} {
		for _, t := range seqs {
			sjobs = append(sjobs, sj{f, t})
		}
	}
	parallel(len(sjobs), 8, func(i int) { formatSequenceCase(col, dir, sjobs[i].f, sjobs[i].t) })
	recordedAcrossFormats(col)
	for _, oc := range []string{"succeeded", "failed", "succeeded", "failed"} {
		cockpitGateCase(col, oc)
	}
	if tier == "thorough" {
		cockpitStressCase(col, 16, 3000)
		cockpitStressCaseW(col, 16, 1500, 2*time.Millisecond)
	} else {
		cockpitStressCase(col, 16, 600)
		cockpitStressCaseW(col, 16, 300, 2*time.Millisecond)
	}
}

// what a run records about the task (status fields and the captured stdout / stderr) under each of the three
// formats: the format is presentation only
func recordedAcrossFormats(col *Collector) {
	type outcome struct {
		name string
		mk   func() *task.Task
	}
	outcomes := []outcome{
		{"success", func() *task.Task { return task.FromCommands("echo out; echo err >&2") }},
		{"failure-with-stderr", func() *task.Task {
			return task.FromCommands("echo out; echo first >&2; echo 'no such file' >&2; exit 3")
		}},
		{"failure-silent", func() *task.Task { return task.FromCommands("exit 4") }},
		{"failure-stdout-only", func() *task.Task { return task.FromCommands("echo only-out; exit 5") }},
		{"allowed-failure", func() *task.Task {
			t := task.FromCommands("echo a; echo oops >&2; exit 6", "echo b")
			t.AllowFailure = true
			return t
		}},
		// a lot of output: in one write of a builtin, in the large pipe reads of an external command, without newline
		{"long-line-from-a-builtin", func() *task.Task {
			return task.FromCommands("echo " + strings.Repeat("x", 9000) + "; echo tail")
		}},
		{"many-lines-from-a-command", func() *task.Task { return task.FromCommands("seq 1 3000; seq 1 2000 >&2; echo tail") }},
		{"large-output-then-failure", func() *task.Task {
			return task.FromCommands("head -c 70000 /dev/zero | tr '\\0' z; seq 1 3000 >&2; exit 7")
		}},
		{"large-allowed-failure", func() *task.Task {
			t := task.FromCommands("seq 1 5000; exit 2", "printf '%s' "+strings.Repeat("y", 5000))
			t.AllowFailure = true
			return t
		}},
		{"skipped", func() *task.Task { t := task.FromCommands("echo never"); t.Condition = "false"; return t }},
		{"before-fails", func() *task.Task {
			t := task.FromCommands("echo never")
			t.Before = []string{"echo hook >&2; exit 2"}
			return t
		}},
	}
	for _, o := range outcomes {
		rec := map[string]string{}
		cs := Case{Replay: "recorded result of outcome " + o.name + " under raw / prefixed / cockpit", Tags: []string{"recorded-across-formats"}, NonTrivial: true}
		for _, f := range []string{output.FormatRaw, output.FormatPrefixed, output.FormatCockpit} {
			t := o.mk()
			t.Name = "rec"
			r, err := runner.NewTaskRunner()
			if err != nil {
				cs.Fail, cs.Sig = err.Error(), "c19-setup"
				break
			}
			r.Stdout, r.Stderr = devNull{}, devNull{}
			r.OutputFormat = f
			done := make(chan error, 1)
			go func() {
				defer func() {
					if p := recover(); p != nil {
						done <- fmt.Errorf("PANIC: %v", p)
					}
				}()
				done <- r.Run(t)
			}()
			var rerr error
			select {
			case rerr = <-done:
			case <-time.After(20 * time.Second):
				cs.Fail, cs.Sig = "the run did not return under format "+f, "c19-format-hang"
			}
			if cs.Fail != "" {
				break
			}
			so, se := t.Log.Stdout.String(), t.Log.Stderr.String()
			if len(so) > 300 {
				so = fmt.Sprintf("%d bytes %x ...%s", len(so), sha1.Sum([]byte(so)), so[len(so)-40:])
			}
			if len(se) > 300 {
				se = fmt.Sprintf("%d bytes %x ...%s", len(se), sha1.Sum([]byte(se)), se[len(se)-40:])
			}
			rec[f] = fmt.Sprintf("err=%v errored=%v skipped=%v exit=%d stdout=%q stderr=%q", rerr != nil, t.Errored, t.Skipped, t.ExitCode, so, se)
		}
		cs.Impl = rec[output.FormatRaw]
		for _, f := range []string{output.FormatPrefixed, output.FormatCockpit} {
			if cs.Fail == "" && rec[f] != rec[output.FormatRaw] {
				cs.Fail, cs.Sig = fmt.Sprintf("recorded result under %s: %s; under raw: %s", f, rec[f], rec[output.FormatRaw]), "c19-recorded-result"
			}
		}
		col.Add(cs)
	}
}

// the cockpit under stress: many tasks finishing (successfully and not) while the indicator is being redrawn, on one
// runner - the run must return; a lock taken in two orders by the finishing task and the redraw goroutine shows as a hang
// a terminal that takes its time: every write lasts a moment, so that a redraw of the indicator is a window other
// goroutines can fall into
type slowWriter struct{ d time.Duration }

func (w slowWriter) Write(p []byte) (int, error) {
	time.Sleep(w.d)
	return len(p), nil
}

func cockpitStressCase(col *Collector, workers, rounds int) {
	cockpitStressCaseW(col, workers, rounds, 0)
}

func cockpitStressCaseW(col *Collector, workers, rounds int, slow time.Duration) {
	cs := Case{Replay: fmt.Sprintf("cockpit format: %d workers x %d tasks each (every second one fails) on one runner; every write to the terminal takes %v", workers, rounds, slow), Tags: []string{"cockpit-stress"}, NonTrivial: true}
	r, err := runner.NewTaskRunner()
	if err != nil {
		cs.Fail, cs.Sig = err.Error(), "c19-setup"
		col.Add(cs)
		return
	}
	r.Stdout, r.Stderr = devNull{}, devNull{}
	if slow > 0 {
		r.Stdout, r.Stderr = slowWriter{slow}, slowWriter{slow}
	}
	r.OutputFormat = output.FormatCockpit
	done := make(chan string, workers)
	for w := 0; w < workers; w++ {
		go func(w int) {
			defer func() {
				if p := recover(); p != nil {
					done <- fmt.Sprint("PANIC: ", p)
				}
			}()
			for i := 0; i < rounds; i++ {
				t := task.FromCommands(fmt.Sprintf("exit %d", i%2))
				t.Name = fmt.Sprintf("w%d", w) // one name per worker: the runner keeps an output variable per task name
				e := r.Run(t)
				if (e != nil) != (i%2 == 1) || t.Errored != (i%2 == 1) {
					done <- fmt.Sprintf("task %s: error=%v errored=%v, its command exits %d", t.Name, e, t.Errored, i%2)
					return
				}
			}
			done <- ""
		}(w)
	}
	deadline := time.After(60 * time.Second)
	for w := 0; w < workers && cs.Fail == ""; w++ {
		select {
		case msg := <-done:
			if msg != "" {
				cs.Fail, cs.Sig = msg, "c19-format-dependent-result"
			}
		case <-deadline:
			cs.Fail, cs.Sig = "tasks finishing under the cockpit format: the runs did not return within 60s", "c19-format-hang"
		}
	}
	cs.Impl = "returned=" + fmt.Sprint(cs.Fail == "")
	col.Add(cs)
}

// ---- the cockpit with a terminal that stops in the middle of a redraw ----

func init() { childFns["cockpitgate"] = cockpitGateChild }

// gateWriter lets everything through until the redraw goroutine erases the indicator for the second time; that write
// blocks until the gate is opened (the redraw goroutine is then inside its frame, holding whatever it holds)
type gateWriter struct {
	mu      sync.Mutex
	erases  int
	entered chan struct{}
	release chan struct{}
}

func (w *gateWriter) Write(p []byte) (int, error) {
	if bytes.Contains(p, []byte("\b")) || bytes.Contains(p, []byte("\x1b[K")) {
		w.mu.Lock()
		w.erases++
		n := w.erases
		w.mu.Unlock()
		if n == 2 {
			close(w.entered)
			<-w.release
		}
	}
	return len(p), nil
}

// child process (the cockpit is one per process): a task is shown as running; while a redraw is stopped in the middle
// of its erase, the task ends - successfully or not (args[0]) - and its output is finished. Finishing a task never
// waits for the terminal: it returns while the redraw is still stopped, and the layer closes once the gate opens.
func cockpitGateChild(args []string) {
	failed := args[0] == "failed"
	w := &gateWriter{entered: make(chan struct{}), release: make(chan struct{})}
	t := task.FromCommands("true")
	t.Name = "gated"
	o, err := output.NewTaskOutput(t, output.FormatCockpit, w, w)
	if err != nil {
		fmt.Println("RESULT setup " + err.Error())
		return
	}
	if err := o.Start(); err != nil {
		fmt.Println("RESULT setup " + err.Error())
		return
	}
	select {
	case <-w.entered:
	case <-time.After(5 * time.Second):
		fmt.Println("RESULT no-redraw")
		return
	}
	t.Errored = failed
	if failed {
		t.ExitCode = 3
	}
	fin := make(chan error, 1)
	go func() { fin <- o.Finish() }()
	finishedInFrame := false
	select {
	case <-fin:
		finishedInFrame = true
	case <-time.After(1500 * time.Millisecond):
	}
	close(w.release)
	finishedAtAll := finishedInFrame
	if !finishedAtAll {
		select {
		case <-fin:
			finishedAtAll = true
		case <-time.After(3 * time.Second):
		}
	}
	closed := make(chan struct{})
	go func() { output.Close(); close(closed) }()
	closedOK := false
	select {
	case <-closed:
		closedOK = true
	case <-time.After(3 * time.Second):
	}
	fmt.Printf("RESULT finish-returned-during-the-frame=%v finish-returned=%v close-returned=%v\n", finishedInFrame, finishedAtAll, closedOK)
}

func cockpitGateCase(col *Collector, outcome string) {
	cs := Case{Tags: []string{"cockpit-gated-redraw"}, NonTrivial: true, Replay: fmt.Sprintf("cockpit format: a task shown as running ends (%s) while a redraw of the indicator is stopped in the middle of its erase by the terminal; then the layer is closed", outcome)}
	self, _ := os.Executable()
	ctx, cancel := context.WithTimeout(context.Background(), 20*time.Second)
	defer cancel()
	out, err := exec.CommandContext(ctx, self, "-child", "cockpitgate", outcome).CombinedOutput()
	res := ""
	for _, l := range strings.Split(string(out), "\n") {
		if strings.HasPrefix(l, "RESULT ") {
			res = strings.TrimPrefix(l, "RESULT ")
		}
	}
	cs.Impl = res
	switch {
	case ctx.Err() != nil || res == "":
		cs.Fail, cs.Sig = fmt.Sprintf("the child did not report within 20s (%v): %s", err, clipStr(firstPanicLine(string(out)), 200)), "c19-format-hang"
	case strings.Contains(res, "setup") || strings.Contains(res, "no-redraw"):
		cs.Fail, cs.Sig = "scenario could not be set up: "+res, "c19-setup"
	case !strings.Contains(res, "finish-returned=true") || !strings.Contains(res, "close-returned=true"):
		cs.Fail, cs.Sig = "a task that ended during a redraw: "+res+" (the output layer hangs)", "c19-format-hang"
	}
	col.Add(cs)
}
