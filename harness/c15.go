package main

import (
	"bytes"
	"context"
	"fmt"
	"math/rand"
	"os"
	"os/exec"
	"path/filepath"
	"sort"
	"strings"
	"time"

	"github.com/taskctl/taskctl/pkg/utils"
	"github.com/taskctl/taskctl/pkg/verifhooks"
)

func init() { props["C15"] = runC15 }

type loadCase struct {
	desc    string
	format  string
	text    string
	envFile string            // content of env_file "envf" next to the config ("" = none)
	part    string            // content of "part.yaml" next to the config ("" = none)
	files   map[string]string // further files next to the config (relative path -> content)
	tasks   []string
	pipes   []string
}

func loadCaseRun(col *Collector, lc loadCase, tag string) {
	dir := newScratchDir("c15")
	defer os.RemoveAll(dir)
	cfgPath := filepath.Join(dir, "cfg."+lc.format)
	os.WriteFile(cfgPath, []byte(lc.text), 0644)
	if lc.envFile != "" {
		os.WriteFile(filepath.Join(dir, "envf"), []byte(lc.envFile), 0644)
	}
	if lc.part != "" {
		os.WriteFile(filepath.Join(dir, "part.yaml"), []byte(lc.part), 0644)
	}
	for rel, content := range lc.files {
		os.MkdirAll(filepath.Dir(filepath.Join(dir, rel)), 0755)
		os.WriteFile(filepath.Join(dir, rel), []byte(content), 0644)
	}
	cs := Case{Tags: []string{tag, "format=" + lc.format}, NonTrivial: true}
	cs.Replay = fmt.Sprintf("load %s [%s]: %s", lc.format, lc.desc, clipStr(strings.ReplaceAll(lc.text, "\n", "\\n"), 700))
	if lc.envFile != "" {
		cs.Replay += " env_file=" + clipStr(fmt.Sprintf("%q", lc.envFile), 200)
	}
	check := func(what string, args ...string) bool {
		r := runTaskctl(dir, nil, 8*time.Second, args...)
		abnormal := r.timedOut || r.panicked || (r.exit != 0 && r.exit != 1)
		if abnormal {
			sig := "c15-crash"
			l := firstPanicLine(r.stderr)
			switch {
			case r.timedOut:
				sig = "c15-hang"
			case strings.Contains(l, "nil pointer") || strings.Contains(l, "invalid memory"):
				sig = "c15-nil-deref"
			case strings.Contains(l, "interface conversion"):
				sig = "c15-type-assertion"
			case strings.Contains(l, "index out of range"):
				sig = "c15-index"
			case strings.Contains(l, "stack overflow") || strings.Contains(r.stderr, "goroutine stack exceeds"):
				sig = "c15-stack-overflow"
			}
			cs.Fail, cs.Sig = fmt.Sprintf("%s: exit=%d timeout=%v: %s", what, r.exit, r.timedOut, clipStr(l, 200)), sig
		}
		cs.Impl = fmt.Sprintf("%s exit=%d", what, r.exit)
		return !abnormal && r.exit == 0
	}
	if lc.format == "yaml" && lc.envFile == "" {
		// the same document found by default resolution (tasks.yaml in the start directory, no -c)
		ddir := filepath.Join(dir, "default")
		os.MkdirAll(ddir, 0755)
		os.WriteFile(filepath.Join(ddir, "tasks.yaml"), []byte(lc.text), 0644)
		r := runTaskctl(ddir, nil, 8*time.Second, "list")
		if r.timedOut || r.panicked || (r.exit != 0 && r.exit != 1) {
			cs.Fail, cs.Sig = fmt.Sprintf("list (default config resolution): exit=%d timeout=%v: %s", r.exit, r.timedOut, clipStr(firstPanicLine(r.stderr), 200)), "c15-default-resolution-crash"
		}
	}
	if lc.format == "yaml" && cs.Fail == "" {
		// the same document as the user's GLOBAL configuration ($HOME/.taskctl/config.yaml) next to a sound project file
		gdir := filepath.Join(dir, "global")
		ghome := filepath.Join(gdir, ".verif-home", ".taskctl")
		os.MkdirAll(ghome, 0755)
		os.WriteFile(filepath.Join(ghome, "config.yaml"), []byte(lc.text), 0644)
		os.WriteFile(filepath.Join(gdir, "tasks.yaml"), []byte("tasks:\n  sound:\n    command: [\"true\"]\n"), 0644)
		if lc.envFile != "" {
			os.WriteFile(filepath.Join(ghome, "envf"), []byte(lc.envFile), 0644)
		}
		r := runTaskctl(gdir, nil, 8*time.Second, "list")
		if r.timedOut || r.panicked || (r.exit != 0 && r.exit != 1) {
			cs.Fail, cs.Sig = fmt.Sprintf("list (document as the global configuration): exit=%d timeout=%v: %s", r.exit, r.timedOut, clipStr(firstPanicLine(r.stderr), 200)), "c15-global-config-crash"
		}
	}
	if cs.Fail == "" {
		// `validate <file>` needs a loadable project configuration of its own (the root command loads one first):
		// run it from a directory with a sound tasks.yaml, for EVERY document - loadable or not
		vdir := filepath.Join(dir, "validate")
		os.MkdirAll(vdir, 0755)
		os.WriteFile(filepath.Join(vdir, "tasks.yaml"), []byte("tasks:\n  sound:\n    command: [\"true\"]\n"), 0644)
		r := runTaskctl(vdir, nil, 8*time.Second, "validate", cfgPath)
		if r.timedOut || r.panicked || (r.exit != 0 && r.exit != 1) {
			cs.Fail, cs.Sig = fmt.Sprintf("validate <file> (from a sound project): exit=%d timeout=%v: %s", r.exit, r.timedOut, clipStr(firstPanicLine(r.stderr), 200)), "c15-validate-crash"
		} else if !strings.Contains(r.stdout, "file is valid") && strings.TrimSpace(r.stdout+r.stderr) == "" {
			cs.Fail, cs.Sig = "validate <file> printed neither a verdict nor an error", "c15-validate-silent"
		}
	}
	if cs.Fail != "" {
		col.Add(cs)
		return
	}
	if check("list", "-c", cfgPath, "list") {
		cs.Tags = append(cs.Tags, "loaded")
		for _, sub := range []string{"tasks", "pipelines", "watchers"} {
			if cs.Fail == "" {
				check("list "+sub, "-c", cfgPath, "list", sub)
			}
		}
		ok := check("validate", "-c", cfgPath, "validate", cfgPath)
		for _, t := range lc.tasks {
			if cs.Fail != "" {
				break
			}
			check("show "+t, "-c", cfgPath, "show", t)
		}
		for _, p := range lc.pipes {
			if cs.Fail != "" {
				break
			}
			check("graph "+p, "-c", cfgPath, "graph", p)
		}
		_ = ok
	} else if cs.Fail == "" {
		cs.Tags = append(cs.Tags, "rejected")
	}
	col.Add(cs)
}

func clipStr(s string, n int) string {
	if len(s) > n {
		return s[:n] + "…"
	}
	return s
}

func runC15(col *Collector, tier string, seed int64) {
	environmentCases(col)
	rng := rand.New(rand.NewSource(seed))
	col.res.Rule = "the real taskctl binary (list; then validate, show <task>, graph <pipeline> when it loads) on documents produced by a grammar of the configuration schema (every documented key) and mutated: " +
		"every node replaced by null / scalar / list / map of the wrong type (sampled per document), keys deleted / unknown / duplicated, truncation, YAML anchors and merge keys, invalid UTF-8, in YAML, JSON and TOML; " +
		"hand-written degenerate documents; arbitrary env_file contents. monitor: exit status 0 or 1, no panic / fatal error, < 8s. non-trivial = all; distinct = distinct documents"
	var cases []loadCase
	var tags []string
	add := func(lc loadCase, tag string) { cases = append(cases, lc); tags = append(tags, tag) }
	nbase := 4
	perBase := 40
	if tier == "thorough" {
		nbase, perBase = 25, 160
	}
	for b := 0; b < nbase; b++ {
		cfg, tasks, pipes := genAbstractConfig(rng)
		for _, f := range []string{"yaml", "json", "toml"} {
			if text, err := serialise(cfg, f); err == nil {
				add(loadCase{desc: "unmutated", format: f, text: text, tasks: tasks, pipes: pipes}, "valid")
			}
		}
		var paths []treePath
		allPaths(cfg, nil, &paths)
		for k := 0; k < perBase; k++ {
			p := paths[rng.Intn(len(paths))]
			m := cloneTree(cfg).(map[string]interface{})
			var desc string
			switch rng.Intn(8) {
			case 0:
				setAt(m, p, nil, true)
				desc = "delete " + pathString(p)
			default:
				w := wrongValues[rng.Intn(len(wrongValues))]
				setAt(m, p, cloneTree(w.val), false)
				desc = fmt.Sprintf("%s := %s", pathString(p), w.name)
			}
			if rng.Intn(6) == 0 {
				m["unknown_top_level_key"] = "x"
				desc += " + unknown key"
			}
			f := []string{"yaml", "yaml", "json", "toml"}[rng.Intn(4)]
			text, err := serialise(m, f)
			if err != nil {
				continue // not expressible in this format (e.g. null in TOML)
			}
			add(loadCase{desc: desc, format: f, text: text, tasks: tasks, pipes: pipes}, "mutated")
		}
		// textual mutations of the YAML form
		ytext, _ := toYAML(cfg)
		for k := 0; k < 6; k++ {
			cut := rng.Intn(len(ytext))
			add(loadCase{desc: fmt.Sprintf("truncated at %d", cut), format: "yaml", text: ytext[:cut], tasks: tasks, pipes: pipes}, "truncated")
		}
		jtext, _ := toJSON(cfg)
		add(loadCase{desc: "truncated json", format: "json", text: jtext[:rng.Intn(len(jtext))], tasks: tasks, pipes: pipes}, "truncated")
		pos := rng.Intn(len(ytext))
		add(loadCase{desc: "invalid utf-8", format: "yaml", text: ytext[:pos] + "\xff\xfe\xc3" + ytext[pos:], tasks: tasks, pipes: pipes}, "utf8")
		add(loadCase{desc: "duplicated top-level key", format: "yaml", text: ytext + "\ntasks:\n  dup: {command: [\"true\"]}\n", tasks: tasks, pipes: pipes}, "duplicate-key")
		add(loadCase{desc: "anchors and merge keys", format: "yaml", text: "base: &base\n  command: [\"true\"]\n  env: {A: b}\ntasks:\n  viaMerge:\n    <<: *base\n    description: merged\n  alias: *base\n", tasks: []string{"viaMerge", "alias"}}, "anchors")
	}
	// degenerate hand-written documents (every section / entry empty, scalar, or of the wrong shape)
	hand := []string{
		"", "\n", "---\n", "null\n", "[]\n", "42\n", "just a string\n", "- a\n- b\n",
		"tasks:\n", "tasks: {}\n", "tasks: []\n", "tasks: 3\n", "tasks:\n  t:\n", "tasks:\n  t: null\n", "tasks:\n  t: []\n", "tasks:\n  t: x\n",
		"tasks:\n  t:\n    command:\n", "tasks:\n  t:\n    command: []\n", "tasks:\n  t:\n    command: {a: b}\n", "tasks:\n  t:\n    command: [[a]]\n",
		"tasks:\n  t:\n    command: [\"true\"]\n    variations: [null]\n", "tasks:\n  t:\n    command: [\"true\"]\n    variations:\n", "tasks:\n  t:\n    command: [\"true\"]\n    timeout: soon\n",
		"tasks:\n  t:\n    command: [\"true\"]\n    env:\n", "tasks:\n  t:\n    command: [\"true\"]\n    env: [a]\n", "tasks:\n  t:\n    command: [\"true\"]\n    env: {A: {b: c}}\n", "tasks:\n  t:\n    command: [\"true\"]\n    env: {A: null}\n",
		"tasks:\n  t:\n    command: [\"true\"]\n    env_file: does-not-exist\n", "tasks:\n  t:\n    command: [\"true\"]\n    env_file: .\n", "tasks:\n  t:\n    command: [\"true\"]\n    context: nosuch\n",
		"pipelines:\n", "pipelines:\n  p:\n", "pipelines:\n  p: []\n", "pipelines:\n  p:\n    -\n", "pipelines:\n  p:\n    - null\n", "pipelines:\n  p: x\n", "pipelines:\n  p:\n    - {}\n",
		"pipelines:\n  p:\n    - task:\n", "pipelines:\n  p:\n    - pipeline: p\n", "pipelines:\n  p:\n    - pipeline: q\n  q:\n    - pipeline: p\n      dir: /tmp\n",
		"tasks:\n  t: {command: [\"true\"]}\npipelines:\n  p:\n    - task: t\n      depends_on:\n", "tasks:\n  t: {command: [\"true\"]}\npipelines:\n  p:\n    - task: t\n      depends_on: [null]\n",
		"tasks:\n  t: {command: [\"true\"]}\npipelines:\n  q:\n    - task: t\n  p:\n    - pipeline: q\n      dir: /tmp\n", "tasks:\n  t: {command: [\"true\"]}\npipelines:\n  p:\n    - task: t\n      env:\n      variables:\n",
		"contexts:\n", "contexts:\n  c:\n", "contexts:\n  c: null\n", "contexts:\n  c: []\n", "contexts:\n  c:\n    executable:\n", "contexts:\n  c:\n    executable: sh\n", "contexts:\n  c:\n    up: {a: b}\n",
		"watchers:\n", "watchers:\n  w:\n", "watchers:\n  w: null\n", "watchers:\n  w:\n    task:\n", "tasks:\n  t: {command: [\"true\"]}\nwatchers:\n  w:\n    task: t\n    watch: [\"[\"]\n", "tasks:\n  t: {command: [\"true\"]}\nwatchers:\n  w:\n    task: t\n    watch:\n    events: [bogus]\n",
		"import:\n", "import: other.yaml\n", "import: [null]\n", "import: [3]\n", "import: [[a]]\n", "import: {a: b}\n", "import: [\".\"]\n", "import: [\"..\"]\n", "import: [\"cfg.yaml\"]\n", "import: [\"\"]\n", "import: [\"http://127.0.0.1:1/x.yaml\"]\n",
		"variables:\n", "variables: [a]\n", "variables: {a: {b: c}}\n", "variables: {a: null}\n", "output: 3\n", "output: nosuch\ntasks:\n  t: {command: [\"true\"]}\n", "debug: maybe\n",
	}
	hand = append(hand, "import: [\"no-such-file.yaml\"]\ntasks:\n  t: {command: [\"true\"]}\n", "import: [\"no-such-dir/\"]\n", "import: [\"default\"]\ntasks:\n  t: {command: [\"true\"]}\n")
	for _, h := range hand {
		add(loadCase{desc: "hand-written", format: "yaml", text: h, tasks: []string{"t"}, pipes: []string{"p"}}, "degenerate")
	}
	// pipelines that include each other in a cycle, reached from entry pipelines whose names sort before, between and
	// after the members of the cycle: drawing or running any of them must not recurse for ever
	for _, names := range [][]string{{"all", "build", "check"}, {"zz", "build", "check"}, {"c", "b", "d"}, {"a0", "a2", "a1"}} {
		e, x, y := names[0], names[1], names[2]
		doc := fmt.Sprintf("tasks:\n  t: {command: [\"true\"]}\npipelines:\n  %s:\n    - task: t\n    - pipeline: %s\n      depends_on: [t]\n  %s:\n    - pipeline: %s\n  %s:\n    - task: t\n    - pipeline: %s\n", e, x, x, y, y, x)
		add(loadCase{desc: "inclusion cycle behind an entry pipeline", format: "yaml", text: doc, tasks: []string{"t"}, pipes: []string{e, x, y}}, "inclusion-cycle")
		// two entries, one before and one after the cycle
		doc2 := doc + fmt.Sprintf("  %s:\n    - pipeline: %s\n  %s:\n    - pipeline: %s\n", "0first", y, "~last", e)
		add(loadCase{desc: "inclusion cycle behind two entry pipelines", format: "yaml", text: doc2, tasks: []string{"t"}, pipes: []string{"0first", "~last", e, x, y}}, "inclusion-cycle")
	}
	// names and descriptions that are not what a listing is laid out for: non-ASCII of every width, very long, with
	// tabs, format verbs and template syntax; described and undescribed tasks side by side
	oddNames := []string{"сборка", "构建", "🚀🚀🚀", "é", strings.Repeat("long", 60), "tab\there", "%s%d%!", "{{ .Name }}", "a b", "-", "ﬁ", "e\u0301"}
	for k := 0; k < len(oddNames); k++ {
		var doc strings.Builder
		doc.WriteString("tasks:\n  t:\n    command: [\"true\"]\n    description: plain\n  lint:\n    command: [\"true\"]\n")
		names := []string{"t"}
		for j := 0; j <= k%3; j++ {
			n := oddNames[(k+j*5)%len(oddNames)]
			fmt.Fprintf(&doc, "  %q:\n    command: [\"true\"]\n    description: %q\n", n, "describes "+oddNames[(k+j+1)%len(oddNames)])
			names = append(names, n)
		}
		fmt.Fprintf(&doc, "pipelines:\n  p:\n    - task: t\n  %q:\n    - task: %q\ncontexts:\n  %q:\n    env: {A: b}\nwatchers:\n  %q:\n    task: t\n    watch: [\"*.go\"]\n", oddNames[k]+"-pipe", names[1], oddNames[k]+"-ctx", oddNames[k]+"-watch")
		add(loadCase{desc: "names and descriptions a listing is not laid out for", format: "yaml", text: doc.String(), tasks: names, pipes: []string{"p", oddNames[k] + "-pipe"}}, "odd-names")
	}
	for _, h := range []string{"", "{}", "[]", "null", "{\"tasks\": null}", "{\"tasks\": {\"t\": null}}", "{\"pipelines\": {\"p\": [null]}}", "{\"import\": \"x\"}", "{\"tasks\": {\"t\": {\"command\": 5}}}"} {
		add(loadCase{desc: "hand-written", format: "json", text: h, tasks: []string{"t"}, pipes: []string{"p"}}, "degenerate")
	}
	for _, h := range []string{"", "x = 1", "[tasks]", "[tasks.t]", "[[pipelines.p]]", "import = \"x\"", "import = [1]", "[tasks.t]\ncommand = 5", "[contexts.c]", "[watchers.w]"} {
		add(loadCase{desc: "hand-written", format: "toml", text: h, tasks: []string{"t"}, pipes: []string{"p"}}, "degenerate")
	}
	// very short files: every sequence of 1..3 bytes over an alphabet of structural, BOM and invalid bytes
	// (a truncated byte-order mark, a lone bracket, NUL ...), as the main file in each format
	alpha := []byte{0xEF, 0xBB, 0xBF, 0xFE, 0xFF, 0x00, '{', '[', '-', ':', '#', '"', ' ', '\n', 'a', '=', '!', '&', '*', '%', '|', '>', '?', '\t'}
	var shorts []string
	for _, a := range alpha {
		shorts = append(shorts, string([]byte{a}))
		for _, b := range alpha {
			if tier == "thorough" || a >= 0x80 || b >= 0x80 || rng.Intn(12) == 0 {
				shorts = append(shorts, string([]byte{a, b}))
			}
			if a == 0xEF && b == 0xBB {
				for _, c := range alpha {
					shorts = append(shorts, string([]byte{a, b, c}))
				}
			}
		}
	}
	for i, h := range shorts {
		add(loadCase{desc: "very short file", format: []string{"yaml", "json", "toml"}[i%3], text: h}, "short-file")
		if h[0] >= 0x80 {
			add(loadCase{desc: "very short file", format: "yaml", text: h}, "short-file")
		}
	}
	// the same short byte sequences as the content of an imported file
	for i, h := range shorts {
		if h[0] >= 0x80 && i%2 == 0 {
			add(loadCase{desc: "very short imported file", format: "yaml", text: "import: [\"part.yaml\"]\ntasks:\n  t: {command: [\"true\"]}\n", part: h, tasks: []string{"t"}}, "short-file")
		}
	}
	// inclusion cycles through stages that carry a name of their own
	for _, h := range []string{
		"pipelines:\n  p:\n    - name: again\n      pipeline: p\n",
		"tasks:\n  t: {command: [\"true\"]}\npipelines:\n  p:\n    - task: t\n    - name: inner\n      pipeline: q\n      depends_on: [t]\n  q:\n    - name: back\n      pipeline: p\n",
		"pipelines:\n  p:\n    - name: one\n      pipeline: q\n  q:\n    - name: two\n      pipeline: r\n  r:\n    - name: three\n      pipeline: p\n",
	} {
		add(loadCase{desc: "hand-written", format: "yaml", text: h, tasks: []string{"t"}, pipes: []string{"p"}}, "degenerate")
	}
	// directory imports whose files import documents of other formats, next to plain files sharing their sections
	for _, other := range []string{"json", "toml"} {
		otherDoc := map[string]string{"json": "{\"tasks\": {\"tj\": {\"command\": [\"true\"]}}, \"variables\": {\"J\": \"1\"}}",
			"toml": "[tasks.tj]\ncommand = [\"true\"]\n[variables]\nJ = \"1\"\n"}[other]
		for _, first := range []string{"a", "z"} { // the importing file sorts before / after the plain one
			plain := map[string]string{"a": "m", "z": "m"}[first]
			files := map[string]string{
				"parts/" + first + ".yaml": "import: [\"../shared." + other + "\"]\ntasks:\n  ta: {command: [\"true\"]}\nvariables: {A: \"1\"}\n",
				"parts/" + plain + ".yaml": "tasks:\n  tm: {command: [\"true\"]}\nvariables: {M: \"1\"}\ncontexts:\n  c: {env: {K: v}}\n",
				"shared." + other:          otherDoc,
			}
			for _, mainFmt := range []string{"yaml", "json", "toml"} {
				text := map[string]string{"yaml": "import: [\"parts\"]\ntasks:\n  t: {command: [\"true\"]}\n", "json": "{\"import\": [\"parts\"], \"tasks\": {\"t\": {\"command\": [\"true\"]}}}",
					"toml": "import = [\"parts\"]\n[tasks.t]\ncommand = [\"true\"]\n"}[mainFmt]
				add(loadCase{desc: "directory import with nested " + other + " import", format: mainFmt, text: text, files: files, tasks: []string{"t", "ta", "tm", "tj"}}, "nested-imports")
			}
		}
	}
	// sequences of imports of different formats that touch the same entries: every order, every main format
	seqDocs := map[string]string{
		"a.json": "{\"tasks\": {\"shared\": {\"command\": [\"echo json\"], \"env\": {\"K\": \"j\"}}, \"tj\": {\"command\": [\"true\"]}}, \"contexts\": {\"c\": {\"env\": {\"A\": \"1\"}}}}",
		"b.yaml": "tasks:\n  shared:\n    command: [\"echo yaml\"]\n    env: {K: y, L: y}\n  ty: {command: [\"true\"]}\ncontexts:\n  c:\n    env: {B: \"2\"}\n",
		"c.toml": "[tasks.shared]\ncommand = [\"echo toml\"]\n[tasks.shared.env]\nK = \"t\"\n[tasks.tt]\ncommand = [\"true\"]\n",
		"d.yaml": "tasks:\n  shared:\n    env: {M: z}\n  tj:\n    description: redefined in yaml\n",
	}
	// mappings under sections other than tasks / pipelines / contexts / watchers: variables, and a key taskctl does not know
	for _, f := range []string{"yaml", "json", "toml"} {
		seqDocs["v."+f] = map[string]string{
			"yaml": "variables: {A: \"y\", B: \"y\"}\nx-meta:\n  owner: {name: y}\n",
			"json": "{\"variables\": {\"B\": \"j\", \"C\": \"j\"}, \"x-meta\": {\"owner\": {\"team\": \"j\"}}}",
			"toml": "[variables]\nC = \"t\"\nD = \"t\"\n[x-meta.owner]\nmail = \"t\"\n",
		}[f]
	}
	for _, ord := range [][]string{{"v.yaml"}, {"v.json"}, {"v.yaml", "v.json"}, {"v.json", "v.yaml"}, {"v.toml", "v.yaml"}, {"v.yaml", "v.toml", "v.json"}, {"v.yaml", "b.yaml"}, {"v.json", "b.yaml", "v.yaml"}} {
		var q []string
		for _, f := range ord {
			q = append(q, fmt.Sprintf("%q", f))
		}
		list := strings.Join(q, ", ")
		mains := map[string]string{
			"yaml":      "import: [" + list + "]\nvariables: {A: \"m\"}\n",
			"json":      "{\"import\": [" + list + "], \"variables\": {\"A\": \"m\"}}",
			"toml":      "import = [" + list + "]\n[variables]\nA = \"m\"\n",
			"json-meta": "{\"import\": [" + list + "], \"x-meta\": {\"owner\": {\"name\": \"m\"}}}",
			"toml-bare": "import = [" + list + "]\n",
			"json-bare": "{\"import\": [" + list + "]}",
		}
		for mf, text := range mains {
			format := strings.Split(mf, "-")[0]
			add(loadCase{desc: "variables-only documents: imports " + strings.Join(ord, " then "), format: format, text: text, files: seqDocs}, "import-sequence-vars")
		}
	}
	orders := [][]string{{"a.json", "b.yaml"}, {"b.yaml", "a.json"}, {"a.json", "d.yaml"}, {"a.json", "b.yaml", "c.toml"}, {"c.toml", "d.yaml", "a.json"}, {"b.yaml", "c.toml", "d.yaml"}, {"a.json", "c.toml", "b.yaml", "d.yaml"}}
	for _, ord := range orders {
		var q []string
		for _, f := range ord {
			q = append(q, fmt.Sprintf("%q", f))
		}
		list := strings.Join(q, ", ")
		mains := map[string]string{
			"yaml":      "import: [" + list + "]\ntasks:\n  shared: {command: [\"echo main\"]}\n  t: {command: [\"true\"]}\n",
			"json":      "{\"import\": [" + list + "], \"tasks\": {\"shared\": {\"command\": [\"echo main\"]}, \"t\": {\"command\": [\"true\"]}}}",
			"toml":      "import = [" + list + "]\n[tasks.shared]\ncommand = [\"echo main\"]\n[tasks.t]\ncommand = [\"true\"]\n",
			"yaml-bare": "import: [" + list + "]\n",
		}
		for mf, text := range mains {
			format := strings.TrimSuffix(mf, "-bare")
			add(loadCase{desc: "imports " + strings.Join(ord, " then "), format: format, text: text, files: seqDocs, tasks: []string{"shared", "t", "tj"}}, "import-sequence")
		}
	}
	// env_file contents
	envs := []string{"A=b\n", "\n", "A=b\n\nC=d\n", "NOEQUALS\n", "=x\n", "A=b=c\n", "A=\n", "  \n", "# comment\nA=b\n", "A=b\r\nC=d\r\n", "A=üñí\n", "A=b", strings.Repeat("X", 70000) + "=1\n", "A=" + strings.Repeat("y", 70000) + "\n", "\x00=\x00\n", "A=b\n=\n=\n"}
	for _, e := range envs {
		add(loadCase{desc: "env_file", format: "yaml", text: "tasks:\n  t:\n    command: [\"true\"]\n    env_file: envf\n", envFile: e, tasks: []string{"t"}}, "env-file")
	}
	nrand := 10
	if tier == "thorough" {
		nrand = 200
	}
	for i := 0; i < nrand; i++ {
		var b strings.Builder
		for k := rng.Intn(6); k > 0; k-- {
			switch rng.Intn(6) {
			case 0:
				b.WriteString("\n")
			case 1:
				fmt.Fprintf(&b, "K%d=v%d\n", k, k)
			case 2:
				fmt.Fprintf(&b, "K%d\n", k)
			case 3:
				fmt.Fprintf(&b, "K%d=a=b\n", k)
			case 4:
				b.WriteString("=\n")
			default:
				b.WriteString(" \t\n")
			}
		}
		if b.Len() == 0 {
			b.WriteString("Z=1\n")
		}
		add(loadCase{desc: "env_file", format: "yaml", text: "tasks:\n  t:\n    command: [\"true\"]\n    env_file: envf\n", envFile: b.String(), tasks: []string{"t"}}, "env-file")
	}
	parallel(len(cases), 16, func(i int) { loadCaseRun(col, cases[i], tags[i]) })
	// in-process correspondence with the Lean model: ReadEnvFile on the same line lists, and the raw
	// `import` value shapes through the real Loader
	for _, c := range cases {
		if c.envFile != "" && isASCII(c.envFile) && len(c.envFile) < 5000 {
			envFileModelCase(col, c.envFile)
		}
	}
	// every line over a small alphabet of the characters an env file gives a meaning to (or might), up to 4
	// characters after `K=` and up to 5 as a whole line: quotes, '=', '#', blanks, backslash, '$'
	envAlpha := []byte{'"', '\'', 'x', ' ', '=', '#', '\\', '$'}
	var gen func(prefix string, n int, out *[]string)
	gen = func(prefix string, n int, out *[]string) {
		*out = append(*out, prefix)
		if n == 0 {
			return
		}
		for _, ch := range envAlpha {
			gen(prefix+string(ch), n-1, out)
		}
	}
	var vals, whole []string
	gen("", 4, &vals)
	gen("", 4, &whole)
	batch := func(lines []string, mk func(string) string) {
		for i := 0; i < len(lines); i += 64 {
			var b strings.Builder
			for j := i; j < i+64 && j < len(lines); j++ {
				b.WriteString(mk(lines[j]))
				b.WriteString("\n")
			}
			envFileModelCase(col, b.String())
		}
	}
	kk := 0
	batch(vals, func(v string) string { kk++; return fmt.Sprintf("K%d=%s", kk, v) })
	batch(whole, func(l string) string { return l })
	// lines that look like shell or dotenv syntax: to ReadEnvFile they are NAME=VALUE lines like any other
	words := []string{"export", "export ", "export A=b", "export  A=b", "exporter_port=9100", "export=1", "EXPORT A=b", "set A=b", "unset A", "declare -x A=b",
		"readonly A=b", "local A=b", "env A=b", "A B=c", "A=b C=d", "A = b", " A=b", "A=b ", "\tA=b", "A+=b", "A:=b", "A?=b", "${A}=b", "A=${B:-c}", "a.b=c", "a-b=c", "1A=b",
		"#A=b", "# export A=b", "//A=b", ";A=b", "[section]", "A: b", "---", "...", "A=b # comment", "A=\"b\" # c", "A='b' 'c'", "A=\\", "A=\\n", "A=b\\", "source other", ". other"}
	batch(words, func(l string) string { return l })
	for _, w := range words {
		envFileModelCase(col, w+"\n")
		envFileModelCase(col, "X=1\n"+w)
	}
	for _, shape := range []string{"null", "str", "num", "bool", "map", "list", "list:str", "list:str,str", "list:num", "list:null", "list:str,null", "list:list", "list:map", "list:bool,str"} {
		importShapeCase(col, shape)
	}
}

func isASCII(s string) bool {
	for i := 0; i < len(s); i++ {
		if s[i] >= 0x80 || s[i] == 0 || s[i] == '\r' {
			return false
		}
	}
	return true
}

func envFileModelCase(col *Collector, content string) {
	dir := newScratchDir("c15e")
	defer os.RemoveAll(dir)
	path := filepath.Join(dir, "envf")
	os.WriteFile(path, []byte(content), 0644)
	lines := strings.Split(content, "\n")
	if len(lines) > 0 && lines[len(lines)-1] == "" {
		lines = lines[:len(lines)-1] // bufio.Scanner yields no final empty line
	}
	hexLines := make([]string, len(lines))
	for i, l := range lines {
		hexLines[i] = fmt.Sprintf("%x", l)
	}
	cs := Case{Line: "envfile " + strings.Join(hexLines, ","), Tags: []string{"env-file-model"}, NonTrivial: true}
	cs.Replay = fmt.Sprintf("ReadEnvFile %q", clipStr(content, 200))
	func() {
		defer func() {
			if p := recover(); p != nil {
				cs.Impl = "panic"
				cs.Fail, cs.Sig = fmt.Sprint("ReadEnvFile panicked: ", p), "c15-index"
			}
		}()
		m, err := utils.ReadEnvFile(path)
		if err != nil {
			cs.Impl = "err"
			return
		}
		var strs []string
		for k, v := range m {
			strs = append(strs, fmt.Sprintf("%x=%x", k, v))
		}
		sort.Strings(strs)
		cs.Impl = "ok:" + strings.Join(strs, ",")
	}()
	col.Add(cs)
}

func importShapeCase(col *Collector, shape string) {
	dir := newScratchDir("c15i")
	defer os.RemoveAll(dir)
	os.WriteFile(filepath.Join(dir, "x.yaml"), []byte("tasks:\n  imported: {command: [\"true\"]}\n"), 0644)
	mk := func(k string) interface{} {
		switch k {
		case "str":
			return "x.yaml"
		case "num":
			return 3
		case "bool":
			return true
		case "map":
			return map[string]interface{}{}
		case "list":
			return []interface{}{}
		}
		return nil
	}
	var v interface{}
	if strings.HasPrefix(shape, "list:") {
		var l []interface{}
		for _, k := range strings.Split(shape[5:], ",") {
			l = append(l, mk(k))
		}
		v = l
	} else {
		v = mk(shape)
	}
	text, _ := toYAML(map[string]interface{}{"import": v})
	main := filepath.Join(dir, "main.yaml")
	os.WriteFile(main, []byte(text), 0644)
	cs := Case{Line: "impshape " + shape, Tags: []string{"import-shape-model"}, NonTrivial: true, Replay: "import value of shape " + shape}
	func() {
		defer func() {
			if p := recover(); p != nil {
				cs.Impl = "panic"
				cs.Fail, cs.Sig = fmt.Sprint("Loader panicked: ", p), "c15-type-assertion"
			}
		}()
		cl := verifhooks.NewConfigLoader(verifhooks.NewConfig())
		cl.VerifSetDirs(dir, filepath.Join(dir, "nohome"))
		cl.VerifLoadRaw(main)
		cs.Impl = "nopanic"
	}()
	col.Add(cs)
}

// the environment the process finds itself in is not the configuration's business: without $HOME (or with one that is
// empty, a file, a directory that does not exist), and from a working directory that has been removed, loading the
// same sound configuration ends with a configuration or an error message - and list / show / graph / validate / a run
// end without a crash
func environmentCases(col *Collector) {
	dir := newScratchDir("c15e")
	defer os.RemoveAll(dir)
	cfg := filepath.Join(dir, "cfg.yaml")
	os.WriteFile(cfg, []byte("contexts:\n  c:\n    env: {A: b}\ntasks:\n  t:\n    command: [\"true\"]\n    context: c\n  u:\n    command: [\"true\"]\npipelines:\n  p:\n    - task: t\n    - task: u\n      depends_on: [t]\n"), 0644)
	os.WriteFile(filepath.Join(dir, "tasks.yaml"), []byte("tasks:\n  t:\n    command: [\"true\"]\n"), 0644)
	type envShape struct {
		name string
		home *string // nil: not set at all
		gone bool    // started in a directory that is removed before taskctl starts
	}
	str := func(s string) *string { return &s }
	shapes := []envShape{
		{"no $HOME", nil, false}, {"empty $HOME", str(""), false}, {"$HOME is a file", str(cfg), false},
		{"$HOME does not exist", str(filepath.Join(dir, "no", "such", "home")), false},
		{"working directory removed", str(dir), true}, {"no $HOME and working directory removed", nil, true},
	}
	cmds := [][]string{{"list"}, {"-c", cfg, "list"}, {"-c", cfg, "validate", cfg}, {"-c", cfg, "show", "t"}, {"-c", cfg, "graph", "p"}, {"-c", cfg, "--output", "raw", "t"}, {"-c", cfg, "--output", "raw", "p"}, {"-c", "cfg.yaml", "list"}}
	for _, sh := range shapes {
		for _, args := range cmds {
			cs := Case{Tags: []string{"environment", sh.name}, NonTrivial: true, Replay: fmt.Sprintf("taskctl %s in the environment: %s", strings.Join(args, " "), sh.name)}
			ctx, cancel := context.WithTimeout(context.Background(), 8*time.Second)
			var cmd *exec.Cmd
			if sh.gone {
				gone := filepath.Join(dir, fmt.Sprintf("gone-%d", time.Now().UnixNano()))
				os.MkdirAll(gone, 0755)
				script := "rmdir \"$1\"; shift; exec \"$@\""
				cmd = exec.CommandContext(ctx, "sh", append([]string{"-c", script, "sh", gone, taskctlBin()}, args...)...)
				cmd.Dir = gone
			} else {
				cmd = exec.CommandContext(ctx, taskctlBin(), args...)
				cmd.Dir = dir
			}
			cmd.Env = append([]string{"PATH=" + os.Getenv("PATH"), "TERM=dumb"}, covEnv()...)
			if sh.home != nil {
				cmd.Env = append(cmd.Env, "HOME="+*sh.home)
			}
			var se bytes.Buffer
			cmd.Stderr = &se
			err := cmd.Run()
			exit := 0
			if ee, ok := err.(*exec.ExitError); ok {
				exit = ee.ExitCode()
			} else if err != nil {
				exit = -1
			}
			timedOut := ctx.Err() != nil
			cancel()
			cs.Impl = fmt.Sprintf("exit=%d", exit)
			panicked := strings.Contains(se.String(), "panic:") || strings.Contains(se.String(), "fatal error:") || strings.Contains(se.String(), "goroutine 1 [")
			switch {
			case timedOut:
				cs.Fail, cs.Sig = "did not end within 8s", "c15-hang"
			case panicked || (exit != 0 && exit != 1):
				cs.Fail, cs.Sig = fmt.Sprintf("exit=%d: %s", exit, clipStr(firstPanicLine(se.String()), 200)), "c15-crash"
			}
			col.Add(cs)
		}
	}
}
