package main

import (
	"fmt"
	"math/rand"
	"os"
	"runtime"
	"strings"
	"sync"
	"time"

	"github.com/taskctl/taskctl/pkg/runner"
	"github.com/taskctl/taskctl/pkg/scheduler"
	"github.com/taskctl/taskctl/pkg/task"
	"github.com/taskctl/taskctl/pkg/variables"
)

func init() { props["C13"] = runC13 }

// a command with an intrinsic duration (ms) and intrinsic exit status
type timedCmd struct {
	kind string // "quick" | "slow" (within the timeout) | "sleep" | "loop" | "immune" | "grandchild" (overruns)
	exit int
}

func (c timedCmd) overruns() bool { return c.kind != "quick" && c.kind != "slow" }

func (c timedCmd) dur(T int) int {
	switch c.kind {
	case "quick":
		return 1
	case "slow":
		return T * 4 / 10
	}
	return 30000
}

func (c timedCmd) shell(trace, tok string, T int) string {
	pre := fmt.Sprintf("echo %s >> %s; ", tok, trace)
	switch c.kind {
	case "quick":
		return pre + fmt.Sprintf("exit %d", c.exit)
	case "slow":
		return pre + fmt.Sprintf("sleep %.3f; exit %d", float64(T)*0.4/1000, c.exit)
	case "sleep":
		return pre + "sleep 30"
	case "loop":
		return pre + "while true; do :; done"
	case "immune":
		return pre + `sh -c 'trap "" INT; exec sleep 30'`
	case "grandchild":
		return pre + `sh -c 'trap "" INT; sleep 4.5'`
	}
	return "true"
}

type timedSpec struct {
	T           int // ms
	before      []timedCmd
	cmds        []timedCmd
	after       []timedCmd
	allow       bool
	interactive bool // the task is declared interactive (its commands are attached to the standard input)
	// vcmds != nil: the task has len(vcmds) variations (V=0,1,...); the command texts are the same in every
	// variation, what command j does in variation v is vcmds[v][j] (it looks at $V). cmds is then vcmds[0].
	vcmds [][]timedCmd
	// viaStage: the task is run as the only stage of a pipeline, by the scheduler (as `taskctl <pipeline>` does), and
	// not by a direct call of the runner: its timeout is the same
	viaStage bool
}

func (s timedSpec) variations() [][]timedCmd {
	if s.vcmds != nil {
		return s.vcmds
	}
	return [][]timedCmd{s.cmds}
}

func (s timedSpec) line() string {
	f := func(cs []timedCmd) (string, string) {
		if len(cs) == 0 {
			return "-", "-"
		}
		var r, d []string
		for _, c := range cs {
			e := c.exit
			if c.overruns() {
				e = 0
			}
			r = append(r, fmt.Sprintf("e%d", e))
			d = append(d, fmt.Sprint(c.dur(s.T)))
		}
		return strings.Join(r, ","), strings.Join(d, ",")
	}
	b, bd := f(s.before)
	var flat []timedCmd
	for _, v := range s.variations() {
		flat = append(flat, v...)
	}
	c, cd := f(flat)
	a, ad := f(s.after)
	vars := "-"
	if s.vcmds != nil {
		vars = fmt.Sprint(len(s.vcmds))
	}
	al := 0
	if s.allow {
		al = 1
	}
	return fmt.Sprintf("timed T=%d cond=- cdur=0 before=%s bdur=%s n=%d vars=%s res=%s dur=%s after=%s adur=%s allow=%d init=0", s.T, b, bd, len(s.cmds), vars, c, cd, a, ad, al)
}

func (s timedSpec) kinds() string {
	var k []string
	all := append([]timedCmd{}, s.before...)
	for _, v := range s.variations() {
		all = append(all, v...)
	}
	for _, c := range append(all, s.after...) {
		k = append(k, c.kind)
	}
	return strings.Join(k, ",")
}

func runTimedSpec(s timedSpec) (obs runObs, elapsed time.Duration, err error) {
	defer func() {
		if p := recover(); p != nil {
			err = fmt.Errorf("PANIC: %v", p)
		}
	}()
	trace := newTracePath()
	defer os.Remove(trace)
	t := &task.Task{Env: variables.NewVariables(), Variables: variables.NewVariables(), Name: "t", AllowFailure: s.allow}
	d := time.Duration(s.T) * time.Millisecond
	t.Timeout = &d
	t.Interactive = s.interactive
	for i, c := range s.before {
		t.Before = append(t.Before, c.shell(trace, fmt.Sprintf("b%d", i), s.T))
	}
	if s.vcmds == nil {
		for j, c := range s.cmds {
			t.Commands = append(t.Commands, c.shell(trace, fmt.Sprintf("m0.%d", j), s.T))
		}
	} else {
		for v := range s.vcmds {
			t.Variations = append(t.Variations, map[string]string{"V": fmt.Sprint(v)})
		}
		for j := range s.cmds {
			var sb strings.Builder
			sb.WriteString("case \"$V\" in ")
			for v := range s.vcmds {
				fmt.Fprintf(&sb, "%d) %s;; ", v, s.vcmds[v][j].shell(trace, fmt.Sprintf("m%d.%d", v, j), s.T))
			}
			sb.WriteString("esac")
			t.Commands = append(t.Commands, sb.String())
		}
	}
	for i, c := range s.after {
		t.After = append(t.After, c.shell(trace, fmt.Sprintf("a%d", i), s.T))
	}
	r, e := runner.NewTaskRunner()
	if e != nil {
		return runObs{}, 0, e
	}
	r.Stdout, r.Stderr = devNull{}, devNull{}
	if s.interactive {
		// an interactive task is attached to the runner's standard input: a terminal nobody types on - open and idle
		pr, pw, perr := os.Pipe()
		if perr == nil {
			r.Stdin = pr
			defer pr.Close()
			defer pw.Close()
		}
	}
	t0 := time.Now()
	done := make(chan error, 1)
	if s.viaStage {
		g, gerr := scheduler.NewExecutionGraph(&scheduler.Stage{Name: "only", Task: t})
		if gerr != nil {
			return runObs{}, 0, gerr
		}
		sd := scheduler.NewScheduler(r)
		sd.VerifSetPause(time.Millisecond)
		go func() { done <- sd.Schedule(g) }()
	} else {
		go func() { done <- r.Run(t) }()
	}
	select {
	case e = <-done:
	case <-time.After(20 * time.Second):
		return runObs{trace: readTrace(trace)}, time.Since(t0), fmt.Errorf("Run did not return within 20s")
	}
	elapsed = time.Since(t0)
	return runObs{trace: readTrace(trace), err: e != nil, errored: t.Errored, skipped: t.Skipped, exitCode: int(t.ExitCode)}, elapsed, nil
}

func timedCase(col *Collector, s timedSpec, tag string) {
	timedCases(col, func(col *Collector) { timedCase1(col, s, tag) })
}

func timedCase1(col *Collector, s timedSpec, tag string) {
	obs, elapsed, err := runTimedSpec(s)
	cs := Case{Line: s.line(), Tags: []string{tag, fmt.Sprintf("T=%d", s.T)}}
	cs.Replay = cs.Line + " kinds=" + s.kinds() + fmt.Sprintf(" interactive=%v run-as-a-pipeline-stage=%v", s.interactive, s.viaStage)
	cs.NonTrivial = true
	if err != nil {
		cs.Impl = "no-result"
		cs.Fail, cs.Sig = err.Error(), "c13-no-return"
		col.Add(cs)
		return
	}
	cs.Impl = obs.String()
	// the property, on the implementation observation
	// expected trace: everything up to and including the first stopping command
	var want []string
	stopped, wantErr, wantErrored := false, false, false
	budget := 0 // ms the commands may legitimately take
	grace := 0
	account := func(c timedCmd) {
		if c.overruns() {
			budget += s.T
			switch c.kind {
			case "immune":
				grace += 2000
			case "grandchild":
				grace += 2000
			}
		} else {
			budget += c.dur(s.T)
		}
	}
	hasGrandchild := false
	for i, c := range s.before {
		if stopped {
			break
		}
		want = append(want, fmt.Sprintf("b%d", i))
		account(c)
		if c.kind == "grandchild" {
			hasGrandchild = true
		}
		if c.overruns() || c.exit != 0 {
			stopped, wantErr = true, true
		}
	}
	for v, vc := range s.variations() {
		for j, c := range vc {
			if stopped {
				break
			}
			want = append(want, fmt.Sprintf("m%d.%d", v, j))
			account(c)
			if c.kind == "grandchild" {
				hasGrandchild = true
			}
			if c.overruns() || (c.exit != 0 && !s.allow) {
				stopped, wantErr, wantErrored = true, true, true
			}
		}
	}
	if !stopped {
		for i, c := range s.after {
			want = append(want, fmt.Sprintf("a%d", i))
			account(c)
			if c.kind == "grandchild" {
				hasGrandchild = true
			}
		}
	}
	limit := time.Duration(budget+grace+1500) * time.Millisecond
	switch {
	case strings.Join(obs.trace, ",") != strings.Join(want, ","):
		cs.Fail, cs.Sig = fmt.Sprintf("commands that ran %v, expected %v (an overrunning command must end the task, commands within the timeout are unaffected)", obs.trace, want), "c13-trace"
	case obs.err != wantErr || obs.errored != wantErrored:
		cs.Fail, cs.Sig = fmt.Sprintf("error=%v errored=%v, expected %v %v", obs.err, obs.errored, wantErr, wantErrored), "c13-status"
	case elapsed > limit:
		if hasGrandchild {
			cs.Fail, cs.Sig = fmt.Sprintf("Run returned after %v; the commands were allowed %v (timeout %dms per command + kill grace): an overrunning command whose descendant keeps the output pipe open is not reaped until the descendant exits", elapsed.Round(time.Millisecond), limit, s.T), "c13-grandchild-pipe"
		} else {
			cs.Fail, cs.Sig = fmt.Sprintf("Run returned after %v; the commands were allowed %v (timeout %dms per command + kill grace)", elapsed.Round(time.Millisecond), limit, s.T), "c13-late"
		}
	}
	col.Add(cs)
}

func runC13(col *Collector, tier string, seed int64) {
	rng := rand.New(rand.NewSource(seed))
	col.res.Rule = "real TaskRunner.Run with a task timeout of 500..1000ms: commands finishing early, using 40% of the timeout each (three of them: full budget per command), overrunning by a wide margin " +
		"(external sleep, shell busy loop, SIGINT-immune child, child whose grandchild keeps the pipe open) at every command position, in before/after hooks, with and without allow_failure; " +
		"wall-clock bound per case = sum of min(duration, timeout) + kill grace + 1.5s (one-sided). non-trivial = all; distinct = distinct specifications"
	q := timedCmd{"quick", 0}
	var specs []timedSpec
	var tags []string
	add := func(s timedSpec, tag string) { specs = append(specs, s); tags = append(tags, tag) }
	// the margin between a command that must finish (40% of T) and the timeout is >= 300ms: a loaded machine
	// must not turn a command within its budget into an overrun
	Ts := []int{500, 600, 800, 1000}
	// every position of a 3-command task x overrun kind x allow
	for pos := 0; pos < 3; pos++ {
		for _, kind := range []string{"sleep", "loop", "immune"} {
			for _, allow := range []bool{false, true} {
				if tier != "thorough" && kind == "immune" && (pos+map[bool]int{true: 1, false: 0}[allow])%2 == 1 {
					continue
				}
				cmds := []timedCmd{q, q, q}
				cmds[pos] = timedCmd{kind, 0}
				add(timedSpec{T: Ts[rng.Intn(len(Ts))], cmds: cmds, allow: allow, after: []timedCmd{q}}, "position")
			}
		}
	}
	// an allowed non-zero exit earlier in the task must not make a later overrun tolerated
	for _, kind := range []string{"sleep", "loop", "immune"} {
		add(timedSpec{T: Ts[rng.Intn(len(Ts))], cmds: []timedCmd{{"quick", 3}, {kind, 0}, q}, allow: true, after: []timedCmd{q}}, "allowed-failure-then-overrun")
		add(timedSpec{T: Ts[rng.Intn(len(Ts))], cmds: []timedCmd{q, {"quick", 200}, q, {kind, 0}, q}, allow: true}, "allowed-failure-then-overrun")
	}
	// variations: the timeout bounds the commands of EVERY variation - the overrun happens in the second or third
	for _, kind := range []string{"sleep", "loop"} {
		for _, allow := range []bool{false, true} {
			v0 := []timedCmd{q, q}
			v1 := []timedCmd{q, {kind, 0}}
			add(timedSpec{T: Ts[rng.Intn(len(Ts))], cmds: v0, vcmds: [][]timedCmd{v0, v1}, allow: allow, after: []timedCmd{q}}, "variation")
		}
		v0 := []timedCmd{{"quick", 0}, {"slow", 0}}
		add(timedSpec{T: Ts[rng.Intn(len(Ts))], cmds: v0, vcmds: [][]timedCmd{v0, {q, q}, {{kind, 0}, q}}}, "variation")
	}
	// hooks
	for _, kind := range []string{"sleep", "loop"} {
		add(timedSpec{T: Ts[rng.Intn(len(Ts))], before: []timedCmd{{kind, 0}}, cmds: []timedCmd{q}, after: []timedCmd{q}}, "before-hook")
		add(timedSpec{T: Ts[rng.Intn(len(Ts))], before: []timedCmd{{kind, 0}}, cmds: []timedCmd{q}, after: []timedCmd{q}, allow: true}, "before-hook")
		add(timedSpec{T: Ts[rng.Intn(len(Ts))], before: []timedCmd{q, {kind, 0}}, cmds: []timedCmd{q, q}, allow: true}, "before-hook")
		add(timedSpec{T: Ts[rng.Intn(len(Ts))], cmds: []timedCmd{q}, after: []timedCmd{{kind, 0}, q}, allow: false}, "after-hook")
		add(timedSpec{T: Ts[rng.Intn(len(Ts))], cmds: []timedCmd{q}, after: []timedCmd{{kind, 0}, q}, allow: true}, "after-hook")
	}
	// interactive tasks are bounded like any other
	for _, kind := range []string{"sleep", "loop"} {
		add(timedSpec{T: Ts[rng.Intn(len(Ts))], cmds: []timedCmd{q, {kind, 0}, q}, interactive: true}, "interactive")
		add(timedSpec{T: Ts[rng.Intn(len(Ts))], cmds: []timedCmd{{kind, 0}}, after: []timedCmd{q}, interactive: true, allow: true}, "interactive")
	}
	// each command gets the full timeout: three commands at 40% each
	for _, T := range Ts {
		sl := timedCmd{"slow", 0}
		add(timedSpec{T: T, before: []timedCmd{sl}, cmds: []timedCmd{sl, sl, sl}, after: []timedCmd{sl}}, "full-budget-each")
	}
	// ... also when they are hooks: three before hooks / three after hooks at 40% each
	for _, T := range Ts[:2] {
		sl := timedCmd{"slow", 0}
		add(timedSpec{T: T, before: []timedCmd{sl, sl, sl}, cmds: []timedCmd{q}, after: []timedCmd{q}}, "full-budget-each")
		add(timedSpec{T: T, cmds: []timedCmd{q}, after: []timedCmd{sl, sl, sl}}, "full-budget-each")
	}
	// the task as a stage of a pipeline: overruns at every position, in a later variation, in hooks; full budget each
	for pos, kind := range []string{"sleep", "loop", "immune"} {
		cmds := []timedCmd{q, q, q}
		cmds[pos] = timedCmd{kind, 0}
		add(timedSpec{T: Ts[pos], cmds: cmds, allow: pos == 1, after: []timedCmd{q}, viaStage: true}, "via-stage")
	}
	add(timedSpec{T: 600, cmds: []timedCmd{q, q}, vcmds: [][]timedCmd{{q, q}, {q, {"sleep", 0}}}, after: []timedCmd{q}, viaStage: true}, "via-stage")
	add(timedSpec{T: 500, before: []timedCmd{{"sleep", 0}}, cmds: []timedCmd{q}, after: []timedCmd{q}, viaStage: true}, "via-stage")
	add(timedSpec{T: 800, cmds: []timedCmd{q}, after: []timedCmd{{"loop", 0}, q}, viaStage: true}, "via-stage")
	add(timedSpec{T: 800, before: []timedCmd{{"slow", 0}}, cmds: []timedCmd{{"slow", 0}, {"slow", 0}, {"slow", 0}}, after: []timedCmd{{"slow", 0}}, viaStage: true}, "via-stage")
	// failing (not overrunning) commands with a timeout set behave as without
	add(timedSpec{T: 200, cmds: []timedCmd{q, {"quick", 3}, q}, allow: true, after: []timedCmd{q}}, "within")
	add(timedSpec{T: 200, cmds: []timedCmd{q, {"quick", 3}, q}, allow: false, after: []timedCmd{q}}, "within")
	// the known finding: a descendant keeps the output pipe open
	add(timedSpec{T: 150, cmds: []timedCmd{q, {"grandchild", 0}, q}, allow: false}, "grandchild")
	n := 6
	if tier == "thorough" {
		n = 80
	}
	for i := 0; i < n; i++ {
		kinds := []string{"quick", "quick", "slow", "sleep", "loop", "immune"}
		mk := func(k int) []timedCmd {
			var out []timedCmd
			for ; k > 0; k-- {
				c := timedCmd{kinds[rng.Intn(len(kinds))], 0}
				if c.kind == "quick" && rng.Intn(4) == 0 {
					c.exit = 1 + rng.Intn(255)
				}
				out = append(out, c)
			}
			return out
		}
		add(timedSpec{T: Ts[rng.Intn(len(Ts))], before: mk(rng.Intn(2)), cmds: mk(1 + rng.Intn(4)), after: mk(rng.Intn(3)), allow: rng.Intn(2) == 0}, "random")
	}
	parallel(len(specs), 16, func(i int) { timedCase(col, specs[i], tags[i]) })
	// many more timed tasks at once than there are CPUs, on one runner and on several: each command has its whole
	// timeout to itself - how many other commands are running does not eat into it
	for _, oneRunner := range []bool{true, false} {
		oneRunner := oneRunner
		timedCases(col, func(col *Collector) { wideTimedCase(col, 2*runtime.GOMAXPROCS(0)+3, oneRunner) })
	}
}

func wideTimedCase(col *Collector, n int, oneRunner bool) {
	const T, D = 2000, 1200
	trace := newTracePath()
	defer os.Remove(trace)
	cs := Case{Replay: fmt.Sprintf("%d tasks started together (one runner for all: %v), each with timeout %dms and the single command `sleep %.1f`", n, oneRunner, T, float64(D)/1000), Tags: []string{"wide"}, NonTrivial: true}
	shared, err := runner.NewTaskRunner()
	if err != nil {
		cs.Fail, cs.Sig = err.Error(), "c13-crash"
		col.Add(cs)
		return
	}
	shared.Stdout, shared.Stderr = devNull{}, devNull{}
	errs := make([]error, n)
	var wg sync.WaitGroup
	t0 := time.Now()
	for i := 0; i < n; i++ {
		t := task.FromCommands(fmt.Sprintf("sleep %.1f; echo done%d >> %s", float64(D)/1000, i, trace))
		t.Name = fmt.Sprintf("t%d", i)
		d := T * time.Millisecond
		t.Timeout = &d
		r := shared
		if !oneRunner {
			r, _ = runner.NewTaskRunner()
			r.Stdout, r.Stderr = devNull{}, devNull{}
		}
		wg.Add(1)
		go func(i int, r *runner.TaskRunner, t *task.Task) {
			defer wg.Done()
			errs[i] = r.Run(t)
		}(i, r, t)
	}
	wg.Wait()
	el := time.Since(t0)
	failed := 0
	var first error
	for _, e := range errs {
		if e != nil {
			failed++
			if first == nil {
				first = e
			}
		}
	}
	ran := strings.Count(strings.Join(readTrace(trace), ","), "done") // concurrent appends may glue two lines together
	cs.Impl = fmt.Sprintf("failed=%d completed=%d", failed, ran)
	if failed > 0 || ran != n {
		cs.Fail, cs.Sig = fmt.Sprintf("%d of %d tasks failed (%v) and %d commands completed after %v: a command that needs %dms of its %dms is within its timeout whatever else is running", failed, n, first, ran, el.Round(time.Millisecond), D, T), "c13-trace"
	}
	col.Add(cs)
}
