package main

import (
	"bufio"
	"bytes"
	"crypto/sha1"
	"encoding/hex"
	"encoding/json"
	"fmt"
	"os"
	"os/exec"
	"sort"
	"strings"
	"sync"
)

// Case is one generated input together with what the implementation did with it.
type Case struct {
	Line       string   // oracle input line: "<family> <payload>" ("" = no model prediction for this case)
	Impl       string   // canonical observation of the implementation (compared with the oracle's output)
	Fail       string   // "" if the property's monitor is satisfied on the implementation observation
	Sig        string   // signature of the failure, matched against known_findings.json
	NonTrivial bool     // by the property's stated rule
	Tags       []string // histogram labels
	Replay     string   // human-readable reproduction (defaults to Line)
}

type Failure struct {
	Case string `json:"case"`
	What string `json:"what"`
	Sig  string `json:"sig"`
	Impl string `json:"impl,omitempty"`
}

type Disagreement struct {
	Case  string `json:"case"`
	Impl  string `json:"impl"`
	Model string `json:"model"`
}

type Result struct {
	Property           string         `json:"property"`
	Tier               string         `json:"tier"`
	Seed               int64          `json:"seed"`
	Evaluations        int            `json:"evaluations"`
	DistinctNontrivial int            `json:"distinct_nontrivial"`
	TracesValidated    int            `json:"traces_validated_against_impl"`
	Histogram          map[string]int `json:"histogram"`
	Samples            []string       `json:"samples"`
	Failures           []Failure      `json:"failures"`
	FailureCount       int            `json:"failure_count"`
	Disagreements      []Disagreement `json:"disagreements"`
	DisagreementCount  int            `json:"disagreement_count"`
	Exhaustive         bool           `json:"exhaustive"`
	Rule               string         `json:"rule"`
	Notes              []string       `json:"notes"`
}

// Collector accumulates cases (thread-safe) and runs the oracle over them at the end.
type Collector struct {
	mu       sync.Mutex
	res      *Result
	lines    []string
	impls    []string
	replays  []string
	distinct map[string]bool
	sigSeen  map[string]int
	retries  []retryCase
	capture  *Case // when set, Add stores the case here instead of counting it (see timedCases)
}

// timedCases runs a case function (one that reports exactly one case) so that a failure is repeated alone before it
// is believed: see AddTimed
func timedCases(col *Collector, f func(col *Collector)) {
	run := func() Case {
		var got Case
		tmp := &Collector{res: &Result{Histogram: map[string]int{}}, distinct: map[string]bool{}, sigSeen: map[string]int{}, capture: &got}
		f(tmp)
		return got
	}
	col.AddTimed(run(), run)
}

func NewCollector(prop, tier string, seed int64) *Collector {
	return &Collector{
		res:      &Result{Property: prop, Tier: tier, Seed: seed, Histogram: map[string]int{}},
		distinct: map[string]bool{},
		sigSeen:  map[string]int{},
	}
}

var maxPerSig = 5

func hashKey(s string) string {
	h := sha1.Sum([]byte(s))
	return hex.EncodeToString(h[:8])
}

func (c *Collector) Add(cs Case) {
	c.mu.Lock()
	defer c.mu.Unlock()
	if c.capture != nil {
		*c.capture = cs
		return
	}
	r := c.res
	r.Evaluations++
	for _, t := range cs.Tags {
		r.Histogram[t]++
	}
	replay := cs.Replay
	if replay == "" {
		replay = cs.Line
	}
	if cs.NonTrivial {
		k := hashKey(cs.Line + "\x00" + replay)
		if !c.distinct[k] {
			c.distinct[k] = true
			r.DistinctNontrivial++
		}
	}
	if len(r.Samples) < 6 && (cs.NonTrivial || r.Evaluations < 3) && r.Evaluations%7 != 3 {
		r.Samples = append(r.Samples, fmt.Sprintf("%s => %s", replay, cs.Impl))
	}
	if cs.Fail != "" {
		r.FailureCount++
		c.sigSeen[cs.Sig]++
		// keep at most 5 examples per signature
		if c.sigSeen[cs.Sig] <= maxPerSig {
			r.Failures = append(r.Failures, Failure{Case: replay, What: cs.Fail, Sig: cs.Sig, Impl: cs.Impl})
		}
	}
	if cs.Line != "" {
		c.lines = append(c.lines, cs.Line)
		c.impls = append(c.impls, cs.Impl)
		c.replays = append(c.replays, replay)
	}
}

// AddTimed is Add for cases whose verdict depends on wall-clock bounds (a run that must return within N seconds,
// processes that must start together): on a machine that is busy enough such a bound can be missed by correct
// code. A failing case is therefore not reported at once; it is repeated on its own after everything else
// (DrainRetries), and reported only if it fails again - a deadlock or a serialisation shows again, a slow start
// does not. Deterministic failures are unaffected (they fail twice).
func (c *Collector) AddTimed(cs Case, again func() Case) {
	if cs.Fail == "" || os.Getenv("VERIF_NO_RETRY") != "" {
		c.Add(cs)
		return
	}
	c.mu.Lock()
	c.retries = append(c.retries, retryCase{cs, again})
	c.mu.Unlock()
}

type retryCase struct {
	first Case
	again func() Case
}

func (c *Collector) DrainRetries() {
	c.mu.Lock()
	rs := c.retries
	c.retries = nil
	c.mu.Unlock()
	for _, r := range rs {
		cs := r.again()
		if cs.Fail != "" {
			cs.Fail += fmt.Sprintf(" [failed twice; first attempt: %s]", r.first.Fail)
		} else {
			cs.Tags = append(cs.Tags, "passed-on-second-attempt")
			c.Note("a time-bounded case failed once (%s: %s) and passed when repeated alone: %s", r.first.Sig, r.first.Fail, r.first.Replay)
		}
		c.Add(cs)
	}
}

func (c *Collector) Note(format string, a ...interface{}) {
	c.mu.Lock()
	defer c.mu.Unlock()
	c.res.Notes = append(c.res.Notes, fmt.Sprintf(format, a...))
}

// RunOracle pipes all collected lines to the Lean oracle and diffs the outputs.
func (c *Collector) RunOracle(oracle string) error {
	if len(c.lines) == 0 {
		return nil
	}
	nproc := 8
	chunk := (len(c.lines) + nproc - 1) / nproc
	outs := make([][]string, nproc)
	errs := make([]error, nproc)
	var wg sync.WaitGroup
	for p := 0; p < nproc; p++ {
		lo, hi := p*chunk, (p+1)*chunk
		if lo >= len(c.lines) {
			break
		}
		if hi > len(c.lines) {
			hi = len(c.lines)
		}
		wg.Add(1)
		go func(p, lo, hi int) {
			defer wg.Done()
			cmd := exec.Command(oracle)
			cmd.Stdin = strings.NewReader(strings.Join(c.lines[lo:hi], "\n") + "\n")
			var out bytes.Buffer
			cmd.Stdout = &out
			cmd.Stderr = os.Stderr
			if err := cmd.Run(); err != nil {
				errs[p] = fmt.Errorf("oracle: %v", err)
				return
			}
			sc := bufio.NewScanner(&out)
			sc.Buffer(make([]byte, 1<<20), 1<<26)
			for sc.Scan() {
				outs[p] = append(outs[p], sc.Text())
			}
			if len(outs[p]) != hi-lo {
				errs[p] = fmt.Errorf("oracle returned %d lines for %d cases", len(outs[p]), hi-lo)
			}
		}(p, lo, hi)
	}
	wg.Wait()
	for _, e := range errs {
		if e != nil {
			return e
		}
	}
	i := 0
	for p := 0; p < nproc; p++ {
		for _, m := range outs[p] {
			if m != c.impls[i] {
				c.res.DisagreementCount++
				if len(c.res.Disagreements) < 10 {
					c.res.Disagreements = append(c.res.Disagreements, Disagreement{Case: c.replays[i], Impl: c.impls[i], Model: m})
				}
			} else {
				c.res.TracesValidated++
			}
			i++
		}
	}
	return nil
}

func (c *Collector) Write(path string) error {
	sort.Strings(c.res.Notes)
	b, err := json.MarshalIndent(c.res, "", " ")
	if err != nil {
		return err
	}
	return os.WriteFile(path, b, 0644)
}

// parallel runs f(i) for i in [0,n) on w workers.
func parallel(n, w int, f func(i int)) {
	var wg sync.WaitGroup
	ch := make(chan int, 1024)
	for k := 0; k < w; k++ {
		wg.Add(1)
		go func() {
			defer wg.Done()
			for i := range ch {
				f(i)
			}
		}()
	}
	for i := 0; i < n; i++ {
		ch <- i
	}
	close(ch)
	wg.Wait()
}
