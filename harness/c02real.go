package main

import (
	"fmt"
	"os"
	"path/filepath"
	"strings"
	"time"

	"github.com/taskctl/taskctl/pkg/runner"
	"github.com/taskctl/taskctl/pkg/scheduler"
	"github.com/taskctl/taskctl/pkg/verifhooks"
)

// C02 on pipelines built from a configuration file and run by the REAL runner: which failures a stage tolerates is the
// STAGE's allow_failure; a task's own allow_failure covers non-zero exits of its commands only. A task that fails in
// another way (a failing before hook, a command that cannot be rendered, an unknown context, a timeout) fails its
// stage, its dependants are cancelled and the run reports an error - unless the stage itself allows failure.
func c02RealConfigCases(col *Collector, focus string) {
	type variant struct {
		name, taskBody string
		failsStage     bool // the task's run returns an error
	}
	variants := []variant{
		{"command exits 3, task allows failure", "    allow_failure: true\n    command: [\"echo first >> TRACE; exit 3\"]\n", false},
		{"command exits 3", "    command: [\"echo first >> TRACE; exit 3\"]\n", true},
		{"before hook fails, task allows failure", "    allow_failure: true\n    before: [\"false\"]\n    command: [\"true\"]\n", true},
		{"undefined variable, task allows failure", "    allow_failure: true\n    command: [\"echo {{ .Undefined }}\"]\n", true},
		{"unknown context, task allows failure", "    allow_failure: true\n    context: nosuch\n    command: [\"true\"]\n", true},
		{"timeout, task allows failure", "    allow_failure: true\n    timeout: 200ms\n    command: [\"echo first >> TRACE; sleep 5\"]\n", true},
	}
	// sideFails: the independent stage `side` fails as well, for a reason of another kind than `first` (two failures
	// of different kinds in one run: an exit status next to a template error, an unknown context, a timeout)
	sideBodies := []string{"", "    context: nosuch-either\n", "    timeout: 150ms\n", "    before: [\"exit 9\"]\n"}
	for vi, v := range variants {
		for si, stageAllows := range []bool{false, true} {
			sideBody := ""
			if !stageAllows {
				sideBody = sideBodies[(vi+si)%len(sideBodies)]
				if vi == 1 {
					sideBody = sideBodies[1] // `first` exits 3, `side` names an unknown context
				}
				if vi == 4 {
					sideBody = "    before: [\"exit 9\"]\n" // not the same kind as first's unknown context
				}
			}
			sideFails := sideBody != ""
			dir := newScratchDir("c02r")
			trace := filepath.Join(dir, "trace")
			var b strings.Builder
			b.WriteString("tasks:\n  first:\n" + strings.ReplaceAll(v.taskBody, "TRACE", trace))
			sideCmd := fmt.Sprintf("echo side >> %s", trace)
			if strings.Contains(sideBody, "timeout") {
				sideCmd += "; sleep 5"
			}
			fmt.Fprintf(&b, "  second:\n    command: [\"echo second >> %s\"]\n  third:\n    command: [\"echo third >> %s\"]\n  side:\n%s    command: [\"%s\"]\n", trace, trace, sideBody, sideCmd)
			b.WriteString("pipelines:\n  p:\n    - task: first\n")
			if stageAllows {
				b.WriteString("      allow_failure: true\n")
			}
			b.WriteString("    - task: second\n      depends_on: [first]\n    - task: third\n      depends_on: [second]\n    - task: side\n")
			os.WriteFile(filepath.Join(dir, "tasks.yaml"), []byte(b.String()), 0644)
			cs := Case{Tags: []string{"real-runner-config"}, NonTrivial: true,
				Replay: fmt.Sprintf("pipeline first -> second -> third, side; first: %s; stage allow_failure=%v; side fails too=%v (config: %s)", v.name, stageAllows, sideFails, strings.ReplaceAll(b.String(), "\n", "\\n"))}
			func() {
				defer func() {
					if p := recover(); p != nil {
						cs.Fail, cs.Sig = fmt.Sprint("panic: ", p), "c02-final-status"
					}
				}()
				cl := verifhooks.NewConfigLoader(verifhooks.NewConfig())
				cl.VerifSetDirs(dir, filepath.Join(dir, "nohome"))
				cfg, err := cl.Load(filepath.Join(dir, "tasks.yaml"))
				if err != nil {
					cs.Fail, cs.Sig = "configuration rejected: "+err.Error(), "sched-setup"
					return
				}
				r, err := runner.NewTaskRunner(runner.WithContexts(cfg.Contexts))
				if err != nil {
					cs.Fail, cs.Sig = err.Error(), "sched-setup"
					return
				}
				r.Stdout, r.Stderr = devNull{}, devNull{}
				g := cfg.Pipelines["p"]
				sd := scheduler.NewScheduler(r)
				done := make(chan error, 1)
				go func() { done <- sd.Schedule(g) }()
				var serr error
				select {
				case serr = <-done:
				case <-time.After(20 * time.Second):
					cs.Fail, cs.Sig = "the run did not return within 20s", map[bool]string{true: "c03-no-return", false: "c02-final-status"}[focus == "C03"]
					return
				}
				st := map[string]int32{}
				for _, s := range g.Nodes() {
					st[s.Name] = s.ReadStatus()
				}
				ran := strings.Join(readTrace(trace), ",")
				cs.Impl = fmt.Sprintf("first=%d second=%d third=%d side=%d err=%v ran=%s", st["first"], st["second"], st["third"], st["side"], serr != nil, ran)
				blocked := v.failsStage && !stageAllows
				sideSt := map[bool]int{false: scheduler.StatusDone, true: scheduler.StatusError}[sideFails]
				want := fmt.Sprintf("first=%d second=%d third=%d side=%d err=%v", scheduler.StatusDone, scheduler.StatusDone, scheduler.StatusDone, sideSt, sideFails)
				if blocked {
					want = fmt.Sprintf("first=%d second=%d third=%d side=%d err=%v", scheduler.StatusError, scheduler.StatusCanceled, scheduler.StatusCanceled, sideSt, true)
				}
				if focus == "C03" {
					if os.Getenv("VERIF_DEBUG_C03") != "" {
						fmt.Fprintln(os.Stderr, "c02real:", v.name, stageAllows, cs.Impl, readTrace(trace))
					}
					// every stage is executed at most once: the commands of its task leave one line each
					all := strings.Join(readTrace(trace), ",") // concurrent appends may glue two lines together
					for _, name := range []string{"first", "second", "third", "side"} {
						if n := strings.Count(all, name); n > 1 {
							cs.Fail, cs.Sig = fmt.Sprintf("the command of stage %s was executed %d times in one run", name, n), "c03-twice"
						}
					}
					return
				}
				if !strings.HasPrefix(cs.Impl, want+" ") {
					cs.Fail, cs.Sig = fmt.Sprintf("the run ended with %s, the graph and the outcomes determine %s", cs.Impl, want), "c02-final-status"
				} else if blocked && (strings.Contains(ran, "second") || strings.Contains(ran, "third")) {
					cs.Fail, cs.Sig = "a dependant of the failed stage ran: "+ran, "c02-unexpected-run"
				}
			}()
			col.Add(cs)
			os.RemoveAll(dir)
		}
	}
}

// two stages with no dependency between them whose tasks share an execution context that takes a moment to fail to start
// (`up: [sleep 0.3, false]`): whichever task reaches the context first, BOTH find it failed - both stages end in error,
// their dependants are cancelled, the unrelated stage runs, the run reports an error. With `up` given as two failing
// shapes: slow then failing, failing then slow.
func slowFailingUpCases(col *Collector, focus string) {
	for variant, up := range []string{`["sleep 0.3", "false"]`, `["false", "sleep 0.3"]`, `["sleep 0.2; exit 4"]`} {
		dir := newScratchDir("c02u")
		trace := filepath.Join(dir, "trace")
		doc := fmt.Sprintf("contexts:\n  cx:\n    up: %s\ntasks:\n  a:\n    context: cx\n    command: [\"echo a >> %s\"]\n  b:\n    context: cx\n    command: [\"echo b >> %s\"]\n  da:\n    command: [\"echo da >> %s\"]\n  db:\n    command: [\"echo db >> %s\"]\n  free:\n    command: [\"echo free >> %s\"]\npipelines:\n  p:\n    - task: a\n    - task: b\n    - task: da\n      depends_on: [a]\n    - task: db\n      depends_on: [b]\n    - task: free\n", up, trace, trace, trace, trace, trace)
		os.WriteFile(filepath.Join(dir, "tasks.yaml"), []byte(doc), 0644)
		cs := Case{Tags: []string{"real-runner-config", "slow-failing-up"}, NonTrivial: true,
			Replay: fmt.Sprintf("two parallel stages sharing a context whose up is %s (variant %d), each with a dependant, and an unrelated stage (config: %s)", up, variant, strings.ReplaceAll(doc, "\n", "\\n"))}
		func() {
			defer func() {
				if p := recover(); p != nil {
					cs.Fail, cs.Sig = fmt.Sprint("panic: ", p), "c02-final-status"
				}
			}()
			cl := verifhooks.NewConfigLoader(verifhooks.NewConfig())
			cl.VerifSetDirs(dir, filepath.Join(dir, "nohome"))
			cfg, err := cl.Load(filepath.Join(dir, "tasks.yaml"))
			if err != nil {
				cs.Fail, cs.Sig = "configuration rejected: "+err.Error(), "sched-setup"
				return
			}
			r, err := runner.NewTaskRunner(runner.WithContexts(cfg.Contexts))
			if err != nil {
				cs.Fail, cs.Sig = err.Error(), "sched-setup"
				return
			}
			r.Stdout, r.Stderr = devNull{}, devNull{}
			g := cfg.Pipelines["p"]
			sd := scheduler.NewScheduler(r)
			done := make(chan error, 1)
			go func() { done <- sd.Schedule(g) }()
			var serr error
			select {
			case serr = <-done:
			case <-time.After(20 * time.Second):
				cs.Fail, cs.Sig = "the run did not return within 20s", map[bool]string{true: "c03-no-return", false: "c02-final-status"}[focus == "C03"]
				return
			}
			st := map[string]int32{}
			for _, s := range g.Nodes() {
				st[s.Name] = s.ReadStatus()
			}
			ran := strings.Join(readTrace(trace), ",")
			cs.Impl = fmt.Sprintf("a=%d b=%d da=%d db=%d free=%d err=%v ran=%s", st["a"], st["b"], st["da"], st["db"], st["free"], serr != nil, ran)
			want := fmt.Sprintf("a=%d b=%d da=%d db=%d free=%d err=true ran=free", scheduler.StatusError, scheduler.StatusError, scheduler.StatusCanceled, scheduler.StatusCanceled, scheduler.StatusDone)
			if focus == "C02" && cs.Impl != want {
				cs.Fail, cs.Sig = fmt.Sprintf("the run ended with %s; the context never came up, so the graph and the outcomes determine %s", cs.Impl, want), "c02-final-status"
			}
		}()
		col.Add(cs)
		os.RemoveAll(dir)
	}
}
