package main

import (
	"fmt"
	"math/rand"
	"os"
	"path/filepath"
	"regexp"
	"strings"
	"sync"
	"time"

	"github.com/taskctl/taskctl/pkg/runner"
	"github.com/taskctl/taskctl/pkg/scheduler"
	"github.com/taskctl/taskctl/pkg/task"
	"github.com/taskctl/taskctl/pkg/variables"
)

func init() { props["C14"] = runC14 }

type hookTask struct {
	ctx    int  // index of its context, -1: none
	cond   byte // 'n' none, 't' true, 'f' false
	before bool
	after  bool
	fail   bool
	badDir bool // the task's dir is a template that cannot be rendered: the run fails when its commands are compiled
}

type hookScenario struct {
	upFail []bool   // per context: some up command fails
	upCmds [][]bool // per context: one entry per up command (true = that command fails); nil = a single command
	tasks  []hookTask
	par    bool   // tasks started simultaneously
	via    string // "runner" | "sched" | "cli"
	noDown []bool // per context: it has no down commands (nil: all have)
	form   string // cli only: "" (taskctl T...), "run" (taskctl run T...), "runtask" (taskctl run task T...), "runpipeline"
	ghost  bool   // cli only, several targets: an unknown name follows the last target
	// nest (sched, cli; >= 2 tasks): the first half of the tasks form a pipeline of their own ("pin") which the
	// first stage of p includes; on a command line with several targets, pin is the first target
	nest bool
	// nestStrict (with nest, parallel tasks): the stages of the included pipeline do NOT allow failure, so a failing
	// task makes the included run fail; the including stage tolerates it and the rest of p goes on in the same contexts
	nestStrict bool
}

func (s hookScenario) strictInner() bool { return s.nestStrict && s.par && s.nestLen() > 0 }

func (s hookScenario) nestLen() int {
	if s.nest && len(s.tasks) >= 2 && (s.via == "sched" || s.via == "cli") {
		return len(s.tasks) / 2
	}
	return 0
}

// the up commands of context c: the first one writes the token cN.up, the k-th one cN.upK
func (s hookScenario) upList(c int, trace string) []string {
	cmds := s.upCmds
	if cmds == nil || cmds[c] == nil {
		return []string{hookCmd(trace, fmt.Sprintf("c%d.up", c), s.upFail[c])}
	}
	var out []string
	for k, f := range cmds[c] {
		tok := fmt.Sprintf("c%d.up", c)
		if k > 0 {
			tok = fmt.Sprintf("c%d.up%d", c, k+1)
		}
		out = append(out, hookCmd(trace, tok, f))
	}
	return out
}

func (s hookScenario) downList(c int, trace string) []string {
	if s.noDown != nil && s.noDown[c] {
		return nil
	}
	return []string{hookCmd(trace, fmt.Sprintf("c%d.down", c), false)}
}

func (s hookScenario) upTokens(c int) []string {
	n := 1
	if s.upCmds != nil && s.upCmds[c] != nil {
		n = len(s.upCmds[c])
	}
	out := []string{fmt.Sprintf("c%d.up", c)}
	for k := 2; k <= n; k++ {
		out = append(out, fmt.Sprintf("c%d.up%d", c, k))
	}
	return out
}

func (s hookScenario) line() string {
	up := make([]string, len(s.upFail))
	for i, f := range s.upFail {
		up[i] = map[bool]string{true: "F", false: "o"}[f]
	}
	ts := make([]string, len(s.tasks))
	for i, t := range s.tasks {
		bd := ""
		if t.badDir {
			bd = "D"
		}
		ts[i] = bd + fmt.Sprintf("%d%c%s%s%s", t.ctx, t.cond, map[bool]string{true: "b", false: "-"}[t.before], map[bool]string{true: "a", false: "-"}[t.after], map[bool]string{true: "F", false: "o"}[t.fail])
	}
	extra := ""
	if s.upCmds != nil {
		extra += fmt.Sprintf(" upcmds=%v", s.upCmds)
	}
	if s.noDown != nil {
		extra += fmt.Sprintf(" nodown=%v", s.noDown)
	}
	if s.nestLen() > 0 {
		extra += fmt.Sprintf(" nested-first-%d", s.nestLen())
		if s.strictInner() {
			extra += "(its stages do not allow failure)"
		}
	}
	if s.form != "" || s.ghost {
		extra += fmt.Sprintf(" form=%s ghost=%v", s.form, s.ghost)
	}
	return fmt.Sprintf("hooks up=%s tasks=%s par=%v via=%s%s", strings.Join(up, ""), strings.Join(ts, ","), s.par, s.via, extra)
}

func hookCmd(trace, tok string, fail bool) string {
	if fail {
		return fmt.Sprintf("echo %s >> %s; exit 1", tok, trace)
	}
	return fmt.Sprintf("echo %s >> %s", tok, trace)
}

func (s hookScenario) buildTask(i int, trace string) *task.Task {
	ht := s.tasks[i]
	t := &task.Task{Env: variables.NewVariables(), Variables: variables.NewVariables()}
	t.Name = fmt.Sprintf("t%d", i)
	if ht.ctx >= 0 {
		t.Context = fmt.Sprintf("c%d", ht.ctx)
	}
	switch ht.cond {
	case 't':
		t.Condition = hookCmd(trace, fmt.Sprintf("t%d.cond", i), false)
	case 'f':
		t.Condition = hookCmd(trace, fmt.Sprintf("t%d.cond", i), true)
	}
	if ht.before {
		t.Before = []string{hookCmd(trace, fmt.Sprintf("t%d.before", i), false)}
	}
	if ht.after {
		t.After = []string{hookCmd(trace, fmt.Sprintf("t%d.after", i), false)}
	}
	t.Commands = []string{hookCmd(trace, fmt.Sprintf("t%d.cmd", i), ht.fail)}
	if ht.badDir {
		t.Dir = "{{.NoSuchVariable}}"
	}
	return t
}

func (s hookScenario) yaml(trace string) string {
	var b strings.Builder
	b.WriteString("contexts:\n")
	for c := range s.upFail {
		var ups []string
		for _, u := range s.upList(c, trace) {
			ups = append(ups, fmt.Sprintf("%q", u))
		}
		downLine := fmt.Sprintf("    down: [%q]\n", hookCmd(trace, fmt.Sprintf("c%d.down", c), false))
		if s.noDown != nil && s.noDown[c] {
			downLine = ""
		}
		fmt.Fprintf(&b, "  c%d:\n    up: [%s]\n%s    before: [%q]\n    after: [%q]\n", c,
			strings.Join(ups, ", "), downLine,
			hookCmd(trace, fmt.Sprintf("c%d.before", c), false), hookCmd(trace, fmt.Sprintf("c%d.after", c), false))
	}
	b.WriteString("tasks:\n")
	for i := range s.tasks {
		t := s.buildTask(i, trace)
		fmt.Fprintf(&b, "  %s:\n    command: [%q]\n", t.Name, t.Commands[0])
		if t.Context != "" {
			fmt.Fprintf(&b, "    context: %s\n", t.Context)
		}
		if t.Dir != "" {
			fmt.Fprintf(&b, "    dir: %q\n", t.Dir)
		}
		if t.Condition != "" {
			fmt.Fprintf(&b, "    condition: %q\n", t.Condition)
		}
		if len(t.Before) > 0 {
			fmt.Fprintf(&b, "    before: [%q]\n", t.Before[0])
		}
		if len(t.After) > 0 {
			fmt.Fprintf(&b, "    after: [%q]\n", t.After[0])
		}
	}
	h := s.nestLen()
	b.WriteString("pipelines:\n")
	if h > 0 {
		b.WriteString("  pin:\n")
		for i := 0; i < h; i++ {
			fmt.Fprintf(&b, "    - task: t%d\n", i)
			if !s.par && i > 0 {
				fmt.Fprintf(&b, "      depends_on: [t%d]\n      allow_failure: true\n", i-1)
			} else {
				fmt.Fprintf(&b, "      allow_failure: %v\n", !s.strictInner())
			}
		}
	}
	b.WriteString("  p:\n")
	if h > 0 {
		b.WriteString("    - pipeline: pin\n      allow_failure: true\n")
	}
	for i := h; i < len(s.tasks); i++ {
		fmt.Fprintf(&b, "    - task: t%d\n", i)
		switch {
		case i == h && h > 0:
			// what follows the included pipeline starts after it (also when the tasks are otherwise parallel: the
			// point is a task that uses the contexts after an included pipeline has finished)
			fmt.Fprintf(&b, "      depends_on: [pin]\n      allow_failure: true\n")
		case !s.par && i > 0:
			fmt.Fprintf(&b, "      depends_on: [t%d]\n      allow_failure: true\n", i-1)
		default:
			fmt.Fprintf(&b, "      allow_failure: true\n")
		}
	}
	return b.String()
}

type hookObs struct {
	executed []bool // which tasks were requested to run at all (the CLI stops at the first failing target)
	trace    []string
	runErr   []bool
	crashed  string
}

func runHookScenario(s hookScenario) hookObs {
	trace := newTracePath()
	defer os.Remove(trace)
	obs := hookObs{runErr: make([]bool, len(s.tasks)), executed: make([]bool, len(s.tasks))}
	for i := range obs.executed {
		obs.executed[i] = true
	}
	if s.via == "cli" {
		dir := newScratchDir("c14")
		defer os.RemoveAll(dir)
		os.WriteFile(filepath.Join(dir, "c.yaml"), []byte(s.yaml(trace)), 0644)
		targets := []string{"p"}
		if len(s.tasks) == 1 {
			targets = []string{"t0"}
		} else if !s.par {
			// sequential: every task as a target of its own on one command line (stops at the first failure)
			targets = nil
			if s.nestLen() > 0 {
				targets = append(targets, "pin")
			}
			for i := s.nestLen(); i < len(s.tasks); i++ {
				targets = append(targets, fmt.Sprintf("t%d", i))
			}
		}
		multi := len(targets) > 1
		if s.ghost && multi {
			targets = append(targets, "nosuchtarget")
		}
		switch s.form {
		case "run":
			targets = append([]string{"run"}, targets...)
		case "runtask":
			if targets[0] != "p" && targets[0] != "pin" {
				targets = append([]string{"run", "task"}, targets...)
			}
		case "runpipeline":
			if targets[0] == "p" {
				targets = []string{"run", "pipeline", "p"}
			}
		}
		res := runTaskctl(dir, nil, 30*time.Second, append([]string{"-c", filepath.Join(dir, "c.yaml"), "--output", "raw"}, targets...)...)
		if res.panicked || res.timedOut {
			obs.crashed = fmt.Sprintf("exit=%d timeout=%v %s", res.exit, res.timedOut, lastLines(res.stderr, 2))
		}
		obs.trace = readHookTrace(trace)
		for i, t := range s.tasks {
			// the CLI reports only the overall status; derive the per-task error from the definition
			obs.runErr[i] = (t.fail && t.cond != 'f') || (t.ctx >= 0 && s.upFail[t.ctx]) || t.badDir
		}
		if multi {
			stopped := false
			for i := range s.tasks {
				if i < s.nestLen() {
					continue // inside the first target, a pipeline whose stages all allow failure
				}
				obs.executed[i] = !stopped
				if obs.runErr[i] {
					stopped = true
				}
			}
		}
		return obs
	}
	ctxs := map[string]*runner.ExecutionContext{}
	for c := range s.upFail {
		ctxs[fmt.Sprintf("c%d", c)] = runner.NewExecutionContext(nil, "", variables.NewVariables(),
			s.upList(c, trace), s.downList(c, trace),
			[]string{hookCmd(trace, fmt.Sprintf("c%d.before", c), false)}, []string{hookCmd(trace, fmt.Sprintf("c%d.after", c), false)})
	}
	r, err := runner.NewTaskRunner(runner.WithContexts(ctxs))
	if err != nil {
		obs.crashed = err.Error()
		return obs
	}
	r.Stdout, r.Stderr = devNull{}, devNull{}
	tasks := make([]*task.Task, len(s.tasks))
	for i := range s.tasks {
		tasks[i] = s.buildTask(i, trace)
	}
	finished := make(chan struct{})
	go func() {
		defer close(finished)
		defer func() {
			if p := recover(); p != nil {
				obs.crashed = fmt.Sprint("PANIC: ", p)
			}
		}()
		if s.via == "sched" {
			var stages, inner, all []*scheduler.Stage
			h := s.nestLen()
			for i, t := range tasks {
				st := &scheduler.Stage{Name: t.Name, Task: t, AllowFailure: !(s.strictInner() && i < s.nestLen())}
				switch {
				case h > 0 && i == h:
					st.DependsOn = []string{"pin"}
				case !s.par && i > 0 && i != h:
					st.DependsOn = []string{tasks[i-1].Name}
				}
				all = append(all, st)
				if i < h {
					inner = append(inner, st)
				} else {
					stages = append(stages, st)
				}
			}
			if h > 0 {
				ig, err := scheduler.NewExecutionGraph(inner...)
				if err != nil {
					obs.crashed = err.Error()
					return
				}
				stages = append([]*scheduler.Stage{{Name: "pin", Pipeline: ig, AllowFailure: true}}, stages...)
			}
			g, err := scheduler.NewExecutionGraph(stages...)
			if err != nil {
				obs.crashed = err.Error()
				return
			}
			sd := scheduler.NewScheduler(r)
			sd.VerifSetPause(time.Millisecond)
			sd.Schedule(g)
			for i, st := range all {
				obs.runErr[i] = tasks[i].Errored || st.Task.Error != nil
			}
			// stage status Error was reset to Done by allow_failure; use the ground truth from the definition for hooks-only errors
			for i, t := range s.tasks {
				if (t.ctx >= 0 && s.upFail[t.ctx]) || t.badDir {
					obs.runErr[i] = true
				}
			}
			sd.Finish()
		} else {
			if s.par {
				var wg sync.WaitGroup
				start := make(chan struct{})
				for i := range tasks {
					wg.Add(1)
					go func(i int) {
						defer wg.Done()
						<-start
						obs.runErr[i] = r.Run(tasks[i]) != nil
					}(i)
				}
				close(start)
				wg.Wait()
			} else {
				for i := range tasks {
					obs.runErr[i] = r.Run(tasks[i]) != nil
				}
			}
			r.Finish()
		}
	}()
	select {
	case <-finished:
	case <-time.After(30 * time.Second):
		// a run that never returns (e.g. a lock taken twice): report it, leave the goroutine behind
		return hookObs{runErr: make([]bool, len(s.tasks)), executed: obs.executed, trace: readHookTrace(trace), crashed: "HANG: the runs did not return within 30s"}
	}
	obs.trace = readHookTrace(trace)
	return obs
}

var hookTok = regexp.MustCompile(`[ct][0-9]+\.(?:up[23]?|down|before|after|cond|cmd)`)

// concurrent `echo x >> file` may interleave the text and the newline of two writers: tokenise by pattern
func readHookTrace(path string) []string {
	b, _ := os.ReadFile(path)
	return hookTok.FindAllString(string(b), -1)
}

// hookVerdict is the property itself, evaluated on the implementation trace
func hookVerdict(s hookScenario, o hookObs) (string, string) {
	if o.crashed != "" {
		return "crashed: " + o.crashed, "c14-crash"
	}
	count := map[string]int{}
	first := map[string]int{}
	last := map[string]int{}
	for i, tok := range o.trace {
		count[tok]++
		if _, ok := first[tok]; !ok {
			first[tok] = i
		}
		last[tok] = i
	}
	for c, upFail := range s.upFail {
		cn := fmt.Sprintf("c%d", c)
		var users []int
		for i, t := range s.tasks {
			if t.ctx == c && o.executed[i] {
				users = append(users, i)
			}
		}
		if len(users) == 0 {
			for _, h := range []string{".up", ".down", ".before", ".after"} {
				if count[cn+h] > 0 {
					return fmt.Sprintf("context %s is not used by any task but its %s hook ran", cn, h[1:]), "c14-unused-context"
				}
			}
			continue
		}
		lastUp := -1
		for k, tok := range s.upTokens(c) {
			if count[tok] != 1 {
				return fmt.Sprintf("context %s: up command %d ran %d times, expected exactly once", cn, k+1, count[tok]), "c14-up-count"
			}
			if first[tok] < lastUp {
				return fmt.Sprintf("context %s: up command %d ran before the one listed before it", cn, k+1), "c14-up-order"
			}
			lastUp = last[tok]
		}
		wantDown := 1
		if s.noDown != nil && s.noDown[c] {
			wantDown = 0
		}
		if count[cn+".down"] != wantDown {
			if s.via == "cli" {
				return fmt.Sprintf("context %s: down ran %d times at shutdown, expected exactly once", cn, count[cn+".down"]), "c14-down-cli"
			}
			return fmt.Sprintf("context %s: down ran %d times at shutdown, expected exactly once", cn, count[cn+".down"]), "c14-down-count"
		}
		executions := 0
		for _, i := range users {
			tn := fmt.Sprintf("t%d", i)
			ran := false
			for _, part := range []string{".cond", ".before", ".cmd", ".after"} {
				tok := tn + part
				if count[tok] > 0 {
					ran = true
					if first[tok] < lastUp {
						return fmt.Sprintf("%s ran before up of %s completed", tok, cn), "c14-up-order"
					}
					if count[cn+".down"] > 0 && last[tok] > first[cn+".down"] {
						return fmt.Sprintf("%s ran after down of %s", tok, cn), "c14-down-order"
					}
				}
			}
			if s.tasks[i].badDir && !upFail {
				if ran {
					return fmt.Sprintf("task %s cannot be compiled (its dir does not render) but ran commands", tn), "c14-uncompilable-ran"
				}
				if !o.runErr[i] {
					return fmt.Sprintf("task %s cannot be compiled but reported no error", tn), "c14-uncompilable-noerror"
				}
			}
			if upFail {
				if ran {
					return fmt.Sprintf("up of %s failed but task %s ran commands", cn, tn), "c14-up-failed-ran"
				}
				if !o.runErr[i] {
					return fmt.Sprintf("up of %s failed but task %s reported no error", cn, tn), "c14-up-failed-noerror"
				}
			} else {
				executions++
			}
		}
		for _, h := range []string{".before", ".after"} {
			if count[cn+h] > 0 && first[cn+h] < lastUp {
				return fmt.Sprintf("%s%s ran before up completed", cn, h), "c14-up-order"
			}
			if count[cn+h] > 0 && count[cn+".down"] > 0 && last[cn+h] > first[cn+".down"] {
				return fmt.Sprintf("%s%s ran after down", cn, h), "c14-down-order"
			}
		}
		if count[cn+".before"] != executions {
			return fmt.Sprintf("context %s: before ran %d times for %d task executions", cn, count[cn+".before"], executions), "c14-before-count"
		}
		if count[cn+".after"] != executions {
			return fmt.Sprintf("context %s: after ran %d times for %d task executions", cn, count[cn+".after"], executions), "c14-after-count"
		}
		// sequential runs: the exact bracket  before, task..., after
		if !s.par && !upFail {
			for _, i := range users {
				tn := fmt.Sprintf("t%d", i)
				lo, hi := -1, -1
				for k, tok := range o.trace {
					if strings.HasPrefix(tok, tn+".") {
						if lo < 0 {
							lo = k
						}
						hi = k
					}
				}
				if lo > 0 && o.trace[lo-1] != cn+".before" {
					return fmt.Sprintf("%s: context before hook does not immediately precede the task (found %s)", tn, o.trace[lo-1]), "c14-before-position"
				}
				if hi >= 0 && (hi+1 >= len(o.trace) || o.trace[hi+1] != cn+".after") {
					return fmt.Sprintf("%s: context after hook does not immediately follow the task", tn), "c14-after-position"
				}
			}
		}
	}
	return "", ""
}

func genHookScenarios(tier string, rng *rand.Rand) []hookScenario {
	var out []hookScenario
	// single task, every shape, every route
	for _, via := range []string{"runner", "sched", "cli"} {
		for _, cond := range []byte{'n', 't', 'f'} {
			for _, hooks := range [][2]bool{{false, false}, {true, false}, {false, true}, {true, true}} {
				for _, fail := range []bool{false, true} {
					for _, upFail := range []bool{false, true} {
						if via == "cli" && tier != "thorough" && rng.Intn(3) != 0 {
							continue
						}
						out = append(out, hookScenario{upFail: []bool{upFail, false}, via: via,
							tasks: []hookTask{{ctx: 0, cond: cond, before: hooks[0], after: hooks[1], fail: fail}}})
					}
				}
			}
		}
	}
	// contexts with several up commands, failing at every position (all of them run; any failure fails the start-up)
	for _, via := range []string{"runner", "sched", "cli"} {
		for _, ups := range [][]bool{{true, false}, {false, true}, {true, true}, {true, false, true}, {false, true, false}, {false, false, false}} {
			for _, par := range []bool{false, true} {
				any := false
				for _, f := range ups {
					any = any || f
				}
				out = append(out, hookScenario{upFail: []bool{any}, upCmds: [][]bool{ups}, via: via, par: par,
					tasks: []hookTask{{ctx: 0, cond: 'n', before: true, after: true}, {ctx: 0, cond: 'n', after: true}}})
			}
		}
	}
	// several contexts in use, one of them without down commands: the others are still shut down, each once
	for _, via := range []string{"runner", "sched", "cli"} {
		for rep := 0; rep < 4; rep++ {
			for nd := 0; nd < 4; nd++ {
				noDown := make([]bool, 4)
				noDown[nd] = true
				var ts []hookTask
				for c := 0; c < 4; c++ {
					ts = append(ts, hookTask{ctx: c, cond: 'n'})
				}
				out = append(out, hookScenario{upFail: make([]bool, 4), noDown: noDown, via: via, par: rep%2 == 0, tasks: ts})
			}
		}
	}
	// a task that fails when its commands are compiled (after the context's before hook has run): the context's
	// after hook still runs exactly once for it
	for _, via := range []string{"runner", "sched", "cli"} {
		for _, par := range []bool{false, true} {
			out = append(out, hookScenario{upFail: []bool{false}, via: via, par: par,
				tasks: []hookTask{{ctx: 0, cond: 'n', before: true, after: true}, {ctx: 0, cond: 'n', before: true, after: true, badDir: true}, {ctx: 0, cond: 'n'}}})
			out = append(out, hookScenario{upFail: []bool{false}, via: via, par: par,
				tasks: []hookTask{{ctx: 0, cond: 'n', badDir: true}}})
		}
	}
	// every way of naming the targets on the command line, with a failing target and with an unknown name
	for _, form := range []string{"", "run", "runtask", "runpipeline"} {
		for _, par := range []bool{false, true} {
			for _, failAt := range []int{-1, 0, 1} {
				for _, ghost := range []bool{false, true} {
					sc := hookScenario{upFail: []bool{false}, via: "cli", form: form, par: par, ghost: ghost,
						tasks: []hookTask{{ctx: 0, cond: 'n', before: true}, {ctx: 0, cond: 'n', after: true}, {ctx: 0, cond: 'n'}}}
					if failAt >= 0 {
						sc.tasks[failAt].fail = true
					}
					out = append(out, sc)
				}
			}
		}
	}
	// an included pipeline (or a pipeline target) followed by more work in the same contexts
	for _, via := range []string{"sched", "cli"} {
		for _, par := range []bool{false, true} {
			for _, form := range []string{"", "run"} {
				if via == "sched" && form != "" {
					continue
				}
				out = append(out, hookScenario{upFail: []bool{false, false}, via: via, par: par, form: form, nest: true,
					tasks: []hookTask{{ctx: 0, cond: 'n', before: true}, {ctx: 0, cond: 'n'}, {ctx: 1, cond: 'n'}, {ctx: 0, cond: 'n', after: true}, {ctx: 1, cond: 'n'}}})
				if par {
					// the included pipeline fails (its first task does, and its stages do not allow failure); the
					// including stage tolerates that and the later stages use the same contexts
					out = append(out, hookScenario{upFail: []bool{false, false}, via: via, par: par, form: form, nest: true, nestStrict: true,
						tasks: []hookTask{{ctx: 0, cond: 'n', fail: true}, {ctx: 1, cond: 'n'}, {ctx: 0, cond: 'n', after: true}, {ctx: 1, cond: 'n', before: true}}})
				}
			}
		}
	}
	n := 60
	if tier == "thorough" {
		n = 600
	}
	for k := 0; k < n; k++ {
		nc := 1 + rng.Intn(3)
		s := hookScenario{upFail: make([]bool, nc), par: rng.Intn(2) == 0, via: []string{"runner", "runner", "sched", "cli"}[rng.Intn(4)]}
		if s.via == "cli" {
			s.form = []string{"", "run", "runtask", "runpipeline"}[rng.Intn(4)]
			s.ghost = rng.Intn(4) == 0
		}
		s.nest = rng.Intn(3) == 0
		s.nestStrict = rng.Intn(2) == 0
		for c := range s.upFail {
			s.upFail[c] = rng.Intn(5) == 0
		}
		if nc >= 2 && rng.Intn(2) == 0 {
			s.noDown = make([]bool, nc)
			s.noDown[rng.Intn(nc)] = true
		}
		if rng.Intn(2) == 0 {
			s.upCmds = make([][]bool, nc)
			for c := range s.upCmds {
				m := 1 + rng.Intn(3)
				s.upCmds[c] = make([]bool, m)
				if s.upFail[c] {
					s.upCmds[c][rng.Intn(m)] = true
					if rng.Intn(2) == 0 {
						s.upCmds[c][rng.Intn(m)] = true
					}
				}
			}
		}
		nt := 1 + rng.Intn(8)
		for i := 0; i < nt; i++ {
			s.tasks = append(s.tasks, hookTask{ctx: rng.Intn(nc+1) - 1, cond: []byte{'n', 'n', 't', 'f'}[rng.Intn(4)],
				before: rng.Intn(2) == 0, after: rng.Intn(2) == 0, fail: rng.Intn(4) == 0})
			if last := &s.tasks[len(s.tasks)-1]; last.cond == 'n' && rng.Intn(8) == 0 {
				last.badDir = true
			}
		}
		out = append(out, s)
	}
	return out
}

func runC14(col *Collector, tier string, seed int64) {
	rng := rand.New(rand.NewSource(seed))
	col.res.Rule = "1..8 tasks over 1..3 execution contexts (up/down/before/after hooks append tokens to one O_APPEND trace), tasks with/without own before/after/condition, succeeding/failing, up ok/failing, " +
		"started simultaneously or in sequence, through TaskRunner.Run + Finish, through the Scheduler, and through the taskctl binary; single-task shapes exhaustively. " +
		"non-trivial = a context with hooks is used; distinct = distinct scenarios"
	scs := genHookScenarios(tier, rng)
	for v := 0; v < 4; v++ {
		cancelledContextCase(col, v)
	}
	for v := 0; v < 6; v++ {
		unusedContextCliCase(col, v)
	}
	parallel(len(scs), 16, func(i int) {
		s := scs[i]
		o := runHookScenario(s)
		cs := Case{Line: s.line(), Tags: []string{"via=" + s.via, fmt.Sprintf("tasks=%d", len(s.tasks))}}
		cs.Impl = strings.Join(o.trace, ",")
		for _, t := range s.tasks {
			if t.ctx >= 0 {
				cs.NonTrivial = true
			}
		}
		if f, sig := hookVerdict(s, o); f != "" {
			cs.Fail, cs.Sig = f, sig
		}
		cs.Replay = cs.Line
		// canonical summary compared with the Lean model: per-context hook counts
		var ctxs []string
		for i, t := range s.tasks {
			if t.ctx >= 0 && o.executed[i] {
				ctxs = append(ctxs, fmt.Sprint(t.ctx))
			}
		}
		upf := ""
		var parts []string
		for c, f := range s.upFail {
			upf += map[bool]string{true: "1", false: "0"}[f]
			n := map[string]int{}
			for _, tok := range o.trace {
				if strings.HasPrefix(tok, fmt.Sprintf("c%d.", c)) {
					n[tok[strings.Index(tok, ".")+1:]]++
				}
			}
			if s.noDown != nil && s.noDown[c] && n["down"] == 0 && n["up"] > 0 {
				n["down"] = 1 // an empty down list: the model's single down step happened, it just ran no command
			}
			parts = append(parts, fmt.Sprintf("c%d:up=%d,before=%d,after=%d,down=%d", c, n["up"], n["before"], n["after"], n["down"]))
		}
		cs.Line = fmt.Sprintf("hooks ctx=%s upfail=%s", strings.Join(ctxs, ","), upf)
		cs.Impl = strings.Join(parts, "|")
		col.Add(cs)
	})
}

// a run that is CANCELLED while a task of a context is executing (variant 0: Scheduler.Cancel from outside; 1: by the
// scheduler itself, because the condition of a waiting stage can no longer be evaluated; 2: TaskRunner.Cancel during a
// direct run; 3: like 1, inside an included pipeline): the context was brought up and used, so its `after` still runs
// once for the interrupted execution and its `down` once at shutdown.
func cancelledContextCase(col *Collector, variant int) {
	trace := newTracePath()
	defer os.Remove(trace)
	cs := Case{Tags: []string{"cancelled-run"}, NonTrivial: true, Replay: fmt.Sprintf("one task in a context with up/before/after/down, interrupted by a cancellation (variant %d: 0 Scheduler.Cancel, 1 condition error, 2 TaskRunner.Cancel, 3 condition error in an included pipeline), then Finish", variant)}
	cs.Line = "hooks ctx=0 upfail=0"
	ctxs := map[string]*runner.ExecutionContext{"c0": runner.NewExecutionContext(nil, "", variables.NewVariables(),
		[]string{hookCmd(trace, "c0.up", false)}, []string{hookCmd(trace, "c0.down", false)},
		[]string{hookCmd(trace, "c0.before", false)}, []string{hookCmd(trace, "c0.after", false)})}
	r, err := runner.NewTaskRunner(runner.WithContexts(ctxs))
	if err != nil {
		cs.Fail, cs.Sig = err.Error(), "c14-crash"
		col.Add(cs)
		return
	}
	r.Stdout, r.Stderr = devNull{}, devNull{}
	t := task.FromCommands(hookCmd(trace, "t0.cmd", false) + "; sleep 5")
	t.Name, t.Context = "t0", "c0"
	started := func() bool {
		for _, tok := range readHookTrace(trace) {
			if tok == "t0.cmd" {
				return true
			}
		}
		return false
	}
	waitStarted := func() {
		for i := 0; i < 500 && !started(); i++ {
			time.Sleep(10 * time.Millisecond)
		}
		time.Sleep(50 * time.Millisecond)
	}
	done := make(chan struct{})
	go func() {
		defer close(done)
		defer func() {
			if p := recover(); p != nil {
				cs.Fail, cs.Sig = fmt.Sprint("panic: ", p), "c14-crash"
			}
		}()
		if variant == 2 {
			fin := make(chan struct{})
			go func() { r.Run(t); close(fin) }()
			waitStarted()
			r.Cancel()
			<-fin
			r.Finish()
			return
		}
		cond := makeCondScript()
		defer os.Remove(cond)
		stages := []*scheduler.Stage{{Name: "t0", Task: t}}
		waiting := &scheduler.Stage{Name: "w", Task: task.FromCommands("true"), DependsOn: []string{"t0"}}
		if variant == 1 || variant == 3 {
			waiting.Condition = cond
		}
		stages = append(stages, waiting)
		g, err := scheduler.NewExecutionGraph(stages...)
		if err == nil && variant == 3 {
			g, err = scheduler.NewExecutionGraph(&scheduler.Stage{Name: "inc", Pipeline: g})
		}
		if err != nil {
			cs.Fail, cs.Sig = err.Error(), "c14-crash"
			return
		}
		sd := scheduler.NewScheduler(r)
		sd.VerifSetPause(time.Millisecond)
		fin := make(chan struct{})
		go func() { sd.Schedule(g); close(fin) }()
		waitStarted()
		if variant == 0 {
			sd.Cancel()
		} else {
			breakCond(cond)
		}
		<-fin
		sd.Finish()
	}()
	select {
	case <-done:
	case <-time.After(30 * time.Second):
		cs.Fail, cs.Sig = "HANG: the cancelled run and Finish did not return within 30s", "c14-crash"
	}
	toks := readHookTrace(trace)
	n := map[string]int{}
	for _, tok := range toks {
		n[tok]++
	}
	cs.Impl = fmt.Sprintf("c0:up=%d,before=%d,after=%d,down=%d", n["c0.up"], n["c0.before"], n["c0.after"], n["c0.down"])
	want := "c0.up,c0.before,t0.cmd,c0.after,c0.down"
	if cs.Fail == "" && strings.Join(toks, ",") != want {
		cs.Fail, cs.Sig = fmt.Sprintf("hooks and commands that ran: %s; the context was brought up and used by an execution that was then interrupted: %s", strings.Join(toks, ","), want), "c14-cancelled-hooks"
	}
	col.Add(cs)
}

// the taskctl binary running a pipeline in which the only stage of a context never executes (its dependency failed,
// its own condition is false, it sits in an included pipeline behind a failed stage), next to a context that IS used:
// nothing of the unused context runs - no up, and therefore no down at shutdown either
func unusedContextCliCase(col *Collector, variant int) {
	dir := newScratchDir("c14u")
	defer os.RemoveAll(dir)
	trace := filepath.Join(dir, "trace")
	var b strings.Builder
	b.WriteString("contexts:\n")
	for _, c := range []string{"c0", "c1"} {
		fmt.Fprintf(&b, "  %s:\n    up: [%q]\n    down: [%q]\n    before: [%q]\n    after: [%q]\n", c, hookCmd(trace, c+".up", false), hookCmd(trace, c+".down", false),
			hookCmd(trace, c+".before", false), hookCmd(trace, c+".after", false))
	}
	failing := variant%3 != 1
	fmt.Fprintf(&b, "tasks:\n  t0:\n    context: c0\n    command: [%q]\n  t1:\n    context: c1\n    command: [%q]\n", hookCmd(trace, "t0.cmd", failing), hookCmd(trace, "t1.cmd", false))
	b.WriteString("pipelines:\n")
	switch variant % 3 {
	case 0: // the dependency fails
		b.WriteString("  p:\n    - task: t0\n    - task: t1\n      depends_on: [t0]\n")
	case 1: // the stage's own condition is false
		b.WriteString("  p:\n    - task: t0\n    - task: t1\n      depends_on: [t0]\n      condition: \"false\"\n")
	case 2: // inside an included pipeline, behind the failed stage
		b.WriteString("  inner:\n    - task: t0\n    - task: t1\n      depends_on: [t0]\n  p:\n    - pipeline: inner\n")
	}
	os.WriteFile(filepath.Join(dir, "c.yaml"), []byte(b.String()), 0644)
	args := []string{"-c", filepath.Join(dir, "c.yaml"), "--output", "raw", "p"}
	if variant >= 3 {
		args = []string{"-c", filepath.Join(dir, "c.yaml"), "--output", "raw", "run", "pipeline", "p"}
	}
	res := runTaskctl(dir, nil, 30*time.Second, args...)
	toks := readHookTrace(trace)
	cs := Case{Tags: []string{"via=cli", "unused-context"}, NonTrivial: true, Replay: fmt.Sprintf("taskctl %s with %s", strings.Join(args[4:], " "), strings.ReplaceAll(b.String(), "\n", "\\n"))}
	n := map[string]int{}
	for _, tok := range toks {
		n[tok]++
	}
	cs.Line = "hooks ctx=0 upfail=00"
	cs.Impl = fmt.Sprintf("c0:up=%d,before=%d,after=%d,down=%d|c1:up=%d,before=%d,after=%d,down=%d", n["c0.up"], n["c0.before"], n["c0.after"], n["c0.down"], n["c1.up"], n["c1.before"], n["c1.after"], n["c1.down"])
	want := "c0.up,c0.before,t0.cmd,c0.after,c0.down"
	switch {
	case res.panicked || res.timedOut:
		cs.Fail, cs.Sig = fmt.Sprintf("taskctl exit=%d timeout=%v %s", res.exit, res.timedOut, lastLines(res.stderr, 2)), "c14-crash"
	case (res.exit != 0) != failing:
		cs.Fail, cs.Sig = fmt.Sprintf("taskctl exit=%d, the target %s", res.exit, map[bool]string{true: "failed", false: "succeeded"}[failing]), "c14-down-cli"
	case strings.Join(toks, ",") != want:
		cs.Fail, cs.Sig = fmt.Sprintf("hooks and commands that ran: %s; only context c0 was used: %s", strings.Join(toks, ","), want), "c14-unused-context"
	}
	col.Add(cs)
}
