package main

import (
	"fmt"
	"math/rand"
	"os"
	"path/filepath"
	"regexp"
	"sort"
	"strings"
	"time"
)

func init() { props["C09"] = runC09 }

// levels, lowest to highest precedence
var envLevels = []string{"parent", "context", "envfile", "task", "stage", "variation"}

type envSpec struct {
	mask     int      // bit i: level i defines N
	vals     []string // value per level
	stage    bool     // run as a pipeline stage (otherwise directly: the stage level does not exist)
	order    string   // how the values sort relative to the levels
	twoVar   bool     // a second variation follows that does NOT define the name: it must see the next level down
	emptyTop bool     // the value at the highest defining level is the empty string: it still hides the levels below
}

func (s envSpec) line() string {
	var parts []string
	for i, l := range envLevels {
		if s.mask&(1<<uint(i)) != 0 && (s.stage || l != "stage") {
			parts = append(parts, l+"="+strings.ReplaceAll(s.vals[i], "=", "~"))
		}
	}
	return "env " + strings.Join(parts, " ")
}

func (s envSpec) topLevel() int {
	for i := len(envLevels) - 1; i >= 0; i-- {
		if s.mask&(1<<uint(i)) != 0 && (s.stage || envLevels[i] != "stage") {
			return i
		}
	}
	return -1
}

func (s envSpec) expected() string {
	for i := len(envLevels) - 1; i >= 0; i-- {
		if s.mask&(1<<uint(i)) != 0 && (s.stage || envLevels[i] != "stage") {
			return s.vals[i]
		}
	}
	return ""
}

func (s envSpec) yaml(dir string) string {
	has := func(i int) bool { return s.mask&(1<<uint(i)) != 0 }
	var b strings.Builder
	b.WriteString("contexts:\n  cx:\n    env:\n      CTXONLY: from-context\n      TASK_NAME: from-context\n")
	if has(1) {
		fmt.Fprintf(&b, "      VAL: %q\n", s.vals[1])
	}
	b.WriteString("tasks:\n  t:\n    context: cx\n")
	if has(2) {
		os.WriteFile(filepath.Join(dir, "envfile"), []byte("VAL="+s.vals[2]+"\nFILEONLY=from-file\n"), 0644)
		b.WriteString("    env_file: envfile\n")
	}
	b.WriteString("    env:\n      TASKONLY: from-task\n")
	if has(3) {
		fmt.Fprintf(&b, "      VAL: %q\n", s.vals[3])
	}
	if has(5) {
		fmt.Fprintf(&b, "    variations:\n      - VAL: %q\n", s.vals[5])
		if s.twoVar {
			b.WriteString("      - UNRELATED: x\n")
		}
	}
	b.WriteString("    command:\n      - 'echo \"RESULT N=[$VAL] TN=[$TASK_NAME] P=[$PASSTHRU] C=[$CTXONLY] T=[$TASKONLY] LC=[$val|$Val|$taskonly|$Ctxonly|$task_name|$fileonly]\"'\n")
	b.WriteString("pipelines:\n  p:\n    - task: t\n")
	if has(4) {
		fmt.Fprintf(&b, "      env:\n        VAL: %q\n", s.vals[4])
	}
	return b.String()
}

func envCase(col *Collector, s envSpec) {
	dir := newScratchDir("c09")
	defer os.RemoveAll(dir)
	os.WriteFile(filepath.Join(dir, "tasks.yaml"), []byte(s.yaml(dir)), 0644)
	// names that differ from the defined ones only in letter case are different names: they pass through untouched
	env := []string{"TASK_NAME=from-parent", "PASSTHRU=kept as is", "val=lc1", "Val=lc2", "taskonly=lc3", "Ctxonly=lc4", "task_name=lc5", "fileonly=lc6"}
	if s.mask&1 != 0 {
		env = append(env, "VAL="+s.vals[0])
	}
	target := "t"
	if s.stage {
		target = "p"
	}
	res := runTaskctl(dir, env, 20*time.Second, "--output", "raw", target)
	cs := Case{Line: s.line(), Tags: []string{"env", "order=" + s.order, fmt.Sprintf("stage=%v", s.stage), fmt.Sprintf("emptyTop=%v", s.emptyTop)}}
	cs.Replay = fmt.Sprintf("%s stage=%v (config: %s)", s.line(), s.stage, strings.ReplaceAll(s.yaml(os.DevNull), "\n", "\\n"))
	nlev := 0
	for i := range envLevels {
		if s.mask&(1<<uint(i)) != 0 {
			nlev++
		}
	}
	cs.NonTrivial = nlev >= 2
	var got, got2 string
	nres := 0
	for _, l := range strings.Split(res.stdout, "\n") {
		if i := strings.Index(l, "RESULT "); i >= 0 {
			nres++
			if nres == 1 {
				got = strings.TrimSpace(l[i+7:])
			} else {
				got2 = strings.TrimSpace(l[i+7:])
			}
		}
	}
	cs.Impl = got
	want := fmt.Sprintf("N=[%s] TN=[t] P=[kept as is] C=[from-context] T=[from-task] LC=[lc1|lc2|lc3|lc4|lc5|lc6]", s.expected())
	if s.twoVar && s.mask&32 != 0 {
		// the second variation does not define the name: the next defining level down applies
		s2 := s
		s2.mask &^= 32
		want2 := fmt.Sprintf("N=[%s] TN=[t] P=[kept as is] C=[from-context] T=[from-task] LC=[lc1|lc2|lc3|lc4|lc5|lc6]", s2.expected())
		if got == want && got2 != want2 {
			cs.Fail, cs.Sig = fmt.Sprintf("second variation (which does not define the name) saw %s, expected %s", got2, want2), "c09-later-variation"
		}
	}
	switch {
	case res.panicked || res.timedOut || res.exit != 0:
		cs.Fail, cs.Sig = fmt.Sprintf("taskctl exit=%d timeout=%v: %s", res.exit, res.timedOut, lastLines(res.stderr, 2)), "c09-run-failed"
	case got != want:
		sig := "c09-precedence"
		if s.mask&1 != 0 && strings.Contains(got, "N=["+s.vals[0]+"]") && s.expected() != s.vals[0] {
			sig = "c09-parent-wins"
		}
		cs.Fail, cs.Sig = fmt.Sprintf("command saw %s, expected %s", got, want), sig
	}
	cs.Impl = "N=" + strings.ReplaceAll(strings.TrimSuffix(strings.TrimPrefix(strings.Fields(got + " N=[]")[0], "N=["), "]"), "=", "~")
	col.Add(cs)
}

// ---- working directory ----

type dirSpec struct {
	stageDir, taskDir, ctxDir bool
	fromSub                   bool // taskctl started in a sub-directory of the project
	templated                 bool // task dir given as {{.Root}}/...
	stage                     bool
	cdFirst                   bool // an earlier command of the task changes directory: the next command starts afresh
	// viaLink: every dir is written <root>/link/../<name> where link is a symbolic link to <root>/deep/inner: the
	// directory this names is <root>/deep/<name> (what the kernel resolves), not the <root>/<name> next to the link
	viaLink bool
}

func (s dirSpec) line() string {
	b := func(x bool) int {
		if x {
			return 1
		}
		return 0
	}
	return fmt.Sprintf("dir stage=%d task=%d ctx=%d", b(s.stageDir && s.stage), b(s.taskDir), b(s.ctxDir))
}

func dirCase(col *Collector, s dirSpec) {
	root := newScratchDir("c09d")
	defer os.RemoveAll(root)
	for _, d := range []string{"sd", "td", "cd", "sub"} {
		os.MkdirAll(filepath.Join(root, d), 0755)
	}
	trace := filepath.Join(root, "trace")
	written := func(name string) string { return filepath.Join(root, name) }
	physical := written
	if s.viaLink {
		os.MkdirAll(filepath.Join(root, "deep", "inner"), 0755)
		for _, d := range []string{"sd", "td", "cd"} {
			os.MkdirAll(filepath.Join(root, "deep", d), 0755)
		}
		os.Symlink(filepath.Join("deep", "inner"), filepath.Join(root, "link"))
		written = func(name string) string { return root + "/link/../" + name }
		physical = func(name string) string { return filepath.Join(root, "deep", name) }
	}
	var b strings.Builder
	b.WriteString("contexts:\n  cx:\n")
	if s.ctxDir {
		fmt.Fprintf(&b, "    dir: %s\n", written("cd"))
	} else {
		b.WriteString("    env: {X: y}\n")
	}
	if s.ctxDir || !s.cdFirst {
		b.WriteString("tasks:\n  t:\n    context: cx\n")
	} else {
		// no named context at all (a named context always carries a directory of its own once built)
		b.WriteString("tasks:\n  t:\n")
	}
	if s.taskDir {
		if s.templated && s.viaLink {
			b.WriteString("    dir: \"{{.Root}}/link/../td\"\n")
		} else if s.templated {
			b.WriteString("    dir: \"{{.Root}}/td\"\n")
		} else {
			fmt.Fprintf(&b, "    dir: %s\n", written("td"))
		}
	}
	fmt.Fprintf(&b, "    condition: 'echo cond=$(/bin/pwd) >> %s'\n", trace)
	fmt.Fprintf(&b, "    before: ['echo before=$(/bin/pwd) >> %s']\n", trace)
	if s.cdFirst {
		fmt.Fprintf(&b, "    command: ['cd /; echo first=$(/bin/pwd) >> %s', 'echo cmd=$(/bin/pwd) >> %s']\n", trace, trace)
	} else {
		fmt.Fprintf(&b, "    command: ['echo cmd=$(/bin/pwd) >> %s']\n", trace)
	}
	fmt.Fprintf(&b, "    after: ['echo after=$(/bin/pwd) >> %s']\n", trace)
	b.WriteString("pipelines:\n  p:\n    - task: t\n")
	if s.stageDir {
		fmt.Fprintf(&b, "      dir: %s\n", written("sd"))
	}
	os.WriteFile(filepath.Join(root, "tasks.yaml"), []byte(b.String()), 0644)
	start := root
	if s.fromSub {
		start = filepath.Join(root, "sub")
	}
	target := "t"
	if s.stage {
		target = "p"
	}
	res := runTaskctl(start, nil, 20*time.Second, "--output", "raw", target)
	want := start
	switch {
	case s.stage && s.stageDir:
		want = physical("sd")
	case s.taskDir:
		want = physical("td")
	case s.ctxDir:
		want = physical("cd")
	}
	cs := Case{Line: s.line(), Tags: []string{"dir", fmt.Sprintf("fromSub=%v", s.fromSub), fmt.Sprintf("stage=%v", s.stage)}}
	cs.Replay = fmt.Sprintf("%s fromSub=%v templated=%v stage=%v cdFirst=%v dirs-written-through-a-symlink-and-dotdot=%v", s.line(), s.fromSub, s.templated, s.stage, s.cdFirst, s.viaLink)
	cs.NonTrivial = true
	got := map[string]string{}
	for _, l := range readTrace(trace) {
		if kv := strings.SplitN(l, "=", 2); len(kv) == 2 {
			got[kv[0]] = kv[1]
		}
	}
	rel := func(p string) string {
		if p == "" {
			return "none"
		}
		r, err := filepath.Rel(root, p)
		if err != nil {
			return p
		}
		if r == "." {
			return "start"
		}
		if s.viaLink && strings.HasPrefix(r, "deep/") {
			return strings.TrimPrefix(r, "deep/")
		}
		if s.viaLink && (r == "sd" || r == "td" || r == "cd") {
			return "beside-the-link/" + r
		}
		if r == "sub" && s.fromSub {
			return "start"
		}
		return r
	}
	cs.Impl = fmt.Sprintf("cond=%s before=%s cmd=%s after=%s", rel(got["cond"]), rel(got["before"]), rel(got["cmd"]), rel(got["after"]))
	switch {
	case res.panicked || res.timedOut || res.exit != 0:
		cs.Fail, cs.Sig = fmt.Sprintf("taskctl exit=%d timeout=%v: %s", res.exit, res.timedOut, lastLines(res.stderr, 2)), "c09-run-failed"
	default:
		for _, k := range []string{"cond", "before", "cmd", "after"} {
			if got[k] != want {
				cs.Fail, cs.Sig = fmt.Sprintf("%s ran in %q, expected %q", k, got[k], want), "c09-dir"
				break
			}
		}
	}
	col.Add(cs)
}

var taskNameRec = regexp.MustCompile(`RESULT who=(\w+) TN=\[([^\]]*)\]`)

// TASK_NAME with several tasks running at the same time on one runner: each command sees its own task's name
// "the task's dir (after variable substitution)": one task whose dir is a template, run several times in ONE
// process with different values of the variable - as stages of a chain / parallel stages with their own
// `variables`, and with the pipeline named twice on the command line
func dirTemplateHistoryCase(col *Collector, parallelStages bool, k int) {
	root := newScratchDir("c09t")
	defer os.RemoveAll(root)
	trace := filepath.Join(root, "trace")
	var b strings.Builder
	fmt.Fprintf(&b, "tasks:\n  t:\n    dir: \"{{.Root}}/pkg/{{.Pkg}}\"\n    variables: {Pkg: p0}\n")
	fmt.Fprintf(&b, "    before: ['echo $WHO.before=$(/bin/pwd) >> %s']\n    command: ['echo $WHO.cmd=$(/bin/pwd) >> %s']\n    after: ['echo $WHO.after=$(/bin/pwd) >> %s']\n", trace, trace, trace)
	b.WriteString("pipelines:\n  p:\n")
	want := map[string]string{}
	for i := 0; i <= k; i++ {
		os.MkdirAll(filepath.Join(root, "pkg", fmt.Sprintf("p%d", i)), 0755)
	}
	for i := 1; i <= k; i++ {
		fmt.Fprintf(&b, "    - name: s%d\n      task: t\n      env: {WHO: s%d}\n      variables: {Pkg: p%d}\n", i, i, i)
		if !parallelStages && i > 1 {
			fmt.Fprintf(&b, "      depends_on: [s%d]\n", i-1)
		}
		want[fmt.Sprintf("s%d", i)] = filepath.Join(root, "pkg", fmt.Sprintf("p%d", i))
	}
	// a stage with no variables of its own runs in the directory the task's own value names
	fmt.Fprintf(&b, "    - name: s0\n      task: t\n      env: {WHO: s0}\n      depends_on: [s%d]\n", k)
	want["s0"] = filepath.Join(root, "pkg", "p0")
	os.WriteFile(filepath.Join(root, "tasks.yaml"), []byte(b.String()), 0644)
	res := runTaskctl(root, []string{"WHO=direct"}, 30*time.Second, "--output", "raw", "p", "t")
	want["direct"] = filepath.Join(root, "pkg", "p0")
	cs := Case{Tags: []string{"dir", "dir-template-history"}, NonTrivial: true}
	cs.Replay = fmt.Sprintf("task t with dir {{.Root}}/pkg/{{.Pkg}} (Pkg=p0) used by %d stages with variables Pkg=p1..p%d (parallel=%v), by a stage with no variables, then run directly: taskctl p t", k, k, parallelStages)
	got := map[string]string{}
	// parallel writers may glue one record to the next: cut the records out by their shape, not by line
	raw, _ := os.ReadFile(trace)
	for _, m := range regexp.MustCompile(`(direct|s\d+)\.(before|cmd|after)=(/[^\n=]*?/pkg/p\d+)`).FindAllStringSubmatch(string(raw), -1) {
		got[m[1]+"."+m[2]] = m[3]
	}
	var impl []string
	switch {
	case res.panicked || res.timedOut || res.exit != 0:
		cs.Fail, cs.Sig = fmt.Sprintf("taskctl exit=%d timeout=%v: %s", res.exit, res.timedOut, lastLines(res.stderr, 2)), "c09-run-failed"
	default:
		var whos []string
		for w := range want {
			whos = append(whos, w)
		}
		sort.Strings(whos)
		for _, w := range whos {
			for _, ph := range []string{"before", "cmd", "after"} {
				g := got[w+"."+ph]
				r, _ := filepath.Rel(root, g)
				impl = append(impl, fmt.Sprintf("%s.%s=%s", w, ph, r))
				if g != want[w] && cs.Fail == "" {
					cs.Fail, cs.Sig = fmt.Sprintf("%s of the execution %s ran in %q, its dir template with the variables of that execution gives %q", ph, w, g, want[w]), "c09-dir"
				}
			}
		}
	}
	cs.Impl = strings.Join(impl, " ")
	col.Add(cs)
}

func taskNameCase(col *Collector, k int, withCtx bool) { taskNameCaseHooks(col, k, withCtx, false) }

// slowHooks: every task also has a condition and a before hook that take a while (what a task sees as TASK_NAME must
// not depend on what other tasks are doing while its own condition or hooks run)
func taskNameCaseHooks(col *Collector, k int, withCtx, slowHooks bool) {
	dir := newScratchDir("c09t")
	defer os.RemoveAll(dir)
	var b strings.Builder
	if withCtx {
		b.WriteString("contexts:\n  cx:\n    env: {CTXONLY: yes}\n")
	}
	b.WriteString("tasks:\n")
	for i := 0; i < k; i++ {
		fmt.Fprintf(&b, "  job%d:\n", i)
		if withCtx && i%2 == 0 {
			b.WriteString("    context: cx\n")
		}
		if slowHooks {
			fmt.Fprintf(&b, "    condition: 'sleep 0.%d'\n    before: ['sleep 0.%d']\n", 2+i%3, 1+i%2)
		}
		fmt.Fprintf(&b, "    command:\n      - 'sleep 0.3; echo \"RESULT who=job%d TN=[$TASK_NAME]\"'\n      - 'echo \"RESULT who=job%d TN=[$TASK_NAME]\"'\n", i, i)
	}
	b.WriteString("pipelines:\n  p:\n")
	for i := 0; i < k; i++ {
		fmt.Fprintf(&b, "    - task: job%d\n", i)
	}
	os.WriteFile(filepath.Join(dir, "tasks.yaml"), []byte(b.String()), 0644)
	res := runTaskctl(dir, nil, 30*time.Second, "--output", "raw", "p")
	cs := Case{Replay: fmt.Sprintf("task-name k=%d ctx=%v slow-condition-and-hook=%v (config: %s)", k, withCtx, slowHooks, strings.ReplaceAll(b.String(), "\n", "\\n")), Tags: []string{"task-name-parallel", fmt.Sprintf("k=%d", k)}, NonTrivial: true}
	seen := 0
	// concurrent raw writers can share a line: match the records, not the lines
	for _, m := range taskNameRec.FindAllStringSubmatch(res.stdout, -1) {
		seen++
		if m[2] != m[1] && cs.Fail == "" {
			cs.Fail, cs.Sig = fmt.Sprintf("a command of task %s saw TASK_NAME=%s", m[1], m[2]), "c09-task-name"
		}
	}
	cs.Impl = fmt.Sprintf("results=%d", seen)
	switch {
	case res.panicked || res.timedOut || res.exit != 0:
		cs.Fail, cs.Sig = fmt.Sprintf("taskctl exit=%d timeout=%v: %s", res.exit, res.timedOut, lastLines(res.stderr, 2)), "c09-run-failed"
	case seen != 2*k && cs.Fail == "":
		cs.Fail, cs.Sig = fmt.Sprintf("%d result lines, expected %d", seen, 2*k), "c09-run-failed"
	}
	col.Add(cs)
}

func runC09(col *Collector, tier string, seed int64) {
	rng := rand.New(rand.NewSource(seed))
	col.res.Rule = "the real taskctl binary with a controlled parent environment: every non-empty subset of the six levels {parent, context env, env_file, task env, stage env, variation} defining one name (63 subsets), " +
		"values sorting ascending / descending / randomly w.r.t. the levels, run directly and as a pipeline stage; names defined at a single level pass through; TASK_NAME; " +
		"working directory: every subset of {stage, task, context} dir x started in the project root / a sub-directory x {condition, before, command, after}. non-trivial = >=2 levels define the name (env) / all (dir)"
	var envs []envSpec
	for mask := 1; mask < 64; mask++ {
		for _, order := range []string{"asc", "desc", "rand"} {
			for _, stage := range []bool{false, true} {
				if tier != "thorough" && order == "rand" && mask%3 != int(seed%3+3)%3 {
					continue
				}
				s := envSpec{mask: mask, stage: stage, order: order, vals: make([]string, 6), twoVar: mask&32 != 0 && (mask+len(order))%2 == 0}
				perm := rng.Perm(6)
				for i := range s.vals {
					var rank int
					switch order {
					case "asc":
						rank = i
					case "desc":
						rank = 5 - i
					default:
						rank = perm[i]
					}
					s.vals[i] = fmt.Sprintf("%c-%s", 'a'+byte(rank*4), envLevels[i])
				}
				envs = append(envs, s)
				// the same case with an EMPTY value at the highest defining level (above the parent environment):
				// the name is defined there, so the empty value hides every level below
				if top := s.topLevel(); top >= 1 && mask&(mask-1) != 0 && (mask+len(order))%3 == 0 {
					e := s
					e.vals = append([]string(nil), s.vals...)
					e.vals[top] = ""
					e.emptyTop = true
					e.twoVar = false
					envs = append(envs, e)
				}
				// the same case with values full of characters that mean something to a shell, to YAML or to a glob
				if (mask+len(order))%5 == 2 {
					e := s
					e.vals = make([]string, len(s.vals))
					for i, v := range s.vals {
						e.vals[i] = v + ` it's "q" $HOME * ~ #x ü;|&<>`
					}
					e.twoVar = false
					envs = append(envs, e)
				}
				// the same case with values that contain "=" (an env_file line NAME=a=b keeps everything after the first "=")
				if (mask+len(order))%4 == 1 {
					e := s
					e.vals = make([]string, len(s.vals))
					for i, v := range s.vals {
						e.vals[i] = strings.Replace(v, "-", "=", 1) + "=x"
					}
					e.twoVar = false
					envs = append(envs, e)
				}
			}
		}
	}
	var dirs []dirSpec
	for m := 0; m < 8; m++ {
		for _, sub := range []bool{false, true} {
			for _, stage := range []bool{false, true} {
				dirs = append(dirs, dirSpec{stageDir: m&1 != 0, taskDir: m&2 != 0, ctxDir: m&4 != 0, fromSub: sub, stage: stage, templated: rng.Intn(2) == 0, cdFirst: (m+len(dirs))%2 == 0})
			}
		}
	}
	// the same with every dir written through a symbolic link followed by ".."
	for m := 1; m < 8; m++ {
		for _, stage := range []bool{false, true} {
			dirs = append(dirs, dirSpec{stageDir: m&1 != 0, taskDir: m&2 != 0, ctxDir: m&4 != 0, stage: stage, templated: m%2 == 0, cdFirst: m%3 == 0, viaLink: true, fromSub: m%2 == 1 && stage})
		}
	}
	parallel(len(envs)+len(dirs), 16, func(i int) {
		if i < len(envs) {
			envCase(col, envs[i])
		} else {
			dirCase(col, dirs[i-len(envs)])
		}
	})
	for _, k := range []int{2, 3, 6} {
		taskNameCase(col, k, false)
		taskNameCase(col, k, true)
		taskNameCaseHooks(col, k, k%2 == 0, true)
	}
	for _, k := range []int{2, 3} {
		dirTemplateHistoryCase(col, false, k)
		dirTemplateHistoryCase(col, true, k)
	}
	col.res.Exhaustive = true
}
