package main

import (
	"fmt"
	"math/rand"
	"net/http"
	"net/http/httptest"
	"os"
	"path/filepath"
	"sort"
	"strings"
	"time"

	"github.com/taskctl/taskctl/pkg/verifhooks"
)

func init() { props["C17"] = runC17 }

// file i lives in importDirs[i] (nested directories); imports are written relative to the importing file
var importDirs = []string{".", "a", "a/b", "c", "a", "c/d"}

type impSpec struct {
	n       int
	edges   [][]int // edges[i] = files imported by i, in order (may repeat)
	broken  int     // -1 none
	kind    string  // "missing" | "unparsable"
	dirImp  int     // -1 none; file index whose directory is imported (as a directory) by file 0
	dotRoot bool    // the root file is named through a non-clean absolute path (/x/./main.yaml)
	style   int     // naming of files and directories: 0 plain, 1 names beginning with "http", 2 names with spaces and symbols
	// exts[i] (when set): extension of file i - ".yaml" (default), ".yml", ".json", ".toml"; the content is written in
	// that format. A directory import reads the *.yaml files of the directory only.
	exts []string
	// dirFirst: the directory import of file 0 comes BEFORE its file imports (default: after them)
	dirFirst bool
	// remoteFrom > 0: the files remoteFrom..n-1 are not on disk but served over HTTP (loopback) and imported by
	// URL; a remote file can only import remote files (a relative import inside a URL has no meaning), so edges
	// from a remote file to a local one are dropped by normalise()
	remoteFrom int
	baseURL    string
	served     map[string]servedDoc
}

type servedDoc struct {
	status int
	ctype  string
	body   string
}

func (s impSpec) isRemote(i int) bool { return s.remoteFrom > 0 && i >= s.remoteFrom }

// remote files alternate between YAML under a .yaml path and JSON under a path without extension, recognised by
// its Content-Type
func (s impSpec) urlPath(i int) string {
	if i%2 == 1 {
		return fmt.Sprintf("/cfg/r%d", i)
	}
	return fmt.Sprintf("/cfg/r%d.yaml", i)
}

func (s *impSpec) normalise() {
	if s.remoteFrom <= 0 {
		return
	}
	for i := s.remoteFrom; i < s.n; i++ {
		var keep []int
		for _, j := range s.edges[i] {
			if s.isRemote(j) {
				keep = append(keep, j)
			}
		}
		s.edges[i] = keep
	}
}

var importDirStyles = [][]string{
	importDirs,
	{".", "httpd", "httpd/b", "http-c", "httpd", "http-c/d"},
	{".", "a dir", "a dir/b#1", "c@x", "a dir", "c@x/D"},
	importDirs,                       // style 3: plain names, every file is a symbolic link to a file kept elsewhere
	{".", "a", "a/b", "c", "a", "C"}, // style 4: files and directories whose paths differ only in letter case
	{".", "conf", "conf", "conf", "conf/sub", "conf"},                 // style 5: most files share one directory
	{".", "env[prod]", "env[prod]/b*", "c?x", "env[prod]", "c?x/[d]"}, // style 6: names made of the characters of glob patterns
	importDirs, // style 7: plain names; every directory has a symbolic link `self` to itself, and every second import is written through it
}

func (s impSpec) dirOf(i int) string { return importDirStyles[s.style][i] }

func (s impSpec) extOf(i int) string {
	if s.exts != nil && s.exts[i] != "" {
		return s.exts[i]
	}
	return ".yaml"
}

func (s impSpec) baseOf(i int) string {
	if s.exts != nil {
		return fmt.Sprintf("f%d%s", i, s.extOf(i))
	}
	switch s.style {
	case 1:
		return fmt.Sprintf("http-f%d.yaml", i)
	case 2:
		return fmt.Sprintf("f %d+x.yaml", i)
	case 4:
		return []string{"main.yaml", "Part.yaml", "x.yaml", "Y.yaml", "part.yaml", "y.yaml"}[i]
	case 6:
		return []string{"main.yaml", "deploy[prod].yaml", "all*.yaml", "what?.yaml", "[a-z].yaml", "x[.yaml"}[i]
	}
	return fmt.Sprintf("f%d.yaml", i)
}

func (s impSpec) file(root string, i int) string {
	return filepath.Join(root, s.dirOf(i), s.baseOf(i))
}

// the *.yaml files of the directory file 0 imports as a directory, in the order filepath.Glob lists them. A
// directory import behaves exactly like importing these files one after the other (loadDir skips the ones already
// loaded, loads the others, fails on the first that cannot be loaded), which is how the model is told about it.
func (s impSpec) dirExpansion() []int {
	if s.dirImp < 0 {
		return nil
	}
	var js []int
	for j := 0; j < s.n; j++ {
		if s.dirOf(j) == s.dirOf(s.dirImp) && s.extOf(j) == ".yaml" && !s.isRemote(j) && !(j == s.broken && s.kind == "missing") {
			js = append(js, j)
		}
	}
	sort.Slice(js, func(a, b int) bool { return s.baseOf(js[a]) < s.baseOf(js[b]) })
	return js
}

func (s impSpec) line() string {
	var es []string
	for i, l := range s.edges {
		if i == 0 && s.dirFirst {
			for _, j := range s.dirExpansion() {
				es = append(es, fmt.Sprintf("0>%d", j))
			}
		}
		for _, j := range l {
			es = append(es, fmt.Sprintf("%d>%d", i, j))
		}
		if i == 0 && !s.dirFirst {
			for _, j := range s.dirExpansion() {
				es = append(es, fmt.Sprintf("0>%d", j))
			}
		}
	}
	e := strings.Join(es, ",")
	if e == "" {
		e = "-"
	}
	b := "-"
	if s.broken >= 0 {
		k := s.kind
		if k == "dangling" {
			k = "missing" // a directory entry with nothing behind it
		}
		b = fmt.Sprintf("%d:%s", s.broken, k)
	}
	return fmt.Sprintf("imports n=%d edges=%s broken=%s", s.n, e, b)
}

func (s impSpec) materialise(root string) {
	for i := 0; i < s.n; i++ {
		os.MkdirAll(filepath.Join(root, s.dirOf(i)), 0755)
		if s.style == 7 {
			os.Symlink(".", filepath.Join(root, s.dirOf(i), "self"))
		}
	}
	for i := 0; i < s.n; i++ {
		if i == s.broken && s.kind == "missing" {
			continue // a remote file that is missing is answered with 404
		}
		if i == s.broken && s.kind == "dangling" {
			// the directory entry exists, what it points to does not
			os.Symlink(filepath.Join(root, "gone", s.baseOf(i)), s.file(root, i))
			continue
		}
		var b strings.Builder
		if i == s.broken && s.kind == "unparsable" {
			b.WriteString("tasks: [unclosed\n  - {\n")
			if s.isRemote(i) {
				ct := ""
				if i%2 == 1 {
					ct = "application/json"
				}
				s.served[s.urlPath(i)] = servedDoc{200, ct, b.String()}
				continue
			}
			os.WriteFile(s.file(root, i), []byte(b.String()), 0644)
			continue
		}
		var imps []string
		for _, j := range s.edges[i] {
			if s.isRemote(j) {
				imps = append(imps, s.baseURL+s.urlPath(j))
				continue
			}
			rel, _ := filepath.Rel(filepath.Dir(s.file(root, i)), s.file(root, j))
			if s.style == 7 && (i+j+len(imps))%2 == 1 && !strings.HasPrefix(rel, "..") {
				// the same file under another name: through the link of the importing file's directory to itself
				rel = filepath.Join("self", rel)
				if (i+j)%3 == 0 {
					rel = filepath.Join("self", rel)
				}
			}
			imps = append(imps, rel)
		}
		if s.isRemote(i) {
			if i%2 == 1 {
				var q []string
				for _, p := range imps {
					q = append(q, fmt.Sprintf("%q", p))
				}
				body := fmt.Sprintf(`{"import": [%s], "tasks": {"t%d": {"command": ["echo f%d"]}}}`, strings.Join(q, ", "), i, i)
				s.served[s.urlPath(i)] = servedDoc{200, "application/json; charset=utf-8", body}
			} else {
				if len(imps) > 0 {
					b.WriteString("import:\n")
					for _, p := range imps {
						fmt.Fprintf(&b, "  - %q\n", p)
					}
				}
				fmt.Fprintf(&b, "tasks:\n  t%d:\n    command:\n      - echo f%d\n", i, i)
				s.served[s.urlPath(i)] = servedDoc{200, []string{"", "text/plain", "application/x-yaml"}[i/2%3], b.String()}
			}
			continue
		}
		if i == 0 && s.dirImp >= 0 {
			rel, _ := filepath.Rel(filepath.Dir(s.file(root, 0)), filepath.Dir(s.file(root, s.dirImp)))
			if s.dirFirst {
				imps = append([]string{rel}, imps...)
			} else {
				imps = append(imps, rel)
			}
		}
		if !s.isRemote(i) && s.extOf(i) == ".json" {
			var q []string
			for _, p := range imps {
				q = append(q, fmt.Sprintf("%q", p))
			}
			os.WriteFile(s.file(root, i), []byte(fmt.Sprintf(`{"import": [%s], "tasks": {"t%d": {"command": ["echo f%d"]}}}`, strings.Join(q, ", "), i, i)), 0644)
			continue
		}
		if !s.isRemote(i) && s.extOf(i) == ".toml" {
			var q []string
			for _, p := range imps {
				q = append(q, fmt.Sprintf("%q", p))
			}
			os.WriteFile(s.file(root, i), []byte(fmt.Sprintf("import = [%s]\n[tasks.t%d]\ncommand = [\"echo f%d\"]\n", strings.Join(q, ", "), i, i)), 0644)
			continue
		}
		if len(imps) > 0 {
			b.WriteString("import:\n")
			for _, p := range imps {
				fmt.Fprintf(&b, "  - %q\n", p)
			}
		}
		fmt.Fprintf(&b, "tasks:\n  t%d:\n    command:\n      - echo f%d\n", i, i)
		if s.style == 3 {
			os.MkdirAll(filepath.Join(root, "store"), 0755)
			real := filepath.Join(root, "store", fmt.Sprintf("real%d.yaml", i))
			os.WriteFile(real, []byte(b.String()), 0644)
			os.Symlink(real, s.file(root, i))
			continue
		}
		os.WriteFile(s.file(root, i), []byte(b.String()), 0644)
	}
}

// reference: files reachable from 0 (a directory import pulls every *.yaml of that directory)
func (s impSpec) reachable() []int {
	seen := map[int]bool{}
	var visit func(i int)
	visit = func(i int) {
		if seen[i] {
			return
		}
		seen[i] = true
		if i == s.broken {
			return
		}
		for _, j := range s.edges[i] {
			visit(j)
		}
		if i == 0 && s.dirImp >= 0 {
			for j := 0; j < s.n; j++ {
				if s.dirOf(j) == s.dirOf(s.dirImp) && s.extOf(j) == ".yaml" && !(j == s.broken && s.kind == "missing") {
					visit(j)
				}
			}
		}
	}
	visit(0)
	var out []int
	for i := range seen {
		out = append(out, i)
	}
	sort.Ints(out)
	return out
}

func impCase(col *Collector, s impSpec, tag string) {
	root := newScratchDir("c17")
	defer os.RemoveAll(root)
	if s.remoteFrom > 0 {
		s.normalise()
		s.served = map[string]servedDoc{}
		srv := httptest.NewServer(http.HandlerFunc(func(w http.ResponseWriter, r *http.Request) {
			d, ok := s.served[r.URL.Path]
			if !ok {
				http.NotFound(w, r)
				return
			}
			if d.ctype != "" {
				w.Header().Set("Content-Type", d.ctype)
			} else {
				w.Header()["Content-Type"] = nil
			}
			w.WriteHeader(d.status)
			w.Write([]byte(d.body))
		}))
		defer srv.Close()
		s.baseURL = srv.URL
	}
	s.materialise(root)
	home := filepath.Join(root, "nohome")
	main := s.file(root, 0)
	if s.dotRoot {
		main = root + "/./" + s.baseOf(0)
	}
	type result struct {
		tasks map[string]int
		err   error
		pan   string
	}
	done := make(chan result, 1)
	go func() {
		defer func() {
			if p := recover(); p != nil {
				done <- result{pan: fmt.Sprint(p)}
			}
		}()
		cl := verifhooks.NewConfigLoader(verifhooks.NewConfig())
		cl.VerifSetDirs(root, home)
		cfg, err := cl.Load(main)
		r := result{err: err, tasks: map[string]int{}}
		if err == nil {
			for k, t := range cfg.Tasks {
				r.tasks[k] = len(t.Commands)
			}
		}
		done <- r
	}()
	cs := Case{Tags: []string{tag, fmt.Sprintf("files=%d", s.n)}, NonTrivial: true}
	cs.Replay = fmt.Sprintf("%s dirImport=%d dotRoot=%v names=%d (file i = %q)", s.line(), s.dirImp, s.dotRoot, s.style, filepath.Join(s.dirOf(1%s.n), s.baseOf(1%s.n)))
	if s.exts != nil {
		cs.Replay += fmt.Sprintf(" extensions=%v dirFirst=%v", s.exts, s.dirFirst)
		cs.Tags = append(cs.Tags, "mixed-extensions")
	}
	if s.kind == "dangling" {
		cs.Tags = append(cs.Tags, "dangling-link")
	}
	if s.remoteFrom > 0 {
		cs.Replay += fmt.Sprintf(" files %d.. served over HTTP and imported by URL (odd ones as JSON by Content-Type)", s.remoteFrom)
		cs.Tags = append(cs.Tags, "url-imports")
	}
	if !s.dotRoot {
		cs.Line = s.line()
	}
	var r result
	select {
	case r = <-done:
	case <-time.After(10 * time.Second):
		cs.Impl = "timeout"
		cs.Fail, cs.Sig = "loading did not terminate within 10s", "c17-nontermination"
		col.Add(cs)
		return
	}
	reach := s.reachable()
	wantErr := false
	for _, i := range reach {
		if i == s.broken {
			wantErr = true
		}
	}
	switch {
	case r.pan != "":
		cs.Impl = "panic"
		cs.Fail, cs.Sig = "loader panicked: "+r.pan, "c17-panic"
	case r.err != nil:
		cs.Impl = "err"
		if !wantErr {
			cs.Fail, cs.Sig = "loading failed although every reachable file is present and well-formed: "+r.err.Error(), "c17-spurious-error"
		}
	default:
		var keys []string
		for k := range r.tasks {
			keys = append(keys, k)
		}
		sort.Strings(keys)
		var parts []string
		for _, k := range keys {
			parts = append(parts, fmt.Sprintf("%s=%d", strings.TrimPrefix(k, "t"), r.tasks[k]))
		}
		cs.Impl = "ok:" + strings.Join(parts, ",")
		var want []string
		for _, i := range reach {
			want = append(want, fmt.Sprintf("%d=1", i))
		}
		sort.Strings(want)
		got := append([]string{}, parts...)
		sort.Strings(got)
		switch {
		case wantErr:
			cs.Fail, cs.Sig = fmt.Sprintf("file %d (%s) is in the import closure but loading succeeded with a partial configuration (%s)", s.broken, s.kind, cs.Impl), "c17-broken-import-ignored"
		case strings.Join(got, ",") != strings.Join(want, ","):
			sig := "c17-closure"
			for _, p := range parts {
				if !strings.HasSuffix(p, "=1") {
					sig = "c17-loaded-twice"
				}
			}
			cs.Fail, cs.Sig = fmt.Sprintf("loaded definitions %v, the import closure is %v (each taken once)", parts, want), sig
		}
	}
	col.Add(cs)
}

// ---- global + project configuration ----

// variant: 0 plain; 1 the global definitions live in a file the global configuration imports; 2 the global
// configuration is a symbolic link; 3 the project definitions live in an imported file that is a symbolic link;
// 4 the global configuration imports a file that does not exist (loading must fail)
func globalSplitCase(col *Collector, mask int, nDefs int, variant int) {
	root := newScratchDir("c17g")
	defer os.RemoveAll(root)
	home := filepath.Join(root, "home")
	os.MkdirAll(filepath.Join(home, ".taskctl"), 0755)
	// definitions 0..nDefs-1 cycle through task / context / variable
	var g, p [3][]string
	for i := 0; i < nDefs; i++ {
		dst := &p
		if mask&(1<<uint(i)) != 0 {
			dst = &g
		}
		dst[i%3] = append(dst[i%3], fmt.Sprintf("d%d", i))
	}
	write := func(path string, d [3][]string) {
		var b strings.Builder
		if len(d[0]) > 0 {
			b.WriteString("tasks:\n")
			for _, n := range d[0] {
				fmt.Fprintf(&b, "  %s:\n    command: [\"echo %s\"]\n", n, n)
			}
		}
		if len(d[1]) > 0 {
			b.WriteString("contexts:\n")
			for _, n := range d[1] {
				fmt.Fprintf(&b, "  %s:\n    env: {WHO: %s}\n", n, n)
			}
		}
		if len(d[2]) > 0 {
			b.WriteString("variables:\n")
			for _, n := range d[2] {
				fmt.Fprintf(&b, "  %s: val-%s\n", n, n)
			}
		}
		if b.Len() == 0 {
			b.WriteString("debug: false\n")
		}
		os.WriteFile(path, []byte(b.String()), 0644)
	}
	store := filepath.Join(root, "store")
	os.MkdirAll(store, 0755)
	gpath, ppath := filepath.Join(home, ".taskctl", "config.yaml"), filepath.Join(root, "tasks.yaml")
	switch variant {
	case 1:
		write(filepath.Join(home, ".taskctl", "extra.yaml"), g)
		os.WriteFile(gpath, []byte("import: [extra.yaml]\n"), 0644)
		write(ppath, p)
	case 2:
		write(filepath.Join(store, "gc.yaml"), g)
		os.Symlink(filepath.Join(store, "gc.yaml"), gpath)
		write(ppath, p)
	case 3:
		write(gpath, g)
		write(filepath.Join(store, "p.yaml"), p)
		os.Symlink(filepath.Join(store, "p.yaml"), filepath.Join(root, "linked.yaml"))
		os.WriteFile(ppath, []byte("import: [linked.yaml]\n"), 0644)
	case 4:
		write(filepath.Join(home, ".taskctl", "extra.yaml"), g)
		os.WriteFile(gpath, []byte("import: [extra.yaml, nosuch.yaml]\n"), 0644)
		write(ppath, p)
	default:
		write(gpath, g)
		write(ppath, p)
	}
	cs := Case{Tags: []string{"global-split", fmt.Sprintf("variant=%d", variant)}, NonTrivial: true, Replay: fmt.Sprintf("global-split defs=%d global-mask=%b variant=%d", nDefs, mask, variant)}
	var got []string
	var sections string
	func() {
		defer func() {
			if pn := recover(); pn != nil {
				cs.Fail, cs.Sig = fmt.Sprint("panic: ", pn), "c17-panic"
			}
		}()
		cl := verifhooks.NewConfigLoader(verifhooks.NewConfig())
		cl.VerifSetDirs(root, home)
		cfg, err := cl.Load(filepath.Join(root, "tasks.yaml"))
		if variant == 4 {
			if err == nil {
				cs.Fail, cs.Sig = "the global configuration imports a file that does not exist, yet loading succeeded", "c17-broken-import-ignored"
			}
			return
		}
		if err != nil {
			cs.Fail, cs.Sig = "load failed: "+err.Error(), "c17-global-load"
			return
		}
		var st, sc, sv []string
		for k := range cfg.Tasks {
			got = append(got, k)
			st = append(st, k)
		}
		for k := range cfg.Contexts {
			got = append(got, k)
			sc = append(sc, k)
		}
		for k, v := range cfg.Variables.Map() {
			if strings.HasPrefix(k, "d") && v == "val-"+k {
				got = append(got, k)
				sv = append(sv, k)
			}
		}
		sort.Strings(st)
		sort.Strings(sc)
		sort.Strings(sv)
		sections = fmt.Sprintf("t=%s|c=%s|v=%s", strings.Join(st, ","), strings.Join(sc, ","), strings.Join(sv, ","))
	}()
	sort.Strings(got)
	var want []string
	for i := 0; i < nDefs; i++ {
		want = append(want, fmt.Sprintf("d%d", i))
	}
	sort.Strings(want)
	cs.Impl = strings.Join(got, ",")
	if variant == 4 {
		col.Add(cs)
		return
	}
	if cs.Fail == "" && strings.Join(got, ",") != strings.Join(want, ",") {
		cs.Fail, cs.Sig = fmt.Sprintf("definitions available %v, expected the union %v of the global and the project file", got, want), "c17-global-union"
	}
	if cs.Fail == "" {
		// the same, per section, against the model of the merge (Model/GlobalCfg.lean)
		enc := func(d [3][]string) string {
			var it []string
			for k, pre := range []string{"t", "c", "v"} {
				for _, n := range d[k] {
					it = append(it, pre+":"+n)
				}
			}
			if len(it) == 0 {
				return "-"
			}
			return strings.Join(it, ",")
		}
		cs.Line = fmt.Sprintf("gsplit g=%s p=%s", enc(g), enc(p))
		cs.Impl = sections
	}
	col.Add(cs)
}

func copyEdges(e [][]int) [][]int {
	out := make([][]int, len(e))
	for i := range e {
		out[i] = append([]int{}, e[i]...)
	}
	return out
}

func runC17(col *Collector, tier string, seed int64) {
	loaderReuseCases(col, "C17", []string{"yaml", "json"}, []string{"unparsable", "missing"})
	rng := rand.New(rand.NewSource(seed))
	col.res.Rule = "real Loader.Load on generated file trees in nested directories: every import graph on <=3 files (every edge set incl. self-loops and cycles), random graphs up to 6 files, repeated imports, directory imports, " +
		"one file missing or unparsable at every position, a non-clean root path; part of the files served over loopback HTTP and imported by URL (YAML by extension, JSON by Content-Type; 404 and unparsable bodies as the broken file); every split of 6 non-conflicting definitions (tasks, contexts, variables) between the global file and the project file. non-trivial = all; distinct = distinct specifications"
	var specs []impSpec
	var tags []string
	for n := 1; n <= 3; n++ {
		for mask := 0; mask < 1<<uint(n*n); mask++ {
			edges := make([][]int, n)
			for i := 0; i < n; i++ {
				for j := 0; j < n; j++ {
					if mask&(1<<uint(i*n+j)) != 0 {
						edges[i] = append(edges[i], j)
					}
				}
			}
			specs = append(specs, impSpec{n: n, edges: edges, broken: -1, dirImp: -1})
			tags = append(tags, "exh<=3")
			if n == 2 || mask%7 == 3 {
				specs = append(specs, impSpec{n: n, edges: edges, broken: -1, dirImp: -1, style: 1 + mask%2})
				tags = append(tags, "exh<=3+names")
			}
			if n >= 2 && (n == 2 || mask%3 == 1) {
				sr := impSpec{n: n, edges: copyEdges(edges), broken: -1, dirImp: -1, remoteFrom: 1 + mask%(n-1)}
				specs = append(specs, sr)
				tags = append(tags, "exh<=3+url")
				for b := sr.remoteFrom; b < n; b++ {
					if (mask+b)%3 == 0 {
						sb := sr
						sb.edges = copyEdges(edges)
						sb.broken, sb.kind = b, []string{"missing", "unparsable"}[(mask/3+b)%2]
						specs = append(specs, sb)
						tags = append(tags, "broken+url")
					}
				}
			}
			if n == 3 && mask%5 == 2 {
				// files 1 and 4 / 3 and 5 of the case-differing style need five or six files: pad with unreferenced ones
				e6 := append(append([][]int{}, edges...), []int{}, []int{}, []int{})
				e6[1] = append(append([]int{}, e6[1]...), 4)
				e6[2] = append(append([]int{}, e6[2]...), 3, 5)
				specs = append(specs, impSpec{n: 6, edges: e6, broken: -1, dirImp: -1, style: 4})
				tags = append(tags, "exh<=3+case-names")
			}
			// break each position in turn (a sample in the quick tier for n=3)
			for b := 0; b < n; b++ {
				for _, kind := range []string{"missing", "unparsable"} {
					if n == 3 && tier != "thorough" && (mask+b)%5 != int(seed%5+5)%5 {
						continue
					}
					specs = append(specs, impSpec{n: n, edges: edges, broken: b, kind: kind, dirImp: -1})
					tags = append(tags, "broken")
				}
			}
		}
	}
	nr := 150
	if tier == "thorough" {
		nr = 3000
	}
	for k := 0; k < nr; k++ {
		n := 4 + rng.Intn(3)
		edges := make([][]int, n)
		for i := 0; i < n; i++ {
			for j := 0; j < n; j++ {
				if rng.Intn(4) == 0 {
					edges[i] = append(edges[i], j)
					if rng.Intn(6) == 0 {
						edges[i] = append(edges[i], j) // repeated import
					}
				}
			}
		}
		s := impSpec{n: n, edges: edges, broken: -1, dirImp: -1}
		switch rng.Intn(5) {
		case 0:
			s.broken, s.kind = rng.Intn(n), []string{"missing", "unparsable"}[rng.Intn(2)]
		case 1:
			s.dirImp = 1 + rng.Intn(n-1)
		case 2:
			s.dotRoot = true
		}
		s.style = []int{0, 3, 1, 2, 4}[k%5]
		if k%6 == 5 && s.dirImp < 0 {
			// some of the files are served over HTTP
			s.style, s.remoteFrom = 0, 1+rng.Intn(n-1)
			if s.broken >= 0 && rng.Intn(2) == 0 {
				s.broken = s.remoteFrom + rng.Intn(n-s.remoteFrom)
			}
		}
		specs = append(specs, s)
		tags = append(tags, fmt.Sprintf("random+names%d", s.style))
	}
	// directory imports next to explicit imports of files of that directory, with every extension; a broken entry
	// (unparsable / a link to nowhere) that only the directory import reaches
	nd := 60
	if tier == "thorough" {
		nd = 1200
	}
	for k := 0; k < nd; k++ {
		n := 3 + rng.Intn(4)
		edges := make([][]int, n)
		for i := 0; i < n; i++ {
			for j := 0; j < n; j++ {
				if rng.Intn(4) == 0 {
					edges[i] = append(edges[i], j)
				}
			}
		}
		s := impSpec{n: n, edges: edges, broken: -1, dirImp: 1 + rng.Intn(n-1), dirFirst: rng.Intn(2) == 0}
		if k%2 == 0 {
			s.style = 5
		}
		s.exts = make([]string, n)
		for i := 1; i < n; i++ {
			s.exts[i] = []string{".yaml", ".yaml", ".yml", ".json", ".toml"}[rng.Intn(5)]
		}
		s.exts[s.dirImp] = ".yaml"
		// the files of the imported directory are also imported explicitly by file 0 - some of them
		for j := 1; j < n; j++ {
			if s.dirOf(j) == s.dirOf(s.dirImp) && rng.Intn(2) == 0 {
				s.edges[0] = append(s.edges[0], j)
			}
		}
		if k%3 == 0 {
			// a broken *.yaml entry in the imported directory
			var cands []int
			for j := 1; j < n; j++ {
				if s.dirOf(j) == s.dirOf(s.dirImp) && s.exts[j] == ".yaml" {
					cands = append(cands, j)
				}
			}
			s.broken, s.kind = cands[rng.Intn(len(cands))], []string{"unparsable", "dangling"}[rng.Intn(2)]
		}
		specs = append(specs, s)
		tags = append(tags, "dir+files")
	}
	// file and directory names made of the characters of glob patterns: an import entry is a path, taken literally
	for n := 2; n <= 3; n++ {
		for mask := 0; mask < 1<<uint(n*n); mask++ {
			if n == 3 && mask%8 != 3 {
				continue
			}
			edges := make([][]int, n)
			for i := 0; i < n; i++ {
				for j := 0; j < n; j++ {
					if mask&(1<<uint(i*n+j)) != 0 {
						edges[i] = append(edges[i], j)
					}
				}
			}
			specs = append(specs, impSpec{n: n, edges: edges, broken: -1, dirImp: -1, style: 6})
			tags = append(tags, "glob-character-names")
			specs = append(specs, impSpec{n: n, edges: copyEdges(edges), broken: 1 + mask%(n-1), kind: []string{"missing", "unparsable"}[mask%2], dirImp: -1, style: 6})
			tags = append(tags, "glob-character-names+broken")
		}
	}
	for k := 0; k < 12; k++ {
		// chains and fans over all six names
		edges := [][]int{{1, 2}, {3}, {4}, {5}, {}, {}}
		if k%2 == 1 {
			edges = [][]int{{5}, {}, {1}, {2}, {3}, {4}}
		}
		s := impSpec{n: 6, edges: edges, broken: -1, dirImp: -1, style: 6}
		if k >= 2 {
			s.broken, s.kind = 1+(k-2)%5, []string{"missing", "unparsable"}[(k/2)%2]
		}
		specs = append(specs, s)
		tags = append(tags, "glob-character-names")
	}
	// the same file imported under several names (through a symbolic link of a directory to itself): it is one file
	for n := 1; n <= 3; n++ {
		for mask := 0; mask < 1<<uint(n*n); mask++ {
			if n == 3 && mask%4 != 1 {
				continue
			}
			edges := make([][]int, n)
			for i := 0; i < n; i++ {
				for j := 0; j < n; j++ {
					if mask&(1<<uint(i*n+j)) != 0 {
						edges[i] = append(edges[i], j)
						if (mask+i+j)%3 == 0 {
							edges[i] = append(edges[i], j) // the same file twice in one list, under two names
						}
					}
				}
			}
			specs = append(specs, impSpec{n: n, edges: edges, broken: -1, dirImp: -1, style: 7})
			tags = append(tags, "same-file-under-several-names")
		}
	}
	// ... and such a directory imported as a directory
	for k := 0; k < 8; k++ {
		s := impSpec{n: 6, edges: [][]int{{}, {}, {3}, {}, {2}, {}}, broken: -1, dirImp: []int{1, 2, 3, 5}[k%4], style: 6, dirFirst: k >= 4}
		if k%2 == 1 {
			s.edges[0] = []int{4}
		}
		specs = append(specs, s)
		tags = append(tags, "glob-character-names+dir")
	}
	parallel(len(specs), 16, func(i int) { impCase(col, specs[i], tags[i]) })
	for mask := 0; mask < 64; mask++ {
		globalSplitCase(col, mask, 6, 0)
		globalSplitCase(col, mask, 6, 1+mask%4)
	}
	col.res.Exhaustive = true
}
