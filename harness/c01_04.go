package main

import (
	"fmt"
	"github.com/taskctl/taskctl/pkg/runner"
	"github.com/taskctl/taskctl/pkg/scheduler"
	"github.com/taskctl/taskctl/pkg/task"
	"github.com/taskctl/taskctl/pkg/variables"
	"math/rand"
	"os"
	"strconv"
	"strings"
	"sync"
	"time"
)

func init() {
	props["C01"] = func(c *Collector, tier string, seed int64) { runSched(c, "C01", tier, seed) }
	props["C02"] = func(c *Collector, tier string, seed int64) { runSched(c, "C02", tier, seed) }
	props["C03"] = func(c *Collector, tier string, seed int64) {
		runSched(c, "C03", tier, seed)
		runC03Cancelled(c, tier, seed)
		runC03Contexts(c, tier, seed)
	}
	props["C04"] = func(c *Collector, tier string, seed int64) {
		runSched(c, "C04", tier, seed)
		runC04Real(c, tier, seed)
	}
}

// all DAGs on n labelled stages whose edges go from lower to higher index (every DAG up to renaming),
// the declaration order is shuffled separately
func dagMasks(n int) [][][]int {
	pairs := [][2]int{}
	for j := 0; j < n; j++ {
		for i := 0; i < j; i++ {
			pairs = append(pairs, [2]int{i, j})
		}
	}
	var out [][][]int
	for m := 0; m < 1<<uint(len(pairs)); m++ {
		deps := make([][]int, n)
		for k, p := range pairs {
			if m&(1<<uint(k)) != 0 {
				deps[p[1]] = append(deps[p[1]], p[0])
			}
		}
		out = append(out, deps)
	}
	return out
}

// kinds of a stage: s=succeeds f=fails a=fails with allow_failure c=condition false t=condition true(succeeds)
var stageKinds = []byte{'s', 'f', 'a', 'c'}

func applyKinds(c *schedCfg, kinds []byte) {
	c.allow = make([]bool, c.n)
	c.ok = make([]bool, c.n)
	c.cond = make([]byte, c.n)
	for i, k := range kinds {
		c.cond[i] = 'n'
		c.ok[i] = true
		switch k {
		case 'f':
			c.ok[i] = false
		case 'a':
			c.ok[i] = false
			c.allow[i] = true
		case 'c':
			c.cond[i] = 'f'
		case 't':
			c.cond[i] = 't'
		case 'T': // condition true, task fails
			c.cond[i] = 't'
			c.ok[i] = false
		case 'e':
			c.cond[i] = 'e'
		}
	}
}

func schedStatusLine(q [][]string, status []int, err bool, runs []int) string {
	qs := make([]string, len(q))
	for i, s := range q {
		qs[i] = "q=" + strings.Join(s, ",")
	}
	e := 0
	if err {
		e = 1
	}
	return fmt.Sprintf("%s|final=%s|err=%d|runs=%s", strings.Join(qs, "|"), joinInts(status, ","), e, joinInts(runs, ","))
}

func relToInts(rel [][]string) [][]int {
	out := make([][]int, len(rel))
	for i, b := range rel {
		for _, n := range b {
			var v int
			fmt.Sscanf(n, "%d", &v)
			out[i] = append(out[i], v)
		}
	}
	return out
}

func hasNested(c *schedCfg) bool {
	for _, n := range c.nested {
		if n != nil {
			return true
		}
	}
	return false
}

func anyShared(c *schedCfg) bool {
	if c.shared {
		return true
	}
	for _, n := range c.nested {
		if n != nil && anyShared(n) {
			return true
		}
	}
	return false
}

func hasCondErr(c *schedCfg) bool {
	for _, b := range c.cond {
		if b == 'e' {
			return true
		}
	}
	for _, n := range c.nested {
		if n != nil && hasCondErr(n) {
			return true
		}
	}
	return false
}

// evaluate one plan, run the monitors of all four properties, report those of `focus`
func schedCase(col *Collector, focus string, p *schedPlan, tag string) {
	c := p.cfg
	obs, rel, err := runSchedCase(p)
	cs := Case{Tags: []string{tag, fmt.Sprintf("stages=%d", c.n)}}
	if c.viaConfig {
		cs.Tags = append(cs.Tags, "built-by-config-loader")
	}
	if c.names != nil {
		cs.Tags = append(cs.Tags, "odd-stage-names")
	}
	if err != nil {
		cs.Replay = c.describe()
		cs.Fail, cs.Sig = "graph could not be built: "+err.Error(), "sched-build"
		col.Add(cs)
		return
	}
	cancelledRun := p.cancelAt >= 0 || hasCondErr(c)
	if cancelledRun {
		// after a cancellation the set of stages that still start depends on where the loop is in its
		// pass: only the timing-independent monitors apply (C01 order, at-most-once, the run returns)
		obs.missing, obs.unexpected = nil, nil
	}
	ref := newRef(c, "")
	// recompute the reference outcome by replaying the same releases
	ref.settle()
	for _, b := range rel {
		for _, n := range b {
			ref.release(n)
		}
		ref.settle()
	}
	cs.Impl = schedStatusLine(obs.quiescent, obs.status, obs.err, obs.runs)
	cs.Replay = fmt.Sprintf("%s rel=%v cancelAt=%d", c.describe(), rel, p.cancelAt)
	if !hasNested(c) && !cancelledRun {
		cs.Line = c.line(relToInts(rel))
	}
	if hasNested(c) && !cancelledRun && !c.shared {
		// nested pipelines: the final statuses and run counts of both levels against the model's composition
		deps := func(c *schedCfg) string {
			ds := make([]string, c.n)
			for i, d := range c.deps {
				ds[i] = "-"
				if len(d) > 0 {
					ds[i] = joinInts(d, ",")
				}
			}
			return strings.Join(ds, ";")
		}
		line := fmt.Sprintf("nested n=%d deps=%s allow=%s cond=%s ok=%s", c.n, deps(c), bits(c.allow), string(c.cond), bits(c.ok))
		// a nested stage never enters the runner itself: it counts as started once when it ended done or failed
		runs := append([]int(nil), obs.runs...)
		for i, nc := range c.nested {
			if nc != nil && (obs.status[i] == stDone || obs.status[i] == stError) {
				runs[i] = 1
			}
		}
		impl := fmt.Sprintf("final=%s/%s|err=%d|", joinInts(obs.status, ","), joinInts(runs, ","), map[bool]int{true: 1, false: 0}[obs.err])
		var ins []string
		simple := true
		for i, nc := range c.nested {
			if nc == nil {
				continue
			}
			if hasNested(nc) || nc.shared {
				simple = false
			}
			line += fmt.Sprintf(" in=%d:%d:%s:%s:%s:%s", i, nc.n, deps(nc), bits(nc.allow), string(nc.cond), bits(nc.ok))
			key := strconv.Itoa(i)
			ins = append(ins, fmt.Sprintf("in%d=%s/%s", i, joinInts(obs.inner[key][0], ","), joinInts(obs.inner[key][1], ",")))
		}
		if simple {
			cs.Line = line
			cs.Impl = impl + strings.Join(ins, "|")
		} else if !anyShared(c) {
			// deeper nesting: the tree model (`Model/Tree.lean`), one node per pipeline
			tl := "tree"
			ti := []string{fmt.Sprintf("err=%d", map[bool]int{true: 1, false: 0}[obs.err])}
			var emit func(c *schedCfg, path string, st, rn []int)
			emit = func(c *schedCfg, path string, st, rn []int) {
				shown := path
				if shown == "" {
					shown = "-"
				}
				tl += fmt.Sprintf(" node=%s:%d:%s:%s:%s:%s", shown, c.n, deps(c), bits(c.allow), string(c.cond), bits(c.ok))
				ti = append(ti, fmt.Sprintf("%s=%s/%s", shown, joinInts(st, ","), joinInts(rn, ",")))
				for i, nc := range c.nested {
					if nc == nil {
						continue
					}
					sub := strconv.Itoa(i)
					if path != "" {
						sub = path + "." + sub
					}
					emit(nc, sub, obs.inner[sub][0], obs.inner[sub][1])
				}
			}
			emit(c, "", obs.status, runs)
			cs.Line = tl
			cs.Impl = strings.Join(ti, "|")
			cs.Tags = append(cs.Tags, "nested-deep")
		}
	}
	nEdges := 0
	for _, d := range c.deps {
		nEdges += len(d)
	}
	cs.NonTrivial = c.n >= 2 && (nEdges >= 1 || len(rel) >= 2)
	if hasNested(c) {
		cs.Tags = append(cs.Tags, "nested")
	}
	if c.shared {
		cs.Tags = append(cs.Tags, "shared-task")
	}
	if cancelledRun {
		cs.Tags = append(cs.Tags, "cancelled")
	}
	for _, b := range rel {
		if len(b) > 1 {
			cs.Tags = append(cs.Tags, "batch-release")
			break
		}
	}
	type mf struct{ prop, what, sig string }
	var fails []mf
	if len(obs.early) > 0 {
		fails = append(fails, mf{"C01", obs.early[0], "c01-early-start"})
	}
	if !obs.returned {
		fails = append(fails, mf{"C03", "Schedule did not return within 5s", "c03-no-return"})
	}
	if len(obs.missing) > 0 {
		held := len(obs.quiescent) > 0 && len(obs.quiescent[len(obs.quiescent)-1]) > 0
		if held {
			fails = append(fails, mf{"C04", fmt.Sprintf("eligible stage(s) %v not started while %v were held running", obs.missing, obs.quiescent[len(obs.quiescent)-1]), "c04-not-concurrent"})
		}
		fails = append(fails, mf{"C03", fmt.Sprintf("eligible stage(s) %v never started", obs.missing), "c03-eligible-not-run"})
	}
	if len(obs.unexpected) > 0 {
		fails = append(fails, mf{"C02", fmt.Sprintf("stage(s) %v ran although the reference outcome excludes them", obs.unexpected), "c02-unexpected-run"})
	}
	for i, r := range obs.runs {
		if r > 1 {
			fails = append(fails, mf{"C03", fmt.Sprintf("stage %d executed %d times", i, r), "c03-twice"})
		}
	}
	if obs.returned && !cancelledRun && len(obs.missing) == 0 && len(obs.unexpected) == 0 {
		for i := 0; i < c.n; i++ {
			if obs.status[i] != ref.status[i] {
				fails = append(fails, mf{"C02", fmt.Sprintf("stage %d ended with status %d, the graph and outcomes determine %d", i, obs.status[i], ref.status[i]), "c02-final-status"})
				break
			}
		}
		if obs.err != ref.err {
			fails = append(fails, mf{"C02", fmt.Sprintf("run reported error=%v, expected %v", obs.err, ref.err), "c02-error-flag"})
		}
		for i := 0; i < c.n; i++ {
			if obs.status[i] == stWaiting || obs.status[i] == stRunning {
				fails = append(fails, mf{"C03", fmt.Sprintf("stage %d left with status %d after the run returned", i, obs.status[i]), "c03-left-undecided"})
				break
			}
			if (c.nested == nil || c.nested[i] == nil) && obs.runs[i] != ref.runs[i] {
				fails = append(fails, mf{"C03", fmt.Sprintf("stage %d executed %d times, expected %d", i, obs.runs[i], ref.runs[i]), "c03-run-count"})
				break
			}
		}
	}
	for _, f := range fails {
		if f.prop == focus && cs.Fail == "" {
			cs.Fail, cs.Sig = f.what, f.sig
		} else if f.prop != focus {
			col.Note("other-monitor %s: %s", f.prop, f.sig)
		}
	}
	col.Add(cs)
}

func runSched(col *Collector, focus, tier string, seed int64) {
	rng := rand.New(rand.NewSource(seed))
	col.res.Rule = "scheduler driven with a gate-controlled runner (pause 0.5ms): every DAG on <=3 stages x every assignment of " +
		"{succeeds, fails, fails+allow_failure, condition false} x seeded completion orders incl. simultaneous releases; all DAGs on 4 stages with sampled assignments " +
		"(thorough: more); random DAGs up to 8 stages; condition-true stages; nested pipelines; shuffled declaration order; condition-error and external Cancel injection. " +
		"non-trivial = >=2 stages and (>=1 edge or >=2 release steps); distinct = distinct (configuration, release sequence)"
	var plans []*schedPlan
	var tags []string
	condErrStage := -1
	add := func(c *schedCfg, tag string, batch float64, cancelAt int) {
		plans = append(plans, &schedPlan{cfg: c, rng: rand.New(rand.NewSource(rng.Int63())), batchProb: batch, cancelAt: cancelAt, condErr: condErrStage})
		condErrStage = -1
		tags = append(tags, tag)
	}
	mk := func(n int, deps [][]int, kinds []byte) *schedCfg {
		c := &schedCfg{n: n, deps: deps, order: rng.Perm(n), shared: n >= 2 && rng.Intn(5) == 0}
		// a share of the graphs is built by the configuration loader from YAML (buildPipeline, pipeline links)
		c.viaConfig = !c.shared && rng.Intn(4) == 0
		// a share of the small graphs gets stage names that collide when glued with a separator
		if n <= 4 && rng.Intn(5) == 0 {
			pool := oddNamePools[rng.Intn(len(oddNamePools))]
			c.names = append([]string(nil), pool[:n]...)
			rng.Shuffle(n, func(a, b int) { c.names[a], c.names[b] = c.names[b], c.names[a] })
		}
		applyKinds(c, kinds)
		return c
	}
	// exhaustive: n<=3, all kind assignments, two completion orders each (one sequential, one with batches)
	for n := 1; n <= 3; n++ {
		for _, deps := range dagMasks(n) {
			total := 1
			for i := 0; i < n; i++ {
				total *= len(stageKinds)
			}
			for a := 0; a < total; a++ {
				kinds := make([]byte, n)
				x := a
				for i := 0; i < n; i++ {
					kinds[i] = stageKinds[x%len(stageKinds)]
					x /= len(stageKinds)
				}
				add(mk(n, deps, kinds), "exh<=3", 0, -1)
				if n >= 2 {
					add(mk(n, deps, kinds), "exh<=3", 0.7, -1)
				}
			}
		}
	}
	// chains whose stage names collide when an edge is written "from<sep>to": x<sep>y -> x -> y<sep>x, in both directions
	for _, pool := range oddNamePools[:9] {
		for dir := 0; dir < 2; dir++ {
			for _, via := range []bool{false, true} {
				deps := [][]int{{1}, {}, {0}} // 0 depends on 1, 2 depends on 0
				if dir == 1 {
					deps = [][]int{{2}, {0}, {}} // 0 depends on 2, 1 depends on 0
				}
				c := &schedCfg{n: 3, deps: deps, order: rng.Perm(3), names: []string{pool[0], pool[2], pool[3]}, viaConfig: via}
				applyKinds(c, []byte{'s', 's', 's'})
				add(c, "name-collision-chain", 0, -1)
			}
		}
	}
	// all 64 DAGs on 4 stages, sampled assignments
	per4 := 6
	nrand := 150
	ncancel := 60
	if tier == "thorough" {
		per4 = 80
		nrand = 3000
		ncancel = 800
	}
	kindsPool := []byte{'s', 's', 's', 'f', 'f', 'a', 'c', 't', 'T'}
	randKinds := func(n int) []byte {
		k := make([]byte, n)
		for i := range k {
			k[i] = kindsPool[rng.Intn(len(kindsPool))]
		}
		return k
	}
	for _, deps := range dagMasks(4) {
		for k := 0; k < per4; k++ {
			add(mk(4, deps, randKinds(4)), "dag4", []float64{0, 0.5, 1}[k%3], -1)
		}
	}
	randDag := func(n int) [][]int {
		dens := []float64{0.15, 0.3, 0.5}[rng.Intn(3)]
		deps := make([][]int, n)
		for j := 0; j < n; j++ {
			for i := 0; i < j; i++ {
				if rng.Float64() < dens {
					deps[j] = append(deps[j], i)
				}
			}
			rng.Shuffle(len(deps[j]), func(a, b int) { deps[j][a], deps[j][b] = deps[j][b], deps[j][a] })
			if len(deps[j]) > 0 && rng.Intn(5) == 0 {
				// a dependency listed twice (at a random position): still that dependency, and the entries after
				// the repetition are dependencies like any other
				d, at := deps[j][rng.Intn(len(deps[j]))], rng.Intn(len(deps[j])+1)
				deps[j] = append(append(append([]int{}, deps[j][:at]...), d), deps[j][at:]...)
			}
		}
		return deps
	}
	for i := 0; i < nrand; i++ {
		n := 5 + rng.Intn(4)
		c := mk(n, randDag(n), randKinds(n))
		if i%4 == 0 { // nested pipeline on one or two stages
			c.nested = make([]*schedCfg, n)
			for k := 0; k < 1+rng.Intn(2); k++ {
				s := rng.Intn(n)
				m := 2 + rng.Intn(3)
				c.nested[s] = mk(m, randDag(m), randKinds(m))
				c.nested[s].shared = c.nested[s].shared && !c.viaConfig
				c.nested[s].plainNames = rng.Intn(2) == 0
				c.cond[s] = 'n'
				// one in three: two or three levels deep
				in := c.nested[s]
				for depth := 0; depth < 2 && rng.Intn(3) == 0; depth++ {
					s2, m2 := rng.Intn(in.n), 2+rng.Intn(2)
					in.nested = make([]*schedCfg, in.n)
					in.nested[s2] = mk(m2, randDag(m2), randKinds(m2))
					in.nested[s2].shared = false
					in.nested[s2].viaConfig = false
					in.nested[s2].plainNames = rng.Intn(2) == 0
					in.cond[s2] = 'n'
					in = in.nested[s2]
				}
			}
		}
		add(c, "random", []float64{0, 0.5, 1}[i%3], -1)
	}
	// long passes: most stages carry a condition (an external command, ~1 ms each), so that one pass of the loop
	// lasts long enough for tasks to finish in the middle of it - while the loop has already visited some of their
	// dependants and not yet others
	nslow := 0
	if focus == "C04" || focus == "C01" {
		nslow = 600
		if tier == "thorough" {
			nslow = 4000
		}
	}
	for i := 0; i < nslow; i++ {
		n := 6 + rng.Intn(3)
		kinds := make([]byte, n)
		for j := range kinds {
			kinds[j] = []byte{'t', 't', 't', 'T', 's', 'c'}[rng.Intn(6)]
		}
		add(mk(n, randDag(n), kinds), "slow-pass", []float64{0.5, 1}[i%2], -1)
	}
	// cancelled runs: a stage whose condition cannot be evaluated, or an external Cancel at a quiescent point
	for i := 0; i < ncancel; i++ {
		n := 2 + rng.Intn(4)
		kinds := randKinds(n)
		cancelAt := -1
		switch i % 3 {
		case 0: // condition that can never be evaluated: cancels during the first pass
			kinds[rng.Intn(n)] = 'e'
		case 1: // external Cancel at a quiescent point
			cancelAt = rng.Intn(3)
		case 2: // the condition of the last stage (kept waiting by its dependencies) becomes impossible to evaluate
			cancelAt = rng.Intn(3)
			condErrStage = n - 1
			kinds[n-1] = 's'
		}
		cfg := mk(n, randDag(n), kinds)
		if condErrStage >= 0 && len(cfg.deps[n-1]) == 0 {
			cfg.deps[n-1] = []int{rng.Intn(n - 1)}
		}
		add(cfg, "cancel", 0.3, cancelAt)
	}
	// a share of the plans runs with no pause at all between passes (goroutine start-up latency > polling period)
	ntight := 0
	for i, p := range plans {
		if tags[i] != "cancel" && p.cfg.n <= 4 && i%9 == int(seed%9+9)%9 && ntight < 120 {
			p.tight = true
			ntight++
		}
	}
	// stages built by the configuration loader whose NAMES are a rotation of the names of the tasks they run (stage
	// "1" runs task "0", stage "2" runs task "1", ...): a name in depends_on is the name of a stage, wherever that
	// stage is declared, and never the name of the task another stage runs. A generator of its own: the plans above
	// stay what they were.
	rngRot := rand.New(rand.NewSource(seed*7919 + 13))
	addRot := func(n int, deps [][]int, kinds []byte, batch float64) {
		c := &schedCfg{n: n, deps: deps, order: rngRot.Perm(n), viaConfig: true}
		for i := 0; i < n; i++ {
			c.names = append(c.names, strconv.Itoa((i+1)%n))
		}
		applyKinds(c, kinds)
		plans = append(plans, &schedPlan{cfg: c, rng: rand.New(rand.NewSource(rngRot.Int63())), batchProb: batch, cancelAt: -1, condErr: -1})
		tags = append(tags, "stage-names-rotate-task-names")
	}
	for n := 2; n <= 4; n++ {
		for _, deps := range dagMasks(n) {
			ks := make([]byte, n)
			for i := range ks {
				ks[i] = 's'
			}
			addRot(n, deps, ks, 0)
			ks2 := append([]byte(nil), ks...)
			ks2[rngRot.Intn(n)] = []byte{'f', 'a', 'c'}[rngRot.Intn(3)]
			addRot(n, deps, ks2, 0.5)
		}
	}
	if focus == "C02" || focus == "C03" {
		for k := 0; k < 6; k++ {
			sharedNestedCase(col, focus, k%2 == 0)
		}
	}
	if focus == "C01" || focus == "C02" || focus == "C03" {
		sharedInclusionCases(col, focus, tier, seed)
	}
	if focus == "C02" {
		for v := 0; v < 3; v++ {
			sharedTaskHistoryCase(col, v)
		}
	}
	if focus == "C02" || focus == "C03" {
		c02RealConfigCases(col, focus)
		slowFailingUpCases(col, focus)
	}
	if focus == "C02" {
		simultaneousFailureCase(col, 48, map[bool]int{false: 16000, true: 80000}[tier == "thorough"])
		simultaneousFailureCase(col, 8, map[bool]int{false: 2400, true: 12000}[tier == "thorough"])
	}
	if focus == "C01" {
		includedWideOrderCase(col, map[bool]int{false: 600, true: 5000}[tier == "thorough"])
	}
	if focus == "C03" {
		reps := 400
		if tier == "thorough" {
			reps = 4000
		}
		for _, k := range []int{2, 4, 8} {
			includedInParallelCase(col, k, 3, reps)
		}
		includedInParallelCaseC(col, 2, 2, reps, true)
		includedInParallelCaseC(col, 3, 3, reps/2, true)
		for _, k := range []int{2, 3, 5} {
			fanInStressCase(col, k, reps, false)
			fanInStressCase(col, k, reps/2, true)
		}
	}
	parallel(len(plans), 16, func(i int) {
		t := tags[i]
		if plans[i].tight {
			t += "+tight-loop"
		}
		schedCase(col, focus, plans[i], t)
	})
	col.res.Exhaustive = true
}

// cancelled runs with the REAL TaskRunner (child processes): "if the run is cancelled - by the caller or
// because a stage condition could not be evaluated - it still returns", with 0, 1 or several tasks in flight
func runC03Cancelled(col *Collector, tier string, seed int64) {
	rng := rand.New(rand.NewSource(seed + 77))
	var scs []cancelScenario
	for _, sc := range genCancelScenarios(tier, rng) {
		if sc.Mode != "runner" {
			scs = append(scs, sc)
		}
	}
	// a second cancellation after a refused run, and a run after a failed context set-up: histories
	scs = append(scs, cancelScenario{Mode: "sched-twice-conderr", Inflight: 1, Waiting: 1, Point: "in-command"})
	col.res.Rule += "; plus real-TaskRunner pipelines in child processes: Scheduler.Cancel and condition errors with 0..4 tasks in flight x 0..3 waiting"
	// one run of a scenario, as a case; timed: "did not return" was decided by a bound on wall-clock time
	one := func(sc cancelScenario) (cs Case, timed bool) {
		obs, exit, stderr, to := runCancelScenario(sc)
		cs = Case{Replay: "cancelled-run " + sc.String(), Tags: []string{"real-runner", "mode=" + sc.Mode, fmt.Sprintf("inflight=%d", sc.Inflight)}}
		cs.NonTrivial = sc.Inflight+sc.Waiting > 0
		fail, sig := cancelVerdict(sc, obs, exit, stderr, to)
		switch sig {
		case "c12-panic", "c12-hang", "c12-cancel-blocks", "c12-run-blocks", "c12-cancel-twice":
			cs.Fail, cs.Sig = "cancelled pipeline run did not return: "+fail, "c03-cancelled-no-return"
			timed = sig != "c12-panic"
		case "":
		default:
			col.Note("other-monitor C12: %s", sig)
		}
		return cs, timed
	}
	var rmu sync.Mutex
	var again []cancelScenario
	var first []string
	parallel(len(scs), 12, func(i int) {
		sc := scs[i]
		if sc.Mode == "sched-twice-conderr" {
			sc.Mode = "sched-conderr"
		}
		cs, timed := one(sc)
		if cs.Fail != "" && timed && os.Getenv("VERIF_NO_RETRY") == "" {
			// the same rule as in the check of C12 (runCancelProp): a bound on wall-clock time (6 s for a Cancel or a
			// Schedule to return, 25 s for the scenario) can be missed by correct code on a machine that stalls; the
			// scenario is repeated on its own after the others - a run that really does not return does not return again
			rmu.Lock()
			again, first = append(again, sc), append(first, cs.Fail)
			rmu.Unlock()
			return
		}
		col.Add(cs)
	})
	for k, sc := range again {
		cs, _ := one(sc)
		if cs.Fail != "" {
			cs.Fail += " [twice; the first attempt ended with: " + first[k] + "]"
		} else {
			cs.Tags = append(cs.Tags, "passed-on-second-attempt")
			col.Note("C03 cancelled-run scenario %s exceeded a time bound once (%s) and passed when repeated alone", sc.String(), first[k])
		}
		col.Add(cs)
	}
}

// pipelines on the REAL runner whose stages use execution contexts (hooks that fail at every position, several up
// commands, tasks with conditions and hooks of their own): the run must return and no command may run twice
func runC03Contexts(col *Collector, tier string, seed int64) {
	rng := rand.New(rand.NewSource(seed + 303))
	var scs []hookScenario
	for _, s := range genHookScenarios(tier, rng) {
		if s.via == "sched" {
			scs = append(scs, s)
		}
	}
	parallel(len(scs), 16, func(i int) {
		s := scs[i]
		o := runHookScenario(s)
		cs := Case{Replay: s.line(), Tags: []string{"real-runner-contexts", fmt.Sprintf("tasks=%d", len(s.tasks))}, NonTrivial: len(s.tasks) > 1}
		cs.Impl = fmt.Sprintf("returned=%v", !strings.HasPrefix(o.crashed, "HANG"))
		switch {
		case strings.HasPrefix(o.crashed, "HANG"):
			cs.Fail, cs.Sig = "pipeline run did not return: "+o.crashed, "c03-no-return"
		case o.crashed != "":
			cs.Fail, cs.Sig = "pipeline run crashed: "+o.crashed, "c03-crash"
		default:
			n := map[string]int{}
			for _, tok := range o.trace {
				n[tok]++
			}
			for i := range s.tasks {
				if c := n[fmt.Sprintf("t%d.cmd", i)]; c > 1 {
					cs.Fail, cs.Sig = fmt.Sprintf("stage t%d ran its command %d times", i, c), "c03-twice"
				}
			}
		}
		col.Add(cs)
	})
}

// one pipeline included by TWO stages of an outer pipeline (the same graph object, as internal/config builds it):
// the inner stage x fails; A includes P; B includes P too but waits for the task stage C; D waits for B.
// Whatever the order in which x and C finish, A and B fail, D is cancelled, x runs once, the run reports an error.
func sharedNestedCase(col *Collector, focus string, xFirst bool) {
	cs := Case{Replay: fmt.Sprintf("shared nested pipeline: P=[x fails]; A=pipeline P, C=task, B=pipeline P after C, D after B; x finishes first=%v", xFirst),
		Tags: []string{"nested", "nested-included-twice"}, NonTrivial: true}
	mk := func(n string) *task.Task { t := task.NewTask(); t.Name = n; return t }
	p, err := scheduler.NewExecutionGraph(&scheduler.Stage{Name: "x", Task: mk("x")})
	if err != nil {
		cs.Fail, cs.Sig = err.Error(), "sched-setup"
		col.Add(cs)
		return
	}
	a := &scheduler.Stage{Name: "A", Pipeline: p}
	c := &scheduler.Stage{Name: "C", Task: mk("c")}
	b := &scheduler.Stage{Name: "B", Pipeline: p, DependsOn: []string{"C"}}
	d := &scheduler.Stage{Name: "D", Task: mk("d"), DependsOn: []string{"B"}}
	g, err := scheduler.NewExecutionGraph(a, c, b, d)
	if err != nil {
		cs.Fail, cs.Sig = err.Error(), "sched-setup"
		col.Add(cs)
		return
	}
	r := newCtlRunner()
	sd := scheduler.NewScheduler(r)
	sd.VerifSetPause(schedPause)
	done := make(chan error, 1)
	go func() { done <- sd.Schedule(g) }()
	waitFor := func(cond func() bool) bool {
		deadline := time.Now().Add(3 * time.Second)
		for !cond() {
			if time.Now().After(deadline) {
				return false
			}
			time.Sleep(time.Millisecond)
		}
		return true
	}
	has := func(names ...string) func() bool {
		return func() bool {
			in := r.inflight()
			for _, n := range names {
				if !contains(in, n) {
					return false
				}
			}
			return true
		}
	}
	ok := waitFor(has("x", "c"))
	if xFirst {
		r.releaseTask("x", false)
		ok = ok && waitFor(func() bool { return a.ReadStatus() == scheduler.StatusError })
		r.releaseTask("c", true)
	} else {
		r.releaseTask("c", true)
		ok = ok && waitFor(func() bool { return b.ReadStatus() == scheduler.StatusRunning })
		time.Sleep(5 * time.Millisecond)
		r.releaseTask("x", false)
	}
	var serr error
	returned := false
	deadline := time.After(5 * time.Second)
wait:
	for {
		select {
		case serr = <-done:
			returned = true
			break wait
		case <-deadline:
			r.Cancel()
			break wait
		case <-time.After(time.Millisecond):
			r.releaseTask("d", true) // should D be started (it must not), let it finish
		}
	}
	r.mu.Lock()
	xs, ds := r.entered["x"], r.entered["d"]
	r.mu.Unlock()
	cs.Impl = fmt.Sprintf("A=%d B=%d C=%d D=%d err=%v x-runs=%d d-runs=%d", a.ReadStatus(), b.ReadStatus(), c.ReadStatus(), d.ReadStatus(), serr != nil, xs, ds)
	want := fmt.Sprintf("A=%d B=%d C=%d D=%d err=true x-runs=1 d-runs=0", scheduler.StatusError, scheduler.StatusError, scheduler.StatusDone, scheduler.StatusCanceled)
	switch {
	case !ok:
		cs.Fail, cs.Sig = "the expected stages did not start: "+cs.Impl, "sched-setup"
	case !returned:
		if focus == "C03" {
			cs.Fail, cs.Sig = "Schedule did not return within 5s", "c03-no-return"
		}
	case cs.Impl != want:
		switch focus {
		case "C02":
			cs.Fail, cs.Sig = fmt.Sprintf("final statuses %s, the graph and the outcomes determine %s", cs.Impl, want), "c02-final-status"
		case "C03":
			if xs != 1 || ds != 0 {
				cs.Fail, cs.Sig = fmt.Sprintf("run counts %s, expected %s", cs.Impl, want), "c03-run-count"
			}
		}
	}
	col.Add(cs)
}

// a runner that only counts: every Run returns at once
type countRunner struct {
	mu sync.Mutex
	n  map[string]int
}

func (r *countRunner) Run(t *task.Task) error {
	r.mu.Lock()
	r.n[t.Name]++
	r.mu.Unlock()
	return nil
}
func (r *countRunner) Cancel() {}
func (r *countRunner) Finish() {}

// one pipeline included by several stages that are eligible at the same time: the inner pipeline is scheduled by
// several loops at once, and each of its stages must still be executed exactly once
func includedInParallelCase(col *Collector, includers, inner, reps int) {
	includedInParallelCaseC(col, includers, inner, reps, false)
}

// withCond: every inner stage has a condition that holds (a program run by each of the loops that look at the stage)
func includedInParallelCaseC(col *Collector, includers, inner, reps int, withCond bool) {
	cs := Case{Replay: fmt.Sprintf("pipeline P (%d independent stages, each with a condition that holds: %v) included by %d stages with no dependency between them, %d repetitions", inner, withCond, includers, reps),
		Tags: []string{"nested", "nested-included-in-parallel"}, NonTrivial: true}
	bad := ""
	for rep := 0; rep < reps && bad == "" && cs.Fail == ""; rep++ {
		var ps []*scheduler.Stage
		for i := 0; i < inner; i++ {
			t := task.NewTask()
			t.Name = fmt.Sprintf("x%d", i)
			st := &scheduler.Stage{Name: t.Name, Task: t}
			if withCond {
				st.Condition = "true"
			}
			ps = append(ps, st)
		}
		p, err := scheduler.NewExecutionGraph(ps...)
		if err != nil {
			cs.Fail, cs.Sig = err.Error(), "sched-setup"
			break
		}
		var os []*scheduler.Stage
		for i := 0; i < includers; i++ {
			os = append(os, &scheduler.Stage{Name: fmt.Sprintf("I%d", i), Pipeline: p})
		}
		g, err := scheduler.NewExecutionGraph(os...)
		if err != nil {
			cs.Fail, cs.Sig = err.Error(), "sched-setup"
			break
		}
		r := &countRunner{n: map[string]int{}}
		sd := scheduler.NewScheduler(r)
		sd.VerifSetPause(0)
		done := make(chan error, 1)
		go func() { done <- sd.Schedule(g) }()
		select {
		case <-done:
		case <-time.After(10 * time.Second):
			cs.Fail, cs.Sig = "Schedule did not return within 10s", "c03-no-return"
		}
		r.mu.Lock()
		for i := 0; i < inner; i++ {
			if c := r.n[fmt.Sprintf("x%d", i)]; c != 1 && bad == "" {
				bad = fmt.Sprintf("repetition %d: inner stage x%d was executed %d times", rep, i, c)
			}
		}
		r.mu.Unlock()
	}
	cs.Impl = "once=" + fmt.Sprint(bad == "")
	if bad != "" && cs.Fail == "" {
		cs.Fail, cs.Sig = bad, "c03-twice"
	}
	col.Add(cs)
}

// a runner whose tasks named p* wait for each other (all k of them inside Run) and then return at the same instant;
// every other task returns at once; executions are counted per task name
type barrierRunner struct {
	mu      sync.Mutex
	n       map[string]int
	k       int
	waiting int
	release chan struct{}
	fail    string // the task of this name fails
}

func (r *barrierRunner) Run(t *task.Task) error {
	r.mu.Lock()
	r.n[t.Name]++
	if !strings.HasPrefix(t.Name, "p") {
		r.mu.Unlock()
		return nil
	}
	r.waiting++
	ch := r.release
	if r.waiting == r.k {
		close(r.release)
	}
	r.mu.Unlock()
	select {
	case <-ch:
	case <-time.After(5 * time.Second):
	}
	if t.Name == r.fail {
		return fmt.Errorf("task %s failed", t.Name)
	}
	return nil
}
func (r *barrierRunner) Cancel() {}
func (r *barrierRunner) Finish() {}

// fan-in: k stages with no dependency between them finish at the same instant, a stage x depends on all of them (and y
// on x): whoever notices that x has become eligible - the loop, a goroutine finishing a parent - x is executed once.
// As a plain pipeline and included by three stages of an outer one.
func fanInStressCase(col *Collector, k, reps int, included bool) {
	cs := Case{Replay: fmt.Sprintf("fan-in: %d parents released at the same instant, x depends on all of them, y on x; %d repetitions; pipeline included by three stages: %v", k, reps, included),
		Tags: []string{"fan-in-stress"}, NonTrivial: true}
	bad := ""
	for rep := 0; rep < reps && bad == "" && cs.Fail == ""; rep++ {
		var ps []*scheduler.Stage
		var deps []string
		for i := 0; i < k; i++ {
			t := task.NewTask()
			t.Name = fmt.Sprintf("p%d", i)
			ps = append(ps, &scheduler.Stage{Name: t.Name, Task: t})
			deps = append(deps, t.Name)
		}
		tx, ty := task.NewTask(), task.NewTask()
		tx.Name, ty.Name = "x", "y"
		ps = append(ps, &scheduler.Stage{Name: "x", Task: tx, DependsOn: deps}, &scheduler.Stage{Name: "y", Task: ty, DependsOn: []string{"x"}})
		g, err := scheduler.NewExecutionGraph(ps...)
		if err == nil && included {
			g, err = scheduler.NewExecutionGraph(&scheduler.Stage{Name: "i0", Pipeline: g}, &scheduler.Stage{Name: "i1", Pipeline: g}, &scheduler.Stage{Name: "i2", Pipeline: g})
		}
		if err != nil {
			cs.Fail, cs.Sig = err.Error(), "sched-setup"
			break
		}
		r := &barrierRunner{n: map[string]int{}, k: k, release: make(chan struct{})}
		sd := scheduler.NewScheduler(r)
		sd.VerifSetPause(200 * time.Microsecond)
		done := make(chan error, 1)
		go func() { done <- sd.Schedule(g) }()
		select {
		case <-done:
		case <-time.After(20 * time.Second):
			cs.Fail, cs.Sig = "Schedule did not return within 20s", "c03-no-return"
		}
		r.mu.Lock()
		for name, c := range r.n {
			if c != 1 && bad == "" {
				bad = fmt.Sprintf("repetition %d: stage %s was executed %d times", rep, name, c)
			}
		}
		if len(r.n) != k+2 && bad == "" && cs.Fail == "" {
			bad = fmt.Sprintf("repetition %d: %d of the %d stages were executed", rep, len(r.n), k+2)
		}
		r.mu.Unlock()
	}
	cs.Impl = "once=" + fmt.Sprint(bad == "")
	if bad != "" && cs.Fail == "" {
		cs.Fail, cs.Sig = bad, "c03-twice"
	}
	col.Add(cs)
}

// k independent stages end at the same instant, ONE of them failing; each has a dependant of its own: the failure is the
// failing stage's and nobody else's - the run reports it, its dependant is cancelled and never runs, every other
// dependant runs once
func simultaneousFailureCase(col *Collector, k, reps int) {
	// four independent series side by side (the window is a few instructions wide: it takes thousands of repetitions)
	var wg sync.WaitGroup
	for w := 0; w < 4; w++ {
		wg.Add(1)
		go func() {
			defer wg.Done()
			simultaneousFailureSeries(col, k, reps/4)
		}()
	}
	wg.Wait()
}

func simultaneousFailureSeries(col *Collector, k, reps int) {
	cs := Case{Replay: fmt.Sprintf("%d independent stages released at the same instant, p0 fails; each has one dependant; %d repetitions", k, reps), Tags: []string{"simultaneous-failure"}, NonTrivial: true}
	bad := ""
	for rep := 0; rep < reps && bad == "" && cs.Fail == ""; rep++ {
		var ps []*scheduler.Stage
		for i := 0; i < k; i++ {
			t, d := task.NewTask(), task.NewTask()
			t.Name, d.Name = fmt.Sprintf("p%d", i), fmt.Sprintf("d%d", i)
			ps = append(ps, &scheduler.Stage{Name: t.Name, Task: t}, &scheduler.Stage{Name: d.Name, Task: d, DependsOn: []string{t.Name}})
		}
		g, err := scheduler.NewExecutionGraph(ps...)
		if err != nil {
			cs.Fail, cs.Sig = err.Error(), "sched-setup"
			break
		}
		r := &barrierRunner{n: map[string]int{}, k: k, release: make(chan struct{}), fail: "p0"}
		sd := scheduler.NewScheduler(r)
		sd.VerifSetPause(20 * time.Microsecond)
		done := make(chan error, 1)
		go func() { done <- sd.Schedule(g) }()
		var serr error
		select {
		case serr = <-done:
		case <-time.After(20 * time.Second):
			cs.Fail, cs.Sig = "Schedule did not return within 20s", "c03-no-return"
			continue
		}
		nodes := g.Nodes()
		r.mu.Lock()
		switch {
		case serr == nil:
			bad = fmt.Sprintf("repetition %d: stage p0 failed and the run reported no error", rep)
		case nodes["p0"].ReadStatus() != scheduler.StatusError:
			bad = fmt.Sprintf("repetition %d: the failing stage p0 ended with status %d", rep, nodes["p0"].ReadStatus())
		case nodes["d0"].ReadStatus() != scheduler.StatusCanceled || r.n["d0"] != 0:
			bad = fmt.Sprintf("repetition %d: the dependant of the failing stage ended with status %d after %d executions", rep, nodes["d0"].ReadStatus(), r.n["d0"])
		default:
			for i := 1; i < k && bad == ""; i++ {
				p, d := fmt.Sprintf("p%d", i), fmt.Sprintf("d%d", i)
				if nodes[p].ReadStatus() != scheduler.StatusDone || nodes[d].ReadStatus() != scheduler.StatusDone || r.n[d] != 1 {
					bad = fmt.Sprintf("repetition %d: stage %s succeeded; it ended with status %d, its dependant with status %d after %d executions", rep, p, nodes[p].ReadStatus(), nodes[d].ReadStatus(), r.n[d])
				}
			}
		}
		r.mu.Unlock()
	}
	cs.Impl = "as-determined=" + fmt.Sprint(bad == "")
	if bad != "" && cs.Fail == "" {
		cs.Fail, cs.Sig = bad, "c02-final-status"
	}
	col.Add(cs)
}

// a runner that records, for every task whose name begins with "l", whether all tasks whose names begin with "r" had
// ended when it started; r-tasks last a moment
type orderRunner struct {
	mu    sync.Mutex
	roots int
	ended int
	early []string
	n     map[string]int
}

func (r *orderRunner) Run(t *task.Task) error {
	r.mu.Lock()
	r.n[t.Name]++
	if strings.HasPrefix(t.Name, "l") && r.ended < r.roots {
		r.early = append(r.early, fmt.Sprintf("%s started when %d of %d of its dependencies had finished", t.Name, r.ended, r.roots))
	}
	r.mu.Unlock()
	if strings.HasPrefix(t.Name, "r") {
		time.Sleep(150 * time.Microsecond)
		r.mu.Lock()
		r.ended++
		r.mu.Unlock()
	}
	return nil
}
func (r *orderRunner) Cancel() {}
func (r *orderRunner) Finish() {}

// a wide pipeline (8 roots, 12 leaves each depending on all roots) included by two stages eligible together: two loops
// begin to work on one graph within microseconds of each other; no leaf starts before all roots have finished
func includedWideOrderCase(col *Collector, reps int) {
	cs := Case{Replay: fmt.Sprintf("pipeline P (8 roots, 12 leaves depending on all of them) included by two stages with no dependency between them, %d repetitions", reps), Tags: []string{"nested", "nested-included-in-parallel", "wide"}, NonTrivial: true}
	bad := ""
	for rep := 0; rep < reps && bad == "" && cs.Fail == ""; rep++ {
		var ps []*scheduler.Stage
		var roots []string
		for i := 0; i < 8; i++ {
			t := task.NewTask()
			t.Name = fmt.Sprintf("r%d", i)
			roots = append(roots, t.Name)
			ps = append(ps, &scheduler.Stage{Name: t.Name, Task: t})
		}
		for i := 0; i < 12; i++ {
			t := task.NewTask()
			t.Name = fmt.Sprintf("l%d", i)
			ps = append(ps, &scheduler.Stage{Name: t.Name, Task: t, DependsOn: roots})
		}
		p, err := scheduler.NewExecutionGraph(ps...)
		var g *scheduler.ExecutionGraph
		if err == nil {
			g, err = scheduler.NewExecutionGraph(&scheduler.Stage{Name: "I0", Pipeline: p}, &scheduler.Stage{Name: "I1", Pipeline: p})
		}
		if err != nil {
			cs.Fail, cs.Sig = err.Error(), "sched-setup"
			break
		}
		r := &orderRunner{roots: 8, n: map[string]int{}}
		sd := scheduler.NewScheduler(r)
		sd.VerifSetPause(50 * time.Microsecond)
		done := make(chan error, 1)
		go func() { done <- sd.Schedule(g) }()
		select {
		case <-done:
		case <-time.After(20 * time.Second):
			cs.Fail, cs.Sig = "Schedule did not return within 20s", "c03-no-return"
			continue
		}
		r.mu.Lock()
		if len(r.early) > 0 {
			bad = fmt.Sprintf("repetition %d: %s", rep, r.early[0])
		}
		r.mu.Unlock()
	}
	cs.Impl = "in-order=" + fmt.Sprint(bad == "")
	if bad != "" && cs.Fail == "" {
		cs.Fail, cs.Sig = bad, "c01-early-start"
	}
	col.Add(cs)
}

// one task shared by several stages (told apart by a stage variable), run by the REAL runner: the outcome of a stage
// is that of its own execution, whatever an earlier execution of the same task left behind
func sharedTaskHistoryCase(col *Collector, variant int) {
	shared := task.FromCommands("exit {{.Code}}")
	shared.Name = "shared"
	mkStage := func(name, code string, allow bool, deps ...string) *scheduler.Stage {
		return &scheduler.Stage{Name: name, Task: shared, AllowFailure: allow, DependsOn: deps, Variables: variables.FromMap(map[string]string{"Code": code})}
	}
	slow := task.FromCommands("sleep 0.3")
	slow.Name = "slow"
	var stages []*scheduler.Stage
	var want map[string]int32
	wantErr := false
	desc := ""
	switch variant {
	case 0:
		desc = "a (exit 3, allow_failure) -> b (exit 0) -> c (exit 0)"
		stages = []*scheduler.Stage{mkStage("a", "3", true), mkStage("b", "0", false, "a"), mkStage("c", "0", false, "b")}
		want = map[string]int32{"a": scheduler.StatusDone, "b": scheduler.StatusDone, "c": scheduler.StatusDone}
	case 1:
		desc = "a (exit 3) alone; slow -> e (exit 0) -> f (exit 0): e starts after a failed"
		stages = []*scheduler.Stage{mkStage("a", "3", false), {Name: "slow", Task: slow}, mkStage("e", "0", false, "slow"), mkStage("f", "0", false, "e")}
		want = map[string]int32{"a": scheduler.StatusError, "slow": scheduler.StatusDone, "e": scheduler.StatusDone, "f": scheduler.StatusDone}
		wantErr = true
	default:
		desc = "a (exit 0) -> b (exit 4, allow_failure) -> c (exit 0) -> d (exit 5) -> e (exit 0)"
		stages = []*scheduler.Stage{mkStage("a", "0", false), mkStage("b", "4", true, "a"), mkStage("c", "0", false, "b"), mkStage("d", "5", false, "c"), mkStage("e", "0", false, "d")}
		want = map[string]int32{"a": scheduler.StatusDone, "b": scheduler.StatusDone, "c": scheduler.StatusDone, "d": scheduler.StatusError, "e": scheduler.StatusCanceled}
		wantErr = true
	}
	cs := Case{Replay: "one task `exit {{.Code}}` shared by the stages: " + desc, Tags: []string{"shared-task-history"}, NonTrivial: true}
	g, err := scheduler.NewExecutionGraph(stages...)
	if err != nil {
		cs.Fail, cs.Sig = err.Error(), "sched-setup"
		col.Add(cs)
		return
	}
	r, err := runner.NewTaskRunner()
	if err != nil {
		cs.Fail, cs.Sig = err.Error(), "sched-setup"
		col.Add(cs)
		return
	}
	r.Stdout, r.Stderr = devNull{}, devNull{}
	sd := scheduler.NewScheduler(r)
	sd.VerifSetPause(time.Millisecond)
	done := make(chan error, 1)
	go func() { done <- sd.Schedule(g) }()
	var serr error
	select {
	case serr = <-done:
	case <-time.After(15 * time.Second):
		cs.Fail, cs.Sig = "Schedule did not return within 15s", "c03-no-return"
	}
	var got []string
	for _, st := range stages {
		got = append(got, fmt.Sprintf("%s=%d", st.Name, st.ReadStatus()))
		if cs.Fail == "" && st.ReadStatus() != want[st.Name] {
			cs.Fail, cs.Sig = fmt.Sprintf("stage %s ended with status %d, the graph and the outcomes determine %d", st.Name, st.ReadStatus(), want[st.Name]), "c02-final-status"
		}
	}
	cs.Impl = strings.Join(got, ",") + fmt.Sprintf(" err=%v", serr != nil)
	if cs.Fail == "" && (serr != nil) != wantErr {
		cs.Fail, cs.Sig = fmt.Sprintf("the run reported error=%v, expected %v", serr != nil, wantErr), "c02-error-flag"
	}
	col.Add(cs)
}
