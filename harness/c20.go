package main

import (
	"fmt"
	"math/rand"
	"os"
	"os/exec"
	"path/filepath"
	"sort"
	"strings"
	"time"

	"github.com/bmatcuk/doublestar"

	"github.com/taskctl/taskctl/pkg/task"
	"github.com/taskctl/taskctl/pkg/verifhooks"
)

func init() { props["C20"] = runC20 }

// ---- reference semantics of the glob grammar (literal segments, *, ?, ** as a whole segment) ----

func segMatch(p, s string) bool {
	if p == "" {
		return s == ""
	}
	switch p[0] {
	case '*':
		for i := 0; i <= len(s); i++ {
			if segMatch(p[1:], s[i:]) {
				return true
			}
		}
		return false
	case '?':
		return s != "" && segMatch(p[1:], s[1:])
	}
	return s != "" && s[0] == p[0] && segMatch(p[1:], s[1:])
}

func segsMatch(ps, ss []string) bool {
	if len(ps) == 0 {
		return len(ss) == 0
	}
	if ps[0] == "**" {
		if len(ps) == 1 {
			return len(ss) > 0 // a trailing ** swallows one or more segments
		}
		if segsMatch(ps[1:], ss) {
			return true
		}
		return len(ss) > 0 && segsMatch(ps, ss[1:])
	}
	return len(ss) > 0 && segMatch(ps[0], ss[0]) && segsMatch(ps[1:], ss[1:])
}

func globMatch(pattern, path string) bool {
	return segsMatch(strings.Split(pattern, "/"), strings.Split(path, "/"))
}

type treeSpec struct {
	paths []string // relative paths of files; directories are implied
}

func (t treeSpec) all() []string {
	set := map[string]bool{}
	for _, p := range t.paths {
		set[p] = true
		for d := filepath.Dir(p); d != "."; d = filepath.Dir(d) {
			set[d] = true
		}
	}
	var out []string
	for p := range set {
		out = append(out, p)
	}
	sort.Strings(out)
	return out
}

func genTree(rng *rand.Rand) treeSpec {
	names := []string{"a", "b", "ab", "x.go", "y.go", ".hid", "main.txt", "c"}
	var t treeSpec
	n := 1 + rng.Intn(12)
	seen := map[string]bool{}
	for i := 0; i < n; i++ {
		depth := rng.Intn(3)
		var parts []string
		for d := 0; d < depth; d++ {
			parts = append(parts, []string{"a", "b", "src", "d"}[rng.Intn(4)])
		}
		parts = append(parts, names[rng.Intn(len(names))])
		p := strings.Join(parts, "/")
		// a path is either a file or a directory, not both
		ok := !seen[p]
		for q := range seen {
			if strings.HasPrefix(q, p+"/") || strings.HasPrefix(p, q+"/") {
				ok = ok && !contains(t.paths, q) || strings.HasPrefix(q, p+"/") && false
			}
		}
		for _, q := range t.paths {
			if strings.HasPrefix(q, p+"/") || strings.HasPrefix(p, q+"/") || q == p {
				ok = false
			}
		}
		if ok {
			seen[p] = true
			t.paths = append(t.paths, p)
		}
	}
	return t
}

func genPattern(rng *rand.Rand) string {
	segs := []string{"a", "b", "src", "*", "**", "*.go", "?", "a*", "*b", "x.go", "main.*", ".*", "??", "d", "c"}
	n := 1 + rng.Intn(3)
	var parts []string
	for i := 0; i < n; i++ {
		parts = append(parts, segs[rng.Intn(len(segs))])
		// now and then a run of adjacent "**" of any length
		if parts[len(parts)-1] == "**" && rng.Intn(3) == 0 {
			for k := rng.Intn(4); k > 0; k-- {
				parts = append(parts, "**")
			}
		}
	}
	return strings.Join(parts, "/")
}

// selections that failed in the past (kept minimal), run before the generated ones
var selectCorpus = []struct {
	files    []string
	inc, exc []string
}{
	// adjacent "**" components: doublestar.Glob read the second one as "*" (fixed in NewWatcher)
	{[]string{"a", "b/a", "b/d", "main.txt"}, []string{"**/**/?"}, nil},
	{[]string{"x.go", "a/x.go", "a/b/x.go", "y.go"}, []string{"**/**/x.go"}, nil},
	{[]string{"a/x.go", "a/b/x.go", "a/b/d/x.go", "x.go"}, []string{"a/**/**/x.go"}, []string{"**/d/**"}},
	{[]string{"a/x.go", "b", "src/a/y.go"}, []string{"**/**"}, []string{"**/**/y.go"}},
	{[]string{"a/x.go", "b", "src/a/y.go"}, []string{"**/**/**/*.go"}, nil},
	{[]string{"a/x.go", "a/b/c", "b"}, []string{"a/**/**"}, nil},
	// runs of three and more adjacent "**"
	{[]string{"x", "a/x", "a/b/x", "y"}, []string{"**/**/**/x"}, nil},
	{[]string{"x", "a/x", "a/b/x", "y"}, []string{"**/**/**/**/x"}, nil},
	{[]string{"a/x.go", "a/b/x.go", "x.go"}, []string{"a/**/**/**/*.go"}, []string{"**/**/**/b/**"}},
	{[]string{"a/x.go", "b", "src/a/y.go"}, []string{"**/**/**/**/**"}, nil},
	// several include patterns that look related as STRINGS (one is a prefix of the other, one "covers" the other)
	{[]string{"src/a.go", "src/d/e.go", "srcgen/b.go", "srcgen/c.txt", "x.go"}, []string{"src/**", "srcgen/*.go"}, nil},
	{[]string{"src/a.go", "src/d/e.go", "srcgen/b.go", "srcgen/c.txt", "x.go"}, []string{"srcgen/*.go", "src/**"}, []string{"**/e.go"}},
	{[]string{"a/x", "ab/y", "ab/d/z", "b"}, []string{"a/**", "ab/*"}, nil},
	{[]string{"a/x.go", "x.go", "b/y.txt", "main.txt"}, []string{"*/**", "*.go"}, nil},
	{[]string{"a/x.go", "x.go", "b/y.txt", "main.txt"}, []string{"*/**", "**"}, []string{"main.*"}},
	{[]string{"src/a.go", "src/d/e.go", "src/d/f.txt", "x.go"}, []string{"src/**", "src/*.go", "src/**/*.txt"}, nil},
	{[]string{"a/x.go", "a/b/y.go", "b/a/z.go"}, []string{"a/**", "**/a/*.go", "a"}, []string{"a/b/**"}},
}

func selectCase(col *Collector, rng *rand.Rand) {
	tree := genTree(rng)
	var inc, exc []string
	for k := 1 + rng.Intn(2); k > 0; k-- {
		inc = append(inc, genPattern(rng))
	}
	for k := rng.Intn(3); k > 0; k-- {
		exc = append(exc, genPattern(rng))
	}
	selectCaseOn(col, tree, inc, exc)
}

func selectCaseOn(col *Collector, tree treeSpec, inc, exc []string) {
	root := newScratchDir("c20")
	defer os.RemoveAll(root)
	for _, p := range tree.paths {
		os.MkdirAll(filepath.Join(root, filepath.Dir(p)), 0755)
		os.WriteFile(filepath.Join(root, p), []byte("x"), 0644)
	}
	abs := func(ps []string) []string {
		out := make([]string, len(ps))
		for i, p := range ps {
			out[i] = root + "/" + p
		}
		return out
	}
	cs := Case{Tags: []string{"select"}, NonTrivial: true}
	cs.Line = fmt.Sprintf("select inc=%s exc=%s tree=%s", strings.Join(inc, ","), strings.Join(append([]string{"-"}, exc...), ","), strings.Join(tree.all(), ","))
	cs.Replay = cs.Line
	t := task.FromCommands("true")
	t.Name = "t"
	var got []string
	func() {
		defer func() {
			if p := recover(); p != nil {
				cs.Fail, cs.Sig = fmt.Sprint("NewWatcher panicked: ", p), "c20-panic"
			}
		}()
		w, err := verifhooks.NewWatcher("w", nil, abs(inc), abs(exc), t)
		if err != nil {
			cs.Fail, cs.Sig = "NewWatcher failed: "+err.Error(), "c20-newwatcher"
			return
		}
		for _, p := range w.VerifPaths() {
			rel, _ := filepath.Rel(root, p)
			got = append(got, rel)
		}
		go w.Close() // releases the inotify instance (Close waits for a Run that never happened)
	}()
	sort.Strings(got)
	// de-duplicate: a path matched by two include patterns is listed twice by NewWatcher (harmless: Add is idempotent)
	var uniq []string
	for i, g := range got {
		if i == 0 || g != got[i-1] {
			uniq = append(uniq, g)
		}
	}
	var want []string
	for _, p := range tree.all() {
		in := false
		for _, i := range inc {
			if globMatch(i, p) {
				in = true
			}
		}
		for _, e := range exc {
			if globMatch(e, p) {
				in = false
			}
		}
		if in {
			want = append(want, p)
		}
	}
	cs.Impl = strings.Join(uniq, ",")
	if cs.Fail == "" && strings.Join(uniq, ",") != strings.Join(want, ",") {
		cs.Fail, cs.Sig = fmt.Sprintf("watcher observes %v, the include/exclude patterns select %v", uniq, want), "c20-selection"
	}
	col.Add(cs)
}

func matchCase(col *Collector, pattern, path string) {
	got, err := doublestar.PathMatch(pattern, path)
	cs := Case{Line: fmt.Sprintf("glob %s %s", pattern, path), Tags: []string{"match"}, NonTrivial: strings.Contains(pattern, "*") || strings.Contains(pattern, "?")}
	cs.Impl = fmt.Sprint(got)
	if err != nil {
		cs.Impl = "error"
	}
	if want := globMatch(pattern, path); err == nil && got != want {
		cs.Fail, cs.Sig = fmt.Sprintf("PathMatch(%q, %q) = %v, the glob grammar says %v", pattern, path, got, want), "c20-match"
	}
	col.Add(cs)
}

func runC20(col *Collector, tier string, seed int64) {
	rng := rand.New(rand.NewSource(seed))
	col.res.Rule = "glob grammar (literal segments, *, ?, ** as a whole segment): every pair of 200 generated patterns x 40 paths against doublestar.PathMatch and the oracle; watch.NewWatcher on generated trees (<=3 levels, <=12 files, dot-files) with 1-2 include and 0-2 exclude patterns: observed paths vs the selection; " +
		"event filter: every subset of the five event types x every event type; real inotify runs of `taskctl watch`. non-trivial = patterns with wildcards / all selections; distinct = distinct (pattern, path) / (tree, patterns)"
	np, nsel := 60, 150
	if tier == "thorough" {
		np, nsel = 400, 3000
	}
	var pats []string
	for i := 0; i < np; i++ {
		pats = append(pats, genPattern(rng))
	}
	paths := []string{"a", "b", "ab", "a/b", "a/x.go", "src/x.go", "src/a/y.go", "a/b/c", ".hid", "a/.hid", "main.txt", "src/main.txt", "x.go", "b/a", "d/d/d", "a/a/a", "c", "src", "src/a", "ba"}
	for _, p := range pats {
		for _, s := range paths {
			matchCase(col, p, s)
		}
	}
	for _, c := range selectCorpus {
		selectCaseOn(col, treeSpec{paths: c.files}, c.inc, c.exc)
	}
	for i := 0; i < nsel; i++ {
		selectCase(col, rng)
	}
	// the same through a `watchers:` section (patterns relative to the start directory; bare names, no "/")
	nvc := 30
	if tier == "thorough" {
		nvc = 400
	}
	for _, c := range selectCorpus {
		selectViaConfigCase(col, treeSpec{paths: c.files}, c.inc, c.exc)
	}
	selectViaConfigCase(col, treeSpec{paths: []string{"a.log", "src/b.log", "src/c.go", "src/d/e.log", "x.go"}}, []string{"**/*", "*"}, []string{"*.log"})
	selectViaConfigCase(col, treeSpec{paths: []string{"a", "d/a", "d/b", "b"}}, []string{"**/?", "?"}, []string{"a"})
	for i := 0; i < nvc; i++ {
		tree := genTree(rng)
		var inc, exc []string
		for k := 1 + rng.Intn(2); k > 0; k-- {
			inc = append(inc, genPattern(rng))
		}
		for k := 1 + rng.Intn(2); k > 0; k-- {
			exc = append(exc, genPattern(rng))
		}
		selectViaConfigCase(col, tree, inc, exc)
	}
	eventFilterCases(col)
	stressRounds := map[bool]int{false: 250, true: 2500}[tier == "thorough"]
	eventBindingStressCase(col, 4, stressRounds, false)
	eventBindingStressCase(col, 8, stressRounds/2, false)
	eventBindingStressCase(col, 4, stressRounds, true)
	if os.Getenv("VERIF_SKIP_INOTIFY") == "" {
		watchRunCases(col, tier, rng)
	}
	_ = time.Second
}

// ---- path selection of a watcher declared in a configuration file, with patterns relative to the start directory ----

func init() { childFns["watchsel"] = watchSelChild }

// child process (its working directory is the tree's root): load the configuration, print what watcher "w" observes
func watchSelChild(args []string) {
	cl := verifhooks.NewConfigLoader(verifhooks.NewConfig())
	cfg, err := cl.Load(args[0])
	if err != nil {
		fmt.Println("ERROR " + err.Error())
		return
	}
	w := cfg.Watchers["w"]
	if w == nil {
		fmt.Println("ERROR no watcher")
		return
	}
	for _, p := range w.VerifPaths() {
		fmt.Println("PATH " + p)
	}
	fmt.Println("END")
}

func selectViaConfigCase(col *Collector, tree treeSpec, inc, exc []string) {
	root := newScratchDir("c20c")
	defer os.RemoveAll(root)
	for _, p := range tree.paths {
		os.MkdirAll(filepath.Join(root, filepath.Dir(p)), 0755)
		os.WriteFile(filepath.Join(root, p), []byte("x"), 0644)
	}
	q := func(ps []string) string {
		var out []string
		for _, p := range ps {
			out = append(out, fmt.Sprintf("%q", p))
		}
		return "[" + strings.Join(out, ", ") + "]"
	}
	// the configuration lives outside the tree so that it is not itself matched
	cfgDir := newScratchDir("c20cc")
	defer os.RemoveAll(cfgDir)
	cfgPath := filepath.Join(cfgDir, "w.yaml")
	os.WriteFile(cfgPath, []byte(fmt.Sprintf("tasks:\n  t:\n    command: [\"true\"]\nwatchers:\n  w:\n    task: t\n    watch: %s\n    exclude: %s\n", q(inc), q(exc))), 0644)
	cs := Case{Tags: []string{"select", "select-via-config"}, NonTrivial: true}
	cs.Line = fmt.Sprintf("select inc=%s exc=%s tree=%s", strings.Join(inc, ","), strings.Join(append([]string{"-"}, exc...), ","), strings.Join(tree.all(), ","))
	cs.Replay = "watcher declared in a configuration file, patterns relative to the start directory: " + cs.Line
	self, _ := os.Executable()
	cmd := exec.Command(self, "-child", "watchsel", cfgPath)
	cmd.Dir = root
	cmd.Env = append(os.Environ(), "HOME="+cfgDir)
	out, err := cmd.Output()
	var got []string
	ended := false
	for _, l := range strings.Split(string(out), "\n") {
		switch {
		case strings.HasPrefix(l, "PATH "):
			got = append(got, filepath.Clean(strings.TrimPrefix(l, "PATH ")))
		case l == "END":
			ended = true
		case strings.HasPrefix(l, "ERROR "):
			cs.Fail, cs.Sig = "watcher from configuration: "+l, "c20-newwatcher"
		}
	}
	if !ended && cs.Fail == "" {
		cs.Fail, cs.Sig = fmt.Sprintf("child did not finish: %v", err), "c20-panic"
	}
	sort.Strings(got)
	var uniq []string
	for i, g := range got {
		if i == 0 || g != got[i-1] {
			uniq = append(uniq, g)
		}
	}
	var want []string
	for _, p := range tree.all() {
		in := false
		for _, i := range inc {
			if globMatch(i, p) {
				in = true
			}
		}
		for _, e := range exc {
			if globMatch(e, p) {
				in = false
			}
		}
		if in {
			want = append(want, p)
		}
	}
	cs.Impl = strings.Join(uniq, ",")
	if cs.Fail == "" && strings.Join(uniq, ",") != strings.Join(want, ",") {
		cs.Fail, cs.Sig = fmt.Sprintf("watcher observes %v, the include/exclude patterns select %v", uniq, want), "c20-selection"
	}
	col.Add(cs)
}
