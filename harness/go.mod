module verifharness

go 1.16

require (
	github.com/bmatcuk/doublestar v1.1.5
	github.com/fsnotify/fsnotify v1.4.9
	github.com/logrusorgru/aurora v0.0.0-20191017060258-dc85c304c434
	github.com/pelletier/go-toml v1.8.0
	github.com/sirupsen/logrus v1.4.2
	github.com/taskctl/taskctl v0.0.0
	gopkg.in/yaml.v2 v2.3.0
)

replace github.com/taskctl/taskctl => /repo
