module verifharness

go 1.16

require (
	github.com/sirupsen/logrus v1.4.2
	github.com/taskctl/taskctl v0.0.0
)

replace github.com/taskctl/taskctl => /repo
