package main

import (
	"fmt"
	"math/rand"
	"sort"
	"strings"

	"github.com/taskctl/taskctl/pkg/variables"
)

// The variables container against Model/VarsHeap.lean: random operation sequences on a heap of real containers
// (Set, Get, Has, Map, Merge, With; a container is also merged with / into itself, and containers that took part
// in a Merge or a With are modified afterwards - the result must not change, nor the originals).
func varsOpsCases(col *Collector, rng *rand.Rand, n int, sig string) {
	keys := []string{"a", "b", "c", "TASK_NAME", "_"}
	vals := []string{"x", "y", "z", "_", "1"}
	un := func(s string) string {
		if s == "_" {
			return ""
		}
		return s
	}
	for i := 0; i < n; i++ {
		var heap []variables.Container
		var ref []map[string]string // what a plain map per container would hold (an oracle independent of the model)
		var line, impl []string
		fail := ""
		same := func(c int) {
			m := heap[c].Map()
			ok := len(m) == len(ref[c])
			for k, v := range ref[c] {
				if got, has := m[k]; !has || fmt.Sprint(got) != v {
					ok = false
				}
			}
			if !ok && fail == "" {
				fail = fmt.Sprintf("container %d holds %v, the operations applied to it give %v (an operation on another container changed it, or Merge / With / Set did not do what a map does)", c, m, ref[c])
			}
		}
		clone := func(m map[string]string) map[string]string {
			o := map[string]string{}
			for k, v := range m {
				o[k] = v
			}
			return o
		}
		nops := 10 + rng.Intn(30)
		func() {
			defer func() {
				if p := recover(); p != nil {
					impl = append(impl, fmt.Sprint("PANIC ", p))
				}
			}()
			for j := 0; j < nops; j++ {
				k, v := keys[rng.Intn(len(keys))], vals[rng.Intn(len(vals))]
				c := 0
				if len(heap) > 0 {
					c = rng.Intn(len(heap) + 1) // sometimes an index that does not exist
				}
				op := rng.Intn(10)
				if len(heap) == 0 {
					op = 0
				}
				bad := c >= len(heap)
				switch op {
				case 0:
					line = append(line, "n")
					if rng.Intn(2) == 0 {
						heap = append(heap, variables.NewVariables())
					} else {
						heap = append(heap, variables.FromMap(map[string]string{}))
					}
					ref = append(ref, map[string]string{})
					impl = append(impl, fmt.Sprint(len(heap)-1))
				case 1, 2, 3:
					line = append(line, fmt.Sprintf("s%d:%s=%s", c, k, v))
					if bad {
						impl = append(impl, "bad")
					} else {
						heap[c].Set(un(k), un(v))
						ref[c][un(k)] = un(v)
						impl = append(impl, "ok")
					}
				case 4:
					line = append(line, fmt.Sprintf("g%d:%s", c, k))
					if bad {
						impl = append(impl, "bad")
					} else {
						impl = append(impl, fmt.Sprintf("=%v", heap[c].Get(un(k))))
					}
				case 5:
					line = append(line, fmt.Sprintf("h%d:%s", c, k))
					if bad {
						impl = append(impl, "bad")
					} else if heap[c].Has(un(k)) {
						impl = append(impl, "yes")
					} else {
						impl = append(impl, "no")
					}
				case 6, 7:
					b := rng.Intn(len(heap) + 1)
					line = append(line, fmt.Sprintf("m%d,%d", c, b))
					if bad || b >= len(heap) {
						impl = append(impl, "bad")
					} else {
						heap = append(heap, heap[c].Merge(heap[b]))
						r := clone(ref[c])
						for kk, vv := range ref[b] {
							r[kk] = vv
						}
						ref = append(ref, r)
						impl = append(impl, fmt.Sprint(len(heap)-1))
					}
				case 8:
					line = append(line, fmt.Sprintf("w%d:%s=%s", c, k, v))
					if bad {
						impl = append(impl, "bad")
					} else {
						heap = append(heap, heap[c].With(un(k), un(v)))
						r := clone(ref[c])
						r[un(k)] = un(v)
						ref = append(ref, r)
						impl = append(impl, fmt.Sprint(len(heap)-1))
					}
				case 9:
					line = append(line, fmt.Sprintf("d%d", c))
					if bad {
						impl = append(impl, "bad")
					} else {
						m := heap[c].Map()
						var es []string
						for kk, vv := range m {
							es = append(es, fmt.Sprintf("%s=%v", kk, vv))
						}
						sort.Strings(es)
						impl = append(impl, "{"+strings.Join(es, ",")+"}")
					}
				}
			}
			// at the end: every container once more, so that a late effect on an earlier container shows
			for c := range heap {
				same(c)
				line = append(line, fmt.Sprintf("d%d", c))
				m := heap[c].Map()
				var es []string
				for kk, vv := range m {
					es = append(es, fmt.Sprintf("%s=%v", kk, vv))
				}
				sort.Strings(es)
				impl = append(impl, "{"+strings.Join(es, ",")+"}")
			}
		}()
		cs := Case{Line: "varsops " + strings.Join(line, " "), Impl: strings.Join(impl, "|"), Tags: []string{"container-ops", fmt.Sprintf("containers=%d", len(heap))}, NonTrivial: true}
		cs.Replay = cs.Line
		if fail != "" {
			cs.Fail, cs.Sig = fail, sig
		}
		col.Add(cs)
	}
}
