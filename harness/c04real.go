package main

import (
	"fmt"
	"math/rand"
	"os"
	"path/filepath"
	"runtime"
	"strings"
	"time"

	"github.com/taskctl/taskctl/pkg/runner"
	"github.com/taskctl/taskctl/pkg/scheduler"
	"github.com/taskctl/taskctl/pkg/task"
	"github.com/taskctl/taskctl/pkg/variables"
)

// C04 with the REAL task runner, contexts and shell: k stages with no dependency between them rendezvous
// through files - each one announces itself and then waits until all k have announced themselves. If the
// runner, a context or the executor serialises them (or lets only some run together) the barrier is never
// reached and the stages give up with status 7.

type c04RealSpec struct {
	k       int    // width of the fan-out
	ctx     string // "none" (default context), "shared" (one named context), "own" (one named context each), "mixed"
	root    bool   // a common dependency finishes first
	hooks   bool   // the shared context has before/after hooks, the tasks have before hooks
	skipMid bool   // one more stage, with a false condition, between the root and one of the stages
	inter   bool   // the tasks are declared interactive
	same    bool   // ONE task (one name, one *task.Task) used by all k stages, told apart by the stage's env
	where   string // "" the tasks meet in their command; "before" / "after": in that hook of the task, after printing a line; "ctx-up" / "ctx-before" (ctx=own): in the up commands / before hook of each stage's own context
}

func (s c04RealSpec) line() string {
	return fmt.Sprintf("barrier k=%d ctx=%s root=%v hooks=%v skipMid=%v interactive=%v one-task-in-all-stages=%v meet-in=%q", s.k, s.ctx, s.root, s.hooks, s.skipMid, s.inter, s.same, s.where)
}

func c04RealCase(col *Collector, s c04RealSpec) {
	timedCases(col, func(col *Collector) { c04RealCase1(col, s) })
}

func c04RealCase1(col *Collector, s c04RealSpec) {
	dir := newScratchDir("c04r")
	defer os.RemoveAll(dir)
	cs := Case{Replay: s.line(), Tags: []string{"real-runner", "ctx=" + s.ctx, fmt.Sprintf("k=%d", s.k)}, NonTrivial: true}
	metDir := newScratchDir("c04m")
	defer os.RemoveAll(metDir)
	ctxs := map[string]*runner.ExecutionContext{}
	hook := []string(nil)
	if s.hooks {
		hook = []string{"true"}
	}
	ctxs["shared"] = runner.NewExecutionContext(nil, "", variables.NewVariables(), nil, nil, hook, hook)
	var stages []*scheduler.Stage
	if s.root {
		rt := task.FromCommands("true")
		rt.Name = "root"
		stages = append(stages, &scheduler.Stage{Name: "root", Task: rt})
	}
	if s.skipMid {
		mt := task.FromCommands("true")
		mt.Name = "mid"
		mt.Condition = "false"
		st := &scheduler.Stage{Name: "mid", Task: mt}
		if s.root {
			st.DependsOn = []string{"root"}
		}
		stages = append(stages, st)
	}
	var sharedT *task.Task
	for i := 0; i < s.k; i++ {
		name := fmt.Sprintf("b%d", i)
		if s.same {
			if sharedT == nil {
				cmd := fmt.Sprintf("touch %s/in.$WHOAMI; i=0; while [ \"$(ls %s | wc -l)\" -lt %d ]; do i=$((i+1)); if [ $i -gt 300 ]; then exit 7; fi; sleep 0.02; done",
					dir, dir, s.k)
				sharedT = task.FromCommands(cmd)
				sharedT.Name = "meet"
				sharedT.Interactive = s.inter
				if s.ctx == "shared" || s.ctx == "mixed" {
					sharedT.Context = "shared"
				}
			}
			st := &scheduler.Stage{Name: name, Task: sharedT, Env: variables.FromMap(map[string]string{"WHOAMI": name})}
			if s.root {
				st.DependsOn = []string{"root"}
			}
			stages = append(stages, st)
			continue
		}
		// announce, then wait (at most ~6s) until all k announcements exist
		cmd := fmt.Sprintf("touch %s/in.%s; i=0; while [ \"$(ls %s | wc -l)\" -lt %d ]; do i=$((i+1)); if [ $i -gt 300 ]; then exit 7; fi; sleep 0.02; done",
			dir, name, dir, s.k)
		t := task.FromCommands(cmd)
		if s.where != "" {
			// the hook prints first, then announces itself and waits for the others; on success it leaves met.<name>
			t = task.FromCommands("true")
			meet := fmt.Sprintf("echo %s is here; %s; touch %s/met.%s", name, cmd, metDir, name)
			switch s.where {
			case "before":
				t.Before = []string{meet}
			case "after":
				t.After = []string{meet}
			}
		}
		t.Name = name
		t.Interactive = s.inter
		if s.hooks && s.where == "" {
			t.Before = []string{"true"}
		}
		switch s.ctx {
		case "shared":
			t.Context = "shared"
		case "own":
			t.Context = "own" + name
			ctxs[t.Context] = runner.NewExecutionContext(nil, "", variables.NewVariables(), nil, nil, hook, hook)
			if strings.HasPrefix(s.where, "ctx-") {
				// the stages meet while their (separate) contexts are being brought up / in the contexts' before hooks
				meet := fmt.Sprintf("%s; touch %s/met.%s", cmd, metDir, name)
				t.Before, t.After = nil, nil
				if s.where == "ctx-up" {
					ctxs[t.Context] = runner.NewExecutionContext(nil, "", variables.NewVariables(), []string{meet}, nil, nil, nil)
				} else {
					ctxs[t.Context] = runner.NewExecutionContext(nil, "", variables.NewVariables(), []string{"true"}, nil, []string{meet}, nil)
				}
			}
		case "mixed":
			if i%2 == 0 {
				t.Context = "shared"
			}
		}
		st := &scheduler.Stage{Name: name, Task: t}
		if s.root {
			st.DependsOn = []string{"root"}
		}
		if s.skipMid && i == 0 {
			st.DependsOn = append(st.DependsOn, "mid")
		}
		stages = append(stages, st)
	}
	g, err := scheduler.NewExecutionGraph(stages...)
	if err != nil {
		cs.Fail, cs.Sig = "graph rejected: "+err.Error(), "c04-real-setup"
		col.Add(cs)
		return
	}
	r, err := runner.NewTaskRunner(runner.WithContexts(ctxs))
	if err != nil {
		cs.Fail, cs.Sig = err.Error(), "c04-real-setup"
		col.Add(cs)
		return
	}
	r.Stdout, r.Stderr = devNull{}, devNull{}
	sd := scheduler.NewScheduler(r)
	done := make(chan error, 1)
	go func() { done <- sd.Schedule(g) }()
	var serr error
	select {
	case serr = <-done:
	case <-time.After(30 * time.Second):
		cs.Fail, cs.Sig = "pipeline did not finish within 30s", "c04-real-hang"
		go sd.Cancel()
	}
	var notDone []string
	for _, st := range g.Nodes() {
		if strings.HasPrefix(st.Name, "b") && st.ReadStatus() != scheduler.StatusDone {
			notDone = append(notDone, st.Name)
		}
	}
	announced, _ := filepath.Glob(filepath.Join(dir, "in.*"))
	if met, _ := filepath.Glob(filepath.Join(metDir, "met.*")); s.where != "" && len(met) < s.k && serr == nil && len(notDone) == 0 {
		// a failing "after" hook does not fail its task: the hooks that met say so themselves
		serr = fmt.Errorf("only %d of the %d %q hooks saw all the others", len(met), s.k, s.where)
	}
	cs.Impl = fmt.Sprintf("together=%v", len(notDone) == 0 && serr == nil)
	if cs.Fail == "" && (len(notDone) > 0 || serr != nil) {
		cs.Fail = fmt.Sprintf("%d stages with no dependency between them were eligible together but never all ran at the same time: %d announced themselves, %d gave up waiting for the others (err=%v)",
			s.k, len(announced), len(notDone), serr)
		cs.Sig = "c04-not-concurrent"
	}
	col.Add(cs)
}

func runC04Real(col *Collector, tier string, seed int64) {
	rng := rand.New(rand.NewSource(seed + 404))
	wide := runtime.GOMAXPROCS(0) + 2
	var specs []c04RealSpec
	for _, ctx := range []string{"none", "shared", "own", "mixed"} {
		for _, k := range []int{2, 3, 5} {
			specs = append(specs, c04RealSpec{k: k, ctx: ctx, root: rng.Intn(2) == 0, hooks: rng.Intn(2) == 0, skipMid: rng.Intn(3) == 0})
		}
	}
	specs = append(specs, c04RealSpec{k: 3, ctx: "none", inter: true}, c04RealSpec{k: 2, ctx: "shared", inter: true, hooks: true})
	// one task used by every stage (a normal configuration: the stages differ in their env / variables)
	specs = append(specs, c04RealSpec{k: 2, ctx: "none", same: true}, c04RealSpec{k: 4, ctx: "shared", same: true, root: true}, c04RealSpec{k: 3, ctx: "none", same: true, inter: true})
	// the stages meet in a hook of their tasks (which prints a line first) instead of the command
	specs = append(specs, c04RealSpec{k: 2, ctx: "none", where: "before"}, c04RealSpec{k: 3, ctx: "shared", where: "after", root: true}, c04RealSpec{k: 4, ctx: "own", where: "before", hooks: true})
	// ... or while their own execution contexts are brought up / in the before hooks of their own contexts
	specs = append(specs, c04RealSpec{k: 2, ctx: "own", where: "ctx-up"}, c04RealSpec{k: 3, ctx: "own", where: "ctx-before", root: true}, c04RealSpec{k: 3, ctx: "own", where: "ctx-up", root: true})
	// wider than the number of CPUs: nothing may tie the number of simultaneous commands to it
	specs = append(specs, c04RealSpec{k: wide, ctx: "none", root: true}, c04RealSpec{k: wide, ctx: "shared", hooks: true})
	if tier == "thorough" {
		for i := 0; i < 40; i++ {
			specs = append(specs, c04RealSpec{k: 2 + rng.Intn(wide+4), ctx: []string{"none", "shared", "own", "mixed"}[rng.Intn(4)],
				root: rng.Intn(2) == 0, hooks: rng.Intn(2) == 0, skipMid: rng.Intn(2) == 0, same: rng.Intn(4) == 0})
		}
	}
	// one at a time: each case needs its k commands to be scheduled together
	for _, s := range specs {
		c04RealCase(col, s)
	}
}
