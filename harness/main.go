package main

import (
	"flag"
	"fmt"
	"io"
	"os"
	"os/signal"
	"strconv"

	"github.com/sirupsen/logrus"
)

type propFn func(c *Collector, tier string, seed int64)

var props = map[string]propFn{}

func main() {
	prop := flag.String("prop", "", "property id")
	tier := flag.String("tier", "quick", "quick|thorough")
	out := flag.String("out", "", "result json")
	oracle := flag.String("oracle", "/verif/lean/.lake/build/bin/oracle", "oracle binary")
	child := flag.String("child", "", "internal: run a child-process case")
	flag.Parse()
	// Started as a background job of a non-interactive shell the harness inherits SIGINT ignored, and so
	// would every command it starts: the interrupt that ends an overrunning command would be ignored by
	// `sleep` and friends, which says nothing about the code under check. A handler in this process gives
	// the children the default disposition back.
	if signal.Ignored(os.Interrupt) {
		ch := make(chan os.Signal, 1)
		signal.Notify(ch, os.Interrupt)
		go func() { <-ch; os.Exit(130) }()
	}
	if os.Getenv("VERIF_LOG") == "" {
		logrus.SetOutput(io.Discard)
	}
	if *child != "" {
		runChild(*child, flag.Args())
		return
	}
	if v := os.Getenv("VERIF_MAX_PER_SIG"); v != "" {
		if n, err := strconv.Atoi(v); err == nil {
			maxPerSig = n
		}
	}
	seed := int64(1)
	if s := os.Getenv("VERIF_SEED"); s != "" {
		if v, err := strconv.ParseInt(s, 10, 64); err == nil {
			seed = v
		}
	}
	f, ok := props[*prop]
	if !ok {
		fmt.Fprintf(os.Stderr, "unknown property %q\n", *prop)
		os.Exit(2)
	}
	c := NewCollector(*prop, *tier, seed)
	f(c, *tier, seed)
	c.DrainRetries()
	if err := c.RunOracle(*oracle); err != nil {
		fmt.Fprintln(os.Stderr, err)
		c.Note("ORACLE-ERROR: %v", err)
		c.res.DisagreementCount++
	}
	if err := c.Write(*out); err != nil {
		fmt.Fprintln(os.Stderr, err)
		os.Exit(2)
	}
}

var childFns = map[string]func(args []string){}

func runChild(name string, args []string) {
	f, ok := childFns[name]
	if !ok {
		fmt.Fprintf(os.Stderr, "unknown child %q\n", name)
		os.Exit(2)
	}
	f(args)
}
