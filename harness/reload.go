package main

import (
	"fmt"
	"os"
	"path/filepath"
	"sort"
	"strings"

	"github.com/taskctl/taskctl/pkg/verifhooks"
)

// One Loader used for several loads in a row (the command line does that: completion, then the real load): a load that
// failed must leave nothing behind. `fault` is what is wrong at first: "unparsable" / "missing" (an import that cannot
// be read), "dangling" (an imported file whose pipeline depends on an unknown stage). After the first, failing load
// the file is either repaired (the next load must give the complete configuration) or left as it is (the next load
// must fail again).
func loaderReuseCase(col *Collector, prop, format, fault string, repaired bool) {
	dir := newScratchDir("reload")
	defer os.RemoveAll(dir)
	ext := format
	write := func(name string, doc map[string]interface{}) {
		text, _ := serialise(doc, format)
		os.WriteFile(filepath.Join(dir, name+"."+ext), []byte(text), 0644)
	}
	task := func(cmd string) map[string]interface{} {
		return map[string]interface{}{"command": []interface{}{cmd}}
	}
	good := map[string]interface{}{
		"tasks":     map[string]interface{}{"lint": task("echo lint"), "build": task("echo build")},
		"pipelines": map[string]interface{}{"ci": []interface{}{map[string]interface{}{"task": "lint"}, map[string]interface{}{"task": "build", "depends_on": []interface{}{"lint"}}}},
	}
	write("common", map[string]interface{}{"tasks": map[string]interface{}{"fmt": task("echo fmt")}})
	write("main", map[string]interface{}{
		"import": []interface{}{"common." + ext, "part." + ext},
		"tasks":  map[string]interface{}{"top": task("echo top")},
	})
	partPath := filepath.Join(dir, "part."+ext)
	switch fault {
	case "unparsable":
		os.WriteFile(partPath, []byte("tasks: [unclosed\n  - {\n\"x\" = = ["), 0644)
	case "missing":
		os.Remove(partPath)
	case "dangling":
		bad := map[string]interface{}{
			"tasks":     good["tasks"],
			"pipelines": map[string]interface{}{"ci": []interface{}{map[string]interface{}{"task": "lint"}, map[string]interface{}{"task": "build", "depends_on": []interface{}{"no-such-stage"}}}},
		}
		write("part", bad)
	}
	cs := Case{Replay: fmt.Sprintf("one Loader, two loads of main.%s importing common.%s and part.%s; part is %s at first, repaired in between=%v", ext, ext, ext, fault, repaired),
		Tags: []string{"loader-reuse", "format=" + format, "fault=" + fault}, NonTrivial: true}
	defer func() {
		if p := recover(); p != nil {
			cs.Fail, cs.Sig = fmt.Sprint("loader panicked: ", p), strings.ToLower(prop)+"-panic"
			col.Add(cs)
		}
	}()
	cl := verifhooks.NewConfigLoader(verifhooks.NewConfig())
	cl.VerifSetDirs(dir, filepath.Join(dir, "nohome"))
	mainPath := filepath.Join(dir, "main."+ext)
	_, err1 := cl.Load(mainPath)
	if repaired {
		write("part", good)
	}
	cfg2, err2 := cl.Load(mainPath)
	var names []string
	if cfg2 != nil {
		for k := range cfg2.Tasks {
			names = append(names, k)
		}
		sort.Strings(names)
	}
	cs.Impl = fmt.Sprintf("first-failed=%v second-failed=%v tasks=%s", err1 != nil, err2 != nil, strings.Join(names, ","))
	switch {
	case err1 == nil:
		cs.Fail, cs.Sig = "the first load (part is "+fault+") did not fail", strings.ToLower(prop)+"-broken-accepted"
	case repaired && err2 != nil:
		cs.Fail, cs.Sig = "after the repair the same loader still fails: "+err2.Error(), strings.ToLower(prop)+"-reload"
	case repaired && strings.Join(names, ",") != "build,fmt,lint,top":
		cs.Fail, cs.Sig = fmt.Sprintf("after the repair the same loader gives the tasks %v, expected [build fmt lint top]", names), strings.ToLower(prop)+"-reload"
	case !repaired && err2 == nil:
		cs.Fail, cs.Sig = fmt.Sprintf("the second load of the still broken configuration succeeded (tasks %v)", names), strings.ToLower(prop)+"-reload"
	}
	col.Add(cs)
}

func loaderReuseCases(col *Collector, prop string, formats []string, faults []string) {
	for _, f := range formats {
		for _, fault := range faults {
			for _, repaired := range []bool{true, false} {
				loaderReuseCase(col, prop, f, fault, repaired)
			}
		}
	}
}
