package main

import (
	"fmt"
	"os"
	"path/filepath"
	"sort"
	"strings"

	"github.com/taskctl/taskctl/pkg/verifhooks"
)

// One Loader used for several loads in a row (the command line does that: completion, then the real load): a load that
// failed must leave nothing behind. `fault` is what is wrong at first: "unparsable" / "missing" (an import that cannot
// be read), "dangling" (an imported file whose pipeline depends on an unknown stage). After the first, failing load
// the file is either repaired (the next load must give the complete configuration) or left as it is (the next load
// must fail again).
func loaderReuseCase(col *Collector, prop, format, fault string, repaired bool) {
	dir := newScratchDir("reload")
	defer os.RemoveAll(dir)
	ext := format
	write := func(name string, doc map[string]interface{}) {
		text, _ := serialise(doc, format)
		os.WriteFile(filepath.Join(dir, name+"."+ext), []byte(text), 0644)
	}
	task := func(cmd string) map[string]interface{} {
		return map[string]interface{}{"command": []interface{}{cmd}}
	}
	good := map[string]interface{}{
		"tasks":     map[string]interface{}{"lint": task("echo lint"), "build": task("echo build")},
		"pipelines": map[string]interface{}{"ci": []interface{}{map[string]interface{}{"task": "lint"}, map[string]interface{}{"task": "build", "depends_on": []interface{}{"lint"}}}},
	}
	write("common", map[string]interface{}{"tasks": map[string]interface{}{"fmt": task("echo fmt")}})
	write("main", map[string]interface{}{
		"import": []interface{}{"common." + ext, "part." + ext},
		"tasks":  map[string]interface{}{"top": task("echo top")},
	})
	partPath := filepath.Join(dir, "part."+ext)
	switch fault {
	case "unparsable":
		os.WriteFile(partPath, []byte("tasks: [unclosed\n  - {\n\"x\" = = ["), 0644)
	case "missing":
		os.Remove(partPath)
	case "dangling":
		bad := map[string]interface{}{
			"tasks":     good["tasks"],
			"pipelines": map[string]interface{}{"ci": []interface{}{map[string]interface{}{"task": "lint"}, map[string]interface{}{"task": "build", "depends_on": []interface{}{"no-such-stage"}}}},
		}
		write("part", bad)
	}
	cs := Case{Replay: fmt.Sprintf("one Loader, two loads of main.%s importing common.%s and part.%s; part is %s at first, repaired in between=%v", ext, ext, ext, fault, repaired),
		Tags: []string{"loader-reuse", "format=" + format, "fault=" + fault}, NonTrivial: true}
	defer func() {
		if p := recover(); p != nil {
			cs.Fail, cs.Sig = fmt.Sprint("loader panicked: ", p), strings.ToLower(prop)+"-panic"
			col.Add(cs)
		}
	}()
	cl := verifhooks.NewConfigLoader(verifhooks.NewConfig())
	cl.VerifSetDirs(dir, filepath.Join(dir, "nohome"))
	mainPath := filepath.Join(dir, "main."+ext)
	_, err1 := cl.Load(mainPath)
	if repaired {
		write("part", good)
	}
	cfg2, err2 := cl.Load(mainPath)
	var names []string
	if cfg2 != nil {
		for k := range cfg2.Tasks {
			names = append(names, k)
		}
		sort.Strings(names)
	}
	cs.Impl = fmt.Sprintf("first-failed=%v second-failed=%v tasks=%s", err1 != nil, err2 != nil, strings.Join(names, ","))
	switch {
	case err1 == nil:
		cs.Fail, cs.Sig = "the first load (part is "+fault+") did not fail", strings.ToLower(prop)+"-broken-accepted"
	case repaired && err2 != nil:
		cs.Fail, cs.Sig = "after the repair the same loader still fails: "+err2.Error(), strings.ToLower(prop)+"-reload"
	case repaired && strings.Join(names, ",") != "build,fmt,lint,top":
		cs.Fail, cs.Sig = fmt.Sprintf("after the repair the same loader gives the tasks %v, expected [build fmt lint top]", names), strings.ToLower(prop)+"-reload"
	case !repaired && err2 == nil:
		cs.Fail, cs.Sig = fmt.Sprintf("the second load of the still broken configuration succeeded (tasks %v)", names), strings.ToLower(prop)+"-reload"
	}
	col.Add(cs)
}

func loaderReuseCases(col *Collector, prop string, formats []string, faults []string) {
	for _, f := range formats {
		for edit := 0; edit < 3; edit++ {
			// a new Loader with a new Config: loading twice into ONE Config adds to what it holds, by design
			reloadAfterEditCase(col, prop, f, edit, true)
		}
		for _, fault := range faults {
			for _, repaired := range []bool{true, false} {
				loaderReuseCase(col, prop, f, fault, repaired)
			}
		}
	}
}

// a configuration that loads, then a file of it is edited so that it defines LESS (edit 0: an imported file loses a
// task; 1: the main file loses a task and an import; 2: an imported file loses a task and is rewritten with the same
// length), then it is loaded again in the same process - by the same Loader or by a new one with a new Config: the
// second result is what the files say now.
func reloadAfterEditCase(col *Collector, prop, format string, edit int, fresh bool) {
	dir := newScratchDir("reedit")
	defer os.RemoveAll(dir)
	ext := format
	write := func(name string, doc map[string]interface{}) {
		text, _ := serialise(doc, format)
		os.WriteFile(filepath.Join(dir, name+"."+ext), []byte(text), 0644)
	}
	task := func(cmd string) map[string]interface{} {
		return map[string]interface{}{"command": []interface{}{cmd}}
	}
	write("common", map[string]interface{}{"tasks": map[string]interface{}{"fmt": task("echo fmt"), "legacy": task("echo legacy")}})
	write("part", map[string]interface{}{"tasks": map[string]interface{}{"lint": task("echo lint"), "build": task("echo build")}})
	write("main", map[string]interface{}{
		"import": []interface{}{"common." + ext, "part." + ext},
		"tasks":  map[string]interface{}{"top": task("echo top")},
	})
	cs := Case{Replay: fmt.Sprintf("main.%s importing common.%s and part.%s is loaded, edited (edit %d: 0 common loses task legacy, 1 main loses task top and the import of part, 2 legacy renamed to another name of the same length) and loaded again in the same process (new Loader and Config: %v)", ext, ext, ext, edit, fresh),
		Tags: []string{"reload-after-edit", "format=" + format}, NonTrivial: true}
	defer func() {
		if p := recover(); p != nil {
			cs.Fail, cs.Sig = fmt.Sprint("loader panicked: ", p), strings.ToLower(prop)+"-panic"
			col.Add(cs)
		}
	}()
	cl := verifhooks.NewConfigLoader(verifhooks.NewConfig())
	cl.VerifSetDirs(dir, filepath.Join(dir, "nohome"))
	mainPath := filepath.Join(dir, "main."+ext)
	names := func(load func(string) (map[string]bool, error)) (string, error) {
		m, err := load(mainPath)
		var ns []string
		for k := range m {
			ns = append(ns, k)
		}
		sort.Strings(ns)
		return strings.Join(ns, ","), err
	}
	loadWith := func(l *verifhooks.Loader) func(string) (map[string]bool, error) {
		return func(p string) (map[string]bool, error) {
			cfg, err := l.Load(p)
			m := map[string]bool{}
			if cfg != nil {
				for k := range cfg.Tasks {
					m[k] = true
				}
			}
			return m, err
		}
	}
	first, err1 := names(loadWith(&cl))
	want := ""
	switch edit {
	case 0:
		write("common", map[string]interface{}{"tasks": map[string]interface{}{"fmt": task("echo fmt")}})
		want = "build,fmt,lint,top"
	case 1:
		write("main", map[string]interface{}{"import": []interface{}{"common." + ext}, "tasks": map[string]interface{}{"other": task("echo other")}})
		want = "fmt,legacy,other"
	case 2:
		write("common", map[string]interface{}{"tasks": map[string]interface{}{"fmt": task("echo fmt"), "modern": task("echo modern")}})
		want = "build,fmt,lint,modern,top"
	}
	if fresh {
		cl = verifhooks.NewConfigLoader(verifhooks.NewConfig())
		cl.VerifSetDirs(dir, filepath.Join(dir, "nohome"))
	}
	second, err2 := names(loadWith(&cl))
	cs.Impl = fmt.Sprintf("first=%s second=%s", first, second)
	switch {
	case err1 != nil || first != "build,fmt,legacy,lint,top":
		cs.Fail, cs.Sig = fmt.Sprintf("the first load gave the tasks %s (error %v), expected build,fmt,legacy,lint,top", first, err1), strings.ToLower(prop)+"-reload"
	case err2 != nil || second != want:
		cs.Fail, cs.Sig = fmt.Sprintf("after the edit the load gives the tasks %s (error %v); the files now define %s", second, err2, want), strings.ToLower(prop)+"-reload"
	}
	col.Add(cs)
}
