package main

import (
	"encoding/json"
	"fmt"
	"math/rand"
	"sort"
	"strings"

	toml "github.com/pelletier/go-toml"
	yaml "gopkg.in/yaml.v2"
)

// An abstract configuration: nested map[string]interface{} / []interface{} / string / bool / int, covering
// every documented key of tasks, stages, contexts and watchers.

type genOpts struct {
	altForms bool // string-or-list fields as scalars, durations as integers where allowed, …
}

func strOrList(rng *rand.Rand, items []string, scalarOK bool) interface{} {
	if scalarOK && len(items) == 1 && rng.Intn(2) == 0 {
		return items[0]
	}
	out := make([]interface{}, len(items))
	for i, s := range items {
		out[i] = s
	}
	return out
}

func genAbstractConfig(rng *rand.Rand) (cfg map[string]interface{}, tasks, pipelines []string) {
	cfg = map[string]interface{}{}
	nt := 2 + rng.Intn(3)
	tmap := map[string]interface{}{}
	for i := 0; i < nt; i++ {
		name := fmt.Sprintf("task%d", i)
		tasks = append(tasks, name)
		t := map[string]interface{}{}
		ncmd := 1 + rng.Intn(2)
		var cmds []string
		for k := 0; k < ncmd; k++ {
			cmds = append(cmds, fmt.Sprintf("echo %s-cmd%d $VAL{{.Suffix}}", name, k))
		}
		t["command"] = strOrList(rng, cmds, true)
		if rng.Intn(2) == 0 {
			t["description"] = "the " + name
		}
		if rng.Intn(3) == 0 {
			t["condition"] = "true"
		}
		if rng.Intn(3) == 0 {
			t["before"] = strOrList(rng, []string{"echo before-" + name}, true)
		}
		if rng.Intn(3) == 0 {
			t["after"] = strOrList(rng, []string{"echo after-" + name}, true)
		}
		if rng.Intn(3) == 0 {
			t["context"] = "ctx0"
		}
		if rng.Intn(3) == 0 {
			t["variations"] = []interface{}{map[string]interface{}{"VAL": "v1"}, map[string]interface{}{"VAL": "v2"}}
		}
		if rng.Intn(4) == 0 {
			t["dir"] = "/tmp"
		}
		if rng.Intn(3) == 0 {
			t["timeout"] = []string{"10s", "1m", "1500ms"}[rng.Intn(3)]
		}
		if rng.Intn(3) == 0 {
			t["allow_failure"] = rng.Intn(2) == 0
		}
		if rng.Intn(4) == 0 {
			t["exportAs"] = "EXPORTED_" + strings.ToUpper(name)
		}
		if rng.Intn(2) == 0 {
			t["env"] = map[string]interface{}{"VAL": "from-env", "OTHER": "x y"}
		}
		t["variables"] = map[string]interface{}{"Suffix": "-sfx"}
		tmap[name] = t
	}
	cfg["tasks"] = tmap
	cfg["contexts"] = map[string]interface{}{
		"ctx0": map[string]interface{}{
			"dir": "/tmp", "up": strOrList(rng, []string{"true"}, true), "down": strOrList(rng, []string{"true"}, true),
			"before": strOrList(rng, []string{"true"}, true), "after": strOrList(rng, []string{"true"}, true),
			"env": map[string]interface{}{"CTX": "yes"}, "variables": map[string]interface{}{"cv": "1"},
			"executable": map[string]interface{}{"bin": "/bin/sh", "args": []interface{}{"-c"}}, "quote": "'",
		},
	}
	np := 1 + rng.Intn(2)
	pmap := map[string]interface{}{}
	for i := 0; i < np; i++ {
		pn := fmt.Sprintf("pipe%d", i)
		pipelines = append(pipelines, pn)
		var stages []interface{}
		ns := 1 + rng.Intn(3)
		for k := 0; k < ns; k++ {
			st := map[string]interface{}{"name": fmt.Sprintf("st%d", k), "task": tasks[rng.Intn(nt)]}
			if k > 0 && rng.Intn(2) == 0 {
				st["depends_on"] = strOrList(rng, []string{fmt.Sprintf("st%d", rng.Intn(k))}, true)
			}
			if rng.Intn(3) == 0 {
				st["allow_failure"] = true
			}
			if rng.Intn(3) == 0 {
				st["env"] = map[string]interface{}{"VAL": "from-stage"}
			}
			if rng.Intn(3) == 0 {
				st["variables"] = map[string]interface{}{"Suffix": "-stage"}
			}
			if rng.Intn(4) == 0 {
				st["condition"] = "true"
			}
			if rng.Intn(5) == 0 {
				st["dir"] = "/tmp"
			}
			stages = append(stages, st)
		}
		if i > 0 && rng.Intn(2) == 0 {
			stages = append(stages, map[string]interface{}{"name": "incl", "pipeline": pipelines[0]})
		}
		pmap[pn] = stages
	}
	cfg["pipelines"] = pmap
	if rng.Intn(2) == 0 {
		cfg["watchers"] = map[string]interface{}{
			"w0": map[string]interface{}{
				"events": []interface{}{"create", "write"}, "watch": []interface{}{"*.nothing"}, "exclude": []interface{}{"x.nothing"},
				"task": tasks[0], "variables": map[string]interface{}{"wv": "1"},
			},
		}
	}
	cfg["variables"] = map[string]interface{}{"GlobalVar": "gv"}
	if rng.Intn(2) == 0 {
		cfg["output"] = []string{"raw", "prefixed"}[rng.Intn(2)]
	}
	if rng.Intn(3) == 0 {
		cfg["debug"] = false
	}
	return cfg, tasks, pipelines
}

func toYAML(v interface{}) (string, error) {
	b, err := yaml.Marshal(v)
	return string(b), err
}

func toJSON(v interface{}) (string, error) {
	b, err := json.MarshalIndent(v, "", "  ")
	return string(b), err
}

func toTOML(v map[string]interface{}) (out string, err error) {
	defer func() {
		if p := recover(); p != nil {
			err = fmt.Errorf("not expressible in TOML: %v", p)
		}
	}()
	t, err := toml.TreeFromMap(v)
	if err != nil {
		return "", err
	}
	return t.String(), nil
}

func serialise(v map[string]interface{}, format string) (string, error) {
	switch format {
	case "yaml":
		return toYAML(v)
	case "json":
		return toJSON(v)
	}
	return toTOML(v)
}

// deep copy
func cloneTree(v interface{}) interface{} {
	switch x := v.(type) {
	case map[string]interface{}:
		m := map[string]interface{}{}
		for k, e := range x {
			m[k] = cloneTree(e)
		}
		return m
	case []interface{}:
		l := make([]interface{}, len(x))
		for i, e := range x {
			l[i] = cloneTree(e)
		}
		return l
	}
	return v
}

type treePath []interface{} // string keys and int indexes

func allPaths(v interface{}, prefix treePath, out *[]treePath) {
	switch x := v.(type) {
	case map[string]interface{}:
		var keys []string
		for k := range x {
			keys = append(keys, k)
		}
		sort.Strings(keys)
		for _, k := range keys {
			p := append(append(treePath{}, prefix...), k)
			*out = append(*out, p)
			allPaths(x[k], p, out)
		}
	case []interface{}:
		for i, e := range x {
			p := append(append(treePath{}, prefix...), i)
			*out = append(*out, p)
			allPaths(e, p, out)
		}
	}
}

func setAt(root interface{}, p treePath, val interface{}, del bool) {
	cur := root
	for i := 0; i < len(p)-1; i++ {
		switch k := p[i].(type) {
		case string:
			cur = cur.(map[string]interface{})[k]
		case int:
			cur = cur.([]interface{})[k]
		}
	}
	switch k := p[len(p)-1].(type) {
	case string:
		m := cur.(map[string]interface{})
		if del {
			delete(m, k)
		} else {
			m[k] = val
		}
	case int:
		cur.([]interface{})[k] = val
	}
}

func pathString(p treePath) string {
	var s []string
	for _, e := range p {
		s = append(s, fmt.Sprint(e))
	}
	return strings.Join(s, ".")
}

var wrongValues = []struct {
	name string
	val  interface{}
}{
	{"null", nil}, {"string", "a-string"}, {"int", 42}, {"bool", true}, {"emptylist", []interface{}{}},
	{"list", []interface{}{"x", 1, nil}}, {"emptymap", map[string]interface{}{}}, {"map", map[string]interface{}{"unexpected": "key"}},
	{"listofmaps", []interface{}{map[string]interface{}{"a": "b"}}}, {"nested", map[string]interface{}{"a": map[string]interface{}{"b": []interface{}{1, 2}}}},
}
