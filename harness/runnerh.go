package main

import (
	"fmt"
	"math/rand"
	"os"
	"path/filepath"
	"strings"
	"sync/atomic"
	"time"

	"github.com/taskctl/taskctl/pkg/runner"
	"github.com/taskctl/taskctl/pkg/scheduler"
	"github.com/taskctl/taskctl/pkg/task"
	"github.com/taskctl/taskctl/pkg/variables"
)

func init() {
	props["C06"] = func(c *Collector, tier string, seed int64) {
		runRunnerProp(c, "C06", tier, seed)
		repeatedVariationCases(c)
		commandTextCases(c)
		rerunCases(c)
		conditionHistoryCases(c)
		blankCommandCases(c)
		timedOrderCases(c)
		missingProgramCases(c)
		hookShellStateCases(c)
		chattyCommandCases(c)
	}
	props["C07"] = func(c *Collector, tier string, seed int64) {
		runRunnerProp(c, "C07", tier, seed)
		statusHistoryCases(c)
	}
}

// result of one command: exit status n (0 = success), fault (timeout), norender (undefined template variable)
type cmdRes struct {
	kind byte // 'e' exit, 'f' fault, 'x' norender, 'p' unparsable
	n    int
}

func (r cmdRes) String() string {
	if r.kind == 'e' {
		return fmt.Sprintf("e%d", r.n)
	}
	if r.kind == 'p' {
		return "x" // an unparsable command never begins either; same model outcome as norender
	}
	return string(r.kind)
}

func (r cmdRes) ok() bool    { return r.kind == 'e' && r.n == 0 }
func (r cmdRes) began() bool { return r.kind == 'e' || r.kind == 'f' }

type taskSpec struct {
	cond    *cmdRes
	before  []cmdRes
	nCmds   int
	vars    int      // -1: no variations key
	res     []cmdRes // variation-major, len = max(vars,1)*nCmds (vars=0: empty)
	after   []cmdRes
	allow   bool
	newTask bool // built with task.NewTask (ExitCode -1) or as a literal like internal/config does (ExitCode 0)
	// decor: every command that exits with a status also contains a failing statement that is not its last one and
	// leaves shell state behind (errexit, nounset, another directory, a variable): the interpreter is reset before every
	// command, so none of this changes what the task does - the oracle line is the same as without. (Shell FUNCTIONS are
	// not part of this: the commands of one task share an interpreter whose reset keeps them, and nothing in C06 says
	// whether a later command may call a function an earlier one defined.)
	decor bool
}

func (s *taskSpec) nVars() int {
	if s.vars < 0 {
		return 1
	}
	return s.vars
}

func resList(rs []cmdRes, sep string) string {
	if len(rs) == 0 {
		return "-"
	}
	p := make([]string, len(rs))
	for i, r := range rs {
		p[i] = r.String()
	}
	return strings.Join(p, sep)
}

func (s *taskSpec) line() string {
	cond := "-"
	if s.cond != nil {
		cond = s.cond.String()
	}
	vars := "-"
	if s.vars >= 0 {
		vars = fmt.Sprint(s.vars)
	}
	init := 0
	if s.newTask {
		init = -1
	}
	allow := 0
	if s.allow {
		allow = 1
	}
	return fmt.Sprintf("runner cond=%s before=%s n=%d vars=%s res=%s after=%s allow=%d init=%d",
		cond, resList(s.before, ","), s.nCmds, vars, resList(s.res, ","), resList(s.after, ","), allow, init)
}

const decorPre, decorPost = "false; cat /nonexistent/verif 2>/dev/null; ", "; set -eu; cd /; LEFT_BEHIND=1"

func shellFor(trace, tok string, r cmdRes) string { return shellForD(trace, tok, r, false) }

func shellForD(trace, tok string, r cmdRes, decor bool) string {
	switch r.kind {
	case 'e':
		if decor {
			return fmt.Sprintf("%secho %s >> %s%s; exit %d", decorPre, tok, trace, decorPost, r.n)
		}
		return fmt.Sprintf("echo %s >> %s; exit %d", tok, trace, r.n)
	case 'f':
		return fmt.Sprintf("echo %s >> %s; sleep 5", tok, trace)
	case 'x':
		return fmt.Sprintf("echo %s{{.VerifUndefined}} >> %s", tok, trace)
	case 'p':
		return fmt.Sprintf("echo %s >> %s; echo 'unterminated", tok, trace)
	}
	return "true"
}

var traceSeq int64

func scratchDir() string {
	dir := os.Getenv("VERIF_SCRATCH")
	if dir == "" {
		dir = filepath.Join(os.TempDir(), "verif-scratch")
	}
	os.MkdirAll(dir, 0755)
	return dir
}

func newTracePath() string {
	return filepath.Join(scratchDir(), fmt.Sprintf("trace-%d-%d", os.Getpid(), atomic.AddInt64(&traceSeq, 1)))
}

func readTrace(path string) []string {
	b, err := os.ReadFile(path)
	if err != nil {
		return nil
	}
	var out []string
	for _, l := range strings.Split(string(b), "\n") {
		if l != "" {
			out = append(out, l)
		}
	}
	return out
}

// buildTask: commands are distinguished per variation through the variation's environment
func (s *taskSpec) buildTask(name, trace string) *task.Task {
	var t *task.Task
	if s.newTask {
		t = task.NewTask()
	} else {
		t = &task.Task{Env: variables.NewVariables(), Variables: variables.NewVariables()}
	}
	t.Name = name
	t.Env = t.Env.With("TRACE", trace)
	t.AllowFailure = s.allow
	hasFault := false
	if s.cond != nil {
		t.Condition = shellForD(trace, "c", *s.cond, s.decor)
		hasFault = hasFault || s.cond.kind == 'f'
	}
	for i, r := range s.before {
		t.Before = append(t.Before, shellForD(trace, fmt.Sprintf("b%d", i), r, s.decor))
		hasFault = hasFault || r.kind == 'f'
	}
	for i, r := range s.after {
		t.After = append(t.After, shellForD(trace, fmt.Sprintf("a%d", i), r, s.decor))
		hasFault = hasFault || r.kind == 'f'
	}
	if s.vars >= 0 {
		t.Variations = make([]map[string]string, s.vars)
		for v := 0; v < s.vars; v++ {
			t.Variations[v] = map[string]string{"V": fmt.Sprint(v + 1)} // V is unset when the task declares no variations
		}
	}
	// command j: a case statement on the variation index selects the result for (v, j)
	for j := 0; j < s.nCmds; j++ {
		var sb strings.Builder
		sb.WriteString("case \"${V:-none}\" in ")
		label := func(v int) string {
			if s.vars < 0 {
				return "none"
			}
			return fmt.Sprint(v + 1)
		}
		for v := 0; v < s.nVars(); v++ {
			r := s.res[v*s.nCmds+j]
			hasFault = hasFault || r.kind == 'f'
			switch r.kind {
			case 'e':
				if s.decor {
					fmt.Fprintf(&sb, "%s) %secho m%d.%d >> %s%s; exit %d;; ", label(v), decorPre, v, j, trace, decorPost, r.n)
				} else {
					fmt.Fprintf(&sb, "%s) echo m%d.%d >> %s; exit %d;; ", label(v), v, j, trace, r.n)
				}
			case 'f':
				fmt.Fprintf(&sb, "%s) echo m%d.%d >> %s; sleep 5;; ", label(v), v, j, trace)
			}
		}
		fmt.Fprintf(&sb, "*) echo mWRONGVARIATION.%d >> %s;; ", j, trace)
		sb.WriteString("esac")
		cmd := sb.String()
		// norender / unparsable are properties of the command text, not of the variation: applied to the
		// whole command j when the spec says so for variation 0
		k0 := byte('e')
		if len(s.res) > j {
			k0 = s.res[j].kind
		}
		switch k0 {
		case 'x':
			cmd = fmt.Sprintf("echo m{{.VerifUndefined}} >> %s", trace)
		case 'p':
			cmd = "echo 'unterminated"
		}
		t.Commands = append(t.Commands, cmd)
	}
	if hasFault {
		d := 60 * time.Millisecond
		t.Timeout = &d
	}
	return t
}

type runObs struct {
	trace    []string
	err      bool
	errored  bool
	skipped  bool
	exitCode int
}

func (o runObs) String() string {
	b := func(x bool) int {
		if x {
			return 1
		}
		return 0
	}
	return fmt.Sprintf("trace=%s|err=%d|errored=%d|skipped=%d|exit=%d", strings.Join(o.trace, ","), b(o.err), b(o.errored), b(o.skipped), o.exitCode)
}

func runTaskSpec(s *taskSpec) (obs runObs, err error) {
	defer func() {
		if p := recover(); p != nil {
			err = fmt.Errorf("PANIC: %v", p)
		}
	}()
	trace := newTracePath()
	defer os.Remove(trace)
	t := s.buildTask("t", trace)
	r, err := runner.NewTaskRunner()
	if err != nil {
		return runObs{}, err
	}
	r.Stdout, r.Stderr = devNull{}, devNull{}
	e := r.Run(t)
	return runObs{trace: readTrace(trace), err: e != nil, errored: t.Errored, skipped: t.Skipped, exitCode: int(t.ExitCode)}, nil
}

type devNull struct{}

func (devNull) Write(p []byte) (int, error) { return len(p), nil }

// ---- reference reading of C06/C07 (independent of the Lean model) ----

func (s *taskSpec) reference() runObs {
	o := runObs{}
	init := 0
	if s.newTask {
		init = -1
	}
	o.exitCode = init
	if s.cond != nil {
		if s.cond.began() {
			o.trace = append(o.trace, "c")
		}
		if !s.cond.ok() {
			if s.cond.kind == 'e' {
				o.skipped = true
				return o
			}
			o.err = true
			o.exitCode = 0
			return o
		}
	}
	for i, r := range s.before {
		if r.began() {
			o.trace = append(o.trace, fmt.Sprintf("b%d", i))
		}
		if !r.ok() {
			o.err = true
			o.exitCode = 0
			return o
		}
	}
	for v := 0; v < s.nVars(); v++ {
		for j := 0; j < s.nCmds; j++ {
			r := s.res[v*s.nCmds+j]
			if r.began() {
				o.trace = append(o.trace, fmt.Sprintf("m%d.%d", v, j))
			}
			if r.ok() {
				continue
			}
			if r.kind == 'e' {
				o.exitCode = r.n
				if s.allow {
					continue
				}
			}
			o.err, o.errored = true, true
			return o
		}
	}
	for i, r := range s.after {
		if r.began() {
			o.trace = append(o.trace, fmt.Sprintf("a%d", i))
		}
	}
	o.exitCode = 0
	return o
}

func runnerCase(col *Collector, focus string, s *taskSpec, tag string) {
	obs, err := runTaskSpec(s)
	cs := Case{Line: s.line(), Tags: []string{tag}}
	if s.decor {
		cs.Replay = s.line() + fmt.Sprintf(" [every command that exits with a status is written `%secho <token> >> trace%s; exit <n>`]", decorPre, decorPost)
	}
	if err != nil {
		cs.Fail, cs.Sig = "running the task crashed: "+err.Error(), "runner-panic"
		cs.Impl = "panic"
		col.Add(cs)
		return
	}
	cs.Impl = obs.String()
	ref := s.reference()
	cs.NonTrivial = len(ref.trace) >= 2
	if ref.errored {
		cs.Tags = append(cs.Tags, "errored")
	}
	if ref.skipped {
		cs.Tags = append(cs.Tags, "skipped")
	}
	if s.allow {
		cs.Tags = append(cs.Tags, "allow")
	}
	var c06, c07 string
	if strings.Join(obs.trace, ",") != strings.Join(ref.trace, ",") {
		c06 = fmt.Sprintf("commands that ran: %v, the task definition prescribes %v", obs.trace, ref.trace)
	} else if obs.skipped != ref.skipped {
		c06 = fmt.Sprintf("skipped=%v, expected %v", obs.skipped, ref.skipped)
	}
	switch {
	case obs.err != ref.err:
		c07 = fmt.Sprintf("Run returned error=%v, expected %v", obs.err, ref.err)
	case obs.errored != ref.errored:
		c07 = fmt.Sprintf("Errored=%v, expected %v", obs.errored, ref.errored)
	case obs.skipped != ref.skipped:
		c07 = fmt.Sprintf("Skipped=%v, expected %v", obs.skipped, ref.skipped)
	case obs.exitCode != ref.exitCode:
		c07 = fmt.Sprintf("ExitCode=%d, expected %d", obs.exitCode, ref.exitCode)
	}
	if focus == "C06" && c06 != "" {
		cs.Fail, cs.Sig = c06, "c06-trace"
	}
	if focus == "C07" && c07 != "" {
		cs.Fail, cs.Sig = c07, "c07-status"
	}
	if focus != "C06" && c06 != "" {
		col.Note("other-monitor C06: c06-trace")
	}
	if focus != "C07" && c07 != "" {
		col.Note("other-monitor C07: c07-status")
	}
	col.Add(cs)
}

func genRunnerSpecs(tier string, rng *rand.Rand) ([]*taskSpec, []string) {
	var specs []*taskSpec
	var tags []string
	okR := cmdRes{'e', 0}
	st := func() cmdRes { return cmdRes{'e', 1 + rng.Intn(255)} }
	hookSets := func() [][]cmdRes {
		return [][]cmdRes{nil, {okR}, {st()}, {okR, st(), okR}}
	}
	conds := func() []*cmdRes {
		f := st()
		return []*cmdRes{nil, &okR, &f}
	}
	// the property's grammar, exhaustive over shapes; failing positions: none, each single job, first+last
	for nCmds := 1; nCmds <= 3; nCmds++ {
		for _, vars := range []int{-1, 1, 2, 3} {
			nv := vars
			if nv < 0 {
				nv = 1
			}
			nj := nCmds * nv
			failSets := [][]int{nil}
			for p := 0; p < nj; p++ {
				failSets = append(failSets, []int{p})
			}
			if nj >= 2 {
				failSets = append(failSets, []int{0, nj - 1})
			}
			if nj >= 3 {
				failSets = append(failSets, []int{1, 2})
			}
			for _, fs := range failSets {
				for _, allow := range []bool{false, true} {
					for bi, before := range hookSets() {
						for ai, after := range hookSets() {
							for ci, cond := range conds() {
								// thin the cross product a little in the quick tier: keep all shapes, sample hooks
								if tier != "thorough" && (bi+ai+ci)%2 == 1 && len(fs) > 0 && fs[0] > 0 {
									continue
								}
								s := &taskSpec{cond: cond, before: before, after: after, nCmds: nCmds, vars: vars, allow: allow, newTask: rng.Intn(2) == 0}
								s.res = make([]cmdRes, nj)
								for i := range s.res {
									s.res[i] = okR
								}
								for _, p := range fs {
									s.res[p] = st()
								}
								specs = append(specs, s)
								tags = append(tags, "grammar")
							}
						}
					}
				}
			}
		}
	}
	// every exit status at every position of a 3-command task, with and without allow_failure
	for pos := 0; pos < 3; pos++ {
		for n := 0; n <= 255; n++ {
			for _, allow := range []bool{false, true} {
				if tier != "thorough" && allow && n%3 != 0 {
					continue
				}
				s := &taskSpec{nCmds: 3, vars: -1, allow: allow, newTask: n%2 == 0, res: []cmdRes{okR, okR, okR}}
				s.res[pos] = cmdRes{'e', n}
				specs = append(specs, s)
				tags = append(tags, "status-sweep")
			}
		}
	}
	// variations: 0 (an empty list: nothing runs)
	specs = append(specs, &taskSpec{nCmds: 2, vars: 0, res: nil, after: []cmdRes{okR}})
	tags = append(tags, "random")
	// random larger tasks, with faults (timeouts), unrenderable and unparsable commands
	nr := 300
	if tier == "thorough" {
		nr = 4000
	}
	for i := 0; i < nr; i++ {
		nCmds := 1 + rng.Intn(8)
		vars := []int{-1, 1, 2, 3, 4, 5}[rng.Intn(6)]
		nv := vars
		if nv < 0 {
			nv = 1
		}
		s := &taskSpec{nCmds: nCmds, vars: vars, allow: rng.Intn(2) == 0, newTask: rng.Intn(2) == 0}
		s.res = make([]cmdRes, nCmds*nv)
		pfail := []float64{0, 0.1, 0.3}[rng.Intn(3)]
		for k := range s.res {
			s.res[k] = okR
			if rng.Float64() < pfail {
				s.res[k] = st()
			}
		}
		switch rng.Intn(8) {
		case 0: // a command that overruns the timeout (non-exit-status error after it began)
			s.res[rng.Intn(len(s.res))] = cmdRes{'f', 0}
		case 1: // undefined template variable: applies to command j in every variation
			j := rng.Intn(nCmds)
			for v := 0; v < nv; v++ {
				s.res[v*nCmds+j] = cmdRes{'x', 0}
			}
		case 2:
			j := rng.Intn(nCmds)
			for v := 0; v < nv; v++ {
				s.res[v*nCmds+j] = cmdRes{'p', 0}
			}
		}
		hk := func() []cmdRes {
			var h []cmdRes
			for k := rng.Intn(4); k > 0; k-- {
				r := okR
				switch rng.Intn(10) {
				case 0, 1:
					r = st()
				case 2:
					r = cmdRes{'x', 0}
				}
				h = append(h, r)
			}
			return h
		}
		s.before, s.after = hk(), hk()
		switch rng.Intn(6) {
		case 0:
			s.cond = &okR
		case 1:
			f := st()
			s.cond = &f
		case 2:
			s.cond = &cmdRes{'x', 0}
		}
		specs = append(specs, s)
		tags = append(tags, "random")
	}
	// a task with NO commands, with every number of variations and with hooks around the nothing it runs
	for _, vars := range []int{-1, 0, 1, 2, 3} {
		for h := 0; h < 3; h++ {
			s := &taskSpec{nCmds: 0, vars: vars, res: nil, newTask: h%2 == 0, allow: h == 2}
			if h >= 1 {
				s.before, s.after = []cmdRes{okR}, []cmdRes{okR, okR}
			}
			if h == 2 {
				s.cond = &okR
			}
			specs = append(specs, s)
			tags = append(tags, "no-commands")
		}
	}
	return specs, tags
}

func runRunnerProp(col *Collector, focus, tier string, seed int64) {
	rng := rand.New(rand.NewSource(seed))
	col.res.Rule = "real TaskRunner.Run on generated tasks whose commands append a token to a trace file and exit with a chosen status: " +
		"1-3 commands x variations {absent,1,2,3} x failing positions {none, each single job, first+last, 2nd+3rd} x allow_failure x before/after {absent, ok, failing, ok-fail-ok} x condition {absent,true,false}; " +
		"every exit status 0..255 at every position of a 3-command task; random larger tasks (<=8 commands, <=5 variations) with timeouts, undefined template variables, unparsable commands. " +
		"non-trivial = at least 2 commands ran; distinct = distinct task specifications"
	specs, tags := genRunnerSpecs(tier, rng)
	for i := range specs {
		if i%3 == 1 {
			specs[i].decor = true
			tags[i] += "+shell-state"
		}
	}
	parallel(len(specs), 16, func(i int) { runnerCase(col, focus, specs[i], tags[i]) })
	if focus == "C07" {
		col.res.Rule += "; plus the real taskctl binary with every ordered selection of <=3 of 5 targets (tasks, an allow_failure task, pipelines), seeded exit statuses, both `taskctl T...` and `taskctl run T...` forms, words after `--`"
		runCliTargets(col, focus, tier, rng)
	}
	col.res.Exhaustive = true
}

// variation lists that contain the same map more than once (or several empty maps): every ENTRY of the list is
// one pass over the commands, in declared order - equal entries are not merged
func repeatedVariationCases(col *Collector) {
	lists := [][]map[string]string{
		{{"V": "a"}, {"V": "b"}, {"V": "a"}},
		{{"V": "a"}, {"V": "a"}},
		{{}, {}},
		{{"V": "a"}, {}, {"V": "a"}, {}},
		{{"V": "a", "W": "1"}, {"W": "1", "V": "a"}, {"V": "a", "W": "2"}},
	}
	for _, vars := range lists {
		for _, nCmds := range []int{1, 2} {
			trace := newTracePath()
			t := task.NewTask()
			t.Name = "rep"
			t.Variations = vars
			for j := 0; j < nCmds; j++ {
				t.Commands = append(t.Commands, fmt.Sprintf("echo \"m-${V:-none}-${W:-none}.%d\" >> %s", j, trace))
			}
			var want []string
			for _, v := range vars {
				get := func(k string) string {
					if x, ok := v[k]; ok {
						return x
					}
					return "none"
				}
				for j := 0; j < nCmds; j++ {
					want = append(want, fmt.Sprintf("m-%s-%s.%d", get("V"), get("W"), j))
				}
			}
			cs := Case{Replay: fmt.Sprintf("variations %v with %d commands", vars, nCmds), Tags: []string{"repeated-variations"}, NonTrivial: true}
			r, err := runner.NewTaskRunner()
			if err != nil {
				cs.Fail, cs.Sig = err.Error(), "runner-panic"
				col.Add(cs)
				continue
			}
			r.Stdout, r.Stderr = devNull{}, devNull{}
			rerr := r.Run(t)
			got := readTrace(trace)
			os.Remove(trace)
			cs.Impl = strings.Join(got, ",")
			if rerr != nil || strings.Join(got, ",") != strings.Join(want, ",") {
				cs.Fail, cs.Sig = fmt.Sprintf("commands that ran: %v (error %v), the task definition prescribes %v", got, rerr, want), "c06-trace"
			}
			col.Add(cs)
		}
	}
}

// command TEXT shapes: every command of a task is executed in its turn whatever its text looks like - a leading
// comment line, several lines, blank lines, a trailing comment, a "#" inside quotes - and its exit status counts
func commandTextCases(col *Collector) {
	shapes := []struct{ name, text string }{
		{"leading-comment-line", "# check the result\necho %s >> %s\nexit %d"},
		{"trailing-comment", "echo %s >> %s # done\nexit %d"},
		{"blank-lines", "\n\necho %s >> %s\n\nexit %d\n"},
		{"hash-in-quotes", "echo %s >> %s; echo '# not a comment' > /dev/null; exit %d"},
		{"comment-then-blank", "#!/bin/sh\n\n  # indented comment\necho %s >> %s; exit %d"},
		{"continuation", "echo %s \\\n  >> %s\nexit %d"},
	}
	for _, sh := range shapes {
		for _, failAt := range []int{-1, 1} {
			for _, allow := range []bool{false, true} {
				trace := newTracePath()
				t := task.NewTask()
				t.Name = "shape"
				t.AllowFailure = allow
				for j := 0; j < 3; j++ {
					st := 0
					if j == failAt {
						st = 3
					}
					t.Commands = append(t.Commands, fmt.Sprintf(sh.text, fmt.Sprintf("c%d", j), trace, st))
				}
				t.After = []string{fmt.Sprintf("echo after >> %s", trace)}
				want := []string{"c0", "c1", "c2", "after"}
				wantErr := false
				if failAt >= 0 && !allow {
					want, wantErr = []string{"c0", "c1"}, true
				}
				cs := Case{Replay: fmt.Sprintf("three commands written as %s, command %d exits 3 (-1: none), allow_failure=%v", sh.name, failAt, allow), Tags: []string{"command-text", sh.name}, NonTrivial: true}
				r, err := runner.NewTaskRunner()
				if err != nil {
					cs.Fail, cs.Sig = err.Error(), "runner-panic"
					col.Add(cs)
					continue
				}
				r.Stdout, r.Stderr = devNull{}, devNull{}
				rerr := r.Run(t)
				got := readTrace(trace)
				os.Remove(trace)
				cs.Impl = fmt.Sprintf("%s|err=%v", strings.Join(got, ","), rerr != nil)
				if strings.Join(got, ",") != strings.Join(want, ",") || (rerr != nil) != wantErr {
					cs.Fail, cs.Sig = fmt.Sprintf("commands that ran: %v (error %v), the task definition prescribes %v (error %v)", got, rerr, want, wantErr), "c06-trace"
				}
				col.Add(cs)
			}
		}
	}
}

// the same Task value run again after a run that failed (a watcher re-runs its task, stages share a task): the
// second run is judged on its own commands, not on what the first one left on the task
// entries of the command list that do nothing (empty, blanks only, a comment, `:`) are commands like any other: the
// ones declared after them still run, in every variation, and `after` follows
func blankCommandCases(col *Collector) {
	for _, blank := range []string{"", " ", "\t", "\n", "# nothing", ":", "true"} {
		for pos := 0; pos < 3; pos++ {
			for _, nvar := range []int{0, 2} {
				trace := newTracePath()
				t := task.NewTask()
				t.Name = "blank"
				var want []string
				cmds := []string{fmt.Sprintf("echo c0$V >> %s", trace), fmt.Sprintf("echo c1$V >> %s", trace)}
				t.Commands = append(append(append([]string{}, cmds[:pos]...), blank), cmds[pos:]...)
				vs := []string{""}
				if nvar > 0 {
					vs = []string{"a", "b"}
					t.Variations = []map[string]string{{"V": "a"}, {"V": "b"}}
				}
				for _, v := range vs {
					want = append(want, "c0"+v, "c1"+v)
				}
				want = append(want, "after")
				t.After = []string{fmt.Sprintf("echo after >> %s", trace)}
				cs := Case{Replay: fmt.Sprintf("commands [c0, c1] with the do-nothing entry %q inserted at position %d, %d variations, after hook", blank, pos, nvar), Tags: []string{"command-text", "blank-entry"}, NonTrivial: true}
				r, err := runner.NewTaskRunner()
				if err != nil {
					cs.Fail, cs.Sig = err.Error(), "runner-panic"
					col.Add(cs)
					continue
				}
				r.Stdout, r.Stderr = devNull{}, devNull{}
				rerr := r.Run(t)
				got := readTrace(trace)
				os.Remove(trace)
				cs.Impl = fmt.Sprintf("%s|err=%v", strings.Join(got, ","), rerr != nil)
				if strings.Join(got, ",") != strings.Join(want, ",") || rerr != nil {
					cs.Fail, cs.Sig = fmt.Sprintf("commands that ran: %v (error %v), the task definition prescribes %v and no error", got, rerr, want), "c06-trace"
				}
				col.Add(cs)
			}
		}
	}
}

// a command whose program does not exist fails like any command (status 127): with allow_failure the task goes on, as
// a condition it means "not met" (skipped), without allow_failure it ends the task - `after` as declared by C06
func missingProgramCases(col *Collector) {
	for _, prog := range []string{"no-such-program-verif", "/no/such/dir/prog", "./no-such-script.sh"} {
		for _, where := range []string{"command-allow", "command", "condition", "before"} {
			trace := newTracePath()
			t := task.NewTask()
			t.Name = "missing"
			mark := func(s string) string { return fmt.Sprintf("echo %s >> %s", s, trace) }
			t.Commands = []string{mark("c0"), mark("c1")}
			t.After = []string{mark("after")}
			var want []string
			wantErr, wantSkipped := false, false
			switch where {
			case "command-allow":
				t.AllowFailure = true
				t.Commands = []string{mark("c0"), prog + " arg", mark("c2")}
				want = []string{"c0", "c2", "after"}
			case "command":
				t.Commands = []string{mark("c0"), prog + " arg", mark("c2")}
				want, wantErr = []string{"c0"}, true
			case "condition":
				t.Condition = prog
				wantSkipped = true
			case "before":
				t.Before = []string{prog}
				wantErr = true
			}
			cs := Case{Replay: fmt.Sprintf("a program that does not exist (%s) as %s", prog, where), Tags: []string{"missing-program", where}, NonTrivial: true}
			r, err := runner.NewTaskRunner()
			if err != nil {
				cs.Fail, cs.Sig = err.Error(), "runner-panic"
				col.Add(cs)
				continue
			}
			r.Stdout, r.Stderr = devNull{}, devNull{}
			rerr := r.Run(t)
			got := readTrace(trace)
			os.Remove(trace)
			cs.Impl = fmt.Sprintf("%s|err=%v|skipped=%v", strings.Join(got, ","), rerr != nil, t.Skipped)
			if strings.Join(got, ",") != strings.Join(want, ",") || (rerr != nil) != wantErr || t.Skipped != wantSkipped {
				cs.Fail, cs.Sig = fmt.Sprintf("commands that ran: %v (error %v, skipped %v), the task definition prescribes %v (error %v, skipped %v)", got, rerr, t.Skipped, want, wantErr, wantSkipped), "c06-trace"
			}
			col.Add(cs)
		}
	}
}

// with a timeout set, every command still gets the whole timeout: commands that each stay within it run to the end
// although together they take longer (the C13 specifications "full-budget-each", here for the order of commands)
func timedOrderCases(col *Collector) {
	sl, q := timedCmd{"slow", 0}, timedCmd{"quick", 0}
	for _, s := range []timedSpec{
		{T: 800, before: []timedCmd{sl}, cmds: []timedCmd{sl, sl, sl}, after: []timedCmd{sl}},
		{T: 800, before: []timedCmd{sl, sl, sl}, cmds: []timedCmd{q}, after: []timedCmd{q}},
		{T: 800, cmds: []timedCmd{sl, q}, vcmds: [][]timedCmd{{sl, q}, {sl, q}, {sl, q}}, after: []timedCmd{sl, sl, sl}},
	} {
		s := s
		timedCases(col, func(col *Collector) {
			obs, _, err := runTimedSpec(s)
			cs := Case{Replay: s.line() + " kinds=" + s.kinds(), Tags: []string{"timeout-order"}, NonTrivial: true}
			var want []string
			for i := range s.before {
				want = append(want, fmt.Sprintf("b%d", i))
			}
			for v, vc := range s.variations() {
				for j := range vc {
					want = append(want, fmt.Sprintf("m%d.%d", v, j))
				}
			}
			for i := range s.after {
				want = append(want, fmt.Sprintf("a%d", i))
			}
			cs.Impl = obs.String()
			switch {
			case err != nil:
				cs.Fail, cs.Sig = err.Error(), "c06-trace"
			case strings.Join(obs.trace, ",") != strings.Join(want, ",") || obs.err:
				cs.Fail, cs.Sig = fmt.Sprintf("commands that ran %v (error %v): every command stays within the timeout of %dms, all of %v must run", obs.trace, obs.err, s.T, want), "c06-trace"
			}
			col.Add(cs)
		})
	}
}

// a condition is evaluated for EVERY run: one runner, a guard (`test -f marker`) whose answer changes between the
// runs - the same task again, and a second task with the same guard text
func conditionHistoryCases(col *Collector) {
	for variant := 0; variant < 4; variant++ {
		trace := newTracePath()
		marker := trace + ".marker"
		mk := func(name string) *task.Task {
			t := task.NewTask()
			t.Name = name
			t.Condition = fmt.Sprintf("test -f %s", marker)
			t.Before = []string{fmt.Sprintf("echo %s.b >> %s", name, trace)}
			t.Commands = []string{fmt.Sprintf("echo %s.1 >> %s", name, trace), fmt.Sprintf("echo %s.2 >> %s", name, trace)}
			t.After = []string{fmt.Sprintf("echo %s.a >> %s", name, trace)}
			return t
		}
		first, second := mk("g"), mk("g")
		if variant%2 == 1 {
			second = mk("h") // another task, the same guard
		} else {
			second = first
		}
		startsWithMarker := variant >= 2
		cs := Case{Replay: fmt.Sprintf("one runner; condition `test -f marker`; marker present at first=%v, toggled before the second run, toggled back before a third; second run by %s",
			startsWithMarker, map[bool]string{true: "the same task", false: "another task with the same condition"}[second == first]), Tags: []string{"condition-history"}, NonTrivial: true}
		r, err := runner.NewTaskRunner()
		if err != nil {
			cs.Fail, cs.Sig = err.Error(), "runner-panic"
			col.Add(cs)
			continue
		}
		r.Stdout, r.Stderr = devNull{}, devNull{}
		present := startsWithMarker
		set := func(p bool) {
			if p {
				os.WriteFile(marker, nil, 0644)
			} else {
				os.Remove(marker)
			}
		}
		var got, want []string
		for i, t := range []*task.Task{first, second, first} {
			set(present)
			os.Remove(trace)
			err := r.Run(t)
			got = append(got, fmt.Sprintf("%d:%s/skipped=%v/err=%v", i, strings.Join(readTrace(trace), ","), t.Skipped, err != nil))
			w := ""
			if present {
				w = fmt.Sprintf("%s.b,%s.1,%s.2,%s.a", t.Name, t.Name, t.Name, t.Name)
			}
			want = append(want, fmt.Sprintf("%d:%s/skipped=%v/err=false", i, w, !present))
			present = !present
		}
		os.Remove(trace)
		os.Remove(marker)
		cs.Impl = strings.Join(got, " | ")
		if cs.Impl != strings.Join(want, " | ") {
			cs.Fail, cs.Sig = fmt.Sprintf("runs gave %s, expected %s", cs.Impl, strings.Join(want, " | ")), "c06-trace"
		}
		col.Add(cs)
	}
}

// C07 over a history: what a task reports after a run is the outcome of THAT run - one task object run four
// times on one runner: failing (exit 3), succeeding, skipped by its condition, succeeding again
func statusHistoryCases(col *Collector) {
	for _, via := range []string{"direct", "stage", "mixed"} {
		statusHistoryCasesVia(col, via)
	}
}

// via: every run is a direct Run of the task ("direct"), the only stage of a pipeline scheduled on the same runner
// ("stage": the outcome travels from the stage's private copy back to the task), or alternately one and the other
func statusHistoryCasesVia(col *Collector, via string) {
	for _, allow := range []bool{false, true} {
		trace := newTracePath()
		fail, skip := trace+".fail", trace+".skip"
		t := task.NewTask()
		t.Name = "hist"
		t.AllowFailure = allow
		t.Condition = fmt.Sprintf("test ! -f %s", skip)
		t.Commands = []string{fmt.Sprintf("echo c1 >> %s", trace), fmt.Sprintf("if [ -f %s ]; then exit 3; fi", fail), fmt.Sprintf("echo c3 >> %s", trace)}
		cs := Case{Replay: fmt.Sprintf("one task run twelve times on one runner (fail = second command exits 3, skip = condition false): fail skip ok skip fail fail ok ok skip skip ok fail; allow_failure=%v; each run %s", allow,
			map[string]string{"direct": "a direct Run", "stage": "as the only stage of a pipeline", "mixed": "alternately a direct Run and the only stage of a pipeline"}[via]), Tags: []string{"status-history", "via=" + via}, NonTrivial: true}
		r, err := runner.NewTaskRunner()
		if err != nil {
			cs.Fail, cs.Sig = err.Error(), "runner-panic"
			col.Add(cs)
			continue
		}
		r.Stdout, r.Stderr = devNull{}, devNull{}
		var got, want []string
		prevExit := -1
		// every ordered pair of outcomes occurs as two consecutive runs
		for i, mode := range []string{"fail", "skip", "ok", "skip", "fail", "fail", "ok", "ok", "skip", "skip", "ok", "fail"} {
			os.Remove(fail)
			os.Remove(skip)
			os.Remove(trace)
			switch mode {
			case "fail":
				os.WriteFile(fail, nil, 0644)
			case "skip":
				os.WriteFile(skip, nil, 0644)
			}
			var err error
			if via == "stage" || (via == "mixed" && i%2 == 1) {
				g, gerr := scheduler.NewExecutionGraph(&scheduler.Stage{Name: "only", Task: t})
				if gerr != nil {
					cs.Fail, cs.Sig = gerr.Error(), "runner-panic"
					break
				}
				sd := scheduler.NewScheduler(r)
				sd.VerifSetPause(time.Millisecond)
				err = sd.Schedule(g)
			} else {
				err = r.Run(t)
			}
			lastExit := prevExit
			got = append(got, fmt.Sprintf("%d:%s err=%v errored=%v skipped=%v exit=%d", i, strings.Join(readTrace(trace), ","), err != nil, t.Errored, t.Skipped, t.ExitCode))
			prevExit = int(t.ExitCode)
			switch {
			case mode == "fail" && !allow:
				want = append(want, fmt.Sprintf("%d:c1 err=true errored=true skipped=false exit=3", i))
			case mode == "skip":
				// a skipped run records no exit status: the field keeps what it held
				want = append(want, fmt.Sprintf("%d: err=false errored=false skipped=true exit=%d", i, lastExit))
			default:
				want = append(want, fmt.Sprintf("%d:c1,c3 err=false errored=false skipped=false exit=0", i))
			}
		}
		os.Remove(fail)
		os.Remove(skip)
		os.Remove(trace)
		cs.Impl = strings.Join(got, " | ")
		if cs.Fail == "" && cs.Impl != strings.Join(want, " | ") {
			cs.Fail, cs.Sig = fmt.Sprintf("runs reported %s, expected %s", cs.Impl, strings.Join(want, " | ")), "c07-stale-status"
		}
		col.Add(cs)
	}
}

func rerunCases(col *Collector) {
	for _, allow := range []bool{false, true} {
		trace := newTracePath()
		marker := trace + ".marker"
		t := task.NewTask()
		t.Name = "again"
		t.AllowFailure = allow
		t.Commands = []string{fmt.Sprintf("echo a1 >> %s", trace), fmt.Sprintf("test -f %s", marker), fmt.Sprintf("echo a3 >> %s", trace)}
		t.Variations = []map[string]string{{"V": "1"}, {"V": "2"}}
		t.After = []string{fmt.Sprintf("echo after >> %s", trace)}
		cs := Case{Replay: fmt.Sprintf("a task (2 variations x 3 commands, the second one `test -f marker`) run twice, the marker created in between; allow_failure=%v", allow), Tags: []string{"rerun-after-failure"}, NonTrivial: true}
		r, err := runner.NewTaskRunner()
		if err != nil {
			cs.Fail, cs.Sig = err.Error(), "runner-panic"
			col.Add(cs)
			continue
		}
		r.Stdout, r.Stderr = devNull{}, devNull{}
		err1 := r.Run(t)
		first := strings.Join(readTrace(trace), ",")
		os.Remove(trace)
		os.WriteFile(marker, nil, 0644)
		err2 := r.Run(t)
		second := strings.Join(readTrace(trace), ",")
		os.Remove(trace)
		os.Remove(marker)
		want1, want1err := "a1", true
		if allow {
			want1, want1err = "a1,a3,a1,a3,after", false
		}
		want2 := "a1,a3,a1,a3,after"
		cs.Impl = fmt.Sprintf("first=%s err=%v | second=%s err=%v errored=%v", first, err1 != nil, second, err2 != nil, t.Errored)
		switch {
		case first != want1 || (err1 != nil) != want1err:
			cs.Fail, cs.Sig = fmt.Sprintf("first run: commands %s error %v, expected %s error %v", first, err1, want1, want1err), "c06-trace"
		case second != want2 || err2 != nil:
			cs.Fail, cs.Sig = fmt.Sprintf("second run of the same task: commands %s error %v, expected %s and no error", second, err2, want2), "c06-trace"
		}
		col.Add(cs)
	}
}

// every before / after / condition command is a shell of its own: shell options, the working directory, variables and
// functions that one of them sets are gone in the next one - of the same task and of the tasks run later by the same
// runner (options, directory, variables; shell functions are left out, see taskSpec.decor). One runner, a first task
// whose service commands leave as much shell state behind as they can, then tasks
// whose service commands contain a statement that fails but is not the last one.
func hookShellStateCases(col *Collector) {
	leaks := []struct{ name, stmt string }{
		{"set -e", "set -e"},
		{"set -eu", "set -eu"},
		{"set -o pipefail -e", "set -o pipefail; set -e"},
		{"cd / and a variable", "cd /; UNSET_BY_ANYONE=leaked"},
		{"readonly variable and set -e", "readonly UNSET_BY_ANYONE=leaked; set -e"},
	}
	for _, lk := range leaks {
		for _, reuse := range []bool{false, true} {
			trace := newTracePath()
			cs := Case{Replay: fmt.Sprintf("one runner; first task: before/after/condition start with `%s`; then %s whose before/after/condition contain a failing statement that is not the last one",
				lk.name, map[bool]string{false: "a second task", true: "the same task again and a second task"}[reuse]), Tags: []string{"hook-shell-state"}, NonTrivial: true}
			r, err := runner.NewTaskRunner()
			if err != nil {
				cs.Fail, cs.Sig = err.Error(), "runner-panic"
				col.Add(cs)
				continue
			}
			r.Stdout, r.Stderr = devNull{}, devNull{}
			t1 := task.NewTask()
			t1.Name = "leaky"
			t1.Condition = lk.stmt + "; true"
			t1.Before = []string{lk.stmt + "; command echo b1 >> " + trace, lk.stmt + "; command echo b1x >> " + trace}
			t1.Commands = []string{"echo c1 >> " + trace}
			t1.After = []string{lk.stmt + "; command echo a1 >> " + trace}
			t2 := task.NewTask()
			t2.Name = "tolerant"
			t2.Condition = "false; cat /nonexistent 2>/dev/null; true"
			t2.Before = []string{"false; echo $UNSET_BY_ANYONE b2 >> " + trace, "cat /nonexistent 2>/dev/null | true; false; echo b2x >> " + trace}
			t2.Commands = []string{"echo c2 >> " + trace}
			t2.After = []string{"false; echo a2 >> " + trace, "false; echo a2x >> " + trace}
			want := []string{"b1", "b1x", "c1", "a1"}
			var errs []string
			if e := r.Run(t1); e != nil {
				errs = append(errs, "leaky: "+e.Error())
			}
			if reuse {
				want = append(want, "b1", "b1x", "c1", "a1")
				if e := r.Run(t1); e != nil {
					errs = append(errs, "leaky again: "+e.Error())
				}
			}
			want = append(want, "b2", "b2x", "c2", "a2", "a2x")
			if e := r.Run(t2); e != nil {
				errs = append(errs, "tolerant: "+e.Error())
			}
			got := readTrace(trace)
			os.Remove(trace)
			cs.Impl = fmt.Sprintf("%s|errs=%v", strings.Join(got, ","), errs)
			if strings.Join(got, ",") != strings.Join(want, ",") || len(errs) > 0 {
				cs.Fail, cs.Sig = fmt.Sprintf("commands that ran: %v (errors %v); each service command is a shell of its own, the definitions prescribe %v and no error", got, errs, want), "c06-trace"
			}
			col.Add(cs)
		}
	}
}

// how much a command prints does not decide whether the commands after it run: external programs writing a few hundred
// KiB to stdout or stderr in the middle of a task with two variations and an after hook
func chattyCommandCases(col *Collector) {
	for _, sh := range []struct{ name, cmd string }{
		{"seq to stdout", "seq 1 40000"},
		{"seq to stderr", "seq 1 40000 >&2"},
		{"one 300000-byte line", "head -c 300000 /dev/zero | tr '\\0' x"},
		{"many commands of 50 KiB each", "head -c 50000 /dev/zero | tr '\\0' y"},
	} {
		for _, format := range []string{"raw", "prefixed"} {
			trace := newTracePath()
			t := task.NewTask()
			t.Name = "chatty"
			t.Commands = []string{"echo c0.$V >> " + trace, sh.cmd, sh.cmd, sh.cmd, "echo c4.$V >> " + trace}
			t.Variations = []map[string]string{{"V": "x"}, {"V": "y"}}
			t.After = []string{"echo after >> " + trace}
			want := "c0.x,c4.x,c0.y,c4.y,after"
			cs := Case{Replay: fmt.Sprintf("task with two variations: echo, three times `%s` (%s), echo; after hook; output format %s", sh.cmd, sh.name, format), Tags: []string{"chatty-command"}, NonTrivial: true}
			r, err := runner.NewTaskRunner()
			if err != nil {
				cs.Fail, cs.Sig = err.Error(), "runner-panic"
				col.Add(cs)
				continue
			}
			r.OutputFormat = format
			r.Stdout, r.Stderr = devNull{}, devNull{}
			rerr := r.Run(t)
			got := strings.Join(readTrace(trace), ",")
			os.Remove(trace)
			cs.Impl = fmt.Sprintf("%s|err=%v", got, rerr != nil)
			if got != want || rerr != nil {
				cs.Fail, cs.Sig = fmt.Sprintf("commands that ran: %s (error %v), the task definition prescribes %s and no error", got, rerr, want), "c06-trace"
			}
			col.Add(cs)
		}
	}
}
