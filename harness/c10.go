package main

import (
	"fmt"
	"math/rand"
	"os"
	"path/filepath"
	"strings"
	"time"
)

func init() { props["C10"] = runC10 }

var varLevels = []string{"config", "set", "task", "stage"}

type varSpec struct {
	mask   int
	vals   []string
	stage  bool
	global bool // the config level lives in the user's global file (~/.taskctl/config.yaml) instead of the project file
}

func (s varSpec) line() string {
	var parts []string
	for i, l := range varLevels {
		if s.mask&(1<<uint(i)) != 0 && (s.stage || l != "stage") {
			parts = append(parts, l+"="+strings.ReplaceAll(s.vals[i], "=", "~"))
		}
	}
	return "vars " + strings.Join(parts, " ")
}

func (s varSpec) expected() (string, bool) {
	for i := len(varLevels) - 1; i >= 0; i-- {
		if s.mask&(1<<uint(i)) != 0 && (s.stage || varLevels[i] != "stage") {
			return s.vals[i], true
		}
	}
	return "", false
}

func varCase(col *Collector, s varSpec) {
	dir := newScratchDir("c10")
	defer os.RemoveAll(dir)
	has := func(i int) bool { return s.mask&(1<<uint(i)) != 0 }
	var b strings.Builder
	if has(0) {
		cfgVars := fmt.Sprintf("variables:\n  V: %q\n  OnlyConfig: cfg-only\n", s.vals[0])
		if s.global {
			home := filepath.Join(dir, ".verif-home", ".taskctl")
			os.MkdirAll(home, 0755)
			os.WriteFile(filepath.Join(home, "config.yaml"), []byte(cfgVars), 0644)
		} else {
			b.WriteString(cfgVars)
		}
	}
	b.WriteString("tasks:\n  t:\n")
	if has(2) {
		fmt.Fprintf(&b, "    variables:\n      V: %q\n", s.vals[2])
	}
	b.WriteString("    command:\n      - 'echo \"RESULT V=[{{.V}}] builtins=[{{if .Root}}R{{end}}{{if .TempDir}}T{{end}}{{if eq .Args \"\"}}A{{end}}{{len .ArgsList}}]\"'\n")
	b.WriteString("pipelines:\n  p:\n    - task: t\n")
	if has(3) {
		fmt.Fprintf(&b, "      variables:\n        V: %q\n", s.vals[3])
	}
	os.WriteFile(filepath.Join(dir, "tasks.yaml"), []byte(b.String()), 0644)
	args := []string{"--output", "raw"}
	if has(1) {
		args = append(args, "--set", "V="+s.vals[1])
	}
	if s.stage {
		args = append(args, "p")
	} else {
		args = append(args, "t")
	}
	res := runTaskctl(dir, nil, 20*time.Second, args...)
	cs := Case{Line: s.line(), Tags: []string{"vars", fmt.Sprintf("stage=%v", s.stage), fmt.Sprintf("global=%v", s.global)}}
	cs.Replay = fmt.Sprintf("%s stage=%v global=%v", s.line(), s.stage, s.global)
	cs.NonTrivial = true
	var got string
	for _, l := range strings.Split(res.stdout, "\n") {
		if i := strings.Index(l, "RESULT "); i >= 0 {
			got = strings.TrimSpace(l[i+7:])
		}
	}
	want, defined := s.expected()
	switch {
	case res.panicked || res.timedOut:
		cs.Fail, cs.Sig = fmt.Sprintf("taskctl exit=%d timeout=%v: %s", res.exit, res.timedOut, lastLines(res.stderr, 2)), "c10-crash"
	case !defined:
		// no level defines V: the command must not run with an empty substitution
		cs.Impl = "V=<undefined:failed>"
		if got != "" || res.exit == 0 {
			cs.Impl = "V=" + got
			cs.Fail, cs.Sig = fmt.Sprintf("V is undefined at every level but the command ran (%q, exit %d)", got, res.exit), "c10-undefined-ran"
		}
	default:
		exp := fmt.Sprintf("V=[%s] builtins=[RTA0]", want)
		cs.Impl = "V=" + strings.ReplaceAll(strings.TrimSuffix(strings.TrimPrefix(strings.Fields(got + " V=[<none>]")[0], "V=["), "]"), "=", "~")
		if got != exp {
			sig := "c10-precedence"
			if has(0) && want == s.vals[0] {
				sig = "c10-config-vars-dropped"
			}
			cs.Fail, cs.Sig = fmt.Sprintf("command printed %q (exit %d: %s), expected %q", got, res.exit, lastLines(res.stderr, 1), exp), sig
		}
	}
	col.Add(cs)
}

// ---- arguments after `--` ----

type argSpec struct {
	pre  []string // targets before `--`
	post []string // words after the first `--`
	form string
	// shadow: the configuration file defines variables called Args and ArgsList, and (shadow == 2) the command line
	// passes --set Args=...: what follows `--` still reaches the task as .Args, .ArgsList and $ARGS
	shadow int
}

func argCase(col *Collector, s argSpec, dir string) {
	trace := newTracePath()
	defer os.Remove(trace)
	args := []string{"-c", filepath.Join(dir, "args.yaml"), "--output", "raw"}
	if s.shadow > 0 {
		args[1] = filepath.Join(dir, "args-shadow.yaml")
	}
	if s.shadow == 2 {
		args = append(args, "--set", "Args=from-set", "--set", "ArgsList=set-list")
	}
	switch s.form {
	case "run":
		args = append(args, "run")
	case "run task":
		args = append(args, "run", "task")
	}
	args = append(args, s.pre...)
	args = append(args, "--")
	args = append(args, s.post...)
	res := runTaskctl(dir, []string{"TRACE=" + trace}, 20*time.Second, args...)
	q := func(ws []string) string {
		var p []string
		for _, w := range ws {
			p = append(p, "<"+w+">")
		}
		return strings.Join(p, "")
	}
	cs := Case{Tags: []string{"args", "form=" + s.form, fmt.Sprintf("words=%d", len(s.post)), fmt.Sprintf("shadowed-builtins=%d", s.shadow)}}
	// oracle input: words are hex-free but may contain spaces: encode as a list with a separator that cannot occur
	cs.Line = "args " + strings.Join(append(append(append([]string{}, s.pre...), "--"), s.post...), "\x1f")
	cs.Replay = fmt.Sprintf("taskctl %s %s -- %s", s.form, strings.Join(s.pre, " "), q(s.post))
	if s.shadow > 0 {
		cs.Replay += fmt.Sprintf(" (configuration variables Args and ArgsList defined; --set Args/ArgsList: %v)", s.shadow == 2)
	}
	cs.NonTrivial = len(s.post) >= 2
	lines := readTrace(trace)
	var shown string
	var ranTargets []string
	for _, l := range lines {
		if strings.HasPrefix(l, "SHOW ") {
			shown = l[5:]
			ranTargets = append(ranTargets, "echoargs")
		} else {
			ranTargets = append(ranTargets, l)
		}
	}
	want := fmt.Sprintf("ARGS=[%s] LIST=[%s] ENV=[%s]", strings.Join(s.post, " "), q(s.post), strings.Join(s.post, " "))
	cs.Impl = shown + " targets=" + strings.Join(ranTargets, ",")
	wantTargets := strings.Join(s.pre, ",")
	switch {
	case res.panicked || res.timedOut || res.exit != 0:
		cs.Fail, cs.Sig = fmt.Sprintf("taskctl exit=%d timeout=%v: %s", res.exit, res.timedOut, lastLines(res.stderr, 2)), "c10-args-failed"
	case shown != want:
		cs.Fail, cs.Sig = fmt.Sprintf("task saw %s, the command line gave %s", shown, want), "c10-args-verbatim"
	case strings.Join(ranTargets, ",") != wantTargets:
		cs.Fail, cs.Sig = fmt.Sprintf("targets that ran: %v, expected %v", ranTargets, s.pre), "c10-args-as-target"
	}
	cs.Impl = shown + " targets=" + strings.Join(ranTargets, ",")
	col.Add(cs)
}

const argsConfig = `
tasks:
  echoargs:
    command:
      - 'echo "SHOW ARGS=[{{.Args}}] LIST=[{{range .ArgsList}}<{{.}}>{{end}}] ENV=[$ARGS]" >> $TRACE'
  t1: {command: ["echo t1 >> $TRACE"]}
  a: {command: ["echo a >> $TRACE"]}
`

// ---- a command that refers to an undefined variable ----

// the ways a template can refer to a variable no level defines: printed, tested, piped into a function, ranged over
var undefForms = []string{`[{{.NoSuchVariable}}]`, `[{{ if .NoSuchVariable }}yes{{ end }}]`, `[{{ .NoSuchVariable | default "dflt" }}]`,
	`[{{ with .NoSuchVariable }}{{ . }}{{ end }}]`, `[{{ range .NoSuchVariable }}x{{ end }}]`, `[{{ printf "%v" .NoSuchVariable }}]`}

func undefCase(col *Collector, n, pos int, allow bool, form int) {
	dir := newScratchDir("c10u")
	defer os.RemoveAll(dir)
	trace := filepath.Join(dir, "trace")
	var b strings.Builder
	b.WriteString("tasks:\n  t:\n")
	if allow {
		b.WriteString("    allow_failure: true\n")
	}
	b.WriteString("    command:\n")
	for j := 0; j < n; j++ {
		if j == pos {
			fmt.Fprintf(&b, "      - 'echo m%d-%s >> %s'\n", j, undefForms[form], trace)
		} else {
			fmt.Fprintf(&b, "      - 'echo m%d >> %s'\n", j, trace)
		}
	}
	os.WriteFile(filepath.Join(dir, "tasks.yaml"), []byte(b.String()), 0644)
	res := runTaskctl(dir, nil, 20*time.Second, "--output", "raw", "t")
	ran := readTrace(trace)
	var want []string
	for j := 0; j < pos; j++ {
		want = append(want, fmt.Sprintf("m%d", j))
	}
	cs := Case{Tags: []string{"undefined"}, NonTrivial: true}
	resl := make([]string, n)
	for j := range resl {
		resl[j] = "e0"
	}
	resl[pos] = "x"
	al := 0
	if allow {
		al = 1
	}
	cs.Line = fmt.Sprintf("runner cond=- before=- n=%d vars=- res=%s after=- allow=%d init=0", n, strings.Join(resl, ","), al)
	cs.Replay = fmt.Sprintf("undefined variable in command %d of %d allow=%v, written %s", pos, n, allow, undefForms[form])
	toks := make([]string, len(ran))
	for i, r := range ran {
		toks[i] = strings.Replace(r, "m", "m0.", 1)
	}
	errd := 0
	if res.exit != 0 {
		errd = 1
	}
	cs.Impl = fmt.Sprintf("trace=%s|err=%d|errored=%d|skipped=0|exit=0", strings.Join(toks, ","), errd, errd)
	switch {
	case res.panicked || res.timedOut:
		cs.Fail, cs.Sig = "crash/timeout", "c10-crash"
	case strings.Join(ran, ",") != strings.Join(want, ","):
		cs.Fail, cs.Sig = fmt.Sprintf("commands that ran %v, expected %v (the command with the undefined variable and everything after it must not run)", ran, want), "c10-undefined-ran"
	case res.exit == 0:
		cs.Fail, cs.Sig = "task with an undefined variable reported success", "c10-undefined-success"
	}
	col.Add(cs)
}

func runC10(col *Collector, tier string, seed int64) {
	derivedVarsCases(col, "c10-precedence")
	derivedGenCases(col, rand.New(rand.NewSource(seed+1010)), map[bool]int{false: 40, true: 600}[tier == "thorough"], "c10-precedence")
	rng := rand.New(rand.NewSource(seed))
	col.res.Rule = "the real taskctl binary: every non-empty subset of the four variable levels {configuration file (project or global), --set, task, stage} defining one name x value orders x direct/stage, plus the empty subset (undefined => failure before execution); " +
		"built-ins Root/TempDir/Args/ArgsList; argument vectors of <=5 words after `--` over {a, t1, k=v, -x, --, empty, 'a b', --set, x=y=z} in root and run forms; an undefined variable at every command position. " +
		"non-trivial = all var cases, arg vectors with >=2 words; distinct = distinct specifications"
	var vs []varSpec
	for mask := 0; mask < 16; mask++ {
		for _, stage := range []bool{false, true} {
			for _, ord := range []int{0, 1} {
				s := varSpec{mask: mask, stage: stage, vals: make([]string, 4), global: mask&1 != 0 && (mask+ord)%2 == 0}
				for i := range s.vals {
					r := i
					if ord == 1 {
						r = 3 - i
					}
					s.vals[i] = fmt.Sprintf("%c-%s", 'a'+byte(r*5), varLevels[i])
				}
				vs = append(vs, s)
				// the same case with values that contain "=" (--set NAME=a=b keeps everything after the first "=")
				if ord == 1 && mask != 0 {
					e := s
					e.vals = make([]string, len(s.vals))
					for i, v := range s.vals {
						e.vals[i] = strings.Replace(v, "-", "=", 1) + "=x"
					}
					vs = append(vs, e)
				}
				// the same case with an EMPTY value at the highest defining level: defined, so it hides the levels below
				top := -1
				for i := 3; i >= 0; i-- {
					if mask&(1<<uint(i)) != 0 && (stage || varLevels[i] != "stage") {
						top = i
						break
					}
				}
				if top >= 1 && mask&(mask-1) != 0 && ord == 0 {
					e := s
					e.vals = append([]string(nil), s.vals...)
					e.vals[top] = ""
					vs = append(vs, e)
				}
			}
		}
	}
	dir := newScratchDir("c10a")
	defer os.RemoveAll(dir)
	os.WriteFile(filepath.Join(dir, "args.yaml"), []byte(argsConfig), 0644)
	os.WriteFile(filepath.Join(dir, "args-shadow.yaml"), []byte("variables:\n  Args: from-config\n  ArgsList: config-list\n  Other: x\n"+argsConfig), 0644)
	alphabet := []string{"a", "t1", "k=v", "-x", "--", "", "a b", "--set", "x=y=z", "echoargs"}
	var as []argSpec
	// all vectors of length <=2 over the alphabet, sampled longer ones
	as = append(as, argSpec{pre: []string{"echoargs"}, post: nil, form: "root"})
	for _, w1 := range alphabet {
		as = append(as, argSpec{pre: []string{"echoargs"}, post: []string{w1}, form: []string{"root", "run", "run task"}[rng.Intn(3)]})
		for _, w2 := range alphabet {
			if tier != "thorough" && rng.Intn(3) != 0 {
				continue
			}
			as = append(as, argSpec{pre: []string{"echoargs"}, post: []string{w1, w2}, form: []string{"root", "run", "run task"}[rng.Intn(3)]})
		}
	}
	nl := 40
	if tier == "thorough" {
		nl = 600
	}
	for i := 0; i < nl; i++ {
		k := 3 + rng.Intn(3)
		post := make([]string, k)
		for j := range post {
			post[j] = alphabet[rng.Intn(len(alphabet))]
		}
		pre := []string{"echoargs"}
		if rng.Intn(3) == 0 {
			pre = []string{"t1", "echoargs"}
		}
		as = append(as, argSpec{pre: pre, post: post, form: []string{"root", "run", "run task"}[rng.Intn(3)], shadow: []int{0, 0, 1, 2}[i%4]})
	}
	for _, sh := range []int{1, 2} {
		as = append(as, argSpec{pre: []string{"echoargs"}, post: []string{"a", "b"}, form: "root", shadow: sh}, argSpec{pre: []string{"echoargs"}, post: nil, form: "run", shadow: sh})
	}
	// words that mean something BEFORE the `--` (keywords of `run`, names of sub-commands) are plain words after it
	for ki, kw := range []string{"pipeline", "task", "run", "watch", "list"} {
		for fi, form := range []string{"root", "run", "run task"} {
			as = append(as, argSpec{pre: []string{"echoargs"}, post: []string{kw}, form: form},
				argSpec{pre: []string{"echoargs"}, post: []string{"first", kw, "second"}, form: form, shadow: []int{0, 1, 2}[(ki+fi)%3]},
				argSpec{pre: []string{"echoargs"}, post: []string{kw, "--", kw}, form: form})
		}
	}
	type ud struct {
		n, pos int
		allow  bool
		form   int
	}
	var us []ud
	for n := 1; n <= 3; n++ {
		for pos := 0; pos < n; pos++ {
			for _, allow := range []bool{false, true} {
				us = append(us, ud{n, pos, allow, 0})
				// the other ways of mentioning the variable, rotating over the positions
				for f := 1; f < len(undefForms); f++ {
					if (f+n+pos)%3 == 0 || tier == "thorough" {
						us = append(us, ud{n, pos, allow, f})
					}
				}
			}
		}
	}
	total := len(vs) + len(as) + len(us)
	varsOpsCases(col, rng, map[bool]int{false: 300, true: 6000}[tier == "thorough"], "c10-container")
	for _, taskLevel := range []bool{false, true} {
		sharedVarCase(col, taskLevel)
	}
	for form := 0; form < 4; form++ {
		stageVarsAcrossPipelinesCase(col, form)
	}
	parallel(total, 16, func(i int) {
		switch {
		case i < len(vs):
			varCase(col, vs[i])
		case i < len(vs)+len(as):
			argCase(col, as[i-len(vs)], dir)
		default:
			u := us[i-len(vs)-len(as)]
			undefCase(col, u.n, u.pos, u.allow, u.form)
		}
	})
	col.res.Exhaustive = true
}

// the stage's variables win for EVERY execution in a process: two pipelines (and a third that includes both) whose
// stages have the same (default) name and use the same task with different stage variables, run in one invocation
func stageVarsAcrossPipelinesCase(col *Collector, form int) {
	dir := newScratchDir("c10p")
	defer os.RemoveAll(dir)
	trace := filepath.Join(dir, "trace")
	var b strings.Builder
	fmt.Fprintf(&b, "tasks:\n  greet:\n    variables: {who: task}\n    command:\n      - 'echo \"who={{.who}}\" >> %s'\n", trace)
	b.WriteString("pipelines:\n  p1:\n    - task: greet\n      variables: {who: one}\n  p2:\n    - task: greet\n      variables: {who: two}\n")
	b.WriteString("  p3:\n    - task: greet\n  outer:\n    - pipeline: p1\n    - pipeline: p2\n      depends_on: [p1]\n    - pipeline: p3\n      depends_on: [p2]\n")
	os.WriteFile(filepath.Join(dir, "tasks.yaml"), []byte(b.String()), 0644)
	args := [][]string{{"p1", "p2", "p3", "greet"}, {"outer"}, {"run", "p2", "p1", "p3"}, {"p3", "p1", "p2"}}[form]
	want := []string{"who=one,who=two,who=task,who=task", "who=one,who=two,who=task", "who=two,who=one,who=task", "who=task,who=one,who=two"}[form]
	res := runTaskctl(dir, nil, 30*time.Second, append([]string{"--output", "raw"}, args...)...)
	got := strings.Join(readTrace(trace), ",")
	cs := Case{Tags: []string{"stage-vars-across-pipelines"}, NonTrivial: true,
		Replay: fmt.Sprintf("pipelines p1/p2/p3 each with the unnamed stage `- task: greet` (stage variables who=one / who=two / none; task-level who=task): taskctl %s", strings.Join(args, " "))}
	cs.Impl = got
	switch {
	case res.panicked || res.timedOut || res.exit != 0:
		cs.Fail, cs.Sig = fmt.Sprintf("taskctl exit=%d timeout=%v: %s", res.exit, res.timedOut, lastLines(res.stderr, 2)), "c10-run-failed"
	case got != want:
		cs.Fail, cs.Sig = fmt.Sprintf("commands printed %s, the stage's variables over the task's give %s", got, want), "c10-precedence"
	}
	col.Add(cs)
}

// stage a defines V, stage b (same task, runs after a) does not, then the task is run directly: b and the
// direct run resolve V at the task level (or fail if nothing defines it) — never to a's stage value
func sharedVarCase(col *Collector, taskLevel bool) {
	dir := newScratchDir("c10s")
	defer os.RemoveAll(dir)
	trace := filepath.Join(dir, "trace")
	var b strings.Builder
	b.WriteString("tasks:\n  t:\n")
	if taskLevel {
		b.WriteString("    variables:\n      V: from-task\n")
	} else {
		b.WriteString("    variables:\n      Other: x\n")
	}
	fmt.Fprintf(&b, "    command:\n      - 'echo \"$WHO:{{.V}}\" >> %s'\n", trace)
	b.WriteString("pipelines:\n  p:\n    - name: a\n      task: t\n      env: {WHO: a}\n      variables: {V: from-stage-a}\n")
	b.WriteString("    - name: b\n      task: t\n      depends_on: [a]\n      allow_failure: true\n      env: {WHO: b}\n")
	os.WriteFile(filepath.Join(dir, "tasks.yaml"), []byte(b.String()), 0644)
	runTaskctl(dir, []string{"WHO=direct"}, 20*time.Second, "--output", "raw", "p")
	runTaskctl(dir, []string{"WHO=direct"}, 20*time.Second, "--output", "raw", "t")
	got := strings.Join(readTrace(trace), ",")
	want := "a:from-stage-a"
	if taskLevel {
		want += ",b:from-task,direct:from-task"
	}
	cs := Case{Tags: []string{"shared-task-vars"}, NonTrivial: true, Replay: fmt.Sprintf("stage a defines V, stage b (same task) and a direct run do not; task-level V=%v", taskLevel)}
	cs.Impl = got
	if got != want {
		cs.Fail, cs.Sig = fmt.Sprintf("executions printed %q, expected %q (a stage's variables apply to that stage only)", got, want), "c10-stage-var-leak"
	}
	col.Add(cs)
}
